module jqverif

go 1.22.0

require (
	github.com/alligator/jqawk v0.0.0
	pgregory.net/rapid v1.3.0
)

replace github.com/alligator/jqawk => /repo
