package main

import (
	"fmt"
	"math/rand"
	"strconv"
	"strings"
)

// Seeded grammar-based generator of jqawk programs, root selectors and JSON
// inputs (grammatical, near-grammatical, arbitrary bytes).  Used by the
// "implementation -> spec" drivers (C01-B, C11-B, C12-B, C10).

type gen struct {
	r       *rand.Rand
	inLoop  int
	inFn    bool
	strict  bool // respect the parser's static rules (break in loop, return in function)
	noLoops bool
}

func (g *gen) pick(xs ...string) string { return xs[g.r.Intn(len(xs))] }
func (g *gen) chance(p float64) bool    { return g.r.Float64() < p }

var genVars = []string{"x", "y", "z", "arr", "obj", "n", "s"}

func (g *gen) ident() string { return genVars[g.r.Intn(len(genVars))] }

func (g *gen) literal() string {
	switch g.r.Intn(12) {
	case 0:
		return strconv.Itoa(g.r.Intn(10))
	case 1:
		return strconv.Itoa(g.r.Intn(1000))
	case 2:
		return fmt.Sprintf("%d.%d", g.r.Intn(10), g.r.Intn(100))
	case 3:
		return g.pick(`"a"`, `"abc"`, `""`, `'x,y,z'`, `"5"`, `"2.5"`, `" 1"`, `"1e2"`, `'q'`, `"h\tb"`, `"a\\b"`, `"l1\nl2"`)
	case 4:
		return g.pick("true", "false", "null")
	case 5:
		return g.pick("/a/", "/^x/", "/[0-9]+/", "/(/", "/b|c/")
	case 6:
		return "[" + g.exprList(2, 0, 3) + "]"
	case 7:
		n := g.r.Intn(3)
		parts := []string{}
		for i := 0; i < n; i++ {
			parts = append(parts, g.pick("a", "b", "k", `"k 2"`)+": "+g.expr(1))
		}
		return "{" + strings.Join(parts, ", ") + "}"
	case 8:
		return g.pick("$", "$.a", "$.b", "$[0]", "$.a.b", "$index", "$file", "$.list", "$nope")
	default:
		return g.ident()
	}
}

func (g *gen) exprList(d, min, max int) string {
	n := min + g.r.Intn(max-min+1)
	parts := make([]string, n)
	for i := range parts {
		parts[i] = g.expr(d - 1)
	}
	return strings.Join(parts, ", ")
}

func (g *gen) lvalue(d int) string {
	switch g.r.Intn(6) {
	case 0:
		return g.ident() + "." + g.pick("a", "b", "k")
	case 1:
		return g.ident() + "[" + g.expr(d-1) + "]"
	case 2:
		return "$." + g.pick("a", "b", "c") + g.pick("", ".d", "[1]", "[5]")
	case 3:
		return g.ident() + "." + g.pick("a", "b") + "." + g.pick("c", "d") + g.pick("", "[0]", "[2]")
	case 4:
		return "$"
	default:
		return g.ident()
	}
}

func (g *gen) expr(d int) string {
	if d <= 0 {
		return g.literal()
	}
	switch g.r.Intn(22) {
	case 0, 1:
		return g.literal()
	case 2:
		return g.pick("!", "-", "+", "!!") + g.expr(d-1)
	case 3, 4, 5, 6:
		op := g.pick("+", "-", "*", "/", "%", "==", "!=", "<", "<=", ">", ">=", "&&", "||", "~", "!~")
		return g.expr(d-1) + " " + op + " " + g.expr(d-1)
	case 7:
		return g.expr(d-1) + " is " + g.pick("string", "bool", "number", "array", "object", "regex", "function", "null", "unknown", "foo")
	case 8:
		return "(" + g.expr(d-1) + ")"
	case 9:
		return g.expr(d-1) + "." + g.pick("a", "b", "k", "length", "x")
	case 10:
		return g.expr(d-1) + "[" + g.expr(d-1) + "]"
	case 11:
		return g.pick("f", "g", "h") + "(" + g.exprList(d, 0, 3) + ")"
	case 12, 13:
		m := g.pick("length()", "push("+g.expr(d-1)+")", "pop()", "popfirst()", "contains("+g.expr(d-1)+")", "sort()",
			"split("+g.expr(d-1)+")", "upper()", "lower()", "floor()", "ceil()", "round()", "pluck("+g.exprList(d, 0, 2)+")", "length", "nosuch()")
		return g.expr(d-1) + "." + m
	case 14:
		switch g.r.Intn(4) {
		case 0:
			return "printf(" + g.pick(`"%s"`, `"%f\n"`, `"%v "`, `"%5s|"`, `"%-5f|"`, `"%05s"`, `"%"`, `"%d"`, `"a%%b"`, `"%99999s"`, `"%s %s"`) + ", " + g.exprList(d, 0, 2) + ")"
		case 1:
			return "json(" + g.expr(d-1) + ")"
		case 2:
			return "num(" + g.exprList(d, 0, 2) + ")"
		default:
			return g.pick("printf", "json", "num") + "(" + g.exprList(d, 0, 2) + ")"
		}
	case 15, 16:
		return g.lvalue(d) + " " + g.pick("=", "+=", "-=", "*=", "/=") + " " + g.expr(d-1)
	case 17:
		if g.chance(0.5) {
			return g.lvalue(d) + g.pick("++", "--")
		}
		return g.pick("++", "--") + g.lvalue(d)
	case 18:
		return g.matchExpr(d)
	default:
		return g.literal()
	}
}

func (g *gen) pattern(d int) string {
	switch g.r.Intn(5) {
	case 0:
		return g.ident()
	case 1:
		if d > 0 {
			n := g.r.Intn(3)
			parts := make([]string, n)
			for i := range parts {
				parts[i] = g.pattern(d - 1)
			}
			return "[" + strings.Join(parts, ", ") + "]"
		}
		return "[]"
	default:
		return g.pick("1", "2", `"a"`, "null", "true", "0")
	}
}

func (g *gen) matchExpr(d int) string {
	var sb strings.Builder
	sb.WriteString("match (" + g.expr(d-1) + ") {")
	n := 1 + g.r.Intn(3)
	for i := 0; i < n; i++ {
		sb.WriteString(" " + g.pattern(1))
		if g.chance(0.3) {
			sb.WriteString(", " + g.pattern(1))
		}
		sb.WriteString(" => ")
		if g.chance(0.4) {
			sb.WriteString(g.block(d-1, 2))
		} else {
			sb.WriteString(g.expr(d - 1))
		}
		if i < n-1 {
			sb.WriteString(g.pick(",", "\n", ",\n"))
		}
	}
	sb.WriteString(" }")
	return sb.String()
}

func (g *gen) block(d, max int) string {
	n := g.r.Intn(max + 1)
	parts := make([]string, n)
	for i := range parts {
		parts[i] = g.stmt(d)
	}
	sep := g.pick("\n", "; ", "\n")
	return "{ " + strings.Join(parts, sep) + " }"
}

func (g *gen) stmt(d int) string {
	if d <= 0 {
		switch g.r.Intn(4) {
		case 0:
			return "print " + g.exprList(1, 0, 2)
		case 1:
			return g.signal()
		default:
			return g.expr(1)
		}
	}
	switch g.r.Intn(16) {
	case 0, 1, 2:
		return "print " + g.exprList(d, 0, 3)
	case 3, 4, 5:
		return g.expr(d)
	case 6:
		s := "if (" + g.expr(d-1) + ") " + g.stmtOrBlock(d-1)
		if g.chance(0.5) {
			s += "\nelse " + g.stmtOrBlock(d-1)
		}
		return s
	case 7:
		if g.noLoops {
			return g.expr(d)
		}
		g.inLoop++
		defer func() { g.inLoop-- }()
		if g.chance(0.6) {
			return "n = 0\nwhile (n < " + strconv.Itoa(g.r.Intn(4)) + ") { n++; " + g.stmt(d-1) + " }"
		}
		return "while (" + g.expr(d-1) + ") " + g.stmtOrBlock(d-1)
	case 8:
		if g.noLoops {
			return g.expr(d)
		}
		g.inLoop++
		defer func() { g.inLoop-- }()
		if g.chance(0.7) {
			return "for (i = 0; i < " + strconv.Itoa(g.r.Intn(4)) + "; i++) " + g.stmtOrBlock(d-1)
		}
		return "for (" + g.expr(d-1) + "; " + g.expr(d-1) + "; " + g.expr(d-1) + ") " + g.stmtOrBlock(d-1)
	case 9, 10:
		g.inLoop++
		defer func() { g.inLoop-- }()
		head := g.pick("v", "k, v", "c, i")
		return "for (" + head + " in " + g.pick(g.expr(d-1), "[1, 2, 3]", "$", "$.list", `"abc"`, "{a: 1, b: 2}", "arr", "obj") + ") " + g.stmtOrBlock(d-1)
	case 11:
		return g.block(d-1, 3)
	case 12, 13:
		return g.signal()
	default:
		return g.expr(d)
	}
}

func (g *gen) stmtOrBlock(d int) string {
	if g.chance(0.6) {
		return g.block(d, 3)
	}
	return g.stmt(d)
}

func (g *gen) signal() string {
	opts := []string{"next", "exit"}
	if g.inLoop > 0 || (!g.strict && g.chance(0.1)) {
		opts = append(opts, "break", "continue", "break", "continue")
	}
	if g.inFn || (!g.strict && g.chance(0.1)) {
		opts = append(opts, "return", "return "+g.expr(1), "return "+g.expr(1))
	}
	return opts[g.r.Intn(len(opts))]
}

func (g *gen) program() string {
	var sb strings.Builder
	nf := g.r.Intn(4)
	for i := 0; i < nf; i++ {
		name := []string{"f", "g", "h"}[i%3]
		params := g.pick("", "a", "a, b", "x", "x, y, z")
		g.inFn = true
		saved := g.inLoop
		g.inLoop = 0
		sb.WriteString("function " + name + "(" + params + ") " + g.block(2, 4) + "\n")
		g.inLoop = saved
		g.inFn = false
	}
	nr := 1 + g.r.Intn(5)
	for i := 0; i < nr; i++ {
		switch g.r.Intn(9) {
		case 0:
			sb.WriteString("BEGIN " + g.block(2, 4) + "\n")
		case 1:
			sb.WriteString("END " + g.block(2, 4) + "\n")
		case 2:
			sb.WriteString("BEGINFILE " + g.block(2, 3) + "\n")
		case 3:
			sb.WriteString("ENDFILE " + g.block(2, 3) + "\n")
		case 4:
			sb.WriteString(g.expr(2) + "\n")
		case 5, 6:
			sb.WriteString(g.expr(2) + " " + g.block(2, 4) + "\n")
		default:
			sb.WriteString(g.block(3, 4) + "\n")
		}
	}
	return sb.String()
}

// mutate makes a near-grammatical text: token-ish insert / delete / swap / duplicate.
func (g *gen) mutate(s string) string {
	toks := strings.Fields(s)
	if len(toks) == 0 {
		return s
	}
	junk := []string{"(", ")", "{", "}", "[", "]", ",", ";", "=", "==", "+", "-", "*", "/", "%", "!", "~", "=>", "&&", "||", ".", ":", "@", "\"", "'", "$",
		"if", "else", "for", "in", "while", "match", "function", "return", "break", "continue", "next", "exit", "print", "is", "BEGIN", "END", "\xc3\xa9", "\xff", "#", "\n", "1e5", "0x1", "1..2", "--", "++"}
	for k := 0; k < 1+g.r.Intn(3); k++ {
		i := g.r.Intn(len(toks))
		switch g.r.Intn(4) {
		case 0:
			toks = append(toks[:i], toks[i+1:]...)
		case 1:
			toks = append(toks[:i], append([]string{junk[g.r.Intn(len(junk))]}, toks[i:]...)...)
		case 2:
			j := g.r.Intn(len(toks))
			toks[i], toks[j] = toks[j], toks[i]
		case 3:
			toks[i] = junk[g.r.Intn(len(junk))]
		}
		if len(toks) == 0 {
			break
		}
	}
	return strings.Join(toks, g.pick(" ", " ", "\n"))
}

func (g *gen) randomBytes(max int) string {
	n := g.r.Intn(max + 1)
	b := make([]byte, n)
	alphabet := []byte("{}[]()$.,;:=+-*/%!~<>&|'\"#\\ \n\tabcxyz019ifBEGINprint\x00\xff\xc3\xa9")
	for i := range b {
		if g.chance(0.8) {
			b[i] = alphabet[g.r.Intn(len(alphabet))]
		} else {
			b[i] = byte(g.r.Intn(256))
		}
	}
	return string(b)
}

func (g *gen) jsonValue(d int) string {
	if d <= 0 {
		return g.pick("1", "0", "-3.5", "1e3", "true", "false", "null", `"a"`, `"x,y"`, `""`, `"5"`, `"é\n\"q\""`, "12345678901234567890", "[]", "{}")
	}
	switch g.r.Intn(5) {
	case 0, 1:
		n := g.r.Intn(4)
		parts := make([]string, n)
		for i := range parts {
			parts[i] = g.jsonValue(d - 1)
		}
		return "[" + strings.Join(parts, g.pick(",", ", ", ",\n")) + "]"
	case 2, 3:
		keys := []string{"a", "b", "c", "list", "d", "k 2"}
		n := g.r.Intn(4)
		parts := make([]string, 0, n)
		g.r.Shuffle(len(keys), func(i, j int) { keys[i], keys[j] = keys[j], keys[i] })
		for i := 0; i < n; i++ {
			parts = append(parts, strconv.Quote(keys[i])+": "+g.jsonValue(d-1))
		}
		return "{" + strings.Join(parts, ", ") + "}"
	default:
		return g.jsonValue(0)
	}
}

// input returns an input byte stream: valid JSON, JSONL, truncated, garbage or empty.
func (g *gen) input() string {
	switch g.r.Intn(10) {
	case 0:
		return ""
	case 1:
		v := g.jsonValue(3)
		if len(v) > 1 {
			return v[:g.r.Intn(len(v))]
		}
		return v
	case 2:
		return g.randomBytes(40)
	case 3, 4:
		n := 1 + g.r.Intn(3)
		parts := make([]string, n)
		for i := range parts {
			parts[i] = g.jsonValue(2)
		}
		return strings.Join(parts, g.pick("\n", " ", "\n\n"))
	case 5:
		return g.jsonValue(2) + g.pick(" ]", " }", " x", ",")
	default:
		return g.jsonValue(3)
	}
}

func (g *gen) selector() string {
	switch g.r.Intn(8) {
	case 0:
		return g.expr(2)
	case 1:
		return g.mutate(g.expr(2))
	case 2:
		return g.matchExpr(2)
	default:
		return g.pick("$", "$.a", "$.list", "$[0]", "$.a.b", "[$, 1]", "$.nope")
	}
}
