package main

import (
	"bytes"
	"context"
	"encoding/json"
	"fmt"
	"math/rand"
	"os"
	"os/exec"
	"path/filepath"
	"strings"
	"time"
)

// C03, family (F): output of arbitrary shape (spec/JqStreamOut.tla, spec/MC_StreamOut.tla).
//
// The values of the stream are arrays of strings and the program writes each
// element as one piece (printf("%s", ..)) or one line (print), from a pattern
// rule, a BEGINFILE rule or an ENDFILE rule, so that the bytes a value puts out
// are data: nothing, text without a newline, a newline in front / at the end /
// alone, an empty piece.  TLC runs every such stream x fault through the
// reader / decoder / writer system of JqStreamOut (every chunking, every
// gathering of pieces the writer side may do) and emits per (stream, fault)
// the bytes the caller's writer must hold after k values, the per-prefix
// bounds and the boundary-relevant chunkings.  Each vector is replayed through
// lang.EvalProgram with the scheduled reader: at every Read call the bytes
// already on the caller's writer must be exactly the output of k leading
// values, MustCount(d) <= k <= MayCount(d), byte for byte; at the end the
// outcome and the whole output are compared.

type c03OutVec struct {
	Stream []string     `json:"stream"`
	Fault  c03Fault     `json:"fault"`
	Lim    int          `json:"lim"`
	Mode   string       `json:"mode"`
	Vals   [][]int      `json:"vals"`
	Pieces [][][]string `json:"pieces"`
	Cum    []int        `json:"cum"`
	Out    []string     `json:"out"`
	Exp    struct {
		Outcome string `json:"outcome"`
		Lo      int    `json:"lo"`
		Hi      int    `json:"hi"`
	} `json:"exp"`
	Must    []int   `json:"must"`
	May     []int   `json:"may"`
	Cutsets [][]int `json:"cutsets"`
}

func init() {
	jobKinds["c03out"] = c03ExecOutVec
}

// c03OutProgram: the rule kind that writes (0 pattern rule, 1 BEGINFILE, 2 ENDFILE) x printf / print
func c03OutProgram(mode string, rule int) string {
	stmt := `printf("%s", p)`
	if mode == "print" {
		stmt = `print p`
	}
	switch rule {
	case 0:
		if mode == "print" {
			return `{ print $ }`
		}
		return `{ printf("%s", $) }`
	case 1:
		return `BEGINFILE { for (p in $) ` + stmt + ` }`
	default:
		return `ENDFILE { for (p in $) ` + stmt + ` }`
	}
}

// c03OutJudge: one run against the vector.  name == "" = ok.
func c03OutJudge(v *c03OutVec, out []byte, r *Result) (k int, name, why string) {
	switch r.Class {
	case "ok", "json":
	case "budget", "timeout":
		return -1, "inconclusive", r.Class
	default:
		return -1, "out-class", "run ended with class " + r.Class + ": " + r.ErrMsg + r.Detail
	}
	nvals := len(v.Vals)
	find := func(o, lo, hi int) int {
		for k := lo; k <= hi && k < len(v.Cum); k++ {
			if v.Cum[k] == o {
				return k
			}
		}
		return -1
	}
	ended := false
	for _, e := range r.Events {
		switch e.E {
		case "ReadCall":
			d, o := e.A, e.B
			if d < 0 || d > v.Lim || d >= len(v.Must) {
				return -1, "out-reader", fmt.Sprintf("reader handed out %d bytes, limit %d", d, v.Lim)
			}
			upper := v.May[d]
			if ended {
				upper = nvals
			}
			if o < v.Cum[v.Must[d]] {
				return -1, "out-incremental", fmt.Sprintf("blocked in Read with %d bytes delivered: %d value(s) and a following byte have been read, their output is %d bytes (%q), but only %d bytes (%q) have reached the writer",
					d, v.Must[d], v.Cum[v.Must[d]], out[:v.Cum[v.Must[d]]], o, r.Stdout[:min(o, len(r.Stdout))])
			}
			if o > v.Cum[upper] {
				return -1, "out-speculation", fmt.Sprintf("with %d bytes delivered %d bytes of output were written, the %d complete value(s) put out %d", d, o, upper, v.Cum[upper])
			}
			if find(o, v.Must[d], upper) < 0 || o > len(r.Stdout) || !bytes.Equal(r.Stdout[:o], out[:o]) {
				return -1, "out-partial", fmt.Sprintf("at a Read call with %d bytes delivered the %d bytes on the writer (%q) are not the output of a whole number of leading values", d, o, r.Stdout[:min(o, len(r.Stdout))])
			}
		case "ReadRet":
			if e.S == "eof" {
				ended = true
			}
		}
	}
	if len(r.Stdout) > len(out) || !bytes.Equal(r.Stdout, out[:len(r.Stdout)]) {
		return -1, "out-output", "stdout is not a prefix of the outputs of the values processed one after another"
	}
	if r.Class == "json" && r.FileName != c03File {
		return -1, "json-error-file", fmt.Sprintf("JsonError names %q, not the file %q", r.FileName, c03File)
	}
	k = find(len(r.Stdout), v.Exp.Lo, v.Exp.Hi)
	if r.Class != v.Exp.Outcome || k < 0 {
		return -1, "out-outcome", fmt.Sprintf("expected outcome %s with the output of %d..%d values (%v bytes), got %s with %d bytes", v.Exp.Outcome, v.Exp.Lo, v.Exp.Hi, v.Cum, r.Class, len(r.Stdout))
	}
	return k, "", ""
}

func c03ExecOutVec(j *Job) (res Result) {
	res.Class = "ok"
	var probs []c03Problem
	add := func(kind, name string, d map[string]any) {
		if len(probs) < 4 {
			probs = append(probs, c03Problem{kind, name, d})
		}
	}
	defer func() {
		for _, p := range probs {
			b, _ := json.Marshal(p)
			res.Out = append(res.Out, string(b))
		}
	}()
	var v c03OutVec
	if err := json.Unmarshal([]byte(j.Tag), &v); err != nil {
		add("model", "bad-vector", map[string]any{"err": err.Error()})
		return
	}
	data := c03Bytes(v.Stream)
	out := c03Bytes(v.Out)
	readable := data[:v.Lim]
	// the model's scanner and its reading of the pieces against the trusted library
	spans, _, _ := c03Oracle(readable)
	same := len(spans) == len(v.Vals) && len(v.Pieces) == len(v.Vals) && len(v.Cum) == len(v.Vals)+1
	for i := 0; same && i < len(spans); i++ {
		same = len(v.Vals[i]) == 2 && spans[i][0] == v.Vals[i][0] && spans[i][1] == v.Vals[i][1]
		var elems []string
		if same && json.Unmarshal(data[spans[i][0]-1:spans[i][1]], &elems) != nil {
			same = false
		}
		same = same && len(elems) == len(v.Pieces[i])
		for p := 0; same && p < len(elems); p++ {
			want := elems[p]
			if v.Mode == "print" {
				want += "\n"
			}
			same = string(c03Bytes(v.Pieces[i][p])) == want
		}
	}
	if !same {
		add("model", "out-model-vs-encoding/json", map[string]any{"stream": string(data), "lim": v.Lim, "model_vals": v.Vals, "lib_vals": spans, "pieces": v.Pieces})
		return
	}
	runs := 0
	firstK, firstClass := -2, ""
	for _, cuts := range v.Cutsets {
		chunks := c03ChunksFromCuts(cuts)
		for rule := 0; rule < 3; rule++ {
			prog := c03OutProgram(v.Mode, rule)
			fi := FileIn{Name: c03File, Data: data, Chunks: chunks}
			if v.Fault.Kind == "eof" || v.Fault.Kind == "ioerr" {
				fi.Fault, fi.FaultAt = v.Fault.Kind, v.Fault.At
			}
			r := execRun(&Job{Kind: "run", Prog: []byte(prog), Files: []FileIn{fi}, IO: true})
			runs++
			k, name, why := c03OutJudge(&v, out, &r)
			if name == "inconclusive" {
				add("inconclusive", name, nil)
				continue
			}
			rep := map[string]any{"stream": string(data), "stream_bytes": data, "fault": v.Fault, "chunks": chunks, "why": why,
				"program": prog, "got_class": r.Class, "got_stdout": string(r.Stdout), "got_msg": r.ErrMsg, "got_file": r.FileName,
				"expected": v.Exp, "expected_output_bytes_after_k_values": v.Cum, "expected_output": string(out), "events": r.Events}
			if name != "" {
				add("violation", name, rep)
				continue
			}
			if firstK == -2 {
				firstK, firstClass = k, r.Class
			} else if r.Class != firstClass || v.Cum[k] != v.Cum[firstK] {
				rep["why"] = fmt.Sprintf("result depends on the chunking / the rule that writes: %s after %d values here, %s after %d values before", r.Class, k, firstClass, firstK)
				add("violation", "out-chunk-dependent", rep)
			}
		}
	}
	res.Depth = runs
	return
}

// c03Outs: family (F).
func c03Outs(c *Ctx, handle func([]string) bool) {
	pool := c.Pool()
	maxVals, mod2, mod3 := 2, 120, 16
	if c.Thorough() {
		maxVals, mod2, mod3 = 3, 8, 16
	}
	salt := int((c.Seed%1000+1000)%1000)*11 + 3
	t0 := time.Now()
	nvec := 0
	st := pool.NewStream(func(j *Job, r Result) {
		var v c03OutVec
		VecDecode([]byte(j.Tag), &v)
		data := c03Bytes(v.Stream)
		switch r.Class {
		case "ok":
		case "timeout":
			c.Count("inconclusive", 1)
			return
		default:
			c.Violation("out-crash", map[string]any{"stream": string(data), "fault": v.Fault, "class": r.Class, "detail": r.Detail})
			return
		}
		handle(r.Out)
		c.Count("out_shape_runs", int64(r.Depth))
		out := string(c03Bytes(v.Out))
		c.Case(fmt.Sprintf("out:%s|%s|%s|%d", v.Mode, data, v.Fault.Kind, v.Fault.At), len(v.Vals) >= 1 && !strings.HasSuffix(out, "\n"))
		nvec++
		if nvec%997 == 1 {
			c.Sample(map[string]any{"family": "output shapes", "stream": string(data), "fault": v.Fault, "mode": v.Mode,
				"output_bytes_after_k_values": v.Cum, "output": out, "chunkings": len(v.Cutsets)})
		}
	})
	res := c.TLC(TLCOpt{Module: "MC_StreamOut", Workers: 8, Heap: "4g",
		Cfg: cfgText("INIT Init", "NEXT Next", "CONSTANTS", "Deviations = {}",
			fmt.Sprintf("MaxVals = %d", maxVals), fmt.Sprintf("Mod2 = %d", mod2), fmt.Sprintf("Mod3 = %d", mod3), fmt.Sprintf("Salt = %d", salt),
			"INVARIANT BuildLaw", "INVARIANT InvTypeOK", "INVARIANT InvIncremental", "INVARIANT InvNoSpeculation", "INVARIANT InvChunkIndep",
			"INVARIANT InvFaultReported", "INVARIANT InvOutOrdered", "INVARIANT InvOutWritten", "INVARIANT InvOutObservable",
			"INVARIANT Terminates", "INVARIANT Vec", "CHECK_DEADLOCK FALSE"),
		OnVec: func(raw []byte) {
			st.Submit(Job{Kind: "c03out", Tag: string(raw)})
		}})
	st.Wait()
	c.Set("out_shape_vectors", res.Vectors)
	c.Set("wall_F_s", time.Since(t0).Seconds())
	c.Set("bounds_F", map[string]any{"MaxVals": maxVals, "Mod2": mod2, "Mod3": mod3, "Salt": salt})
}

// c03StdinKinds: the binary with no file argument, stdin redirected from each kind of object that is not a
// terminal: a regular file (random stream, whole or truncated), and the character devices /dev/zero (an endless
// run of NUL bytes: malformed at its first byte) and /dev/null (empty).  The expectation is the Go port of
// JqStream's Expected over encoding/json's spans of the bytes the object delivers (for the endless device: of a
// prefix that contains the malformed byte; by PrefixLaw no later byte can change it).
func c03StdinKinds(c *Ctx, rng *rand.Rand, n int) {
	pool := c.Pool()
	dir := c.TempDir("c03stdin")
	for i := 0; i < n; i++ {
		kind := []string{"dev-zero", "file", "dev-null", "file-truncated"}[i%4]
		var data []byte
		path := ""
		switch kind {
		case "dev-zero":
			data, path = make([]byte, 64), "/dev/zero"
		case "dev-null":
			path = "/dev/null"
		default:
			data = c03RandStream(rng, 1+rng.Intn(5))
			if kind == "file-truncated" {
				data = data[:rng.Intn(len(data))]
			}
			path = filepath.Join(dir, fmt.Sprintf("in%d.json", i))
			if err := os.WriteFile(path, data, 0o644); err != nil {
				infra("write: %v", err)
			}
		}
		spans, errAt, open := c03Oracle(data)
		m := c03GoModel(data, c03Fault{Kind: "none"}, spans, errAt, open)
		jobs := make([]Job, len(spans))
		texts := make([]string, len(spans))
		for k, sp := range spans {
			texts[k] = string(data[sp[0]-1 : sp[1]])
			jobs[k] = Job{Kind: "run", Prog: c03PipeProg, Files: []FileIn{{Name: "<stdin>", Data: []byte(texts[k])}}}
		}
		outs := make([][]byte, len(spans))
		okAll := true
		pool.Map(jobs, func(k int, r Result) {
			okAll = c03SingleOK(c, texts[k], r) && okAll
			outs[k] = r.Stdout
		})
		if !okAll {
			continue
		}
		var want []byte
		for _, o := range outs {
			want = append(want, o...)
		}
		f, err := os.Open(path)
		if err != nil {
			infra("open %s: %v", path, err)
		}
		ctx, cancel := context.WithTimeout(context.Background(), 60*time.Second)
		cmd := exec.CommandContext(ctx, c.Bin(), string(c03PipeProg))
		cmd.Stdin = f
		var stdout, stderr bytes.Buffer
		cmd.Stdout, cmd.Stderr = &stdout, &stderr
		runErr := cmd.Run()
		timedOut := ctx.Err() != nil
		cancel()
		f.Close()
		exit := 0
		if runErr != nil {
			exit = -1
			if ee, ok := runErr.(*exec.ExitError); ok {
				exit = ee.ExitCode()
			}
		}
		rep := map[string]any{"command": fmt.Sprintf("jqawk %q < %s", c03PipeProg, path), "stdin_kind": kind, "stdin_bytes": c03Clip(data, 200),
			"exit": exit, "stdout": stdout.String(), "stderr": stderr.String(), "expected_stdout": string(want), "expected_outcome": m.outcome}
		switch {
		case timedOut:
			c.Count("inconclusive", 1)
		case hasCrashMarks(stderr.Bytes()):
			rep["why"] = "crash"
			c.Violation("stdin-kind", rep)
		case !bytes.Equal(stdout.Bytes(), want):
			rep["why"] = "stdout is not the output of the complete values that stdin delivers"
			c.Violation("stdin-kind", rep)
		case m.outcome == "ok" && exit != 0:
			rep["why"] = "a well-formed stream on stdin ended with a non-zero status"
			c.Violation("stdin-kind", rep)
		case m.outcome == "json" && exit == 0:
			rep["why"] = "malformed / truncated input on stdin ended the run with status 0: it was taken for the end of input (or for no input at all)"
			c.Violation("stdin-kind", rep)
		case m.outcome == "json" && !strings.Contains(stderr.String(), "<stdin>"):
			rep["why"] = "the error does not name <stdin>"
			c.Violation("stdin-kind", rep)
		default:
			c.Case(fmt.Sprintf("stdin:%s:%s", kind, data), true)
			c.Count("stdin_kind_runs", 1)
		}
	}
}
