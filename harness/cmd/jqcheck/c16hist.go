package main

import (
	"fmt"
	"strings"
)

// Vectors of MC_SplitHist: histories of split calls whose results stay alive.
type c16HistOp struct {
	Op  string   `json:"op"`
	V   int      `json:"v"`
	S   []string `json:"s"`
	Sep []string `json:"sep"`
	K   int      `json:"k"`
}

type c16HistSnap struct {
	Bound  bool       `json:"bound"`
	Pieces [][]string `json:"pieces"`
}

type c16HistCall struct {
	S   []string `json:"s"`
	Sep []string `json:"sep"`
}

type c16HistVec struct {
	Fam string `json:"fam"`
	// hist
	Ops []c16HistOp     `json:"ops"`
	Obs [][]c16HistSnap `json:"obs"`
	// nest
	S      []string     `json:"s"`
	Rows   [][]string   `json:"rows"`
	Fields [][][]string `json:"fields"`
	// tuple
	Calls   []c16HistCall `json:"calls"`
	Results [][][]string  `json:"results"`
}

func c16StrList(ps [][]string) []any {
	out := make([]any, len(ps))
	for i, p := range ps {
		out[i] = string(symsToBytes(p))
	}
	return out
}

// c16HistCases renders one vector of MC_SplitHist as programs; every program prints one JSON text per
// line and the case carries what each line must parse to (the specification's observation).
func c16HistCases(raw []byte) []c16Case {
	var v c16HistVec
	VecDecode(raw, &v)
	var out []c16Case
	switch v.Fam {
	case "hist":
		if len(v.Ops) != len(v.Obs) {
			infra("C16: history vector with %d operations and %d observations", len(v.Ops), len(v.Obs))
		}
		var lines []any
		nbound := make([]int, len(v.Obs))
		for i, snap := range v.Obs {
			var line []any
			for _, sv := range snap {
				if sv.Bound {
					if len(line) != nbound[i] {
						infra("C16: history vector: the bound variables are not a prefix")
					}
					line = append(line, c16StrList(sv.Pieces))
					nbound[i]++
				}
			}
			lines = append(lines, line)
		}
		type mode struct {
			name, pre string
			vars      []string
			fn, doc   bool
		}
		modes := []mode{
			{name: "variables, literal texts", vars: []string{"a", "b", "c", "d"}},
			{name: "variables, texts of the document", vars: []string{"a", "b", "c", "d"}, doc: true},
			{name: "members of an object", pre: "o = {}; ", vars: []string{"o.a", "o.b", "o.c", "o.d"}},
			{name: "results returned by a function", vars: []string{"a", "b", "c", "d"}, fn: true},
		}
		for _, m := range modes {
			var sb, desc strings.Builder
			var docCalls []map[string]string
			sb.WriteString(m.pre)
			for i, op := range v.Ops {
				if op.V < 1 || op.V > len(m.vars) {
					infra("C16: history vector: variable %d", op.V)
				}
				name := m.vars[op.V-1]
				stmt := ""
				switch op.Op {
				case "call":
					s, sep := symsToBytes(op.S), symsToBytes(op.Sep)
					recv, arg := c16Quote(s), c16Quote(sep)
					if m.doc {
						recv, arg = fmt.Sprintf("$.c[%d].s", len(docCalls)), fmt.Sprintf("$.c[%d].sep", len(docCalls))
						docCalls = append(docCalls, map[string]string{"s": string(s), "sep": string(sep)})
					}
					if m.fn {
						stmt = name + " = sp(" + recv + ", " + arg + ")"
					} else {
						stmt = name + " = " + recv + ".split(" + arg + ")"
					}
					fmt.Fprintf(&desc, "%s = %q.split(%q); ", name, s, sep)
				case "write":
					stmt = fmt.Sprintf("%s[%d] = \"W\"", name, op.K)
					desc.WriteString(stmt + "; ")
				default:
					infra("C16: history operation %q", op.Op)
				}
				sb.WriteString(stmt + "; print [" + strings.Join(m.vars[:nbound[i]], ", ") + "]; ")
			}
			cs := c16Case{Fam: "splith", Sub: "split-history", JSONLines: lines,
				Desc: "every result of split observed after every step (" + m.name + "): " + desc.String()}
			body := strings.TrimSuffix(sb.String(), " ")
			switch {
			case m.doc:
				cs.Prog, cs.Doc = "{ "+body+" }", c16JSON(map[string]any{"c": docCalls})
			case m.fn:
				cs.Prog = "function sp(s, sep) { return s.split(sep) } BEGIN { " + body + " }"
			default:
				cs.Prog = "BEGIN { " + body + " }"
			}
			out = append(out, cs)
		}
	case "nest":
		s := symsToBytes(v.S)
		if len(v.Rows) != len(v.Fields) {
			infra("C16: nest vector %s", raw)
		}
		var lines []any
		for i, row := range v.Rows {
			lines = append(lines, []any{string(symsToBytes(row)), c16StrList(v.Fields[i])})
		}
		doc := c16JSON(map[string]string{"s": string(s)})
		shapes := [][3]string{
			{"for (row in S.split(\";\")) over the literal text", "BEGIN { for (row in " + c16Quote(s) + ".split(\";\")) { f = row.split(\",\"); print [row, f] } }", ""},
			{"for (row in $.s.split(\";\"))", "{ for (row in $.s.split(\";\")) { f = row.split(\",\"); print [row, f] } }", doc},
			{"rows kept in a variable, walked by index", "{ rows = $.s.split(\";\"); for (i = 0; i < rows.length(); i++) { f = rows[i].split(\",\"); print [rows[i], f] } }", doc},
			{"fields walked by an inner for-in", "{ for (row in $.s.split(\";\")) { f = []; for (x in row.split(\",\")) { y = x.split(\"\"); f.push(x) } print [row, f] } }", doc},
		}
		for _, sh := range shapes {
			out = append(out, c16Case{Fam: "splith", Sub: "split-nested", JSONLines: lines, Prog: sh[1], Doc: sh[2],
				Desc: fmt.Sprintf("rows and fields of %q: %s", s, sh[0])})
		}
	case "tuple":
		if len(v.Calls) != len(v.Results) || len(v.Calls) == 0 {
			infra("C16: tuple vector %s", raw)
		}
		var line []any
		var lit, ref []string
		var docCalls []map[string]string
		for i, cl := range v.Calls {
			s, sep := symsToBytes(cl.S), symsToBytes(cl.Sep)
			line = append(line, c16StrList(v.Results[i]))
			lit = append(lit, c16Quote(s)+".split("+c16Quote(sep)+")")
			ref = append(ref, fmt.Sprintf("$.c[%d].s.split($.c[%d].sep)", i, i))
			docCalls = append(docCalls, map[string]string{"s": string(s), "sep": string(sep)})
		}
		out = append(out,
			c16Case{Fam: "splith", Sub: "split-operands", JSONLines: []any{line}, Desc: "results of split as elements of one array literal: [" + strings.Join(lit, ", ") + "]",
				Prog: "BEGIN { print [" + strings.Join(lit, ", ") + "] }"},
			c16Case{Fam: "splith", Sub: "split-operands", JSONLines: []any{line}, Desc: "results of split as elements of one array literal (texts of the document): [" + strings.Join(lit, ", ") + "]",
				Prog: "{ print [" + strings.Join(ref, ", ") + "] }", Doc: c16JSON(map[string]any{"c": docCalls})})
	default:
		infra("C16: unknown vector family %q of MC_SplitHist", v.Fam)
	}
	return out
}
