package main

import (
	"bytes"
	"encoding/json"
	"fmt"
	"hash/fnv"
	"math"
	"math/big"
	"math/rand"
	"regexp"
	"strconv"
	"strings"
)

func init() { register("C18", checkC18) }

// One finished printf call of the model (MC_Printf.Vec).
type c18Vec struct {
	Fam     int                 `json:"fam"`
	Fmt     []string            `json:"fmt"`
	Args    []string            `json:"args"`
	Cls     string              `json:"cls"`
	Outs    [][]json.RawMessage `json:"outs"` // per policy 0..3: runs [byte, n]; [0] = same as policy 0
	Rend    []string            `json:"rend"` // family 6: the model's rendering of the number
	Why     string              `json:"why"`
	Surplus bool                `json:"-"` // set by the harness: arguments beyond those the scanner looked at
}

// c18Inst is the seeded instantiation of the model's opaque symbols.
type c18Inst struct {
	sym     map[string][]byte // output symbol -> bytes
	fmtSrc  map[string]string // format byte -> source text inside a "..." literal
	argSrc  map[string]string // argument name -> source expression
	argJSON map[string]string // argument name -> JSON text (the kinds JSON has)
}

type c18Atom struct {
	src string // text inside a double-quoted jqawk string literal
	b   []byte // the bytes it denotes
}

// literal bytes that are neither '%', a digit, '-' nor a directive letter
func c18LiteralAtoms() []c18Atom {
	var out []c18Atom
	for _, ch := range "abcdeghijklmnopqrtuwxyzABCDEFGHIJKLMNOPQRSTUVWXYZ !#$&()*+,./:;<=>?@[]^_{|}~'" {
		out = append(out, c18Atom{string(ch), []byte(string(ch))})
	}
	out = append(out, c18Atom{`\n`, []byte("\n")}, c18Atom{`\t`, []byte("\t")}, c18Atom{`\\`, []byte(`\`)},
		c18Atom{"é", []byte("é")}, c18Atom{"€", []byte("€")})
	return out
}

// strings of exactly n bytes from pieces without quote or backslash
func c18RandStr(rng *rand.Rand, n int) string {
	pieces := []string{"a", "b", "z", "Q", "0", "7", " ", "-", "%", "s", ".", "_", "é", "ü", "€"}
	for {
		var sb strings.Builder
		for sb.Len() < n {
			sb.WriteString(pieces[rng.Intn(len(pieces))])
		}
		if sb.Len() == n {
			return sb.String()
		}
	}
}

// a number whose source text is its own canonical rendering, exactly 6 bytes
func c18RandNum6(rng *rand.Rand) string {
	switch rng.Intn(3) {
	case 0:
		return fmt.Sprint(100000 + rng.Intn(900000))
	case 1:
		return fmt.Sprint(-(10000 + rng.Intn(90000)))
	default:
		return fmt.Sprintf("%d.%d%d", 100+rng.Intn(900), rng.Intn(10), 1+rng.Intn(9))
	}
}

func c18NewInst(seed int64, key string, plain bool) *c18Inst {
	h := fnv.New64a()
	fmt.Fprintf(h, "%d|%s", seed, key)
	rng := rand.New(rand.NewSource(int64(h.Sum64())))
	atoms := c18LiteralAtoms()
	in := &c18Inst{sym: map[string][]byte{}, fmtSrc: map[string]string{}, argSrc: map[string]string{}}
	x := atoms[rng.Intn(len(atoms))]
	d := atoms[rng.Intn(len(atoms))]
	if plain {
		// families 5 and 6: renderings such as <regex> contain the model's literal byte itself
		x, d = c18Atom{"x", []byte("x")}, c18Atom{"d", []byte("d")}
	}
	in.fmtSrc["x"], in.sym["x"] = x.src, x.b
	in.fmtSrc["d"], in.sym["d"] = d.src, d.b
	short := c18RandStr(rng, 2)
	long := c18RandStr(rng, 6)
	n1 := fmt.Sprint(rng.Intn(10))
	n6 := c18RandNum6(rng)
	in.argSrc["S"], in.argSrc["L"], in.argSrc["N"], in.argSrc["M"] = "'"+short+"'", "'"+long+"'", n1, n6
	in.argSrc["null"], in.argSrc["[1]"] = "null", "[1]"
	in.argSrc["true"], in.argSrc["obj"] = "true", "{a: 1}"
	in.argSrc["regex"] = []string{"/ab+/", "/x/", "/^k.*$/", "/[0-9]/"}[rng.Intn(4)]
	in.argJSON = map[string]string{"S": strconv.Quote(short), "N": n1, "null": "null", "[1]": "[1]", "true": "true", "obj": `{"a": 1}`}
	for i := 0; i < 2; i++ {
		in.sym["s"+string(rune('a'+i))] = []byte{short[i]}
	}
	for i := 0; i < 6; i++ {
		in.sym["l"+string(rune('a'+i))] = []byte{long[i]}
		in.sym["m"+string(rune('a'+i))] = []byte{n6[i]}
	}
	in.sym["na"] = []byte(n1)
	return in
}

// program renders a call of the model: the program and, where an argument comes from the
// input document, the document.  An argument is named name or name@via: via says how the value
// reaches the argument list (MC_Printf.ViasOf, Vias6).
func (in *c18Inst) program(v *c18Vec) ([]byte, []FileIn) {
	var setup, call strings.Builder
	var doc []string
	useDoc := false
	call.WriteString(`printf("`)
	for _, b := range v.Fmt {
		if s, ok := in.fmtSrc[b]; ok {
			call.WriteString(s)
		} else {
			call.WriteString(b)
		}
	}
	call.WriteString(`"`)
	for i, a := range v.Args {
		name, via := a, "lit"
		if k := strings.LastIndexByte(a, '@'); k >= 0 {
			name, via = a[:k], a[k+1:]
		}
		src, okSrc := in.argSrc[name]
		js, okJS := in.argJSON[name]
		if num := c18ParseNum(name); num != nil {
			src, okSrc, js, okJS = num.literal(), true, num.exactText(), true
			switch via {
			case "jsonexp":
				js, via = num.expText(), "json"
			case "arith":
				src, via = num.arith(), "lit"
			}
		}
		switch name {
		case "unset":
			src, okSrc = fmt.Sprintf("u%d", i), via == "var" // a name that is never assigned
			via = "lit"
		case "fn":
			src, okSrc, via = "fn", via == "var", "lit"
		case "native":
			src, okSrc, via = "num", via == "var", "lit"
		}
		if !okSrc {
			infra("C18: unknown argument name %q", a)
		}
		var e string
		switch via {
		case "lit":
			e = src
		case "var":
			fmt.Fprintf(&setup, "v%d = %s; ", i, src)
			e = fmt.Sprintf("v%d", i)
		case "elem":
			fmt.Fprintf(&setup, "a%d = [0, %s]; ", i, src)
			e = fmt.Sprintf("a%d[1]", i)
		case "memb":
			fmt.Fprintf(&setup, "o%d = {k: %s}; ", i, src)
			e = fmt.Sprintf("o%d.k", i)
		case "call":
			e = "id(" + src + ")"
		case "json":
			if !okJS {
				infra("C18: argument %q has no JSON form", a)
			}
			doc = append(doc, fmt.Sprintf(`"k%d": %s`, i, js))
			e = fmt.Sprintf("$.k%d", i)
			useDoc = true
		case "noelem":
			fmt.Fprintf(&setup, "a%d = [0]; ", i)
			e = fmt.Sprintf("a%d[3]", i)
		case "nomemb":
			fmt.Fprintf(&setup, "o%d = {k: 0}; ", i)
			e = fmt.Sprintf("o%d.zz", i)
		case "nojson":
			e = fmt.Sprintf("$.zz%d", i)
			useDoc = true
		default:
			infra("C18: unknown argument source %q", a)
		}
		call.WriteString(", " + e)
	}
	call.WriteString(")")
	if v.Fam < 5 {
		return []byte(`BEGIN { print "before"; ` + call.String() + " }"), nil
	}
	head := "function id(x) { return x }\nfunction fn() { return 1 }\n"
	if !useDoc {
		return []byte(head + "BEGIN { " + setup.String() + `print "before"; ` + call.String() + " }"), nil
	}
	return []byte(head + "{ " + setup.String() + `print "before"; ` + call.String() + " }"),
		[]FileIn{{Name: "in.json", Data: []byte("{" + strings.Join(doc, ", ") + "}\n")}}
}

// A number of family 6: n * 2^e (|n| < 2^31), or negative zero.
type c18Num struct {
	n   int64
	e   int
	neg bool // the sign bit (also of zero)
}

var c18NumRe = regexp.MustCompile(`^n(-?[0-9]+)e(-?[0-9]+)(z?)$`)

func c18ParseNum(name string) *c18Num {
	m := c18NumRe.FindStringSubmatch(name)
	if m == nil {
		return nil
	}
	n, _ := strconv.ParseInt(m[1], 10, 64)
	e, _ := strconv.Atoi(m[2])
	return &c18Num{n: n, e: e, neg: n < 0 || m[3] == "z"}
}

func c18Pow2(e int) *big.Rat {
	p := new(big.Rat).SetInt(new(big.Int).Lsh(big.NewInt(1), uint(c18Abs(e))))
	if e < 0 {
		p.Inv(p)
	}
	return p
}

func c18Abs(i int) int {
	if i < 0 {
		return -i
	}
	return i
}

// |x| * 2^shift, exactly
func (x *c18Num) abs(shift int) *big.Rat {
	n := x.n
	if n < 0 {
		n = -n
	}
	return new(big.Rat).Mul(new(big.Rat).SetInt64(n), c18Pow2(x.e+shift))
}

// exact positional decimal of a dyadic rational
func c18Exact(r *big.Rat) string {
	k := 0
	for d := new(big.Int).Set(r.Denom()); d.BitLen() > 1; d.Rsh(d, 1) {
		k++
	}
	return r.FloatString(k)
}

func (x *c18Num) sign() string {
	if x.neg {
		return "-"
	}
	return ""
}
func (x *c18Num) exactText() string { return x.sign() + c18Exact(x.abs(0)) }
func (x *c18Num) literal() string   { return x.exactText() }

// the same value spelled with an exponent (JSON input)
func (x *c18Num) expText() string {
	t := c18Exact(x.abs(0))
	ip, fp, _ := strings.Cut(t, ".")
	digits := strings.TrimLeft(ip+fp, "0")
	if digits == "" {
		return x.sign() + "0.0e0"
	}
	exp := len(ip) - 1
	if ip == "0" {
		exp = -(len(fp) - len(strings.TrimLeft(fp, "0")) + 1)
	}
	digits = strings.TrimRight(digits, "0")
	if len(digits) == 1 {
		return fmt.Sprintf("%s%sE%d", x.sign(), digits, exp)
	}
	return fmt.Sprintf("%s%s.%se%+d", x.sign(), digits[:1], digits[1:], exp)
}

// the same value as the result of an exact computation
func (x *c18Num) arith() string {
	switch {
	case x.n == 0 && x.neg:
		return "(0 * -1)"
	case x.n == 0:
		return "(1 - 1)"
	}
	h := c18Exact(x.abs(-1))
	if x.neg {
		return "(0 - " + h + " - " + h + ")"
	}
	return "(" + h + " + " + h + ")"
}

var c18PosRe = regexp.MustCompile(`^-?(0|[1-9][0-9]*)(\.[0-9]*[1-9])?$`)

// c18ProveShortest shows with exact arithmetic that text is the print form of x: a positional
// decimal carrying the sign bit, that reads back as the double x, with the fewest significant
// digits any such decimal can have, and the closest to x among those.  "" = proved.
func c18ProveShortest(x *c18Num, text string) string {
	if !c18PosRe.MatchString(text) {
		return "not a plain positional decimal"
	}
	if strings.HasPrefix(text, "-") != x.neg {
		return "sign"
	}
	if x.n == 0 {
		if strings.TrimPrefix(text, "-") != "0" {
			return "zero is written 0"
		}
		return ""
	}
	c, ok := new(big.Rat).SetString(strings.TrimPrefix(text, "-"))
	if !ok {
		return "unreadable"
	}
	ax := x.abs(0)
	// the doubles that round to x: x = m * 2^q with 2^52 <= m < 2^53; m is even here (|n| < 2^31), so ties count
	n := x.n
	if n < 0 {
		n = -n
	}
	bl := big.NewInt(n).BitLen()
	q := x.e - (53 - bl)
	if q < -1074 || q > 971 {
		return "outside the normal doubles"
	}
	hi := new(big.Rat).Add(ax, c18Pow2(q-1))
	lo := new(big.Rat).Sub(ax, c18Pow2(q-1))
	if n&(n-1) == 0 { // a power of two: the doubles below are twice as dense
		lo = new(big.Rat).Sub(ax, c18Pow2(q-2))
	}
	within := func(r *big.Rat) bool { return r.Cmp(lo) >= 0 && r.Cmp(hi) <= 0 }
	if !within(c) {
		return "does not read back as the same double"
	}
	// 10^E <= |x| < 10^(E+1)
	pow10 := func(p int) *big.Rat {
		r := new(big.Rat).SetInt(new(big.Int).Exp(big.NewInt(10), big.NewInt(int64(c18Abs(p))), nil))
		if p < 0 {
			r.Inv(r)
		}
		return r
	}
	f, _ := ax.Float64()
	E := int(math.Floor(math.Log10(f)))
	for pow10(E).Cmp(ax) > 0 {
		E--
	}
	for pow10(E+1).Cmp(ax) <= 0 {
		E++
	}
	digits := strings.TrimLeft(strings.Replace(strings.TrimPrefix(text, "-"), ".", "", 1), "0")
	k := len(strings.TrimRight(digits, "0"))
	if k > 17 {
		return "more than 17 significant digits"
	}
	// closest k-digit decimal: |c - x| <= half a unit of the k-th digit
	unit := pow10(E - k + 1)
	diff := new(big.Rat).Sub(c, ax)
	diff.Abs(diff)
	if diff.Mul(diff, big.NewRat(2, 1)).Cmp(unit) > 0 {
		return "not the closest decimal of its length"
	}
	// no decimal with k-1 significant digits reads back as x
	if k > 1 {
		u := pow10(E - k + 2)
		fl := new(big.Rat).Quo(ax, u)
		down := new(big.Rat).SetInt(new(big.Int).Quo(fl.Num(), fl.Denom()))
		down.Mul(down, u)
		up := new(big.Rat).Add(down, u)
		if within(down) || within(up) {
			return "a shorter decimal reads back as the same double"
		}
	}
	return ""
}

// expand turns the model's runs into bytes; nil, false for the "same as policy 0" marker.
func (in *c18Inst) expand(runs []json.RawMessage) ([]byte, bool) {
	if len(runs) == 1 && string(runs[0]) == "0" {
		return nil, false
	}
	var out []byte
	for _, raw := range runs {
		var pair []json.RawMessage
		if err := json.Unmarshal(raw, &pair); err != nil || len(pair) != 2 {
			infra("C18: bad run %s", raw)
		}
		var sym string
		var n int
		if json.Unmarshal(pair[0], &sym) != nil || json.Unmarshal(pair[1], &n) != nil {
			infra("C18: bad run %s", raw)
		}
		b, ok := in.sym[sym]
		if !ok {
			if len(sym) != 1 {
				infra("C18: unknown output symbol %q", sym)
			}
			b = []byte(sym)
		}
		if n == 1 {
			out = append(out, b...)
		} else {
			out = append(out, bytes.Repeat(b, n)...)
		}
	}
	return out, true
}

const c18Before = "before\n"

// C18: printf emits exactly the format, each directive replaced and padded to its width.
//
// MC_Printf is the format scanner as a transition system; TLC explores (BFS)
// every format of <= MaxLen bytes over {% s f v d - 0 5 x} x every argument
// list of <= 2 of 6 values (family 1) and single directives with widths around
// the limits (family 2), checks the scanner's invariants in every state, and
// emits every finished call.  The next argument is a parameter of the directive
// action, so a behaviour fixes the arguments the scanner looks at; the harness
// appends every list of arguments it never looks at (up to 2 in total), which
// gives the full product formats x argument lists.  Each call is rendered to `print "before"; printf(...)`
// and run on the real code; stdout must be "before\n" + the model's bytes, or,
// for a failing call, the outcome is a runtime error with stdout exactly
// "before\n".
func checkC18(c *Ctx) {
	c.Assume("whether a width applies to %v and to %% is not fixed by the statement: each of the 4 readings is accepted, but ONE reading must explain all outputs of the run; the fill byte is fixed: zeros only for a width whose text starts with 0, so padding on the right (a width starting with '-') is always blanks")
	c.Assume("surplus arguments: ignoring them and refusing them (runtime error, nothing written) are both accepted")
	c.Assume("the rendering of a number for %f/%v is its print format (no fixed decimals: the shortest positional decimal that reads back as the same double, JqValue.NumText) and of a top-level string for %s/%v its raw bytes; in families 1-5 numbers are those whose rendering is their source text, family 6 takes numbers n * 2^e of every rendering class, each rendering proved shortest by the harness with exact arithmetic")
	c.Assume("for %v a regex renders as <regex> and a never-assigned name as <unknown> (print's format); a function handed to printf is not compared for %v (the language refuses to pass functions as arguments at all), for %s and %f it must be a runtime error")
	c.Assume("family 6 relies on a decimal literal / JSON number being read as the nearest double (C13's, the decoder's) and on x/2 + x/2, 0 - h - h, 0 * -1, 1 - 1 being exact (C05's)")
	c.Assume("error messages are not compared, only the kind (runtime) and that the failing printf wrote nothing")
	c.Assume("format bytes are drawn from {% s f v d - 0 5 x}: 'x' and 'd' stand for any literal byte / any non-directive letter and are instantiated per seed (ASCII, escapes, multi-byte characters); string and number contents are instantiated per seed with the lengths of the model (2 and 6 bytes, 1 and 6 bytes)")
	c.Assume("precision, '+', ' ' and '#' flags, '*' widths and positional arguments are not part of the documented printf and are outside the model (all are 'unknown directive' errors today)")
	pool := c.Pool()

	polMask := 0x0F // readings of the statement still consistent with every output seen
	polReported := false
	var nOK, nErr, nSurplusErr, nMulti, nSkip, nVec int
	whyCount := map[string]int{}
	perFam := map[int]int{}
	lateErr := map[string]int{} // family 4: errors raised after >= 4096 bytes were rendered
	nontrivialKinds := map[string]int{}
	numProved := map[string]string{} // family 6: number -> rendering proved to be its print form
	nSample := 0

	type batch struct {
		vecs  []c18Vec
		insts []*c18Inst
	}
	judge := func(v *c18Vec, in *c18Inst, prog []byte, files []FileIn, r Result) {
		rep := func(extra map[string]any) map[string]any {
			m := map[string]any{"program": string(prog), "program_bytes": prog, "model_fmt": v.Fmt, "model_args": v.Args,
				"expected_class": v.Cls, "model_error": v.Why, "got_class": r.Class, "got_stdout": string(r.Stdout),
				"got_stdout_bytes": r.Stdout, "got_msg": r.ErrMsg, "detail": r.Detail}
			if len(files) > 0 {
				m["input_document"] = string(files[0].Data)
			}
			for k, x := range extra {
				m[k] = x
			}
			return m
		}
		if r.Class == "budget" || r.Class == "timeout" {
			nSkip++
			return
		}
		perFam[v.Fam]++
		hasDir := false
		for _, b := range v.Fmt {
			hasDir = hasDir || b == "%"
		}
		key := string(prog)
		if len(files) > 0 {
			key += "\x00" + string(files[0].Data)
		}
		if v.Fam >= 5 && len(v.Args) > 0 {
			nontrivialKinds[v.Args[len(v.Args)-1]]++
		}
		if v.Cls == "runtime" {
			if r.Class != "runtime" {
				c.Violation("printf-error-expected", rep(nil))
				return
			}
			if string(r.Stdout) != c18Before {
				c.Violation("printf-error-wrote", rep(map[string]any{"why": "a failing printf must write nothing"}))
				return
			}
			nErr++
			whyCount[v.Why]++
			if v.Fam == 4 && len(v.Args) > 0 {
				lateErr[v.Why]++
			}
			c.Case(key, hasDir)
			return
		}
		// the model says ok
		if r.Class == "runtime" && v.Surplus {
			if string(r.Stdout) != c18Before {
				c.Violation("printf-error-wrote", rep(map[string]any{"why": "a failing printf must write nothing"}))
				return
			}
			nSurplusErr++
			c.Case(key, hasDir)
			return
		}
		if r.Class != "ok" {
			c.Violation("printf-unexpected-error", rep(nil))
			return
		}
		if !bytes.HasPrefix(r.Stdout, []byte(c18Before)) {
			c.Violation("printf-prior-output", rep(nil))
			return
		}
		got := r.Stdout[len(c18Before):]
		base, _ := in.expand(v.Outs[0])
		matched := 0
		distinct := 1
		for k := 0; k < 4; k++ {
			exp, own := in.expand(v.Outs[k])
			if !own {
				exp = base
			} else if k > 0 {
				distinct++
			}
			if bytes.Equal(got, exp) {
				matched |= 1 << k
			}
		}
		if matched == 0 {
			c.Violation("printf-output", rep(map[string]any{"expected_stdout": c18Before + string(base), "expected_bytes": base,
				"note": "expected_stdout is the reading 'widths apply to %s and %f only'; the other readings did not match either"}))
			return
		}
		if distinct > 1 {
			nMulti++
		}
		polMask &= matched
		if polMask == 0 && !polReported {
			polReported = true
			c.Violation("printf-no-uniform-reading", rep(map[string]any{"why": "no single reading of the open points (width on %v, width on %%) explains this output together with the earlier ones"}))
			return
		}
		nOK++
		c.Case(key, hasDir)
		padded := len(got) > len(v.Fmt)+4
		if hasDir && distinct > 1 && nSample < 2 || hasDir && padded && nSample < 5 && nOK%1500 == 7 {
			nSample++
			c.Sample(map[string]any{"program": string(prog), "stdout": string(r.Stdout), "model_fmt": v.Fmt, "model_args": v.Args})
		}
	}

	var batches = map[int]*batch{}
	nextID := 0
	st := pool.NewStream(func(j *Job, r Result) {
		b := batches[j.N]
		delete(batches, j.N)
		if r.Class != "ok" || len(r.Hist) != len(b.vecs) {
			// the worker died somewhere in the batch: run the members one by one
			for i := range b.vecs {
				r1 := pool.Do(&j.Hist[i])
				if r1.Class == "crash" || r1.Class == "panic" {
					c.Violation("printf-crash", map[string]any{"program": string(j.Hist[i].Prog), "result": r1})
					continue
				}
				judge(&b.vecs[i], b.insts[i], j.Hist[i].Prog, j.Hist[i].Files, r1)
			}
			return
		}
		for i := range b.vecs {
			if r.Hist[i].Class == "panic" {
				c.Violation("printf-crash", map[string]any{"program": string(j.Hist[i].Prog), "result": r.Hist[i]})
				continue
			}
			judge(&b.vecs[i], b.insts[i], j.Hist[i].Prog, j.Hist[i].Files, r.Hist[i])
		}
	})
	const batchSize = 64
	var cur *batch
	var curJob Job
	var mu = &st.mu // batches is touched by the producer and by done callbacks
	flush := func() {
		if cur == nil || len(cur.vecs) == 0 {
			return
		}
		mu.Lock()
		id := nextID
		nextID++
		batches[id] = cur
		mu.Unlock()
		curJob.Kind, curJob.N = "history", id
		st.Submit(curJob)
		cur, curJob = nil, Job{}
	}
	argNames := []string{"S", "L", "N", "M", "null", "[1]"}
	var completions [3][][]string // by number of free positions
	completions[0] = [][]string{{}}
	completions[1] = [][]string{{}}
	completions[2] = [][]string{{}}
	for _, a := range argNames {
		completions[1] = append(completions[1], []string{a})
		completions[2] = append(completions[2], []string{a})
	}
	for _, a := range argNames {
		for _, b := range argNames {
			completions[2] = append(completions[2], []string{a, b})
		}
	}
	add := func(v c18Vec) {
		in := c18NewInst(c.Seed, strings.Join(v.Fmt, "")+"|"+strings.Join(v.Args, ","), v.Fam >= 5)
		if cur == nil {
			cur = &batch{}
		}
		cur.vecs = append(cur.vecs, v)
		cur.insts = append(cur.insts, in)
		prog, files := in.program(&v)
		curJob.Hist = append(curJob.Hist, Job{Kind: "run", Prog: prog, Files: files})
		if len(cur.vecs) >= batchSize {
			flush()
		}
	}
	onVec := func(raw []byte) {
		var v c18Vec
		VecDecode(raw, &v)
		if len(v.Outs) != 4 || v.Fam <= 2 && len(v.Args) > 2 || v.Fam == 6 && len(v.Args) != 1 {
			infra("C18: malformed vector: %.200s", raw)
		}
		nVec++
		if v.Fam == 6 {
			// the model's rendering of this number is a leaf fact of the spec (exact expansion, or a row of
			// PfLong): prove it, once per number
			name := v.Args[0][:strings.LastIndexByte(v.Args[0], '@')]
			rend := strings.Join(v.Rend, "")
			if old, ok := numProved[name]; !ok {
				x := c18ParseNum(name)
				if x == nil {
					infra("C18: bad number name %q", name)
				}
				if why := c18ProveShortest(x, rend); why != "" {
					infra("C18: the spec renders %s (%s) as %q: %s", name, x.exactText(), rend, why)
				}
				numProved[name] = rend
			} else if old != rend {
				infra("C18: two renderings of %s: %q and %q", name, old, rend)
			}
		}
		// the model's args are the arguments the scanner looked at; the call may carry more
		// (never examined), except where the model says the list was exhausted
		free := 2 - len(v.Args)
		if v.Why == "missing" || v.Fam > 2 {
			free = 0 // families 3 and 4: exactly the arguments of the model
		}
		for _, comp := range completions[free] {
			w := v
			w.Args = append(append([]string{}, v.Args...), comp...)
			w.Surplus = len(comp) > 0
			add(w)
		}
	}

	maxLen := 4
	if c.Thorough() {
		maxLen = 5
	}
	props := []string{"INVARIANT Laws", "INVARIANT Vec", "PROPERTY BufMonotone", "PROPERTY WriteOnlyAtEmit", "PROPERTY FailAbsorbs",
		"PROPERTY ArgsInOrder", "PROPERTY EveryByteConsumed", "CHECK_DEADLOCK FALSE"}
	big := "FALSE"
	if c.Thorough() {
		big = "TRUE"
	}
	cfg := func(maxLen, maxArgs, family int) string {
		return cfgText(append([]string{"INIT Init", "NEXT Next", "CONSTANTS", fmt.Sprintf("MaxLen = %d", maxLen),
			fmt.Sprintf("MaxArgs = %d", maxArgs), fmt.Sprintf("Family = %d", family), "Big = " + big}, props...)...)
	}
	// family 2 first (small): single directives with widths around the limits
	f2args := 2
	c.TLC(TLCOpt{Module: "MC_Printf", Cfg: cfg(0, f2args, 2), OnVec: onVec, Workers: 8, Heap: "6g"})
	// family 4: large fields, then the end of the format or an error of every kind
	c.TLC(TLCOpt{Module: "MC_Printf", Cfg: cfg(0, 4, 4), OnVec: onVec, Workers: 8, Heap: "6g"})
	// family 3: 2 and 3 directives with widths, literals between them
	c.TLC(TLCOpt{Module: "MC_Printf", Cfg: cfg(0, 3, 3), OnVec: onVec, Workers: 8, Heap: "6g"})
	// family 5: every kind of value, reached in every way, against every directive
	c.TLC(TLCOpt{Module: "MC_Printf", Cfg: cfg(0, 3, 5), OnVec: onVec, Workers: 8, Heap: "6g"})
	// family 6: numbers of every rendering class, widths around the length of the rendering
	c.TLC(TLCOpt{Module: "MC_Printf", Cfg: cfg(0, 3, 6), OnVec: onVec, Workers: 8, Heap: "6g"})
	flush()
	st.Wait()
	n2 := nOK + nErr + nSurplusErr
	// site family: the bytes of a call are written where (and when) the call is evaluated
	c18Sites(c, pool)
	// family 1: every format up to maxLen bytes
	c.TLC(TLCOpt{Module: "MC_Printf", Cfg: cfg(maxLen, 2, 1), OnVec: onVec, Workers: 12, Heap: "6g"})
	flush()
	st.Wait()

	pols := []string{}
	for k := 0; k < 4; k++ {
		if polMask&(1<<k) != 0 {
			pols = append(pols, fmt.Sprintf("{width on %%v: %v, width on %%%%: %v}", k&1 != 0, k&2 != 0))
		}
	}
	c.Set("exhaustive", true)
	c.Set("rule", "TLC explores the printf scanner (BFS) over every format of <= MaxLen bytes over {% s f v d - 0 5 x} x every argument list of <= 2 of "+
		"{2-byte string, 6-byte string, 1-byte number, 6-byte number, null, [1]}, plus single directives with widths {1,2,9,10,11,4096,65536,65537,2^32+1,2^64+1} "+
		"of either sign, with/without leading zero, with/without surrounding literals (family 2); formats of 2 and 3 directives, each with a width from {none, 3, 03, -3, -03, 12} and a letter from {s, f, v, %}, "+
		"literals between them, arguments of the wanted kind short and long (3 directives: short only in quick) (family 3); one to three large fields (2000..65536 bytes, together >= 4096) followed by the end of the format or by each error kind "+
		"(missing argument, wrong kind, unknown directive, dangling %, dangling width, width beyond the maximum) (family 4); one directive (first, or after a %s that succeeds) with a width from {none, 4, -4, 04, 12} and a letter from {s, f, v} x every kind of value "+
		"(string, number, null, bool, array, object, regex, never-assigned name, user function, built-in function) x every way it reaches the argument list (literal, variable, array element, object member, call result, input document; null also as a missing element / member / document field) (family 5); "+
		"one directive f / v / s x numbers n*2^e (both zeros, whole numbers below and above 2^53 and 2^63, fractions, renderings longer than 17 digits) x widths {none, L-1, L, L+1, L+3} for L = the length of that number's rendering, plain / negative / zero-led (thorough: also -0) x the number written as literal, JSON input, exact computation (thorough: also variable, JSON with exponent) (family 6); one real run per finished call; non-trivial = the format contains a '%'; distinct by program text")
	c.Set("checker_cmd", "tlc MC_Printf (Families 2, 4, 3, 5, 6, then Family 1); replay through lang.EvalProgram in worker subprocesses (batches of 64 runs)")
	c.Set("bounds", map[string]int{"MaxLen": maxLen, "MaxArgs": 2, "family2_MaxArgs": f2args})
	c.Set("model_behaviours", nVec)
	c.Set("calls_ok", nOK)
	c.Set("calls_runtime_error", nErr)
	c.Set("calls_error_by_cause", whyCount)
	c.Set("calls_families_2_to_6", n2)
	c.Set("family5_6_distinct_arguments", len(nontrivialKinds))
	c.Set("family6_number_renderings_proved_shortest", len(numProved))
	c.Set("calls_per_family", perFam)
	c.Set("family4_errors_after_large_output_by_cause", lateErr)
	c.Set("surplus_arguments_refused", nSurplusErr)
	c.Set("calls_where_readings_differ", nMulti)
	c.Set("inconclusive_budget_or_timeout", nSkip)
	c.Set("readings_consistent_with_all_outputs", pols)
}
