package main

import (
	"crypto/sha256"
	"encoding/hex"
	"encoding/json"
	"fmt"
	"math/rand"
	"os"
	"path/filepath"
	"strconv"
	"strings"
)

func init() { register("C10", checkC10) }

type procKey struct {
	id       string
	prog     string
	sels     []string
	input    string
	pollutes bool // assigns through a method name / increments a method (process-level state)
	methods  bool // calls methods
	first    bool // run before anything else in every second process (what a process does first may seed a memo)
	noFuzz   bool // run with the loop limit of fuzzing off (a loop of more than 10000 iterations)
}

func obsHash(parts ...[]byte) string {
	h := sha256.New()
	for _, p := range parts {
		h.Write([]byte(strconv.Itoa(len(p))))
		h.Write([]byte{':'})
		h.Write(p)
	}
	return hex.EncodeToString(h.Sum(nil)[:10])
}

var c10ObjectPrograms = []string{
	`{ print $ }`,
	`{ for (k, v in $) print k, v }`,
	`{ for (k in $) { n = n + 1; print n, k } }`,
	`BEGIN { o = {b: 1, a: 2, c: {z: 1, y: 2}} ; print o; for (k in o) print k }`,
	`{ o[$.a] = $.b; o[$.b] = $.a } END { print o; print json(o) }`,
	`{ print $.pluck("c", "a", "b") }`,
	`{ x = $; x.zz = 1; x.aa = 2; print x; print json(x) }`,
	`BEGIN { o = {}; o.k3 = 3; o.k1 = 1; o.k2 = 2; for (k, v in o) printf("%s=%v;", k, v); print "" }`,
	`{ for (k, v in $) { for (k2, v2 in $) { print k, k2 } } }`,
	`{ print [$, $] }`,
}

var c10Polluters = []string{
	`BEGIN { x = 5; x.floor = 1 }`,
	`BEGIN { a = [1]; a.length++ }`,
	`BEGIN { s = "a"; s.upper = 3; s.split = 4 }`,
	`BEGIN { o = {}; o.pluck = 1; o.length = 7 }`,
	`BEGIN { a = [3, 1]; a.sort = 0; a.push = 0; a.pop -= 1 }`,
	`BEGIN { n = 2.5; n.round += 1; n.ceil = "x" }`,
}

// programs that fail half-way (inside printf, inside a method, at the recursion limit) or use
// every interpreter facility: they must not leave anything behind either, and are NOT covered by
// any deviation
var c10Disturbers = []string{
	`BEGIN { printf("Mark %5s earns %s", "x") }`,
	`BEGIN { printf("abc %s %d", "y") }`,
	`BEGIN { printf("%s %s %s", "only") }`,
	`function r(n) { return r(n + 1) } BEGIN { r(0) }`,
	`function w() { return 1 } BEGIN { for (i = 0; i < 50; i++) { w(); v = match (i) { z => z } } print v }`,
	`BEGIN { a = [1, [2]]; print a.contains(2) }`,
	`BEGIN { x = match (1) { 1 => w0() } } function w0() { return 1 / 0 }`,
	`{ next } END { print "e" }`,
	`BEGIN { exit } END { print "never" }`,
}

var c10Victims = []string{
	// sensitive to the exact frame depth available
	`function f(n) { if (n > 0) { return f(n - 1) } return "bottom" } BEGIN { print f(4090) }`,
	`function g(n) { print n; return g(n + 1) } BEGIN { g(0) }`,
	`function h(n) { return match (n) { 0 => "done", z => h(z - 1) } } BEGIN { print h(2040) }`,
	`BEGIN { printf("%s earns %f\n", "Kathy", 40); printf("%5s|%-5s|%05f\n", "a", "b", 7) }`,
	`BEGIN { x = 2.5; print x.floor(), x.ceil(), x.round() }`,
	`BEGIN { a = [3, 1, 2]; print a.length(), a.sort(), a.contains(2); a.push(9); print a.pop(), a.popfirst(), a }`,
	`BEGIN { s = "a,b"; print s.upper(), s.lower(), s.split(","), s.length() }`,
	`BEGIN { o = {a: 1, b: 2}; print o.length(), o.pluck("a") }`,
	`{ print $.length() }`,
	`BEGIN { a = []; b = []; a.push(b.push(1)); print a.length(), b.length() }`,
}

// evaluation order inside one expression: the values of an object / array literal, call arguments and
// print arguments have side effects or fail; the observable order must be the same on every run
var c10OrderPrograms = []string{
	`BEGIN { q = [1, 2, 3, 4, 5, 6, 7, 8, 9]; o = {a: q.popfirst(), b: q.popfirst(), c: q.popfirst(), d: q.popfirst(), e: q.popfirst(), f: q.popfirst(), g: q.popfirst(), h: q.popfirst()}; print o, q }`,
	`BEGIN { i = 0; o = {z: i++, y: i++, x: i++, w: i++, v: i++, u: i++, t: i++}; print o, i }`,
	`function say(x) { print "say", x; return x } BEGIN { o = {b: say(1), a: say(2), c: say(3), d: say(4), e: say(5), f: say(6)}; print o }`,
	`function stop() { exit } BEGIN { print "start"; o = {a: 1, b: stop(), c: 1 / 0, d: nosuch(), e: 2}; print "no" }`,
	`function say(x) { print "say", x; return x } BEGIN { o = {a: say(1), b: 1 / 0, c: say(3), d: say(4), e: say(5)}; print "no" }`,
	`{ o = {a: $.q.pop(), b: $.q.pop(), c: $.q.length(), d: $.q.pop(), e: $.q.length()}; print o, $ }`,
	`BEGIN { i = 0; a = [i++, i++, i++, i++, i++, i++]; print a, i }`,
	`function f(a, b, c, d, e) { return [a, b, c, d, e] } BEGIN { i = 0; print f(i++, i++, i++, i++, i++), i }`,
	`BEGIN { i = 0; print i++, i++, i++, i++, i++ }`,
	`{ o = {}; o[$.q.pop()] = $.q.pop(); print o, $ }`,
	`BEGIN { o = {a: {x: 1, y: 2, z: 3}, b: {p: 1, q: 2, r: 3, s: 4, t: 5}}; for (k, v in o) { for (k2 in v) { n = n k k2 } } print n }`,
	`BEGIN { a = {}; a.self = a; a.r = /x/; a.f = 1; print json(a) }`,
}

// names of builtins used as variables: every run has builtins of its own
var c10BuiltinAssigners = []string{
	`BEGIN { num = 0; num++; print num }`,
	`BEGIN { json = "x"; print json }`,
	`BEGIN { printf = 1; printf += 2; print printf }`,
	`{ num = $.n; json = $; printf = 0 }`,
}

var c10BuiltinVictims = []string{
	`BEGIN { print num("12") + 1, json([1]); printf("%s|%5s\n", "x", "y") }`,
	`{ print num("3") * 2 }`,
}

const c10FillProgram = `{ t = []; t[$.slot] = $.n; print t.length() }`

var c10ResultAssigners = []string{
	`{ (($.n == 0))--; x = ($.n == 0); print x }`,
	`BEGIN { n = 0; (n == 0)--; (n != 0)++; (!n)++; (n < 1)--; ("a" ~ "a")++; (n is number)--; (1 && 1)--; (0 || 0)++ }`,
	`{ match ($.n == 0) { b => { b = "vip"; print b } } print ($.n == 0), ($.n != 0) }`,
	`{ match ($.n < 5) { t => { t = 0 } } match (!1) { f => { f = [1, 2, 3]; f.push(4) } } }`,
	`BEGIN { (1 + 1)++; ("a" + "b")--; (-1)++; x = 1 + 1; print x }`,
}

// lookups of method names as keys (pluck, member reads, for-in over prototypes are all reads: nothing changes)
var c10MethodNameReaders = []string{
	`BEGIN { o = {a: 1}; p = o.pluck("length", "pluck", "a"); print p, o; q = [1].length; s = "x".upper; print o.length(), o.pluck("a") }`,
	`{ p = $.pluck("length"); print p; print $.length() }`,
	`BEGIN { o = {}; x = o.length; y = o["pluck"]; z = o.nosuch; print o.length(), o }`,
}

var c10BooleanVictims = []string{
	`BEGIN { print 1 < 2, 2 < 1, 1 == 1, 1 != 1, !0, !1, "a" ~ "a", "a" !~ "a", 1 is number, 1 is string, 1 && 1, 0 || 0 }`,
	`{ if ($.n == 0) { print "zero" } else { print "nonzero" } x = ($.n == 1); print x }`,
}

func c10Keys(c *Ctx, n int) []procKey {
	rng := rand.New(rand.NewSource(c.Seed*104729 + 7))
	var keys []procKey
	add := func(prog string, sels []string, input string, pollutes bool) {
		methods := strings.Contains(prog, "(") && strings.Contains(prog, ".")
		keys = append(keys, procKey{id: fmt.Sprintf("k%d", len(keys)), prog: prog, sels: sels, input: input, pollutes: pollutes, methods: methods})
	}
	// (the last three: keys that differ only in case, in blanks, in a leading zero: ties for any comparison looser than bytes)
	objDocs := []string{`{"id":1,"ID":2,"Id":3,"x":4,"X":5}`, `{"a b":1,"ab":2,"a  b":3," ab":4}`, `{"7":1,"07":2,"7.0":3,"+7":4}`, `{"1":1,"1.0":2,"01":3,"1e0":4}`, `{"2":1,"10":2,"1a":3}`, `{"nan":1,"9":2,"10":3,"-1":4}`, `{"b":1,"a":2,"c":3}`, `[{"b":1,"a":2},{"y":[1,2],"x":{"q":1,"p":2}}]`, `{"a":"k1","b":"k2","c":{"n":1,"m":2}}`, `{"k 2":1,"a":2}`}
	for _, p := range c10ObjectPrograms {
		for _, d := range objDocs {
			add(p, nil, d, false)
		}
	}
	add(`{ print $ }`, []string{"$.c", "$"}, objDocs[2], false)
	// a run that fails on a malformed regex, right after a run that compiled a good one, twice in a row; selectors
	// with variables of their own (every evaluation of a selector starts from nothing)
	add(`BEGIN { print "banana" ~ /an/, "x" ~ "^x$" }`, nil, `["banana"]`, false)
	add(`{ if ($ ~ "a(") { print "hit", $ } print "after" }`, nil, `["banana", "a("]`, false)
	add(`{ print "m", $ ~ $ }`, nil, `["an", "a(", "an"]`, false)
	for _, sel := range []string{"seen", "n++", "cnt = cnt + 1", "[seen, $]", "acc = acc + $.length()", "tmp = $"} {
		add(`{ print "root", $ }`, []string{sel}, `[1, 2] [3]`, false)
		add(`{ $.n++; print "n =", $.n } END { print "end" }`, []string{sel}, `{"a": 1}`, false)
	}
	// both zeros, formatted in whatever order the history brings them
	for _, p := range []string{`BEGIN { x = 0; print x, [x], {a: x}; o = {}; o[x] = 1; print o }`, `BEGIN { y = 0 * (0 - 1); print y, [y], {a: y}; o = {}; o[y] = 1; print o }`,
		`{ z = $.n * (0 - 1); print z, [z] }`, `BEGIN { printf("%v %s %f\n", 0, 0, 0); printf("%v %s %f\n", 0 * (0 - 1), 0 * (0 - 1), 0 * (0 - 1)) }`} {
		add(p, nil, `[{"n":0},{"n":1}]`, false)
		if strings.Contains(p, "(0 - 1)") {
			keys[len(keys)-1].first = true
		}
	}
	for _, p := range c10OrderPrograms {
		add(p, nil, `[{"q":[1,2,3,4,5]},{"q":["a","b","c","d"]}]`, false)
	}
	add(c10FillProgram, nil, `[{"slot":1048576,"n":1}]`, false)
	for _, p := range c10BuiltinAssigners {
		add(p, nil, `[{"n":1},{"n":2}]`, false)
	}
	for _, p := range c10BuiltinVictims {
		add(p, nil, `[{"n":1}]`, false)
		add(p, []string{"num = $[0].n", "$"}, `[{"n":1}]`, false)
		add(p, []string{"json = 1", "printf = $"}, `[{"n":1}]`, false)
	}
	// good values followed by a malformed one: how many values are processed before the error is part
	// of the observation
	for _, tail := range []string{`{"id":`, `[1, 2`, `nul`, `"abc`, `}`, `{"id":13}x`} {
		var sb strings.Builder
		for i := 1; i <= 12; i++ {
			fmt.Fprintf(&sb, "{\"id\":%d,\"v\":[%d,%d]}\n", i, i, i*2)
		}
		sb.WriteString(tail)
		add(`{ print $.id, $.v } END { print "end" }`, nil, sb.String(), false)
		add(`{ n++; print n, $ }`, nil, strings.Repeat("[1,2,3] ", 150)+tail, false)
	}
	// inputs whose first bytes matter to the decoder (byte order mark, leading blanks, a number split by a read)
	for _, in := range []string{"\xef\xbb\xbf[1, 2]", "\xef\xbb\xbf{\"a\": 1} 2", "\xef\xbb", "\xef\xbb\xbf", "  \n [1, 2]", "12345 678", "tru", "\"ab\\u00e9\" 1", "\xff\xfe[1]"} {
		add(`{ print $ } END { print "end" }`, nil, in, false)
	}
	// results of operators used as assignment targets: every evaluation has a result of its own
	// runs that differ in an option of the call (the fuzzing loop limit) or in what a method saw before: a long loop
	// without the limit, numeric sorts next to mixed sorts - each first in every second process
	add(`BEGIN { n = 0; while (n < 20000) { n++ } print n; for (i = 0; i < 15000; i++) { m = m + 1 } print m }`, nil, `[]`, false)
	keys[len(keys)-1].noFuzz = true
	keys[len(keys)-1].first = true
	add(`BEGIN { print [10, 9, 100, 2.5, 0 - 1].sort(), [3, 20, 100].sort() }`, nil, `[]`, false)
	keys[len(keys)-1].first = true
	add(`BEGIN { print ["b", 1, "a10", 9].sort(), [true, "x", null].sort() }`, nil, `[]`, false)
	add(`{ print $.sort() }`, nil, `[[10, 9, 100], ["b", 10, 9], [2.5, 10, 1]]`, false)
	for _, p := range c10MethodNameReaders {
		add(p, nil, `[{"n":0},{"n":1}]`, false)
		keys[len(keys)-1].first = true
	}
	for _, p := range c10ResultAssigners {
		add(p, nil, `[{"n":0},{"n":1}]`, false)
	}
	for _, p := range c10BooleanVictims {
		add(p, nil, `[{"n":0},{"n":1}]`, false)
		add(p, []string{"match ($[0].n == 0) { b => { b = \"vip\" } }", "$"}, `[{"n":0},{"n":1}]`, false)
	}
	for _, p := range c10Polluters {
		add(p, nil, `[1]`, true)
	}
	for _, p := range c10Victims {
		add(p, nil, `[[1,2],"abc"]`, false)
	}
	for _, p := range c10Disturbers {
		add(p, nil, `[1,2]`, false)
	}
	for _, cp := range c13Corpus() {
		if len(cp.Files) == 1 && len(keys) < n-40 {
			add(cp.Prog, nil, cp.Files[0], false)
		}
	}
	g := &gen{r: rng, strict: true}
	for len(keys) < n {
		prog := g.program()
		if strings.Contains(prog, "while (") && !strings.Contains(prog, "while (n <") {
			continue
		}
		pollutes := false
		for _, m := range []string{".length", ".push", ".pop", ".sort", ".contains", ".split", ".upper", ".lower", ".floor", ".ceil", ".round", ".pluck", ".nosuch"} {
			// a method name that is not immediately called may be assigned through: conservative flag
			idx := 0
			for {
				j := strings.Index(prog[idx:], m)
				if j < 0 {
					break
				}
				end := idx + j + len(m)
				if end >= len(prog) || prog[end] != '(' {
					pollutes = true
				}
				idx = end
			}
		}
		var sels []string
		if rng.Intn(4) == 0 {
			sels = []string{g.pick("$", "$.a", "$.list", "[$, 1]")}
		}
		keys = append(keys, procKey{id: fmt.Sprintf("k%d", len(keys)), prog: prog, sels: sels, input: g.jsonValue(3), pollutes: pollutes,
			methods: strings.Contains(prog, ".") && strings.Contains(prog, "(")})
	}
	return keys
}

type runEvent struct {
	Key      string `json:"key"`
	Proc     string `json:"proc"`
	Obs      string `json:"obs"`
	Pollutes int    `json:"pollutes"`
	Methods  int    `json:"methods"`
}

func validateProcTrace(c *Ctx, events []runEvent, deviations string) (matched int, ok bool) {
	var sb strings.Builder
	for _, e := range events {
		b, _ := json.Marshal(e)
		sb.Write(b)
		sb.WriteByte('\n')
	}
	res := c.TLC(TLCOpt{Module: "Trace_Proc", Workers: 1, AllowErr: true, Heap: "8g",
		Cfg: cfgText("SPECIFICATION TSpec", "CONSTANTS", "Keys <- TraceKeys", "Observations = {}", "Procs = {}", "Deviations = "+deviations,
			"POSTCONDITION TraceAccepted", "INVARIANT NoProcessState", "CHECK_DEADLOCK FALSE"),
		Files: map[string]string{"runs.ndjson": sb.String()}})
	matched = -1
	for _, l := range res.Output {
		if m := reMatched.FindStringSubmatch(l); m != nil {
			matched, _ = strconv.Atoi(m[1])
		}
	}
	if matched < 0 {
		infra("Trace_Proc: no acceptance line:\n%s", strings.Join(res.Output, "\n"))
	}
	return matched, matched == len(events)
}

// C10: output is a deterministic function of program, selectors and input bytes.
func checkC10(c *Ctx) {
	c.Assume("observation = (stdout bytes, JSON output, outcome class); error messages are not part of it")
	c.Assume("runs stopped by the step budget are dropped (inconclusive)")
	nkeys, reps, nbin, binReps := 300, 3, 40, 4
	if c.Thorough() {
		nkeys, reps, nbin, binReps = 2500, 6, 300, 12
	}
	keys := c10Keys(c, nkeys)
	rng := rand.New(rand.NewSource(c.Seed + 99))
	// the way the input bytes arrive (one read, byte by byte, in small pieces) is not part of the key: it varies
	// from one repetition of a key to the next
	chunkings := [][]int{nil, {1}, {1, 1, 1, 1, 1, 1, 1, 1}, {2, 1}, {3}, {1, 2}, {5, 1, 1}, {2}}
	occ := 0
	mkJob := func(k procKey) Job {
		occ++
		if k.noFuzz {
			return Job{Kind: "run", Prog: []byte(k.prog), Sels: k.sels, Files: []FileIn{{Name: "in.json", Data: []byte(k.input)}}, WantJS: true, Fuzzing: false, Budget: 5_000_000}
		}
		return Job{Kind: "run", Prog: []byte(k.prog), Sels: k.sels, Files: []FileIn{{Name: "in.json", Data: []byte(k.input), Chunks: chunkings[occ%len(chunkings)]}}, WantJS: true, Fuzzing: true, Budget: 200000}
	}
	// histories: two worker processes, each executing every key `reps` times in a random order
	pool := NewPool(2, 0)
	pool.Timeout = 600e9
	defer pool.Close()
	nproc := 2
	if c.Thorough() {
		nproc = 4
	}
	var events []runEvent
	dropped := map[string]bool{}
	type histRun struct {
		order []int
		res   Result
	}
	hists := make([]histRun, nproc)
	hjobs := make([]Job, nproc)
	for p := 0; p < nproc; p++ {
		order := []int{}
		for r := 0; r < reps; r++ {
			perm := rng.Perm(len(keys))
			if r == 0 {
				// the first pass of a process is in key order or in reverse key order: whichever of two related
				// keys comes first in one process comes second in the next (first-use memos, lazily built tables)
				for i := range perm {
					perm[i] = i
					if p%2 == 1 {
						perm[i] = len(keys) - 1 - i
					}
				}
			}
			order = append(order, perm...)
		}
		// every key twice in a row: nothing that happened between two runs of a key can have healed a one-entry memo
		for _, i := range rng.Perm(len(keys)) {
			order = append(order, i, i)
		}
		if p%2 == 1 {
			var pre []int
			for i, k := range keys { // runs with an option of their own come before every other run
				if k.first && k.noFuzz {
					pre = append(pre, i)
				}
			}
			for i, k := range keys {
				if k.first && !k.noFuzz {
					pre = append(pre, i)
				}
			}
			order = append(pre, order...)
		}
		if p == 0 {
			// one key repeated many times in one process: a budget or counter that is kept per process, not per run
			for i, k := range keys {
				if k.prog == c10FillProgram {
					for r := 0; r < 20; r++ {
						order = append(order, i)
					}
				}
			}
		}
		hists[p].order = order
		h := Job{Kind: "history"}
		for _, i := range order {
			h.Hist = append(h.Hist, mkJob(keys[i]))
		}
		hjobs[p] = h
	}
	pool.Map(hjobs, func(p int, r Result) { hists[p].res = r })
	for p := range hists {
		if hists[p].res.Class != "ok" || len(hists[p].res.Hist) != len(hists[p].order) {
			c.Violation("history-died", map[string]any{"proc": p, "class": hists[p].res.Class, "detail": hists[p].res.Detail,
				"why": "a sequence of runs in one process did not complete (the process died or hung)"})
			return
		}
		for n, i := range hists[p].order {
			rr := hists[p].res.Hist[n]
			if rr.Class == "budget" || rr.Class == "timeout" {
				dropped[keys[i].id] = true
			}
		}
	}
	for p := range hists {
		for n, i := range hists[p].order {
			k := keys[i]
			if dropped[k.id] {
				continue
			}
			rr := hists[p].res.Hist[n]
			events = append(events, runEvent{Key: k.id, Proc: fmt.Sprintf("w%d", p), Obs: obsHash(rr.Stdout, []byte(rr.Class), rr.JS, []byte(firstWord(rr.JSErr))),
				Pollutes: b2i(k.pollutes), Methods: b2i(k.methods)})
		}
	}
	// fresh processes: the binary, stdout + outcome class only (a separate key space "<id>#bin")
	dir := c.TempDir("c10")
	type binRun struct {
		key string
		obs string
	}
	// fresh processes whose output is long enough to outlast any timer or buffer of the command line
	longKeys := []procKey{
		{id: "long1", prog: "BEGIN {\n  for (i = 0; i < 400000; i++) {\n    print i\n  }\n}\n", input: "[]"},
		{id: "long2", prog: "{\n  for (i = 0; i < 200000; i++) {\n    printf(\"%s:%v \", $, i)\n  }\n  print \"\"\n}\n", input: "[1, 2]"},
	}
	nbin += len(longKeys)
	binRuns := make([][]binRun, nbin)
	parallelDo(nbin, 16, func(b int) {
		k := keys[b%len(keys)]
		if b >= nbin-len(longKeys) {
			k = longKeys[b-(nbin-len(longKeys))]
		}
		if dropped[k.id] || strings.Contains(k.prog, "while (") {
			return
		}
		sub := filepath.Join(dir, strconv.Itoa(b))
		os.MkdirAll(sub, 0o755)
		os.WriteFile(filepath.Join(sub, "in.json"), []byte(k.input), 0o644)
		args := []string{}
		for _, s := range k.sels {
			args = append(args, "-r", s)
		}
		toFile := b%2 == 1
		if toFile {
			args = append(args, "-o", "out.json", k.prog, "in.json")
		} else {
			args = append(args, "-o", "-", k.prog, "in.json")
		}
		for r := 0; r < binReps; r++ {
			outPath := filepath.Join(sub, "out.json")
			if toFile {
				// what an unrelated earlier run left in the output file is not part of the key either
				switch r % 3 {
				case 0:
					os.Remove(outPath)
				case 1:
					os.WriteFile(outPath, []byte(strings.Repeat("[\"left over from an earlier run\"]\n", 40)), 0o644)
				default:
					os.WriteFile(outPath, []byte("{}"), 0o644)
				}
			}
			runArgs, stdin := args, []byte(nil)
			if r%2 == 1 && !toFile && !strings.Contains(k.prog, "$file") {
				// the same bytes reached through /dev/stdin given as a path (a file whose size is not its length);
				// not for programs that read $file: the name given on the command line is an input of theirs
				runArgs = append(append([]string{}, args[:len(args)-1]...), "/dev/stdin")
				stdin = []byte(k.input)
			}
			br := c.RunBin(runArgs, stdin, sub, 10e9)
			if br.TimedOut {
				return
			}
			if toFile {
				fb, _ := os.ReadFile(outPath)
				if br.Exit != 0 {
					fb = nil // what a failed run leaves in the file is not fixed by the statement
				}
				br.Stdout = append(append(br.Stdout, []byte("\x00-o:")...), fb...)
			}
			cls := "ok"
			if br.Exit != 0 {
				cls = firstWord(string(br.Stderr))
				if i := strings.LastIndex(strings.TrimSpace(string(br.Stderr)), "\n"); i >= 0 {
					cls = firstWord(strings.TrimSpace(string(br.Stderr))[i+1:])
				}
			}
			binRuns[b] = append(binRuns[b], binRun{k.id + "#bin", obsHash(br.Stdout, []byte(cls))})
		}
	})
	for b := range binRuns {
		for r, x := range binRuns[b] {
			events = append(events, runEvent{Key: x.key, Proc: fmt.Sprintf("bin%d_%d", b, r), Obs: x.obs})
		}
	}

	// A key's determinism does not depend on other keys (only the polluters matter to the
	// deviation), so the history is validated in groups of keys, each with every polluter event:
	// TLC's state holds one memo entry per key of the group.
	groupOf := map[string]int{}
	polluter := map[string]bool{}
	for i, k := range keys {
		groupOf[k.id] = i / 120
		groupOf[k.id+"#bin"] = i / 120
		if k.pollutes {
			polluter[k.id] = true
		}
	}
	ngroups := (len(keys) + 119) / 120
	for g := 0; g < ngroups; g++ {
		var sub []runEvent
		for _, e := range events {
			if groupOf[e.Key] == g || polluter[e.Key] {
				sub = append(sub, e)
			}
		}
		matched, ok := validateProcTrace(c, sub, "{}")
		if ok {
			continue
		}
		bad := sub[matched]
		var kk procKey
		for _, k := range keys {
			if k.id == strings.TrimSuffix(bad.Key, "#bin") {
				kk = k
			}
		}
		if c.OpenDev("proto-pollution") {
			if _, ok2 := validateProcTrace(c, sub, "{\"proto-pollution\"}"); ok2 {
				c.Known("proto-pollution", "a program that assigns through a method name (x = 5; x.floor = 1) overwrites a process-wide prototype table: later runs in the same process that call methods change (witness: "+strconv.Quote(c10Polluters[0])+" then "+strconv.Quote(c10Victims[0])+")")
				continue
			}
		}
		var earlier *runEvent
		for i := 0; i < matched; i++ {
			if sub[i].Key == bad.Key {
				earlier = &sub[i]
				break
			}
		}
		c.Violation("nondeterministic", map[string]any{"program": kk.prog, "selectors": kk.sels, "input": kk.input, "event_index": matched, "event": bad, "first_observation": earlier,
			"why": "the same (program, selectors, input) produced two different observations (stdout / JSON output / outcome)"})
	}
	c.Count("traces_validated_against_impl", int64(nproc+len(binRuns)))
	c.Count("run_events", int64(len(events)))
	nontrivial := 0
	for _, k := range keys {
		if !dropped[k.id] {
			c.Case("key:"+k.prog+"|"+k.input, true)
			nontrivial++
		}
	}
	c.Sample(map[string]any{"family": "object printing", "program": keys[3].prog, "input": keys[3].input})
	c.Sample(map[string]any{"family": "polluter then victim", "polluter": c10Polluters[0], "victim": c10Victims[0]})
	c.Sample(map[string]any{"family": "random", "program": keys[len(keys)-1].prog, "input": keys[len(keys)-1].input})
	c.Set("keys", nontrivial)
	c.Set("dropped_keys_budget", len(dropped))
	c.Set("rule", fmt.Sprintf("%d keys (object printing/iteration programs x documents, polluters of process-level state, method-using victims, seeded random programs) each run %d times at random positions in each of %d long-lived processes and a subset %d times in fresh processes; the run history is validated by TLC against JqProc (equal keys => equal observations); every key is non-trivial", len(keys), reps, nproc, binReps))
	c.Set("checker_cmd", "tlc MC-level JqProc (Deterministic, NoProcessState) via Trace_Proc over the recorded run history")
}

func firstWord(s string) string {
	f := strings.Fields(s)
	if len(f) == 0 {
		return ""
	}
	return f[0]
}
