package main

import (
	"bytes"
	"encoding/json"
	"fmt"
	"math"
	"math/big"
	"math/rand"
	"reflect"
	"regexp"
	"sort"
	"strconv"
	"strings"
	"sync"
)

func init() { register("C05", checkC05) }

// ---------------------------------------------------------------------------
// Values as MC_Ops emits them (exact) and as the harness instantiates them
// (concrete doubles / byte strings).

type c05Val struct {
	K   string   `json:"k"`
	N   int64    `json:"n"`
	D   int64    `json:"d"`
	E   int64    `json:"e"`
	NZ  bool     `json:"nz"`
	X   *c05Val  `json:"x"`
	Y   *c05Val  `json:"y"`
	S   []string `json:"s"`
	B   bool     `json:"b"`
	Len int      `json:"len"`
	// k = "dec": (-1)^neg * (the integer with decimal digits ds) * 10^e10 (JqValue.ParseDec)
	Neg bool     `json:"neg"`
	Ds  []string `json:"ds"`
	E10 int64    `json:"e10"`
	// k = "fn": which runtime representation of a function (family fnval of MC_Ops)
	Rep string `json:"rep"`
}

type c05Res struct {
	OK bool    `json:"ok"`
	V  *c05Val `json:"v"`
}

type c05Dev struct {
	Name string `json:"name"`
	Mode string `json:"mode"`
	Res  c05Res `json:"res"`
}

type c05Vec struct {
	Fam    string   `json:"fam"`
	Op     string   `json:"op"`
	Li     int      `json:"li"`
	Ri     int      `json:"ri"`
	L      *c05Val  `json:"l"`
	R      *c05Val  `json:"r"`
	Res    c05Res   `json:"res"`
	EvalR  bool     `json:"evalr"`
	Devs   []c05Dev `json:"devs"`
	Name   string   `json:"name"`
	Prefix bool     `json:"prefix"`
	Stored *c05Val  `json:"stored"`
	// nest: a composed expression
	Shape string   `json:"shape"`
	Tree  *c05Tree `json:"tree"`
	Marks []int    `json:"marks"`
	// spell: a non-finite spelling (or a string that is nearly one) in one numeric context
	Ctx string  `json:"ctx"` // bin | un | inc
	Num *c05Val `json:"num"` // what the spelling denotes
	// site / usite: one expression evaluated once per element of a sequence
	Side  int      `json:"side"`
	Cells []c05Res `json:"cells"`
	Runs  []c05Run `json:"runs"`
}

// c05Run: the operands (indexes into the universe) one site sees in one run, in
// order; the run prints cells[seq[0]] .. cells[seq[nout-1]] and then, when Err,
// ends with a runtime error.
type c05Run struct {
	Variant string `json:"variant"`
	Seq     []int  `json:"seq"`
	NOut    int    `json:"nout"`
	Err     bool   `json:"err"`
}

// c05Tree is an expression tree of JqValue.EvalTree (leaf | un | bin).
type c05Tree struct {
	T  string   `json:"t"`
	Op string   `json:"op,omitempty"`
	V  *c05Val  `json:"v,omitempty"`
	ID int      `json:"id,omitempty"`
	E  *c05Tree `json:"e,omitempty"`
	L  *c05Tree `json:"l,omitempty"`
	R  *c05Tree `json:"r,omitempty"`
	G  *c05GV   `json:"-"` // the concrete leaf value
}

// c05GV is a concrete jqawk value: kind num|str|bool|null|unset|arr|obj|regex|fn.
type c05GV struct {
	Kind string
	F    float64
	S    []byte
	B    bool
	Len  int
}

// c05Rat is the exact rational (n/d)*2^e (or the sum of two of them).
func c05Rat(v *c05Val) *big.Rat {
	if v.K == "sum" {
		return new(big.Rat).Add(c05Rat(v.X), c05Rat(v.Y))
	}
	if v.K == "dec" {
		m := new(big.Int)
		if len(v.Ds) > 0 {
			if _, ok := m.SetString(strings.Join(v.Ds, ""), 10); !ok {
				infra("C05: decimal digits %v", v.Ds)
			}
		}
		if c05abs(v.E10) > 5000 {
			infra("C05: decimal exponent %d", v.E10)
		}
		r := new(big.Rat).SetInt(m)
		p := new(big.Rat).SetInt(new(big.Int).Exp(big.NewInt(10), big.NewInt(c05abs(v.E10)), nil))
		if v.E10 >= 0 {
			r.Mul(r, p)
		} else {
			r.Quo(r, p)
		}
		if v.Neg {
			r.Neg(r)
		}
		return r
	}
	r := new(big.Rat).SetFrac(big.NewInt(v.N), big.NewInt(v.D))
	p := new(big.Int).Lsh(big.NewInt(1), uint(c05abs(v.E)))
	if v.E >= 0 {
		return r.Mul(r, new(big.Rat).SetInt(p))
	}
	return r.Quo(r, new(big.Rat).SetInt(p))
}

func c05sign(neg bool) int {
	if neg {
		return -1
	}
	return 1
}

func c05abs(x int64) int64 {
	if x < 0 {
		return -x
	}
	return x
}

// c05Nearest is the double nearest to the exact value of a model number.
func c05Nearest(v *c05Val) float64 {
	switch v.K {
	case "inf":
		return math.Inf(c05sign(v.Neg))
	case "nan":
		return math.NaN()
	}
	if v.K == "num" && v.N == 0 {
		if v.NZ {
			return math.Copysign(0, -1)
		}
		return 0
	}
	if v.K == "dec" && len(v.Ds) == 0 {
		return c05signedZero(v.Neg)
	}
	f, _ := c05Rat(v).Float64()
	return f
}

func c05Concrete(v *c05Val) c05GV {
	switch v.K {
	case "num":
		f, exact := c05Rat(v).Float64()
		if !exact {
			infra("C05: operand of the model is not a double: %+v", *v)
		}
		if v.N == 0 && v.NZ {
			f = math.Copysign(0, -1)
		}
		return c05GV{Kind: "num", F: f}
	case "sum", "inf", "nan":
		return c05GV{Kind: "num", F: c05Nearest(v)}
	case "str", "regex":
		return c05GV{Kind: v.K, S: symsToBytes(v.S)}
	case "bool":
		return c05GV{Kind: "bool", B: v.B}
	case "arr", "obj":
		return c05GV{Kind: v.K, Len: v.Len}
	case "null", "unset", "fn", "native":
		return c05GV{Kind: v.K}
	}
	infra("C05: unknown value kind %q", v.K)
	return c05GV{}
}

func c05Fmt(f float64) string { return strconv.FormatFloat(f, 'f', -1, 64) }

// ---------------------------------------------------------------------------
// Go port of the tables of DESIGN.md section 3 (JqValue.tla).  It is used only
// for seeded operand values outside TLC's universe, and it is itself checked
// against the specification on every cell TLC enumerates (a disagreement is an
// infrastructure failure, never a verdict).

var c05NumRe = regexp.MustCompile(`^[+-]?([0-9]+\.?[0-9]*|\.[0-9]+)([eE][+-]?[0-9]+)?$`)

// c05Outside marks "a numeric string whose value is outside the model" (never compared); it is a
// NaN with a payload of its own so that it cannot be mistaken for the NaN the string "nan" denotes.
var c05Outside = math.Float64frombits(0x7ff8_0000_0bad_0001)

func c05IsOutside(f float64) bool { return math.Float64bits(f) == math.Float64bits(c05Outside) }
func c05NonFinite(f float64) bool { return math.IsNaN(f) || math.IsInf(f, 0) }

// c05ParseSpecial: the non-finite spellings (JqValue.ParseSpecial): [sign] inf, [sign] infinity,
// nan (no sign), in any letter case.
func c05ParseSpecial(s []byte) (float64, bool) {
	caseless := func(b []byte, word string) bool {
		if len(b) != len(word) {
			return false
		}
		for i := range b {
			if b[i] != word[i] && b[i] != word[i]-'a'+'A' {
				return false
			}
		}
		return true
	}
	body, neg := s, false
	if len(s) > 0 && (s[0] == '+' || s[0] == '-') {
		body, neg = s[1:], s[0] == '-'
	}
	switch {
	case caseless(body, "inf") || caseless(body, "infinity"):
		return math.Inf(c05sign(neg)), true
	case caseless(s, "nan"):
		return math.NaN(), true
	}
	return 0, false
}

// c05ParseNum: the double a numeric string denotes (decimal grammar and the non-finite spellings).
func c05ParseNum(s []byte) (float64, bool) {
	if f, ok := c05ParseSpecial(s); ok {
		return f, true
	}
	if !c05NumRe.Match(s) {
		return 0, false
	}
	t := string(s)
	neg := strings.HasPrefix(t, "-")
	t = strings.TrimLeft(t, "+-")
	exp := 0
	if i := strings.IndexAny(t, "eE"); i >= 0 {
		exp, _ = strconv.Atoi(t[i+1:])
		t = t[:i]
	}
	if i := strings.IndexByte(t, '.'); i >= 0 {
		exp -= len(t) - i - 1
		t = t[:i] + t[i+1:]
	}
	if exp > 5000 || exp < -5000 { // far outside the doubles: outside the model ("not compared")
		return c05Outside, true
	}
	m, ok := new(big.Int).SetString(t, 10)
	if !ok {
		infra("C05: mantissa %q", t)
	}
	if m.Sign() == 0 {
		if neg {
			return math.Copysign(0, -1), true
		}
		return 0, true
	}
	r := new(big.Rat).SetInt(m)
	p := new(big.Rat).SetInt(new(big.Int).Exp(big.NewInt(10), big.NewInt(int64(c05abs(int64(exp)))), nil))
	if exp >= 0 {
		r.Mul(r, p)
	} else {
		r.Quo(r, p)
	}
	f, _ := r.Float64()
	if math.IsInf(f, 0) { // a decimal beyond the largest double: outside the model
		return c05Outside, true
	}
	if neg {
		f = -f
	}
	return f, true
}

func c05Truthy(v c05GV) bool {
	switch v.Kind {
	case "num":
		return v.F != 0
	case "str":
		return len(v.S) > 0
	case "bool":
		return v.B
	case "arr", "obj", "fn":
		return true
	}
	return false
}

func c05NumOf(v c05GV) float64 {
	switch v.Kind {
	case "num":
		return v.F
	case "bool":
		if v.B {
			return 1
		}
		return 0
	case "str":
		if f, ok := c05ParseNum(v.S); ok {
			return f
		}
	}
	return 0
}

func c05StrOf(v c05GV) []byte {
	switch v.Kind {
	case "str":
		return v.S
	case "num":
		return []byte(c05Fmt(v.F))
	}
	return nil
}

// c05Out: the outcome the table prescribes.
type c05Out struct {
	Err    bool  // runtime error
	AnyVal bool  // a value, NOT a runtime error; which value is not fixed by the statement (JqValue.OkOpen)
	Open   bool  // not fixed by the statement: not compared
	Any    bool  // (deviation only) any value or a runtime error
	V      c05GV // num | str | bool
}

func c05B(b bool) c05Out    { return c05Out{V: c05GV{Kind: "bool", B: b}} }
func c05N(f float64) c05Out { return c05Out{V: c05GV{Kind: "num", F: f}} }

func c05ratOf(f float64) *big.Rat { return new(big.Rat).SetFloat64(f) }

func c05signedZero(neg bool) float64 {
	if neg {
		return math.Copysign(0, -1)
	}
	return 0
}

// c05Arith: one IEEE operation = the double nearest to the exact result.
func c05Arith(op string, x, y float64) c05Out {
	if c05IsOutside(x) || c05IsOutside(y) { // a numeric string outside the doubles
		return c05Out{Open: true}
	}
	if c05NonFinite(x) || c05NonFinite(y) { // num() of inf / infinity / nan: IEEE (JqValue.Add Mul Div RemOf)
		switch op {
		case "+":
			return c05N(x + y)
		case "-":
			return c05N(x - y)
		case "*":
			return c05N(x * y)
		case "/":
			if y == 0 {
				return c05Out{Err: true}
			}
			return c05N(x / y)
		}
		tx, ty := math.Trunc(x), math.Trunc(y)
		switch {
		case ty == 0:
			return c05Out{Err: true}
		case !c05NonFinite(tx) && math.IsInf(ty, 0): // a finite dividend is its own remainder
			return c05N(tx + 0)
		}
		return c05Out{AnyVal: true}
	}
	var exact *big.Rat
	var native float64
	switch op {
	case "+", "-":
		yy := y
		if op == "-" {
			yy = -y
		}
		native = x + yy
		if x == 0 && yy == 0 {
			return c05N(c05signedZero(math.Signbit(x) && math.Signbit(yy)))
		}
		exact = new(big.Rat).Add(c05ratOf(x), c05ratOf(yy))
		if exact.Sign() == 0 {
			return c05N(0)
		}
	case "*":
		native = x * y
		if x == 0 || y == 0 {
			return c05N(c05signedZero(math.Signbit(x) != math.Signbit(y)))
		}
		exact = new(big.Rat).Mul(c05ratOf(x), c05ratOf(y))
	case "/":
		if y == 0 {
			return c05Out{Err: true}
		}
		native = x / y
		if x == 0 {
			return c05N(c05signedZero(math.Signbit(x) != math.Signbit(y)))
		}
		exact = new(big.Rat).Quo(c05ratOf(x), c05ratOf(y))
	case "%":
		tx, ty := math.Trunc(x), math.Trunc(y)
		if ty == 0 {
			return c05Out{Err: true}
		}
		bx, _ := new(big.Float).SetFloat64(tx).Int(nil)
		by, _ := new(big.Float).SetFloat64(ty).Int(nil)
		r := new(big.Int).Rem(bx, by) // truncated division: sign of the dividend
		f, _ := new(big.Float).SetInt(r).Float64()
		return c05N(f)
	}
	f, _ := exact.Float64()
	if math.IsInf(f, 0) || math.IsNaN(f) {
		return c05Out{Open: true}
	}
	if f != native || math.Signbit(f) != math.Signbit(native) {
		infra("C05: math/big and IEEE disagree on %v %s %v: %v vs %v", x, op, y, f, native)
	}
	return c05N(f)
}

func c05Beyond63(f float64) bool {
	return !c05NonFinite(f) && math.Abs(math.Trunc(f)) >= 9223372036854775808.0
}

func c05Bin(op string, l, r c05GV) c05Out {
	switch op {
	case "+", "-", "*", "/", "%":
		if op == "+" && (l.Kind == "str" || r.Kind == "str") {
			return c05Out{V: c05GV{Kind: "str", S: append(append([]byte{}, c05StrOf(l)...), c05StrOf(r)...)}}
		}
		return c05Arith(op, c05NumOf(l), c05NumOf(r))
	case "==", "!=", "<", "<=", ">", ">=":
		if l.Kind == "unset" || r.Kind == "unset" {
			switch op {
			case "<", ">":
				return c05B(true)
			case "==":
				return c05B(false)
			}
			return c05Out{Open: true}
		}
		var c int
		switch {
		case l.Kind == "null" && r.Kind == "null":
			c = 0
		case l.Kind == "null":
			c = -1
		case r.Kind == "null":
			c = 1
		case l.Kind == "arr" || l.Kind == "obj" || r.Kind == "arr" || r.Kind == "obj":
			return c05Out{Err: true}
		case l.Kind == "str" && r.Kind == "str":
			c = bytes.Compare(l.S, r.S)
		default:
			x, y := c05NumOf(l), c05NumOf(r)
			if c05IsOutside(x) || c05IsOutside(y) {
				return c05Out{Open: true}
			}
			if math.IsNaN(x) || math.IsNaN(y) { // NaN is not ordered
				return c05Out{AnyVal: true}
			}
			if x < y {
				c = -1
			} else if x > y {
				c = 1
			}
		}
		switch op {
		case "<":
			return c05B(c < 0)
		case "<=":
			return c05B(c <= 0)
		case ">":
			return c05B(c > 0)
		case ">=":
			return c05B(c >= 0)
		case "==":
			return c05B(c == 0)
		}
		return c05B(c != 0)
	case "&&":
		return c05B(c05Truthy(l) && c05Truthy(r))
	case "||":
		return c05B(c05Truthy(l) || c05Truthy(r))
	case "~", "!~":
		if r.Kind != "str" && r.Kind != "regex" {
			return c05Out{Err: true}
		}
		re, err := regexp.Compile(string(r.S)) // RE2 itself is outside the model
		if err != nil {
			return c05Out{Err: true}
		}
		return c05B(re.Match(c05StrOf(l)) == (op == "~"))
	}
	infra("C05: unknown operator %q", op)
	return c05Out{}
}

func c05EvalsRight(op string, l c05GV) bool {
	switch op {
	case "&&":
		return c05Truthy(l)
	case "||":
		return !c05Truthy(l)
	}
	return true
}

func c05Un(op string, v c05GV) c05Out {
	switch op {
	case "!":
		return c05B(!c05Truthy(v))
	case "+", "-":
		x := c05NumOf(v)
		if c05IsOutside(x) {
			return c05Out{Open: true}
		}
		if op == "-" {
			x = -x
		}
		return c05N(x)
	}
	infra("C05: unknown unary operator %q", op)
	return c05Out{}
}

func c05IncDec(op string, prefix bool, v c05GV) (value, stored c05Out) {
	old := c05NumOf(v)
	o := "+"
	if op == "--" {
		o = "-"
	}
	nw := c05Arith(o, old, 1)
	if prefix {
		return nw, nw
	}
	return c05N(old), nw
}

var c05TypeName = map[string]string{"num": "number", "str": "string", "bool": "bool", "arr": "array", "obj": "object",
	"regex": "regex", "fn": "function", "null": "null", "unset": "unknown"}

// c05FromModel: the model's prescribed outcome as a concrete one.
func c05FromModel(r c05Res) c05Out {
	if !r.OK {
		return c05Out{Err: true}
	}
	switch r.V.K {
	case "unfixed":
		return c05Out{Open: true}
	case "okopen":
		return c05Out{AnyVal: true}
	case "inf", "nan":
		return c05N(c05Nearest(r.V))
	case "any":
		return c05Out{Any: true}
	case "num", "sum":
		return c05N(c05Nearest(r.V))
	}
	return c05Out{V: c05Concrete(r.V)}
}

func c05SameOut(a, b c05Out) bool {
	if a.Err != b.Err || a.Open != b.Open || a.Any != b.Any || a.AnyVal != b.AnyVal {
		return false
	}
	if a.Err || a.Open || a.Any || a.AnyVal {
		return true
	}
	return c05Text(a.V) == c05Text(b.V) && a.V.Kind == b.V.Kind
}

// c05Text: what `print` shows for an operator result.
func c05Text(v c05GV) string {
	switch v.Kind {
	case "num":
		return c05Fmt(v.F)
	case "str":
		return string(v.S)
	case "bool":
		if v.B {
			return "true"
		}
		return "false"
	}
	infra("C05: operator result of kind %q", v.Kind)
	return ""
}

// ---------------------------------------------------------------------------
// Rendering operands and programs.

func c05SafeStr(s []byte) bool {
	for _, b := range s {
		if b == '"' || b == '\\' || b < 0x20 || b == 0x7f {
			return false
		}
	}
	return true
}

// c05Lit renders a value as a literal expression (unset: a name never
// assigned; function: the name of a declared function).  Negative numbers are
// written (0 - x) and -0 as (- 0): the lexing of a leading minus belongs to C13.
func c05Lit(v c05GV, side string) string {
	switch v.Kind {
	case "num":
		switch {
		case v.F == 0 && math.Signbit(v.F):
			return "(- 0)"
		case v.F < 0:
			return "(0 - " + c05Fmt(-v.F) + ")"
		}
		return c05Fmt(v.F)
	case "str":
		return `"` + string(v.S) + `"`
	case "bool":
		if v.B {
			return "true"
		}
		return "false"
	case "null":
		return "null"
	case "unset":
		return "u" + side
	case "arr":
		if v.Len == 0 {
			return "[]"
		}
		return "[1]"
	case "obj":
		if v.Len == 0 {
			return "{}"
		}
		return "{a: 1}"
	case "regex":
		return "/" + string(v.S) + "/"
	case "fn":
		return "f"
	case "native": // a built-in function (only as the left operand of `is`)
		return "printf"
	}
	infra("C05: cannot render kind %q", v.Kind)
	return ""
}

func c05JSONKind(v c05GV) bool {
	switch v.Kind {
	case "num", "str", "bool", "null", "arr", "obj":
		return true
	}
	return false
}

func c05JSON(v c05GV) string {
	switch v.Kind {
	case "num":
		return c05Fmt(v.F)
	case "str":
		b, err := json.Marshal(string(v.S))
		if err != nil {
			infra("C05: json: %v", err)
		}
		return string(b)
	case "obj":
		if v.Len == 0 {
			return "{}"
		}
		return `{"a": 1}`
	}
	return c05Lit(v, "")
}

// Renderings in which a NULL operand is supplied as the value of reading a
// numeric member that does not exist (index past the end of an array, absent
// numeric key of an object), with a non-zero index: the interpreter keeps the
// index inside such a null ("speculative" member), which must not leak into
// num() / str() / truthiness.  (That the read pads the array is C09's business
// and does not show in the operator's result.)
var c05MissModes = []string{"miss:docarr", "miss:vararr", "miss:obj", "miss:docobj"}

func c05IsMiss(mode string) bool { return strings.HasPrefix(mode, "miss:") }

// c05Operand renders one operand for a mode: the reference used inside the
// expression, the statement that must run first, and the member of the input
// document it needs (`"name": value`).
func c05Operand(v c05GV, side, mode string) (ref, pre, field string) {
	assignable := v.Kind != "unset" && v.Kind != "fn" && v.Kind != "native"
	if v.Kind == "native" { // other built-ins: a global function, a prototype method
		switch mode {
		case "var":
			return "num", "", ""
		case "doc":
			return "$." + side + ".upper", "", `"` + side + `": "x"`
		}
	}
	idx := map[string]string{"a": "5", "b": "7"}[side]
	if idx == "" {
		idx = "4"
	}
	switch {
	case mode == "lit":
		return c05Lit(v, side), "", ""
	case mode == "doc":
		if c05JSONKind(v) {
			return "$." + side, "", `"` + side + `": ` + c05JSON(v)
		}
	case c05IsMiss(mode) && v.Kind == "null":
		switch mode {
		case "miss:docarr":
			return "$.m" + side + "[" + idx + "]", "", `"m` + side + `": [10, 20]`
		case "miss:vararr":
			return "m" + side + "[" + idx + "]", "m" + side + " = [10, 20]; ", ""
		case "miss:obj":
			return "o" + side + "[3]", "o" + side + " = {k: 1}; ", ""
		case "miss:docobj":
			return "$.o" + side + "[" + idx + "]", "", `"o` + side + `": {"k": 1}`
		}
	}
	if !assignable {
		return c05Lit(v, side), "", ""
	}
	return side, side + " = " + c05Lit(v, side) + "; ", ""
}

type c05Case struct {
	Desc  string   `json:"desc"`
	Prog  string   `json:"prog"`
	Doc   string   `json:"doc,omitempty"`
	Want  string   `json:"want"`                // expected stdout when the outcome is a value
	WantE string   `json:"want_e"`              // expected stdout before a runtime error
	Err   bool     `json:"err"`                 // expected outcome: runtime error
	AnyV  bool     `json:"any_value,omitempty"` // expected outcome: a value (no runtime error); which one is not fixed
	Devs  []c05Alt `json:"devs,omitempty"`      // outcomes a named open finding predicts instead
	Key   string   `json:"key"`
	NT    bool     `json:"nt"`
	Seed  bool     `json:"seeded,omitempty"`
}

type c05Alt struct {
	Name string `json:"name"`
	Any  bool   `json:"any"`
	Err  bool   `json:"err"`
	Want string `json:"want"`
}

const c05FnDecl = "function f() {} "

func c05UsesFn(vs ...c05GV) string {
	for _, v := range vs {
		if v.Kind == "fn" {
			return c05FnDecl
		}
	}
	return ""
}

func c05DocText(fa, fb string) string {
	parts := []string{}
	if fa != "" {
		parts = append(parts, fa)
	}
	if fb != "" {
		parts = append(parts, fb)
	}
	return "{" + strings.Join(parts, ", ") + "}"
}

// c05BinProg builds the program of one binary cell in one mode.  ok=false
// when the mode does not apply (e.g. document mode without a JSON operand).
func c05BinProg(op string, l, r c05GV, mode string) (prog, doc, marks string, ok bool) {
	fn := c05UsesFn(l, r)
	origMode := mode
	if c05IsMiss(mode) {
		if l.Kind != "null" && r.Kind != "null" {
			return "", "", "", false
		}
		mode = "miss"
	}
	switch mode {
	case "lit", "var", "doc", "miss":
		la, lp, lf := c05Operand(l, "a", origMode)
		ra, rp, rf := c05Operand(r, "b", origMode)
		expr := "print " + la + " " + op + " " + ra
		if lf != "" || rf != "" {
			return fn + "{ " + lp + rp + expr + " }", c05DocText(lf, rf), "", true
		}
		if mode == "doc" {
			return "", "", "", false
		}
		return fn + "BEGIN { " + lp + rp + expr + " }", "", "", true
	case "lv", "vl": // one operand a literal, the other one a variable
		lm, rm := "lit", "var"
		if mode == "vl" {
			lm, rm = "var", "lit"
		}
		la, lp, _ := c05Operand(l, "a", lm)
		ra, rp, _ := c05Operand(r, "b", rm)
		return fn + "BEGIN { " + lp + rp + "print " + la + " " + op + " " + ra + " }", "", "", true
	case "same":
		la, lp, _ := c05Operand(l, "a", "var")
		return fn + "BEGIN { " + lp + "print " + la + " " + op + " " + la + " }", "", "", true
	case "mark":
		la, lp, _ := c05Operand(l, "a", "var")
		ra, rp, _ := c05Operand(r, "b", "var")
		marks = "L\n"
		if c05EvalsRight(op, l) {
			marks += "R\n"
		}
		return fn + `function ml() { print "L"; return ` + la + ` } function mr() { print "R"; return ` + ra + ` } ` +
			"BEGIN { " + lp + rp + "print ml() " + op + " mr() }", "", marks, true
	}
	infra("C05: mode %q", mode)
	return
}

func c05MkCase(desc, prog, doc, marks string, exp c05Out) c05Case {
	cs := c05Case{Desc: desc, Prog: prog, Doc: doc, Key: prog + "\x00" + doc}
	cs.WantE = marks
	switch {
	case exp.Err:
		cs.Err = true
	case exp.AnyVal:
		cs.AnyV = true
	default:
		cs.Want = marks + c05Text(exp.V) + "\n"
	}
	return cs
}

func c05Interesting(vs ...c05GV) bool {
	for _, v := range vs {
		if v.Kind != "num" || v.F <= 0 || v.F != math.Trunc(v.F) || v.F > 1000 {
			return true
		}
	}
	return false
}

// ---------------------------------------------------------------------------
// Seeded operand generators (thorough-tier extension; also a small sample in
// the quick tier): values of the same classes as the universe's
// representatives, where only the class matters.

func c05RandNum(rng *rand.Rand) float64 {
	sign := 1.0
	if rng.Intn(3) == 0 {
		sign = -1
	}
	switch rng.Intn(9) {
	case 0:
		return c05signedZero(rng.Intn(2) == 0)
	case 1:
		return sign * float64(rng.Intn(40))
	case 2:
		return sign * float64(rng.Intn(4000)) / float64(int(1)<<uint(1+rng.Intn(8)))
	case 3: // huge
		return sign * math.Float64frombits(uint64(1023+50+rng.Intn(900))<<52|uint64(rng.Int63())&(1<<52-1))
	case 4: // tiny
		return sign * math.Float64frombits(uint64(1023-20-rng.Intn(900))<<52|uint64(rng.Int63())&(1<<52-1))
	case 5: // around 2^53
		return sign * (9007199254740992 + float64(rng.Intn(9)-4)*2)
	case 6: // a decimal fraction that is not a dyadic rational
		f, _ := strconv.ParseFloat(fmt.Sprintf("%d.%02d", rng.Intn(100), rng.Intn(100)), 64)
		return sign * f
	case 7: // integers between 2^31 and 2^63 and beyond
		return sign * math.Trunc(math.Float64frombits(uint64(1023+31+rng.Intn(40))<<52|uint64(rng.Int63())&(1<<52-1)))
	}
	return sign * math.Float64frombits(uint64(1023-60+rng.Intn(120))<<52|uint64(rng.Int63())&(1<<52-1))
}

func c05RandDigits(rng *rand.Rand, min, max int) string {
	n := min + rng.Intn(max-min+1)
	var sb strings.Builder
	for i := 0; i < n; i++ {
		sb.WriteByte(byte('0' + rng.Intn(10)))
	}
	return sb.String()
}

// c05RandCase writes a word in a random mixture of letter cases.
func c05RandCase(rng *rand.Rand, word string) string {
	b := []byte(word)
	style := rng.Intn(4) // lower, upper, capitalised, mixed
	for i := range b {
		if style == 1 || (style == 2 && i == 0) || (style == 3 && rng.Intn(2) == 0) {
			b[i] = b[i] - 'a' + 'A'
		}
	}
	return string(b)
}

func c05RandNumericStr(rng *rand.Rand) string {
	if rng.Intn(8) == 0 { // the non-finite spellings
		if rng.Intn(3) == 0 {
			return c05RandCase(rng, "nan")
		}
		return []string{"", "", "-", "+"}[rng.Intn(4)] + c05RandCase(rng, []string{"inf", "infinity"}[rng.Intn(2)])
	}
	s := []string{"", "", "-", "+"}[rng.Intn(4)]
	switch rng.Intn(4) {
	case 0:
		s += c05RandDigits(rng, 1, 6)
	case 1:
		s += c05RandDigits(rng, 1, 4) + "." + c05RandDigits(rng, 0, 5)
	case 2:
		s += "." + c05RandDigits(rng, 1, 5)
	case 3:
		s += c05RandDigits(rng, 1, 3) + "." + c05RandDigits(rng, 1, 3)
	}
	if rng.Intn(3) == 0 {
		s += []string{"e", "E"}[rng.Intn(2)] + []string{"", "-", "+"}[rng.Intn(3)] + c05RandDigits(rng, 1, 2)
	}
	return s
}

// letters that cannot start or continue any spelling strconv.ParseFloat accepts
const c05Letters = "ghjkmqrstuvwyzGHJKMQRSTUVWYZ"

func c05RandNonNumericStr(rng *rand.Rand) string {
	word := func() string {
		n := 1 + rng.Intn(5)
		var sb strings.Builder
		for i := 0; i < n; i++ {
			sb.WriteByte(c05Letters[rng.Intn(len(c05Letters))])
		}
		return sb.String()
	}
	switch rng.Intn(11) {
	case 10: // nearly a non-finite spelling
		w := c05RandCase(rng, []string{"inf", "infinity", "nan"}[rng.Intn(3)])
		switch rng.Intn(5) {
		case 0:
			return w[:len(w)-1]
		case 1:
			return w + string(w[len(w)-1])
		case 2:
			return []string{"+", "-"}[rng.Intn(2)] + c05RandCase(rng, "nan")
		case 3:
			return []string{" ", "+ ", "--", "."}[rng.Intn(4)] + w
		}
		return w + []string{" ", "1", "e1", ".0", "-"}[rng.Intn(5)]
	case 0:
		return ""
	case 1:
		return strings.Repeat(" ", 1+rng.Intn(3))
	case 2:
		return " " + c05RandNumericStr(rng)
	case 3:
		return c05RandNumericStr(rng) + " "
	case 4:
		return c05RandNumericStr(rng) + word()
	case 5:
		return word() + c05RandDigits(rng, 1, 3)
	case 6:
		return []string{"-", "+", ".", "--1", "+-2", "1.2.3", "1,5", "1e", "-.", "5-", "1 2", "$3", "(4)"}[rng.Intn(13)]
	case 7:
		return word() + " " + word()
	case 8:
		return []string{"héllo", "٣", "½", "z世界", "\U0001F600"}[rng.Intn(5)] + word()
	}
	return word()
}

var c05ValidPats = []string{"a", "^5", "5$", "^$", "[0-9]+", "a|x", ".", "", "^-?[0-9]+$", "ab*c", "^[a-z]+$", "[.]", "(t|s)+", "0{2,}", "^.{3}$", "[^0-9]"}
var c05BadPats = []string{"(", "[a", "a)", "*a", "a{2,1}", "(?P<x", "[z-a]", "a**"}

func c05RandVal(rng *rand.Rand, forPattern bool) c05GV {
	if forPattern && rng.Intn(3) != 0 {
		kind := []string{"str", "regex"}[rng.Intn(2)]
		if rng.Intn(5) == 0 {
			return c05GV{Kind: kind, S: []byte(c05BadPats[rng.Intn(len(c05BadPats))])}
		}
		p := c05ValidPats[rng.Intn(len(c05ValidPats))]
		if kind == "regex" && p == "" {
			p = "."
		}
		return c05GV{Kind: kind, S: []byte(p)}
	}
	switch rng.Intn(16) {
	case 0, 1, 2, 3, 4:
		return c05GV{Kind: "num", F: c05RandNum(rng)}
	case 5, 6, 7:
		return c05GV{Kind: "str", S: []byte(c05RandNumericStr(rng))}
	case 8, 9, 10:
		return c05GV{Kind: "str", S: []byte(c05RandNonNumericStr(rng))}
	case 11:
		return c05GV{Kind: "bool", B: rng.Intn(2) == 0}
	case 12:
		return c05GV{Kind: []string{"null", "unset"}[rng.Intn(2)]}
	case 13:
		return c05GV{Kind: "arr", Len: rng.Intn(2)}
	case 14:
		return c05GV{Kind: "obj", Len: rng.Intn(2)}
	}
	return []c05GV{{Kind: "regex", S: []byte("ab")}, {Kind: "regex", S: []byte("[0-9]")}, {Kind: "fn"}}[rng.Intn(3)]
}

var c05AllBin = []string{"+", "-", "*", "/", "%", "==", "!=", "<", "<=", ">", ">=", "&&", "||", "~", "!~"}
var c05IsNames = []string{"number", "string", "bool", "array", "object", "regex", "function", "null", "unknown", "foo",
	"nil", "nativefunction", "nativefn", "Null", "NULL", "str", "int", "float", "boolean", "list", "dict", "undefined", "unset", "none", "any",
	"String", "ARRAY", "Function", "nul", "numbers", "type", "true_", "x"}

// c05Is: `v is name` per DESIGN.md 3.6 (port of JqValue.IsOp).
func c05Is(v c05GV, name string) c05Out {
	documented := false
	for _, n := range c05TypeName {
		documented = documented || n == name
	}
	switch {
	case !documented:
		return c05B(false)
	case v.Kind == "native":
		return c05Out{Open: true}
	}
	return c05B(c05TypeName[v.Kind] == name)
}

// ---------------------------------------------------------------------------

// C05: operators compute the documented result for every combination of
// operand kinds.  MC_Ops (TLC) enumerates every operator x every ordered pair
// of the operand universe and checks the laws of DESIGN.md 3; every cell is
// replayed on the real code as one-line programs with the operands as
// literals, as variables, as fields of the input document, as one shared
// variable (diagonal cells) and behind marker functions that make the
// evaluation of each operand observable.
func checkC05(c *Ctx) {
	c.Assume("`!=`, `<=`, `>=` with an unset operand are not fixed by the statement: not compared")
	c.Assume("non-finite results by overflow of * / + - on finite operands are not compared")
	c.Assume("NaN (the value of the numeric string nan) is not ordered: a comparison that goes through num() with NaN on one side must give a value (no runtime error), which one is not compared; likewise x % y with an infinite or NaN x, or a NaN y (a finite x is its own remainder by an infinite y); an error exactly when the truncated divisor is zero")
	c.Assume("`is` applied to a built-in function with one of the nine documented type names is not compared; with any other identifier it must give false like for every other operand")
	c.Assume("error messages and positions are not compared, only the outcome kind (value printed / runtime error)")
	c.Assume("the RE2 engine is outside the model: the specification gives each of its 13 patterns a hand-written meaning (cross-checked against Go's regexp by the harness); seeded patterns use Go's regexp as the reference")
	c.Assume("numeric strings: the decimal grammar [sign] digits [. digits] [e [sign] digits] and the non-finite spellings [sign] inf, [sign] infinity, nan in any letter case (values: IEEE infinities and NaN, printed +Inf -Inf NaN); Go's hex and underscore spellings and out-of-range magnitudes are outside the model")
	c.Assume("negative number literals are written (0 - x) and -0 as (- 0) so that the check does not depend on how a leading minus is lexed (C13)")
	c.Assume("the number print format (strconv 'f', -1) is taken from DESIGN.md 3.1; values of a function/regex/unset passed through `return` are assumed to keep their kind (marker mode)")
	c.Assume("composed expressions: where the result of an inner operator is outside the model's exact arithmetic (a quotient that is not a dyadic rational, |mantissa| >= 2^6, a number text longer than its exact expansion, a computed string with more than 8 digits or an exponent) or is itself not fixed, the expression is not compared in the model's families; the seeded trees are computed by the Go port of the tables (one IEEE rounding per operator)")
	c.Assume("repeated sites: for-in over an object visits the keys in bytewise sorted order (C10); a function is not passed as an argument and neither a function nor an unset value is stored in an array or object (not fixed by the statement)")
	pool := c.Pool()

	var cmu sync.Mutex
	counts := map[string]int{}
	count := func(k string) {
		cmu.Lock()
		counts[k]++
		cmu.Unlock()
	}
	inconclusive := 0
	nsample := 0
	knownEx := map[string]string{} // per open finding: the shortest witness (deterministic across runs)
	st := pool.NewStream(func(j *Job, r Result) {
		var cs c05Case
		if err := json.Unmarshal([]byte(j.Tag), &cs); err != nil {
			infra("C05: tag: %v", err)
		}
		if r.Class == "timeout" || r.Class == "budget" {
			inconclusive++
			return
		}
		matches := func(any, isErr bool, want, wantE string) bool {
			if any {
				return r.Class == "ok" || r.Class == "runtime"
			}
			if isErr {
				return r.Class == "runtime" && string(r.Stdout) == wantE
			}
			if cs.AnyV { // the markers, then exactly one printed line
				rest := strings.TrimPrefix(string(r.Stdout), wantE)
				return r.Class == "ok" && strings.HasPrefix(string(r.Stdout), wantE) && strings.Count(rest, "\n") == 1 && strings.HasSuffix(rest, "\n")
			}
			return r.Class == "ok" && string(r.Stdout) == want
		}
		rep := map[string]any{"case": cs.Desc, "program": cs.Prog, "document": cs.Doc, "expected_error": cs.Err,
			"expected_stdout": cs.Want, "expected_stdout_before_error": cs.WantE, "got_class": r.Class, "got_stdout": string(r.Stdout), "got_msg": r.ErrMsg, "detail": r.Detail}
		if !matches(false, cs.Err, cs.Want, cs.WantE) {
			explained := false
			for _, d := range cs.Devs {
				if matches(d.Any, d.Err, d.Want, cs.WantE) && c.OpenDev(d.Name) {
					what := fmt.Sprintf("e.g. `%s`%s: expected %s, got %s", cs.Prog, c05DocNote(cs.Doc), c05Describe(cs.Err, cs.Want), c05Describe(r.Class != "ok", string(r.Stdout)))
					if cur, ok := knownEx[d.Name]; !ok || len(what) < len(cur) || (len(what) == len(cur) && what < cur) {
						knownEx[d.Name] = what
					}
					count("explained by " + d.Name)
					explained = true
					break
				}
			}
			if !explained {
				name := "operator-result"
				if r.Class != "ok" && r.Class != "runtime" {
					name = "operator-crash"
				}
				c.Violation(name, rep)
				return
			}
		}
		c.Case(cs.Key, cs.NT)
		nsample++
		if nsample%9973 == 1 || (cs.Seed && nsample%997 == 3) {
			c.Sample(map[string]any{"case": cs.Desc, "program": cs.Prog, "document": cs.Doc, "expected_stdout": cs.Want, "expected_runtime_error": cs.Err})
		}
	})
	submit := func(cs c05Case) {
		b, _ := json.Marshal(&cs)
		j := Job{Kind: "run", Prog: []byte(cs.Prog), Tag: string(b)}
		if cs.Doc != "" {
			j.Files = []FileIn{{Name: "in.json", Data: []byte(cs.Doc)}}
		}
		st.Submit(j)
	}
	seen := map[string]bool{}
	submitOnce := func(cs c05Case) {
		if seen[cs.Key] {
			return
		}
		seen[cs.Key] = true
		submit(cs)
	}
	altsFor := func(devs []c05Dev, mode, marks string) []c05Alt {
		var out []c05Alt
		for _, d := range devs {
			if d.Mode != "" && d.Mode != mode {
				continue
			}
			o := c05FromModel(d.Res)
			a := c05Alt{Name: d.Name, Any: o.Any, Err: o.Err}
			if !o.Any && !o.Err {
				a.Want = marks + c05Text(o.V) + "\n"
			}
			out = append(out, a)
		}
		return out
	}

	// ---- (1) every cell of the model
	xfam := newC05x(c, pool)
	portChecked := 0
	nestNo := 0
	spellNo := 0
	var siteVecs []c05Vec
	uVals := map[int]*c05GV{}        // the operand universe by index (from the cells), for the site vectors
	siteCells := map[string]c05Out{} // "op li ri" -> outcome of the ~ / !~ cell
	siteVals := map[int]c05GV{}
	siteLeftMax := 0
	onVec := func(raw []byte) {
		var v c05Vec
		VecDecode(raw, &v)
		if v.Fam == "made" || v.Fam == "fnval" { // computed operands, function operands: c05x.go
			xfam.onVec(raw)
			return
		}
		count("cells " + v.Fam)
		if v.Fam == "site" || v.Fam == "usite" {
			siteVecs = append(siteVecs, v)
			return
		}
		exp := c05FromModel(v.Res)
		var l c05GV
		if v.L != nil {
			l = c05Concrete(v.L)
		}
		spell := v.Fam == "spell"
		if spell { // a spelling in one context: replayed like the cell of that context
			sv := l
			if v.Ctx == "bin" && v.Side == 2 {
				sv = c05Concrete(v.R)
			}
			if sv.Kind != "str" || !c05SameOut(c05N(c05NumOf(sv)), c05N(c05Nearest(v.Num))) {
				infra("C05: the Go port reads %q as %v, the specification as %+v", sv.S, c05NumOf(sv), *v.Num)
			}
			spellNo++
			v.Fam = v.Ctx
		}
		switch v.Fam {
		case "bin", "match":
			r := c05Concrete(v.R)
			port := c05Bin(v.Op, l, r)
			if !c05SameOut(port, exp) || c05EvalsRight(v.Op, l) != v.EvalR {
				infra("C05: the Go port of the operator table disagrees with the specification at %s %s %s: port %+v, spec %+v",
					c05Lit(l, "a"), v.Op, c05Lit(r, "b"), port, exp)
			}
			portChecked++
			if exp.Open {
				count("cells not fixed by the statement")
				return
			}
			modes := []string{"lit", "var", "doc", "mark", "lv", "vl"}
			if spell { // (a big family: the renderings take turns; the document field every time)
				modes = []string{"doc", []string{"lit", "var", "mark", "lv", "vl"}[spellNo%5]}
			}
			if v.Fam == "bin" && !spell {
				uVals[v.Li], uVals[v.Ri] = &l, &r
			}
			if v.Li == v.Ri && !spell {
				modes = append(modes, "same")
			}
			if l.Kind == "null" || r.Kind == "null" {
				modes = append(modes, c05MissModes...)
			}
			if v.Fam == "match" {
				siteCells[fmt.Sprintf("%s %d %d", v.Op, v.Li, v.Ri)] = exp
				siteVals[v.Li], siteVals[v.Ri] = l, r
				if v.Li > siteLeftMax {
					siteLeftMax = v.Li
				}
			}
			for _, mode := range modes {
				prog, doc, marks, ok := c05BinProg(v.Op, l, r, mode)
				if !ok {
					continue
				}
				cs := c05MkCase(fmt.Sprintf("%s [%s] %s, operands as %s", c05Lit(l, "a"), v.Op, c05Lit(r, "b"), mode), prog, doc, marks, exp)
				cs.Devs = altsFor(v.Devs, mode, marks)
				cs.NT = c05Interesting(l, r)
				submitOnce(cs)
			}
		case "un":
			if !c05SameOut(c05Un(v.Op, l), exp) {
				infra("C05: Go port disagrees with the specification at %s %s", v.Op, c05Lit(l, "a"))
			}
			portChecked++
			for _, mode := range append([]string{"lit", "var", "doc"}, c05MissModes...) {
				la, lp, lf := c05Operand(l, "a", mode)
				if (mode == "doc" && lf == "") || (c05IsMiss(mode) && l.Kind != "null") {
					continue
				}
				prog := c05UsesFn(l) + "BEGIN { " + lp + "print " + v.Op + " " + la + " }"
				doc := ""
				if lf != "" {
					prog, doc = "{ print "+v.Op+" "+la+" }", c05DocText(lf, "")
				}
				cs := c05MkCase(fmt.Sprintf("%s %s, operand as %s", v.Op, c05Lit(l, "a"), mode), prog, doc, "", exp)
				cs.NT = true
				submitOnce(cs)
			}
		case "inc":
			pv, ps := c05IncDec(v.Op, v.Prefix, l)
			stored := c05N(c05Nearest(v.Stored))
			if !c05SameOut(pv, exp) || !c05SameOut(ps, stored) {
				infra("C05: Go port disagrees with the specification at %s on %s", v.Op, c05Lit(l, "a"))
			}
			portChecked++
			for _, mode := range append([]string{"var", "doc"}, c05MissModes...) {
				cs, ok := c05IncCase(v.Op, v.Prefix, l, mode, exp, stored)
				if ok {
					submitOnce(cs)
				}
			}
		case "is":
			if !c05SameOut(c05Is(l, v.Name), exp) {
				infra("C05: Go port disagrees with the specification at %s is %s", c05Lit(l, "a"), v.Name)
			}
			portChecked++
			if exp.Open {
				count("cells not fixed by the statement")
				return
			}
			for _, mode := range append([]string{"lit", "var", "doc"}, c05MissModes...) {
				cs, ok := c05IsCase(l, v.Name, mode, exp)
				if ok {
					submitOnce(cs)
				}
			}
		case "nest":
			c05Concretize(v.Tree)
			port, pm := c05EvalTree(v.Tree)
			if exp.Open {
				count("composed expressions outside the range of the model's arithmetic or not fixed by the statement")
				return
			}
			if !c05SameOut(port, exp) || !reflect.DeepEqual(pm, v.Marks) {
				infra("C05: the Go port of EvalTree disagrees with the specification at %s: port %+v %v, spec %+v %v", c05TreeDesc(v.Tree), port, pm, exp, v.Marks)
			}
			portChecked++
			nestNo++
			modes := []string{"lit", "var", "mark"}
			if v.Shape == "bl" || v.Shape == "br" { // (the big families: the renderings take turns)
				modes = []string{[]string{"lit", "var", "doc", "mark"}[nestNo%4]}
			}
			for _, mode := range modes {
				submitOnce(c05TreeCase(v.Tree, mode, exp, v.Marks))
			}
		default:
			infra("C05: unknown vector family %q", v.Fam)
		}
	}
	nestN, stride := 5, []int{41, 43, 47, 53, 59, 61, 67}[int(uint64(c.Seed)%7)]
	// the letter-case patterns of the non-finite spellings: all lower, all upper, capitalised and two seeded ones;
	// thorough: all 256
	mrng := rand.New(rand.NewSource(c.Seed ^ 0x5be11))
	masks := []string{"0", "255", "1", strconv.Itoa(2 + mrng.Intn(253)), strconv.Itoa(2 + mrng.Intn(253))}
	if c.Thorough() {
		nestN = 9
		masks = nil
		for m := 0; m < 256; m++ {
			masks = append(masks, strconv.Itoa(m))
		}
	}
	res := c.TLC(TLCOpt{Module: "MC_Ops",
		Cfg: cfgText("INIT Init", "NEXT Next", "CONSTANTS", `Fams = {"bin", "match", "un", "inc", "is", "nest", "site", "usite", "spell", "made", "fnval"}`, "SpellMasks = {"+strings.Join(masks, ", ")+"}",
			fmt.Sprintf("NestN = %d", nestN), fmt.Sprintf("SiteShift = %d", uint64(c.Seed)%1000), fmt.Sprintf("SiteStride = %d", stride),
			"INVARIANT Laws", "INVARIANT Vec", "CHECK_DEADLOCK FALSE"),
		Workers: 8, Heap: "6g", OnVec: onVec})
	if res.Vectors == 0 {
		infra("C05: TLC emitted no vectors")
	}

	// ---- (1a) repeated sites of every operator: the changing operand reaches the
	// site as a for-in variable (elements, values, keys, characters, indexes), a
	// parameter, a reassigned variable or an indexed member; every evaluation must
	// give its own cell's result
	for _, v := range siteVecs {
		if len(v.Cells) != len(uVals) {
			infra("C05: a site vector has %d cells, the universe %d values", len(v.Cells), len(uVals))
		}
		var fixed c05GV
		if v.L != nil {
			fixed = c05Concrete(v.L)
		}
		for _, run := range v.Runs {
			if len(run.Seq) == 0 {
				continue
			}
			elems := make([]c05GV, len(run.Seq))
			outs := make([]c05Out, len(run.Seq))
			for t, i := range run.Seq {
				if uVals[i] == nil {
					infra("C05: site operand %d is not in the universe", i)
				}
				elems[t] = *uVals[i]
				outs[t] = c05FromModel(v.Cells[i-1])
				var port c05Out
				switch v.Side {
				case 0:
					port = c05Un(v.Op, elems[t])
				case 1:
					port = c05Bin(v.Op, elems[t], fixed)
				case 2:
					port = c05Bin(v.Op, fixed, elems[t])
				default:
					port = c05Bin(v.Op, elems[t], elems[t])
				}
				if !c05SameOut(port, outs[t]) || outs[t].Open || outs[t].Err != (run.Err && t == len(run.Seq)-1) {
					infra("C05: site %s side %d, operand %s: port %+v, spec %+v (run %+v)", v.Op, v.Side, c05Lit(elems[t], "x"), port, outs[t], run)
				}
			}
			if run.NOut != len(run.Seq) && !(run.Err && run.NOut == len(run.Seq)-1) {
				infra("C05: site run %+v", run)
			}
			cs, ok := c05SiteSeqCase(v.Op, v.Side, run.Variant, fixed, elems, outs)
			if !ok {
				infra("C05: the %s variant cannot carry the operands the model gave it", run.Variant)
			}
			count("repeated-site programs (" + run.Variant + ")")
			submitOnce(cs)
		}
	}

	// ---- (1b) one `~` / `!~` SITE evaluated several times in one run with
	// different patterns (regex values and strings held in a parameter, in the
	// elements of an array, in a variable reassigned between evaluations), an
	// invalid pattern last: every evaluation must give its own cell's result
	srng := rand.New(rand.NewSource(c.Seed ^ 0x51e))
	var patIdx, badIdx []int
	for i := 1; i <= len(siteVals); i++ {
		v, ok := siteVals[i]
		if !ok || (v.Kind != "str" && v.Kind != "regex") {
			continue
		}
		if _, err := regexp.Compile(string(v.S)); err != nil {
			badIdx = append(badIdx, i)
		} else {
			patIdx = append(patIdx, i)
		}
	}
	if len(patIdx) < 8 || len(badIdx) < 2 || siteLeftMax == 0 {
		infra("C05: pattern operands missing from the model's vectors")
	}
	for _, op := range []string{"~", "!~"} {
		for li := 1; li <= siteLeftMax; li++ {
			l := siteVals[li]
			for _, variant := range []string{"param", "array", "var"} {
				seq := []int{}
				for _, k := range srng.Perm(len(patIdx))[:4+srng.Intn(4)] {
					seq = append(seq, patIdx[k])
				}
				seq = append(seq, badIdx[srng.Intn(len(badIdx))], patIdx[0])
				rs := make([]c05GV, len(seq))
				outs := make([]c05Out, len(seq))
				for k, ri := range seq {
					o, ok := siteCells[fmt.Sprintf("%s %d %d", op, li, ri)]
					if !ok {
						infra("C05: no cell for %s %d %d", op, li, ri)
					}
					rs[k], outs[k] = siteVals[ri], o
				}
				cs := c05SiteCase(op, variant, []c05GV{l}, rs, outs)
				count("repeated-site programs")
				submitOnce(cs)
			}
		}
	}

	// ---- (2) seeded instantiation: operands of the same classes with random
	// leaf values; the expectation is recomputed from the same table (the Go
	// port validated above on every cell of the model)
	n := 20000
	if c.Thorough() {
		n = 500000
	}
	rng := rand.New(rand.NewSource(c.Seed))
	for i := 0; i < n; i++ {
		fam := rng.Intn(26)
		switch {
		case fam >= 24: // one site of a random operator, a random sequence of operands, every way of reaching it
			side := rng.Intn(4)
			op := c05AllBin[rng.Intn(len(c05AllBin)-2)]
			if side == 0 {
				op = []string{"!", "-", "+"}[rng.Intn(3)]
			}
			variant := []string{"elem", "docelem", "val", "key", "char", "param", "var", "member"}[rng.Intn(8)]
			fixed := c05RandVal(rng, false)
			var elems []c05GV
			var outs []c05Out
			okSeq := !(fixed.Kind == "str" && !c05SafeStr(fixed.S)) && !(fixed.Kind == "regex" && bytes.ContainsAny(fixed.S, "/ "))
			for k := 2 + rng.Intn(7); len(elems) < k; {
				var e c05GV
				switch variant {
				case "key":
					e = c05GV{Kind: "str", S: []byte([]string{c05RandNumericStr(rng), c05RandNonNumericStr(rng)}[rng.Intn(2)])}
				case "char":
					e = c05GV{Kind: "str", S: []byte(string("0123456789 -.ax+e"[rng.Intn(17)]))}
				default:
					e = c05RandVal(rng, false)
				}
				if e.Kind == "unset" || e.Kind == "fn" || (variant == "docelem" && !c05JSONKind(e)) || (e.Kind == "regex" && bytes.ContainsAny(e.S, "/ ")) ||
					(e.Kind == "str" && !c05SafeStr(e.S)) {
					continue
				}
				elems = append(elems, e)
			}
			if variant == "key" { // keys are distinct and visited in sorted order
				sort.Slice(elems, func(a, b int) bool { return bytes.Compare(elems[a].S, elems[b].S) < 0 })
				uniq := elems[:1]
				for _, e := range elems[1:] {
					if !bytes.Equal(e.S, uniq[len(uniq)-1].S) {
						uniq = append(uniq, e)
					}
				}
				elems = uniq
			}
			for q, e := range elems {
				var o c05Out
				switch side {
				case 0:
					o = c05Un(op, e)
				case 1:
					o = c05Bin(op, e, fixed)
				case 2:
					o = c05Bin(op, fixed, e)
				default:
					o = c05Bin(op, e, e)
				}
				okSeq = okSeq && !o.Open && !o.AnyVal
				outs = append(outs, o)
				if o.Err {
					elems = elems[:q+1]
					break
				}
			}
			if !okSeq || len(elems) < 2 {
				continue
			}
			cs, ok := c05SiteSeqCase(op, side, variant, fixed, elems, outs)
			if !ok {
				continue
			}
			cs.Desc, cs.Seed = "seeded: "+cs.Desc, true
			count("seeded cases")
			submitOnce(cs)
		case fam >= 21: // a random expression of depth <= 3
			next := 0
			t := c05RandTree(rng, 1+rng.Intn(3), &next)
			if t.T == "leaf" {
				continue
			}
			exp, marks := c05EvalTree(t)
			if exp.Open {
				count("seeded cases not fixed by the statement")
				continue
			}
			cs := c05TreeCase(t, []string{"lit", "var", "doc", "mark"}[rng.Intn(4)], exp, marks)
			cs.Desc, cs.Seed = "seeded: "+cs.Desc, true
			count("seeded cases")
			submitOnce(cs)
		case fam == 20: // one site, several (subject, pattern) pairs
			op := []string{"~", "!~"}[rng.Intn(2)]
			k := 2 + rng.Intn(4)
			ls, rs, outs := make([]c05GV, k), make([]c05GV, k), make([]c05Out, k)
			bad := false
			for q := 0; q < k; q++ {
				ls[q] = c05RandVal(rng, false)
				for ls[q].Kind == "unset" || ls[q].Kind == "fn" {
					ls[q] = c05RandVal(rng, false)
				}
				rs[q] = c05RandVal(rng, true)
				for rs[q].Kind != "str" && rs[q].Kind != "regex" {
					rs[q] = c05RandVal(rng, true)
				}
				bad = bad || (ls[q].Kind == "str" && !c05SafeStr(ls[q].S)) || !c05SafeStr(rs[q].S) || (rs[q].Kind == "regex" && bytes.ContainsAny(rs[q].S, "/ "))
				outs[q] = c05Bin(op, ls[q], rs[q])
			}
			if bad {
				continue
			}
			cs := c05SiteCase(op, "param2", ls, rs, outs)
			cs.Desc, cs.Seed = "seeded: "+cs.Desc, true
			count("seeded cases")
			submitOnce(cs)
		case fam < 15:
			op := c05AllBin[rng.Intn(len(c05AllBin))]
			isMatch := op == "~" || op == "!~"
			l, r := c05RandVal(rng, false), c05RandVal(rng, isMatch)
			if l.Kind == "str" && !c05SafeStr(l.S) || r.Kind == "str" && !c05SafeStr(r.S) {
				continue
			}
			if r.Kind == "regex" && bytes.ContainsAny(r.S, "/ ") {
				continue
			}
			exp := c05Bin(op, l, r)
			if exp.Open {
				count("seeded cases not fixed by the statement")
				continue
			}
			mode := []string{"lit", "var", "doc", "mark"}[rng.Intn(4)]
			if (l.Kind == "null" || r.Kind == "null") && rng.Intn(2) == 0 {
				mode = c05MissModes[rng.Intn(len(c05MissModes))]
			}
			prog, doc, marks, ok := c05BinProg(op, l, r, mode)
			if !ok {
				prog, doc, marks, _ = c05BinProg(op, l, r, "var")
				mode = "var"
			}
			cs := c05MkCase(fmt.Sprintf("seeded: %s [%s] %s, operands as %s", c05Lit(l, "a"), op, c05Lit(r, "b"), mode), prog, doc, marks, exp)
			x, y := c05NumOf(l), c05NumOf(r)
			if !(op == "+" && (l.Kind == "str" || r.Kind == "str")) {
				if (op == "/" && x == 0 && y != 0) || (op == "%" && math.Trunc(x) == 0 && math.Trunc(y) != 0) {
					cs.Devs = append(cs.Devs, c05Alt{Name: "zero-dividend", Err: true})
				}
				if op == "%" && (c05Beyond63(x) || c05Beyond63(y)) {
					cs.Devs = append(cs.Devs, c05Alt{Name: "mod-int-overflow", Any: true})
				}
			}
			cs.NT, cs.Seed = true, true
			count("seeded cases")
			submitOnce(cs)
		case fam < 17:
			op := []string{"!", "-", "+"}[rng.Intn(3)]
			l := c05RandVal(rng, false)
			if l.Kind == "str" && !c05SafeStr(l.S) {
				continue
			}
			mode := []string{"lit", "var", "doc"}[rng.Intn(3)]
			if l.Kind == "null" && rng.Intn(2) == 0 {
				mode = c05MissModes[rng.Intn(len(c05MissModes))]
			}
			la, lp, lf := c05Operand(l, "a", mode)
			prog, doc := c05UsesFn(l)+"BEGIN { "+lp+"print "+op+" "+la+" }", ""
			if lf != "" {
				prog, doc = "{ print "+op+" "+la+" }", c05DocText(lf, "")
			}
			cs := c05MkCase(fmt.Sprintf("seeded: %s %s, operand as %s", op, c05Lit(l, "a"), mode), prog, doc, "", c05Un(op, l))
			cs.NT, cs.Seed = true, true
			count("seeded cases")
			submitOnce(cs)
		case fam < 19:
			op := []string{"++", "--"}[rng.Intn(2)]
			l := c05RandVal(rng, false)
			if l.Kind == "str" && !c05SafeStr(l.S) {
				continue
			}
			prefix := rng.Intn(2) == 0
			pv, ps := c05IncDec(op, prefix, l)
			if pv.Open || ps.Open {
				continue
			}
			imode := []string{"var", "doc"}[rng.Intn(2)]
			if l.Kind == "null" && rng.Intn(2) == 0 {
				imode = c05MissModes[rng.Intn(len(c05MissModes))]
			}
			cs, ok := c05IncCase(op, prefix, l, imode, pv, ps)
			if !ok {
				cs, _ = c05IncCase(op, prefix, l, "var", pv, ps)
			}
			cs.Desc = "seeded: " + cs.Desc
			cs.Seed = true
			count("seeded cases")
			submitOnce(cs)
		default:
			l := c05RandVal(rng, false)
			if l.Kind == "str" && !c05SafeStr(l.S) {
				continue
			}
			if rng.Intn(12) == 0 {
				l = c05GV{Kind: "native"}
			}
			name := c05IsNames[rng.Intn(len(c05IsNames))]
			iexp := c05Is(l, name)
			if iexp.Open {
				continue
			}
			imode := []string{"lit", "var", "doc"}[rng.Intn(3)]
			if l.Kind == "null" && rng.Intn(2) == 0 {
				imode = c05MissModes[rng.Intn(len(c05MissModes))]
			}
			cs, ok := c05IsCase(l, name, imode, iexp)
			if !ok {
				continue
			}
			cs.Desc = "seeded: " + cs.Desc
			cs.Seed = true
			count("seeded cases")
			submitOnce(cs)
		}
	}
	st.Wait()
	xfam.finish()
	for d, what := range knownEx {
		c.Known(d, what)
	}

	c.Set("exhaustive", true)
	c.Set("rule", "TLC enumerates every binary operator x every ordered pair of a 40-value universe (13 numbers incl. -0, 2^53, 2^70, 2^-20; 16 strings incl. the non-finite numeric strings inf, -Infinity, NaN; "+
		"both booleans, null, unset, [] [1] {} {a:1}, two regexes, a function), ~ and !~ additionally against 13 patterns as strings and regex literals, "+
		"every unary operator, ++/-- prefix and postfix, `is` with every type name and 27 identifiers that are not type names (internal tag names, other languages' names, other letter case) on every operand kind and on built-in functions; each cell is replayed with the operands as literals, variables, "+
		"document fields, one shared variable (diagonal) and behind marker functions; a null operand additionally as a missing numeric member (index past the end of a document / variable array, absent numeric key of an object); "+
		"per operator and left operand, one ~ / !~ site evaluated 6-9 times in one run with different patterns (parameter, array element, reassigned variable; strings and regex values; an invalid pattern last); "+
		"cells additionally with one operand a literal and the other a variable; COMPOSED expressions (JqValue.EvalTree): every unary operator over every binary operator over every ordered pair of the universe, every unary over every unary, "+
		fmt.Sprintf("every binary operator over every binary operator (both shapes) over every triple of a %d-value universe, leaves as literals / variables / document fields / marker functions (evaluation order and short circuit at depth); ", nestN)+
		"REPEATED SITES of every operator: per binary operator x fixed operand x side (and the same variable on both sides) and per unary operator, one source-level expression evaluated once per operand of the universe in one run "+
		"(order: a seed-chosen rotation, values first, one runtime-error cell last), the changing operand reaching it as a for-in variable over a literal array, an array of the document, object values (second variable), object keys, "+
		"the characters of a string, the index variable, a parameter, a reassigned variable, an indexed member; "+
		fmt.Sprintf("NON-FINITE SPELLINGS: every [sign] inf / infinity / nan in %d letter-case patterns (thorough: all 256) and 30 strings that are nearly one, each in every numeric context ", len(masks))+
		"(every arithmetic and comparison operator x either side x 6 partners of different kinds, the unary operators, ++ and -- prefix and postfix), operands as document fields and as literals / variables / behind marker functions; "+
		"a case is non-trivial unless both operands are small positive integers; distinct by program + document")
	c.Set("checker_cmd", "tlc MC_Ops (INVARIANT Laws, Vec); replay through lang.EvalProgram in worker subprocesses")
	c.Set("cells", counts)
	c.Set("port_cells_checked_against_spec", portChecked)
	c.Set("inconclusive_timeouts", inconclusive)
	c.Set("seeded_cases_requested", n)
}

func c05DocNote(doc string) string {
	if doc == "" {
		return ""
	}
	return " on " + doc
}

func c05Describe(isErr bool, out string) string {
	if isErr {
		return "a runtime error"
	}
	return strconv.Quote(out)
}

func c05IncCase(op string, prefix bool, l c05GV, mode string, value, stored c05Out) (c05Case, bool) {
	la, lp, lf := c05Operand(l, "a", mode)
	if (mode == "doc" && lf == "") || (c05IsMiss(mode) && l.Kind != "null") {
		return c05Case{}, false
	}
	expr := op + la
	if !prefix {
		expr = la + op
	}
	prog, doc := c05UsesFn(l)+"BEGIN { "+lp+"print "+expr+"; print "+la+" }", ""
	if lf != "" {
		prog, doc = "{ print "+expr+"; print "+la+" }", c05DocText(lf, "")
	}
	cs := c05Case{Desc: fmt.Sprintf("%s on %s as %s (prefix=%v): value, then the stored value", op, c05Lit(l, "a"), mode, prefix),
		Prog: prog, Doc: doc, Key: prog + "\x00" + doc, NT: true}
	cs.Want = c05Text(value.V) + "\n" + c05Text(stored.V) + "\n"
	return cs, true
}

func c05IsCase(l c05GV, name, mode string, exp c05Out) (c05Case, bool) {
	la, lp, lf := c05Operand(l, "a", mode)
	if (mode == "doc" && lf == "") || (c05IsMiss(mode) && l.Kind != "null") {
		return c05Case{}, false
	}
	prog, doc := c05UsesFn(l)+"BEGIN { "+lp+"print "+la+" is "+name+" }", ""
	if lf != "" {
		prog, doc = "{ print "+la+" is "+name+" }", c05DocText(lf, "")
	}
	cs := c05MkCase(fmt.Sprintf("%s is %s, operand as %s", c05Lit(l, "a"), name, mode), prog, doc, "", exp)
	cs.NT = true
	return cs, true
}

// c05SiteCase: one source-level `~` / `!~` expression evaluated once per
// pattern of rs, in one run.  ls has one subject (a global) or one per pattern
// (variant param2).  The run prints one line per evaluation and stops at the
// first cell that is a runtime error.
func c05SiteCase(op, variant string, ls, rs []c05GV, outs []c05Out) c05Case {
	uses := append(append([]c05GV{}, ls...), rs...)
	fn := c05UsesFn(uses...)
	la, lp, _ := c05Operand(ls[0], "a", "var")
	pats := make([]string, len(rs))
	for i, r := range rs {
		pats[i] = c05Lit(r, "p")
	}
	var prog string
	switch variant {
	case "param":
		prog = fn + "function m(r) { return " + la + " " + op + " r } BEGIN { " + lp
		for _, p := range pats {
			prog += "print m(" + p + "); "
		}
		prog += "}"
	case "param2":
		prog = fn + "function m(s, r) { return s " + op + " r } BEGIN { "
		for i, p := range pats {
			prog += "print m(" + c05Lit(ls[i], "a") + ", " + p + "); "
		}
		prog += "}"
	case "array":
		prog = fn + "BEGIN { " + lp + "ps = [" + strings.Join(pats, ", ") + "]; for (p in ps) print " + la + " " + op + " p }"
	case "var":
		prog = fn + "BEGIN { " + lp + "for (i = 0; i < " + strconv.Itoa(len(pats)) + "; i++) { "
		for i, p := range pats {
			prog += "if (i == " + strconv.Itoa(i) + ") { r = " + p + " } "
		}
		prog += "print " + la + " " + op + " r } }"
	default:
		infra("C05: site variant %q", variant)
	}
	cs := c05Case{Desc: fmt.Sprintf("one %s site (%s), %d evaluations with different patterns", op, variant, len(rs)), Prog: prog, Key: prog, NT: true}
	out := ""
	for _, o := range outs {
		if o.Err {
			cs.Err = true
			cs.WantE = out
			return cs
		}
		out += c05Text(o.V) + "\n"
	}
	cs.Want = out
	return cs
}

// ---------------------------------------------------------------------------
// Composed expressions (JqValue.EvalTree): the Go port, the renderings.

func c05LeafT(g c05GV, id int) *c05Tree { return &c05Tree{T: "leaf", ID: id, G: &g} }

// c05Concretize fills in the concrete value of every leaf of a tree of the model.
func c05Concretize(t *c05Tree) {
	switch t.T {
	case "leaf":
		g := c05Concrete(t.V)
		t.G = &g
	case "un":
		c05Concretize(t.E)
	case "bin":
		c05Concretize(t.L)
		c05Concretize(t.R)
	default:
		infra("C05: tree node %q", t.T)
	}
}

// c05EvalTree: port of JqValue.EvalTree: an operator node is applied to the
// results of its operands, left to right; a runtime error ends the evaluation;
// && and || skip the right operand when the left one decides.  marks are the
// ids of the leaves evaluated, in order.
func c05EvalTree(t *c05Tree) (out c05Out, marks []int) {
	switch t.T {
	case "leaf":
		return c05Out{V: *t.G}, []int{t.ID}
	case "un":
		a, m := c05EvalTree(t.E)
		if a.AnyVal {
			a = c05Out{Open: true}
		}
		if a.Err || a.Open {
			return a, m
		}
		return c05Un(t.Op, a.V), m
	}
	a, m := c05EvalTree(t.L)
	if a.AnyVal {
		a = c05Out{Open: true}
	}
	if a.Err || a.Open {
		return a, m
	}
	if !c05EvalsRight(t.Op, a.V) {
		return c05B(t.Op == "||"), m
	}
	b, m2 := c05EvalTree(t.R)
	m = append(append([]int{}, m...), m2...)
	if b.AnyVal {
		b = c05Out{Open: true}
	}
	if b.Err || b.Open {
		return b, m
	}
	return c05Bin(t.Op, a.V, b.V), m
}

func c05TreeLeaves(t *c05Tree, out []*c05Tree) []*c05Tree {
	switch t.T {
	case "leaf":
		return append(out, t)
	case "un":
		return c05TreeLeaves(t.E, out)
	}
	return c05TreeLeaves(t.R, c05TreeLeaves(t.L, out))
}

// c05TreeText renders a tree with every operator node that is an operand in
// parentheses; ref gives the text of a leaf.
func c05TreeText(t *c05Tree, ref func(*c05Tree) string) string {
	sub := func(x *c05Tree) string {
		if x.T == "leaf" {
			return ref(x)
		}
		return "(" + c05TreeText(x, ref) + ")"
	}
	switch t.T {
	case "leaf":
		return ref(t)
	case "un":
		return t.Op + " " + sub(t.E)
	}
	return sub(t.L) + " " + t.Op + " " + sub(t.R)
}

func c05TreeDesc(t *c05Tree) string {
	return c05TreeText(t, func(l *c05Tree) string { return c05Lit(*l.G, fmt.Sprint("x", l.ID)) })
}

// c05TreeProg: the program of one composed expression.  Modes: lit (leaves as
// literals), var (variables assigned beforehand), doc (fields of the input
// document where the value is JSON, variables otherwise), mark (every leaf
// behind a function that prints its id when it is evaluated).
func c05TreeProg(t *c05Tree, mode string) (prog, doc string) {
	leaves := c05TreeLeaves(t, nil)
	vals := make([]c05GV, len(leaves))
	for i, l := range leaves {
		vals[i] = *l.G
	}
	fn := c05UsesFn(vals...)
	pre, fields, decls := "", []string{}, ""
	refs := map[int]string{}
	for _, l := range leaves {
		side := fmt.Sprint("x", l.ID)
		m := mode
		if mode == "mark" {
			m = "var"
		}
		ref, p, f := c05Operand(*l.G, side, m)
		pre += p
		if f != "" {
			fields = append(fields, f)
		}
		if mode == "mark" {
			decls += fmt.Sprintf("function m%d() { print \"%d\"; return %s } ", l.ID, l.ID, ref)
			ref = fmt.Sprintf("m%d()", l.ID)
		}
		refs[l.ID] = ref
	}
	expr := c05TreeText(t, func(l *c05Tree) string { return refs[l.ID] })
	if len(fields) > 0 {
		return fn + decls + "{ " + pre + "print " + expr + " }", "{" + strings.Join(fields, ", ") + "}"
	}
	return fn + decls + "BEGIN { " + pre + "print " + expr + " }", ""
}

func c05MarksText(marks []int) string {
	var sb strings.Builder
	for _, m := range marks {
		sb.WriteString(strconv.Itoa(m))
		sb.WriteByte('\n')
	}
	return sb.String()
}

// c05TreeCase: one composed expression in one mode, with the outcome exp and
// (mark mode) the leaves that must have been evaluated.
func c05TreeCase(t *c05Tree, mode string, exp c05Out, marks []int) c05Case {
	prog, doc := c05TreeProg(t, mode)
	m := ""
	if mode == "mark" {
		m = c05MarksText(marks)
	}
	cs := c05MkCase(fmt.Sprintf("%s, leaves as %s", c05TreeDesc(t), mode), prog, doc, m, exp)
	cs.NT = true
	return cs
}

// c05RandTree: a random expression of the given depth over seeded leaves.
func c05RandTree(rng *rand.Rand, depth int, next *int) *c05Tree {
	if depth <= 0 || rng.Intn(5) == 0 {
		for {
			v := c05RandVal(rng, false)
			if v.Kind == "str" && !c05SafeStr(v.S) {
				continue
			}
			if v.Kind == "regex" && bytes.ContainsAny(v.S, "/ ") {
				continue
			}
			*next++
			return c05LeafT(v, *next)
		}
	}
	if rng.Intn(4) == 0 {
		return &c05Tree{T: "un", Op: []string{"!", "-", "+"}[rng.Intn(3)], E: c05RandTree(rng, depth-1, next)}
	}
	op := c05AllBin[rng.Intn(len(c05AllBin)-2)] // ~ and !~ : see the repeated-site programs
	l := c05RandTree(rng, depth-1, next)
	return &c05Tree{T: "bin", Op: op, L: l, R: c05RandTree(rng, depth-1, next)}
}

// ---------------------------------------------------------------------------
// Repeated sites: one source-level operator expression evaluated once per
// element of a sequence of operands, in one run.

// c05SiteProg renders the run of one site.  side 1: the changing operand x on
// the left of op and the fixed one on the right; 2: the other way round; 3: x
// on both sides; 0: a unary operator applied to x.  ok=false when the variant
// cannot carry the elements.
func c05SiteProg(op string, side int, variant string, fixed c05GV, elems []c05GV) (prog, doc string, ok bool) {
	uses := append([]c05GV{}, elems...)
	if side == 1 || side == 2 {
		uses = append(uses, fixed)
	}
	fn := c05UsesFn(uses...)
	fref, fpre := "", ""
	if side == 1 || side == 2 {
		fref, fpre, _ = c05Operand(fixed, "b", "var")
	}
	expr := func(x string) string {
		switch side {
		case 0:
			return op + " " + x
		case 1:
			return x + " " + op + " " + fref
		case 2:
			return fref + " " + op + " " + x
		}
		return x + " " + op + " " + x
	}
	lits := make([]string, len(elems))
	for i, e := range elems {
		lits[i] = c05Lit(e, "x")
	}
	n := strconv.Itoa(len(elems))
	switch variant {
	case "elem":
		return fn + "BEGIN { " + fpre + "xs = [" + strings.Join(lits, ", ") + "]; for (x in xs) print " + expr("x") + " }", "", true
	case "docelem":
		js := make([]string, len(elems))
		for i, e := range elems {
			if !c05JSONKind(e) {
				return "", "", false
			}
			js[i] = c05JSON(e)
		}
		return fn + "{ " + fpre + "for (x in $.xs) print " + expr("x") + " }", `{"xs": [` + strings.Join(js, ", ") + `]}`, true
	case "val":
		parts := make([]string, len(elems))
		for i := range elems {
			parts[i] = fmt.Sprintf("k%03d: %s", i, lits[i])
		}
		return fn + "BEGIN { " + fpre + "o = {" + strings.Join(parts, ", ") + "}; for (k, x in o) print " + expr("x") + " }", "", true
	case "key":
		parts := make([]string, len(elems))
		for i, e := range elems {
			if e.Kind != "str" {
				return "", "", false
			}
			parts[i] = c05JSON(e) + ": " + strconv.Itoa(i)
		}
		return fn + "{ " + fpre + "for (x in $.o) print " + expr("x") + " }", `{"o": {` + strings.Join(parts, ", ") + `}}`, true
	case "char":
		var sb []byte
		for _, e := range elems {
			if e.Kind != "str" || !c05SafeStr(e.S) {
				return "", "", false
			}
			sb = append(sb, e.S...)
		}
		return fn + "BEGIN { " + fpre + "for (x in \"" + string(sb) + "\") print " + expr("x") + " }", "", true
	case "idx":
		tens := make([]string, len(elems))
		for i := range elems {
			tens[i] = strconv.Itoa(10 * (i + 1))
		}
		return fn + "BEGIN { " + fpre + "xs = [" + strings.Join(tens, ", ") + "]; for (v, x in xs) print " + expr("x") + " }", "", true
	case "param":
		prog = fn + "function m(x) { return " + expr("x") + " } BEGIN { " + fpre
		for i, e := range elems {
			prog += "print m(" + c05Lit(e, fmt.Sprint("p", i)) + "); "
		}
		return prog + "}", "", true
	case "var":
		prog = fn + "BEGIN { " + fpre + "for (i = 0; i < " + n + "; i++) { "
		for i := range elems {
			prog += "if (i == " + strconv.Itoa(i) + ") { x = " + lits[i] + " } "
		}
		return prog + "print " + expr("x") + " } }", "", true
	case "member":
		return fn + "BEGIN { " + fpre + "xs = [" + strings.Join(lits, ", ") + "]; for (i = 0; i < " + n + "; i++) print " + expr("xs[i]") + " }", "", true
	}
	infra("C05: site variant %q", variant)
	return
}

// c05SiteSeqCase: the case of one run; outs are the outcomes of the elements in
// order (the run stops at the first runtime error).
func c05SiteSeqCase(op string, side int, variant string, fixed c05GV, elems []c05GV, outs []c05Out) (c05Case, bool) {
	prog, doc, ok := c05SiteProg(op, side, variant, fixed, elems)
	if !ok {
		return c05Case{}, false
	}
	what := "x " + op + " x"
	switch side {
	case 0:
		what = op + " x"
	case 1:
		what = "x " + op + " " + c05Lit(fixed, "b")
	case 2:
		what = c05Lit(fixed, "b") + " " + op + " x"
	}
	cs := c05Case{Desc: fmt.Sprintf("one site `%s` evaluated for %d operands in one run (%s)", what, len(elems), variant), Prog: prog, Doc: doc, Key: prog + "\x00" + doc, NT: true}
	out := ""
	for _, o := range outs {
		if o.Err {
			cs.Err = true
			cs.WantE = out
			return cs, true
		}
		out += c05Text(o.V) + "\n"
	}
	cs.Want = out
	return cs, true
}
