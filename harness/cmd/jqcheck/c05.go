package main

import (
	"bytes"
	"encoding/json"
	"fmt"
	"math"
	"math/big"
	"math/rand"
	"regexp"
	"strconv"
	"strings"
	"sync"
)

func init() { register("C05", checkC05) }

// ---------------------------------------------------------------------------
// Values as MC_Ops emits them (exact) and as the harness instantiates them
// (concrete doubles / byte strings).

type c05Val struct {
	K   string   `json:"k"`
	N   int64    `json:"n"`
	D   int64    `json:"d"`
	E   int64    `json:"e"`
	NZ  bool     `json:"nz"`
	X   *c05Val  `json:"x"`
	Y   *c05Val  `json:"y"`
	S   []string `json:"s"`
	B   bool     `json:"b"`
	Len int      `json:"len"`
}

type c05Res struct {
	OK bool    `json:"ok"`
	V  *c05Val `json:"v"`
}

type c05Dev struct {
	Name string `json:"name"`
	Mode string `json:"mode"`
	Res  c05Res `json:"res"`
}

type c05Vec struct {
	Fam    string   `json:"fam"`
	Op     string   `json:"op"`
	Li     int      `json:"li"`
	Ri     int      `json:"ri"`
	L      *c05Val  `json:"l"`
	R      *c05Val  `json:"r"`
	Res    c05Res   `json:"res"`
	EvalR  bool     `json:"evalr"`
	Devs   []c05Dev `json:"devs"`
	Name   string   `json:"name"`
	Prefix bool     `json:"prefix"`
	Stored *c05Val  `json:"stored"`
}

// c05GV is a concrete jqawk value: kind num|str|bool|null|unset|arr|obj|regex|fn.
type c05GV struct {
	Kind string
	F    float64
	S    []byte
	B    bool
	Len  int
}

// c05Rat is the exact rational (n/d)*2^e (or the sum of two of them).
func c05Rat(v *c05Val) *big.Rat {
	if v.K == "sum" {
		return new(big.Rat).Add(c05Rat(v.X), c05Rat(v.Y))
	}
	r := new(big.Rat).SetFrac(big.NewInt(v.N), big.NewInt(v.D))
	p := new(big.Int).Lsh(big.NewInt(1), uint(c05abs(v.E)))
	if v.E >= 0 {
		return r.Mul(r, new(big.Rat).SetInt(p))
	}
	return r.Quo(r, new(big.Rat).SetInt(p))
}

func c05abs(x int64) int64 {
	if x < 0 {
		return -x
	}
	return x
}

// c05Nearest is the double nearest to the exact value of a model number.
func c05Nearest(v *c05Val) float64 {
	if v.K == "num" && v.N == 0 {
		if v.NZ {
			return math.Copysign(0, -1)
		}
		return 0
	}
	f, _ := c05Rat(v).Float64()
	return f
}

func c05Concrete(v *c05Val) c05GV {
	switch v.K {
	case "num":
		f, exact := c05Rat(v).Float64()
		if !exact {
			infra("C05: operand of the model is not a double: %+v", *v)
		}
		if v.N == 0 && v.NZ {
			f = math.Copysign(0, -1)
		}
		return c05GV{Kind: "num", F: f}
	case "sum":
		return c05GV{Kind: "num", F: c05Nearest(v)}
	case "str", "regex":
		return c05GV{Kind: v.K, S: symsToBytes(v.S)}
	case "bool":
		return c05GV{Kind: "bool", B: v.B}
	case "arr", "obj":
		return c05GV{Kind: v.K, Len: v.Len}
	case "null", "unset", "fn", "native":
		return c05GV{Kind: v.K}
	}
	infra("C05: unknown value kind %q", v.K)
	return c05GV{}
}

func c05Fmt(f float64) string { return strconv.FormatFloat(f, 'f', -1, 64) }

// ---------------------------------------------------------------------------
// Go port of the tables of DESIGN.md section 3 (JqValue.tla).  It is used only
// for seeded operand values outside TLC's universe, and it is itself checked
// against the specification on every cell TLC enumerates (a disagreement is an
// infrastructure failure, never a verdict).

var c05NumRe = regexp.MustCompile(`^[+-]?([0-9]+\.?[0-9]*|\.[0-9]+)([eE][+-]?[0-9]+)?$`)

// c05ParseNum: the double a numeric string denotes (decimal grammar only).
func c05ParseNum(s []byte) (float64, bool) {
	if !c05NumRe.Match(s) {
		return 0, false
	}
	t := string(s)
	neg := strings.HasPrefix(t, "-")
	t = strings.TrimLeft(t, "+-")
	exp := 0
	if i := strings.IndexAny(t, "eE"); i >= 0 {
		exp, _ = strconv.Atoi(t[i+1:])
		t = t[:i]
	}
	if i := strings.IndexByte(t, '.'); i >= 0 {
		exp -= len(t) - i - 1
		t = t[:i] + t[i+1:]
	}
	m, ok := new(big.Int).SetString(t, 10)
	if !ok {
		infra("C05: mantissa %q", t)
	}
	if m.Sign() == 0 {
		if neg {
			return math.Copysign(0, -1), true
		}
		return 0, true
	}
	r := new(big.Rat).SetInt(m)
	p := new(big.Rat).SetInt(new(big.Int).Exp(big.NewInt(10), big.NewInt(int64(c05abs(int64(exp)))), nil))
	if exp >= 0 {
		r.Mul(r, p)
	} else {
		r.Quo(r, p)
	}
	f, _ := r.Float64()
	if neg {
		f = -f
	}
	return f, true
}

func c05Truthy(v c05GV) bool {
	switch v.Kind {
	case "num":
		return v.F != 0
	case "str":
		return len(v.S) > 0
	case "bool":
		return v.B
	case "arr", "obj", "fn":
		return true
	}
	return false
}

func c05NumOf(v c05GV) float64 {
	switch v.Kind {
	case "num":
		return v.F
	case "bool":
		if v.B {
			return 1
		}
		return 0
	case "str":
		if f, ok := c05ParseNum(v.S); ok {
			return f
		}
	}
	return 0
}

func c05StrOf(v c05GV) []byte {
	switch v.Kind {
	case "str":
		return v.S
	case "num":
		return []byte(c05Fmt(v.F))
	}
	return nil
}

// c05Out: the outcome the table prescribes.
type c05Out struct {
	Err  bool  // runtime error
	Open bool  // not fixed by the statement: not compared
	Any  bool  // (deviation only) any value or a runtime error
	V    c05GV // num | str | bool
}

func c05B(b bool) c05Out    { return c05Out{V: c05GV{Kind: "bool", B: b}} }
func c05N(f float64) c05Out { return c05Out{V: c05GV{Kind: "num", F: f}} }

func c05ratOf(f float64) *big.Rat { return new(big.Rat).SetFloat64(f) }

func c05signedZero(neg bool) float64 {
	if neg {
		return math.Copysign(0, -1)
	}
	return 0
}

// c05Arith: one IEEE operation = the double nearest to the exact result.
func c05Arith(op string, x, y float64) c05Out {
	var exact *big.Rat
	var native float64
	switch op {
	case "+", "-":
		yy := y
		if op == "-" {
			yy = -y
		}
		native = x + yy
		if x == 0 && yy == 0 {
			return c05N(c05signedZero(math.Signbit(x) && math.Signbit(yy)))
		}
		exact = new(big.Rat).Add(c05ratOf(x), c05ratOf(yy))
		if exact.Sign() == 0 {
			return c05N(0)
		}
	case "*":
		native = x * y
		if x == 0 || y == 0 {
			return c05N(c05signedZero(math.Signbit(x) != math.Signbit(y)))
		}
		exact = new(big.Rat).Mul(c05ratOf(x), c05ratOf(y))
	case "/":
		if y == 0 {
			return c05Out{Err: true}
		}
		native = x / y
		if x == 0 {
			return c05N(c05signedZero(math.Signbit(x) != math.Signbit(y)))
		}
		exact = new(big.Rat).Quo(c05ratOf(x), c05ratOf(y))
	case "%":
		tx, ty := math.Trunc(x), math.Trunc(y)
		if ty == 0 {
			return c05Out{Err: true}
		}
		bx, _ := new(big.Float).SetFloat64(tx).Int(nil)
		by, _ := new(big.Float).SetFloat64(ty).Int(nil)
		r := new(big.Int).Rem(bx, by) // truncated division: sign of the dividend
		f, _ := new(big.Float).SetInt(r).Float64()
		return c05N(f)
	}
	f, _ := exact.Float64()
	if math.IsInf(f, 0) || math.IsNaN(f) {
		return c05Out{Open: true}
	}
	if f != native || math.Signbit(f) != math.Signbit(native) {
		infra("C05: math/big and IEEE disagree on %v %s %v: %v vs %v", x, op, y, f, native)
	}
	return c05N(f)
}

func c05Beyond63(f float64) bool { return math.Abs(math.Trunc(f)) >= 9223372036854775808.0 }

func c05Bin(op string, l, r c05GV) c05Out {
	switch op {
	case "+", "-", "*", "/", "%":
		if op == "+" && (l.Kind == "str" || r.Kind == "str") {
			return c05Out{V: c05GV{Kind: "str", S: append(append([]byte{}, c05StrOf(l)...), c05StrOf(r)...)}}
		}
		return c05Arith(op, c05NumOf(l), c05NumOf(r))
	case "==", "!=", "<", "<=", ">", ">=":
		if l.Kind == "unset" || r.Kind == "unset" {
			switch op {
			case "<", ">":
				return c05B(true)
			case "==":
				return c05B(false)
			}
			return c05Out{Open: true}
		}
		var c int
		switch {
		case l.Kind == "null" && r.Kind == "null":
			c = 0
		case l.Kind == "null":
			c = -1
		case r.Kind == "null":
			c = 1
		case l.Kind == "arr" || l.Kind == "obj" || r.Kind == "arr" || r.Kind == "obj":
			return c05Out{Err: true}
		case l.Kind == "str" && r.Kind == "str":
			c = bytes.Compare(l.S, r.S)
		default:
			x, y := c05NumOf(l), c05NumOf(r)
			if x < y {
				c = -1
			} else if x > y {
				c = 1
			}
		}
		switch op {
		case "<":
			return c05B(c < 0)
		case "<=":
			return c05B(c <= 0)
		case ">":
			return c05B(c > 0)
		case ">=":
			return c05B(c >= 0)
		case "==":
			return c05B(c == 0)
		}
		return c05B(c != 0)
	case "&&":
		return c05B(c05Truthy(l) && c05Truthy(r))
	case "||":
		return c05B(c05Truthy(l) || c05Truthy(r))
	case "~", "!~":
		if r.Kind != "str" && r.Kind != "regex" {
			return c05Out{Err: true}
		}
		re, err := regexp.Compile(string(r.S)) // RE2 itself is outside the model
		if err != nil {
			return c05Out{Err: true}
		}
		return c05B(re.Match(c05StrOf(l)) == (op == "~"))
	}
	infra("C05: unknown operator %q", op)
	return c05Out{}
}

func c05EvalsRight(op string, l c05GV) bool {
	switch op {
	case "&&":
		return c05Truthy(l)
	case "||":
		return !c05Truthy(l)
	}
	return true
}

func c05Un(op string, v c05GV) c05Out {
	switch op {
	case "!":
		return c05B(!c05Truthy(v))
	case "+":
		return c05N(c05NumOf(v))
	case "-":
		return c05N(-c05NumOf(v))
	}
	infra("C05: unknown unary operator %q", op)
	return c05Out{}
}

func c05IncDec(op string, prefix bool, v c05GV) (value, stored c05Out) {
	old := c05NumOf(v)
	o := "+"
	if op == "--" {
		o = "-"
	}
	nw := c05Arith(o, old, 1)
	if prefix {
		return nw, nw
	}
	return c05N(old), nw
}

var c05TypeName = map[string]string{"num": "number", "str": "string", "bool": "bool", "arr": "array", "obj": "object",
	"regex": "regex", "fn": "function", "null": "null", "unset": "unknown"}

// c05FromModel: the model's prescribed outcome as a concrete one.
func c05FromModel(r c05Res) c05Out {
	if !r.OK {
		return c05Out{Err: true}
	}
	switch r.V.K {
	case "unfixed":
		return c05Out{Open: true}
	case "any":
		return c05Out{Any: true}
	case "num", "sum":
		return c05N(c05Nearest(r.V))
	}
	return c05Out{V: c05Concrete(r.V)}
}

func c05SameOut(a, b c05Out) bool {
	if a.Err != b.Err || a.Open != b.Open || a.Any != b.Any {
		return false
	}
	if a.Err || a.Open || a.Any {
		return true
	}
	return c05Text(a.V) == c05Text(b.V) && a.V.Kind == b.V.Kind
}

// c05Text: what `print` shows for an operator result.
func c05Text(v c05GV) string {
	switch v.Kind {
	case "num":
		return c05Fmt(v.F)
	case "str":
		return string(v.S)
	case "bool":
		if v.B {
			return "true"
		}
		return "false"
	}
	infra("C05: operator result of kind %q", v.Kind)
	return ""
}

// ---------------------------------------------------------------------------
// Rendering operands and programs.

func c05SafeStr(s []byte) bool {
	for _, b := range s {
		if b == '"' || b == '\\' || b < 0x20 || b == 0x7f {
			return false
		}
	}
	return true
}

// c05Lit renders a value as a literal expression (unset: a name never
// assigned; function: the name of a declared function).  Negative numbers are
// written (0 - x) and -0 as (- 0): the lexing of a leading minus belongs to C13.
func c05Lit(v c05GV, side string) string {
	switch v.Kind {
	case "num":
		switch {
		case v.F == 0 && math.Signbit(v.F):
			return "(- 0)"
		case v.F < 0:
			return "(0 - " + c05Fmt(-v.F) + ")"
		}
		return c05Fmt(v.F)
	case "str":
		return `"` + string(v.S) + `"`
	case "bool":
		if v.B {
			return "true"
		}
		return "false"
	case "null":
		return "null"
	case "unset":
		return "u" + side
	case "arr":
		if v.Len == 0 {
			return "[]"
		}
		return "[1]"
	case "obj":
		if v.Len == 0 {
			return "{}"
		}
		return "{a: 1}"
	case "regex":
		return "/" + string(v.S) + "/"
	case "fn":
		return "f"
	case "native": // a built-in function (only as the left operand of `is`)
		return "printf"
	}
	infra("C05: cannot render kind %q", v.Kind)
	return ""
}

func c05JSONKind(v c05GV) bool {
	switch v.Kind {
	case "num", "str", "bool", "null", "arr", "obj":
		return true
	}
	return false
}

func c05JSON(v c05GV) string {
	switch v.Kind {
	case "num":
		return c05Fmt(v.F)
	case "str":
		b, err := json.Marshal(string(v.S))
		if err != nil {
			infra("C05: json: %v", err)
		}
		return string(b)
	case "obj":
		if v.Len == 0 {
			return "{}"
		}
		return `{"a": 1}`
	}
	return c05Lit(v, "")
}

// Renderings in which a NULL operand is supplied as the value of reading a
// numeric member that does not exist (index past the end of an array, absent
// numeric key of an object), with a non-zero index: the interpreter keeps the
// index inside such a null ("speculative" member), which must not leak into
// num() / str() / truthiness.  (That the read pads the array is C09's business
// and does not show in the operator's result.)
var c05MissModes = []string{"miss:docarr", "miss:vararr", "miss:obj", "miss:docobj"}

func c05IsMiss(mode string) bool { return strings.HasPrefix(mode, "miss:") }

// c05Operand renders one operand for a mode: the reference used inside the
// expression, the statement that must run first, and the member of the input
// document it needs (`"name": value`).
func c05Operand(v c05GV, side, mode string) (ref, pre, field string) {
	assignable := v.Kind != "unset" && v.Kind != "fn" && v.Kind != "native"
	if v.Kind == "native" { // other built-ins: a global function, a prototype method
		switch mode {
		case "var":
			return "num", "", ""
		case "doc":
			return "$." + side + ".upper", "", `"` + side + `": "x"`
		}
	}
	idx := map[string]string{"a": "5", "b": "7"}[side]
	if idx == "" {
		idx = "4"
	}
	switch {
	case mode == "lit":
		return c05Lit(v, side), "", ""
	case mode == "doc":
		if c05JSONKind(v) {
			return "$." + side, "", `"` + side + `": ` + c05JSON(v)
		}
	case c05IsMiss(mode) && v.Kind == "null":
		switch mode {
		case "miss:docarr":
			return "$.m" + side + "[" + idx + "]", "", `"m` + side + `": [10, 20]`
		case "miss:vararr":
			return "m" + side + "[" + idx + "]", "m" + side + " = [10, 20]; ", ""
		case "miss:obj":
			return "o" + side + "[3]", "o" + side + " = {k: 1}; ", ""
		case "miss:docobj":
			return "$.o" + side + "[" + idx + "]", "", `"o` + side + `": {"k": 1}`
		}
	}
	if !assignable {
		return c05Lit(v, side), "", ""
	}
	return side, side + " = " + c05Lit(v, side) + "; ", ""
}

type c05Case struct {
	Desc  string   `json:"desc"`
	Prog  string   `json:"prog"`
	Doc   string   `json:"doc,omitempty"`
	Want  string   `json:"want"`           // expected stdout when the outcome is a value
	WantE string   `json:"want_e"`         // expected stdout before a runtime error
	Err   bool     `json:"err"`            // expected outcome: runtime error
	Devs  []c05Alt `json:"devs,omitempty"` // outcomes a named open finding predicts instead
	Key   string   `json:"key"`
	NT    bool     `json:"nt"`
	Seed  bool     `json:"seeded,omitempty"`
}

type c05Alt struct {
	Name string `json:"name"`
	Any  bool   `json:"any"`
	Err  bool   `json:"err"`
	Want string `json:"want"`
}

const c05FnDecl = "function f() {} "

func c05UsesFn(vs ...c05GV) string {
	for _, v := range vs {
		if v.Kind == "fn" {
			return c05FnDecl
		}
	}
	return ""
}

func c05DocText(fa, fb string) string {
	parts := []string{}
	if fa != "" {
		parts = append(parts, fa)
	}
	if fb != "" {
		parts = append(parts, fb)
	}
	return "{" + strings.Join(parts, ", ") + "}"
}

// c05BinProg builds the program of one binary cell in one mode.  ok=false
// when the mode does not apply (e.g. document mode without a JSON operand).
func c05BinProg(op string, l, r c05GV, mode string) (prog, doc, marks string, ok bool) {
	fn := c05UsesFn(l, r)
	origMode := mode
	if c05IsMiss(mode) {
		if l.Kind != "null" && r.Kind != "null" {
			return "", "", "", false
		}
		mode = "miss"
	}
	switch mode {
	case "lit", "var", "doc", "miss":
		la, lp, lf := c05Operand(l, "a", origMode)
		ra, rp, rf := c05Operand(r, "b", origMode)
		expr := "print " + la + " " + op + " " + ra
		if lf != "" || rf != "" {
			return fn + "{ " + lp + rp + expr + " }", c05DocText(lf, rf), "", true
		}
		if mode == "doc" {
			return "", "", "", false
		}
		return fn + "BEGIN { " + lp + rp + expr + " }", "", "", true
	case "same":
		la, lp, _ := c05Operand(l, "a", "var")
		return fn + "BEGIN { " + lp + "print " + la + " " + op + " " + la + " }", "", "", true
	case "mark":
		la, lp, _ := c05Operand(l, "a", "var")
		ra, rp, _ := c05Operand(r, "b", "var")
		marks = "L\n"
		if c05EvalsRight(op, l) {
			marks += "R\n"
		}
		return fn + `function ml() { print "L"; return ` + la + ` } function mr() { print "R"; return ` + ra + ` } ` +
			"BEGIN { " + lp + rp + "print ml() " + op + " mr() }", "", marks, true
	}
	infra("C05: mode %q", mode)
	return
}

func c05MkCase(desc, prog, doc, marks string, exp c05Out) c05Case {
	cs := c05Case{Desc: desc, Prog: prog, Doc: doc, Key: prog + "\x00" + doc}
	cs.WantE = marks
	if exp.Err {
		cs.Err = true
	} else {
		cs.Want = marks + c05Text(exp.V) + "\n"
	}
	return cs
}

func c05Interesting(vs ...c05GV) bool {
	for _, v := range vs {
		if v.Kind != "num" || v.F <= 0 || v.F != math.Trunc(v.F) || v.F > 1000 {
			return true
		}
	}
	return false
}

// ---------------------------------------------------------------------------
// Seeded operand generators (thorough-tier extension; also a small sample in
// the quick tier): values of the same classes as the universe's
// representatives, where only the class matters.

func c05RandNum(rng *rand.Rand) float64 {
	sign := 1.0
	if rng.Intn(3) == 0 {
		sign = -1
	}
	switch rng.Intn(9) {
	case 0:
		return c05signedZero(rng.Intn(2) == 0)
	case 1:
		return sign * float64(rng.Intn(40))
	case 2:
		return sign * float64(rng.Intn(4000)) / float64(int(1)<<uint(1+rng.Intn(8)))
	case 3: // huge
		return sign * math.Float64frombits(uint64(1023+50+rng.Intn(900))<<52|uint64(rng.Int63())&(1<<52-1))
	case 4: // tiny
		return sign * math.Float64frombits(uint64(1023-20-rng.Intn(900))<<52|uint64(rng.Int63())&(1<<52-1))
	case 5: // around 2^53
		return sign * (9007199254740992 + float64(rng.Intn(9)-4)*2)
	case 6: // a decimal fraction that is not a dyadic rational
		f, _ := strconv.ParseFloat(fmt.Sprintf("%d.%02d", rng.Intn(100), rng.Intn(100)), 64)
		return sign * f
	case 7: // integers between 2^31 and 2^63 and beyond
		return sign * math.Trunc(math.Float64frombits(uint64(1023+31+rng.Intn(40))<<52|uint64(rng.Int63())&(1<<52-1)))
	}
	return sign * math.Float64frombits(uint64(1023-60+rng.Intn(120))<<52|uint64(rng.Int63())&(1<<52-1))
}

func c05RandDigits(rng *rand.Rand, min, max int) string {
	n := min + rng.Intn(max-min+1)
	var sb strings.Builder
	for i := 0; i < n; i++ {
		sb.WriteByte(byte('0' + rng.Intn(10)))
	}
	return sb.String()
}

func c05RandNumericStr(rng *rand.Rand) string {
	s := []string{"", "", "-", "+"}[rng.Intn(4)]
	switch rng.Intn(4) {
	case 0:
		s += c05RandDigits(rng, 1, 6)
	case 1:
		s += c05RandDigits(rng, 1, 4) + "." + c05RandDigits(rng, 0, 5)
	case 2:
		s += "." + c05RandDigits(rng, 1, 5)
	case 3:
		s += c05RandDigits(rng, 1, 3) + "." + c05RandDigits(rng, 1, 3)
	}
	if rng.Intn(3) == 0 {
		s += []string{"e", "E"}[rng.Intn(2)] + []string{"", "-", "+"}[rng.Intn(3)] + c05RandDigits(rng, 1, 2)
	}
	return s
}

// letters that cannot start or continue any spelling strconv.ParseFloat accepts
const c05Letters = "ghjkmqrstuvwyzGHJKMQRSTUVWYZ"

func c05RandNonNumericStr(rng *rand.Rand) string {
	word := func() string {
		n := 1 + rng.Intn(5)
		var sb strings.Builder
		for i := 0; i < n; i++ {
			sb.WriteByte(c05Letters[rng.Intn(len(c05Letters))])
		}
		return sb.String()
	}
	switch rng.Intn(10) {
	case 0:
		return ""
	case 1:
		return strings.Repeat(" ", 1+rng.Intn(3))
	case 2:
		return " " + c05RandNumericStr(rng)
	case 3:
		return c05RandNumericStr(rng) + " "
	case 4:
		return c05RandNumericStr(rng) + word()
	case 5:
		return word() + c05RandDigits(rng, 1, 3)
	case 6:
		return []string{"-", "+", ".", "--1", "+-2", "1.2.3", "1,5", "1e", "-.", "5-", "1 2", "$3", "(4)"}[rng.Intn(13)]
	case 7:
		return word() + " " + word()
	case 8:
		return []string{"héllo", "٣", "½", "z世界", "\U0001F600"}[rng.Intn(5)] + word()
	}
	return word()
}

var c05ValidPats = []string{"a", "^5", "5$", "^$", "[0-9]+", "a|x", ".", "", "^-?[0-9]+$", "ab*c", "^[a-z]+$", "[.]", "(t|s)+", "0{2,}", "^.{3}$", "[^0-9]"}
var c05BadPats = []string{"(", "[a", "a)", "*a", "a{2,1}", "(?P<x", "[z-a]", "a**"}

func c05RandVal(rng *rand.Rand, forPattern bool) c05GV {
	if forPattern && rng.Intn(3) != 0 {
		kind := []string{"str", "regex"}[rng.Intn(2)]
		if rng.Intn(5) == 0 {
			return c05GV{Kind: kind, S: []byte(c05BadPats[rng.Intn(len(c05BadPats))])}
		}
		p := c05ValidPats[rng.Intn(len(c05ValidPats))]
		if kind == "regex" && p == "" {
			p = "."
		}
		return c05GV{Kind: kind, S: []byte(p)}
	}
	switch rng.Intn(16) {
	case 0, 1, 2, 3, 4:
		return c05GV{Kind: "num", F: c05RandNum(rng)}
	case 5, 6, 7:
		return c05GV{Kind: "str", S: []byte(c05RandNumericStr(rng))}
	case 8, 9, 10:
		return c05GV{Kind: "str", S: []byte(c05RandNonNumericStr(rng))}
	case 11:
		return c05GV{Kind: "bool", B: rng.Intn(2) == 0}
	case 12:
		return c05GV{Kind: []string{"null", "unset"}[rng.Intn(2)]}
	case 13:
		return c05GV{Kind: "arr", Len: rng.Intn(2)}
	case 14:
		return c05GV{Kind: "obj", Len: rng.Intn(2)}
	}
	return []c05GV{{Kind: "regex", S: []byte("ab")}, {Kind: "regex", S: []byte("[0-9]")}, {Kind: "fn"}}[rng.Intn(3)]
}

var c05AllBin = []string{"+", "-", "*", "/", "%", "==", "!=", "<", "<=", ">", ">=", "&&", "||", "~", "!~"}
var c05IsNames = []string{"number", "string", "bool", "array", "object", "regex", "function", "null", "unknown", "foo",
	"nil", "nativefunction", "nativefn", "Null", "NULL", "str", "int", "float", "boolean", "list", "dict", "undefined", "unset", "none", "any",
	"String", "ARRAY", "Function", "nul", "numbers", "type", "true_", "x"}

// c05Is: `v is name` per DESIGN.md 3.6 (port of JqValue.IsOp).
func c05Is(v c05GV, name string) c05Out {
	documented := false
	for _, n := range c05TypeName {
		documented = documented || n == name
	}
	switch {
	case !documented:
		return c05B(false)
	case v.Kind == "native":
		return c05Out{Open: true}
	}
	return c05B(c05TypeName[v.Kind] == name)
}

// ---------------------------------------------------------------------------

// C05: operators compute the documented result for every combination of
// operand kinds.  MC_Ops (TLC) enumerates every operator x every ordered pair
// of the operand universe and checks the laws of DESIGN.md 3; every cell is
// replayed on the real code as one-line programs with the operands as
// literals, as variables, as fields of the input document, as one shared
// variable (diagonal cells) and behind marker functions that make the
// evaluation of each operand observable.
func checkC05(c *Ctx) {
	c.Assume("`!=`, `<=`, `>=` with an unset operand are not fixed by the statement: not compared")
	c.Assume("non-finite results (overflow of * / + -) are not compared; no operand is NaN or infinite")
	c.Assume("`is` applied to a built-in function with one of the nine documented type names is not compared; with any other identifier it must give false like for every other operand")
	c.Assume("error messages and positions are not compared, only the outcome kind (value printed / runtime error)")
	c.Assume("the RE2 engine is outside the model: the specification gives each of its 13 patterns a hand-written meaning (cross-checked against Go's regexp by the harness); seeded patterns use Go's regexp as the reference")
	c.Assume("numeric strings: the decimal grammar [sign] digits [. digits] [e [sign] digits]; Go's hex, inf/nan and underscore spellings and out-of-range magnitudes are outside the model")
	c.Assume("negative number literals are written (0 - x) and -0 as (- 0) so that the check does not depend on how a leading minus is lexed (C13)")
	c.Assume("the number print format (strconv 'f', -1) is taken from DESIGN.md 3.1; values of a function/regex/unset passed through `return` are assumed to keep their kind (marker mode)")
	pool := c.Pool()

	var cmu sync.Mutex
	counts := map[string]int{}
	count := func(k string) {
		cmu.Lock()
		counts[k]++
		cmu.Unlock()
	}
	inconclusive := 0
	nsample := 0
	knownEx := map[string]string{} // per open finding: the shortest witness (deterministic across runs)
	st := pool.NewStream(func(j *Job, r Result) {
		var cs c05Case
		if err := json.Unmarshal([]byte(j.Tag), &cs); err != nil {
			infra("C05: tag: %v", err)
		}
		if r.Class == "timeout" || r.Class == "budget" {
			inconclusive++
			return
		}
		matches := func(any, isErr bool, want, wantE string) bool {
			if any {
				return r.Class == "ok" || r.Class == "runtime"
			}
			if isErr {
				return r.Class == "runtime" && string(r.Stdout) == wantE
			}
			return r.Class == "ok" && string(r.Stdout) == want
		}
		rep := map[string]any{"case": cs.Desc, "program": cs.Prog, "document": cs.Doc, "expected_error": cs.Err,
			"expected_stdout": cs.Want, "expected_stdout_before_error": cs.WantE, "got_class": r.Class, "got_stdout": string(r.Stdout), "got_msg": r.ErrMsg, "detail": r.Detail}
		if !matches(false, cs.Err, cs.Want, cs.WantE) {
			explained := false
			for _, d := range cs.Devs {
				if matches(d.Any, d.Err, d.Want, cs.WantE) && c.OpenDev(d.Name) {
					what := fmt.Sprintf("e.g. `%s`%s: expected %s, got %s", cs.Prog, c05DocNote(cs.Doc), c05Describe(cs.Err, cs.Want), c05Describe(r.Class != "ok", string(r.Stdout)))
					if cur, ok := knownEx[d.Name]; !ok || len(what) < len(cur) || (len(what) == len(cur) && what < cur) {
						knownEx[d.Name] = what
					}
					count("explained by " + d.Name)
					explained = true
					break
				}
			}
			if !explained {
				name := "operator-result"
				if r.Class != "ok" && r.Class != "runtime" {
					name = "operator-crash"
				}
				c.Violation(name, rep)
				return
			}
		}
		c.Case(cs.Key, cs.NT)
		nsample++
		if nsample%9973 == 1 || (cs.Seed && nsample%997 == 3) {
			c.Sample(map[string]any{"case": cs.Desc, "program": cs.Prog, "document": cs.Doc, "expected_stdout": cs.Want, "expected_runtime_error": cs.Err})
		}
	})
	submit := func(cs c05Case) {
		b, _ := json.Marshal(&cs)
		j := Job{Kind: "run", Prog: []byte(cs.Prog), Tag: string(b)}
		if cs.Doc != "" {
			j.Files = []FileIn{{Name: "in.json", Data: []byte(cs.Doc)}}
		}
		st.Submit(j)
	}
	seen := map[string]bool{}
	submitOnce := func(cs c05Case) {
		if seen[cs.Key] {
			return
		}
		seen[cs.Key] = true
		submit(cs)
	}
	altsFor := func(devs []c05Dev, mode, marks string) []c05Alt {
		var out []c05Alt
		for _, d := range devs {
			if d.Mode != "" && d.Mode != mode {
				continue
			}
			o := c05FromModel(d.Res)
			a := c05Alt{Name: d.Name, Any: o.Any, Err: o.Err}
			if !o.Any && !o.Err {
				a.Want = marks + c05Text(o.V) + "\n"
			}
			out = append(out, a)
		}
		return out
	}

	// ---- (1) every cell of the model
	portChecked := 0
	siteCells := map[string]c05Out{} // "op li ri" -> outcome of the ~ / !~ cell
	siteVals := map[int]c05GV{}
	siteLeftMax := 0
	onVec := func(raw []byte) {
		var v c05Vec
		VecDecode(raw, &v)
		l := c05Concrete(v.L)
		exp := c05FromModel(v.Res)
		count("cells " + v.Fam)
		switch v.Fam {
		case "bin", "match":
			r := c05Concrete(v.R)
			port := c05Bin(v.Op, l, r)
			if !c05SameOut(port, exp) || c05EvalsRight(v.Op, l) != v.EvalR {
				infra("C05: the Go port of the operator table disagrees with the specification at %s %s %s: port %+v, spec %+v",
					c05Lit(l, "a"), v.Op, c05Lit(r, "b"), port, exp)
			}
			portChecked++
			if exp.Open {
				count("cells not fixed by the statement")
				return
			}
			modes := []string{"lit", "var", "doc", "mark"}
			if v.Li == v.Ri {
				modes = append(modes, "same")
			}
			if l.Kind == "null" || r.Kind == "null" {
				modes = append(modes, c05MissModes...)
			}
			if v.Fam == "match" {
				siteCells[fmt.Sprintf("%s %d %d", v.Op, v.Li, v.Ri)] = exp
				siteVals[v.Li], siteVals[v.Ri] = l, r
				if v.Li > siteLeftMax {
					siteLeftMax = v.Li
				}
			}
			for _, mode := range modes {
				prog, doc, marks, ok := c05BinProg(v.Op, l, r, mode)
				if !ok {
					continue
				}
				cs := c05MkCase(fmt.Sprintf("%s [%s] %s, operands as %s", c05Lit(l, "a"), v.Op, c05Lit(r, "b"), mode), prog, doc, marks, exp)
				cs.Devs = altsFor(v.Devs, mode, marks)
				cs.NT = c05Interesting(l, r)
				submitOnce(cs)
			}
		case "un":
			if !c05SameOut(c05Un(v.Op, l), exp) {
				infra("C05: Go port disagrees with the specification at %s %s", v.Op, c05Lit(l, "a"))
			}
			portChecked++
			for _, mode := range append([]string{"lit", "var", "doc"}, c05MissModes...) {
				la, lp, lf := c05Operand(l, "a", mode)
				if (mode == "doc" && lf == "") || (c05IsMiss(mode) && l.Kind != "null") {
					continue
				}
				prog := c05UsesFn(l) + "BEGIN { " + lp + "print " + v.Op + " " + la + " }"
				doc := ""
				if lf != "" {
					prog, doc = "{ print "+v.Op+" "+la+" }", c05DocText(lf, "")
				}
				cs := c05MkCase(fmt.Sprintf("%s %s, operand as %s", v.Op, c05Lit(l, "a"), mode), prog, doc, "", exp)
				cs.NT = true
				submitOnce(cs)
			}
		case "inc":
			pv, ps := c05IncDec(v.Op, v.Prefix, l)
			stored := c05N(c05Nearest(v.Stored))
			if !c05SameOut(pv, exp) || !c05SameOut(ps, stored) {
				infra("C05: Go port disagrees with the specification at %s on %s", v.Op, c05Lit(l, "a"))
			}
			portChecked++
			for _, mode := range append([]string{"var", "doc"}, c05MissModes...) {
				cs, ok := c05IncCase(v.Op, v.Prefix, l, mode, exp, stored)
				if ok {
					submitOnce(cs)
				}
			}
		case "is":
			if !c05SameOut(c05Is(l, v.Name), exp) {
				infra("C05: Go port disagrees with the specification at %s is %s", c05Lit(l, "a"), v.Name)
			}
			portChecked++
			if exp.Open {
				count("cells not fixed by the statement")
				return
			}
			for _, mode := range append([]string{"lit", "var", "doc"}, c05MissModes...) {
				cs, ok := c05IsCase(l, v.Name, mode, exp)
				if ok {
					submitOnce(cs)
				}
			}
		default:
			infra("C05: unknown vector family %q", v.Fam)
		}
	}
	res := c.TLC(TLCOpt{Module: "MC_Ops",
		Cfg:     cfgText("INIT Init", "NEXT Next", "INVARIANT Laws", "INVARIANT Vec", "CHECK_DEADLOCK FALSE"),
		Workers: 8, Heap: "6g", OnVec: onVec})
	if res.Vectors == 0 {
		infra("C05: TLC emitted no vectors")
	}

	// ---- (1b) one `~` / `!~` SITE evaluated several times in one run with
	// different patterns (regex values and strings held in a parameter, in the
	// elements of an array, in a variable reassigned between evaluations), an
	// invalid pattern last: every evaluation must give its own cell's result
	srng := rand.New(rand.NewSource(c.Seed ^ 0x51e))
	var patIdx, badIdx []int
	for i := 1; i <= len(siteVals); i++ {
		v, ok := siteVals[i]
		if !ok || (v.Kind != "str" && v.Kind != "regex") {
			continue
		}
		if _, err := regexp.Compile(string(v.S)); err != nil {
			badIdx = append(badIdx, i)
		} else {
			patIdx = append(patIdx, i)
		}
	}
	if len(patIdx) < 8 || len(badIdx) < 2 || siteLeftMax == 0 {
		infra("C05: pattern operands missing from the model's vectors")
	}
	for _, op := range []string{"~", "!~"} {
		for li := 1; li <= siteLeftMax; li++ {
			l := siteVals[li]
			for _, variant := range []string{"param", "array", "var"} {
				seq := []int{}
				for _, k := range srng.Perm(len(patIdx))[:4+srng.Intn(4)] {
					seq = append(seq, patIdx[k])
				}
				seq = append(seq, badIdx[srng.Intn(len(badIdx))], patIdx[0])
				rs := make([]c05GV, len(seq))
				outs := make([]c05Out, len(seq))
				for k, ri := range seq {
					o, ok := siteCells[fmt.Sprintf("%s %d %d", op, li, ri)]
					if !ok {
						infra("C05: no cell for %s %d %d", op, li, ri)
					}
					rs[k], outs[k] = siteVals[ri], o
				}
				cs := c05SiteCase(op, variant, []c05GV{l}, rs, outs)
				count("repeated-site programs")
				submitOnce(cs)
			}
		}
	}

	// ---- (2) seeded instantiation: operands of the same classes with random
	// leaf values; the expectation is recomputed from the same table (the Go
	// port validated above on every cell of the model)
	n := 20000
	if c.Thorough() {
		n = 500000
	}
	rng := rand.New(rand.NewSource(c.Seed))
	for i := 0; i < n; i++ {
		fam := rng.Intn(21)
		switch {
		case fam == 20: // one site, several (subject, pattern) pairs
			op := []string{"~", "!~"}[rng.Intn(2)]
			k := 2 + rng.Intn(4)
			ls, rs, outs := make([]c05GV, k), make([]c05GV, k), make([]c05Out, k)
			bad := false
			for q := 0; q < k; q++ {
				ls[q] = c05RandVal(rng, false)
				for ls[q].Kind == "unset" || ls[q].Kind == "fn" {
					ls[q] = c05RandVal(rng, false)
				}
				rs[q] = c05RandVal(rng, true)
				for rs[q].Kind != "str" && rs[q].Kind != "regex" {
					rs[q] = c05RandVal(rng, true)
				}
				bad = bad || (ls[q].Kind == "str" && !c05SafeStr(ls[q].S)) || !c05SafeStr(rs[q].S) || (rs[q].Kind == "regex" && bytes.ContainsAny(rs[q].S, "/ "))
				outs[q] = c05Bin(op, ls[q], rs[q])
			}
			if bad {
				continue
			}
			cs := c05SiteCase(op, "param2", ls, rs, outs)
			cs.Desc, cs.Seed = "seeded: "+cs.Desc, true
			count("seeded cases")
			submitOnce(cs)
		case fam < 15:
			op := c05AllBin[rng.Intn(len(c05AllBin))]
			isMatch := op == "~" || op == "!~"
			l, r := c05RandVal(rng, false), c05RandVal(rng, isMatch)
			if l.Kind == "str" && !c05SafeStr(l.S) || r.Kind == "str" && !c05SafeStr(r.S) {
				continue
			}
			if r.Kind == "regex" && bytes.ContainsAny(r.S, "/ ") {
				continue
			}
			exp := c05Bin(op, l, r)
			if exp.Open {
				count("seeded cases not fixed by the statement")
				continue
			}
			mode := []string{"lit", "var", "doc", "mark"}[rng.Intn(4)]
			if (l.Kind == "null" || r.Kind == "null") && rng.Intn(2) == 0 {
				mode = c05MissModes[rng.Intn(len(c05MissModes))]
			}
			prog, doc, marks, ok := c05BinProg(op, l, r, mode)
			if !ok {
				prog, doc, marks, _ = c05BinProg(op, l, r, "var")
				mode = "var"
			}
			cs := c05MkCase(fmt.Sprintf("seeded: %s [%s] %s, operands as %s", c05Lit(l, "a"), op, c05Lit(r, "b"), mode), prog, doc, marks, exp)
			x, y := c05NumOf(l), c05NumOf(r)
			if !(op == "+" && (l.Kind == "str" || r.Kind == "str")) {
				if (op == "/" && x == 0 && y != 0) || (op == "%" && math.Trunc(x) == 0 && math.Trunc(y) != 0) {
					cs.Devs = append(cs.Devs, c05Alt{Name: "zero-dividend", Err: true})
				}
				if op == "%" && (c05Beyond63(x) || c05Beyond63(y)) {
					cs.Devs = append(cs.Devs, c05Alt{Name: "mod-int-overflow", Any: true})
				}
			}
			cs.NT, cs.Seed = true, true
			count("seeded cases")
			submitOnce(cs)
		case fam < 17:
			op := []string{"!", "-", "+"}[rng.Intn(3)]
			l := c05RandVal(rng, false)
			if l.Kind == "str" && !c05SafeStr(l.S) {
				continue
			}
			mode := []string{"lit", "var", "doc"}[rng.Intn(3)]
			if l.Kind == "null" && rng.Intn(2) == 0 {
				mode = c05MissModes[rng.Intn(len(c05MissModes))]
			}
			la, lp, lf := c05Operand(l, "a", mode)
			prog, doc := c05UsesFn(l)+"BEGIN { "+lp+"print "+op+" "+la+" }", ""
			if lf != "" {
				prog, doc = "{ print "+op+" "+la+" }", c05DocText(lf, "")
			}
			cs := c05MkCase(fmt.Sprintf("seeded: %s %s, operand as %s", op, c05Lit(l, "a"), mode), prog, doc, "", c05Un(op, l))
			cs.NT, cs.Seed = true, true
			count("seeded cases")
			submitOnce(cs)
		case fam < 19:
			op := []string{"++", "--"}[rng.Intn(2)]
			l := c05RandVal(rng, false)
			if l.Kind == "str" && !c05SafeStr(l.S) {
				continue
			}
			prefix := rng.Intn(2) == 0
			pv, ps := c05IncDec(op, prefix, l)
			if pv.Open || ps.Open {
				continue
			}
			imode := []string{"var", "doc"}[rng.Intn(2)]
			if l.Kind == "null" && rng.Intn(2) == 0 {
				imode = c05MissModes[rng.Intn(len(c05MissModes))]
			}
			cs, ok := c05IncCase(op, prefix, l, imode, pv, ps)
			if !ok {
				cs, _ = c05IncCase(op, prefix, l, "var", pv, ps)
			}
			cs.Desc = "seeded: " + cs.Desc
			cs.Seed = true
			count("seeded cases")
			submitOnce(cs)
		default:
			l := c05RandVal(rng, false)
			if l.Kind == "str" && !c05SafeStr(l.S) {
				continue
			}
			if rng.Intn(12) == 0 {
				l = c05GV{Kind: "native"}
			}
			name := c05IsNames[rng.Intn(len(c05IsNames))]
			iexp := c05Is(l, name)
			if iexp.Open {
				continue
			}
			imode := []string{"lit", "var", "doc"}[rng.Intn(3)]
			if l.Kind == "null" && rng.Intn(2) == 0 {
				imode = c05MissModes[rng.Intn(len(c05MissModes))]
			}
			cs, ok := c05IsCase(l, name, imode, iexp)
			if !ok {
				continue
			}
			cs.Desc = "seeded: " + cs.Desc
			cs.Seed = true
			count("seeded cases")
			submitOnce(cs)
		}
	}
	st.Wait()
	for d, what := range knownEx {
		c.Known(d, what)
	}

	c.Set("exhaustive", true)
	c.Set("rule", "TLC enumerates every binary operator x every ordered pair of a 37-value universe (13 numbers incl. -0, 2^53, 2^70, 2^-20; 13 strings; "+
		"both booleans, null, unset, [] [1] {} {a:1}, two regexes, a function), ~ and !~ additionally against 13 patterns as strings and regex literals, "+
		"every unary operator, ++/-- prefix and postfix, `is` with every type name and 27 identifiers that are not type names (internal tag names, other languages' names, other letter case) on every operand kind and on built-in functions; each cell is replayed with the operands as literals, variables, "+
		"document fields, one shared variable (diagonal) and behind marker functions; a null operand additionally as a missing numeric member (index past the end of a document / variable array, absent numeric key of an object); "+
		"per operator and left operand, one ~ / !~ site evaluated 6-9 times in one run with different patterns (parameter, array element, reassigned variable; strings and regex values; an invalid pattern last); a case is non-trivial unless both operands are small positive integers; distinct by program + document")
	c.Set("checker_cmd", "tlc MC_Ops (INVARIANT Laws, Vec); replay through lang.EvalProgram in worker subprocesses")
	c.Set("cells", counts)
	c.Set("port_cells_checked_against_spec", portChecked)
	c.Set("inconclusive_timeouts", inconclusive)
	c.Set("seeded_cases_requested", n)
}

func c05DocNote(doc string) string {
	if doc == "" {
		return ""
	}
	return " on " + doc
}

func c05Describe(isErr bool, out string) string {
	if isErr {
		return "a runtime error"
	}
	return strconv.Quote(out)
}

func c05IncCase(op string, prefix bool, l c05GV, mode string, value, stored c05Out) (c05Case, bool) {
	la, lp, lf := c05Operand(l, "a", mode)
	if (mode == "doc" && lf == "") || (c05IsMiss(mode) && l.Kind != "null") {
		return c05Case{}, false
	}
	expr := op + la
	if !prefix {
		expr = la + op
	}
	prog, doc := c05UsesFn(l)+"BEGIN { "+lp+"print "+expr+"; print "+la+" }", ""
	if lf != "" {
		prog, doc = "{ print "+expr+"; print "+la+" }", c05DocText(lf, "")
	}
	cs := c05Case{Desc: fmt.Sprintf("%s on %s as %s (prefix=%v): value, then the stored value", op, c05Lit(l, "a"), mode, prefix),
		Prog: prog, Doc: doc, Key: prog + "\x00" + doc, NT: true}
	cs.Want = c05Text(value.V) + "\n" + c05Text(stored.V) + "\n"
	return cs, true
}

func c05IsCase(l c05GV, name, mode string, exp c05Out) (c05Case, bool) {
	la, lp, lf := c05Operand(l, "a", mode)
	if (mode == "doc" && lf == "") || (c05IsMiss(mode) && l.Kind != "null") {
		return c05Case{}, false
	}
	prog, doc := c05UsesFn(l)+"BEGIN { "+lp+"print "+la+" is "+name+" }", ""
	if lf != "" {
		prog, doc = "{ print "+la+" is "+name+" }", c05DocText(lf, "")
	}
	cs := c05MkCase(fmt.Sprintf("%s is %s, operand as %s", c05Lit(l, "a"), name, mode), prog, doc, "", exp)
	cs.NT = true
	return cs, true
}

// c05SiteCase: one source-level `~` / `!~` expression evaluated once per
// pattern of rs, in one run.  ls has one subject (a global) or one per pattern
// (variant param2).  The run prints one line per evaluation and stops at the
// first cell that is a runtime error.
func c05SiteCase(op, variant string, ls, rs []c05GV, outs []c05Out) c05Case {
	uses := append(append([]c05GV{}, ls...), rs...)
	fn := c05UsesFn(uses...)
	la, lp, _ := c05Operand(ls[0], "a", "var")
	pats := make([]string, len(rs))
	for i, r := range rs {
		pats[i] = c05Lit(r, "p")
	}
	var prog string
	switch variant {
	case "param":
		prog = fn + "function m(r) { return " + la + " " + op + " r } BEGIN { " + lp
		for _, p := range pats {
			prog += "print m(" + p + "); "
		}
		prog += "}"
	case "param2":
		prog = fn + "function m(s, r) { return s " + op + " r } BEGIN { "
		for i, p := range pats {
			prog += "print m(" + c05Lit(ls[i], "a") + ", " + p + "); "
		}
		prog += "}"
	case "array":
		prog = fn + "BEGIN { " + lp + "ps = [" + strings.Join(pats, ", ") + "]; for (p in ps) print " + la + " " + op + " p }"
	case "var":
		prog = fn + "BEGIN { " + lp + "for (i = 0; i < " + strconv.Itoa(len(pats)) + "; i++) { "
		for i, p := range pats {
			prog += "if (i == " + strconv.Itoa(i) + ") { r = " + p + " } "
		}
		prog += "print " + la + " " + op + " r } }"
	default:
		infra("C05: site variant %q", variant)
	}
	cs := c05Case{Desc: fmt.Sprintf("one %s site (%s), %d evaluations with different patterns", op, variant, len(rs)), Prog: prog, Key: prog, NT: true}
	out := ""
	for _, o := range outs {
		if o.Err {
			cs.Err = true
			cs.WantE = out
			return cs
		}
		out += c05Text(o.V) + "\n"
	}
	cs.Want = out
	return cs
}
