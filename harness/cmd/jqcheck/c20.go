package main

import (
	"encoding/json"
	"fmt"
	"os"
	"path/filepath"
	"strconv"
	"strings"
	"time"
)

func init() { register("C20", checkC20) }

type limitVec struct {
	Shape   string `json:"shape"`
	Ctx     string `json:"ctx"`
	Limit   int    `json:"limit"`
	Prog    Node   `json:"prog"`
	Out     []any  `json:"out"`
	Outcome string `json:"outcome"`
}

type limitObs struct {
	What        string `json:"what"`
	X           int    `json:"x"`
	OK          int    `json:"ok"`
	MaxDepth    int    `json:"maxdepth"`
	Refused     int    `json:"refused"`
	RefuseDepth int    `json:"refusedepth"`
	Need        int    `json:"need"` // frames the run needs at its deepest point (0: not known, runaway recursion)
	Note        string `json:"note"`
}

func frameStats(r Result) (maxDepth int, refused bool, refuseDepth int) {
	for _, e := range r.Events {
		switch e.E {
		case "Push":
			if e.A > maxDepth {
				maxDepth = e.A
			}
		case "Refuse":
			refused = true
			refuseDepth = e.A
		}
	}
	return
}

// periodicExtension: got must be lines3 with some number of extra repetitions of the
// unit by which lines4 extends lines3.
func periodicExtension(l3, l4, got []string) string {
	if len(l4) <= len(l3) {
		return "model outputs for the two limits do not differ (harness)"
	}
	unit := len(l4) - len(l3)
	p := 0
	for p < len(l3) && l3[p] == l4[p] {
		p++
	}
	s := 0
	for s < len(l3)-p && l3[len(l3)-1-s] == l4[len(l4)-1-s] {
		s++
	}
	if p+s < len(l3) {
		return "model outputs are not a periodic extension of each other (harness)"
	}
	if len(got) < len(l3) || (len(got)-len(l3))%unit != 0 {
		return fmt.Sprintf("output has %d lines: not the model's shape (base %d, unit %d)", len(got), len(l3), unit)
	}
	// prefix
	pre := len(l3) - s
	for i := 0; i < pre; i++ {
		if got[i] != l3[i] {
			return fmt.Sprintf("line %d: expected %q, got %q", i+1, l3[i], got[i])
		}
	}
	// periodic middle: every line equals the line one unit earlier
	for i := pre; i < len(got)-s; i++ {
		if got[i] != got[i-unit] {
			return fmt.Sprintf("line %d: %q breaks the repetition (expected %q)", i+1, got[i], got[i-unit])
		}
	}
	for i := 0; i < s; i++ {
		if got[len(got)-1-i] != l3[len(l3)-1-i] {
			return fmt.Sprintf("tail line -%d: expected %q, got %q", i+1, l3[len(l3)-1-i], got[len(got)-1-i])
		}
	}
	return ""
}

// C20: unbounded single steps are refused with an error, not by exhausting the process.
func checkC20(c *Ctx) {
	c.Assume("the exact limit values are not fixed by the statement: call nesting in 1001..9999 frames, fill limit in 10^6..2*10^6, width 65536, JSON nesting >= 1000; TLC searches for one consistent value of each")
	c.Assume("huge / negative / fractional indices: only 'an error or a defined result, no crash' is required")
	c.Assume("boundary runs happen in isolated worker subprocesses; a crash of the subprocess is a violation, a timeout is inconclusive")
	pool := NewPool(8, 0)
	if c.Thorough() {
		pool = NewPool(8, 12*1024*1024)
	}
	pool.Timeout = 240 * time.Second
	defer pool.Close()

	// ---- design level + shape replay
	byKey := map[string]map[int]limitVec{}
	for _, lim := range []int{3, 4, 5} {
		c.TLC(TLCOpt{Module: "MC_EvalLimit", Heap: "4g", Workers: 8,
			Cfg: cfgText("INIT Init", "NEXT MCNext", "CONSTANTS", fmt.Sprintf("CallLimit = %d", lim), "Fuel = 0", "NextOutsidePattern = {\"ends-rule\"}",
				"INVARIANTS TypeOK FrameBalance BaseAtRuleStart DepthBounded NoEscape OutcomeLegal SigConsumed RefusedAsRuntimeError Vec",
				"PROPERTIES StopFreezesOutput DoneIsFinal RefinesFrames"),
			OnVec: func(raw []byte) {
				var v limitVec
				VecDecode(raw, &v)
				k := v.Shape + "|" + v.Ctx
				if byKey[k] == nil {
					byKey[k] = map[int]limitVec{}
				}
				byKey[k][v.Limit] = v
			}})
	}
	var obs []limitObs
	var jobs []Job
	var keys []string
	// per shape: the first pair of consecutive stand-in limits whose behaviours differ
	// (a level of a match shape costs two frames)
	pairOf := map[string][2]int{}
	for k, m := range byKey {
		pairOf[k] = [2]int{4, 5}
		if fmt.Sprint(m[3].Out) != fmt.Sprint(m[4].Out) {
			pairOf[k] = [2]int{3, 4}
		}
	}
	for k, m := range byKey {
		p := newEvalRenderer().renderEvalProgram(m[3].Prog, nil)
		jobs = append(jobs, Job{Kind: "run", Prog: []byte(p.Text), Files: []FileIn{{Name: "in.json", Data: []byte(p.Input)}}, Events: true, Budget: 5_000_000})
		keys = append(keys, k)
	}
	pool.Map(jobs, func(i int, r Result) {
		m := byKey[keys[i]]
		pr := pairOf[keys[i]]
		l3 := lineTexts(expectedLines(m[pr[0]].Out, collectProgForIns(m[pr[0]].Prog)))
		l4 := lineTexts(expectedLines(m[pr[1]].Out, collectProgForIns(m[pr[1]].Prog)))
		got := strings.Split(strings.TrimSuffix(string(r.Stdout), "\n"), "\n")
		rep := func(why string) map[string]any {
			return map[string]any{"shape": keys[i], "program": string(jobs[i].Prog), "got_class": r.Class, "got_err": r.ErrMsg, "lines": len(got), "why": why, "detail": r.Detail,
				"model_out_limit3": l3, "model_out_limit4": l4, "got_head": firstLines(got, 12), "got_tail": lastLines(got, 8)}
		}
		if r.Class == "timeout" || r.Class == "budget" {
			c.Count("inconclusive", 1)
			return
		}
		if r.Class != "runtime" {
			c.Violation("runaway-"+r.Class, rep("runaway recursion must end in a runtime error"))
			return
		}
		if why := periodicExtension(l3, l4, got); why != "" {
			c.Violation("runaway-output", rep(why))
			return
		}
		md, refused, rd := frameStats(r)
		obs = append(obs, limitObs{What: "call", X: 0, OK: 0, MaxDepth: md, Refused: b2i(refused), RefuseDepth: rd, Note: "runaway " + keys[i]})
		c.Case("runaway:"+keys[i], true)
		if len(obs) == 3 {
			c.Sample(map[string]any{"family": "runaway recursion", "shape": keys[i], "program": string(jobs[i].Prog), "frames_reached": md, "refused_at_frame": rd, "output_lines": len(got)})
		}
	})

	// ---- bounded recursion of each shape around the limit, also after thousands of completed calls
	shapes := map[string]string{
		"direct": "function f(n) {\n  if (n > 0) {\n    return f(n - 1)\n  }\n  return 7\n}\n",
		"mutual": "function f(n) {\n  if (n > 0) {\n    return g(n - 1)\n  }\n  return 7\n}\nfunction g(n) {\n  if (n > 0) {\n    return f(n - 1)\n  }\n  return 7\n}\n",
		"matchb": "function f(n) {\n  if (n > 0) {\n    match (n) { z => {\n      return f(z - 1)\n    } }\n  }\n  return 7\n}\n",
		"matche": "function f(n) {\n  if (n > 0) {\n    return match (n) { z => f(z - 1) }\n  }\n  return 7\n}\n",
		// the recursive call in argument position: the outer call's frame exists only after its arguments are evaluated
		"argpos":  "function idz(x, y) {\n  return x\n}\nfunction f(n) {\n  if (n > 0) {\n    return idz(f(n - 1), n)\n  }\n  return 7\n}\n",
		"argpos2": "function idz(x, y) {\n  return y\n}\nfunction f(n) {\n  if (n > 0) {\n    return idz(n, idz(1, f(n - 1)))\n  }\n  return 7\n}\n",
	}
	depths := []int{10, 1000, 2000, 4000, 4094, 4095, 4096, 4097, 5000, 100000}
	if c.Quick {
		depths = []int{10, 1000, 2047, 2048, 4095, 4096, 100000}
	}
	var bjobs []Job
	var bmeta []string
	var bneed []int
	perLevel := map[string]int{"direct": 1, "mutual": 1, "matchb": 2, "matche": 2, "argpos": 1, "argpos2": 1}
	// what runs thousands of times before the recursion: completed calls and match scopes, and every way a
	// control-flow signal can leave a call or a match scope (none of them may leave a frame behind)
	warmFns := "function w() {\n  return 1\n}\nfunction wr(n) {\n  return match (n) { z => match (z % 2) { 0 => {\n    return 1\n  }, _ => 2 } }\n}\n" +
		"function wl(n) {\n  for (q in [1, 2]) {\n    match (q) { 1 => {\n      continue\n    }, _ => {\n      return n\n    } }\n  }\n}\n" +
		"function wx(n) {\n  while (1) {\n    wq = match (n) { z => match (z) { y => {\n      break\n    } } }\n  }\n  return n\n}\n"
	warmKinds := []struct{ name, body string }{
		{"none", ""},
		{"calls", "    w()\n    wv = match (1) { z => z }\n"},
		{"return-through-match", "    wv = wr(i)\n"},
		{"continue-return-in-forin", "    wv = wl(i)\n"},
		{"break-through-match", "    wv = wx(i)\n"},
		{"continue-through-match", "    wv = match (i) { z => match (z % 3) { 0 => {\n      continue\n    }, _ => z } }\n"},
		{"block-arm", "    match (i) { z => {\n      wv = z\n    } }\n"},
		{"next-through-match", "RULE"},
	}
	for name, fn := range shapes {
		for _, d := range depths {
			for wk, warm := range warmKinds {
				if wk > 0 && d != 1000 && d != 100000 && d != 10 {
					continue
				}
				// entered directly, and through one and two extra wrapper functions (which shifts whether the
				// push that hits the limit is a call or a <match> scope)
				for wraps, entry := range []string{"f(%d)", "w1(%d)", "w2(%d)"} {
					if wraps > 0 && wk > 0 {
						continue
					}
					pre := fn + warmFns + "function w1(n) {\n  return f(n)\n}\nfunction w2(n) {\n  return w1(n)\n}\n"
					var prog string
					var files []FileIn
					switch {
					case warm.body == "RULE":
						prog = pre + "{\n  wv = match ($) { n => match (n % 2) { 0 => {\n    next\n  }, _ => n } }\n  cnt++\n}\nEND {\n  print \"start\"\n  print " + fmt.Sprintf(entry, d) + "\n  print \"after\"\n}\n"
						var sb strings.Builder
						sb.WriteString("[")
						for i := 0; i < 6000; i++ {
							if i > 0 {
								sb.WriteString(",")
							}
							fmt.Fprintf(&sb, "%d", i)
						}
						sb.WriteString("]")
						files = []FileIn{{Name: "in.json", Data: []byte(sb.String())}}
					case warm.body == "":
						prog = pre + "BEGIN {\n  print \"start\"\n  print " + fmt.Sprintf(entry, d) + "\n  print \"after\"\n}\n"
					default:
						prog = pre + "BEGIN {\n  print \"start\"\n  for (i = 0; i < 5000; i++) {\n" + warm.body + "  }\n  print " + fmt.Sprintf(entry, d) + "\n  print \"after\"\n}\n"
					}
					bjobs = append(bjobs, Job{Kind: "run", Prog: []byte(prog), Files: files, Events: true, Budget: 50_000_000, N: d})
					bmeta = append(bmeta, fmt.Sprintf("%s depth=%d warm=%s wrappers=%d", name, d, warm.name, wraps))
					bneed = append(bneed, perLevel[name]*d+1+wraps)
				}
			}
		}
	}
	pool.Map(bjobs, func(i int, r Result) {
		rep := func(why string) map[string]any {
			return map[string]any{"case": bmeta[i], "program": string(bjobs[i].Prog), "got_class": r.Class, "got_err": r.ErrMsg, "got_stdout": string(r.Stdout), "why": why, "detail": r.Detail}
		}
		switch r.Class {
		case "timeout", "budget":
			c.Count("inconclusive", 1)
			return
		case "ok":
			if string(r.Stdout) != "start\n7\nafter\n" {
				c.Violation("recursion-output", rep("a recursion that succeeds must return its value"))
				return
			}
		case "runtime":
			if string(r.Stdout) != "start\n" {
				c.Violation("recursion-output", rep("a refused recursion keeps the prior output and prints nothing more"))
				return
			}
		default:
			c.Violation("recursion-"+r.Class, rep("neither success nor an ordinary runtime error"))
			return
		}
		md, refused, rd := frameStats(r)
		obs = append(obs, limitObs{What: "call", X: bjobs[i].N, OK: b2i(r.Class == "ok"), MaxDepth: md, Refused: b2i(refused), RefuseDepth: rd, Need: bneed[i], Note: bmeta[i]})
		c.Case("rec:"+bmeta[i], true)
	})

	// ---- array fill
	fills := []int{1000, 1000000, 1048575, 1048576, 1048577, 1100000, 2000000, 10000000, 2000000000}
	var fjobs, wrapJobs []Job
	for _, x := range fills {
		fjobs = append(fjobs, Job{Kind: "run", Prog: []byte(fmt.Sprintf("BEGIN {\n  print \"start\"\n  a = []\n  a[%d] = 1\n  print a.length()\n}\n", x)), Budget: 1000, N: x})
	}
	// the limit bounds the INDEX, whatever the current length: non-empty arrays, fills in several steps
	for _, base := range []struct {
		setup string
		n     int
	}{{"a = [1, 2, 3]", 3}, {"a = []\n  a[1000000] = 0", 1000001}} {
		for _, x := range []int{1048575, 1048576, 1048577, 1048578, 1048579, 1100000, 2000000} {
			fjobs = append(fjobs, Job{Kind: "run", Prog: []byte(fmt.Sprintf("BEGIN {\n  print \"start\"\n  %s\n  a[%d] = 1\n  print a.length()\n}\n", base.setup, x)), Budget: 1000, N: x})
		}
	}
	// an array that already holds more than the limit (grown by push): an index write at its end or beyond is a fill
	// index like any other
	for _, x := range []int{1048580, 1048581, 1048600} {
		fjobs = append(fjobs, Job{Kind: "run", Prog: []byte(fmt.Sprintf("BEGIN {\n  print \"start\"\n  a = []\n  for (i = 0; i < 1048580; i++) {\n    a.push(0)\n  }\n  a[%d] = 1\n  print a.length()\n}\n", x)), Budget: 20_000_000, N: x})
	}
	// the refusals arrive the same wherever the operation stands: inside every kind of loop, a match arm, a function
	for _, op := range []struct {
		what, stmt string
		n          int
	}{{"fill", "a[2000000] = 1", 2000000}, {"width", "printf(\"%70000s\", \"x\")", 70000}, {"call", "rr(0)", 0}} {
		for _, wrap := range []string{"for (c in \"ab\") {\n    %s\n  }", "for (c in [1, 2]) {\n    %s\n  }", "for (k, v in {p: 1}) {\n    %s\n  }", "while (1) {\n    %s\n  }",
			"for (i = 0; i < 2; i++) {\n    %s\n  }", "t = match (1) { _ => {\n    %s\n  } }", "wrapf()", "if (1) {\n    for (c in \"a\") {\n      for (d in \"b\") {\n        %s\n      }\n    }\n  }"} {
			body := wrap
			if strings.Contains(wrap, "%s") {
				body = fmt.Sprintf(wrap, op.stmt)
			}
			pre := "function rr(n) {\n  return rr(n + 1)\n}\nfunction wrapf() {\n  for (c in \"ab\") {\n    " + op.stmt + "\n  }\n}\n"
			wjob := Job{Kind: "run", Prog: []byte(pre + "BEGIN {\n  print \"start\"\n  a = []\n  " + body + "\n  print \"after\"\n}\n"), Budget: 5_000_000, N: op.n, Tag: op.what}
			wrapJobs = append(wrapJobs, wjob)
		}
	}
	pool.Map(wrapJobs, func(i int, r Result) {
		if r.Class == "timeout" || r.Class == "budget" {
			c.Count("inconclusive", 1)
			return
		}
		if r.Class != "runtime" || string(r.Stdout) != "start\n" {
			c.Violation("refusal-lost-"+r.Class, map[string]any{"limit": wrapJobs[i].Tag, "program": string(wrapJobs[i].Prog), "got_class": r.Class, "got_err": r.ErrMsg, "got_stdout": firstN(string(r.Stdout), 200), "detail": firstN(r.Detail, 800),
				"why": "an operation beyond a limit is refused with a runtime error that stops the run, wherever it stands"})
			return
		}
		c.Case("wrapped:"+string(wrapJobs[i].Prog), true)
	})
	pool.Map(fjobs, func(i int, r Result) {
		x := fjobs[i].N
		rep := map[string]any{"index": x, "program": string(fjobs[i].Prog), "got_class": r.Class, "got_err": r.ErrMsg, "got_stdout": string(r.Stdout), "detail": r.Detail}
		switch r.Class {
		case "timeout":
			c.Count("inconclusive", 1)
			return
		case "ok":
			if string(r.Stdout) != fmt.Sprintf("start\n%d\n", x+1) {
				c.Violation("fill-output", rep)
				return
			}
		case "runtime":
			if string(r.Stdout) != "start\n" {
				c.Violation("fill-output", rep)
				return
			}
		default:
			c.Violation("fill-"+r.Class, rep)
			return
		}
		obs = append(obs, limitObs{What: "fill", X: x, OK: b2i(r.Class == "ok")})
		c.Case(fmt.Sprintf("fill:%d", x), true)
	})
	// magnitudes TLC's integers cannot hold, negative and fractional indices: no crash, error or defined result
	var ojobs []Job
	for _, idx := range []string{"1000000000000", "4611686018427387904", "num(\"1e300\")", "(0 - 1)", "(0 - 2)", "(0 - 5)", "(0 - 1000000000000)", "2.5", "0.5", "(0 - 0.5)", "1048576.9", "num(\"1e19\")", "(0 - num(\"1e300\"))", "17592186044416", "1048577", "3000000"} {
		for _, form := range []string{"a[%s] = 1\n  print a.length()", "print a[%s]", "a = [1, 2]\n  a[%s] = 1\n  print a.length()", "print [1, 2][%s]",
			// arrays created implicitly by the assignment itself: under an unset variable, under an object, deeper
			"q[%s] = 1\n  print q.length()", "o = {}\n  o.k[%s] = 1\n  print o.k.length()", "o = {}\n  o.a.b[%s].c = 1\n  print o", "q2.k[%s] = 1\n  print q2", "o = {}\n  o.k[%s]++\n  print o"} {
			ojobs = append(ojobs, Job{Kind: "run", Prog: []byte("BEGIN {\n  print \"start\"\n  a = []\n  " + fmt.Sprintf(form, idx) + "\n}\n"), Budget: 1000, Tag: idx})
		}
	}
	pool.Map(ojobs, func(i int, r Result) {
		if r.Class == "timeout" {
			c.Count("inconclusive", 1)
			return
		}
		if (r.Class != "ok" && r.Class != "runtime") || !strings.HasPrefix(string(r.Stdout), "start\n") {
			c.Violation("index-"+r.Class, map[string]any{"program": string(ojobs[i].Prog), "got_class": r.Class, "got_err": r.ErrMsg, "got_stdout": string(r.Stdout), "detail": r.Detail})
			return
		}
		c.Case("idx:"+string(ojobs[i].Prog), true)
	})

	// ---- printf width
	widths := []int{1, 100, 4096, 65535, 65536, 65537, 100000, -5, -65536, -65537, 2000000000}
	var wjobs []Job
	for _, w := range widths {
		wjobs = append(wjobs, Job{Kind: "run", Prog: []byte(fmt.Sprintf("BEGIN {\n  print \"start\"\n  printf(\"%%%ds\", \"ab\")\n}\n", w)), Budget: 1000, N: w})
	}
	pool.Map(wjobs, func(i int, r Result) {
		w := wjobs[i].N
		rep := map[string]any{"width": w, "program": string(wjobs[i].Prog), "got_class": r.Class, "got_err": r.ErrMsg, "got_len": len(r.Stdout), "detail": r.Detail}
		aw := w
		if aw < 0 {
			aw = -aw
		}
		switch r.Class {
		case "ok":
			want := aw
			if want < 2 {
				want = 2
			}
			if len(r.Stdout) != len("start\n")+want {
				c.Violation("width-output", rep)
				return
			}
		case "runtime":
			if string(r.Stdout) != "start\n" {
				c.Violation("width-output", rep)
				return
			}
		default:
			c.Violation("width-"+r.Class, rep)
			return
		}
		obs = append(obs, limitObs{What: "width", X: w, OK: b2i(r.Class == "ok")})
		c.Case(fmt.Sprintf("width:%d", w), true)
	})

	// widths TLC's integers cannot hold (and the extremes of the machine word): beyond 65536 by any reading,
	// so they are refused; with every conversion that pads, and with an empty and a non-empty argument
	var hjobs []Job
	for _, w := range []string{"2147483647", "2147483648", "4294967296", "9223372036854775806", "9223372036854775807", "9223372036854775808", "18446744073709551616", "99999999999999999999999",
		"-2147483648", "-2147483649", "-4294967296", "-9223372036854775807", "-9223372036854775808", "-9223372036854775809", "-18446744073709551616", "-99999999999999999999999",
		"065537", "-065537", "0000000000000000000065537"} {
		for _, conv := range []string{"s", "f", "v"} {
			for _, arg := range []string{`"ab"`, `""`, `1.5`, `[1]`} {
				hjobs = append(hjobs, Job{Kind: "run", Prog: []byte("BEGIN {\n  print \"start\"\n  printf(\"[%" + w + conv + "]\", " + arg + ")\n  print \"after\"\n}\n"), Budget: 1000, Tag: w + conv})
			}
		}
	}
	// just beyond the limit with every conversion, also where no padding would result: %v and %% never pad,
	// an argument that is already longer than the width needs none
	for _, w := range []string{"65537", "-65537", "70000", "065537", "131072"} {
		for _, call := range []string{`printf("[%Wv]", 1)`, `printf("[%Wv]", "ab")`, `printf("100%W%")`, `printf("[%Ws]", big)`, `printf("[%Wf]", 1.5)`, `printf("[%Ws]", "")`, `printf("%s [%Ws]", "a", big)`} {
			hjobs = append(hjobs, Job{Kind: "run", Prog: []byte("BEGIN {\n  big = \"x\"\n  for (i = 0; i < 18; i++) {\n    big = big + big\n  }\n  print \"start\"\n  " + strings.ReplaceAll(call, "W", w) + "\n  print \"after\"\n}\n"), Budget: 10000, Tag: w + call})
		}
	}
	pool.Map(hjobs, func(i int, r Result) {
		if r.Class == "timeout" {
			c.Count("inconclusive", 1)
			return
		}
		if r.Class != "runtime" || string(r.Stdout) != "start\n" {
			c.Violation("huge-width-"+r.Class, map[string]any{"program": string(hjobs[i].Prog), "got_class": r.Class, "got_err": r.ErrMsg, "got_stdout_len": len(r.Stdout), "detail": r.Detail,
				"why": "a printf width beyond 65536 is refused with a runtime error (nothing of the printf is written, the prior output is kept)"})
			return
		}
		c.Case("hugewidth:"+string(hjobs[i].Prog), true)
	})

	// widths within the limit are accepted in every spelling (zero flag, minus, both)
	var ajobs []Job
	for _, w := range []string{"010000", "065536", "065535", "-012345", "-065536", "0100", "09999", "00000000000000000000100", "-0000065536"} {
		for _, a := range []string{`"ab"`, `1.5`} {
			conv := "s"
			if a == "1.5" {
				conv = "f"
			}
			ajobs = append(ajobs, Job{Kind: "run", Prog: []byte("BEGIN {\n  print \"start\"\n  printf(\"%" + w + conv + "\", " + a + ")\n}\n"), Budget: 1000, Tag: w})
		}
	}
	pool.Map(ajobs, func(i int, r Result) {
		w, _ := strconv.Atoi(strings.TrimLeft(strings.TrimPrefix(ajobs[i].Tag, "-"), "0"))
		if r.Class != "ok" || len(r.Stdout) != len("start\n")+w {
			c.Violation("width-in-limit-"+r.Class, map[string]any{"program": string(ajobs[i].Prog), "got_class": r.Class, "got_err": r.ErrMsg, "got_len": len(r.Stdout), "expected_len": len("start\n") + w,
				"why": "a width of at most 65536 is not refused, however it is spelled; the output is padded to exactly that width"})
			return
		}
		c.Case("widthok:"+string(ajobs[i].Prog), true)
	})

	// ---- JSON nesting (library and binary)
	jdepths := []int{100, 1000, 5000, 9999, 10000, 10001, 20000, 100000}
	var jjobs []Job
	for _, d := range jdepths {
		// nesting made of arrays, of objects, and alternating: it is containers that are counted
		docs := []string{strings.Repeat("[", d) + "1" + strings.Repeat("]", d),
			strings.Repeat("{\"a\":", d) + "1" + strings.Repeat("}", d),
			strings.Repeat("[{\"a\":", d/2) + strings.Repeat("[", d%2) + "1" + strings.Repeat("]", d%2) + strings.Repeat("}]", d/2)}
		for _, doc := range docs {
			jjobs = append(jjobs, Job{Kind: "run", Prog: []byte("BEGIN { print \"start\" }\n{ n = n + 1 }\nEND { print \"values\", n }\n"), Files: []FileIn{{Name: "deep.json", Data: []byte(doc)}}, Budget: 1000000, N: d})
		}
		// a document that is accepted is also printed and converted whole (the array form prints as it is written)
		if d <= 10000 {
			jjobs = append(jjobs, Job{Kind: "run", Prog: []byte("BEGIN { print \"start\" }\nBEGINFILE { print $\n  s = json($)\n  print s.length() > 0 }\n{ n = n + 1 }\nEND { print \"values\", n }\n"),
				Files: []FileIn{{Name: "deep.json", Data: []byte(docs[0])}}, Budget: 1000000, N: d, Tag: "print"})
		}
	}
	pool.Map(jjobs, func(i int, r Result) {
		d := jjobs[i].N
		rep := map[string]any{"nesting": d, "got_class": r.Class, "got_err": r.ErrMsg, "got_stdout": string(r.Stdout), "detail": r.Detail}
		switch r.Class {
		case "timeout":
			c.Count("inconclusive", 1)
			return
		case "ok":
			want := "start\nvalues 1\n"
			if jjobs[i].Tag == "print" {
				want = "start\n" + string(jjobs[i].Files[0].Data) + "\ntrue\nvalues 1\n"
			}
			if string(r.Stdout) != want {
				rep["got_stdout"] = firstN(string(r.Stdout), 200)
				c.Violation("json-depth-output", rep)
				return
			}
		case "json":
			if string(r.Stdout) != "start\n" || r.FileName != "deep.json" {
				c.Violation("json-depth-output", rep)
				return
			}
		default:
			c.Violation("json-depth-"+r.Class, rep)
			return
		}
		obs = append(obs, limitObs{What: "json", X: d, OK: b2i(r.Class == "ok")})
		c.Case(fmt.Sprintf("jsondepth:%d", d), true)
	})

	// ---- the binary: runaway recursion, a too deep document, a huge width
	dir := c.TempDir("c20bin")
	os.WriteFile(filepath.Join(dir, "deep.json"), []byte(strings.Repeat("[", 20000)+"1"+strings.Repeat("]", 20000)), 0o644)
	os.WriteFile(filepath.Join(dir, "one.json"), []byte("[1]"), 0o644)
	binCases := [][]string{
		{"function f(n) { return f(n + 1) }\nBEGIN { print \"start\"; f(0) }", "one.json"},
		{"function f(n) { return match (n) { z => f(z + 1) } }\n{ print \"start\"; f(0) }", "one.json"},
		{"{ print 1 }", "deep.json"},
		{"BEGIN { print \"start\"; printf(\"%70000s\", \"a\") }", "one.json"},
		{"BEGIN { print \"start\"; a = []; a[5000000] = 1 }", "one.json"},
	}
	parallelDo(len(binCases), 4, func(i int) {
		br := c.RunBin(binCases[i], nil, dir, 120*time.Second)
		if br.TimedOut {
			c.Count("inconclusive", 1)
			return
		}
		why := binaryVerdict(br)
		if why == "" && br.Exit == 0 {
			why = "the refusal must be reported with a non-zero exit status"
		}
		if why != "" {
			c.Violation("limit-binary", map[string]any{"args": binCases[i], "exit": br.Exit, "stderr": firstN(string(br.Stderr), 2000), "why": why})
			return
		}
		c.Case("bin:"+binCases[i][0], true)
	})

	// ---- nothing accumulates towards a limit over a long run; nesting as deep as a 64 KiB text allows
	if c.Thorough() {
		checkLongHistories(c, []int{1000, 400000})
	} else {
		checkLongHistories(c, []int{320000})
	}
	checkC01DeepNesting(c)

	// ---- TLC: one value of each limit explains every observation
	var sb strings.Builder
	for _, o := range obs {
		b, _ := json.Marshal(o)
		sb.Write(b)
		sb.WriteByte('\n')
	}
	res := c.TLC(TLCOpt{Module: "Trace_Limits", Workers: 1, Heap: "4g", AllowErr: true,
		Cfg:   cfgText("INIT Init", "NEXT Next", "INVARIANTS CallExplained FillExplained WidthExplained JsonExplained Covered"),
		Files: map[string]string{"limits.ndjson": sb.String()}})
	if !res.OK {
		which := "?"
		for _, l := range res.Errors {
			if strings.Contains(l, "nvariant") {
				which = l
			}
		}
		all := strings.Join(res.Errors, "\n")
		if !strings.Contains(all, "is violated") && !strings.Contains(all, "is equal to FALSE") {
			infra("Trace_Limits failed:\n%s", strings.Join(res.Errors, "\n"))
		}
		c.Violation("limits-unexplained", map[string]any{"observations": obs, "tlc": which,
			"why": "no single value of the limit (within the range the statement allows) explains all recorded successes and refusals"})
	} else {
		c.Count("traces_validated_against_impl", int64(len(obs)))
	}
	c.Sample(map[string]any{"family": "limit observations", "observations": obs})
	c.Set("rule", "every recursion shape x start context (TLC BFS with stand-in limits 3 and 4, replayed modulo the repetition count); bounded recursion of 4 shapes x depths around the limit x 0/5000 completed calls before; fill indices, widths and JSON nesting around their limits; huge/negative/fractional indices; every case is non-trivial (exercises a limit or its neighbourhood); distinct by program")
	c.Set("checker_cmd", "tlc MC_EvalLimit (DepthBounded, RefusedAsRuntimeError, ...); tlc Trace_Limits (CallExplained FillExplained WidthExplained JsonExplained Covered) over observations recorded from worker subprocesses")
}

func b2i(b bool) int {
	if b {
		return 1
	}
	return 0
}

func lineTexts(exp []expLine) []string {
	out := make([]string, len(exp))
	for i, e := range exp {
		out[i] = e.Text
	}
	return out
}

func firstLines(l []string, n int) []string {
	if len(l) > n {
		return l[:n]
	}
	return l
}

func firstN(s string, n int) string {
	if len(s) > n {
		return s[:n]
	}
	return s
}
