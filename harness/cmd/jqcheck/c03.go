package main

import (
	"bufio"
	"bytes"
	"encoding/json"
	"fmt"
	"io"
	"math/rand"
	"os"
	"os/exec"
	"path/filepath"
	"sort"
	"strings"
	"syscall"
	"time"
)

// C03: input is a JSON value stream: incremental, chunking-independent, faults reported.
//
// Model: spec/JqStream.tla (pushdown scanner for JSON value streams, the
// declarative expectation, the reader/decoder transition system and its
// invariants), spec/MC_Stream.tla (bounded universe, every chunking in the
// model, one vector per stream x fault), spec/Trace_Stream.tla (validation of
// recorded reader/decoder/writer traces against JqStream's actions).
//
//	(A) every vector is replayed on lang.EvalProgram with the scheduled reader
//	    under each boundary-relevant chunking; at every Read call the output
//	    already written is held against the model's lower (Incremental) and upper
//	    (NoSpeculation) bound, at the end stdout / outcome / file name against
//	    Expected(stream, fault), and all chunkings against each other.
//	(B) seeded random JSONL streams (up to 200 values, random whitespace, random
//	    chunk sizes including > 512 bytes) are run on the real code, the exact
//	    interleaving of Read calls, Decoded hooks and output is written as NDJSON
//	    and validated by TLC against Trace_Stream (POSTCONDITION acceptance).
//	(C) a sample is repeated on the compiled binary, blocking between values and
//	    waiting for the output before the next value is sent: over a pipe on
//	    stdin and through a named FIFO given as a file argument; and with two
//	    inputs, a good file followed by an unreadable one (a directory).
//	(D) streams with one large value (70-200 KiB string / array / object) at the
//	    first / middle / last position among small values, under several
//	    chunkings and faults; the expectation is the Go port of JqStream's
//	    Expected / MustCount / MayCount (cross-checked against TLC's tables on
//	    every vector of (A)) over encoding/json's value spans.
//	(E) whole runs (c03run.go; spec/JqStreamRun.tla, spec/MC_StreamRun.tla): every
//	    program shape x input ending, selector lists x streams, value kinds x
//	    positions, one or two inputs; stdout / outcome / file named against the
//	    activations TLC computes; a sample repeated on the binary with files.

const c03File = "in.json"
const c03Dev = "more-swallows-error"

// every processed value writes at least two lines (b, e) and one line per element / scalar
// (json() is used only as a rendering that is a function of the value alone)
var c03Prog = []byte("BEGINFILE { print 'b', $file } { print 'v', json($) } ENDFILE { print 'e', json($) }")

func init() {
	register("C03", checkC03)
	jobKinds["c03vec"] = c03ExecVec
	jobKinds["c03trace"] = c03ExecTrace
	jobKinds["c03big"] = c03ExecBig
}

type c03Fault struct {
	Kind string `json:"kind"`
	At   int    `json:"at"`
}

type c03Vec struct {
	Stream []string `json:"stream"`
	Fault  c03Fault `json:"fault"`
	Lim    int      `json:"lim"`
	Vals   [][]int  `json:"vals"`
	Err    int      `json:"err"`
	Open   bool     `json:"open"`
	Exp    struct {
		Outcome string `json:"outcome"`
		Lo      int    `json:"lo"`
		Hi      int    `json:"hi"`
	} `json:"exp"`
	Swallow []int   `json:"swallow"`
	Must    []int   `json:"must"`
	May     []int   `json:"may"`
	Cutsets [][]int `json:"cutsets"`
}

type c03Problem struct {
	Kind   string         `json:"kind"` // violation | dev | model | inconclusive
	Name   string         `json:"name"`
	Detail map[string]any `json:"detail,omitempty"`
}

func c03Bytes(syms []string) []byte {
	out := make([]byte, 0, len(syms))
	for _, s := range syms {
		if len(s) == 1 {
			out = append(out, s[0])
		} else {
			var b byte
			fmt.Sscanf(s, "%02X", &b)
			out = append(out, b)
		}
	}
	return out
}

func c03Syms(b []byte) []string {
	out := make([]string, len(b))
	for i, x := range b {
		if x < 0x80 {
			out[i] = string(rune(x))
		} else {
			out[i] = fmt.Sprintf("%02X", x)
		}
	}
	return out
}

func c03IsSpace(b byte) bool { return b == ' ' || b == '\n' || b == '\r' || b == '\t' }

// c03Oracle: the trusted definition (encoding/json) of where the top-level
// values of p end, taken as a whole input: spans (1-based, inclusive), whether
// the text is malformed (errAt = offset reported by the library, > 0) or ends
// inside a value (open).  Uses Decode only (never More).
func c03Oracle(p []byte) (spans [][2]int, errAt int, open bool) {
	dec := json.NewDecoder(bytes.NewReader(p))
	prev := 0
	for {
		var raw json.RawMessage
		err := dec.Decode(&raw)
		if err == io.EOF {
			return spans, 0, false
		}
		if err != nil {
			if err == io.ErrUnexpectedEOF {
				return spans, 0, true
			}
			if se, ok := err.(*json.SyntaxError); ok {
				return spans, int(se.Offset), false
			}
			return spans, -1, false
		}
		end := int(dec.InputOffset())
		start := prev
		for start < end && c03IsSpace(p[start]) {
			start++
		}
		spans = append(spans, [2]int{start + 1, end})
		prev = end
	}
}

// ---------------------------------------------------------------------------
// worker side

var c03SingleCache = map[string][]byte{}

// output of processing one value text on its own ("the values one after another")
func c03Single(text []byte) ([]byte, string) {
	if o, ok := c03SingleCache[string(text)]; ok {
		return o, ""
	}
	r := execRun(&Job{Kind: "run", Prog: c03Prog, Files: []FileIn{{Name: c03File, Data: text}}})
	if r.Class != "ok" {
		return nil, r.Class + ": " + r.ErrMsg
	}
	if len(c03SingleCache) > 20000 {
		c03SingleCache = map[string][]byte{}
	}
	c03SingleCache[string(text)] = r.Stdout
	return r.Stdout, ""
}

// c03Model is what one run is judged against.
type c03Model struct {
	lim     int
	must    []int // per delivered count 0..lim
	may     []int
	nvals   int
	outcome string
	lo, hi  int
	swallow map[int]bool
	cum     []int  // cum[k] = bytes of output of the first k values
	outs    []byte // concatenated outputs of all values
}

func (m *c03Model) countFor(o int) int {
	i := sort.SearchInts(m.cum, o)
	if i < len(m.cum) && m.cum[i] == o {
		return i
	}
	return -1
}

// c03Judge checks one run.  Returns the number of values processed, a verdict
// ("ok" | "dev" | "violation" | "inconclusive"), the name of the failed check and a reason.
func c03Judge(m *c03Model, r *Result) (k int, verdict, name, why string) {
	switch r.Class {
	case "ok", "json":
	case "budget", "timeout":
		return -1, "inconclusive", "budget", r.Class
	default:
		return -1, "violation", "class", "run ended with class " + r.Class + ": " + r.ErrMsg + r.Detail
	}
	ended := false
	for _, e := range r.Events {
		switch e.E {
		case "ReadCall":
			d, o := e.A, e.B
			if d < 0 || d > m.lim {
				return -1, "violation", "reader", fmt.Sprintf("reader handed out %d bytes, limit %d", d, m.lim)
			}
			kk := m.countFor(o)
			if kk < 0 || !bytes.Equal(r.Stdout[:o], m.outs[:o]) {
				return -1, "violation", "partial-output", fmt.Sprintf("at a Read call with %d bytes delivered the %d bytes of output are not the output of a whole number of leading values", d, o)
			}
			upper := m.may[d]
			if ended {
				upper = m.nvals
			}
			if kk < m.must[d] {
				return kk, "violation", "incremental", fmt.Sprintf("blocked in Read with %d bytes delivered: %d value(s) processed, but %d value(s) and a following byte have been read", d, kk, m.must[d])
			}
			if kk > upper {
				return kk, "violation", "no-speculation", fmt.Sprintf("with %d bytes delivered %d value(s) were processed, only %d complete", d, kk, upper)
			}
		case "ReadRet":
			if e.S != "" {
				ended = true
			}
		}
	}
	k = m.countFor(len(r.Stdout))
	if k < 0 || !bytes.Equal(r.Stdout, m.outs[:len(r.Stdout)]) {
		return -1, "violation", "output", "stdout is not the concatenation of the outputs of the first k values processed one after another"
	}
	if r.Class == "json" && r.FileName != c03File {
		return k, "violation", "json-error-file", fmt.Sprintf("JsonError names %q, not the file %q", r.FileName, c03File)
	}
	if r.Class == m.outcome && k >= m.lo && k <= m.hi {
		return k, "ok", "", ""
	}
	if r.Class == "ok" && m.swallow[k] {
		return k, "dev", c03Dev, ""
	}
	return k, "violation", "outcome", fmt.Sprintf("expected outcome %s after %d..%d values, got %s after %d", m.outcome, m.lo, m.hi, r.Class, k)
}

func c03ChunksFromCuts(cuts []int) []int {
	cs := append([]int{}, cuts...)
	sort.Ints(cs)
	out := []int{}
	prev := 0
	for _, c := range cs {
		if c > prev {
			out = append(out, c-prev)
			prev = c
		}
	}
	return out
}

func c03Run(data []byte, chunks []int, f c03Fault, events bool) Result {
	fi := FileIn{Name: c03File, Data: data, Chunks: chunks}
	if f.Kind == "eof" || f.Kind == "ioerr" {
		fi.Fault, fi.FaultAt = f.Kind, f.At
	}
	return execRun(&Job{Kind: "run", Prog: c03Prog, Files: []FileIn{fi}, IO: true, Events: events})
}

// c03BuildModel computes outputs of the single values and the cumulative table.
func c03BuildModel(m *c03Model, data []byte, spans [][2]int) string {
	m.cum = []int{0}
	for _, sp := range spans {
		o, bad := c03Single(data[sp[0]-1 : sp[1]])
		if bad != "" {
			return fmt.Sprintf("value %q alone: %s", data[sp[0]-1:sp[1]], bad)
		}
		if len(o) == 0 {
			return "a value produced no output"
		}
		m.outs = append(m.outs, o...)
		m.cum = append(m.cum, len(m.outs))
	}
	return ""
}

// c03GoModel is the Go port of JqStream's MustCount / MayCount / Expected /
// SwallowCounts over the value spans of the readable prefix (c03Oracle).  It
// serves the streams that are too long for TLC's byte-level model; on every
// vector of MC_Stream it is compared with TLC's tables (c03ExecVec).
func c03GoModel(data []byte, f c03Fault, spans [][2]int, errAt int, open bool) *c03Model {
	lim := len(data)
	if f.Kind != "none" {
		lim = f.At
	}
	m := &c03Model{lim: lim, nvals: len(spans), swallow: map[int]bool{}}
	m.must = make([]int, lim+1)
	m.may = make([]int, lim+1)
	sd := func(k int) bool { b := data[spans[k][0]-1]; return !(b == '-' || (b >= '0' && b <= '9')) }
	for k, sp := range spans {
		// must: e+1 <= d ; may: e <= d and (sd or e < d)
		for d := sp[1] + 1; d <= lim; d++ {
			m.must[d]++
			m.may[d]++
		}
		if sd(k) && sp[1] <= lim {
			m.may[sp[1]]++
		}
	}
	allWS := func(a, b int) bool { // 1-based inclusive
		for i := a; i <= b; i++ {
			if !c03IsSpace(data[i-1]) {
				return false
			}
		}
		return true
	}
	endOf := func(k int) int {
		if k == 0 {
			return 0
		}
		return spans[k-1][1]
	}
	n := len(spans)
	if f.Kind == "ioerr" {
		m.outcome, m.lo, m.hi = "json", m.must[lim], m.may[lim]
	} else {
		m.outcome, m.lo, m.hi = "ok", n, n
		if errAt != 0 || open {
			m.outcome = "json"
		}
	}
	if errAt > 0 && (data[errAt-1] == ']' || data[errAt-1] == '}') && allWS(endOf(n)+1, errAt-1) {
		m.swallow[n] = true
	} else if f.Kind == "ioerr" && errAt == 0 {
		for k := m.lo; k <= m.hi; k++ {
			if allWS(endOf(k)+1, lim) {
				m.swallow[k] = true
			}
		}
	}
	return m
}

func c03SameInts(a, b []int) bool {
	if len(a) != len(b) {
		return false
	}
	for i := range a {
		if a[i] != b[i] {
			return false
		}
	}
	return true
}

func c03ExecVec(j *Job) (res Result) {
	res.Class = "ok"
	var probs []c03Problem
	add := func(kind, name string, d map[string]any) {
		if len(probs) < 4 {
			probs = append(probs, c03Problem{kind, name, d})
		}
	}
	defer func() {
		for _, p := range probs {
			b, _ := json.Marshal(p)
			res.Out = append(res.Out, string(b))
		}
	}()
	var v c03Vec
	if err := json.Unmarshal([]byte(j.Tag), &v); err != nil {
		add("model", "bad-vector", map[string]any{"err": err.Error()})
		return
	}
	data := c03Bytes(v.Stream)
	readable := data[:v.Lim]

	// the model's scanner against the trusted library
	spans, oerr, oopen := c03Oracle(readable)
	same := len(spans) == len(v.Vals) && oopen == v.Open && oerr == v.Err
	for i := 0; same && i < len(spans); i++ {
		same = len(v.Vals[i]) == 2 && spans[i][0] == v.Vals[i][0] && spans[i][1] == v.Vals[i][1]
	}
	if !same {
		add("model", "scanner-vs-encoding/json", map[string]any{"stream": string(data), "lim": v.Lim,
			"model_vals": v.Vals, "model_err": v.Err, "model_open": v.Open, "lib_vals": spans, "lib_err": oerr, "lib_open": oopen})
		return
	}

	m := &c03Model{lim: v.Lim, must: v.Must, may: v.May, nvals: len(v.Vals), outcome: v.Exp.Outcome, lo: v.Exp.Lo, hi: v.Exp.Hi,
		swallow: map[int]bool{}}
	for _, k := range v.Swallow {
		m.swallow[k] = true
	}
	// the Go port of the expectation (used for the large-value family) against TLC's tables
	g := c03GoModel(data, v.Fault, spans, oerr, oopen)
	sameSw := len(g.swallow) == len(m.swallow)
	for k := range g.swallow {
		sameSw = sameSw && m.swallow[k]
	}
	if !c03SameInts(g.must, m.must) || !c03SameInts(g.may, m.may) || g.outcome != m.outcome || g.lo != m.lo || g.hi != m.hi || !sameSw {
		add("model", "go-port-vs-tlc", map[string]any{"stream": string(data), "fault": v.Fault,
			"tlc": map[string]any{"must": m.must, "may": m.may, "exp": v.Exp, "swallow": v.Swallow},
			"go":  map[string]any{"must": g.must, "may": g.may, "outcome": g.outcome, "lo": g.lo, "hi": g.hi, "swallow": g.swallow}})
		return
	}
	if bad := c03BuildModel(m, data, spans); bad != "" {
		if strings.Contains(bad, "cannot unmarshal number") {
			// a number text outside float64: well formed, but not a value encoding/json can hand out; not modelled
			add("skip", "number-out-of-range", nil)
			return
		}
		add("violation", "single-value", map[string]any{"stream": string(data), "why": bad})
		return
	}
	firstK, firstClass, firstCuts := -2, "", []int(nil)
	runs := 0
	for _, cuts := range v.Cutsets {
		chunks := c03ChunksFromCuts(cuts)
		r := c03Run(data, chunks, v.Fault, false)
		runs++
		k, verdict, name, why := c03Judge(m, &r)
		rep := map[string]any{"stream": string(data), "stream_bytes": data, "fault": v.Fault, "chunks": chunks, "why": why,
			"program": string(c03Prog), "got_class": r.Class, "got_stdout": string(r.Stdout), "got_msg": r.ErrMsg,
			"got_file": r.FileName, "processed": k, "expected": v.Exp, "events": r.Events}
		switch verdict {
		case "violation":
			add("violation", name, rep)
			continue
		case "inconclusive":
			add("inconclusive", name, nil)
			continue
		case "dev":
			add("dev", name, map[string]any{"stream": string(data), "fault": fmt.Sprintf("%s@%d", v.Fault.Kind, v.Fault.At), "processed": k, "got_class": r.Class})
		}
		if firstK == -2 {
			firstK, firstClass, firstCuts = k, r.Class, cuts
		} else if k != firstK || r.Class != firstClass {
			rep["why"] = fmt.Sprintf("result depends on the chunking: cuts %v -> %s after %d values, cuts %v -> %s after %d values",
				firstCuts, firstClass, firstK, cuts, r.Class, k)
			add("violation", "chunk-dependent", rep)
		}
	}
	res.Depth = runs
	return
}

type c03TraceIn struct {
	Data   []byte   `json:"data"`
	Chunks []int    `json:"chunks"`
	Fault  c03Fault `json:"fault"`
}

// c03ExecTrace runs one random stream with hooks and I/O events and returns the
// run plus the outputs of its values processed singly (Out[0] = JSON of cum/outs).
func c03ExecTrace(j *Job) (res Result) {
	var in c03TraceIn
	if err := json.Unmarshal([]byte(j.Tag), &in); err != nil {
		return Result{Class: "other", Detail: "bad trace job: " + err.Error()}
	}
	lim := len(in.Data)
	if in.Fault.Kind != "none" {
		lim = in.Fault.At
	}
	spans, _, _ := c03Oracle(in.Data[:lim])
	m := &c03Model{}
	if bad := c03BuildModel(m, in.Data, spans); bad != "" {
		return Result{Class: "other", Detail: "single: " + bad}
	}
	res = c03Run(in.Data, in.Chunks, in.Fault, true)
	b, _ := json.Marshal(map[string]any{"cum": m.cum, "outs": m.outs})
	res.Out = []string{string(b)}
	return res
}

type c03BigRun struct {
	Chunks []int    `json:"chunks"`
	Fault  c03Fault `json:"fault"`
	Label  string   `json:"label"`
}

type c03BigIn struct {
	Data []byte      `json:"data"`
	Runs []c03BigRun `json:"runs"`
	Desc string      `json:"desc"`
}

func c03Clip(b []byte, n int) string {
	if len(b) <= 2*n {
		return string(b)
	}
	return fmt.Sprintf("%s ...(%d bytes)... %s", b[:n], len(b)-2*n, b[len(b)-n:])
}

// c03ExecBig: one stream with a large value, every (chunking, fault) of the job
// judged in the worker against the Go port of the expectation.
func c03ExecBig(j *Job) (res Result) {
	res.Class = "ok"
	var probs []c03Problem
	add := func(kind, name string, d map[string]any) {
		if len(probs) < 3 {
			probs = append(probs, c03Problem{kind, name, d})
		}
	}
	defer func() {
		for _, p := range probs {
			b, _ := json.Marshal(p)
			res.Out = append(res.Out, string(b))
		}
	}()
	var in c03BigIn
	if err := json.Unmarshal([]byte(j.Tag), &in); err != nil {
		add("model", "bad-big-job", map[string]any{"err": err.Error()})
		return
	}
	type key struct {
		kind string
		at   int
	}
	models := map[key]*c03Model{}
	first := map[key]*[3]any{} // class, k, label of the first chunking per fault
	for _, run := range in.Runs {
		kf := key{run.Fault.Kind, run.Fault.At}
		m := models[kf]
		if m == nil {
			lim := len(in.Data)
			if run.Fault.Kind != "none" {
				lim = run.Fault.At
			}
			spans, oerr, oopen := c03Oracle(in.Data[:lim])
			m = c03GoModel(in.Data, run.Fault, spans, oerr, oopen)
			if bad := c03BuildModel(m, in.Data, spans); bad != "" {
				if len(bad) > 300 {
					bad = bad[:300]
				}
				add("violation", "single-value", map[string]any{"stream": in.Desc, "why": bad})
				return
			}
			models[kf] = m
		}
		r := c03Run(in.Data, run.Chunks, run.Fault, false)
		res.Depth++
		k, verdict, name, why := c03Judge(m, &r)
		nread := 0
		for _, e := range r.Events {
			if e.E == "ReadCall" {
				nread++
			}
		}
		chunks := run.Chunks
		if len(chunks) > 40 {
			chunks = chunks[:40]
		}
		rep := map[string]any{"stream": in.Desc, "stream_len": len(in.Data), "stream_head_tail": c03Clip(in.Data, 200), "fault": run.Fault,
			"chunking": run.Label, "chunks_first40": chunks, "why": why, "program": string(c03Prog), "got_class": r.Class, "got_msg": r.ErrMsg,
			"got_file": r.FileName, "got_stdout_len": len(r.Stdout), "got_stdout_tail": c03Clip(r.Stdout, 150), "processed": k,
			"expected": map[string]any{"outcome": m.outcome, "lo": m.lo, "hi": m.hi, "values": m.nvals}, "read_calls": nread}
		switch verdict {
		case "violation":
			add("violation", "big-"+name, rep)
			continue
		case "inconclusive":
			add("inconclusive", name, nil)
			continue
		case "dev":
			add("dev", name, map[string]any{"stream": in.Desc, "fault": fmt.Sprintf("%s@%d", run.Fault.Kind, run.Fault.At), "processed": k, "got_class": r.Class})
		}
		if f := first[kf]; f == nil {
			first[kf] = &[3]any{r.Class, k, run.Label}
		} else if f[0] != r.Class || f[1] != k {
			rep["why"] = fmt.Sprintf("result depends on the chunking: %v -> %v after %v values, %s -> %s after %d values", f[2], f[0], f[1], run.Label, r.Class, k)
			add("violation", "big-chunk-dependent", rep)
		}
	}
	return
}

// c03BigValue: a value text of roughly size bytes: 0 string, 1 array of small values, 2 object holding an array of strings
func c03BigValue(rng *rand.Rand, shape, size int) string {
	var sb strings.Builder
	switch shape {
	case 0:
		sb.WriteByte('"')
		for sb.Len() < size {
			switch rng.Intn(40) {
			case 0:
				sb.WriteString(`\"`)
			case 1:
				sb.WriteString(`\\`)
			case 2:
				sb.WriteString("] [")
			case 3:
				sb.WriteString("\u00e9")
			default:
				sb.WriteByte(byte('a' + rng.Intn(26)))
			}
		}
		sb.WriteByte('"')
	case 1:
		sb.WriteByte('[')
		for i := 0; sb.Len() < size; i++ {
			if i > 0 {
				sb.WriteString([]string{",", ", ", ",\n"}[rng.Intn(3)])
			}
			sb.WriteString(c03RandValue(rng, 2))
		}
		sb.WriteByte(']')
	default:
		sb.WriteString(`{"big": [`)
		for i := 0; sb.Len() < size; i++ {
			if i > 0 {
				sb.WriteByte(',')
			}
			sb.WriteByte('"')
			for n := 20 + rng.Intn(200); n > 0; n-- {
				sb.WriteByte(byte('a' + rng.Intn(26)))
			}
			sb.WriteByte('"')
		}
		sb.WriteString(`]}`)
	}
	return sb.String()
}

// c03BigJob: nSmall small values with one large value at position pos, and the
// (chunking, fault) combinations to run.
func c03BigJob(rng *rand.Rand, pos, nSmall, shape int) c03BigIn {
	size := 70*1024 + rng.Intn(130*1024)
	var sb strings.Builder
	bigStart, bigEnd, nextStart, nextEnd := 0, 0, 0, 0 // 1-based spans of the large value and of the value after it
	prevNum := false
	total := nSmall + 1
	for i := 0; i < total; i++ {
		var v string
		if i == pos {
			v = c03BigValue(rng, shape, size)
		} else {
			v = c03RandValue(rng, 1)
		}
		if i > 0 {
			sb.WriteString(c03RandWS(rng, !(prevNum && c03IsNumText(v))))
		}
		start := sb.Len() + 1
		sb.WriteString(v)
		if i == pos {
			bigStart, bigEnd = start, sb.Len()
		}
		if i == pos+1 {
			nextStart, nextEnd = start, sb.Len()
		}
		prevNum = c03IsNumText(v)
	}
	if rng.Intn(2) == 0 {
		sb.WriteString(c03RandWS(rng, false))
	}
	data := []byte(sb.String())
	n := len(data)
	in := c03BigIn{Data: data, Desc: fmt.Sprintf("%d small values, one %d-byte value of shape %d at position %d (bytes %d..%d), %d bytes in all", nSmall, bigEnd-bigStart+1, shape, pos+1, bigStart, bigEnd, n)}
	randChunks := func(lo, hi int) []int {
		var out []int
		for sum := 0; sum < n; {
			c := lo + rng.Intn(hi-lo+1)
			out = append(out, c)
			sum += c
		}
		return out
	}
	type ch struct {
		label  string
		chunks []int
	}
	chunkings := []ch{
		{"whole (as much as the decoder asks for)", nil},
		{"random chunks of 1..64 KiB", randChunks(1, 64*1024)},
		{"random chunks of 1..64 KiB (second draw)", randChunks(1, 64*1024)},
		{"random chunks of 300..5000 bytes", randChunks(300, 5000)},
		{"one read ends exactly at the end of the large value", []int{bigEnd}},
		{"one read ends one byte after the large value", []int{bigEnd + 1}},
		{"the tail of the large value arrives together with everything after it", []int{bigEnd - 1 - rng.Intn(2000)}},
	}
	if nextStart > 0 {
		cut := nextStart + rng.Intn(nextEnd-nextStart+1)
		chunkings = append(chunkings, ch{"one read ends inside the value after the large one", []int{cut}},
			ch{"reads end at the end of the large value and inside the following value", []int{bigEnd, cut - bigEnd}})
	}
	faults := []c03Fault{{Kind: "none"}}
	after := bigEnd + 1 + rng.Intn(n-bigEnd+1) // somewhere after the large value
	if after > n {
		after = n
	}
	faults = append(faults,
		c03Fault{Kind: "ioerr", At: after}, c03Fault{Kind: "eof", At: after},
		c03Fault{Kind: "ioerr", At: n}, c03Fault{Kind: "ioerr", At: bigEnd}, c03Fault{Kind: "eof", At: bigEnd},
		c03Fault{Kind: "eof", At: bigStart + rng.Intn(bigEnd-bigStart)}, c03Fault{Kind: "ioerr", At: bigStart + rng.Intn(bigEnd-bigStart)})
	if nextStart > 0 && nextEnd > nextStart {
		in2 := nextStart + rng.Intn(nextEnd-nextStart)
		faults = append(faults, c03Fault{Kind: "eof", At: in2}, c03Fault{Kind: "ioerr", At: in2})
	}
	for _, f := range faults {
		for _, c := range chunkings {
			in.Runs = append(in.Runs, c03BigRun{Chunks: c.chunks, Fault: f, Label: c.label})
		}
	}
	return in
}

// ---------------------------------------------------------------------------
// random JSONL streams (binding B)

func c03RandString(rng *rand.Rand) string {
	n := rng.Intn(8)
	var sb strings.Builder
	sb.WriteByte('"')
	for i := 0; i < n; i++ {
		switch rng.Intn(12) {
		case 0:
			sb.WriteString(`\"`)
		case 1:
			sb.WriteString(`\\`)
		case 2:
			sb.WriteString(`\n`)
		case 3:
			sb.WriteString(`\u00e9`)
		case 4:
			sb.WriteString("é")
		case 5:
			sb.WriteString("]")
		case 6:
			sb.WriteString("{")
		case 7:
			sb.WriteString(" ")
		default:
			sb.WriteByte(byte('a' + rng.Intn(26)))
		}
	}
	sb.WriteByte('"')
	return sb.String()
}

func c03RandWS(rng *rand.Rand, allowEmpty bool) string {
	opts := []string{" ", "\n", "\t", "\r\n", "  ", "\n\n", " \n"}
	if allowEmpty && rng.Intn(3) == 0 {
		return ""
	}
	return opts[rng.Intn(len(opts))]
}

func c03RandNumber(rng *rand.Rand) string {
	switch rng.Intn(6) {
	case 0:
		return "0"
	case 1:
		return fmt.Sprintf("-%d", rng.Intn(1000))
	case 2:
		return fmt.Sprintf("%d.%d", rng.Intn(100), rng.Intn(100))
	case 3:
		return fmt.Sprintf("%de%d", 1+rng.Intn(9), rng.Intn(5))
	case 4:
		return fmt.Sprintf("%d.5E-%d", rng.Intn(10), 1+rng.Intn(3))
	default:
		return fmt.Sprintf("%d", rng.Intn(100000))
	}
}

func c03RandValue(rng *rand.Rand, depth int) string {
	top := 7
	if depth >= 3 {
		top = 4
	}
	inner := func() string {
		if rng.Intn(4) == 0 {
			return c03RandWS(rng, true)
		}
		return ""
	}
	switch rng.Intn(top) {
	case 0:
		return c03RandNumber(rng)
	case 1:
		return c03RandString(rng)
	case 2:
		return []string{"true", "false", "null"}[rng.Intn(3)]
	case 3:
		return []string{"[]", "{}", "[ ]", "{ }"}[rng.Intn(4)]
	case 4, 5:
		n := 1 + rng.Intn(4)
		parts := make([]string, n)
		for i := range parts {
			parts[i] = inner() + c03RandValue(rng, depth+1) + inner()
		}
		return "[" + strings.Join(parts, ",") + "]"
	default:
		return "{" + inner() + c03RandString(rng) + inner() + ":" + inner() + c03RandValue(rng, depth+1) + inner() + "}"
	}
}

func c03IsNumText(s string) bool { return s != "" && (s[0] == '-' || (s[0] >= '0' && s[0] <= '9')) }

// a stream of n values; whitespace between values may be empty where that is unambiguous
func c03RandStream(rng *rand.Rand, n int) []byte {
	var sb strings.Builder
	if rng.Intn(4) == 0 {
		sb.WriteString(c03RandWS(rng, false))
	}
	prevNum := false
	for i := 0; i < n; i++ {
		v := c03RandValue(rng, 0)
		if i > 0 {
			sb.WriteString(c03RandWS(rng, !(prevNum && c03IsNumText(v))))
		}
		sb.WriteString(v)
		prevNum = c03IsNumText(v)
	}
	if rng.Intn(3) > 0 {
		sb.WriteString(c03RandWS(rng, false))
	}
	return []byte(sb.String())
}

func c03RandChunks(rng *rand.Rand, total int) []int {
	mode := rng.Intn(6)
	if total > 600 && mode == 0 {
		mode = 1
	}
	var out []int
	for sum := 0; sum < total; {
		var n int
		switch mode {
		case 0:
			n = 1
		case 1:
			n = 1 + rng.Intn(8)
		case 2:
			n = 1 + rng.Intn(64)
		case 3:
			n = 400 + rng.Intn(1200)
		case 4:
			n = 512 + rng.Intn(3) - 1
		default:
			switch rng.Intn(3) {
			case 0:
				n = 1 + rng.Intn(4)
			case 1:
				n = 1 + rng.Intn(100)
			default:
				n = 500 + rng.Intn(600)
			}
		}
		out = append(out, n)
		sum += n
	}
	return out
}

type c03Trace struct {
	in     c03TraceIn
	lines  []string // NDJSON lines of this run, "reset" first
	class  string
	k      int
	result Result
}

// c03MakeTrace turns the recorded events into trace lines.  bad != "" is a
// violation found on the way (output not at a value boundary, wrong content).
func c03MakeTrace(in c03TraceIn, r *Result) (lines []string, k int, bad string) {
	var tab struct {
		Cum  []int  `json:"cum"`
		Outs []byte `json:"outs"`
	}
	if len(r.Out) != 1 || json.Unmarshal([]byte(r.Out[0]), &tab) != nil {
		infra("c03trace: no table in result: %s %s", r.Class, r.Detail)
	}
	m := &c03Model{cum: tab.Cum, outs: tab.Outs}
	emit := func(v any) {
		b, _ := json.Marshal(v)
		lines = append(lines, string(b))
	}
	emit(map[string]any{"e": "reset", "stream": c03Syms(in.Data), "fault": in.Fault})
	inValue := false
	flush := func() {
		if inValue {
			emit(map[string]any{"e": "proc"})
			inValue = false
		}
	}
	for _, e := range r.Events {
		switch e.E {
		case "ReadCall":
			flush()
			kk := m.countFor(e.B)
			if kk < 0 || e.B > len(r.Stdout) || !bytes.Equal(r.Stdout[:e.B], m.outs[:e.B]) {
				return nil, -1, fmt.Sprintf("at a Read call with %d bytes delivered the %d bytes of output are not the output of a whole number of leading values", e.A, e.B)
			}
			emit(map[string]any{"e": "rc", "d": e.A, "p": kk})
		case "ReadRet":
			if e.S == "" {
				emit(map[string]any{"e": "rr", "n": e.A})
			} else {
				emit(map[string]any{"e": "re", "s": e.S})
			}
		case "Decoded":
			flush()
			emit(map[string]any{"e": "dec"})
			inValue = true
		}
	}
	flush()
	k = m.countFor(len(r.Stdout))
	if k < 0 || len(r.Stdout) > len(m.outs) || !bytes.Equal(r.Stdout, m.outs[:len(r.Stdout)]) {
		return nil, -1, "stdout is not the concatenation of the outputs of the first k values processed one after another"
	}
	emit(map[string]any{"e": "end", "class": r.Class, "p": k})
	return lines, k, ""
}

func c03TraceCfg(devs string) string {
	return cfgText("INIT Init", "NEXT Next", "CONSTANT Deviations = "+devs,
		"INVARIANT TypeOK", "INVARIANT Incremental", "INVARIANT NoSpeculation", "INVARIANT ChunkIndependent",
		"INVARIANT FaultReported", "INVARIANT EndsStopped", "POSTCONDITION Accepted", "CHECK_DEADLOCK FALSE")
}

// c03Validate runs TLC on the concatenated traces.  Returns -1 if accepted,
// else the index of the trace in which validation stopped.
func c03Validate(c *Ctx, traces []*c03Trace, devs string) int {
	var sb strings.Builder
	starts := []int{}
	n := 0
	for _, t := range traces {
		starts = append(starts, n+1)
		for _, l := range t.lines {
			sb.WriteString(l)
			sb.WriteByte('\n')
			n++
		}
	}
	res := c.TLC(TLCOpt{Module: "Trace_Stream", Cfg: c03TraceCfg(devs), Workers: 1, Heap: "6g", AllowErr: true,
		Files: map[string]string{"c03trace.ndjson": sb.String()}, Timeout: 15 * time.Minute})
	if res.OK {
		return -1
	}
	// the line at which no action of JqStream matched (or an invariant failed in the successor state)
	line := 0
	all := strings.Join(res.Output, "\n") + "\n" + strings.Join(res.Errors, "\n")
	if i := strings.Index(all, "TRACE-REJECTED-AT-LINE"); i >= 0 {
		fmt.Sscanf(strings.NewReplacer("\"", " ", ",", " ", "<<", " ", ">>", " ").Replace(all[i+len("TRACE-REJECTED-AT-LINE"):]), "%d", &line)
	} else {
		infra("Trace_Stream failed without a verdict:\n%s", all)
	}
	idx := 0
	for i, s := range starts {
		if s <= line {
			idx = i
		}
	}
	return idx
}

// ---------------------------------------------------------------------------

func checkC03(c *Ctx) {
	c.Assume("whether a value that ends exactly where the delivered bytes end (array, object, string, literal) is already processed is open; a number touching the end of the delivered bytes counts as complete only at a true end of input")
	c.Assume("error message text is not compared, only the kind (JsonError) and the file it names")
	c.Assume("when an I/O error follows a value that ends exactly at the fault position, processing that value first or not are both accepted (the same for every chunking)")
	c.Assume("how promptly a malformed byte already read is reported is open (reading on before reporting it is allowed)")
	c.Assume("what a value text denotes is encoding/json's business: the model's scanner only decides where values end and whether the stream is well formed, and is itself cross-checked against encoding/json on every vector")
	c.Assume("the output of a value is taken from the real code processing that value alone (the statement's equivalence); rendering is owned by C17; objects in random streams have at most one key")
	c.Assume("an input that cannot even be opened (missing file) is refused by the command line before anything runs; only inputs that open and then fail to read (a directory) are compared in the two-inputs case")
	c.Assume("streams with a value of 70-200 KiB are outside TLC's byte-level model: their expectation is the Go port of Expected/MustCount/MayCount, which is compared with TLC's tables on every vector")
	c.Assume("byte alphabet of the exhaustive model: the bytes of 9 value texts, three separators and 7 substitution bytes; other bytes only through the random streams of binding B")
	pool := c.Pool()
	open := c.OpenDev(c03Dev)
	// the shortest (then smallest) witness is reported, so that the line does not depend on scheduling
	devWitness, devCases := "", 0
	noteDev := func(w string) {
		devCases++
		c.Count("known_finding_cases", 1)
		if devWitness == "" || len(w) < len(devWitness) || (len(w) == len(devWitness) && w < devWitness) {
			devWitness = w
		}
	}

	handle := func(probs []string) (viol bool) {
		for _, o := range probs {
			var p c03Problem
			if err := json.Unmarshal([]byte(o), &p); err != nil {
				infra("bad problem: %v", err)
			}
			switch p.Kind {
			case "model":
				infra("C03 model problem %s: %v", p.Name, p.Detail)
			case "inconclusive":
				c.Count("inconclusive", 1)
			case "skip":
				c.Count("skipped_"+p.Name, 1)
			case "dev":
				if open {
					noteDev(fmt.Sprintf("stream %q fault %v: status ok after %v value(s)", p.Detail["stream"], p.Detail["fault"], p.Detail["processed"]))
				} else {
					viol = true
					c.Violation("fault-swallowed", p.Detail)
				}
			default:
				viol = true
				c.Violation(p.Name, p.Detail)
			}
		}
		return viol
	}

	// ---- (F) output of arbitrary shape (JqStreamOut); runs beside (A).  Never reports a deviation.
	outsDone := make(chan struct{})
	go func() {
		defer close(outsDone)
		c03Outs(c, handle)
	}()

	// ---- (A) exhaustive model, vectors replayed
	maxVals, mod2, mod3, pairs := 3, 4, 700, "TRUE"
	if c.Thorough() {
		mod2, mod3 = 1, 24
	}
	salt := int((c.Seed%1000+1000)%1000)*7 + 1
	nvec := 0
	t0 := time.Now()
	st := pool.NewStream(func(j *Job, r Result) {
		var v c03Vec
		VecDecode([]byte(j.Tag), &v)
		data := c03Bytes(v.Stream)
		switch r.Class {
		case "ok":
		case "timeout":
			c.Count("inconclusive", 1)
			return
		default:
			c.Violation("crash", map[string]any{"stream": string(data), "fault": v.Fault, "class": r.Class, "detail": r.Detail})
			return
		}
		handle(r.Out)
		c.Count("runs", int64(r.Depth))
		key := fmt.Sprintf("%s|%s|%d", data, v.Fault.Kind, v.Fault.At)
		c.Case(key, len(v.Vals) >= 1 && (v.Fault.Kind != "none" || v.Err != 0 || v.Open || len(v.Vals) >= 2))
		nvec++
		if nvec%9973 == 1 {
			c.Sample(map[string]any{"family": "vector", "stream": string(data), "fault": v.Fault, "value_spans": v.Vals,
				"expected": v.Exp, "must_per_delivered": v.Must, "may_per_delivered": v.May, "chunkings": len(v.Cutsets)})
		}
	})
	res := c.TLC(TLCOpt{Module: "MC_Stream", Workers: 12, Heap: "6g",
		Cfg: cfgText("INIT Init", "NEXT Next", "CONSTANTS", "Deviations = {}",
			fmt.Sprintf("MaxVals = %d", maxVals), fmt.Sprintf("Mod2 = %d", mod2), fmt.Sprintf("Mod3 = %d", mod3),
			fmt.Sprintf("Salt = %d", salt), "WithPairs = "+pairs,
			"INVARIANT BuildLaw", "INVARIANT ScanLaws", "INVARIANT InvTypeOK", "INVARIANT InvIncremental",
			"INVARIANT InvNoSpeculation", "INVARIANT InvChunkIndependent", "INVARIANT InvFaultReported",
			"INVARIANT Terminates", "INVARIANT Vec", "CHECK_DEADLOCK FALSE"),
		OnVec: func(raw []byte) {
			st.Submit(Job{Kind: "c03vec", Tag: string(raw)})
		}})
	st.Wait()
	c.Set("vectors", res.Vectors)
	c.Set("wall_A_s", time.Since(t0).Seconds())

	// ---- (E) whole runs: program shape x selectors x inputs and their endings (JqStreamRun); runs beside
	// (B), whose TLC runs use one worker.  Family (E) never reports a deviation, so handle is safe to share.
	runsDone := make(chan struct{})
	go func() {
		defer close(runsDone)
		c03Runs(c, handle)
	}()

	// the model with the deviation enabled must still satisfy every invariant but FaultReported's strict half
	// (checked once, small: one-value streams)
	c.TLC(TLCOpt{Module: "MC_Stream", Workers: 8, Heap: "4g",
		Cfg: cfgText("INIT Init", "NEXT Next", "CONSTANTS", "Deviations = {\""+c03Dev+"\"}",
			"MaxVals = 1", "Mod2 = 1", "Mod3 = 1", "Salt = 0", "WithPairs = FALSE",
			"INVARIANT InvTypeOK", "INVARIANT InvIncremental", "INVARIANT InvNoSpeculation", "INVARIANT InvChunkIndependent",
			"INVARIANT InvFaultReported", "INVARIANT Terminates", "CHECK_DEADLOCK FALSE")})

	c.Set("wall_A_dev_s", time.Since(t0).Seconds())

	// ---- (B) random JSONL streams, traces validated by Trace_Stream
	rng := rand.New(rand.NewSource(c.Seed*1000003 + 17))
	nClean, nEOF, nIO := 24, 8, 8
	if c.Thorough() {
		nClean, nEOF, nIO = 160, 50, 50
	}
	ins := []c03TraceIn{
		{Data: []byte("[1] [2] \n\"x\" 7 "), Fault: c03Fault{Kind: "none"}},
		{Data: []byte("[1] [2] "), Fault: c03Fault{Kind: "eof", At: 6}},
	}
	for i := 0; i < nClean+nEOF+nIO; i++ {
		nv := 1 + rng.Intn(40)
		if i%4 == 0 {
			nv = 100 + rng.Intn(101)
		}
		if i%7 == 3 {
			nv = rng.Intn(3)
		}
		data := c03RandStream(rng, nv)
		in := c03TraceIn{Data: data, Fault: c03Fault{Kind: "none"}}
		switch {
		case i >= nClean+nEOF:
			in.Fault = c03Fault{Kind: "ioerr", At: rng.Intn(len(data) + 1)}
		case i >= nClean:
			in.Fault = c03Fault{Kind: "eof", At: rng.Intn(len(data) + 1)}
		}
		lim := len(data)
		if in.Fault.Kind != "none" {
			lim = in.Fault.At
		}
		in.Chunks = c03RandChunks(rng, lim)
		ins = append(ins, in)
	}
	jobs := make([]Job, len(ins))
	for i, in := range ins {
		b, _ := json.Marshal(in)
		jobs[i] = Job{Kind: "c03trace", Tag: string(b)}
	}
	traces := make([]*c03Trace, len(ins))
	events := 0
	pool.Map(jobs, func(i int, r Result) {
		in := ins[i]
		rep := map[string]any{"stream": string(in.Data), "stream_bytes": in.Data, "chunks": in.Chunks, "fault": in.Fault,
			"program": string(c03Prog), "got_class": r.Class, "got_msg": r.ErrMsg + r.Detail}
		switch r.Class {
		case "ok", "json":
		case "budget", "timeout":
			c.Count("inconclusive", 1)
			return
		case "other":
			if strings.HasPrefix(r.Detail, "bad trace job") {
				infra("c03trace: %s", r.Detail)
			}
			if strings.HasPrefix(r.Detail, "single: ") {
				// a value of the stream, processed as the only value of an input, fails or prints nothing
				rep["why"] = strings.TrimPrefix(r.Detail, "single: ")
				c.Violation("single-value", rep)
				return
			}
			c.Violation("trace-class", rep)
			return
		default:
			c.Violation("trace-class", rep)
			return
		}
		lines, k, bad := c03MakeTrace(in, &r)
		if bad != "" {
			rep["why"] = bad
			c.Violation("trace-output", rep)
			return
		}
		if r.Class == "json" && r.FileName != c03File {
			rep["why"] = "JsonError does not name the file"
			c.Violation("json-error-file", rep)
			return
		}
		traces[i] = &c03Trace{in: in, lines: lines, class: r.Class, k: k, result: r}
		events += len(lines)
	})
	var batch []*c03Trace
	for _, t := range traces {
		if t != nil {
			batch = append(batch, t)
		}
	}
	c.Set("trace_events", events)
	maxStream, maxChunk := 0, 0
	for _, t := range batch {
		if len(t.in.Data) > maxStream {
			maxStream = len(t.in.Data)
		}
		for _, n := range t.in.Chunks {
			if n > maxChunk {
				maxChunk = n
			}
		}
	}
	validated := 0
	for guard := 0; len(batch) > 0; guard++ {
		if guard > 40 {
			infra("too many rejected traces")
		}
		bad := c03Validate(c, batch, "{}")
		if bad < 0 {
			validated += len(batch)
			break
		}
		validated += bad
		t := batch[bad]
		// localise: alone, strictly; then with the open deviations
		rep := map[string]any{"stream": string(t.in.Data), "stream_bytes": t.in.Data, "chunks": t.in.Chunks, "fault": t.in.Fault,
			"program": string(c03Prog), "got_class": t.class, "processed": t.k, "trace": t.lines[1:]}
		if c03Validate(c, []*c03Trace{t}, "{}") < 0 {
			infra("trace rejected in the batch but accepted alone")
		}
		if open && c03Validate(c, []*c03Trace{t}, "{\""+c03Dev+"\"}") < 0 {
			noteDev(fmt.Sprintf("random stream of %d bytes, %s@%d: status ok after %d value(s)", len(t.in.Data), t.in.Fault.Kind, t.in.Fault.At, t.k))
			validated++
		} else {
			c.Violation("trace-rejected", rep)
		}
		batch = batch[bad+1:]
	}
	for i := 0; i < validated; i++ {
		c.Case(fmt.Sprintf("trace:%d:%d", c.Seed, i), true)
	}
	c.Set("traces_validated_by_tlc", validated)

	c.Set("wall_AB_s", time.Since(t0).Seconds())
	// the validator must reject corrupted traces (self-test of binding B)
	c03SelfTest(c, traces[0], traces[1])

	c.Set("wall_ABself_s", time.Since(t0).Seconds())
	// ---- (D) one large value among small ones
	nBig := 5
	if c.Thorough() {
		nBig = 30
	}
	var bigJobs []Job
	var bigIns []c03BigIn
	for i := 0; i < nBig; i++ {
		nSmall := 2 + rng.Intn(5)
		pos := []int{0, nSmall / 2, nSmall}[i%3] // first, middle, last
		if i >= 3 && i%3 == 1 {
			pos = 1 + rng.Intn(nSmall-1)
		}
		in := c03BigJob(rng, pos, nSmall, (i/3+i)%3)
		b, _ := json.Marshal(in)
		bigIns = append(bigIns, in)
		bigJobs = append(bigJobs, Job{Kind: "c03big", Tag: string(b)})
	}
	pool.Map(bigJobs, func(i int, r Result) {
		switch r.Class {
		case "ok":
		case "timeout":
			c.Count("inconclusive", 1)
			return
		default:
			c.Violation("big-crash", map[string]any{"stream": bigIns[i].Desc, "class": r.Class, "detail": r.Detail})
			return
		}
		handle(r.Out)
		c.Count("big_value_runs", int64(r.Depth))
		c.Case("big:"+bigIns[i].Desc, true)
		if i == 0 {
			c.Sample(map[string]any{"family": "large value", "stream": bigIns[i].Desc, "runs": len(bigIns[i].Runs)})
		}
	})
	c.Set("wall_ABselfD_s", time.Since(t0).Seconds())
	<-runsDone
	<-outsDone

	// ---- (C) the compiled binary, blocking between values: stdin pipe, named FIFO as a file argument; two inputs
	nPipe, nTwo := 4, 2
	if c.Thorough() {
		nPipe, nTwo = 40, 12
	}
	c03Pipe(c, rng, nPipe)
	c03TwoInputs(c, rng, nTwo)
	nKinds := 4
	if c.Thorough() {
		nKinds = 24
	}
	c03StdinKinds(c, rng, nKinds)

	if devCases > 0 {
		c.Known(c03Dev, fmt.Sprintf("`for d.More()` in EvalProgram ends the run with status ok on a stray ']' or '}' between values and on a reader error that falls between two values (%d cases; witness: %s)", devCases, devWitness))
	}
	c.Set("exhaustive", true)
	c.Set("rule", "TLC enumerates every stream of <= 2 values (thorough: all; quick: a seeded third) and a seeded slice of 3-value streams from 9 value texts x separators, "+
		"x {no fault, every truncation point, every ioerr position, every single-byte substitution from 7 bytes}, with EVERY chunking in the model; "+
		"each (stream, fault) is replayed under the boundary-relevant chunkings (one chunk, one byte per read, cuts at/before/after each value end and at the malformed byte, and their pairs); "+
		"a case is non-trivial when the stream has a value and either a fault/corruption or a second value; distinct by (stream, fault); random traces, large-value streams, pipe / FIFO / two-input runs count as non-trivial; "+
		"family E (MC_StreamRun): all 32 program shapes x 12 input endings x one/two inputs, 8 selector lists x streams of 1..3 array values (seeded slice in quick), 12 kinds of top-level value at every position of 1..3-value streams (seeded slice), "+
		"each run through JqStreamRun's machine and replayed under 3 chunkings; non-trivial when an input is faulty, two values are processed or a selector is used")
	c.Set("checker_cmd", "tlc MC_Stream (invariants + vectors) ; tlc MC_StreamRun (invariants + vectors) ; tlc Trace_Stream -workers 1 (POSTCONDITION Accepted); replay through lang.EvalProgram with the scheduled reader; binary over a stdin pipe, a named FIFO argument, and with two inputs")
	c.Set("bounds", map[string]any{"MaxVals": maxVals, "Mod2": mod2, "Mod3": mod3, "Salt": salt, "random_traces": len(ins),
		"max_random_stream_bytes": maxStream, "max_chunk": maxChunk, "large_value_streams": nBig, "pipe_and_fifo_streams": nPipe, "two_input_runs": nTwo})
}

// c03SelfTest: the traces recorded for two fixed inputs are corrupted in three
// ways and Trace_Stream must reject each: (1) a value processed before its bytes
// were delivered, (2) a Read call (and the end) while a complete value and a
// following byte lie unprocessed, (3) a truncated stream reported as status ok.
func c03SelfTest(c *Ctx, good, trunc *c03Trace) {
	if good == nil || trunc == nil {
		c.mu.Lock()
		nviol := len(c.violations)
		c.mu.Unlock()
		if nviol > 0 {
			return // the fixed inputs already failed on the real code (reported above)
		}
		infra("self-test: fixed traces missing")
	}
	find := func(lines []string, what string, last bool) int {
		at := -1
		for i, l := range lines {
			if strings.Contains(l, `"e":"`+what+`"`) {
				at = i
				if !last {
					break
				}
			}
		}
		return at
	}
	setP := func(line string, delta int) string {
		var ev map[string]any
		json.Unmarshal([]byte(line), &ev)
		ev["p"] = int(ev["p"].(float64)) + delta
		b, _ := json.Marshal(ev)
		return string(b)
	}
	li := find(good.lines, "dec", true)
	rc := find(good.lines, "rc", false)
	if li < 0 || rc < 0 || li+1 >= len(good.lines) || !strings.Contains(good.lines[li+1], `"e":"proc"`) || li < rc {
		infra("self-test: unexpected shape of the recorded trace: %v", good.lines[1:])
	}
	// (1)
	var spec []string
	spec = append(spec, good.lines[0], good.lines[li], good.lines[li+1])
	spec = append(spec, good.lines[1:li]...)
	spec = append(spec, good.lines[li+2:]...)
	if c03Validate(c, []*c03Trace{{lines: spec}}, "{}") < 0 {
		infra("self-test: Trace_Stream accepted a trace in which a value is processed before it was delivered")
	}
	// (2)
	var lazy []string
	for i, l := range good.lines {
		if i == li || i == li+1 {
			continue
		}
		if i > li && (strings.Contains(l, `"e":"rc"`) || strings.Contains(l, `"e":"end"`)) {
			l = setP(l, -1)
		}
		lazy = append(lazy, l)
	}
	if c03Validate(c, []*c03Trace{{lines: lazy}}, "{}") < 0 {
		infra("self-test: Trace_Stream accepted a Read call while a complete value and a following byte were unprocessed")
	}
	// (3)
	if trunc.class != "json" {
		return // the real code already fails here; reported by the main validation
	}
	ls := append([]string{}, trunc.lines...)
	ls[len(ls)-1] = strings.Replace(ls[len(ls)-1], `"class":"json"`, `"class":"ok"`, 1)
	if c03Validate(c, []*c03Trace{{lines: ls}}, "{}") < 0 {
		infra("self-test: Trace_Stream accepted status ok for a truncated stream")
	}
	c.Set("selftest", "3 corrupted traces (value processed before delivery; Read call with a complete value unprocessed; truncation reported as ok) rejected by Trace_Stream")
}

// c03Pipe: the binary reads stdin from a pipe; each value is sent with one
// following byte and its output is awaited before the next value is sent.
func c03Pipe(c *Ctx, rng *rand.Rand, n int) {
	pool := c.Pool()
	for i := 0; i < n; i++ {
		nv := 2 + rng.Intn(5)
		texts := make([]string, nv)
		jobs := make([]Job, nv)
		for k := range texts {
			texts[k] = c03RandValue(rng, 1)
			jobs[k] = Job{Kind: "run", Prog: c03PipeProg, Files: []FileIn{{Name: "<stdin>", Data: []byte(texts[k])}}}
		}
		outs := make([][]byte, nv)
		okAll := true
		pool.Map(jobs, func(k int, r Result) {
			okAll = c03SingleOK(c, texts[k], r) && okAll
			outs[k] = r.Stdout
		})
		if !okAll {
			continue
		}
		// alternately: stdin from a pipe / a named FIFO passed as a file argument
		fifo := ""
		if i%2 == 1 {
			fifo = filepath.Join(c.TempDir("c03fifo"), fmt.Sprintf("in%d.fifo", i))
			os.Remove(fifo)
			if err := syscall.Mkfifo(fifo, 0o600); err != nil {
				infra("mkfifo: %v", err)
			}
		}
		// the FIFO is either held open by the harness before the binary starts (its open returns at once), or the
		// producer connects only after the binary has been started and sits in open(2) (blocking before the first byte)
		readerFirst := fifo != "" && i%4 == 3
		verdict, why := c03PipeOne(c, texts, outs, fifo, readerFirst)
		switch verdict {
		case "violation":
			name, how := "pipe-incremental", "stdin is a pipe"
			if fifo != "" {
				name, how = "fifo-incremental", "the input is a named FIFO passed as a file argument"
			}
			if readerFirst {
				name, how = "fifo-reader-first", "the input is a named FIFO passed as a file argument; its producer connects after the binary was started"
			}
			c.Violation(name, map[string]any{"values": texts, "program": string(c03PipeProg), "input": how, "why": why})
		case "inconclusive":
			c.Count("inconclusive", 1)
		default:
			c.Case(fmt.Sprintf("pipe:%v:", fifo != "")+strings.Join(texts, "\n"), true)
			if fifo != "" {
				c.Count("fifo_runs", 1)
			} else {
				c.Count("pipe_runs", 1)
			}
		}
	}
}

var c03PipeProg = []byte("ENDFILE { print 'e', json($) }")

// c03SingleOK: r is the run of c03PipeProg on the well-formed value text alone.
// It must end well and print something (the ENDFILE rule runs once for every value, whatever its kind).
func c03SingleOK(c *Ctx, text string, r Result) bool {
	switch {
	case r.Class == "budget" || r.Class == "timeout":
		c.Count("inconclusive", 1)
		return false
	case r.Class != "ok" || len(r.Stdout) == 0:
		c.Violation("single-value", map[string]any{"program": string(c03PipeProg), "input": text, "got_class": r.Class, "got_msg": r.ErrMsg,
			"got_stdout": string(r.Stdout), "why": "a well-formed value as the only value of an input: the run fails or the ENDFILE rule prints nothing"})
		return false
	}
	return true
}

// fifo == "": the values go to the binary's stdin; else to the named FIFO, which is the binary's only file argument
func c03PipeOne(c *Ctx, texts []string, outs [][]byte, fifo string, readerFirst bool) (verdict, why string) {
	var cmd *exec.Cmd
	var stdin io.WriteCloser
	var err error
	if fifo == "" {
		cmd = exec.Command(c.Bin(), string(c03PipeProg))
		stdin, err = cmd.StdinPipe()
		if err != nil {
			infra("pipe: %v", err)
		}
	} else {
		cmd = exec.Command(c.Bin(), string(c03PipeProg), fifo)
		cmd.Stdin = bytes.NewReader(nil)
		defer os.Remove(fifo)
		if !readerFirst {
			// O_RDWR never blocks in open and keeps the FIFO from reporting end of input until it is closed here
			f, ferr := os.OpenFile(fifo, os.O_RDWR, 0)
			if ferr != nil {
				infra("open fifo: %v", ferr)
			}
			stdin = f
		}
	}
	stdout, err := cmd.StdoutPipe()
	if err != nil {
		infra("pipe: %v", err)
	}
	var stderr bytes.Buffer
	cmd.Stderr = &stderr
	if err := cmd.Start(); err != nil {
		infra("start binary: %v", err)
	}
	type chunk struct {
		b   []byte
		err error
	}
	ch := make(chan chunk, 64)
	go func() {
		rd := bufio.NewReader(stdout)
		for {
			buf := make([]byte, 4096)
			n, err := rd.Read(buf)
			if n > 0 {
				ch <- chunk{buf[:n], nil}
			}
			if err != nil {
				ch <- chunk{nil, err}
				return
			}
		}
	}()
	defer func() {
		if stdin != nil {
			stdin.Close()
		}
		cmd.Process.Kill()
		cmd.Wait()
	}()
	var got []byte
	want := 0
	if readerFirst {
		// the producer arrives late: the write end can be opened (without blocking) only once a reader has the FIFO open
		time.Sleep(300 * time.Millisecond)
		deadline := time.Now().Add(20 * time.Second)
		for stdin == nil {
			fd, oerr := syscall.Open(fifo, syscall.O_WRONLY|syscall.O_NONBLOCK, 0)
			if oerr == nil {
				syscall.SetNonblock(fd, false)
				stdin = os.NewFile(uintptr(fd), fifo)
				break
			}
			ended := false
			select {
			case x := <-ch:
				if x.err != nil {
					ended = true
				} else {
					got = append(got, x.b...)
				}
			default:
			}
			if ended && stderr.Len() == 0 {
				// no reader on the FIFO and the run is over without an error: the stream the producer was about to write is lost
				return "violation", fmt.Sprintf("the run ended (stdout %q, nothing on stderr) before the producer had connected to the FIFO: an input whose bytes had not arrived yet was taken for an empty input", got)
			}
			if ended || time.Now().After(deadline) {
				return "inconclusive", "the binary did not open the FIFO: " + stderr.String()
			}
			time.Sleep(20 * time.Millisecond)
		}
	}
	// wait until len(got) >= want or the deadline passes; false on timeout / end of output
	await := func(d time.Duration) bool {
		deadline := time.After(d)
		for len(got) < want {
			select {
			case x := <-ch:
				if x.err != nil {
					return false
				}
				got = append(got, x.b...)
			case <-deadline:
				return false
			}
		}
		return true
	}
	var all []byte
	for k, t := range texts {
		if _, err := io.WriteString(stdin, t+"\n"); err != nil {
			return "inconclusive", "write: " + err.Error()
		}
		all = append(all, outs[k]...)
		want = len(all)
		if !await(30 * time.Second) {
			// did the output arrive once more input / the end of input was sent?
			stdin.Close()
			late := await(10 * time.Second)
			if late && bytes.Equal(got[:want], all) {
				return "violation", fmt.Sprintf("the output of value %d (%q) was written only after later input / end of input arrived, although the value and a following newline had been sent 30 s before", k+1, t)
			}
			return "inconclusive", "no output within the timeout: " + stderr.String()
		}
		if !bytes.Equal(got[:want], all) {
			return "violation", fmt.Sprintf("after value %d the output is %q, expected %q", k+1, got, all)
		}
	}
	stdin.Close()
	// nothing more may follow, and the exit status is 0
	for {
		x := <-ch
		if x.err != nil {
			break
		}
		got = append(got, x.b...)
	}
	if !bytes.Equal(got, all) {
		return "violation", fmt.Sprintf("final output %q, expected %q", got, all)
	}
	return "ok", ""
}

// c03TwoInputs: `jqawk prog good.json dir`: the second input opens but cannot
// be read.  Every value of the first file must have been processed (its output
// on stdout) before the error, which names the unreadable input; exit status non-zero.
func c03TwoInputs(c *Ctx, rng *rand.Rand, n int) {
	pool := c.Pool()
	dir := c.TempDir("c03two")
	bad := filepath.Join(dir, "unreadable.d")
	os.MkdirAll(bad, 0o755)
	for i := 0; i < n; i++ {
		nv := 1 + rng.Intn(5)
		texts := make([]string, nv)
		jobs := make([]Job, nv)
		var sb strings.Builder
		for k := range texts {
			texts[k] = c03RandValue(rng, 1)
			jobs[k] = Job{Kind: "run", Prog: c03PipeProg, Files: []FileIn{{Name: "x", Data: []byte(texts[k])}}}
			sb.WriteString(texts[k])
			sb.WriteString(c03RandWS(rng, false))
		}
		var want []byte
		outs := make([][]byte, nv)
		okAll := true
		pool.Map(jobs, func(k int, r Result) {
			okAll = c03SingleOK(c, texts[k], r) && okAll
			outs[k] = r.Stdout
		})
		if !okAll {
			continue
		}
		for _, o := range outs {
			want = append(want, o...)
		}
		good := filepath.Join(dir, fmt.Sprintf("good%d.json", i))
		if err := os.WriteFile(good, []byte(sb.String()), 0o644); err != nil {
			infra("write: %v", err)
		}
		r := c.RunBin([]string{string(c03PipeProg), good, bad}, nil, dir, 60*time.Second)
		rep := map[string]any{"command": fmt.Sprintf("jqawk %q good.json unreadable.d/", c03PipeProg), "good.json": sb.String(),
			"exit": r.Exit, "stdout": string(r.Stdout), "stderr": string(r.Stderr), "expected_stdout": string(want)}
		switch {
		case r.TimedOut:
			c.Count("inconclusive", 1)
		case r.Signaled || hasCrashMarks(r.Stderr):
			rep["why"] = "crash"
			c.Violation("two-inputs", rep)
		case !bytes.Equal(r.Stdout, want):
			rep["why"] = "the values of the first input were not all processed before the unreadable second input was reported"
			c.Violation("two-inputs", rep)
		case r.Exit == 0:
			rep["why"] = "an unreadable input ended the run with status 0"
			c.Violation("two-inputs", rep)
		case !strings.Contains(string(r.Stderr), bad):
			rep["why"] = "the error does not name the unreadable input"
			c.Violation("two-inputs", rep)
		default:
			c.Case("two:"+sb.String(), true)
			c.Count("two_input_runs", 1)
		}
	}
}
