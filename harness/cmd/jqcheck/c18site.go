package main

import (
	"bytes"
	"encoding/json"
	"fmt"
	"hash/fnv"
	"math/rand"
	"os"
	"path/filepath"
	"sort"
	"strconv"
	"strings"
	"sync"
	"time"
)

// C18, site family (MC_PrintfSites): printf emits its bytes wherever the call is evaluated.
//
// The model composes the site order of a run (BEGIN / per JSON value the root selectors / per round
// BEGINFILE, per element pattern and body of the rules, ENDFILE / END; inside the body a function
// body, a match arm, an argument of another call, a loop header) with the printf scanner of JqPrintf:
// every activation of a call runs the scanner afresh, its one write lands in the stdout of the RUN.
// A vector is one finished run: the configuration (which site holds which call, the selectors, the
// input shape) and the run's whole expected stdout as a sequence of markers and writes of calls.
// The harness renders the configuration to a program + selectors + files, runs it through
// lang.EvalProgram (selectors as its rootSelectors argument) and, for every configuration of families 1 and 3
// with a call in a selector (and a sample of the others), through the compiled binary with -r.

type c18sCall struct {
	F    []string `json:"f"`
	A    []string `json:"a"`
	None bool     `json:"none"`
}

type c18sSel struct {
	Shape string   `json:"shape"`
	C     c18sCall `json:"c"`
}

type c18sItem struct {
	T    string            `json:"t"`
	S    string            `json:"s"`
	Runs []json.RawMessage `json:"runs"`
}

type c18sVec struct {
	Fam  int                 `json:"fam"`
	Vals []int               `json:"vals"`
	Sels []c18sSel           `json:"sels"`
	At   map[string]c18sCall `json:"at"`
	Lazy bool                `json:"lazy"`
	Sens bool                `json:"sens"`
	Cls  string              `json:"cls"`
	Why  string              `json:"why"`
	Exp  []c18sItem          `json:"exp"`
}

var c18sProgSites = []string{"B", "BF", "PAT", "BODY", "FN", "ARM", "ARG", "LOOP", "EF", "E"}
var c18sAllSites = append(append([]string{}, c18sProgSites...), "S1", "S2", "S3")

// the rendering of one configuration
type c18sRun struct {
	key   string // the configuration without the reading
	prog  string
	sels  []string
	files []FileIn
	exp   []byte
	vec   c18sVec
	selPf bool // a selector holds a call
}

// literal bytes a site can be given: not '%', a digit, '-' or a directive letter
const c18sLetters = "ghjklmpqruwyzABCEGHJKLMNOPQRTUWXYZ"

func c18sRender(seed int64, v *c18sVec) *c18sRun {
	// the key leaves out the reading and the expectation
	kv := *v
	kv.Lazy, kv.Exp, kv.Cls, kv.Why = false, nil, "", ""
	kb, _ := json.Marshal(kv)
	key := string(kb)
	h := fnv.New64a()
	fmt.Fprintf(h, "%d|%s", seed, key)
	rng := rand.New(rand.NewSource(int64(h.Sum64())))
	in := c18NewInst(seed, "site|"+key, true)
	perm := rng.Perm(len(c18sLetters))
	letter := map[string]string{}
	for i, s := range c18sAllSites {
		letter[s] = string(c18sLetters[perm[i]])
	}
	long := strings.Trim(in.argSrc["L"], "'")
	argDoc := map[string]string{"S": "kS", "N": "kN", "L": "kL", "[1]": "kV"}
	doc := fmt.Sprintf(`{"a": [1, 2], "kS": %s, "kN": %s, "kL": %s, "kV": [1]}`, in.argJSON["S"], in.argJSON["N"], strconv.Quote(long))
	at := func(site string) {
		in.sym["x"], in.fmtSrc["x"] = []byte(letter[site]), letter[site]
	}
	// the source text of the call standing at a site; fromDoc: arguments read from the JSON value ($ is the value in a selector)
	callSrc := func(site string, call c18sCall, fromDoc bool) string {
		at(site)
		var sb strings.Builder
		sb.WriteString(`printf("`)
		for _, b := range call.F {
			if s, ok := in.fmtSrc[b]; ok {
				sb.WriteString(s)
			} else {
				sb.WriteString(b)
			}
		}
		sb.WriteString(`"`)
		for _, a := range call.A {
			src, ok := in.argSrc[a]
			if !ok {
				infra("C18 sites: unknown argument %q", a)
			}
			if f, has := argDoc[a]; has && fromDoc && rng.Intn(3) > 0 {
				src = "$." + f
			}
			sb.WriteString(", " + src)
		}
		sb.WriteString(")")
		return sb.String()
	}
	stmts := func(mark, site string) string {
		s := `print "` + mark + `"`
		if c := v.At[site]; !c.None {
			s += "; " + callSrc(site, c, false)
		}
		return s
	}
	expr := func(site, none string) string {
		if c := v.At[site]; !c.None {
			return callSrc(site, c, false)
		}
		return none
	}
	var p strings.Builder
	p.WriteString("function id(x) { return x }\n")
	p.WriteString("function fn() { " + stmts("fn", "FN") + "; return 0 }\n")
	p.WriteString("BEGIN { " + stmts("B", "B") + " }\n")
	p.WriteString("BEGINFILE { " + stmts("BF", "BF") + " }\n")
	if c := v.At["PAT"]; !c.None {
		p.WriteString("(" + callSrc("PAT", c, false) + " || 1) ")
	}
	p.WriteString("{ " + stmts("P1", "BODY") + "; fn(); x = (match (1) { 1 => " + expr("ARM", "0") + " }); y = id(" + expr("ARG", "0") +
		"); for (i = 0; (" + expr("LOOP", "0") + ` || 1) && i < 2; i++) print "it"; print "P1e" }` + "\n")
	p.WriteString(`{ print "P2" }` + "\n")
	p.WriteString("ENDFILE { " + stmts("EF", "EF") + " }\n")
	p.WriteString("END { " + stmts("E", "E") + " }\n")

	run := &c18sRun{key: key, prog: p.String(), vec: *v}
	for k, s := range v.Sels {
		site := fmt.Sprintf("S%d", k+1)
		var cs string
		if !s.C.None {
			cs = callSrc(site, s.C, true)
			run.selPf = true
		}
		switch s.Shape {
		case "doc":
			run.sels = append(run.sels, "$")
		case "arr":
			run.sels = append(run.sels, "$.a")
		case "pbare":
			run.sels = append(run.sels, cs)
		case "pobj":
			run.sels = append(run.sels, "{k: "+cs+"}")
		case "parr":
			if rng.Intn(2) == 0 {
				run.sels = append(run.sels, "["+cs+", 0]")
			} else {
				run.sels = append(run.sels, "[$.kN, "+cs+"]")
			}
		case "pmatch":
			run.sels = append(run.sels, "(match (1) { 1 => ({k: "+cs+"}) })")
		default:
			infra("C18 sites: unknown selector shape %q", s.Shape)
		}
	}
	names := []string{"in.json", "b.json", "c.json"}
	for i, n := range v.Vals {
		run.files = append(run.files, FileIn{Name: names[i], Data: []byte(strings.Repeat(doc+"\n", n))})
	}
	for _, it := range v.Exp {
		switch it.T {
		case "mark":
			run.exp = append(run.exp, it.S+"\n"...)
		case "out":
			at(it.S)
			b, _ := in.expand(it.Runs)
			run.exp = append(run.exp, b...)
		default:
			infra("C18 sites: unknown item %q", it.T)
		}
	}
	return run
}

func c18Sites(c *Ctx, pool *Pool) {
	c.Assume("site family: when a root selector is evaluated relative to the rounds of EARLIER selectors of the same JSON value is fixed by no statement: 'all selectors of a value, then its rounds' and 'each selector right before its own round' are both accepted, but ONE reading must explain every run; " +
		"a bare printf call as a selector relies on printf returning a value that is not an array (one round); the pattern / loop-header sites are written (printf(..) || 1) so that the value printf returns does not matter")
	var runs []*c18sRun
	big := "FALSE"
	if c.Thorough() {
		big = "TRUE"
	}
	c.TLC(TLCOpt{Module: "MC_PrintfSites", Workers: 8, Heap: "6g",
		Cfg: cfgText("INIT Init", "NEXT Next", "CONSTANT Big = "+big, "INVARIANT Laws", "INVARIANT Vec", "PROPERTY OutputGrows",
			"PROPERTY WriteLands", "PROPERTY ErrorEnds", "PROPERTY InOrder", "CHECK_DEADLOCK FALSE"),
		OnVec: func(raw []byte) {
			var v c18sVec
			VecDecode(raw, &v)
			if len(v.At) != len(c18sProgSites) || len(v.Exp) == 0 || len(v.Vals) == 0 {
				infra("C18 sites: malformed vector: %.200s", raw)
			}
			runs = append(runs, c18sRender(c.Seed, &v))
		}})
	sort.SliceStable(runs, func(i, j int) bool { return runs[i].key < runs[j].key })
	jobs := make([]Job, len(runs))
	for i, r := range runs {
		jobs[i] = Job{Kind: "run", Prog: []byte(r.prog), Sels: r.sels, Files: r.files, Budget: 5_000_000}
	}
	results := make([]Result, len(runs))
	pool.Map(jobs, func(i int, r Result) { results[i] = r })

	rep := func(r *c18sRun, res *Result) map[string]any {
		fs := []map[string]string{}
		for _, f := range r.files {
			fs = append(fs, map[string]string{"name": f.Name, "data": string(f.Data)})
		}
		sites := map[string]any{}
		for s, cl := range r.vec.At {
			if !cl.None {
				sites[s] = map[string]any{"fmt": cl.F, "args": cl.A}
			}
		}
		m := map[string]any{"family": r.vec.Fam, "program": r.prog, "selectors": r.sels, "files": fs, "model_sites": sites, "model_selectors": r.vec.Sels,
			"reading_each_selector_before_its_round": r.vec.Lazy, "expected_class": r.vec.Cls, "model_error": r.vec.Why,
			"expected_stdout": string(r.exp), "expected_bytes": r.exp}
		if res != nil {
			m["got_class"], m["got_stdout"], m["got_stdout_bytes"], m["got_msg"] = res.Class, string(res.Stdout), res.Stdout, res.ErrMsg
		}
		return m
	}
	matches := func(r *c18sRun, res *Result) bool {
		return res.Class == r.vec.Cls && bytes.Equal(res.Stdout, r.exp)
	}
	readMask := 3 // bit 0: all selectors first; bit 1: each selector before its round
	var nOK, nErr, nSkip, nSens, nBin, nSelRuns int
	perFam := map[int]int{}
	perSite := map[string]int{}
	errWhy := map[string]int{}
	type binCase struct{ r *c18sRun }
	var bins []binCase
	for i := 0; i < len(runs); {
		j := i
		for j < len(runs) && runs[j].key == runs[i].key {
			j++
		}
		group := runs[i:j]
		gres := results[i:j]
		i = j
		if len(group) > 2 || len(group) == 2 && (!group[0].vec.Sens || group[0].vec.Lazy == group[1].vec.Lazy) {
			infra("C18 sites: %d vectors for one configuration", len(group))
		}
		inconclusive := false
		for k := range group {
			if cl := gres[k].Class; cl == "budget" || cl == "timeout" {
				inconclusive = true
			}
			if cl := gres[k].Class; cl == "crash" || cl == "panic" {
				c.Violation("printf-site-crash", rep(group[k], &gres[k]))
				inconclusive = true
			}
		}
		if inconclusive {
			nSkip++
			continue
		}
		m := 0
		var good *c18sRun
		for k, r := range group {
			if matches(r, &gres[k]) {
				good = r
				if r.vec.Lazy {
					m |= 2
				} else {
					m |= 1
				}
			}
		}
		if len(group) == 1 {
			if m != 0 {
				m = 3 // the reading does not matter here
			}
		}
		if m == 0 {
			name := "printf-site-output"
			if gres[0].Class != group[0].vec.Cls {
				name = "printf-site-class"
			}
			c.Violation(name, rep(group[0], &gres[0]))
			continue
		}
		if len(group) == 2 {
			nSens++
			readMask &= m
			if readMask == 0 {
				c.Violation("printf-site-no-uniform-reading", rep(group[0], &gres[0]))
				readMask = 3
				continue
			}
		}
		v := &good.vec
		perFam[v.Fam]++
		if v.Cls == "ok" {
			nOK++
		} else {
			nErr++
			errWhy[v.Why]++
		}
		for s, cl := range v.At {
			if !cl.None {
				perSite[s]++
			}
		}
		for k, s := range v.Sels {
			if !s.C.None {
				perSite[fmt.Sprintf("S%d:%s", k+1, s.Shape)]++
			}
		}
		if good.selPf {
			nSelRuns++
		}
		c.Case("site:"+good.prog+"\x00"+strings.Join(good.sels, "\x00")+"\x00"+fmt.Sprint(v.Vals), true)
		if good.selPf && nSelRuns%97 == 5 || !good.selPf && (nOK+nErr)%397 == 11 {
			c.Sample(map[string]any{"family": "site", "program": good.prog, "selectors": good.sels, "stdout": string(good.exp), "class": v.Cls})
		}
		if good.selPf && v.Fam != 2 || (nOK+nErr)%8 == 3 {
			bins = append(bins, binCase{good})
		}
	}
	// the same runs through the compiled binary: files on disk, selectors with -r
	binDir := c.TempDir("c18-sites")
	defer os.RemoveAll(binDir)
	var mu sync.Mutex
	var wg sync.WaitGroup
	sem := make(chan struct{}, 8)
	for i, bc := range bins {
		wg.Add(1)
		sem <- struct{}{}
		go func(i int, r *c18sRun) {
			defer wg.Done()
			defer func() { <-sem }()
			dir := filepath.Join(binDir, strconv.Itoa(i))
			os.MkdirAll(dir, 0o755)
			defer os.RemoveAll(dir)
			args := []string{}
			for _, s := range r.sels {
				args = append(args, "-r", s)
			}
			args = append(args, r.prog)
			for _, f := range r.files {
				os.WriteFile(filepath.Join(dir, f.Name), f.Data, 0o644)
				args = append(args, f.Name)
			}
			br := c.RunBin(args, nil, dir, 60*time.Second)
			mu.Lock()
			defer mu.Unlock()
			if br.TimedOut {
				nSkip++
				return
			}
			nBin++
			if !bytes.Equal(br.Stdout, r.exp) || (br.Exit == 0) != (r.vec.Cls == "ok") || br.Signaled {
				m := rep(r, nil)
				m["binary_args"], m["binary_stdout"], m["binary_stdout_bytes"], m["binary_stderr"], m["binary_exit"] = args, string(br.Stdout), br.Stdout, string(br.Stderr), br.Exit
				c.Violation("printf-site-binary", m)
			}
		}(i, bc.r)
	}
	wg.Wait()

	reads := []string{}
	if readMask&1 != 0 {
		reads = append(reads, "all selectors of a value before its first round")
	}
	if readMask&2 != 0 {
		reads = append(reads, "each selector right before its own round")
	}
	c.Set("site_runs_ok", nOK)
	c.Set("site_runs_runtime_error", nErr)
	c.Set("site_runs_error_by_cause", errWhy)
	c.Set("site_runs_per_family", perFam)
	c.Set("site_runs_per_site_holding_a_call", perSite)
	c.Set("site_runs_with_a_call_in_a_selector", nSelRuns)
	c.Set("site_runs_where_selector_readings_differ", nSens)
	c.Set("site_runs_through_binary", nBin)
	c.Set("site_inconclusive", nSkip)
	c.Set("site_selector_readings_consistent_with_all_runs", reads)
	c.Set("site_rule", "MC_PrintfSites: the site order of a run composed with the printf scanner; family 1: ONE site of {BEGIN, BEGINFILE, rule pattern, rule body, function body, match arm, argument of a call, loop header (3 evaluations), ENDFILE, END} "+
		"or one root selector (bare call, object literal, array literal of 2, match arm; alone, after a plain selector, before an array selector) holds a call x every call of {7 that succeed: no / right / left / zero-led widths, %s %f %v %%, two arguments, no directive; "+
		"8 that fail: missing argument, wrong kind, unknown directive, dangling %, dangling width, width beyond the maximum, sign without digits, a field and then a missing argument; thorough: 3 with fields of 4096..5000 bytes} x inputs of 1 or 2 JSON values (thorough: also 2 files) "+
		"x no selector / an array selector; family 2: every ordered pair of the 12 sites x {both succeed, the first fails, the second fails}; family 3: every site holds a call at once x each succeeding call x {1 value, 2 values, 2 files} x 5 selector lists "+
		"(thorough: one site fails among calls that succeed). Expected stdout = the model's sequence of markers and writes; compared with the whole stdout and the outcome class of lang.EvalProgram, and of the binary (-r) for every run of families 1 and 3 with a call in a selector and every 8th other")
}
