package main

import (
	"encoding/json"
	"fmt"
	"math/rand"
	"os"
	"sort"
	"strconv"
	"strings"
	"sync"
	"time"
)

func init() { register("C09", checkC09) }

// ---------------------------------------------------------------------------
// Observable trees: what print / json() / -o show of a value.

type c09T struct {
	K string // num str bool null unset arr obj wild other
	N float64
	S string
	B bool
	A []*c09T
	O map[string]*c09T
}

// c09FromCompact decodes the spec's compact tree form (MC_Heap.Compact).
func c09FromCompact(v any) *c09T {
	switch x := v.(type) {
	case float64:
		return &c09T{K: "num", N: x}
	case bool:
		return &c09T{K: "bool", B: x}
	case string:
		if strings.HasPrefix(x, "~") {
			switch x {
			case "~null", "~missing", "~specnull":
				return &c09T{K: "null"}
			case "~unset":
				return &c09T{K: "unset"}
			case "~wild":
				return &c09T{K: "wild"}
			}
			return &c09T{K: "other", S: x}
		}
		return &c09T{K: "str", S: x}
	case []any:
		t := &c09T{K: "arr"}
		for _, e := range x {
			t.A = append(t.A, c09FromCompact(e))
		}
		return t
	case map[string]any:
		t := &c09T{K: "obj", O: map[string]*c09T{}}
		if m, ok := x["o"].(map[string]any); ok {
			for k, e := range m {
				t.O[k] = c09FromCompact(e)
			}
		}
		return t
	}
	return &c09T{K: "other", S: fmt.Sprint(v)}
}

// c09FromJSON converts decoded JSON (the -o document, json()) to a tree.
func c09FromJSON(v any) *c09T {
	switch x := v.(type) {
	case nil:
		return &c09T{K: "null"}
	case float64:
		return &c09T{K: "num", N: x}
	case bool:
		return &c09T{K: "bool", B: x}
	case string:
		return &c09T{K: "str", S: x}
	case []any:
		t := &c09T{K: "arr"}
		for _, e := range x {
			t.A = append(t.A, c09FromJSON(e))
		}
		return t
	case map[string]any:
		t := &c09T{K: "obj", O: map[string]*c09T{}}
		for k, e := range x {
			t.O[k] = c09FromJSON(e)
		}
		return t
	}
	return &c09T{K: "other"}
}

// c09ParsePrint parses one value in jqawk's print format. At top level a
// string is printed raw, so anything that is not a complete value of another
// kind is a string.
func c09ParsePrint(s string) *c09T {
	p := &c09Parser{s: s}
	t := p.value()
	if t != nil && p.i == len(s) {
		return t
	}
	return &c09T{K: "str", S: s}
}

type c09Parser struct {
	s string
	i int
}

func (p *c09Parser) lit(l string) bool {
	if strings.HasPrefix(p.s[p.i:], l) {
		p.i += len(l)
		return true
	}
	return false
}

func (p *c09Parser) value() *c09T {
	if p.i >= len(p.s) {
		return nil
	}
	switch c := p.s[p.i]; {
	case c == '[':
		p.i++
		t := &c09T{K: "arr"}
		if p.lit("]") {
			return t
		}
		for {
			e := p.value()
			if e == nil {
				return nil
			}
			t.A = append(t.A, e)
			if p.lit(", ") {
				continue
			}
			if p.lit("]") {
				return t
			}
			return nil
		}
	case c == '{':
		p.i++
		t := &c09T{K: "obj", O: map[string]*c09T{}}
		if p.lit("}") {
			return t
		}
		for {
			if !p.lit("\"") {
				return nil
			}
			j := strings.IndexByte(p.s[p.i:], '"')
			if j < 0 {
				return nil
			}
			key := p.s[p.i : p.i+j]
			p.i += j + 1
			if !p.lit(": ") {
				return nil
			}
			e := p.value()
			if e == nil {
				return nil
			}
			t.O[key] = e
			if p.lit(", ") {
				continue
			}
			if p.lit("}") {
				return t
			}
			return nil
		}
	case c == '"':
		p.i++
		j := strings.IndexByte(p.s[p.i:], '"')
		if j < 0 {
			return nil
		}
		t := &c09T{K: "str", S: p.s[p.i : p.i+j]}
		p.i += j + 1
		return t
	case c == '<':
		for _, m := range []string{"<unknown>", "<circular reference>", "<nativefunction>", "<function>", "<regex>"} {
			if p.lit(m) {
				if m == "<unknown>" {
					return &c09T{K: "unset"}
				}
				return &c09T{K: "other", S: m}
			}
		}
		return nil
	case c == '-' || (c >= '0' && c <= '9'):
		j := p.i + 1
		for j < len(p.s) && (p.s[j] >= '0' && p.s[j] <= '9' || p.s[j] == '.') {
			j++
		}
		f, err := strconv.ParseFloat(p.s[p.i:j], 64)
		if err != nil {
			return nil
		}
		p.i = j
		return &c09T{K: "num", N: f}
	default:
		switch {
		case p.lit("null"):
			return &c09T{K: "null"}
		case p.lit("true"):
			return &c09T{K: "bool", B: true}
		case p.lit("false"):
			return &c09T{K: "bool", B: false}
		}
	}
	return nil
}

// c09Equal compares structurally, objects without regard to key order; a
// "wild" node in the expectation matches anything.  jsonMode tolerates C04's
// matter (an empty array is written as null by -o / json() today).
func c09Equal(exp, got *c09T, jsonMode bool) bool {
	if exp == nil || got == nil {
		return exp == got
	}
	if exp.K == "wild" {
		return true
	}
	if jsonMode && exp.K == "arr" && len(exp.A) == 0 && got.K == "null" {
		return true
	}
	if exp.K != got.K {
		return false
	}
	switch exp.K {
	case "num":
		return exp.N == got.N
	case "str", "other":
		return exp.S == got.S
	case "bool":
		return exp.B == got.B
	case "arr":
		if len(exp.A) != len(got.A) {
			return false
		}
		for i := range exp.A {
			if !c09Equal(exp.A[i], got.A[i], jsonMode) {
				return false
			}
		}
		return true
	case "obj":
		if len(exp.O) != len(got.O) {
			return false
		}
		for k, e := range exp.O {
			g, ok := got.O[k]
			if !ok || !c09Equal(e, g, jsonMode) {
				return false
			}
		}
		return true
	}
	return true
}

func (t *c09T) String() string {
	if t == nil {
		return "<nil>"
	}
	switch t.K {
	case "num":
		return strconv.FormatFloat(t.N, 'f', -1, 64)
	case "str":
		return strconv.Quote(t.S)
	case "bool":
		return strconv.FormatBool(t.B)
	case "null":
		return "null"
	case "unset":
		return "<unknown>"
	case "wild":
		return "*"
	case "arr":
		parts := []string{}
		for _, e := range t.A {
			parts = append(parts, e.String())
		}
		return "[" + strings.Join(parts, ", ") + "]"
	case "obj":
		keys := []string{}
		for k := range t.O {
			keys = append(keys, k)
		}
		sort.Strings(keys)
		parts := []string{}
		for _, k := range keys {
			parts = append(parts, strconv.Quote(k)+": "+t.O[k].String())
		}
		return "{" + strings.Join(parts, ", ") + "}"
	}
	return "?" + t.S
}

// ---------------------------------------------------------------------------
// Vectors of MC_Heap.

type c09Sel struct {
	S string `json:"s"`
	K string `json:"k"`
	I int    `json:"i"`
}
type c09Path struct {
	Base string   `json:"base"`
	Sels []c09Sel `json:"sels"`
}
type c09Rhs struct {
	R    string   `json:"r"` // none num str arrlit objlit path pluck | sort arrof objof asg upd match call meth
	N    int      `json:"n"`
	S    string   `json:"s"`
	P    *c09Path `json:"p"`
	Es   []c09Rhs `json:"es"`   // arrof: the elements
	E    *c09Rhs  `json:"e"`    // objof: the member; asg: the value stored; match: the subject; call: the argument
	Kind string   `json:"kind"` // upd: cadd ... postdec; meth: pop popfirst
	F    string   `json:"f"`    // call: id h0 hk gx ga
	Pats []c09Pat `json:"pats"` // match: the alternatives of its one case
	Arm  *c09Rhs  `json:"arm"`  // match: the arm (an expression)
}

// c09Pat is a pattern of a match: a name, a number, an array of patterns.
type c09Pat struct {
	Pt string   `json:"pt"` // name lit arr
	Nm string   `json:"nm"`
	N  int      `json:"n"`
	Ps []c09Pat `json:"ps"`
}
type c09Op struct {
	Kind string   `json:"kind"`
	P    c09Path  `json:"p"`
	R    c09Rhs   `json:"r"`
	F    string   `json:"f"`
	Pats []c09Pat `json:"pats"` // match statement: the alternatives of its one case
}
type c09Exp struct {
	St   string         `json:"st"` // ok error wild dead
	Res  any            `json:"res"`
	Vars map[string]any `json:"vars"`
}
type c09Step struct {
	Exp   c09Exp          `json:"exp"`
	Skip  []string        `json:"skip"`
	Pre   map[string]bool `json:"pre"` // per semantics (I, g0, g1): deviation preinc-missing-index applies to this step's result
	Mni   map[string]bool `json:"mni"` // per semantics: the store goes THROUGH a missing member named like a method (deviation method-name-intermediate)
	Dev   json.RawMessage `json:"dev"` // {} of g0/g1 -> c09Exp, or [] when empty
	Taint struct {
		G0 bool `json:"g0"`
		G1 bool `json:"g1"`
	} `json:"taint"`
}
type c09Vec struct {
	Chk   []string  `json:"chk"` // laws whose antecedent held at the last step (vacuity guard)
	Ops   []c09Op   `json:"ops"`
	Steps []c09Step `json:"steps"`
}

func (p c09Path) String() string {
	var sb strings.Builder
	sb.WriteString(p.Base)
	for _, s := range p.Sels {
		if s.S == "key" {
			sb.WriteString("." + s.K)
		} else {
			sb.WriteString("[" + strconv.Itoa(s.I) + "]")
		}
	}
	return sb.String()
}

func (r c09Rhs) String() string {
	switch r.R {
	case "num":
		return strconv.Itoa(r.N)
	case "str":
		return strconv.Quote(r.S)
	case "arrlit":
		return "[8, 9]"
	case "objlit":
		return "{k: 3}"
	case "path":
		return r.P.String()
	case "pluck":
		return r.P.String() + ".pluck(\"k\", \"n\")"
	case "sort":
		return r.P.String() + ".sort()"
	case "arrof":
		parts := []string{}
		for _, e := range r.Es {
			parts = append(parts, e.String())
		}
		return "[" + strings.Join(parts, ", ") + "]"
	case "objof":
		return "{k: " + r.E.String() + "}"
	case "asg":
		return "(" + r.P.String() + " = " + r.E.String() + ")"
	case "upd":
		return "(" + c09UpdText(r.Kind, r.P.String()) + ")"
	case "match":
		arm := r.Arm.String()
		if strings.HasPrefix(arm, "{") { // an arm that starts with { is a block
			arm = "(" + arm + ")"
		}
		return "match (" + r.E.String() + ") { " + c09PatsText(r.Pats) + " => " + arm + " }"
	case "call":
		return r.F + "(" + r.E.String() + ")"
	case "meth":
		if r.Kind == "push" {
			return r.P.String() + ".push(6)"
		}
		return r.P.String() + "." + r.Kind + "()"
	}
	infra("C09: unknown expression form %q", r.R)
	return "null"
}

func (p c09Pat) String() string {
	switch p.Pt {
	case "name":
		return p.Nm
	case "lit":
		return strconv.Itoa(p.N)
	}
	parts := []string{}
	for _, e := range p.Ps {
		parts = append(parts, e.String())
	}
	return "[" + strings.Join(parts, ", ") + "]"
}

func c09PatsText(ps []c09Pat) string {
	parts := []string{}
	for _, p := range ps {
		parts = append(parts, p.String())
	}
	return strings.Join(parts, ", ")
}

// c09UpdText renders a compound assignment or a step of the place p.
func c09UpdText(kind, p string) string {
	switch kind {
	case "cadd":
		return p + " += 2"
	case "csub":
		return p + " -= 2"
	case "cstr":
		return p + " += \"s\""
	case "preinc":
		return "++" + p
	case "postinc":
		return p + "++"
	case "predec":
		return "--" + p
	case "postdec":
		return p + "--"
	}
	infra("C09: unknown update kind %q", kind)
	return ""
}

// c09Arg is the argument of a call / the iterable of a loop: the expression r, or the path p when there is none.
func c09Arg(op c09Op) string {
	if op.R.R == "none" || op.R.R == "" {
		return op.P.String()
	}
	return op.R.String()
}

var c09Bodies = map[string]string{"lr": "e = 9", "lk": "e.k = 9", "li": "e[0] = 9", "lp": "e++", "lm": "--e", "la": "e += 2", "lq": "e.k++",
	"mr": "p = 9", "mp": "p++", "ma": "p += 2", "mk": "p.k = 9", "mi": "p[0] = 9", "mq": "p.k++",
	"nr": "q = 9", "np": "q++", "nk": "q.k = 9", "ni": "q[0] = 9", "m2": "p = 9; q++"}

// c09HasResult says whether the statement of op prints an "R" line.
func c09HasResult(op c09Op) bool {
	switch op.Kind {
	case "read", "preinc", "postinc", "predec", "postdec", "pop", "popfirst", "push":
		return true
	}
	return false
}

func c09Stmt(op c09Op) string {
	p := op.P.String()
	switch op.Kind {
	case "set":
		return p + " = " + op.R.String()
	case "cadd":
		return p + " += 2"
	case "csub":
		return p + " -= 2"
	case "cstr":
		return p + " += \"s\""
	case "preinc":
		return "print \"R\", ++" + p
	case "postinc":
		return "print \"R\", " + p + "++"
	case "predec":
		return "print \"R\", --" + p
	case "postdec":
		return "print \"R\", " + p + "--"
	case "read":
		return "print \"R\", " + p
	case "call":
		return op.F + "(" + c09Arg(op) + ")"
	case "loop", "loop2":
		body, ok := c09Bodies[op.F]
		if !ok || op.F[0] != 'l' {
			infra("C09: unknown loop body %q", op.F)
		}
		if op.Kind == "loop2" {
			return "for (g, e in " + c09Arg(op) + ") { " + body + " }"
		}
		return "for (e in " + c09Arg(op) + ") { " + body + " }"
	case "match":
		body, ok := c09Bodies[op.F]
		if !ok || (op.F[0] != 'm' && op.F[0] != 'n') {
			infra("C09: unknown match body %q", op.F)
		}
		return "match (" + op.R.String() + ") { " + c09PatsText(op.Pats) + " => { " + body + " } }"
	case "pop", "popfirst":
		return "print \"R\", " + p + "." + op.Kind + "()"
	case "push":
		if op.R.R != "none" && op.R.R != "" {
			return "print \"R\", " + p + ".push(" + op.R.String() + ")"
		}
		return "print \"R\", " + p + ".push(6)"
	}
	infra("C09: unknown op kind %q", op.Kind)
	return ""
}

const c09Funcs = "function fk(v) { v.k = 7 }\nfunction fi(v) { v[0] = 7 }\nfunction fg(v) { v[2] = 7 }\nfunction fr(v) { v = 7 }\n" +
	"function fp(v) { v++ }\nfunction fa(v) { v += 2 }\nfunction fq(v) { v.k++ }\n" +
	"function id(v) { return v }\nfunction h0(v) { return v[0] }\nfunction hk(v) { return v.k }\nfunction hj(v) { return v.j }\nfunction gx(v) { return x }\nfunction ga(v) { return x = v }\n"
const c09Doc = `{"k": [1, {"k": 2}], "n": 5}`

// c09Program renders a history: after every statement every variable and $ are printed.
func c09Program(ops []c09Op, arrayRoot bool) string {
	var sb strings.Builder
	sb.WriteString(c09Funcs)
	if arrayRoot {
		sb.WriteString("$index == 0 ")
	}
	sb.WriteString("{\n")
	for _, op := range ops {
		sb.WriteString(c09Stmt(op) + "\n")
		sb.WriteString("print \"X\", x\nprint \"Y\", y\nprint \"D\", $\n")
	}
	sb.WriteString("}\n")
	return sb.String()
}

// one semantics' expectation for a step
func c09StepExp(st *c09Step, sem string) c09Exp {
	if sem != "I" && len(st.Dev) > 0 && st.Dev[0] == '{' {
		var m map[string]c09Exp
		if err := json.Unmarshal(st.Dev, &m); err != nil {
			infra("C09: bad dev field: %v", err)
		}
		if e, ok := m[sem]; ok {
			return e
		}
	}
	return st.Exp
}

type c09Obs struct {
	class string
	lines []string
	js    []byte
	jsErr string
}

// c09Match decides whether the observation is the one semantics `sem` prescribes.
// It returns ok and, if not ok, a description of the first difference.
func c09Match(v *c09Vec, sem string, o c09Obs, arrayRoot bool, pre, wild, mni *bool) (bool, string) {
	li := 0
	next := func(tag string) (string, bool) {
		if li >= len(o.lines) {
			return "", false
		}
		l := o.lines[li]
		if !strings.HasPrefix(l, tag+" ") {
			return l, false
		}
		li++
		return l[len(tag)+1:], true
	}
	var lastDoc *c09T
	for i := range v.Steps {
		st := &v.Steps[i]
		e := c09StepExp(st, sem)
		switch e.St {
		case "wild":
			if wild != nil {
				*wild = true
			}
			return true, ""
		case "dead":
			return false, fmt.Sprintf("step %d: this semantics ended with an error before", i+1)
		case "error":
			if o.class != "runtime" {
				return false, fmt.Sprintf("step %d: expected a runtime error, run ended %s", i+1, o.class)
			}
			if li != len(o.lines) {
				return false, fmt.Sprintf("step %d: expected a runtime error, but output continues: %q", i+1, o.lines[li])
			}
			return true, ""
		}
		if mni != nil && st.Mni[sem] && o.class == "runtime" && li == len(o.lines) {
			*mni = true // the store that must create the member was refused: explained by method-name-intermediate
			return true, ""
		}
		skip := map[string]bool{}
		for _, n := range st.Skip {
			skip[n] = true
		}
		if c09HasResult(v.Ops[i]) {
			got, ok := next("R")
			if !ok {
				return false, fmt.Sprintf("step %d: no result line (run ended %s, next line %q)", i+1, o.class, got)
			}
			exp := c09FromCompact(e.Res)
			if g := c09ParsePrint(got); !c09Equal(exp, g, false) {
				if pre != nil && st.Pre[sem] && g.K == "null" {
					*pre = true // explained by preinc-missing-index
				} else {
					return false, fmt.Sprintf("step %d: result: expected %s, got %s", i+1, exp, g)
				}
			}
		}
		for _, nv := range [][2]string{{"X", "x"}, {"Y", "y"}, {"D", "$"}} {
			got, ok := next(nv[0])
			if !ok {
				return false, fmt.Sprintf("step %d: no line for %s (run ended %s, next line %q)", i+1, nv[1], o.class, got)
			}
			exp := c09FromCompact(e.Vars[nv[1]])
			if nv[1] == "$" {
				lastDoc = exp
			}
			if skip[nv[1]] {
				continue
			}
			if g := c09ParsePrint(got); !c09Equal(exp, g, false) {
				return false, fmt.Sprintf("step %d: %s: expected %s, got %s", i+1, nv[1], exp, g)
			}
		}
	}
	if o.class != "ok" {
		return false, "run ended " + o.class + " but no error is expected"
	}
	if li != len(o.lines) {
		return false, fmt.Sprintf("extra output %q", o.lines[li])
	}
	// the -o document
	if o.jsErr != "" {
		return false, "-o document: " + o.jsErr
	}
	var doc any
	if err := json.Unmarshal(o.js, &doc); err != nil {
		return false, "-o document is not JSON: " + err.Error()
	}
	want := lastDoc
	if arrayRoot {
		want = &c09T{K: "arr", A: []*c09T{lastDoc, {K: "str", S: "t"}}}
	}
	if g := c09FromJSON(doc); !c09Equal(want, g, true) {
		return false, fmt.Sprintf("-o document: expected %s, got %s", want, g)
	}
	return true, ""
}

func c09Lines(b []byte) []string {
	s := strings.TrimSuffix(string(b), "\n")
	if s == "" {
		return nil
	}
	return strings.Split(s, "\n")
}

type c09Stats struct {
	mu      sync.Mutex // two families run at the same time
	n, errs int
	dev     map[string]int
	tags    map[string]int // what the vectors exercised (vacuity guard)
}

// c09Forms lists the expression forms that occur in r.
func c09Forms(r *c09Rhs, into map[string]bool) {
	if r == nil || r.R == "" || r.R == "none" {
		return
	}
	into[r.R] = true
	for i := range r.Es {
		c09Forms(&r.Es[i], into)
	}
	c09Forms(r.E, into)
	c09Forms(r.Arm, into)
}

func (s *c09Stats) tagVec(v *c09Vec) {
	s.mu.Lock()
	defer s.mu.Unlock()
	forms := map[string]bool{}
	for i := range v.Ops {
		c09Forms(&v.Ops[i].R, forms)
		s.tags["step:"+v.Ops[i].Kind+":"+v.Steps[i].Exp.St]++
		if k := v.Ops[i].Kind; (k == "call" || k == "loop" || k == "loop2" || k == "push" || k == "match") && v.Ops[i].R.R != "none" && v.Steps[i].Exp.St == "ok" {
			s.tags["sink:"+k]++
		}
	}
	for f := range forms {
		s.tags["form:"+f]++
	}
	for _, l := range v.Chk {
		s.tags["law:"+l]++
	}
	last := &v.Steps[len(v.Steps)-1]
	op := v.Ops[len(v.Ops)-1]
	s.tags["op:"+op.Kind+":"+last.Exp.St]++
	if len(last.Dev) > 0 && last.Dev[0] == '{' {
		var m map[string]c09Exp
		json.Unmarshal(last.Dev, &m)
		for d, e := range m {
			s.tags["dev:"+d+":"+e.St]++
		}
	}
	if last.Pre["I"] || last.Pre["g0"] || last.Pre["g1"] {
		s.tags["dev:preinc-missing-index"]++
	}
	if last.Mni["I"] {
		s.tags["dev:method-name-intermediate"]++
	}
	if op.Kind == "set" && op.R.R == "pluck" {
		s.tags["rhs:pluck:"+last.Exp.St]++
	}
	if len(last.Skip) > 0 {
		s.tags["skip"]++
	}
}

// what every run of the check must have exercised at least once
var c09MustTags = []string{"law:frame", "law:readback", "law:alias", "law:readpure", "law:tree", "law:others", "law:incdec", "law:compound",
	"law:updframe", "law:agree", "law:status", "op:set:ok", "op:set:error", "op:read:ok", "op:read:error", "op:call:ok", "op:call:error", "op:loop:ok",
	"op:loop:error", "op:cadd:ok", "op:cstr:ok", "op:csub:ok", "op:preinc:ok", "op:postinc:ok", "op:predec:ok", "op:postdec:ok", "op:postinc:error",
	"dev:g0:ok", "dev:g1:ok", "dev:g1:wild", "dev:g1:error", "dev:preinc-missing-index", "skip",
	"law:meth", "law:loopcopy", "law:callcopy", "law:pluck", "op:pop:ok", "op:popfirst:ok", "op:push:ok", "op:loop2:ok", "op:loop2:error", "rhs:pluck:ok",
	"dev:method-name-intermediate",
	"law:framex", "law:readbackx", "law:fresh", "law:sort", "law:pure", "law:pushx", "law:sinkcopy", "step:match:ok", "step:match:error", "step:set:ok", "step:postinc:ok",
	"form:sort", "form:arrof", "form:objof", "form:asg", "form:upd", "form:match", "form:call", "form:meth", "form:pluck",
	"sink:call", "sink:loop", "sink:loop2", "sink:push", "sink:match"}

var c09DevText = map[string]string{
	"alias-length":             "a change of an array's length made through one reference is not seen through the others",
	"read-pads-array":          "reading an index past the end of an array pads the array with nulls",
	"preinc-missing-index":     "prefix ++/-- on an index of an array that does not exist yet yields null instead of the new value",
	"method-name-intermediate": "an assignment THROUGH a missing member whose key is the name of a method of objects (length, pluck) is refused with a runtime error instead of creating the member as an object",
}

// c09Judge compares one run with the three semantics.
func c09Judge(c *Ctx, v *c09Vec, r Result, arrayRoot bool, prog string, stats *c09Stats) {
	if r.Class == "budget" || r.Class == "timeout" {
		return
	}
	o := c09Obs{class: r.Class, lines: c09Lines(r.Stdout), js: r.JS, jsErr: r.JSErr}
	okI, whyI := c09Match(v, "I", o, arrayRoot, nil, nil, nil)
	last := v.Steps[len(v.Steps)-1]
	if okI {
		return
	}
	rep := map[string]any{"program": prog, "input": c09Input(arrayRoot), "ops": v.Ops, "difference_from_intended": whyI,
		"class": r.Class, "stdout": string(r.Stdout), "o_document": string(r.JS), "err": r.ErrMsg, "detail": r.Detail}
	// which open deviations explain the observation?
	type alt struct {
		sem  string
		devs []string
	}
	for _, a := range []alt{{"I", nil}, {"g0", []string{"alias-length"}}, {"g1", []string{"read-pads-array"}}} {
		pre, wild, mni := false, false, false
		ok, _ := c09Match(v, a.sem, o, arrayRoot, &pre, &wild, &mni)
		if !ok {
			continue
		}
		need := a.devs
		if a.sem == "g1" && last.Taint.G1 {
			need = append(need, "alias-length")
		}
		if pre {
			need = append(need, "preinc-missing-index")
		}
		if mni {
			need = append(need, "method-name-intermediate")
		}
		for _, d := range need {
			if !c.OpenDev(d) {
				rep["explained_by_deviations_not_open"] = need
				c.Violation(d, rep)
				return
			}
		}
		stats.mu.Lock()
		defer stats.mu.Unlock()
		if wild {
			stats.dev["(of these: accepted because the deviation's outcome is not modelled)"]++
		}
		for _, d := range need {
			stats.dev[d]++
			c.Known(d, c09DevText[d]+" (e.g. `"+c09OneLine(prog)+"`: "+whyI+")")
		}
		return
	}
	c.Violation("heap-history", rep)
}

func c09OneLine(prog string) string {
	s := strings.TrimPrefix(prog, c09Funcs)
	keep := []string{}
	for _, l := range strings.Split(s, "\n") {
		if strings.HasPrefix(l, "print \"X\"") || strings.HasPrefix(l, "print \"Y\"") || strings.HasPrefix(l, "print \"D\"") {
			continue
		}
		keep = append(keep, l)
	}
	return strings.Join(keep, "; ")
}

func c09Input(arrayRoot bool) string {
	if arrayRoot {
		return "[" + c09Doc + ", \"t\"]"
	}
	return c09Doc
}

// c09RunMC runs one MC_Heap configuration and replays every emitted history.
func c09RunMC(c *Ctx, pool *Pool, name string, cfg string, files map[string]string, stats *c09Stats) {
	var mu sync.Mutex
	vecs := map[string]*c09Vec{}
	seq := 0
	st := pool.NewStream(func(j *Job, r Result) {
		mu.Lock()
		v := vecs[j.Tag]
		delete(vecs, j.Tag)
		mu.Unlock()
		if r.Class != "ok" || len(r.Hist) != 2 {
			c.Violation("worker", map[string]any{"result": r, "ops": v.Ops})
			return
		}
		for k, arrayRoot := range []bool{false, true} {
			c09Judge(c, v, r.Hist[k], arrayRoot, string(j.Hist[k].Prog), stats)
		}
		nontrivial := len(v.Ops) >= 2
		key := name + ":" + string(j.Hist[0].Prog)
		c.Case(key, nontrivial)
		stats.mu.Lock()
		defer stats.mu.Unlock()
		stats.n++
		if v.Steps[len(v.Steps)-1].Exp.St == "error" {
			stats.errs++
		}
		if stats.n%5003 == 1 {
			c.Sample(map[string]any{"family": "history (" + name + ")", "program": string(j.Hist[0].Prog), "input": c09Doc,
				"expected_last_step": v.Steps[len(v.Steps)-1].Exp})
		}
	})
	c.TLC(TLCOpt{Module: "MC_Heap", Cfg: cfg, Files: files, Workers: 8, Heap: "6g",
		OnVec: func(raw []byte) {
			v := &c09Vec{}
			VecDecode(raw, v)
			if len(v.Ops) != len(v.Steps) || len(v.Ops) == 0 {
				infra("C09: malformed vector %.200s", raw)
			}
			seq++
			tag := strconv.Itoa(seq)
			stats.tagVec(v)
			mu.Lock()
			vecs[tag] = v
			mu.Unlock()
			jobs := []Job{}
			for _, arrayRoot := range []bool{false, true} {
				jobs = append(jobs, Job{Kind: "run", Prog: []byte(c09Program(v.Ops, arrayRoot)),
					Files: []FileIn{{Name: "in.json", Data: []byte(c09Input(arrayRoot))}}, WantJS: true})
			}
			st.Submit(Job{Kind: "history", Hist: jobs, Tag: tag})
		}})
	st.Wait()
}

func c09Cfg(mode string, maxOps int, wide bool) string {
	w := "FALSE"
	if wide {
		w = "TRUE"
	}
	return cfgText("INIT Init", "NEXT Next", "CONSTANTS", "Mode = \""+mode+"\"", fmt.Sprintf("MaxOps = %d", maxOps), "Wide = "+w,
		"INVARIANT Laws", "INVARIANT Vec", "CHECK_DEADLOCK FALSE")
}

// c09RandomHistories writes seeded random histories over the operation
// universe of MC_Heap (any path of depth <= 3) as JSON for Mode = "given".
func c09RandomHistories(seed int64, n, depth, nx int) string {
	r := rand.New(rand.NewSource(seed*104729 + 17))
	sels := []map[string]any{{"s": "key", "k": "k"}, {"s": "key", "k": "j"}, {"s": "idx", "i": 0}, {"s": "idx", "i": 1},
		{"s": "idx", "i": 2}, {"s": "idx", "i": 5}, {"s": "idx", "i": -1}, {"s": "idx", "i": -3}, {"s": "key", "k": "length"}, {"s": "idx", "i": 1}, {"s": "idx", "i": 3}}
	path := func(maxd int) map[string]any {
		ss := []any{}
		d := r.Intn(maxd + 1)
		for i := 0; i < d; i++ {
			ss = append(ss, sels[r.Intn(len(sels))])
		}
		return map[string]any{"base": []string{"x", "y", "$", "x", "y"}[r.Intn(5)], "sels": ss}
	}
	none := map[string]any{"r": "none"}
	hs := make([]any, 0, n)
	for i := 0; i < n; i++ {
		h := []any{}
		var shrunk map[string]any // the path of the array the previous operation shrank
		for k := 0; k < depth; k++ {
			var op map[string]any
			if shrunk != nil && r.Intn(5) < 3 {
				// shrink it again, or store past its new end: the gap must be filled with nulls, not with what was removed
				if r.Intn(2) == 0 {
					op = map[string]any{"kind": "pop", "p": shrunk, "r": none, "f": ""}
				} else {
					ss := append(append([]any{}, shrunk["sels"].([]any)...), map[string]any{"s": "idx", "i": 1 + r.Intn(3)})
					op = map[string]any{"kind": "set", "p": map[string]any{"base": shrunk["base"], "sels": ss}, "r": map[string]any{"r": "num", "n": 7}, "f": ""}
					shrunk = nil
				}
				h = append(h, op)
				continue
			}
			shrunk = nil
			switch w := r.Intn(27); {
			case w < 9:
				var rhs map[string]any
				switch r.Intn(7) {
				case 0:
					rhs = map[string]any{"r": "num", "n": 7}
				case 1:
					rhs = map[string]any{"r": "str", "s": "s"}
				case 2:
					rhs = map[string]any{"r": "arrlit"}
				case 3:
					rhs = map[string]any{"r": "objlit"}
				default:
					rhs = map[string]any{"r": "path", "p": path(2)}
				}
				op = map[string]any{"kind": "set", "p": path(3), "r": rhs, "f": ""}
			case w < 12:
				op = map[string]any{"kind": []string{"cadd", "csub", "cstr", "preinc", "postinc", "predec", "postdec"}[r.Intn(7)], "p": path(3), "r": none, "f": ""}
			case w < 15:
				op = map[string]any{"kind": "read", "p": path(3), "r": none, "f": ""}
			case w < 18:
				op = map[string]any{"kind": "call", "p": path(2), "r": none, "f": []string{"fk", "fi", "fg", "fr", "fp", "fa", "fq"}[r.Intn(7)]}
			case w < 20:
				op = map[string]any{"kind": []string{"loop", "loop2"}[r.Intn(2)], "p": path(2), "r": none, "f": []string{"lr", "lk", "li", "lp", "lm", "la", "lq"}[r.Intn(7)]}
			case w < 25:
				// length-changing methods (pop twice as often: what it removes stays in the spare capacity)
				op = map[string]any{"kind": []string{"pop", "pop", "popfirst", "push"}[r.Intn(4)], "p": path(2), "r": none, "f": ""}
				if op["kind"] == "pop" {
					shrunk = op["p"].(map[string]any)
				}
			default:
				op = map[string]any{"kind": "set", "p": path(2), "r": map[string]any{"r": "pluck", "p": path(2)}, "f": ""}
			}
			h = append(h, op)
		}
		hs = append(hs, h)
	}
	hs = append(hs, c09RandomExprHistories(seed, nx, depth)...)
	b, _ := json.Marshal(hs)
	return string(b)
}

// c09RandomExprHistories: seeded random histories whose statements put the value of a random expression (the
// forms of MC_Heap's EvalR, nested up to depth 2) into a random sink, mixed with stores, steps and reads.
func c09RandomExprHistories(seed int64, n, depth int) []any {
	r := rand.New(rand.NewSource(seed*7368787 + 5))
	sels := []map[string]any{{"s": "key", "k": "k"}, {"s": "key", "k": "j"}, {"s": "idx", "i": 0}, {"s": "idx", "i": 1},
		{"s": "idx", "i": 2}, {"s": "idx", "i": -1}, {"s": "key", "k": "n"}, {"s": "idx", "i": 0}, {"s": "key", "k": "k"}}
	pathOf := func(base string, maxd int) map[string]any {
		ss := []any{}
		d := r.Intn(maxd + 1)
		for i := 0; i < d; i++ {
			ss = append(ss, sels[r.Intn(len(sels))])
		}
		return map[string]any{"base": base, "sels": ss}
	}
	path := func(maxd int) map[string]any { return pathOf([]string{"x", "y", "$", "x", "y"}[r.Intn(5)], maxd) }
	none := map[string]any{"r": "none"}
	name := func(n string) map[string]any { return map[string]any{"pt": "name", "nm": n} }
	lit := func(n int) map[string]any { return map[string]any{"pt": "lit", "n": n} }
	arr := func(ps ...any) map[string]any { return map[string]any{"pt": "arr", "ps": ps} }
	pats := func() []any {
		switch r.Intn(7) {
		case 0:
			return []any{name("p")}
		case 1:
			return []any{lit(1), arr(name("p"), name("q"))}
		case 2:
			return []any{arr(lit([]int{1, 8, 7}[r.Intn(3)]), name("q"))}
		case 3:
			return []any{arr(name("p"), arr(name("q"), lit(3)))}
		case 4:
			return []any{arr(name("p"))}
		case 5:
			return []any{arr(name("q"), name("p"), name("q"))} // the later binding of q wins
		}
		return []any{arr(name("p"), name("q"))}
	}
	updKinds := []string{"cadd", "csub", "cstr", "preinc", "postinc", "predec", "postdec"}
	var expr func(d int, inArm bool) map[string]any
	expr = func(d int, inArm bool) map[string]any {
		place := func() map[string]any {
			if inArm && r.Intn(2) == 0 {
				return pathOf([]string{"p", "q"}[r.Intn(2)], 1)
			}
			return path(2)
		}
		if d <= 0 {
			switch r.Intn(6) {
			case 0:
				return map[string]any{"r": "num", "n": 7}
			case 1:
				return map[string]any{"r": []string{"arrlit", "objlit"}[r.Intn(2)]}
			}
			return map[string]any{"r": "path", "p": place()}
		}
		switch r.Intn(14) {
		case 0:
			return map[string]any{"r": "sort", "p": place()}
		case 1, 2:
			es := []any{}
			for i, k := 0, r.Intn(3); i <= k; i++ {
				es = append(es, expr(d-1, inArm))
			}
			if r.Intn(8) == 0 {
				es = []any{}
			}
			return map[string]any{"r": "arrof", "es": es}
		case 3:
			return map[string]any{"r": "objof", "e": expr(d-1, inArm)}
		case 4, 5:
			return map[string]any{"r": "asg", "p": place(), "e": expr(d-1, inArm)}
		case 6:
			return map[string]any{"r": "upd", "kind": updKinds[r.Intn(len(updKinds))], "p": place()}
		case 7, 8:
			return map[string]any{"r": "match", "e": expr(d-1, inArm), "pats": pats(), "arm": expr(d-1, true)}
		case 9, 10:
			return map[string]any{"r": "call", "f": []string{"id", "h0", "hk", "hj", "gx", "ga"}[r.Intn(6)], "e": expr(d-1, inArm)}
		case 11:
			return map[string]any{"r": "meth", "kind": []string{"pop", "popfirst", "push"}[r.Intn(3)], "p": place()}
		case 12:
			return map[string]any{"r": "pluck", "p": place()}
		}
		return expr(d-1, inArm)
	}
	x := map[string]any{"base": "x", "sels": []any{}}
	hs := make([]any, 0, n)
	for i := 0; i < n; i++ {
		h := []any{}
		for k := 0; k < depth; k++ {
			var op map[string]any
			switch w := r.Intn(20); {
			case w < 6:
				op = map[string]any{"kind": "set", "p": path(2), "r": expr(1+r.Intn(2), false), "f": ""}
			case w < 8:
				op = map[string]any{"kind": "call", "p": x, "r": expr(1+r.Intn(2), false), "f": []string{"fk", "fi", "fg", "fr", "fp", "fa", "fq"}[r.Intn(7)]}
			case w < 10:
				op = map[string]any{"kind": []string{"loop", "loop2"}[r.Intn(2)], "p": x, "r": expr(1+r.Intn(2), false), "f": []string{"lr", "lk", "li", "lp", "lm", "la", "lq"}[r.Intn(7)]}
			case w < 13:
				op = map[string]any{"kind": "match", "p": x, "r": expr(r.Intn(3), false), "f": []string{"mr", "mp", "ma", "mk", "mi", "mq", "nr", "np", "nk", "ni", "m2"}[r.Intn(11)], "pats": pats()}
			case w < 14:
				op = map[string]any{"kind": "push", "p": path(2), "r": expr(r.Intn(2), false), "f": ""}
			case w < 16:
				op = map[string]any{"kind": "set", "p": path(3), "r": map[string]any{"r": []string{"num", "arrlit", "objlit"}[r.Intn(3)], "n": 7}, "f": ""}
			case w < 18:
				op = map[string]any{"kind": updKinds[r.Intn(len(updKinds))], "p": path(3), "r": none, "f": ""}
			default:
				op = map[string]any{"kind": "read", "p": path(3), "r": none, "f": ""}
			}
			h = append(h, op)
		}
		hs = append(hs, h)
	}
	return hs
}

// ---------------------------------------------------------------------------
// Second family: an expression without assignment and without a mutating
// method call never changes the input document.

var c09ReadDocs = []string{
	`{"a": [1, 2, 3], "o": {"k": "v", "n": null, "in": {"x": [4, 5]}}, "s": "str", "n": 5, "b": true, "d": [[1, 2], {"x": [1]}, "z"]}`,
	`[{"a": [1, 2]}, [3, [4]], "s", 7, null]`,
	`{"k": [1, {"k": 2}], "n": 5}`,
}

type c09Gen struct{ r *rand.Rand }

func (g *c09Gen) pick(xs ...string) string { return xs[g.r.Intn(len(xs))] }

func (g *c09Gen) path() string {
	s := "$"
	n := g.r.Intn(4)
	for i := 0; i < n; i++ {
		switch g.r.Intn(3) {
		case 0:
			s += "." + g.pick("a", "o", "k", "in", "x", "d", "s", "n", "zz", "b")
		case 1:
			s += "[" + strconv.Itoa(g.r.Intn(9)-3) + "]"
		default:
			s += "[" + g.pick("\"a\"", "\"k\"", "0", "1", "7", "$.n", "-1") + "]"
		}
	}
	return s
}

func (g *c09Gen) expr(d int) string {
	if d <= 0 || g.r.Intn(4) == 0 {
		switch g.r.Intn(6) {
		case 0:
			return g.pick("1", "0", "2.5", "\"s\"", "\"a,b\"", "true", "null", "[1, 2]", "{q: 1}", "u")
		default:
			return g.path()
		}
	}
	a, b := g.expr(d-1), g.expr(d-1)
	switch g.r.Intn(14) {
	case 0:
		return "(" + a + " " + g.pick("+", "-", "*") + " " + b + ")"
	case 1:
		return "(" + a + " " + g.pick("==", "!=", "<", ">", "<=", ">=") + " " + b + ")"
	case 2:
		return "(" + a + " " + g.pick("&&", "||") + " " + b + ")"
	case 3:
		return g.pick("!", "-", "+") + "(" + a + ")"
	case 4:
		return "(" + a + " is " + g.pick("array", "object", "number", "string", "null", "unknown", "bool") + ")"
	case 5:
		return g.path() + "." + g.pick("length()", "sort()", "contains(1)", "contains("+b+")", "upper()", "lower()", "split(\",\")", "pluck(\"k\", \"x\")", "floor()", "length")
	case 6:
		return g.pick("json", "num", "id", "rd", "rk") + "(" + a + ")"
	case 7:
		return "match (" + a + ") { 1 => " + b + ", [p, q] => p, \"s\" => 3, w => w }"
	case 8:
		return "[" + a + ", " + b + "]"
	case 9:
		return "{m: " + a + "}"
	case 10:
		return "(" + a + " ~ \"s\")"
	case 11:
		return "(" + a + ")[" + g.pick("0", "1", "5", "-1", "-9") + "]"
	case 12:
		return "(" + a + ")." + g.pick("a", "k", "zz")
	default:
		return g.path()
	}
}

const c09ReadFuncs = "function id(v) { return v }\nfunction rd(v) { return v[7] }\nfunction rk(v) { return v.zz.y }\n"

// c09OnlyPadded reports whether got differs from want only by nulls appended to arrays.
func c09OnlyPadded(want, got *c09T) bool {
	if want.K != got.K {
		return false
	}
	switch want.K {
	case "arr":
		if len(got.A) < len(want.A) {
			return false
		}
		for i := range got.A {
			if i < len(want.A) {
				if !c09OnlyPadded(want.A[i], got.A[i]) {
					return false
				}
			} else if got.A[i].K != "null" {
				return false
			}
		}
		return true
	case "obj":
		if len(want.O) != len(got.O) {
			return false
		}
		for k, e := range want.O {
			g, ok := got.O[k]
			if !ok || !c09OnlyPadded(e, g) {
				return false
			}
		}
		return true
	}
	return c09Equal(want, got, false)
}

func c09ReadFamily(c *Ctx, pool *Pool) {
	n := 6000
	if c.Thorough() {
		n = 60000
	}
	g := &c09Gen{r: rand.New(rand.NewSource(c.Seed*7919 + 9))}
	jobs := make([]Job, 0, n)
	for i := 0; i < n; i++ {
		doc := c09ReadDocs[g.r.Intn(len(c09ReadDocs))]
		e := g.expr(1 + g.r.Intn(3))
		var prog string
		switch g.r.Intn(4) {
		case 0:
			prog = c09ReadFuncs + e + " { print 1 }\n" // as a pattern
		case 1:
			prog = c09ReadFuncs + "{ if (" + e + ") print 1\nprint " + e + " }\n"
		default:
			prog = c09ReadFuncs + "{ print " + e + " }\n"
		}
		jobs = append(jobs, Job{Kind: "run", Prog: []byte(prog), Files: []FileIn{{Name: "in.json", Data: []byte(doc)}}, WantJS: true, Tag: doc})
	}
	conclusive, padded := 0, 0
	pool.Map(jobs, func(i int, r Result) {
		j := &jobs[i]
		if r.Class == "panic" || r.Class == "crash" {
			// a crash is C01's matter; nothing to compare here
			return
		}
		if r.Class != "ok" || r.JSErr != "" {
			c.Case("r:"+string(j.Prog), false)
			return
		}
		var want, got any
		json.Unmarshal([]byte(j.Tag), &want)
		if err := json.Unmarshal(r.JS, &got); err != nil {
			c.Violation("read-changes-input", map[string]any{"program": string(j.Prog), "input": j.Tag, "o_document": string(r.JS), "why": "not JSON"})
			return
		}
		conclusive++
		c.Case("r:"+j.Tag+string(j.Prog), true)
		w, gt := c09FromJSON(want), c09FromJSON(got)
		if c09Equal(w, gt, true) {
			if conclusive%1500 == 1 {
				c.Sample(map[string]any{"family": "assignment-free expression leaves the input unchanged", "program": string(j.Prog), "input": j.Tag})
			}
			return
		}
		rep := map[string]any{"program": string(j.Prog), "input": j.Tag, "o_document": string(r.JS), "stdout": string(r.Stdout)}
		if c09OnlyPadded(w, gt) && strings.Contains(string(j.Prog), "[") && c.OpenDev("read-pads-array") {
			padded++
			c.Known("read-pads-array", "reading an index past the end of an array pads the array with nulls (e.g. `{ print $.k[5] }` on "+c09Doc+" writes k with 6 elements)")
			return
		}
		c.Violation("read-changes-input", rep)
	})
	c.Set("read_family", map[string]int{"programs": n, "ended_ok_and_compared": conclusive, "padded_by_read(known)": padded})
}

// ---------------------------------------------------------------------------

func checkC09(c *Ctx) {
	c.Assume("in the history families indices are integers; the index family (MC_HeapIdx) uses every number in quarters from beyond the start to beyond the end of the array: the position addressed is the integer part (toward zero), counted from the end when negative; what a NON-number index of an array (\"1\", true, null) addresses is not fixed: there only everything outside that array is compared, and a refusal is accepted")
	c.Assume("rounds family (MC_HeapRounds): one pattern rule that prints $, writes below $ and prints $ again, over 1-3 files x 1-3 values x up to two root selectors; selectors that select nothing and writes the statement leaves open (a member of a number read by op=, ++ on a container) are not generated; BEGINFILE / ENDFILE are C02's")
	c.Assume("what a READ through an unset variable (x.k, x[0] with x never assigned) does to that variable is left open: the value read (null) and every other variable and $ are compared, the variable itself is not, and the history ends there")
	c.Assume("assignment THROUGH an explicit null (o.n.k = 1 with o.n null), a key of an array, an index of an object, `x = y` with y unset, arithmetic updates of a container (C05), ++/-- on a member of a scalar (C11) and insertions that would create a cycle (C17/C04) are not generated: the statement does not fix them")
	c.Assume("of the methods only pop, popfirst and push(6) on arrays (reached through any path, also through a second reference) and pluck(\"k\", \"n\") on objects are used; the other methods are C15's / C16's; an empty array written as null by -o is C04's matter and tolerated in the -o comparison")
	c.Assume("a PURE read of a member an object does not have but whose key names a method of objects (x.length, x.pluck) yields that method: not fixed by the statement, not generated; stores to and through such members are")
	c.Assume("values: small integers, two strings, fresh [8, 9] and {k: 3} literals, aliases of x / y / $.k; document {\"k\": [1, {\"k\": 2}], \"n\": 5} both as the root object and as element 0 of a root array")
	c.Assume("the value of a for-in loop variable after the loop is not observed; loops run over arrays and objects (one- and two-variable form), other iterables are C07's")
	c.Assume("read family: programs that end in a runtime error have no -o document and are not compared")
	c.Assume("expression forms (a path, an assignment / compound assignment / ++ -- used as a value, a match expression, calls of id / h0 / hk / hj / gx / ga, sort, pop, popfirst, push(6), pluck, array and object literals of these): where the order of evaluation inside ONE statement would matter it is left open: a store whose right-hand side changes a container on the target's own path (or calls two length-changing methods) and a push whose argument changes the receiver are not generated")
	c.Assume("a variable that is first assigned inside a function or a match arm is not generated (which frame it then belongs to is not this property's matter); an unset value inside a literal, as a match subject or as the value stored is not generated")
	c.Assume("sort() is used on arrays of numbers and strings of at most 4 characters (the order of null / booleans / containers is C15's); literal patterns are numbers and meet only numbers and null (what a literal equals is C05's / C19's); the names a pattern binds are not observed after the match")
	pool := c.Pool()
	pool.Timeout = 120 * time.Second
	stats := &c09Stats{dev: map[string]int{}, tags: map[string]int{}}

	depth := 3
	if c.Thorough() {
		depth = 4
	}
	only := os.Getenv("C09_FAMILY") // development: run one family only
	fam := func(name string, f func()) {
		if only == "" || only == name {
			t0 := time.Now()
			f()
			if only != "" || os.Getenv("C09_TIMING") != "" {
				stats.mu.Lock()
				fmt.Fprintf(os.Stderr, "C09 family %s: %.1fs (histories so far %d)\n", name, time.Since(t0).Seconds(), stats.n)
				stats.mu.Unlock()
			}
		}
	}
	simN, simD, simX := 2000, 8, 500
	if c.Thorough() {
		simN, simD, simX = 30000, 10, 10000
	}
	// two lanes at the same time (each TLC run has a few seconds of start-up during which the replay workers idle)
	specDir := c.specDir()
	if d := os.Getenv("C09_SPEC_DIR"); d != "" { // development: take MC_Heap.tla / JqHeap.tla from a scratch directory
		for _, n := range []string{"MC_Heap.tla", "JqHeap.tla"} {
			if b, err := os.ReadFile(d + "/" + n); err == nil {
				os.WriteFile(specDir+"/"+n, b, 0o644)
			}
		}
	}
	var lanes sync.WaitGroup
	lane := func(fs ...func()) {
		lanes.Add(1)
		go func() {
			defer lanes.Done()
			for _, f := range fs {
				f()
			}
		}()
	}
	famDepth := func() { fam("depth", func() { c09RunMC(c, pool, "depth", c09Cfg("depth", depth, false), nil, stats) }) }
	famBreadth := func() {
		fam("breadth", func() { c09RunMC(c, pool, "breadth", c09Cfg("breadth", 1, c.Thorough()), nil, stats) })
	}
	famNames := func() { fam("names", func() { c09RunMC(c, pool, "names", c09Cfg("names", 1, false), nil, stats) }) }
	famExpr := func() { fam("expr", func() { c09RunMC(c, pool, "expr", c09Cfg("expr", 1, c.Thorough()), nil, stats) }) }
	famGiven := func() {
		fam("given", func() {
			c09RunMC(c, pool, "given", c09Cfg("given", simD, false), map[string]string{"given.json": c09RandomHistories(c.Seed, simN, simD, simX)}, stats)
		})
	}
	famRead := func() { fam("read", func() { c09ReadFamily(c, pool) }) }
	famIndex := func() {
		fam("index", func() {
			if c.Thorough() {
				c09IndexFamily(c, pool, "index", c09IdxCfg(6, true, false), stats)
				c09IndexFamily(c, pool, "index2", c09IdxCfg(3, false, true), stats)
			} else {
				c09IndexFamily(c, pool, "index", c09IdxCfg(4, true, false), stats)
			}
		})
	}
	famRounds := func() {
		fam("rounds", func() {
			if c.Thorough() {
				c09RoundsFamily(c, pool, c09RoundsCfg(2, true), stats) // (lists of three selectors: 7x the states for nothing new over pairs)
			} else {
				c09RoundsFamily(c, pool, c09RoundsCfg(2, false), stats)
			}
		})
	}
	if c.Thorough() { // depth alone takes as long as breadth and names, or as expr and given
		lane(famDepth)
		lane(famBreadth, famNames, famRead)
		lane(famExpr, famGiven)
		lane(famIndex, famRounds)
	} else {
		lane(famDepth, famBreadth)
		lane(famNames, famExpr, famGiven, famRead)
		lane(famIndex, famRounds)
	}
	lanes.Wait()

	if only == "" || only == "index" {
		for _, t := range c09IdxMustTags {
			if stats.tags[t] == 0 {
				infra("C09: vacuity guard: nothing exercised %q (MC_HeapIdx changed?)", t)
			}
		}
	}
	if only == "" || only == "rounds" {
		for _, t := range c09RoundsMustTags {
			if stats.tags[t] == 0 {
				infra("C09: vacuity guard: nothing exercised %q (MC_HeapRounds changed?)", t)
			}
		}
	}

	for _, t := range c09MustTags {
		if stats.tags[t] == 0 && only == "" {
			infra("C09: vacuity guard: nothing exercised %q (model or alphabet changed?)", t)
		}
	}
	c.Set("exercised", stats.tags)
	c.Set("exhaustive", true)
	c.Set("rule", "MC_Heap emits every history (depth: <= MaxOps operations over the 45-operation alphabet Small; breadth: 20 prefixes (6 of them with arrays shrunk by pop / popfirst or an object made by pluck) x every operation of Big = "+
		"{set x 8 right-hand sides, += -= +=str, ++/-- pre/post, read, 4 mutating calls, 3 for-in loops} x every path of depth <= 2 (thorough: <= 3) over x, y, $, plus {pop, popfirst, push, "+
		"3 calls and 11 loops (one/two variables) that step or update the parameter / loop variable, pluck} x every path of depth <= 1 and 5 deeper ones (thorough: all); names: 9 prefixes x {set x 3, 7 updates, read, 2 calls, 1 loop} x every path of depth <= 2 over the keys length, pluck, push, k and index 0; "+
		"expr: 12 prefixes (x a number / [8, 9] / {k: 3} / $.k / unset / arrays in and out of order, mixed, of one and no element, nested) x their source places (a variable, an element, a member, a missing member, in x and in $) x {28 (thorough 37) expression forms over the place: path, (p = v), (p op= v), ++/--, match expressions whose arm is a place / a bound name / a step, calls that return the parameter / an element / a member / a missing member / the global / an assignment, sort, pop, popfirst, push, pluck, literals} "+
		"x {12 stores (variable, member, element, into $, as element / member of a literal, through id(), through a match, chained), 5 calls and 5 loops whose body stores to or steps the parameter / loop variable, 2 push, match statements with 5 pattern lists (name, [p, q], 1 | [p, q], [8, q], [p, [q, 3]]) x up to 11 bodies that store to / step a bound name or a part of it (quick: over 6 subject forms)}, then a step of / a store to every scalar place that exists below the variables the statement mentions (alternating; thorough: both); "+
		"given: seeded random histories of up to sim_depth operations over any path of depth <= 3, and sim_expression_histories ones whose statements put a random expression (nesting <= 2) into a random sink) with x, y, $ after every operation; each is run on the document as root object and as element 0 of a root array; "+
		"non-trivial = at least two operations; distinct by program text. Index family: MC_HeapIdx emits every (array length 0..MaxLen) x (site: a variable, a member, $.a, $.b[0]) x (read, = 7, += 2, -= 2, += \"s\", ++ / -- prefix and postfix) x (index: every multiple of 1/4 in -(MaxLen+2)..MaxLen+2, and \"1\" \"-1\" \"0\" \"1.5\" true false null), thorough also two operations at one site, with the expected result, x, y and $; each is run with the index written as a literal, held in a variable and computed by a division, on the document as root and as element 0 of a root array (non-trivial = fractional index). Rounds family: MC_HeapRounds emits every (input: 5 (thorough 8) shapes of files x values over two documents) x (list of <= MaxSels root selectors over $ $.s $.s[0] $.s[-1] $.o $.o.q $.n, or none) x (9 writes below $) x (g = $ never / in the first round / in every round) with $ before and after the write of every round, g at END and the -o document (non-trivial = more than one round source). Read family: seeded random assignment-free expressions, -o document vs input")
	c.Set("checker_cmd", "tlc MC_Heap (Mode depth / breadth / names / expr / given), MC_HeapIdx, MC_HeapRounds; replay through lang.EvalProgram + GetRootJson")
	c.Set("bounds", map[string]any{"depth_ops": depth, "sim_histories": simN, "sim_expression_histories": simX, "sim_depth": simD})
	c.Set("histories", map[string]any{"replayed": stats.n, "ending_in_expected_error": stats.errs, "runs_needing_open_deviation": stats.dev})
}
