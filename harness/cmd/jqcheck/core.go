package main

import (
	"encoding/json"
	"fmt"
	"math/rand"
	"os"
	"regexp"
	"strconv"
	"strings"
)

// Generated programs of the language core (spec/JqCore.tla): each is produced
// as an AST (for the model) and as text (for the real interpreter); TLC
// re-executes the AST on the JqCore machine and compares the printed lines
// (spec/Trace_Core.tla).  Serves C05 / C07 / C08 on whole programs.

type coreGen struct {
	r      *rand.Rand
	inFn   bool
	inLoop int
	self   string   // name of the function being generated (for guarded recursion)
	params []string // parameters of the function being generated
	// a recursive function uses only its parameters: a local of an outer activation would be found by
	// the inner one through the frame chain (dynamic scoping, which the statement does not fix)
	recursive bool
	inRule    bool     // inside a pattern rule: $ and $index are bound
	fns       []string // functions that may be called (already generated)
	nloop     int
	nmatch    int
	topCall   bool     // the next call generated is a statement of its own
	gone      []string // variables first created inside a match arm or a call: unknown again afterwards
	probes    bool     // this program carries the fixed block of probe statements (every third program does)
	bound     []string // names bound by the patterns of the match arms around the code being generated
}

func cn(k string, kv ...any) Node {
	n := Node{"k": k}
	for i := 0; i+1 < len(kv); i += 2 {
		n[kv[i].(string)] = kv[i+1]
	}
	return n
}

func (g *coreGen) num(v int) Node {
	if v < 0 {
		return cn("bin", "op", "-", "l", map[string]any(cn("num", "v", 0)), "r", map[string]any(cn("num", "v", -v)))
	}
	return cn("num", "v", v)
}

func (g *coreGen) intVar() string {
	if g.inFn {
		vs := append([]string{"g0", "g1"}, g.params...)
		if !g.recursive {
			vs = append(vs, "l0"+g.self, "l1"+g.self)
		}
		return vs[g.r.Intn(len(vs))]
	}
	return []string{"g0", "g1", "g2", "i", "j"}[g.r.Intn(5)]
}

func (g *coreGen) intExpr(d int) Node {
	if g.inRule && g.r.Intn(4) == 0 {
		if g.r.Intn(3) == 0 {
			return cn("index")
		}
		return cn("dollar")
	}
	if !g.inFn && g.r.Intn(7) == 0 {
		return g.containerRead()
	}
	if d <= 0 {
		if g.r.Intn(2) == 0 {
			return g.num(g.r.Intn(10))
		}
		return cn("var", "n", g.intVar())
	}
	switch g.r.Intn(10) {
	case 0, 1:
		return g.num(g.r.Intn(12) - 2)
	case 2:
		return cn("var", "n", g.intVar())
	case 3, 4, 5:
		op := []string{"+", "-", "*", "+", "-"}[g.r.Intn(5)]
		if op == "*" {
			// a small positive literal factor most of the time: products stay in range and away from negative zero
			if g.r.Intn(5) > 0 {
				return cn("bin", "op", "*", "l", map[string]any(g.intExpr(d-1)), "r", map[string]any(g.num(1+g.r.Intn(4))))
			}
		}
		return cn("bin", "op", op, "l", map[string]any(g.intExpr(d-1)), "r", map[string]any(g.intExpr(d-1)))
	case 6:
		// remainder / exact division by a non-zero literal most of the time, sometimes by anything
		if g.r.Intn(12) == 0 {
			return cn("bin", "op", g.pick("%", "/"), "l", map[string]any(g.intExpr(d-1)), "r", map[string]any(g.intExpr(d-1)))
		}
		return cn("bin", "op", "%", "l", map[string]any(g.intExpr(d-1)), "r", map[string]any(g.num(1+g.r.Intn(5))))
	case 7:
		// unary minus only on a non-zero literal: IEEE negative zero is outside the integer model
		if g.r.Intn(2) == 0 {
			return cn("un", "op", "-", "e", map[string]any(cn("num", "v", 1+g.r.Intn(9))))
		}
		return cn("un", "op", "+", "e", map[string]any(g.intExpr(d-1)))
	case 8:
		if len(g.fns) > 1 && g.r.Intn(2) == 0 {
			// two calls in one expression: the left value is what the first call returned, whatever the second does
			return cn("bin", "op", g.pick("+", "-", "*"), "l", map[string]any(g.call(d)), "r", map[string]any(g.call(d)))
		}
		if len(g.fns) > 0 {
			return g.call(d)
		}
		return g.num(g.r.Intn(5))
	default:
		// coercions: booleans and null in arithmetic
		return cn("bin", "op", g.pick("+", "-"), "l", map[string]any(g.anyExpr(d-1)), "r", map[string]any(g.intExpr(d-1)))
	}
}

func (g *coreGen) pick(xs ...string) string { return xs[g.r.Intn(len(xs))] }

func (g *coreGen) call(d int) Node {
	f := g.fns[g.r.Intn(len(g.fns))]
	n := g.r.Intn(4) // 0..3 arguments: missing ones are null, surplus ones are evaluated and ignored
	args := make([]any, n)
	for i := range args {
		args[i] = map[string]any(g.intExpr(d - 1))
	}
	if n >= 2 && !g.recursive && g.topCall {
		// a later argument changes a variable passed earlier: the earlier parameter keeps the value it had.
		// (Only in a call that is a statement of its own: as an operand, the variable could also be an earlier
		// plain-variable operand of the enclosing expression, which is read only when its operator is applied.)
		v := g.intVar()
		args[0] = map[string]any(cn("var", "n", v))
		args[1] = map[string]any(cn("inc", "n", v, "op", g.pick("++", "--"), "post", g.r.Intn(2) == 0))
		if g.r.Intn(2) == 0 {
			// an argument written as an assignment: the parameter gets the assigned value, not the variable
			args[0] = map[string]any(cn("asg", "n", v, "op", g.pick("=", "+="), "e", map[string]any(g.num(1+g.r.Intn(5)))))
			args[1] = map[string]any(g.num(g.r.Intn(3)))
		}
	}
	g.topCall = false
	return cn("call", "f", f, "args", args)
}

func (g *coreGen) strExpr(d int) Node {
	lit := func() Node { return cn("str", "v", g.pick("a", "bc", "", "x y", "Zq")) }
	if d <= 0 {
		return lit()
	}
	switch g.r.Intn(5) {
	case 0:
		return lit()
	case 1:
		if !g.inFn {
			return cn("var", "n", "s0")
		}
		return lit()
	case 2:
		return cn("bin", "op", "+", "l", map[string]any(g.strExpr(d-1)), "r", map[string]any(g.intExpr(d-1)))
	case 3:
		return cn("bin", "op", "+", "l", map[string]any(g.anyExpr(d-1)), "r", map[string]any(g.strExpr(d-1)))
	default:
		return cn("bin", "op", "+", "l", map[string]any(g.strExpr(d-1)), "r", map[string]any(g.strExpr(d-1)))
	}
}

func (g *coreGen) boolExpr(d int) Node {
	if d <= 0 {
		return cn("bool", "v", g.r.Intn(2) == 0)
	}
	switch g.r.Intn(8) {
	case 0:
		return cn("bool", "v", g.r.Intn(2) == 0)
	case 1, 2, 3:
		op := g.pick("<", "<=", ">", ">=", "==", "!=")
		return cn("bin", "op", op, "l", map[string]any(g.intExpr(d-1)), "r", map[string]any(g.intExpr(d-1)))
	case 4:
		return cn("bin", "op", g.pick("==", "!="), "l", map[string]any(g.strExpr(d-1)), "r", map[string]any(g.strExpr(d-1)))
	case 5:
		return cn("bin", "op", g.pick("&&", "||"), "l", map[string]any(g.anyExpr(d-1)), "r", map[string]any(g.anyExpr(d-1)))
	case 6:
		if g.r.Intn(2) == 0 {
			// the kind of a value: of an expression, a variable that may be unset, a container, an element
			var e Node
			switch g.r.Intn(5) {
			case 0:
				e = cn("var", "n", g.pick("g0", "s0", "r1", "o0", "cnt", "pv", "nosuchvar"))
			case 1:
				if !g.inFn {
					e = g.containerRead()
				} else {
					e = g.anyExpr(d - 1)
				}
			case 2:
				if g.inRule {
					e = cn("dollar")
				} else {
					e = cn("null")
				}
			default:
				e = g.anyExpr(d - 1)
			}
			return cn("is", "e", map[string]any(e), "ty", g.pick("string", "number", "bool", "array", "object", "null", "unknown", "regex", "function", "thing"))
		}
		return cn("un", "op", "!", "e", map[string]any(g.anyExpr(d-1)))
	default:
		// comparisons across kinds: null below everything, booleans as 0/1, non-numeric strings as 0
		op := g.pick("<", "<=", ">", ">=", "==", "!=")
		if g.r.Intn(2) == 0 {
			return cn("bin", "op", op, "l", map[string]any(g.anyExpr(d-1)), "r", map[string]any(g.intExpr(d-1)))
		}
		return cn("bin", "op", op, "l", map[string]any(g.intExpr(d-1)), "r", map[string]any(g.anyExpr(d-1)))
	}
}

func (g *coreGen) anyExpr(d int) Node {
	switch g.r.Intn(8) {
	case 0:
		return cn("null")
	case 1, 2:
		return g.boolExpr(d)
	case 3:
		return g.strExpr(d)
	default:
		return g.intExpr(d)
	}
}

// keys of the model's key universe (spec/JqCore.tla KeyUniverse) used as object keys
var coreKeys = []string{"a", "b", "c", "k", "n", "ab", "bc", "Zq", "x y", "0", "7"}

func (g *coreGen) keyExpr() Node {
	switch g.r.Intn(6) {
	case 0:
		return cn("num", "v", g.r.Intn(5))
	case 1:
		if g.inRule {
			return cn("index")
		}
		return cn("str", "v", g.pick("a", "b"))
	case 2:
		if g.inRule {
			return cn("idx", "n", "$", "key", map[string]any(cn("str", "v", g.pick("a", "n"))))
		}
		return cn("str", "v", g.pick("k", "n"))
	default:
		return cn("str", "v", g.pick(coreKeys...))
	}
}

func (g *coreGen) arrIndex() Node {
	switch g.r.Intn(6) {
	case 0:
		return g.num(-1)
	case 1:
		return g.num(-2)
	case 2:
		return cn("var", "n", g.pick("i", "g1"))
	default:
		return cn("num", "v", g.r.Intn(6))
	}
}

// containerRead: an expression that reads an array element, an object member, a length, or $'s members
func (g *coreGen) containerRead() Node {
	switch g.r.Intn(7) {
	case 0, 1:
		return cn("idx", "n", g.pick("r0", "r1"), "key", map[string]any(g.arrIndex()))
	case 2:
		return cn("idx", "n", g.pick("o0", "cnt"), "key", map[string]any(g.keyExpr()))
	case 3:
		return cn("mcall", "n", g.pick("r0", "r1", "o0", "s0"), "m", "length", "args", []any{})
	case 4:
		if g.inRule {
			return cn("idx", "n", "$", "key", map[string]any(cn("str", "v", g.pick("a", "n", "b"))))
		}
		return cn("mcall", "n", "r1", "m", "length", "args", []any{})
	case 5:
		// a container used as an operand (truthy, number 0, string form ""), never stored anywhere:
		// storing it would alias it, and growth through an alias is the open finding alias-length
		return cn("bin", "op", "+", "l", map[string]any(cn("var", "n", g.pick("r1", "o0"))), "r", map[string]any(g.num(g.r.Intn(5))))
	default:
		// (pop is only used as a statement of its own: inside a larger expression the order in which the
		// target cell is resolved and the array shrinks is not fixed by the statement)
		return cn("idx", "n", "r1", "key", map[string]any(g.num(0)))
	}
}

func (g *coreGen) elemExpr() Node {
	switch g.r.Intn(6) {
	case 0:
		return g.strExpr(1)
	case 1:
		return cn("arr", "items", []any{map[string]any(g.intExpr(1)), map[string]any(g.strExpr(1))})
	case 2:
		return cn("obj", "keys", []any{"k", "a"}, "vals", []any{map[string]any(g.intExpr(1)), map[string]any(g.anyExpr(1))})
	default:
		return g.intExpr(2)
	}
}

// containerStmt: statements on arrays and objects (never through an alias: see the open finding alias-length)
func (g *coreGen) containerStmt(d int) Node {
	ex := func(e Node) Node { return cn("expr", "e", map[string]any(e)) }
	switch g.r.Intn(12) {
	case 0, 1:
		return ex(cn("mcall", "n", g.pick("r0", "r1"), "m", "push", "args", []any{map[string]any(g.elemExpr())}))
	case 2:
		return ex(cn("asgidx", "n", g.pick("r0", "r1"), "key", map[string]any(g.arrIndex()), "op", g.pick("=", "=", "+=", "-="), "e", map[string]any(g.intExpr(1))))
	case 3:
		switch g.r.Intn(4) {
		case 0:
			// a member added through the other reference, or through a parameter: every reference sees it, also a later for-in
			return ex(cn("asgidx", "n", "oa", "key", map[string]any(g.keyExpr()), "op", "=", "e", map[string]any(g.anyExpr(1))))
		case 1:
			return ex(cn("call", "f", "ak", "args", []any{map[string]any(cn("var", "n", g.pick("o0", "oa"))), map[string]any(cn("str", "v", g.pick(coreKeys...)))}))
		}
		return ex(cn("asgidx", "n", "o0", "key", map[string]any(g.keyExpr()), "op", g.pick("=", "=", "+="), "e", map[string]any(g.anyExpr(1))))
	case 4, 5:
		// the counting idiom of the README: cnt[key]++ on a variable that may not exist yet
		return ex(cn("incidx", "n", "cnt", "key", map[string]any(g.keyExpr()), "op", g.pick("++", "++", "--"), "post", true))
	case 6:
		return cn("print", "args", []any{map[string]any(cn("var", "n", g.pick("r0", "r1", "o0", "cnt")))})
	case 7:
		return cn("print", "args", []any{map[string]any(cn("str", "v", "len")), map[string]any(cn("mcall", "n", g.pick("r0", "r1", "o0", "cnt", "s0"), "m", "length", "args", []any{}))})
	case 8, 9:
		g.nloop++
		v1, v2 := fmt.Sprintf("e%d", g.nloop), ""
		if g.r.Intn(2) == 0 {
			v2 = fmt.Sprintf("x%d", g.nloop)
		}
		g.inLoop++
		body := g.block(d-1, 1+g.r.Intn(2))
		g.inLoop--
		args := []any{map[string]any(cn("str", "v", "it")), map[string]any(cn("var", "n", v1))}
		if v2 != "" {
			args = append(args, map[string]any(cn("var", "n", v2)))
		}
		body["b"] = append([]any{map[string]any(cn("print", "args", args))}, body["b"].([]any)...)
		it := g.pick("r0", "r1", "o0", "cnt", "s0", "oa", "o0")
		if g.inRule && g.r.Intn(3) == 0 {
			it = "$"
		}
		switch g.r.Intn(8) {
		case 0:
			// the loop variable is the iterated variable itself: the loop still visits the original elements
			if it == "r0" || it == "r1" {
				v1 = it
				args[1] = map[string]any(cn("var", "n", v1))
			}
		case 1:
			// the body re-assigns the iterated variable, or pushes onto it: the loop is not affected
			if it == "r0" || it == "r1" {
				extra := cn("expr", "e", map[string]any(cn("asg", "n", it, "op", "=", "e", map[string]any(cn("arr", "items", []any{map[string]any(g.num(9))})))))
				if g.r.Intn(2) == 0 {
					extra = cn("expr", "e", map[string]any(cn("mcall", "n", it, "m", "push", "args", []any{map[string]any(g.num(8))})))
				}
				body["b"] = append(body["b"].([]any), map[string]any(extra))
			}
		case 2, 3:
			// the body changes an element / member that is visited later: each pass reads its element when it starts
			var w Node
			switch it {
			case "r0", "r1":
				w = cn("asgidx", "n", it, "key", map[string]any(g.num(-1)), "op", g.pick("=", "+="), "e", map[string]any(g.num(10+g.r.Intn(80))))
			case "o0":
				w = cn("asgidx", "n", it, "key", map[string]any(cn("str", "v", g.pick("b", "k", "bc"))), "op", "=", "e", map[string]any(g.num(10+g.r.Intn(80))))
			}
			if w != nil {
				b := body["b"].([]any)
				body["b"] = append([]any{b[0], map[string]any(cn("expr", "e", map[string]any(w)))}, b[1:]...)
			}
		}
		if it == "s0" && g.inRule && g.r.Intn(2) == 0 {
			// a signal raised inside a for-in over a string leaves it like any other loop
			sig := cn("block", "b", []any{map[string]any(cn(g.pick("next", "next", "exit", "break", "continue")))})
			var cond Node = g.boolExpr(1)
			if g.r.Intn(2) == 0 {
				cond = cn("bin", "op", "==", "l", map[string]any(cn("var", "n", v1)), "r", map[string]any(cn("str", "v", "b"))) // s0 is "ab" unless re-assigned
			}
			body["b"] = append(body["b"].([]any), map[string]any(cn("if", "c", map[string]any(cond), "th", map[string]any(sig), "el", map[string]any(cn("none")))))
		}
		return cn("forin", "v1", v1, "v2", v2, "n", it, "b", map[string]any(body))
	case 10:
		return ex(cn("asg", "n", "pv", "op", "=", "e", map[string]any(cn("mcall", "n", g.pick("r0", "r1"), "m", "pop", "args", []any{}))))
	default:
		if g.inRule {
			return ex(cn("asgidx", "n", "$", "key", map[string]any(cn("str", "v", g.pick("a", "c"))), "op", "=", "e", map[string]any(g.intExpr(1))))
		}
		return ex(cn("asgidx", "n", "o0", "key", map[string]any(cn("str", "v", "k")), "op", "=", "e", map[string]any(cn("arr", "items", []any{map[string]any(g.intExpr(1))}))))
	}
}

// ---- match expressions (spec/JqCore.tla, "match"): literal, name and array patterns; expression and block arms.
// Names bound by a pattern hold values (scalars copied, containers shared): arms also assign to them, and
// the subject is often a plain variable, an element or $, so that a binding that aliased the subject's
// cell would show.

func (g *coreGen) litPat() Node {
	switch g.r.Intn(6) {
	case 0:
		return cn("plit", "v", map[string]any(cn("str", "v", g.pick("a", "bc", "", "ab", "7"))))
	case 1:
		return cn("plit", "v", map[string]any(cn(g.pick("null", "bool"), "v", g.r.Intn(2) == 0)))
	default:
		return cn("plit", "v", map[string]any(cn("num", "v", g.r.Intn(8))))
	}
}

func (g *coreGen) pattern(d int, names *[]string) Node {
	switch g.r.Intn(7) {
	case 0, 1:
		g.nmatch++
		n := fmt.Sprintf("m%d", g.nmatch)
		if g.r.Intn(6) == 0 {
			n = "_"
		}
		*names = append(*names, n)
		return cn("pid", "n", n)
	case 2:
		if d > 0 {
			k := g.r.Intn(4)
			items := make([]any, k)
			for i := range items {
				items[i] = map[string]any(g.pattern(d-1, names))
			}
			return cn("parr", "items", items)
		}
		return g.litPat()
	default:
		return g.litPat()
	}
}

// overlapMatch: only literal patterns, consecutive cases sharing an alternative (also through coercion: "2"
// against 2), the subject varying from one evaluation to the next: the FIRST matching case is taken every
// time, whichever case was taken the time before.
func (g *coreGen) overlapMatch() Node {
	base := g.r.Intn(3)
	lit := func(n int) map[string]any {
		if g.r.Intn(4) == 0 {
			return map[string]any(cn("plit", "v", map[string]any(cn("str", "v", strconv.Itoa(n)))))
		}
		return map[string]any(cn("plit", "v", map[string]any(cn("num", "v", n))))
	}
	var cases []any
	for i := 0; i < 3; i++ {
		cases = append(cases, map[string]any(cn("case", "pats", []any{lit(base + i), lit(base + i + 1)}, "bk", "expr", "b", map[string]any(cn("str", "v", []string{"low", "mid", "hi"}[i])))))
	}
	var subj Node
	switch {
	case g.inRule && g.r.Intn(2) == 0:
		subj = cn("index")
		if g.r.Intn(2) == 0 {
			subj = cn("bin", "op", "-", "l", map[string]any(g.num(3+g.r.Intn(2))), "r", map[string]any(cn("index")))
		}
	default:
		subj = cn("bin", "op", "%", "l", map[string]any(cn("var", "n", g.intVar())), "r", map[string]any(g.num(5)))
	}
	return cn("match", "e", map[string]any(subj), "cases", cases)
}

func (g *coreGen) matchExpr(d int) Node {
	if g.r.Intn(6) == 0 {
		return g.overlapMatch()
	}
	// subject
	var subj Node
	direct := false
	switch g.r.Intn(8) {
	case 0:
		subj, direct = cn("var", "n", g.intVar()), true
	case 1:
		if g.inRule {
			subj, direct = cn("dollar"), true
		} else if !g.inFn {
			subj, direct = cn("var", "n", g.pick("r0", "r1", "s0", "pv")), true
		} else {
			subj = g.anyExpr(1)
		}
	case 2:
		if !g.inFn {
			subj, direct = cn("idx", "n", g.pick("r0", "r1"), "key", map[string]any(g.arrIndex())), true
		} else {
			subj = g.intExpr(1)
		}
	case 3:
		subj = cn("arr", "items", []any{map[string]any(g.intExpr(1)), map[string]any(g.anyExpr(1))})
	case 4:
		subj = g.strExpr(1)
	default:
		subj = g.intExpr(1)
	}
	ncases := 1 + g.r.Intn(3)
	cases := make([]any, 0, ncases)
	binds := false
	impure := false
	// an array held by a variable against an array pattern of names of (probably) its length: the names hold
	// the elements' values, assigning to them leaves the array as it was
	arrSubject := !g.inFn && g.r.Intn(5) == 0
	if arrSubject {
		subj, direct = cn("var", "n", "r1"), true
	}
	for i := 0; i < ncases; i++ {
		var names []string
		npats := 1 + g.r.Intn(2)
		pats := make([]any, npats)
		for j := range pats {
			pats[j] = map[string]any(g.pattern(1, &names))
		}
		if arrSubject && i == 0 {
			names = nil
			items := []any{}
			for k := 0; k < 3+g.r.Intn(2)*g.r.Intn(2); k++ {
				g.nmatch++
				n := fmt.Sprintf("m%d", g.nmatch)
				names = append(names, n)
				items = append(items, map[string]any(cn("pid", "n", n)))
			}
			pats = []any{map[string]any(cn("parr", "items", items))}
			npats = 1
		}
		// a name bound by only one of several alternatives is unset when another one matched: read only
		// the names of a single-alternative case
		readable := names
		if npats > 1 {
			readable = nil
		}
		if len(names) > 0 {
			binds = true
		}
		saved := g.bound
		g.bound = append(append([]string{}, g.bound...), readable...)
		var c Node
		if (d > 0 && g.r.Intn(3) == 0) || (arrSubject && i == 0) {
			body := g.block(d-1, 1+g.r.Intn(2))
			if len(readable) > 0 {
				args := []any{map[string]any(cn("str", "v", "m"))}
				for _, n := range readable {
					args = append(args, map[string]any(cn("var", "n", n)))
				}
				pre := []any{map[string]any(cn("print", "args", args))}
				if g.r.Intn(2) == 0 || arrSubject {
					// assigning to a bound name changes neither the subject nor anything else
					n := readable[g.r.Intn(len(readable))]
					if g.r.Intn(2) == 0 {
						pre = append(pre, map[string]any(cn("expr", "e", map[string]any(cn("asg", "n", n, "op", "=", "e", map[string]any(g.intExpr(1)))))))
					} else {
						pre = append(pre, map[string]any(cn("expr", "e", map[string]any(cn("inc", "n", n, "op", g.pick("++", "--"), "post", true)))))
					}
					pre = append(pre, map[string]any(cn("print", "args", []any{map[string]any(cn("str", "v", "m2")), map[string]any(cn("var", "n", n))})))
				}
				body["b"] = append(pre, body["b"].([]any)...)
			}
			if g.r.Intn(2) == 0 {
				// a variable first created in the arm (whatever patterns selected it) is gone when the arm is left
				g.nmatch++
				nv := fmt.Sprintf("nv%d", g.nmatch)
				g.gone = append(g.gone, nv)
				body["b"] = append([]any{map[string]any(cn("expr", "e", map[string]any(cn("asg", "n", nv, "op", "=", "e", map[string]any(g.num(1))))))}, body["b"].([]any)...)
			}
			c = cn("case", "pats", pats, "bk", "block", "b", map[string]any(body))
			impure = true
		} else {
			var e Node
			switch {
			case len(readable) > 0 && g.r.Intn(3) > 0:
				e = cn("bin", "op", g.pick("+", "-", "==", "<"), "l", map[string]any(cn("var", "n", readable[g.r.Intn(len(readable))])), "r", map[string]any(g.num(g.r.Intn(5))))
			case len(readable) > 0:
				e = cn("var", "n", readable[0])
			case g.r.Intn(3) == 0 && len(g.fns) > 0:
				e = g.call(1)
				impure = true
			default:
				e = g.anyExpr(1)
				impure = true // may contain a call
			}
			c = cn("case", "pats", pats, "bk", "expr", "b", map[string]any(e))
		}
		g.bound = saved
		cases = append(cases, map[string]any(c))
	}
	_, _, _ = direct, binds, impure
	return cn("match", "e", map[string]any(subj), "cases", cases)
}

// hdrCond wraps a loop condition so that, instead of just ending the inner loop, a false condition breaks out of
// (or continues) the loop AROUND it: a signal raised in a loop's header belongs to the enclosing loop.
func (g *coreGen) hdrCond(cond Node, outer bool) Node {
	if !outer || g.r.Intn(4) != 0 {
		return cond
	}
	sig := cn("block", "b", []any{map[string]any(cn(g.pick("break", "continue")))})
	return cn("match", "e", map[string]any(cond), "cases", []any{
		map[string]any(cn("case", "pats", []any{map[string]any(cn("plit", "v", map[string]any(cn("bool", "v", true))))}, "bk", "expr", "b", map[string]any(cn("num", "v", 1)))),
		map[string]any(cn("case", "pats", []any{map[string]any(cn("pid", "n", "_"))}, "bk", "block", "b", map[string]any(sig)))})
}

func (g *coreGen) block(d, n int) Node {
	b := make([]any, 0, n)
	for i := 0; i < n; i++ {
		b = append(b, map[string]any(g.stmt(d)))
	}
	return cn("block", "b", b)
}

func (g *coreGen) assignTarget() string {
	if g.inFn {
		if g.recursive {
			return "a"
		}
		return g.pick("l0"+g.self, "l1"+g.self, "a")
	}
	return g.pick("g0", "g1", "g2", "s0r")
}

func (g *coreGen) stmt(d int) Node {
	simple := func() Node {
		switch g.r.Intn(7) {
		case 0, 1, 2:
			n := 1 + g.r.Intn(3)
			args := make([]any, n)
			for i := range args {
				args[i] = map[string]any(g.anyExpr(2))
			}
			return cn("print", "args", args)
		case 3, 4:
			t := g.assignTarget()
			if t == "s0r" {
				return cn("expr", "e", map[string]any(cn("asg", "n", "s0", "op", "=", "e", map[string]any(g.strExpr(2)))))
			}
			op := g.pick("=", "=", "+=", "-=", "+=", "*=")
			if op == "*=" {
				return cn("expr", "e", map[string]any(cn("asg", "n", t, "op", op, "e", map[string]any(g.num(1+g.r.Intn(3))))))
			}
			return cn("expr", "e", map[string]any(cn("asg", "n", t, "op", op, "e", map[string]any(g.intExpr(2)))))
		case 5:
			t := g.assignTarget()
			if t == "s0r" {
				t = "g1"
			}
			return cn("expr", "e", map[string]any(cn("inc", "n", t, "op", g.pick("++", "--"), "post", g.r.Intn(2) == 0)))
		default:
			if len(g.fns) > 0 {
				g.topCall = g.r.Intn(3) == 0
				return cn("expr", "e", map[string]any(g.call(2)))
			}
			return cn("print", "args", []any{map[string]any(g.intExpr(1))})
		}
	}
	if !g.inFn && g.r.Intn(4) == 0 {
		return g.containerStmt(d)
	}
	if g.r.Intn(25) == 0 {
		// conditions that are literals of every kind: a loop / branch is governed by the value, not by the token
		lit := func() Node {
			switch g.r.Intn(7) {
			case 0:
				return cn("num", "v", 0)
			case 1:
				return cn("str", "v", "")
			case 2:
				return cn("null")
			case 3:
				return cn("bool", "v", false)
			case 4:
				return cn("bin", "op", "-", "l", map[string]any(cn("num", "v", 2)), "r", map[string]any(cn("num", "v", 2)))
			case 5:
				return cn("str", "v", "a")
			default:
				return cn("num", "v", 1+g.r.Intn(3))
			}
		}
		never := cn("block", "b", []any{map[string]any(cn("print", "args", []any{map[string]any(cn("str", "v", "in"))})), map[string]any(cn("break"))})
		once := cn("block", "b", []any{map[string]any(cn("print", "args", []any{map[string]any(cn("str", "v", "body"))}))})
		switch g.r.Intn(3) {
		case 0:
			return cn("while", "c", map[string]any(lit()), "b", map[string]any(never))
		case 1:
			return cn("if", "c", map[string]any(lit()), "th", map[string]any(once), "el", map[string]any(cn("block", "b", []any{map[string]any(cn("print", "args", []any{map[string]any(cn("str", "v", "other"))}))})))
		default:
			g.nloop++
			v := fmt.Sprintf("f%d", g.nloop)
			return cn("for", "init", map[string]any(cn("asg", "n", v, "op", "=", "e", map[string]any(g.num(0)))), "c", map[string]any(lit()),
				"post", map[string]any(cn("inc", "n", v, "op", "++", "post", true)), "b", map[string]any(never))
		}
	}
	if !g.inFn && g.r.Intn(30) == 0 {
		return cn("block", "b", []any{
			map[string]any(cn("expr", "e", map[string]any(cn("call", "f", "pr", "args", []any{map[string]any(g.num(1 + g.r.Intn(2)))})))),
			map[string]any(cn("print", "args", []any{map[string]any(cn("str", "v", "pr2")), map[string]any(cn("call", "f", "pr", "args", []any{map[string]any(g.num(2))}))}))})
	}
	if !g.inFn && g.r.Intn(20) == 0 {
		v := g.pick("g0", "g1", "g2")
		arg := cn("asg", "n", v, "op", g.pick("=", "+=", "-="), "e", map[string]any(g.num(1+g.r.Intn(6))))
		return cn("block", "b", []any{
			map[string]any(cn("print", "args", []any{map[string]any(cn("str", "v", "bmp")), map[string]any(cn("call", "f", "bmp", "args", []any{map[string]any(arg)}))})),
			map[string]any(cn("print", "args", []any{map[string]any(cn("str", "v", "bmp2")), map[string]any(cn("var", "n", v))}))})
	}
	if !g.inFn && g.r.Intn(14) == 0 {
		if g.r.Intn(2) == 0 {
			return cn("print", "args", []any{map[string]any(cn("str", "v", "ack")), map[string]any(cn("call", "f", "fack", "args", []any{map[string]any(g.num(1 + g.r.Intn(3))), map[string]any(g.num(g.r.Intn(3)))}))})
		}
		// a member that may be missing, returned by one call and handed to a callee that assigns its parameter
		return cn("print", "args", []any{map[string]any(cn("str", "v", "od")),
			map[string]any(cn("call", "f", "od", "args", []any{map[string]any(cn("call", "f", "gm", "args", []any{map[string]any(cn("var", "n", g.pick("o0", "oa"))), map[string]any(cn("str", "v", g.pick(coreKeys...)))})), map[string]any(g.num(5 + g.r.Intn(4)))})),
			map[string]any(cn("var", "n", "o0"))})
	}
	if !g.inFn && g.r.Intn(12) == 0 {
		hh := func() Node {
			return cn("bin", "op", g.pick("+", "-", "*"), "l", map[string]any(cn("call", "f", "hr", "args", []any{})), "r", map[string]any(cn("call", "f", "hb", "args", []any{map[string]any(g.num(1 + g.r.Intn(3)))})))
		}
		return cn("print", "args", []any{map[string]any(cn("str", "v", "hh")), map[string]any(hh()), map[string]any(hh())})
	}
	if g.r.Intn(7) == 0 {
		m := g.matchExpr(d)
		switch g.r.Intn(3) {
		case 0:
			return cn("expr", "e", map[string]any(m))
		case 1:
			return cn("print", "args", []any{map[string]any(cn("str", "v", "mv")), map[string]any(m)})
		default:
			t := g.assignTarget()
			if t == "s0r" {
				t = "g2"
			}
			return cn("expr", "e", map[string]any(cn("asg", "n", t, "op", "=", "e", map[string]any(m))))
		}
	}
	if d <= 0 {
		return simple()
	}
	switch g.r.Intn(12) {
	case 0, 1, 2, 3:
		return simple()
	case 4:
		return cn("if", "c", map[string]any(g.anyExpr(2)), "th", map[string]any(g.block(d-1, 1+g.r.Intn(2))), "el", map[string]any(cn("none")))
	case 5:
		if g.r.Intn(3) == 0 {
			// the condition is a plain variable (or an assignment to one) that the taken branch then makes falsy /
			// truthy: the branch was chosen by the value the condition had, and exactly one branch runs
			v := g.intVar()
			var cond Node = cn("var", "n", v)
			if g.r.Intn(4) == 0 {
				cond = cn("asg", "n", v, "op", "=", "e", map[string]any(g.num(1+g.r.Intn(3))))
			}
			th := g.block(d-1, 1+g.r.Intn(2))
			el := g.block(d-1, 1+g.r.Intn(2))
			th["b"] = append([]any{map[string]any(cn("print", "args", []any{map[string]any(cn("str", "v", "then"))})), map[string]any(cn("expr", "e", map[string]any(cn("asg", "n", v, "op", "=", "e", map[string]any(g.num(0))))))}, th["b"].([]any)...)
			el["b"] = append([]any{map[string]any(cn("print", "args", []any{map[string]any(cn("str", "v", "else"))})), map[string]any(cn("expr", "e", map[string]any(cn("asg", "n", v, "op", "=", "e", map[string]any(g.num(2))))))}, el["b"].([]any)...)
			return cn("if", "c", map[string]any(cond), "th", map[string]any(th), "el", map[string]any(el))
		}
		return cn("if", "c", map[string]any(g.boolExpr(2)), "th", map[string]any(g.block(d-1, 1+g.r.Intn(2))), "el", map[string]any(g.block(d-1, 1+g.r.Intn(2))))
	case 6, 7:
		if g.recursive {
			return simple() // a loop variable of an outer activation would be captured by the inner one
		}
		// a counted while loop: the counter is advanced first, so continue cannot loop forever
		g.nloop++
		v := fmt.Sprintf("w%d", g.nloop)
		outer := g.inLoop > 0
		g.inLoop++
		body := g.block(d-1, 1+g.r.Intn(3))
		g.inLoop--
		inc := map[string]any(cn("expr", "e", map[string]any(cn("inc", "n", v, "op", "++", "post", true))))
		body["b"] = append([]any{inc}, body["b"].([]any)...)
		loop := cn("while", "c", map[string]any(g.hdrCond(cn("bin", "op", "<", "l", map[string]any(cn("var", "n", v)), "r", map[string]any(g.num(1+g.r.Intn(4)))), outer)), "b", map[string]any(body))
		init := cn("expr", "e", map[string]any(cn("asg", "n", v, "op", "=", "e", map[string]any(g.num(0)))))
		return cn("block", "b", []any{map[string]any(init), map[string]any(loop)})
	case 8, 9:
		if g.recursive {
			return simple()
		}
		g.nloop++
		v := fmt.Sprintf("f%d", g.nloop)
		outer := g.inLoop > 0
		g.inLoop++
		body := g.block(d-1, 1+g.r.Intn(3))
		g.inLoop--
		if g.r.Intn(4) == 0 {
			// the same literal-only match evaluated on every pass with the loop variable as its subject
			m := g.overlapMatch()
			m["e"] = map[string]any(cn("var", "n", v))
			if g.r.Intn(3) > 0 {
				// a descending subject: each evaluation would also match the case taken the time before
				m["e"] = map[string]any(cn("bin", "op", "%", "l", map[string]any(cn("bin", "op", "-", "l", map[string]any(g.num(7+g.r.Intn(2))), "r", map[string]any(cn("var", "n", v)))), "r", map[string]any(g.num(4+g.r.Intn(2)))))
			}
			body["b"] = append([]any{map[string]any(cn("print", "args", []any{map[string]any(cn("str", "v", "ov")), map[string]any(m)}))}, body["b"].([]any)...)
		}
		return cn("for", "init", map[string]any(cn("asg", "n", v, "op", "=", "e", map[string]any(g.num(g.r.Intn(2))))),
			"c", map[string]any(g.hdrCond(cn("bin", "op", g.pick("<", "<="), "l", map[string]any(cn("var", "n", v)), "r", map[string]any(g.num(1+g.r.Intn(4)))), outer)),
			"post", map[string]any(cn("inc", "n", v, "op", "++", "post", g.r.Intn(2) == 0)), "b", map[string]any(body))
	case 10:
		if g.inLoop > 0 {
			return cn("if", "c", map[string]any(g.boolExpr(1)), "th", map[string]any(cn("block", "b", []any{map[string]any(cn(g.pick("break", "continue")))})), "el", map[string]any(cn("none")))
		}
		return simple()
	default:
		if g.inFn {
			if g.r.Intn(3) == 0 {
				return cn("return", "e", map[string]any(cn("none")))
			}
			return cn("return", "e", map[string]any(g.anyExpr(2)))
		}
		if g.r.Intn(12) == 0 {
			return cn("exit")
		}
		if g.r.Intn(5) == 0 {
			return cn("if", "c", map[string]any(g.boolExpr(1)), "th", map[string]any(cn("block", "b", []any{map[string]any(cn("next"))})), "el", map[string]any(cn("none")))
		}
		return simple()
	}
}

func (g *coreGen) function(name string) Node {
	g.inFn = true
	g.self = name
	saved := g.inLoop
	g.inLoop = 0
	defer func() { g.inFn = false; g.inLoop = saved }()
	var stmts []any
	recursive := g.r.Intn(2) == 0
	g.recursive = recursive
	defer func() { g.recursive = false }()
	g.params = []string{"a", "b"}[:1+g.r.Intn(2)]
	if recursive {
		// guarded recursion on the first parameter
		stmts = append(stmts, map[string]any(cn("if", "c", map[string]any(cn("bin", "op", "<=", "l", map[string]any(cn("var", "n", "a")), "r", map[string]any(g.num(0)))),
			"th", map[string]any(cn("block", "b", []any{map[string]any(cn("return", "e", map[string]any(g.num(g.r.Intn(3)))))})), "el", map[string]any(cn("none")))))
	}
	if !recursive {
		stmts = append(stmts, map[string]any(cn("expr", "e", map[string]any(cn("asg", "n", "l0"+name, "op", "=", "e", map[string]any(g.intExpr(1)))))))
		stmts = append(stmts, map[string]any(cn("expr", "e", map[string]any(cn("asg", "n", "l1"+name, "op", "=", "e", map[string]any(g.num(g.r.Intn(4))))))))
	}
	n := 1 + g.r.Intn(3)
	for i := 0; i < n; i++ {
		stmts = append(stmts, map[string]any(g.stmt(2)))
	}
	if !recursive && g.r.Intn(2) == 0 {
		h := g.pick("h0", "h1")
		rhs := cn("bin", "op", g.pick("+", "-"), "l", map[string]any(cn("var", "n", h)), "r", map[string]any(g.num(1+g.r.Intn(4))))
		if g.r.Intn(3) == 0 {
			rhs = cn("bin", "op", "+", "l", map[string]any(cn("var", "n", "a")), "r", map[string]any(g.num(g.r.Intn(4))))
		}
		hs := map[string]any(cn("expr", "e", map[string]any(cn("asg", "n", h, "op", "=", "e", map[string]any(rhs)))))
		k := g.r.Intn(len(stmts) + 1)
		stmts = append(stmts[:k], append([]any{hs}, stmts[k:]...)...)
	}
	if recursive {
		rec := cn("call", "f", name, "args", []any{map[string]any(cn("bin", "op", "-", "l", map[string]any(cn("var", "n", "a")), "r", map[string]any(g.num(1)))), map[string]any(g.num(g.r.Intn(4)))})
		stmts = append(stmts, map[string]any(cn("return", "e", map[string]any(cn("bin", "op", g.pick("+", "*", "-"), "l", map[string]any(g.intExpr(1)), "r", map[string]any(rec))))))
	} else if g.r.Intn(3) == 0 {
		// the value of a global at the time of the return (not the variable itself: a later assignment
		// to it, e.g. by the next call in the same expression, does not change what was returned).
		// h0 / h1 are globals only functions assign (an assignment to an existing global persists), with
		// call-free right-hand sides; outside functions they are only printed in statements of their own:
		// an operand that is a plain variable is read when its operator is applied, i.e. after a later
		// operand's call may have changed it - an order the statement does not fix.
		stmts = append(stmts, map[string]any(cn("return", "e", map[string]any(cn("var", "n", g.pick("h0", "h1"))))))
	} else if g.r.Intn(3) > 0 {
		stmts = append(stmts, map[string]any(cn("return", "e", map[string]any(g.anyExpr(2)))))
	}
	return cn("fn", "name", name, "params", strs2any(g.params), "body", map[string]any(cn("block", "b", stmts)))
}

func strs2any(ss []string) []any {
	out := make([]any, len(ss))
	for i, s := range ss {
		out[i] = s
	}
	return out
}

// probeStmts: a fixed block of statements, one per interplay that a random program hits only now and then
// (each is explained where the random generator produces the same form).
func (g *coreGen) probeStmts() []any {
	m := func(n Node) map[string]any { return map[string]any(n) }
	pr := func(args ...any) map[string]any { return m(cn("print", "args", args)) }
	str := func(v string) map[string]any { return m(cn("str", "v", v)) }
	vr := func(n string) map[string]any { return m(cn("var", "n", n)) }
	num := func(v int) map[string]any { return m(g.num(v)) }
	ex := func(e Node) map[string]any { return m(cn("expr", "e", m(e))) }
	call := func(f string, args ...any) map[string]any {
		if args == nil {
			args = []any{}
		}
		return m(cn("call", "f", f, "args", args))
	}
	var out []any
	// a for-in whose body changes an element / member visited later, pushes, re-assigns the iterated variable
	out = append(out, m(cn("expr", "e", m(cn("asg", "n", "pa", "op", "=", "e", m(cn("arr", "items", []any{num(1), num(2), num(3)})))))))
	out = append(out, m(cn("forin", "v1", "pe", "v2", "pi", "n", "pa", "b", m(cn("block", "b", []any{pr(str("pa"), vr("pe"), vr("pi")),
		ex(cn("asgidx", "n", "pa", "key", num(-1), "op", "=", "e", num(30))), ex(cn("mcall", "n", "pa", "m", "push", "args", []any{num(4)}))})))))
	out = append(out, m(cn("forin", "v1", "pk", "v2", "pv", "n", "o0", "b", m(cn("block", "b", []any{pr(str("po"), vr("pk"), vr("pv")),
		ex(cn("asgidx", "n", "o0", "key", str("b"), "op", "=", "e", num(31)))})))))
	out = append(out, m(cn("forin", "v1", "pa", "v2", "", "n", "pa", "b", m(cn("block", "b", []any{pr(str("self"), vr("pa"))})))))
	// a for-in over an empty array / object runs no pass and leaves loop variables that hold values alone
	out = append(out, ex(cn("asg", "n", "pe", "op", "=", "e", num(5))), ex(cn("asg", "n", "pi", "op", "=", "e", num(6))))
	out = append(out, ex(cn("asg", "n", "pem", "op", "=", "e", m(cn("arr", "items", []any{})))))
	out = append(out, ex(cn("asg", "n", "pom", "op", "=", "e", m(cn("obj", "keys", []any{}, "vals", []any{})))))
	out = append(out, m(cn("forin", "v1", "pe", "v2", "pi", "n", "pem", "b", m(cn("block", "b", []any{pr(str("never"), vr("pe"))})))))
	out = append(out, pr(str("emp"), vr("pe"), vr("pi")))
	out = append(out, m(cn("forin", "v1", "pe", "v2", "", "n", "pom", "b", m(cn("block", "b", []any{pr(str("never"), vr("pe"))})))))
	out = append(out, m(cn("forin", "v1", "pi", "v2", "pe", "n", "pom", "b", m(cn("block", "b", []any{pr(str("never"), vr("pe"))})))))
	out = append(out, pr(str("emo"), vr("pe"), vr("pi")))
	// an object that gains a member through another reference and through a parameter between two for-ins
	out = append(out, m(cn("forin", "v1", "pk", "v2", "", "n", "o0", "b", m(cn("block", "b", []any{pr(str("k1"), vr("pk"))})))))
	out = append(out, ex(cn("asgidx", "n", "oa", "key", str("c"), "op", "=", "e", num(32))))
	out = append(out, ex(cn("call", "f", "ak", "args", []any{vr("oa"), str("n")})))
	out = append(out, m(cn("forin", "v1", "pk", "v2", "pv", "n", "o0", "b", m(cn("block", "b", []any{pr(str("k2"), vr("pk"), vr("pv"))})))))
	// the call probes
	out = append(out, pr(str("hh"), m(cn("bin", "op", "+", "l", call("hr"), "r", call("hb", num(2)))), m(cn("bin", "op", "*", "l", call("hr"), "r", call("hb", num(1))))))
	out = append(out, pr(str("ack"), call("fack", num(2), num(1))))
	out = append(out, pr(str("od"), call("od", call("gm", vr("o0"), str("k")), num(6)), vr("o0")))
	out = append(out, pr(str("bmp"), call("bmp", m(cn("asg", "n", "g2", "op", "=", "e", num(4))))), pr(str("bmp2"), vr("g2")))
	out = append(out, ex(cn("call", "f", "pr", "args", []any{num(2)})), pr(str("pr2"), call("pr", num(2))))
	// arguments are copied as they are evaluated: a later argument that changes the variable, an argument that is an
	// assignment, a surplus argument with an effect; the callee assigns its parameter
	out = append(out, ex(cn("call", "f", "p2", "args", []any{vr("g0"), m(cn("inc", "n", "g0", "op", "++", "post", true))})), pr(str("g0"), vr("g0")))
	out = append(out, ex(cn("call", "f", "p2", "args", []any{m(cn("asg", "n", "g1", "op", "+=", "e", num(2))), vr("g1"), m(cn("inc", "n", "g2", "op", "--", "post", false))})), pr(str("g12"), vr("g1"), vr("g2")))
	out = append(out, ex(cn("call", "f", "p2", "args", []any{m(cn("idx", "n", "o0", "key", str("bc")))})), pr(str("o0"), vr("o0")))
	// bound names are values; a literal-only match evaluated with descending subjects
	out = append(out, m(cn("expr", "e", m(cn("match", "e", vr("r1"), "cases", []any{m(cn("case", "pats", []any{m(cn("parr", "items", []any{m(cn("pid", "n", "q1")), m(cn("pid", "n", "q2")), m(cn("pid", "n", "q3"))}))},
		"bk", "block", "b", m(cn("block", "b", []any{ex(cn("asg", "n", "q1", "op", "=", "e", num(40))), ex(cn("inc", "n", "q2", "op", "++", "post", true)), pr(str("q"), vr("q1"), vr("q2"), vr("r1"))}))))})))))
	// a variable first created in an arm selected by literals only (no name is bound) is gone after the arm, too
	out = append(out, ex(cn("match", "e", num(1), "cases", []any{m(cn("case", "pats", []any{m(cn("plit", "v", num(1)))}, "bk", "block", "b",
		m(cn("block", "b", []any{ex(cn("asg", "n", "pnv", "op", "=", "e", num(5))), pr(str("in"), vr("pnv"))}))))})))
	out = append(out, ex(cn("match", "e", m(cn("arr", "items", []any{num(1), num(2)})), "cases", []any{m(cn("case", "pats", []any{m(cn("parr", "items", []any{m(cn("plit", "v", num(1))), m(cn("plit", "v", num(2)))}))}, "bk", "block", "b",
		m(cn("block", "b", []any{ex(cn("asg", "n", "pnw", "op", "=", "e", num(6)))}))))})))
	out = append(out, pr(str("pnv"), m(cn("is", "e", vr("pnv"), "ty", "unknown")), m(cn("is", "e", vr("pnw"), "ty", "unknown"))))
	ov := g.overlapMatch()
	ov["e"] = m(cn("bin", "op", "-", "l", num(3), "r", vr("pz2")))
	out = append(out, m(cn("for", "init", m(cn("asg", "n", "pz2", "op", "=", "e", num(0))), "c", m(cn("bin", "op", "<", "l", vr("pz2"), "r", num(4))),
		"post", m(cn("inc", "n", "pz2", "op", "++", "post", true)), "b", m(cn("block", "b", []any{pr(str("ov"), m(ov))})))))
	return out
}

func (g *coreGen) program() Node {
	var fns []any
	for _, name := range []string{"fa", "fb", "fc"}[:g.r.Intn(4)] {
		f := g.function(name)
		fns = append(fns, map[string]any(f))
		g.fns = append(g.fns, name)
	}
	var stmts []any
	for _, v := range []string{"g0", "g1", "g2", "i", "j", "h0", "h1"} {
		stmts = append(stmts, map[string]any(cn("expr", "e", map[string]any(cn("asg", "n", v, "op", "=", "e", map[string]any(g.num(1+g.r.Intn(6))))))))
	}
	stmts = append(stmts, map[string]any(cn("expr", "e", map[string]any(cn("asg", "n", "s0", "op", "=", "e", map[string]any(cn("str", "v", "ab")))))))
	stmts = append(stmts, map[string]any(cn("expr", "e", map[string]any(cn("asg", "n", "r0", "op", "=", "e", map[string]any(cn("arr", "items", []any{})))))))
	stmts = append(stmts, map[string]any(cn("expr", "e", map[string]any(cn("asg", "n", "r1", "op", "=", "e", map[string]any(cn("arr", "items", []any{map[string]any(g.num(3)), map[string]any(cn("str", "v", "bc")), map[string]any(g.num(5))})))))))
	stmts = append(stmts, map[string]any(cn("expr", "e", map[string]any(cn("asg", "n", "o0", "op", "=", "e", map[string]any(cn("obj", "keys", []any{"b", "a"}, "vals", []any{map[string]any(g.num(2)), map[string]any(cn("str", "v", "Zq"))})))))))
	if g.r.Intn(4) == 0 {
		// every kind of literal as the whole condition of while / if / for
		lits := []Node{cn("num", "v", 0), cn("num", "v", 2), cn("str", "v", ""), cn("str", "v", "a"), cn("null"), cn("bool", "v", false), cn("bool", "v", true),
			cn("bin", "op", "-", "l", map[string]any(cn("num", "v", 2)), "r", map[string]any(cn("num", "v", 2))), cn("un", "op", "!", "e", map[string]any(cn("num", "v", 0)))}
		for k, l := range lits {
			tag := map[string]any(cn("num", "v", k))
			brk := func(what string) Node {
				return cn("block", "b", []any{map[string]any(cn("print", "args", []any{map[string]any(cn("str", "v", what)), tag})), map[string]any(cn("break"))})
			}
			stmts = append(stmts, map[string]any(cn("while", "c", map[string]any(l), "b", map[string]any(brk("w")))))
			stmts = append(stmts, map[string]any(cn("if", "c", map[string]any(l), "th", map[string]any(cn("block", "b", []any{map[string]any(cn("print", "args", []any{map[string]any(cn("str", "v", "t")), tag}))})),
				"el", map[string]any(cn("block", "b", []any{map[string]any(cn("print", "args", []any{map[string]any(cn("str", "v", "e")), tag}))})))))
			stmts = append(stmts, map[string]any(cn("for", "init", map[string]any(cn("asg", "n", "fz", "op", "=", "e", map[string]any(cn("num", "v", 0)))), "c", map[string]any(l),
				"post", map[string]any(cn("inc", "n", "fz", "op", "++", "post", true)), "b", map[string]any(brk("f")))))
		}
	}
	// oa is a second reference to the object o0 (objects are shared; arrays are not aliased here: alias-length)
	stmts = append(stmts, map[string]any(cn("expr", "e", map[string]any(cn("asg", "n", "oa", "op", "=", "e", map[string]any(cn("var", "n", "o0")))))))
	if g.probes {
		stmts = append(stmts, g.probeStmts()...)
	}
	n := 1 + g.r.Intn(4)
	for i := 0; i < n; i++ {
		stmts = append(stmts, map[string]any(g.stmt(3)))
	}
	// ak adds a member through its parameter
	fns = append(fns, map[string]any(cn("fn", "name", "ak", "params", []any{"o", "k"}, "body",
		map[string]any(cn("block", "b", []any{map[string]any(cn("expr", "e", map[string]any(cn("asgidx", "n", "o", "key", map[string]any(cn("var", "n", "k")), "op", "=", "e", map[string]any(cn("num", "v", 7))))))})))))
	// fack recurses through a later argument of the same call site; gm returns a member that may be missing,
	// od assigns its first parameter
	ifle := func(v string, then Node) map[string]any {
		return map[string]any(cn("if", "c", map[string]any(cn("bin", "op", "<=", "l", map[string]any(cn("var", "n", v)), "r", map[string]any(cn("num", "v", 0)))),
			"th", map[string]any(cn("block", "b", []any{map[string]any(then)})), "el", map[string]any(cn("none"))))
	}
	am1 := map[string]any(cn("bin", "op", "-", "l", map[string]any(cn("var", "n", "a")), "r", map[string]any(cn("num", "v", 1))))
	bp1 := map[string]any(cn("bin", "op", "+", "l", map[string]any(cn("var", "n", "b")), "r", map[string]any(cn("num", "v", 1))))
	fns = append(fns, map[string]any(cn("fn", "name", "fack", "params", []any{"a", "b"}, "body", map[string]any(cn("block", "b", []any{
		ifle("a", cn("return", "e", map[string]any(cn("bin", "op", "+", "l", map[string]any(cn("var", "n", "b")), "r", map[string]any(cn("num", "v", 1)))))),
		map[string]any(cn("return", "e", map[string]any(cn("call", "f", "fack", "args", []any{am1, map[string]any(cn("call", "f", "fack", "args", []any{am1, bp1}))}))))})))))
	fns = append(fns, map[string]any(cn("fn", "name", "gm", "params", []any{"o", "k"}, "body", map[string]any(cn("block", "b", []any{
		map[string]any(cn("return", "e", map[string]any(cn("idx", "n", "o", "key", map[string]any(cn("var", "n", "k"))))))})))))
	fns = append(fns, map[string]any(cn("fn", "name", "od", "params", []any{"a", "b"}, "body", map[string]any(cn("block", "b", []any{
		map[string]any(cn("if", "c", map[string]any(cn("bin", "op", "==", "l", map[string]any(cn("var", "n", "a")), "r", map[string]any(cn("null")))),
			"th", map[string]any(cn("block", "b", []any{map[string]any(cn("expr", "e", map[string]any(cn("asg", "n", "a", "op", "=", "e", map[string]any(cn("var", "n", "b"))))))})), "el", map[string]any(cn("none")))),
		map[string]any(cn("return", "e", map[string]any(cn("var", "n", "a"))))})))))
	// p2 shows what its two parameters received
	fns = append(fns, map[string]any(cn("fn", "name", "p2", "params", []any{"a", "b"}, "body", map[string]any(cn("block", "b", []any{
		map[string]any(cn("print", "args", []any{map[string]any(cn("str", "v", "p2")), map[string]any(cn("var", "n", "a")), map[string]any(cn("var", "n", "b"))})),
		map[string]any(cn("expr", "e", map[string]any(cn("asg", "n", "a", "op", "=", "e", map[string]any(cn("num", "v", 99))))))})))))
	// pr prints a line whose last argument recurses into the same print statement
	fns = append(fns, map[string]any(cn("fn", "name", "pr", "params", []any{"a"}, "body", map[string]any(cn("block", "b", []any{
		ifle("a", cn("return", "e", map[string]any(cn("num", "v", 0)))),
		map[string]any(cn("print", "args", []any{map[string]any(cn("str", "v", "pr")), map[string]any(cn("var", "n", "a")), map[string]any(cn("call", "f", "pr", "args", []any{am1}))})),
		map[string]any(cn("return", "e", map[string]any(cn("var", "n", "a"))))})))))
	// bmp assigns its parameter: an argument written as an assignment (bmp(g1 = 5)) hands over the assigned value
	fns = append(fns, map[string]any(cn("fn", "name", "bmp", "params", []any{"a"}, "body", map[string]any(cn("block", "b", []any{
		map[string]any(cn("expr", "e", map[string]any(cn("asg", "n", "a", "op", "=", "e", map[string]any(cn("bin", "op", "+", "l", map[string]any(cn("var", "n", "a")), "r", map[string]any(cn("num", "v", 100)))))))),
		map[string]any(cn("return", "e", map[string]any(cn("var", "n", "a"))))})))))
	// hr returns the global h0 as a bare variable, hb assigns it: in hr() + hb(..) the left value is what hr returned
	fns = append(fns, map[string]any(cn("fn", "name", "hr", "params", []any{}, "body",
		map[string]any(cn("block", "b", []any{map[string]any(cn("return", "e", map[string]any(cn("var", "n", "h0"))))})))))
	fns = append(fns, map[string]any(cn("fn", "name", "hb", "params", []any{"a"}, "body",
		map[string]any(cn("block", "b", []any{
			map[string]any(cn("expr", "e", map[string]any(cn("asg", "n", "h0", "op", "=", "e", map[string]any(cn("bin", "op", "+", "l", map[string]any(cn("var", "n", "h0")), "r", map[string]any(cn("num", "v", 3)))))))),
			map[string]any(cn("return", "e", map[string]any(cn("var", "n", "a"))))})))))
	fns = append(fns, map[string]any(cn("fn", "name", "idf", "params", []any{"x"}, "body",
		map[string]any(cn("block", "b", []any{map[string]any(cn("return", "e", map[string]any(cn("var", "n", "x"))))})))))
	// pattern rules over the input array: patterns and bodies use $ and $index
	rules := []any{}
	g.inRule = true
	for k := g.r.Intn(4); k > 0; k-- {
		pat := map[string]any(cn("none"))
		if g.r.Intn(3) > 0 {
			pat = map[string]any(g.anyExpr(2))
			if g.r.Intn(5) == 0 {
				// next executed while the pattern is evaluated: no further rule runs for this element
				nx := cn("block", "b", []any{map[string]any(cn("print", "args", []any{map[string]any(cn("str", "v", "skip")), map[string]any(cn("index"))})), map[string]any(cn("next"))})
				pat = map[string]any(cn("match", "e", map[string]any(cn("index")), "cases", []any{
					map[string]any(cn("case", "pats", []any{map[string]any(cn("plit", "v", map[string]any(cn("num", "v", g.r.Intn(3)))))}, "bk", "block", "b", map[string]any(nx))),
					map[string]any(cn("case", "pats", []any{map[string]any(cn("pid", "n", "_"))}, "bk", "expr", "b", pat))}))
			}
		}
		var body Node
		if g.r.Intn(5) == 0 {
			body = cn("block", "b", []any{map[string]any(cn("print", "args", []any{map[string]any(cn("dollar"))}))}) // a rule without a body prints $
			body["bare"] = true
		} else {
			body = g.block(2, 1+g.r.Intn(3))
		}
		rules = append(rules, map[string]any{"pat": pat, "body": map[string]any(body)})
	}
	g.inRule = false
	end := []any{map[string]any(cn("print", "args", []any{map[string]any(cn("str", "v", "h")), map[string]any(cn("var", "n", "h0")), map[string]any(cn("var", "n", "h1"))})),
		map[string]any(cn("print", "args", []any{map[string]any(cn("str", "v", "end")), map[string]any(cn("var", "n", "g0")), map[string]any(cn("var", "n", "g1")), map[string]any(cn("var", "n", "s0")), map[string]any(cn("dollar"))})),
		map[string]any(cn("print", "args", []any{map[string]any(cn("var", "n", "r0")), map[string]any(cn("var", "n", "r1")), map[string]any(cn("var", "n", "o0"))})),
		map[string]any(cn("if", "c", map[string]any(cn("var", "n", "cnt")), "th", map[string]any(cn("block", "b", []any{map[string]any(cn("print", "args", []any{map[string]any(cn("str", "v", "cnt")), map[string]any(cn("var", "n", "cnt"))}))})), "el", map[string]any(cn("none"))))}
	if g.r.Intn(2) == 0 {
		end = append([]any{map[string]any(g.stmt(2))}, end...)
	}
	// what was first created inside a finished match arm or call is unknown again (locals of the generated functions too)
	for _, f := range fns {
		fn := Node(f.(map[string]any))
		if name := nstr(fn, "name"); len(name) == 2 && name[0] == 'f' {
			g.gone = append(g.gone, "l0"+name, "l1"+name)
		}
	}
	if len(g.gone) > 0 {
		args := []any{map[string]any(cn("str", "v", "gone"))}
		for _, nv := range g.gone {
			args = append(args, map[string]any(cn("is", "e", map[string]any(cn("var", "n", nv)), "ty", "unknown")))
		}
		end = append(end, map[string]any(cn("print", "args", args)))
	}
	input := []any{}
	for k := g.r.Intn(5); k > 0; k-- {
		switch g.r.Intn(11) {
		case 8, 9, 10:
			keys := []any{"a", "n"}
			vals := []any{map[string]any(cn("str", "v", g.pick("a", "bc", "Zq", "k"))), map[string]any(cn("num", "v", g.r.Intn(9)))}
			if g.r.Intn(2) == 0 {
				keys = append(keys, "b")
				vals = append(vals, map[string]any(cn(g.pick("null", "bool"), "v", true)))
			}
			input = append(input, map[string]any(cn("obj", "keys", keys, "vals", vals)))
		case 0:
			input = append(input, map[string]any(cn("null")))
		case 1:
			input = append(input, map[string]any(cn("bool", "v", g.r.Intn(2) == 0)))
		case 2:
			input = append(input, map[string]any(cn("str", "v", g.pick("a", "", "7", "bc"))))
		default:
			input = append(input, map[string]any(cn("num", "v", g.r.Intn(9))))
		}
	}
	return Node{"fns": fns, "begin": map[string]any(cn("block", "b", stmts)), "rules": rules, "end": map[string]any(cn("block", "b", end)), "input": input}
}

// ---- rendering to jqawk text (every composite expression fully parenthesised)

func coreExpr(e Node) string {
	switch nstr(e, "k") {
	case "num":
		return strconv.Itoa(nint(e, "v"))
	case "str":
		return strconv.Quote(nstr(e, "v"))
	case "bool":
		return strconv.FormatBool(nbool(e, "v"))
	case "null":
		return "null"
	case "var":
		return nstr(e, "n")
	case "dollar":
		return "$"
	case "index":
		return "$index"
	case "bin":
		return "(" + coreExpr(nnode(e, "l")) + " " + nstr(e, "op") + " " + coreExpr(nnode(e, "r")) + ")"
	case "un":
		return "(" + nstr(e, "op") + coreExpr(nnode(e, "e")) + ")"
	case "call":
		parts := []string{}
		for _, a := range nlist(e, "args") {
			parts = append(parts, coreExpr(a))
		}
		return nstr(e, "f") + "(" + strings.Join(parts, ", ") + ")"
	case "arr":
		parts := []string{}
		for _, a := range nlist(e, "items") {
			parts = append(parts, coreExpr(a))
		}
		return "[" + strings.Join(parts, ", ") + "]"
	case "obj":
		parts := []string{}
		vals := nlist(e, "vals")
		for i, k := range e["keys"].([]any) {
			parts = append(parts, strconv.Quote(k.(string))+": "+coreExpr(vals[i]))
		}
		return "{" + strings.Join(parts, ", ") + "}"
	case "is":
		return "(" + coreExpr(nnode(e, "e")) + " is " + nstr(e, "ty") + ")"
	case "match":
		parts := []string{}
		for _, c := range nlist(e, "cases") {
			pats := []string{}
			for _, p := range nlist(c, "pats") {
				pats = append(pats, corePattern(p))
			}
			if nstr(c, "bk") == "block" {
				parts = append(parts, strings.Join(pats, ", ")+" => "+strings.TrimLeft(coreStmt(nnode(c, "b"), 1), " "))
			} else {
				parts = append(parts, strings.Join(pats, ", ")+" => "+coreExpr(nnode(c, "b")))
			}
		}
		return "match (" + coreExpr(nnode(e, "e")) + ") { " + strings.Join(parts, ", ") + " }"
	case "idx":
		return nstr(e, "n") + "[" + coreExpr(nnode(e, "key")) + "]"
	case "asgidx":
		return nstr(e, "n") + "[" + coreExpr(nnode(e, "key")) + "] " + nstr(e, "op") + " " + coreExpr(nnode(e, "e"))
	case "incidx":
		return nstr(e, "n") + "[" + coreExpr(nnode(e, "key")) + "]" + nstr(e, "op")
	case "mcall":
		parts := []string{}
		for _, a := range nlist(e, "args") {
			parts = append(parts, coreExpr(a))
		}
		return nstr(e, "n") + "." + nstr(e, "m") + "(" + strings.Join(parts, ", ") + ")"
	case "asg":
		return nstr(e, "n") + " " + nstr(e, "op") + " " + coreExpr(nnode(e, "e"))
	case "inc":
		if nbool(e, "post") {
			return nstr(e, "n") + nstr(e, "op")
		}
		return nstr(e, "op") + nstr(e, "n")
	}
	return "null"
}

func corePattern(p Node) string {
	switch nstr(p, "k") {
	case "pid":
		return nstr(p, "n")
	case "parr":
		parts := []string{}
		for _, x := range nlist(p, "items") {
			parts = append(parts, corePattern(x))
		}
		return "[" + strings.Join(parts, ", ") + "]"
	}
	return coreExpr(nnode(p, "v"))
}

func coreStmt(s Node, depth int) string {
	in := ind(depth)
	switch nstr(s, "k") {
	case "print":
		parts := []string{}
		for _, a := range nlist(s, "args") {
			parts = append(parts, coreExpr(a))
		}
		return in + "print " + strings.Join(parts, ", ")
	case "expr":
		e := nnode(s, "e")
		if nstr(e, "k") == "inc" && !nbool(e, "post") {
			// a statement must not start with ++ / -- (it would continue the previous line)
			return in + "pz = " + coreExpr(e)
		}
		return in + coreExpr(e)
	case "block":
		var sb strings.Builder
		sb.WriteString(in + "{\n")
		for _, x := range nlist(s, "b") {
			sb.WriteString(coreStmt(x, depth+1) + "\n")
		}
		sb.WriteString(in + "}")
		return sb.String()
	case "if":
		out := in + "if (" + coreExpr(nnode(s, "c")) + ") " + strings.TrimLeft(coreStmt(nnode(s, "th"), depth), " ")
		if el := nnode(s, "el"); el != nil && nstr(el, "k") != "none" {
			out += " else " + strings.TrimLeft(coreStmt(el, depth), " ")
		}
		return out
	case "while":
		return in + "while (" + coreExpr(nnode(s, "c")) + ") " + strings.TrimLeft(coreStmt(nnode(s, "b"), depth), " ")
	case "forin":
		head := nstr(s, "v1")
		if nstr(s, "v2") != "" {
			head += ", " + nstr(s, "v2")
		}
		return in + "for (" + head + " in " + nstr(s, "n") + ") " + strings.TrimLeft(coreStmt(nnode(s, "b"), depth), " ")
	case "for":
		return in + "for (" + coreExpr(nnode(s, "init")) + "; " + coreExpr(nnode(s, "c")) + "; " + coreExpr(nnode(s, "post")) + ") " + strings.TrimLeft(coreStmt(nnode(s, "b"), depth), " ")
	case "break", "continue", "exit", "next":
		return in + nstr(s, "k")
	case "return":
		e := nnode(s, "e")
		if e == nil || nstr(e, "k") == "none" {
			return in + "return"
		}
		return in + "return " + coreExpr(e)
	}
	return in + "print \"?\""
}

func coreProgramText(p Node) string {
	var sb strings.Builder
	for _, f := range nlist(p, "fns") {
		params := []string{}
		for _, x := range f["params"].([]any) {
			params = append(params, x.(string))
		}
		sb.WriteString("function " + nstr(f, "name") + "(" + strings.Join(params, ", ") + ") " + strings.TrimLeft(coreStmt(nnode(f, "body"), 0), " ") + "\n")
	}
	sb.WriteString("BEGIN " + strings.TrimLeft(coreStmt(nnode(p, "begin"), 0), " ") + "\n")
	rules := nlist(p, "rules")
	headOf := func(r Node) string {
		if pat := nnode(r, "pat"); nstr(pat, "k") != "none" {
			return coreExpr(pat) + " "
		}
		return ""
	}
	for ri, r := range rules {
		head := headOf(r)
		body := nnode(r, "body")
		// a rule without a body is only written as such when what follows cannot be read as its
		// continuation: "(" would make it a call, "{" its body
		nextSafe := ri == len(rules)-1
		if !nextSafe {
			nh := headOf(rules[ri+1])
			nextSafe = nh != "" && !strings.HasPrefix(nh, "(")
		}
		if nbool(body, "bare") && nextSafe {
			if head == "" {
				head = "true " // a rule needs a pattern or a body
			}
			sb.WriteString(strings.TrimRight(head, " ") + "\n")
			continue
		}
		sb.WriteString(head + strings.TrimLeft(coreStmt(body, 0), " ") + "\n")
	}
	sb.WriteString("END " + strings.TrimLeft(coreStmt(nnode(p, "end"), 0), " ") + "\n")
	return sb.String()
}

// coreInput renders the input array as JSON.
func coreInput(p Node) string {
	parts := []string{}
	for _, x := range nlist(p, "input") {
		switch nstr(x, "k") {
		case "num":
			parts = append(parts, strconv.Itoa(nint(x, "v")))
		case "str":
			parts = append(parts, strconv.Quote(nstr(x, "v")))
		case "bool":
			parts = append(parts, strconv.FormatBool(nbool(x, "v")))
		case "obj":
			kv := []string{}
			vals := nlist(x, "vals")
			for i, k := range x["keys"].([]any) {
				v := "null"
				switch nstr(vals[i], "k") {
				case "num":
					v = strconv.Itoa(nint(vals[i], "v"))
				case "str":
					v = strconv.Quote(nstr(vals[i], "v"))
				case "bool":
					v = strconv.FormatBool(nbool(vals[i], "v"))
				}
				kv = append(kv, strconv.Quote(k.(string))+": "+v)
			}
			parts = append(parts, "{"+strings.Join(kv, ", ")+"}")
		default:
			parts = append(parts, "null")
		}
	}
	return "[" + strings.Join(parts, ", ") + "]"
}

var reCore = regexp.MustCompile(`"CORE", (\d+), (TRUE|FALSE), (\d+), "([^"]*)"`)

// checkCore generates n core programs, runs them on the real code, and has TLC re-execute them
// on JqCore (Trace_Core). Violations are reported under the calling property.
func checkCore(c *Ctx, n int, seedMix int64) {
	pool := c.Pool()
	rng := rand.New(rand.NewSource(c.Seed*6364136223846793005 + seedMix))
	progs := make([]Node, n)
	jobs := make([]Job, n)
	for i := range progs {
		g := &coreGen{r: rng, probes: i%3 == 0}
		// normalise through JSON so that the renderer and the model see the same tree
		raw, _ := json.Marshal(g.program())
		progs[i] = decodeNode(raw)
		// the pre-increment rendering uses a scratch variable pz that nothing reads
		jobs[i] = Job{Kind: "run", Prog: []byte(coreProgramText(progs[i])), Files: []FileIn{{Name: "in.json", Data: []byte(coreInput(progs[i]))}}, Budget: 300000}
		if dir := os.Getenv("VERIF_DUMP_CORE"); dir != "" { // development aid: the generated programs as files
			os.WriteFile(fmt.Sprintf("%s/core%04d.jqawk", dir, i), jobs[i].Prog, 0o644)
		}
	}
	var sb strings.Builder
	var idx []int
	pool.Map(jobs, func(i int, r Result) {
		maxLines := 400
		switch r.Class {
		case "timeout":
			c.Count("inconclusive", 1)
			return
		case "budget":
			// the step budget is deterministic and 25 times the model's fuel: the run goes to the model with the outcome
			// "budget" and what it printed so far.  If JqCore finishes the program inside its fuel (and the defined core),
			// the real run had to finish as well: OutPrefix / FinalMatch reject it.  If the model runs out of fuel or
			// leaves the core first, the run is open and nothing is compared.
			c.Count("core_budget_runs_sent_to_model", 1)
			maxLines = 6000
		case "ok", "runtime":
		default:
			c.Violation("core-"+r.Class, map[string]any{"program": string(jobs[i].Prog), "got_class": r.Class, "got_err": r.ErrMsg, "detail": r.Detail,
				"why": "a generated core program must end ok or with a runtime error"})
			return
		}
		lines := []string{}
		if len(r.Stdout) > 0 {
			lines = strings.Split(strings.TrimSuffix(string(r.Stdout), "\n"), "\n")
		}
		if r.Class == "budget" && len(lines) > maxLines+1 {
			// a model run prints fewer than maxLines lines inside its fuel (a printed line costs at least two steps):
			// one line more than that is enough to tell a longer real output from any output the model can finish with
			lines = lines[:maxLines+1]
		} else if len(lines) > maxLines {
			return
		}
		b, _ := json.Marshal(map[string]any{"prog": progs[i], "out": lines, "outcome": r.Class})
		sb.Write(b)
		sb.WriteByte('\n')
		idx = append(idx, i)
	})
	if len(idx) == 0 {
		return
	}
	res := c.TLC(TLCOpt{Module: "Trace_Core", AllowErr: true, Heap: "12g",
		Cfg:   cfgText("INIT TInit", "NEXT TNext", "CONSTANTS", "CoreCallLimit = 4096", "CoreFuel = 12000", "INVARIANTS CoreTypeOK CoreDepthMirrorsCalls CoreEndsClean OutPrefix FinalMatch Report"),
		Grep:  regexp.MustCompile(`^/\\ ti = \d+|is violated|Deadlock reached|"CORE"`),
		Files: map[string]string{"coretraces.ndjson": sb.String()}})
	closed, open := 0, 0
	whys := map[string]int{}
	for _, l := range res.Grepped {
		if m := reCore.FindStringSubmatch(l); m != nil {
			if m[2] == "TRUE" {
				open++
				whys[strings.Fields(m[4] + " ?")[0]+" "+strings.Fields(m[4] + " ? ?")[1]]++
			} else {
				closed++
			}
		}
	}
	if !res.OK {
		all := strings.Join(res.Grepped, "\n")
		m := reTi.FindStringSubmatch(all)
		if m == nil || !(strings.Contains(all, "is violated") || strings.Contains(all, "Deadlock")) {
			infra("Trace_Core failed:\n%s\n%s", firstN(all, 1500), firstN(strings.Join(res.Errors, "\n"), 3000))
		}
		ti, _ := strconv.Atoi(m[1])
		i := idx[ti-1]
		which := "?"
		for _, l := range res.Grepped {
			if strings.Contains(l, "nvariant") || strings.Contains(l, "Deadlock") {
				which = l
				break
			}
		}
		r2 := pool.Do(&jobs[i])
		c.Violation("core-program", map[string]any{"program": string(jobs[i].Prog), "ast": progs[i], "tlc": which, "got_class": r2.Class, "got_stdout": firstN(string(r2.Stdout), 3000), "got_err": r2.ErrMsg,
			"why": "the real output of a generated program differs from the JqCore semantics (operators, control flow, calls, print format)"})
		return
	}
	c.Count("traces_validated_against_impl", int64(closed))
	c.Count("core_programs_compared", int64(closed))
	c.Count("core_programs_outside_defined_core", int64(open))
	c.Set("core_open_reasons", whys)
	for k, i := range idx {
		if k < closed {
			c.Case("core:"+string(jobs[i].Prog), true)
		}
	}
	c.Sample(map[string]any{"family": "generated core program re-executed by TLC on JqCore", "program": firstN(string(jobs[idx[0]].Prog), 2500)})
}
