package main

import (
	"bytes"
	"encoding/json"
	"fmt"
	"hash/fnv"
	"math/rand"
	"os"
	"path/filepath"
	"regexp"
	"sort"
	"strconv"
	"strings"
	"sync"
	"time"
)

func init() { register("C02", checkC02) }

// C02: rules run in awk order over every input shape, with $, $index, $file bound.
//
//	A  MC_Driver (TLC, BFS / -simulate) explores the JqDriver transition system
//	   over configuration spaces and emits per configuration the sequence of
//	   body activations with the prescribed bindings; each configuration is
//	   rendered to a program + in-memory files + selectors, run on the real
//	   evaluator, and stdout must equal the model's observation line for line.
//	   Family "cells": the bodies also WRITE through the bindings ($ = v,
//	   $.p = v, $file = v) and selectors select the same subtree twice or one
//	   inside the other; the model re-binds $ per rule (BEGIN, END) and per
//	   round, $file per JSON value, so that no write may outlive them.
//	   A command line may name the same path several times (paths[f] is the
//	   path of the f-th file argument; families "inputs" and "sim"): the model
//	   has one file per argument, each processed in full in its place.  Every
//	   such configuration also goes through the compiled binary, with the
//	   path on disk once and on the command line as often as the model says.
//	B  larger seeded random configurations are run with the hooks on; the
//	   recorded events are validated by TLC against JqDriver's actions
//	   (Trace_Driver.tla), acceptance by POSTCONDITION.

// ---------------------------------------------------------------------------
// configurations

type c02Root struct {
	A  bool     `json:"a"`  // array root
	Es []string `json:"es"` // element kinds (array) or the one kind of a non-array root
}

type c02Cfg struct {
	Rules [][]string    `json:"rules"` // [kind, pat, body, write] (write absent = "none")
	NSel  int           `json:"nsel"`
	Sels  []int         `json:"sels"`  // per selector the key it picks, 1-based (0: the whole value); absent = 1..nsel
	Paths []int         `json:"paths"` // per file argument the path it names, numbered by first occurrence; absent = all distinct
	Files [][][]c02Root `json:"files"` // [file][value][selector]
	// [rule, dollar type, f, v, s, e, $index, $file, $ open, $file cell (0 names the file, r > 0 written by rule r, -1 open),
	//  overlay of $: tag (0 none, 1 member p written, 2 whole cell written), rule; then per element of an array root: tag, rule]
	Lines [][]int `json:"lines"`
	Exit  bool    `json:"exit"`
	// selector expressions: per selector the form of its text (absent = "dot": the path $.key), and per
	// (file, value, selector) what the path $.key selects; Files holds the roots SelRoot(form, member)
	SForm []string      `json:"sform"`
	Mems  [][][]c02Root `json:"mems"`
	// per activation of Lines the value of the program's variable g (-1: never assigned)
	Gs []int `json:"gs"`
}

// c02Glob tells whether a configuration reads or writes the program's own variable g.
func c02Glob(cfg *c02Cfg) bool {
	for _, r := range cfg.Rules {
		switch r[1] {
		case "gv", "ngv", "glt":
			return true
		}
		switch c02W(r) {
		case "g0", "g1", "ginc":
			return true
		}
	}
	return false
}

// c02Forms tells whether some selector is not the plain path $.key.
func c02Forms(cfg *c02Cfg) bool {
	for _, f := range cfg.SForm {
		if f != "dot" {
			return true
		}
	}
	return false
}

// c02SelText is the text of a selector expression of the given form over the member key ("" = the whole value).
func c02SelText(form, key string) string {
	path := "$." + key
	if key == "" {
		path = "$"
	}
	switch form {
	case "dot":
		return path
	case "idx":
		if key == "" {
			return "$"
		}
		return `$["` + key + `"]`
	case "par":
		return "(" + path + ")"
	case "wrap":
		return "[" + path + "]"
	case "dup":
		return "[" + path + ", " + path + "]"
	case "empty":
		return "[]"
	case "ckey":
		return `["` + key + `"]`
	case "cnum":
		return "[0]"
	case "cnums":
		return "[1, 2]"
	case "str":
		return `"lit"`
	case "nul":
		return "null"
	case "num":
		return "0"
	}
	infra("C02: unknown selector form %q", form)
	return ""
}

// c02ApplyForm evaluates a selector expression of the given form on the concrete member it mentions.  It is a
// transcription of MC_Driver.SelRoot; the shape of its result is compared with the model's root for every vector.
func c02ApplyForm(form string, mv any, key string) any {
	switch form {
	case "dot", "idx", "par":
		return mv
	case "wrap":
		return []any{mv}
	case "dup":
		return []any{mv, mv}
	case "empty":
		return []any{}
	case "ckey":
		return []any{key}
	case "cnum":
		return []any{float64(0)}
	case "cnums":
		return []any{float64(1), float64(2)}
	case "str":
		return "lit"
	case "nul":
		return nil
	case "num":
		return float64(0)
	}
	infra("C02: unknown selector form %q", form)
	return nil
}

func c02Truthy(v any) bool {
	switch t := v.(type) {
	case nil:
		return false
	case bool:
		return t
	case float64:
		return t != 0
	case string:
		return t != ""
	}
	return true
}

// c02KindOf classifies a concrete value by MC_Driver.ElemKinds.
func c02KindOf(v any) string {
	switch t := v.(type) {
	case nil:
		return "nul"
	case float64:
		if t == 0 {
			return "n0"
		}
		return "n1"
	case string:
		if t == "" {
			return "s0"
		}
		return "s1"
	case []any:
		return "ar"
	case map[string]any:
		if p, ok := t["p"]; ok && c02Truthy(p) {
			return "o1"
		}
		return "o0"
	}
	infra("C02: cannot classify %T", v)
	return ""
}

// c02SameShape tells whether a concrete root has the shape of the model's root record.
func c02SameShape(v any, root c02Root) bool {
	arr, isArr := v.([]any)
	if isArr != root.A {
		return false
	}
	if !isArr {
		return len(root.Es) == 1 && c02KindOf(v) == root.Es[0]
	}
	if len(arr) != len(root.Es) {
		return false
	}
	for i := range arr {
		if c02KindOf(arr[i]) != root.Es[i] {
			return false
		}
	}
	return true
}

// fromRoot makes a concrete value of the shape of a root record.
func (m *c02Mat) fromRoot(root c02Root) any {
	if root.A {
		arr := make([]any, 0, len(root.Es))
		for _, k := range root.Es {
			arr = append(arr, m.elem(k))
		}
		return arr
	}
	return m.elem(root.Es[0])
}

func c02W(rule []string) string {
	if len(rule) > 3 {
		return rule[3]
	}
	return "none"
}

// c02Cells tells whether a configuration belongs to the writing families.
func c02Cells(cfg *c02Cfg) bool {
	for _, r := range cfg.Rules {
		if c02W(r) != "none" {
			return true
		}
	}
	for i, k := range cfg.Sels {
		if k != i+1 {
			return true
		}
	}
	return false
}

// c02Mat is one concrete rendering of a configuration.
type c02Mat struct {
	Prog      string
	Sels      []string
	Files     []FileIn
	Vals      [][][]any // concrete root values [f][v][s]
	AllArrays bool
	rng       *rand.Rand
	id        int
}

func c02Seed(seed int64, raw []byte) int64 {
	h := fnv.New64a()
	h.Write(raw)
	return int64(h.Sum64()>>1) ^ seed*0x9E3779B97F4A7C
}

func (m *c02Mat) num() float64 {
	m.id++
	switch m.rng.Intn(4) {
	case 0:
		return -float64(100 + m.id)
	case 1:
		return float64(100+m.id) + 0.5
	}
	return float64(100 + m.id)
}

func (m *c02Mat) str() string {
	m.id++
	return "s" + strconv.Itoa(m.id)
}

func (m *c02Mat) truthyScalar() any {
	switch m.rng.Intn(3) {
	case 0:
		return m.num()
	case 1:
		return m.str()
	}
	return true
}

// elem makes a concrete value of an element kind of MC_Driver.ElemKinds.
func (m *c02Mat) elem(kind string) any {
	switch kind {
	case "n1":
		return m.num()
	case "n0":
		return float64(0)
	case "s1":
		return m.str()
	case "s0":
		return ""
	case "nul":
		return nil
	case "o1":
		return map[string]any{"p": m.truthyScalar()}
	case "o0":
		switch m.rng.Intn(6) {
		case 0:
			return map[string]any{"p": float64(0)}
		case 1:
			return map[string]any{"p": ""}
		case 2:
			return map[string]any{"p": nil}
		case 3:
			return map[string]any{"p": false}
		case 4:
			return map[string]any{}
		}
		return map[string]any{"q": m.num()}
	case "ar":
		switch m.rng.Intn(4) {
		case 0:
			return []any{}
		case 1:
			return []any{m.num()}
		case 2:
			return []any{m.str()}
		}
		return []any{nil}
	}
	infra("C02: unknown element kind %q", kind)
	return nil
}

// c02Print is the print format of the values used here (scalars, arrays,
// objects with at most one key).
func c02Print(v any, top bool) string {
	switch t := v.(type) {
	case nil:
		return "null"
	case bool:
		if t {
			return "true"
		}
		return "false"
	case float64:
		return strconv.FormatFloat(t, 'f', -1, 64)
	case string:
		if top {
			return t
		}
		return `"` + t + `"`
	case []any:
		parts := make([]string, len(t))
		for i, x := range t {
			parts[i] = c02Print(x, false)
		}
		return "[" + strings.Join(parts, ", ") + "]"
	case map[string]any:
		keys := make([]string, 0, len(t))
		for k := range t {
			keys = append(keys, k)
		}
		sort.Strings(keys)
		parts := make([]string, len(keys))
		for i, k := range keys {
			parts[i] = `"` + k + `": ` + c02Print(t[k], false)
		}
		return "{" + strings.Join(parts, ", ") + "}"
	}
	infra("C02: cannot print %T", v)
	return ""
}

func c02JSON(v any) string {
	b, err := json.Marshal(v)
	if err != nil {
		infra("C02: marshal: %v", err)
	}
	return string(b)
}

var c02TruePats = []string{"true", "1", `"y"`}
var c02FalsePats = []string{"false", "0", `""`, "null"}
var c02Keys = []string{"a", "b", "c", "k1", "sel"}

// c02Render renders a configuration: program text, selectors, files.
func c02Render(cfg *c02Cfg, seed int64, names func(i int) string) *c02Mat {
	m := &c02Mat{rng: rand.New(rand.NewSource(seed))}
	r := m.rng
	// selectors: distinct keys in a seeded order
	keys := append([]string{}, c02Keys...)
	r.Shuffle(len(keys), func(i, j int) { keys[i], keys[j] = keys[j], keys[i] })
	sels := cfg.Sels
	if len(sels) != cfg.NSel {
		sels = make([]int, cfg.NSel)
		for s := range sels {
			sels[s] = s + 1
		}
	}
	formOf := func(s int) string {
		if s < len(cfg.SForm) {
			return cfg.SForm[s]
		}
		return "dot"
	}
	keyOf := func(s int) string {
		if sels[s] == 0 {
			return ""
		}
		return keys[sels[s]-1]
	}
	for s := range sels {
		text := c02SelText(formOf(s), keyOf(s))
		if c02Forms(cfg) {
			// blanks around an expression are not part of it
			switch r.Intn(4) {
			case 0:
				text = " " + text
			case 1:
				text = text + " "
			}
		}
		m.Sels = append(m.Sels, text)
	}
	// inputs
	m.AllArrays = true
	allObjs := true // every value a pattern can see is an object: `$.p` needs no guard
	for _, file := range cfg.Files {
		for _, val := range file {
			for _, root := range val {
				for _, k := range root.Es {
					if k != "o1" && k != "o0" {
						allObjs = false
					}
				}
			}
		}
	}
	bfAssigns := false // a BEGINFILE rule may turn an array root into a scalar: $index is then read outside an array round
	for _, rule := range cfg.Rules {
		if rule[0] == "BF" && c02W(rule) == "sd" {
			bfAssigns = true
		}
	}
	firstArg := map[int]int{} // path -> the first file argument that names it
	for f, file := range cfg.Files {
		name := names(f)
		if len(cfg.Paths) == len(cfg.Files) {
			name = names(cfg.Paths[f] - 1)
			if g, ok := firstArg[cfg.Paths[f]]; ok {
				// the same path once more: the same name, the same bytes
				m.Vals = append(m.Vals, m.Vals[g])
				m.Files = append(m.Files, FileIn{Name: m.Files[g].Name, Data: append([]byte{}, m.Files[g].Data...)})
				continue
			}
			firstArg[cfg.Paths[f]] = f
		}
		var data bytes.Buffer
		var fvals [][]any
		for v, val := range file {
			var roots []any
			byKey := map[int]any{} // selectors of the same key select the same subtree
			for s, root := range val {
				if !root.A {
					m.AllArrays = false
				}
				mrec := root // what the selector's path selects (the root itself when the selector is a path)
				if len(cfg.Mems) == len(cfg.Files) {
					mrec = cfg.Mems[f][v][s]
				}
				var mv any
				if s < len(sels) {
					if sels[s] == 0 {
						roots = append(roots, nil) // built from the whole value: filled in below
						continue
					}
					if prev, ok := byKey[sels[s]]; ok {
						mv = prev
					} else {
						mv = m.fromRoot(mrec)
						byKey[sels[s]] = mv
					}
				} else {
					mv = m.fromRoot(mrec)
				}
				cv := mv
				if s < len(sels) {
					cv = c02ApplyForm(formOf(s), mv, keyOf(s))
				}
				if !c02SameShape(cv, root) {
					infra("C02: selector form %q on member %s gives %s, the model's root is %+v", formOf(s), c02JSON(mv), c02JSON(cv), root)
				}
				roots = append(roots, cv)
			}
			if cfg.NSel == 0 {
				data.WriteString(c02JSON(roots[0]))
			} else {
				// an object holding the selected roots under the selector keys, in a seeded member order
				var ks []int
				for k := range byKey {
					ks = append(ks, k)
				}
				sort.Ints(ks)
				r.Shuffle(len(ks), func(i, j int) { ks[i], ks[j] = ks[j], ks[i] })
				doc := map[string]any{}
				parts := []string{}
				for _, k := range ks {
					parts = append(parts, c02JSON(keys[k-1])+": "+c02JSON(byKey[k]))
					doc[keys[k-1]] = byKey[k]
				}
				if r.Intn(3) == 0 || len(ks) == 0 {
					parts = append(parts, `"zz": [9, 9]`)
					doc["zz"] = []any{float64(9), float64(9)}
				}
				data.WriteString("{" + strings.Join(parts, ", ") + "}")
				for s := range roots {
					if s < len(sels) && sels[s] == 0 {
						roots[s] = c02ApplyForm(formOf(s), doc, "")
					}
				}
			}
			fvals = append(fvals, roots)
			if r.Intn(2) == 0 {
				data.WriteString("\n")
			} else {
				data.WriteString(" ")
			}
		}
		if len(file) == 0 && r.Intn(2) == 0 {
			data.WriteString(" \n")
		}
		m.Vals = append(m.Vals, fvals)
		m.Files = append(m.Files, FileIn{Name: name, Data: append([]byte{}, data.Bytes()...)})
	}
	if bfAssigns {
		m.AllArrays = false
	}
	// program
	sep := "\n"
	if r.Intn(4) == 0 {
		sep = " "
	}
	var rules []string
	glob := c02Glob(cfg)
	for i, rule := range cfg.Rules {
		kind, pat, body := rule[0], rule[1], rule[2]
		label := fmt.Sprintf(`"r%d"`, i+1)
		head := ""
		switch kind {
		case "B":
			head = "BEGIN"
		case "BF":
			head = "BEGINFILE"
		case "EF":
			head = "ENDFILE"
		case "E":
			head = "END"
		case "P":
			switch pat {
			case "none":
			case "T":
				head = c02TruePats[r.Intn(len(c02TruePats))]
			case "F":
				head = c02FalsePats[r.Intn(len(c02FalsePats))]
			case "self":
				head = "$"
			case "memb":
				// member access is documented for objects; elsewhere the guard decides
				head = "$ is object && $.p"
				if allObjs {
					head = "$.p"
				}
			case "nmemb":
				head = "!($ is object && $.p)"
				if allObjs {
					head = "!$.p"
				}
			case "gv":
				head = "g"
			case "ngv":
				head = "!g"
			case "glt":
				head = "g < 2"
			default:
				infra("C02: unknown pattern %q", pat)
			}
		}
		if body == "bare" {
			rules = append(rules, head)
			continue
		}
		var pr string
		switch kind {
		case "B":
			pr = "print " + label
		case "E":
			pr = "print " + label + ", $"
		case "P":
			if m.AllArrays {
				pr = "print " + label + ", $index, $, $file"
			} else {
				pr = "print " + label + ", $, $file"
			}
		default:
			pr = "print " + label + ", $, $file"
		}
		if glob {
			pr += ", g" // the program's own variable, as the activations before left it
		}
		ssep := "; "
		if r.Intn(3) == 0 {
			ssep = "\n  "
		}
		// what the body writes after printing: the label of the rule, a non-empty string
		wlabel := fmt.Sprintf(`"w%d"`, i+1)
		var wr []string
		switch c02W(rule) {
		case "none":
		case "sd":
			wr = []string{"$ = " + wlabel}
		case "sf":
			wr = []string{"$file = " + wlabel}
		case "sm":
			wr = []string{"if ($ is object) $.p = " + wlabel}
		case "g0":
			wr = []string{"g = 0"}
		case "g1":
			wr = []string{"g = 1"}
		case "ginc":
			wr = []string{"g++"}
		default:
			infra("C02: unknown write %q", c02W(rule))
		}
		var stmts []string
		switch body {
		case "print":
			stmts = append([]string{pr}, wr...)
		case "next", "exit":
			stmts = append(append([]string{pr}, wr...), body)
			if r.Intn(2) == 0 {
				stmts = append(stmts, `print "unreachable"`)
			}
		case "noop":
		default:
			infra("C02: unknown body %q", body)
		}
		text := "{ " + strings.Join(stmts, ssep) + " }"
		if head != "" {
			text = head + " " + text
		}
		rules = append(rules, text)
	}
	m.Prog = strings.Join(rules, sep)
	return m
}

// wildcards in an expected stdout: one token (no blank), the rest of the line
const (
	c02AnyTok  = "\x00T"
	c02AnyRest = "\x00R"
)

// c02Overlay applies what the model says was written into a cell: tag 0 nothing,
// 1 the member p of the object in it (by rule r), 2 the whole cell (by rule r).
func c02Overlay(v any, tag, r int) any {
	switch tag {
	case 0:
		return v
	case 1:
		obj, ok := v.(map[string]any)
		if !ok {
			infra("C02: member written in a non-object %v", v)
		}
		out := map[string]any{}
		for k, x := range obj {
			out[k] = x
		}
		out["p"] = "w" + strconv.Itoa(r)
		return out
	case 2:
		return "w" + strconv.Itoa(r)
	}
	infra("C02: bad overlay tag %d", tag)
	return nil
}

// c02Expect renders the model's activations to the lines the program must print.
func c02Expect(cfg *c02Cfg, m *c02Mat) string {
	var sb strings.Builder
	glob := c02Glob(cfg)
	for li, ln := range cfg.Lines {
		if len(ln) < 8 {
			infra("C02: bad activation %v", ln)
		}
		ri, dt, f, v, s, e, x, fb := ln[0], ln[1], ln[2], ln[3], ln[4], ln[5], ln[6], ln[7]
		dopen, fw, ctag, cr := 0, 0, 0, 0
		var els []int
		if len(ln) >= 12 {
			dopen, fw, ctag, cr = ln[8], ln[9], ln[10], ln[11]
			els = ln[12:]
		}
		rule := cfg.Rules[ri-1]
		kind, body := rule[0], rule[2]
		if body == "noop" {
			continue
		}
		dollar := ""
		switch dt {
		case 0:
			if kind != "B" {
				infra("C02: open $ outside BEGIN")
			}
		case 1:
			dollar = "null"
		case 2:
			root := c02Overlay(m.Vals[f-1][v-1][s-1], ctag, cr)
			if len(els) > 0 {
				arr, ok := root.([]any)
				if !ok || len(els) != 2*len(arr) {
					infra("C02: element overlays %v on %v", els, root)
				}
				shown := make([]any, len(arr))
				for i := range arr {
					shown[i] = c02Overlay(arr[i], els[2*i], els[2*i+1])
				}
				root = shown
			}
			dollar = c02Print(root, true)
		case 3:
			dollar = c02Print(c02Overlay(m.Vals[f-1][v-1][s-1].([]any)[e], ctag, cr), true)
		}
		if dopen == 1 {
			dollar = c02AnyRest
		}
		if body == "bare" {
			sb.WriteString(dollar + "\n")
			continue
		}
		file := ""
		if kind == "BF" || kind == "P" || kind == "EF" {
			switch {
			case fw == 0:
				file = m.Files[fb-1].Name
			case fw > 0:
				file = "w" + strconv.Itoa(fw)
			default:
				file = c02AnyTok
			}
		}
		line := fmt.Sprintf("r%d", ri)
		switch kind {
		case "B":
		case "E":
			line += " " + dollar
		case "P":
			if m.AllArrays {
				if dt == 3 {
					line += " " + strconv.Itoa(x)
				} else {
					line += " " + c02AnyTok // $index outside an array round: open
				}
			}
			line += " " + dollar + " " + file
		default:
			line += " " + dollar + " " + file
		}
		if glob {
			if li >= len(cfg.Gs) {
				infra("C02: no value of g for activation %d", li)
			}
			if cfg.Gs[li] < 0 {
				line += " " + c02AnyTok // how a variable never assigned prints is not this property's business
			} else {
				line += " " + strconv.Itoa(cfg.Gs[li])
			}
		}
		sb.WriteString(line + "\n")
	}
	return sb.String()
}

// c02Match compares the real stdout with the expected one, wildcards included.
func c02Match(exp, got string) bool {
	if !strings.Contains(exp, "\x00") {
		return exp == got
	}
	el, gl := strings.Split(exp, "\n"), strings.Split(got, "\n")
	if len(el) != len(gl) {
		return false
	}
	for i := range el {
		if !strings.Contains(el[i], "\x00") {
			if el[i] != gl[i] {
				return false
			}
			continue
		}
		pat := regexp.QuoteMeta(el[i])
		pat = strings.ReplaceAll(pat, regexp.QuoteMeta(c02AnyTok), `[^ ]+`)
		pat = strings.ReplaceAll(pat, regexp.QuoteMeta(c02AnyRest), `.*`)
		if ok, _ := regexp.MatchString("^"+pat+"$", gl[i]); !ok {
			return false
		}
	}
	return true
}

func c02Name(i int) string { return "f" + strconv.Itoa(i) }

type c02Tag struct {
	Fam string  `json:"fam"`
	Cfg *c02Cfg `json:"cfg"`
	Exp string  `json:"exp"`
}

var c02Invariants = []string{"TypeOK", "PartitionLaw", "Ordered", "BeginFirst", "EndLast", "EndDollarNull", "Bindings",
	"SourceOrderWithinElement", "BodyIffPattern", "NextSkipsRestOfElementOnly", "ExitAbsorbing", "ElementMultiplicity",
	"DenoteLaw", "ShapeLaw", "PathLaw", "OccurrenceLaw", "FormLaw", "NoSelLaw", "GlobalPersists"}

// the laws about re-binding; checked where bodies write (without writes they hold trivially)
var c02CellInvariants = []string{"FreshBindings", "WritesLast"}

type c02Run struct {
	fam                                 string
	maxRules, maxFiles, maxVals, maxArr int
	sel                                 string // set of indices into MC_Driver.Inputs (family rules)
	nsel                                string // set of selector counts (families inputs, sim)
	alpha                               string
	sim                                 int    // > 0: -simulate with this many behaviours per worker
	forms                               string // "all": every form of selector expression (MC_Driver.FormSet); default "dot"
}

func (r c02Run) cfg() string {
	lines := []string{"SPECIFICATION Spec", "CONSTANTS", "ObsKeep = 0",
		fmt.Sprintf("Fam = %q", r.fam), fmt.Sprintf("Alpha = %q", r.alpha),
		fmt.Sprintf("MaxRules = %d", r.maxRules), fmt.Sprintf("MaxFiles = %d", r.maxFiles),
		fmt.Sprintf("MaxVals = %d", r.maxVals), fmt.Sprintf("MaxArr = %d", r.maxArr),
		"InputSel = " + r.sel, "NSel = " + r.nsel}
	if r.forms == "" {
		r.forms = "dot"
	}
	lines = append(lines, fmt.Sprintf("SelForms = %q", r.forms))
	for _, inv := range c02Invariants {
		lines = append(lines, "INVARIANT "+inv)
	}
	if r.alpha == "cells" {
		for _, inv := range c02CellInvariants {
			lines = append(lines, "INVARIANT "+inv)
		}
	}
	lines = append(lines, "INVARIANT Vec", "PROPERTY Absorbing")
	if r.sim > 0 {
		lines = append(lines, "CHECK_DEADLOCK FALSE")
	}
	return cfgText(lines...)
}

func checkC02(c *Ctx) {
	c.Assume("$ in BEGIN rules is not compared (the statement fixes $ = null for END only); BEGIN rules print their label only and are never written without a body")
	c.Assume("$ in ENDFILE is not compared once the root cell of the round was assigned as a whole by a BEGINFILE rule or by a pattern rule of a non-array root; member and element writes of the round are compared there; $ = v in an ENDFILE rule is that rule's own: every ENDFILE rule after it must again see the selected root (JqDriver RuleLocal)")
	c.Assume("writes: a body writes after its print, so every activation shows what the EARLIER activations left; $ = v in a BEGINFILE rule makes the root that scalar for the rest of the round (README: -r E is BEGINFILE { $ = E }); $.p = v is guarded by `$ is object`")
	c.Assume("$file after the program overwrote it: compared within the round of the write (the written value) and from the next JSON value on (the file name again); in a later selector round of the same value it is left open")
	c.Assume("multi-key objects (a member written into an object, the whole value selected by `$`) are expected with their keys in sorted order, as the interpreter prints them since the fix of F11")
	c.Assume("$index is printed only in configurations whose roots are all arrays: its value outside an array round is left open")
	c.Assume("$file is printed in BEGINFILE / pattern / ENDFILE rules only (BEGIN: unset; END: left open)")
	c.Assume("next is placed in pattern-rule bodies only (next elsewhere is property C01's business); exit anywhere")
	c.Assume("printed values are scalars, arrays and objects with at most one key (multi-key objects print in map order: C10); the print format of these is taken from the documented format (C17 owns it)")
	c.Assume("a rule without a body cannot be written directly before a pattern rule without a pattern (the grammar reads it as that rule's body) nor before a pattern beginning with `!` (read as an operator); such rule lists are outside the domain")
	c.Assume("selectors are expressions over an object holding the chosen members: the paths $.key, $[\"key\"], ($.key), array literals built from a member or from constants, scalar literals (MC_Driver.FormSet), with blanks before or after; the selected root is what the expression evaluates to (README: the argument to -r can be any valid expression)")
	c.Assume("patterns over the program's own variable g are `g`, `!g`, `g < 2`; a variable never assigned is falsy and smaller than 2 (DESIGN.md 3.1, 3.3), g++ makes it 1 (C05 owns the arithmetic); how it prints before its first assignment is not compared")
	c.Assume("a path named by several file arguments: all of them are the same string (other spellings of one file are distinct paths here); the file does not change during the run")
	c.Assume("data-driven patterns are `$` (truthiness of the element, DESIGN.md 3.1) and `$.p`, written `$ is object && $.p` when some element is not an object (member access on non-objects is not part of this property)")
	pool := c.Pool()

	// ---- binding A
	nA, nBin := 0, 0
	binEvery := 400
	if c.Thorough() {
		binEvery = 2000
	}
	nForms, formBinEvery := 0, 40 // selector expressions are command-line arguments: a share of them through the binary
	if c.Thorough() {
		formBinEvery = 400
	}
	binDir := c.TempDir("c02bin")
	st := pool.NewStream(func(j *Job, r Result) {
		var tag c02Tag
		VecDecode([]byte(j.Tag), &tag)
		rep := map[string]any{"family": tag.Fam, "program": string(j.Prog), "selectors": j.Sels, "files": c02FilesRep(j.Files),
			"config": tag.Cfg, "expected_stdout": tag.Exp, "got_stdout": string(r.Stdout), "got_class": r.Class, "got_error": r.ErrMsg, "detail": r.Detail}
		if r.Class == "budget" || r.Class == "timeout" {
			c.Count("inconclusive", 1)
			return
		}
		if r.Class != "ok" {
			c.Violation("schedule-outcome", rep)
			return
		}
		if !c02Match(tag.Exp, string(r.Stdout)) {
			name := "schedule"
			switch {
			case c02Forms(tag.Cfg):
				name = "schedule-selector-forms"
			case c02Glob(tag.Cfg):
				name = "schedule-globals"
			case c02Cells(tag.Cfg):
				name = "schedule-cells"
			}
			c.Violation(name, rep)
			return
		}
		c.Case("a:"+string(j.Prog)+"\x00"+strings.Join(j.Sels, "\x00")+"\x00"+c02FilesKey(j.Files), len(tag.Exp) > 0)
		nA++
		if nA%20000 == 7 {
			c.Sample(map[string]any{"family": tag.Fam, "program": string(j.Prog), "selectors": j.Sels, "files": c02FilesRep(j.Files), "expected_stdout": tag.Exp})
		}
		// a sample also through the compiled binary: files on disk, -r; every configuration that names a path
		// more than once (that is a matter of the command line: the library gets one reader per argument)
		repeated := c02Repeats(tag.Cfg)
		if c02Forms(tag.Cfg) {
			nForms++
		}
		if nA%binEvery == 3 || repeated || (c02Forms(tag.Cfg) && nForms%formBinEvery == 1) {
			nBin++
			dir := filepath.Join(binDir, strconv.Itoa(nBin))
			os.MkdirAll(dir, 0o755)
			args := []string{}
			for _, s := range j.Sels {
				args = append(args, "-r", s)
			}
			args = append(args, string(j.Prog))
			for _, f := range j.Files {
				os.WriteFile(filepath.Join(dir, f.Name), f.Data, 0o644)
				args = append(args, f.Name)
			}
			if len(j.Files) > 0 {
				br := c.RunBin(args, nil, dir, 20*time.Second)
				if !br.TimedOut && (br.Exit != 0 || !c02Match(tag.Exp, string(br.Stdout))) {
					rep["binary_args"] = args
					rep["binary_stdout"] = string(br.Stdout)
					rep["binary_stderr"] = string(br.Stderr)
					rep["binary_exit"] = br.Exit
					c.Violation("schedule-binary", rep)
				}
				c.Count("binary_runs", 1)
				if repeated {
					c.Count("binary_runs_with_a_path_named_twice", 1)
				}
			}
			os.RemoveAll(dir)
		}
	})
	var selMulti int64 // replayed configurations with >= 1 selector and >= 2 JSON values in the run
	runA := func(r c02Run) {
		opt := TLCOpt{Module: "MC_Driver", Cfg: r.cfg(), Workers: 16, Heap: "6g",
			OnVec: func(raw []byte) {
				var cfg c02Cfg
				VecDecode(raw, &cfg)
				if nv := c02NValues(&cfg); cfg.NSel > 0 && nv >= 2 {
					selMulti++
				}
				m := c02Render(&cfg, c02Seed(c.Seed, raw), c02Name)
				tag := c02Tag{Fam: r.fam, Cfg: &cfg, Exp: c02Expect(&cfg, m)}
				tb, _ := json.Marshal(&tag)
				st.Submit(Job{Kind: "run", Prog: []byte(m.Prog), Sels: m.Sels, Files: m.Files, Tag: string(tb)})
			}}
		if r.sim > 0 {
			opt.Extra = []string{"-simulate", fmt.Sprintf("num=%d", r.sim), "-depth", "3000", "-seed", strconv.FormatInt(c.Seed, 10)}
			opt.Workers = 8
		}
		t0 := time.Now()
		res := c.TLC(opt)
		if os.Getenv("C02_TIMING") != "" {
			fmt.Fprintf(os.Stderr, "C02 timing: %s alpha=%s rules<=%d sel=%s nsel=%s: %d states, %d vectors, %.1fs\n", r.fam, r.alpha, r.maxRules, r.sel, r.nsel, res.Distinct, res.Vectors, time.Since(t0).Seconds())
		}
	}
	var runs []c02Run
	bounds := map[string]any{}
	all := "{1, 2, 3, 4, 5, 6}"
	if !c.Thorough() {
		big := []string{"{3}", "{5}"}[int(c.Seed%2)]    // the two smaller fixed inputs with selectors; all six at <= 3 in the thorough tier
		globIn := []string{"{6}", "{1}"}[int(c.Seed%2)] // arrays of three elements: with $index and a selector, or several values per file
		runs = []c02Run{
			{fam: "rules", alpha: "full", maxRules: 2, sel: all, nsel: "{0}"},
			{fam: "rules", alpha: "full", maxRules: 3, sel: big, nsel: "{0}"},
			{fam: "rules", alpha: "core", maxRules: 4, sel: "{6}", nsel: "{0}"},
			{fam: "inputs", alpha: "full", maxFiles: 2, maxVals: 1, sel: "{}", nsel: "{0, 1, 2}"},
			{fam: "inputs", alpha: "full", maxFiles: 3, maxVals: 1, sel: "{}", nsel: "{0}"},
			{fam: "sim", alpha: "full", maxRules: 6, maxFiles: 3, maxVals: 3, maxArr: 3, sel: "{}", nsel: "{0, 1, 2}", sim: 200},
			{fam: "cells", alpha: "cells", maxRules: 2, sel: all, nsel: "{0}"},
			{fam: "sim", alpha: "cells", maxRules: 6, maxFiles: 3, maxVals: 3, maxArr: 3, sel: "{}", nsel: "{0, 1, 2}", sim: 100},
			{fam: "rules", alpha: "glob", maxRules: 2, sel: globIn, nsel: "{0}"},
			{fam: "inputs", alpha: "full", maxFiles: 1, maxVals: 2, sel: "{}", nsel: "{1}", forms: "all"},
			{fam: "sim", alpha: "glob", maxRules: 6, maxFiles: 3, maxVals: 3, maxArr: 3, sel: "{}", nsel: "{0, 1, 2}", sim: 100, forms: "all"},
		}
		bounds["globals"] = "all lists <= 2 of rules over the program's variable g (31 symbols: patterns `g`, `!g`, `g < 2`, bodies g = 0, g = 1, g++ after the print, in every rule kind) x fixed input " + globIn + "; 8 x 100 random behaviours with such rules"
		bounds["selector_forms"] = "12 forms of selector expression (paths $.k, $[\"k\"], ($.k); array literals [$.k], [$.k, $.k], [], [\"k\"], [0], [1, 2]; scalar literals) x 6 member shapes: one selector, one file of <= 2 values, x 2 rule lists; the 8 x 100 random behaviours of `globals` have 0..2 selectors of random forms"
		bounds["cells"] = "all lists <= 2 of writing rules (34 symbols: $ = v, $.p = v, $file = v after the print; BEGINFILE / ENDFILE without a body) x 6 fixed inputs (several values per file; selectors selecting the same subtree twice, a subtree and the whole value); 8 x 100 random behaviours with writing rules and such selector lists"
		bounds["rules"] = "all rule lists <= 2 over the 30-symbol alphabet x 6 fixed inputs, <= 3 x fixed input " + big + ", <= 4 over the 8-symbol core alphabet x input 6"
		bounds["inputs"] = "file arguments <= 2, values per file <= 1, nsel 0..2, and file arguments <= 3 with nsel 0; every argument names a new path or one given before (a a, a b a, a a b, a b b, a a a); 6 root shapes x 6 fixed rule lists"
		bounds["sim"] = "8 x 200 random behaviours: rules <= 6, files <= 3, values <= 3, array length <= 3, nsel <= 2"
	} else {
		runs = []c02Run{
			{fam: "rules", alpha: "full", maxRules: 3, sel: all, nsel: "{0}"},
			{fam: "rules", alpha: "core", maxRules: 5, sel: "{6}", nsel: "{0}"},
			{fam: "rules", alpha: "core", maxRules: 4, sel: "{1, 2, 3}", nsel: "{0}"},
			{fam: "inputs", alpha: "full", maxFiles: 2, maxVals: 2, sel: "{}", nsel: "{0, 1}"},
			{fam: "inputs", alpha: "full", maxFiles: 2, maxVals: 1, sel: "{}", nsel: "{2}"},
			{fam: "inputs", alpha: "full", maxFiles: 3, maxVals: 1, sel: "{}", nsel: "{0, 1}"},
			{fam: "sim", alpha: "full", maxRules: 6, maxFiles: 3, maxVals: 3, maxArr: 3, sel: "{}", nsel: "{0, 1, 2}", sim: 4000},
			{fam: "cells", alpha: "cells", maxRules: 2, sel: all, nsel: "{0}"},
			{fam: "cells", alpha: "cells", maxRules: 3, sel: "{3}", nsel: "{0}"},
			{fam: "sim", alpha: "cells", maxRules: 6, maxFiles: 3, maxVals: 3, maxArr: 3, sel: "{}", nsel: "{0, 1, 2}", sim: 2000},
			{fam: "rules", alpha: "glob", maxRules: 2, sel: all, nsel: "{0}"},
			{fam: "rules", alpha: "glob", maxRules: 3, sel: "{6}", nsel: "{0}"},
			{fam: "sim", alpha: "glob", maxRules: 6, maxFiles: 3, maxVals: 3, maxArr: 3, sel: "{}", nsel: "{0, 1, 2}", sim: 2000},
			{fam: "inputs", alpha: "full", maxFiles: 2, maxVals: 2, sel: "{}", nsel: "{1}", forms: "all"},
			{fam: "inputs", alpha: "full", maxFiles: 1, maxVals: 1, sel: "{}", nsel: "{2}", forms: "all"},
			{fam: "sim", alpha: "full", maxRules: 6, maxFiles: 3, maxVals: 3, maxArr: 3, sel: "{}", nsel: "{1, 2}", sim: 2000, forms: "all"},
		}
		bounds["globals"] = "all lists <= 2 of rules over the program's variable g (31 symbols: patterns `g`, `!g`, `g < 2`, bodies g = 0, g = 1, g++ after the print, in every rule kind) x 6 fixed inputs, <= 3 x input 6; 8 x 2000 random behaviours with such rules"
		bounds["selector_forms"] = "12 forms of selector expression (paths $.k, $[\"k\"], ($.k); array literals [$.k], [$.k, $.k], [], [\"k\"], [0], [1, 2]; scalar literals) x 6 member shapes: one selector with <= 2 file arguments of <= 2 values, every pair of forms (the same member or two) with one file of <= 1 value, x 2 rule lists; 8 x 2000 random behaviours with 1..2 selectors of random forms"
		bounds["cells"] = "all lists <= 2 of writing rules (34 symbols: $ = v, $.p = v, $file = v after the print; BEGINFILE / ENDFILE without a body) x 6 fixed inputs (several values per file; selectors selecting the same subtree twice, a subtree and the whole value), <= 3 x input 3; 8 x 2000 random behaviours with writing rules and such selector lists"
		bounds["rules"] = "all rule lists <= 3 over the 30-symbol alphabet x 6 fixed inputs; <= 5 over the 8-symbol core alphabet x input 6, <= 4 x inputs 1..3"
		bounds["inputs"] = "file arguments <= 2, values per file <= 2 (nsel 0, 1) / <= 1 (nsel 2), and file arguments <= 3 with one value and nsel 0, 1; every argument names a new path or one given before; 6 root shapes x 6 fixed rule lists"
		bounds["sim"] = "8 x 4000 random behaviours: rules <= 6, files <= 3, values <= 3, array length <= 3, nsel <= 2"
	}
	parts := os.Getenv("C02_PARTS") // development switch: "A" or "B" alone; default both
	def := &c02Deferred{}
	c.specDir() // before the two bindings start TLC concurrently

	// ---- binding B (single TLC worker) runs alongside binding A
	var wgB sync.WaitGroup
	var panicB any
	traceBounds := map[string]any{}
	if parts == "" || strings.Contains(parts, "B") {
		wgB.Add(1)
		go func() {
			defer wgB.Done()
			defer func() { panicB = recover() }()
			c02Traces(c, pool, def, traceBounds)
		}()
	}
	if parts == "" || strings.Contains(parts, "A") {
		only := os.Getenv("C02_ONLY") // development switch: "glob" or "forms": those families alone
		for _, r := range runs {
			if (only == "glob" && r.alpha != "glob") || (only == "forms" && r.forms != "all") || (only == "old" && (r.alpha == "glob" || r.forms == "all")) {
				continue
			}
			runA(r)
		}
		st.Wait()
	}
	os.RemoveAll(binDir)
	wgB.Wait()
	if panicB != nil {
		if inf, ok := panicB.(Infra); ok && c02NViolations(c) > 0 {
			def.add("%s", inf.msg)
		} else {
			panic(panicB)
		}
	}
	for k, v := range traceBounds {
		bounds[k] = v
	}
	c.Set("selector_configs_with_several_values", selMulti)
	if len(def.msgs) > 0 {
		if c02NViolations(c) == 0 {
			infra("%s", strings.Join(def.msgs, "\n"))
		}
		c.Set("infrastructure_notes", def.msgs)
	}

	// the core counts every case as a validated trace; here only the runs Trace_Driver accepted are traces
	c.mu.Lock()
	acc, _ := c.ev.Coverage["traces_accepted_by_tlc"].(int64)
	evs, _ := c.ev.Coverage["evaluations"].(int64)
	c.ev.Coverage["traces_validated_against_impl"] = acc
	c.ev.Coverage["vectors_replayed"] = evs - acc
	c.mu.Unlock()
	c.Set("exhaustive", true)
	c.Set("bounds", bounds)
	c.Set("rule", "A: one case per configuration emitted by TLC (rule list x files x values x selector roots), rendered with seeded concrete values; "+
		"non-trivial when the expected stdout is non-empty; distinct by (program, selectors, input bytes). "+
		"B: one case per recorded run accepted by Trace_Driver; non-trivial when it has at least one hook event")
	c.Set("checker_cmd", "tlc MC_Driver (BFS families rules / inputs, -simulate family sim) -> lang.EvalProgram stdout; tlc Trace_Driver -workers 1 (DFS queue) on recorded hook events")
}

// c02Repeats tells whether some path is named by more than one file argument.
func c02Repeats(cfg *c02Cfg) bool {
	seen := map[int]bool{}
	for _, p := range cfg.Paths {
		if seen[p] {
			return true
		}
		seen[p] = true
	}
	return false
}

func c02NValues(cfg *c02Cfg) int {
	n := 0
	for _, f := range cfg.Files {
		n += len(f)
	}
	return n
}

func c02FilesRep(fs []FileIn) []map[string]string {
	out := []map[string]string{}
	for _, f := range fs {
		out = append(out, map[string]string{"name": f.Name, "data": string(f.Data)})
	}
	return out
}

func c02FilesKey(fs []FileIn) string {
	var sb strings.Builder
	for _, f := range fs {
		sb.WriteString(f.Name)
		sb.WriteByte(0)
		sb.Write(f.Data)
		sb.WriteByte(0)
	}
	return sb.String()
}

// ---------------------------------------------------------------------------
// binding B: trace validation

var c02Bodies = []string{"print", "print", "print", "bare", "next", "exit", "noop"}
var c02Pats = []string{"none", "T", "F", "self", "self", "memb", "memb"}
var c02ElemKinds = []string{"n1", "n0", "s1", "s0", "nul", "o1", "o0", "ar"}

// c02RandomCfg draws a configuration well beyond MC_Driver's bounds.
func c02RandomCfg(r *rand.Rand, thorough bool) *c02Cfg {
	cfg := &c02Cfg{}
	long := 0 // at most one long array per configuration, in one configuration out of 30
	if r.Intn(30) == 0 {
		long = 300 + r.Intn(500)
		if thorough {
			long = 1000 + r.Intn(4500)
		}
	}
	nr := r.Intn(9)
	if r.Intn(10) == 0 {
		nr = 9 + r.Intn(8)
	}
	for i := 0; i < nr; i++ {
		kind := []string{"B", "BF", "P", "P", "P", "P", "EF", "E"}[r.Intn(8)]
		pat, body := "none", ""
		for {
			body = c02Bodies[r.Intn(len(c02Bodies))]
			if body == "exit" && r.Intn(3) != 0 {
				continue // keep most runs long
			}
			if kind != "P" && body == "next" {
				continue
			}
			if kind == "B" && body == "bare" {
				continue
			}
			break
		}
		if kind == "P" {
			pat = c02Pats[r.Intn(len(c02Pats))]
			if body == "bare" && pat == "none" {
				pat = "self"
			}
			if pat == "none" && i > 0 && cfg.Rules[i-1][2] == "bare" {
				pat = "T"
			}
		}
		cfg.Rules = append(cfg.Rules, []string{kind, pat, body})
	}
	cfg.NSel = []int{0, 0, 1, 2, 3}[r.Intn(5)]
	ns := cfg.NSel
	if ns == 0 {
		ns = 1
	}
	nf := r.Intn(5)
	for f := 0; f < nf; f++ {
		file := [][]c02Root{}
		nv := r.Intn(5)
		for v := 0; v < nv; v++ {
			val := []c02Root{}
			for s := 0; s < ns; s++ {
				if r.Intn(3) == 0 {
					val = append(val, c02Root{A: false, Es: []string{c02ElemKinds[r.Intn(7)]}})
					continue
				}
				n := r.Intn(7)
				if r.Intn(12) == 0 {
					n = 20 + r.Intn(100)
				}
				if long > 0 && r.Intn(3) == 0 {
					n, long = long, 0
				}
				es := make([]string, n)
				for i := range es {
					es[i] = c02ElemKinds[r.Intn(len(c02ElemKinds))]
				}
				val = append(val, c02Root{A: true, Es: es})
			}
			file = append(file, val)
		}
		cfg.Files = append(cfg.Files, file)
	}
	return cfg
}

type c02Ev struct {
	E   string `json:"e"`
	A   int    `json:"a"`
	B   int    `json:"b"`
	S   string `json:"s"`
	Cfg any    `json:"cfg,omitempty"`
}

// c02TraceOf turns the hook events of one run into the lines Trace_Driver reads.
func c02TraceOf(cfg *c02Cfg, m *c02Mat, r *Result) []c02Ev {
	type trule struct {
		Kind   string `json:"kind"`
		Haspat bool   `json:"haspat"`
	}
	type troot struct {
		N int `json:"n"`
	}
	rules := []trule{}
	for _, ru := range cfg.Rules {
		rules = append(rules, trule{ru[0], ru[1] != "none"})
	}
	files := [][][]troot{}
	for _, f := range cfg.Files {
		fv := [][]troot{}
		for _, v := range f {
			vs := []troot{}
			for _, s := range v {
				if s.A {
					vs = append(vs, troot{len(s.Es)})
				} else {
					vs = append(vs, troot{-1})
				}
			}
			fv = append(fv, vs)
		}
		files = append(files, fv)
	}
	out := []c02Ev{{E: "Cfg", Cfg: map[string]any{"rules": rules, "files": files}}}
	fidx := map[string]int{}
	for i, f := range m.Files {
		fidx[f.Name] = i + 1
	}
	for _, e := range r.Events {
		switch e.E {
		case "Rule":
			out = append(out, c02Ev{E: "Rule", A: e.A, S: e.S})
		case "Pattern":
			out = append(out, c02Ev{E: "Pattern", A: e.A})
		case "Element":
			out = append(out, c02Ev{E: "Element", A: e.A})
		case "Raise":
			if e.S == "next" || e.S == "exit" {
				out = append(out, c02Ev{E: "Raise", S: e.S})
			}
		case "Consume":
			out = append(out, c02Ev{E: "Consume", S: e.S})
		case "Decoded":
			out = append(out, c02Ev{E: "Decoded", A: fidx[e.S]})
		case "Round":
			out = append(out, c02Ev{E: "Round"})
		}
	}
	out = append(out, c02Ev{E: "End", S: r.Class})
	return out
}

func c02NDJSON(runs [][]c02Ev) string {
	var sb strings.Builder
	for _, run := range runs {
		for _, e := range run {
			b, _ := json.Marshal(&e)
			sb.Write(b)
			sb.WriteByte('\n')
		}
	}
	return sb.String()
}

// c02Deferred collects infrastructure problems met while violations may still
// be found or are already known: a violation is never hidden by exit 2.  They
// become an infrastructure failure at the end only if no violation was found.
type c02Deferred struct {
	mu   sync.Mutex
	msgs []string
}

func (d *c02Deferred) add(format string, a ...any) {
	d.mu.Lock()
	defer d.mu.Unlock()
	d.msgs = append(d.msgs, fmt.Sprintf(format, a...))
}

func c02NViolations(c *Ctx) int {
	c.mu.Lock()
	defer c.mu.Unlock()
	return len(c.violations)
}

type c02Verdict struct {
	broken   bool // TLC failed other than by rejecting the trace
	ok       bool
	accepted int // number of leading runs accepted
	maxLine  int
	res      *TLCResult
}

// c02Validate runs Trace_Driver over the concatenated runs.
func c02Validate(c *Ctx, def *c02Deferred, runs [][]c02Ev) c02Verdict {
	v := c02Verdict{}
	lines := []string{"SPECIFICATION Spec", "CONSTANT ObsKeep = 2"}
	for _, inv := range []string{"TypeOK", "Ordered", "BeginFirst", "EndLast", "EndDollarNull", "Bindings",
		"SourceOrderWithinElement", "BodyIffPattern", "NextSkipsRestOfElementOnly", "ExitAbsorbing", "Accepted", "Progress"} {
		lines = append(lines, "INVARIANT "+inv)
	}
	lines = append(lines, "POSTCONDITION AllConsumed", "CHECK_DEADLOCK FALSE")
	t0 := time.Now()
	defer func() {
		if os.Getenv("C02_TIMING") != "" {
			fmt.Fprintf(os.Stderr, "C02 timing: trace validation of %d runs: %.1fs\n", len(runs), time.Since(t0).Seconds())
		}
	}()
	res := c.TLC(TLCOpt{Module: "Trace_Driver", Cfg: cfgText(lines...), Workers: 1, DFS: true, AllowErr: true, Heap: "6g",
		Files: map[string]string{"trace_driver.ndjson": c02NDJSON(runs)},
		OnVec: func(raw []byte) {
			var a struct {
				Run     int `json:"run"`
				MaxLine int `json:"maxline"`
			}
			VecDecode(raw, &a)
			if a.Run > v.accepted {
				v.accepted = a.Run
			}
			if a.MaxLine > v.maxLine {
				v.maxLine = a.MaxLine
			}
		}})
	v.res = res
	v.ok = res.OK
	if !res.OK {
		post := false
		for _, e := range res.Errors {
			if strings.Contains(e, "Postcondition AllConsumed") {
				post = true
			}
		}
		if !post || len(res.Errors) == 0 {
			def.add("Trace_Driver failed other than by rejecting the trace:\n%s", strings.Join(res.Errors, "\n"))
			v.broken = true
		}
	}
	return v
}

func c02Traces(c *Ctx, pool *Pool, def *c02Deferred, bounds map[string]any) {
	nRuns, batch := 1200, 1200
	if c.Thorough() {
		nRuns, batch = 5000, 1000
	}
	bounds["traces"] = fmt.Sprintf("%d seeded random configurations: rules <= 16, files <= 4, values <= 4, selectors <= 3, arrays up to %d elements", nRuns,
		map[bool]int{false: 800, true: 5500}[c.Thorough()])
	rng := rand.New(rand.NewSource(c.Seed*7919 + 11))
	type item struct {
		cfg *c02Cfg
		m   *c02Mat
		job Job
		tr  []c02Ev
	}
	var selfTest [][]c02Ev
	for done := 0; done < nRuns; done += batch {
		n := batch
		if nRuns-done < n {
			n = nRuns - done
		}
		items := make([]*item, n)
		jobs := make([]Job, n)
		for i := range items {
			cfg := c02RandomCfg(rng, c.Thorough())
			m := c02Render(cfg, rng.Int63(), c02Name)
			items[i] = &item{cfg: cfg, m: m}
			jobs[i] = Job{Kind: "run", Prog: []byte(m.Prog), Sels: m.Sels, Files: m.Files, Events: true, Budget: 50_000_000}
			items[i].job = jobs[i]
		}
		var good []*item
		results := make([]*Result, n)
		pool.Map(jobs, func(i int, r Result) {
			rr := r
			results[i] = &rr
		})
		for i, it := range items {
			r := results[i]
			if r.Class == "budget" || r.Class == "timeout" {
				c.Count("inconclusive", 1)
				continue
			}
			if r.Class != "ok" {
				c.Violation("trace-outcome", map[string]any{"program": it.m.Prog, "selectors": it.m.Sels, "files": c02FilesRep(it.m.Files),
					"got_class": r.Class, "got_error": r.ErrMsg, "detail": r.Detail})
				continue
			}
			it.tr = c02TraceOf(it.cfg, it.m, r)
			good = append(good, it)
		}
		// validate; on rejection isolate the offending run, re-record it, and go on with the rest
		rest := good
		for round := 0; len(rest) > 0; round++ {
			if round >= 8 {
				c.Count("traces_not_validated_after_8_rejections", int64(len(rest)))
				break
			}
			trs := make([][]c02Ev, len(rest))
			for i, it := range rest {
				trs[i] = it.tr
			}
			v := c02Validate(c, def, trs)
			if v.broken {
				c.Count("traces_not_validated_tlc_failure", int64(len(rest)))
				break
			}
			acc := v.accepted
			if v.ok {
				acc = len(rest)
			}
			for _, it := range rest[:acc] {
				c.Count("traces_accepted_by_tlc", 1)
				c.Case("b:"+it.m.Prog+"\x00"+strings.Join(it.m.Sels, "\x00")+"\x00"+c02FilesKey(it.m.Files), len(it.tr) > 2)
				c.Count("trace_events", int64(len(it.tr)))
				if len(selfTest) < 25 && len(it.tr) > 12 && len(it.tr) < 400 {
					selfTest = append(selfTest, it.tr)
				}
			}
			if v.ok {
				break
			}
			bad := rest[acc]
			// reproduce in isolation
			r2 := pool.Do(&bad.job)
			tr2 := c02TraceOf(bad.cfg, bad.m, &r2)
			v2 := c02Validate(c, def, [][]c02Ev{tr2})
			if v2.ok || v2.broken {
				// not reproducible: never a violation
				def.add("C02: a rejected trace was not rejected again when re-recorded in isolation (program %q)", bad.m.Prog)
				rest = rest[acc+1:]
				continue
			}
			c.Violation("trace-rejected", map[string]any{"program": bad.m.Prog, "selectors": bad.m.Sels, "files": c02FilesRep(bad.m.Files),
				"config": bad.cfg, "trace": tr2, "longest_matched_prefix_lines": v2.maxLine, "stdout": string(r2.Stdout)})
			rest = rest[acc+1:]
		}
	}
	c.Sample(map[string]any{"family": "trace", "trace_head": selfTestHead(selfTest)})

	// the validation must bite: corrupted copies of ACCEPTED traces have to be rejected.
	// With too few accepted traces because real violations were found the self-test is skipped.
	if len(selfTest) < 3 {
		if c02NViolations(c) > 0 {
			c.Set("corrupted_trace_selftest", fmt.Sprintf("skipped: only %d accepted traces of suitable length, violations were found", len(selfTest)))
		} else {
			def.add("C02: not enough accepted traces (%d) for the corrupted-trace self-test", len(selfTest))
		}
		return
	}
	corrupt := 0
	for kind := 0; kind < 3; kind++ {
		runs := make([][]c02Ev, len(selfTest))
		copy(runs, selfTest)
		victim := -1
		for i, tr := range runs {
			t2, ok := c02Corrupt(tr, kind)
			if ok {
				runs[i] = t2
				victim = i
				break
			}
		}
		if victim < 0 {
			continue
		}
		v := c02Validate(c, def, runs)
		if v.broken {
			return
		}
		if v.ok || v.accepted != victim {
			def.add("C02: corrupted trace (kind %d, run %d) was not rejected where expected (ok=%v accepted=%d)", kind, victim+1, v.ok, v.accepted)
			continue
		}
		corrupt++
	}
	if corrupt < 2 {
		def.add("C02: corrupted-trace self-test could not be built")
	}
	c.Set("corrupted_traces_rejected", corrupt)
}

func selfTestHead(trs [][]c02Ev) any {
	if len(trs) == 0 {
		return "none"
	}
	t := trs[0]
	if len(t) > 14 {
		t = t[:14]
	}
	return t
}

// c02Corrupt damages one trace: 0 drops a Rule event, 1 swaps two adjacent
// different events, 2 changes an Element index.
func c02Corrupt(tr []c02Ev, kind int) ([]c02Ev, bool) {
	out := append([]c02Ev{}, tr...)
	switch kind {
	case 0:
		for i := len(out) / 2; i < len(out)-1; i++ {
			if out[i].E == "Rule" {
				return append(out[:i:i], out[i+1:]...), true
			}
		}
	case 1:
		for i := 1; i < len(out)-2; i++ {
			if out[i].E == "Rule" && out[i+1].E == "Rule" && (out[i].S != out[i+1].S || out[i].A != out[i+1].A) {
				out[i], out[i+1] = out[i+1], out[i]
				return out, true
			}
		}
	case 2:
		for i := 1; i < len(out)-1; i++ {
			if out[i].E == "Element" {
				out[i].A++
				return out, true
			}
		}
	}
	return nil, false
}
