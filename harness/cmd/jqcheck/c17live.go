package main

import (
	"bytes"
	"fmt"
	"math/rand"
	"strconv"
	"strings"
)

// ---------------------------------------------------------------------------
// C17, family "live-dollar" (spec/MC_RenderLive.tla): a print without
// arguments and a rule without a body print the CURRENT $.  TLC walks every
// script of <= MaxSteps steps over {print, body-less rule, set / add / pop on
// the root container of $ or on the container inside it (through a $-path or
// through an alias), $ = new container}; the vector carries the script and
// everything the print-like steps write.  The script is rendered as the rules
// of one program (a "rule" step ends the current rule and puts a rule without
// a body there) and run on the element as read from the input.

type c17LiveStep struct {
	Op   string   `json:"op"`
	Acc  []string `json:"acc"`
	Via  string   `json:"via"`
	Slot string   `json:"slot"`
	Val  string   `json:"val"`
	CK   string   `json:"ck"`
}

type c17LiveVec struct {
	Init  c17Val        `json:"init"`
	Steps []c17LiveStep `json:"steps"`
	Out   []string      `json:"out"`
	JS    c17Val        `json:"js"`
}

// c17LiveLiteral: a jqawk literal for the scalar, if there is one.
func c17LiveLiteral(s c17Scalar) (string, bool) {
	switch s.K {
	case 't':
		return "true", true
	case 'f':
		return "false", true
	case 'z':
		return "null", true
	case 'n':
		t := strconv.FormatFloat(s.N, 'f', -1, 64)
		if f, err := strconv.ParseFloat(t, 64); err == nil && f == s.N && c17PlainNum.MatchString(t) {
			return t, true
		}
	case 's':
		return c17StrLit(s.S)
	}
	return "", false
}

// c17LivePrepare gives every key the script addresses and every scalar it assigns an instance that can be
// written in program text (the element's own scalars come from the input and are unrestricted).
func c17LivePrepare(in *c17Inst, v *c17LiveVec) {
	needKey := func(name string) {
		if _, ok := in.keys[name]; ok {
			return
		}
		for tries := 0; ; tries++ {
			k := in.key(name)
			if _, ok := c17StrLit(k); ok {
				return
			}
			if tries > 50 {
				infra("live-dollar: cannot draw a key with a literal")
			}
			delete(in.keys, name) // the rejected key stays marked as used: keys stay distinct
			in.kOrder = in.kOrder[:len(in.kOrder)-1]
		}
	}
	slotKey := func(s string) {
		if strings.HasPrefix(s, "k") {
			needKey(s[1:])
		}
	}
	for _, st := range v.Steps {
		for _, a := range st.Acc {
			slotKey(a)
		}
		slotKey(st.Slot)
		if st.Val != "" {
			for tries := 0; ; tries++ {
				s := in.atom(st.Val)
				if _, ok := c17LiveLiteral(s); ok {
					break
				}
				if tries > 200 {
					infra("live-dollar: cannot draw a scalar with a literal")
				}
				in.atoms[st.Val] = in.scalarOfClass(st.Val[0])
			}
		}
	}
	in.prealloc(v.Init)
}

func c17LiveProgram(in *c17Inst, v *c17LiveVec, r *rand.Rand) (prog, doc []byte) {
	c17LivePrepare(in, v)
	sel := func(base, slot string) string {
		if slot[0] == 'i' {
			return base + "[" + slot[1:] + "]"
		}
		k := in.key(slot[1:])
		if c17IsIdent(k) && c04SafeKey(k) && r.Intn(2) == 0 {
			return base + "." + k
		}
		lit, _ := c17StrLit(k)
		return base + "[" + lit + "]"
	}
	lit := func(leaf string) string {
		t, _ := c17LiveLiteral(in.atom(leaf))
		return t
	}
	usesFn := false
	bare := func() string {
		if r.Intn(4) == 0 {
			usesFn = true
			return "pr()"
		}
		return "print"
	}
	var rules []string
	var body []string
	afterBare := false
	flush := func() {
		if len(body) > 0 {
			sep := "; "
			if r.Intn(3) == 0 {
				sep = "\n  "
			}
			// a block right after a rule without a body would become that rule's body: such a rule gets a pattern of its own
			pat := ""
			if afterBare || r.Intn(3) == 0 {
				pat = []string{"1 ", "true ", "1 == 1 "}[r.Intn(3)]
			}
			rules = append(rules, pat+"{ "+strings.Join(body, sep)+" }")
			body = nil
			afterBare = false
		}
	}
	nt := 0
	for _, st := range v.Steps {
		target := "$"
		for _, a := range st.Acc {
			target = sel(target, a)
		}
		if st.Via == "alias" {
			nt++
			t := fmt.Sprintf("t%d", nt)
			body = append(body, t+" = "+target)
			target = t
		}
		switch st.Op {
		case "print":
			body = append(body, bare())
		case "rule":
			flush()
			rules = append(rules, []string{"true", "1", "2 > 1", "1 == 1"}[r.Intn(4)])
			afterBare = true
		case "set":
			body = append(body, sel(target, st.Slot)+" = "+lit(st.Val))
		case "add":
			if st.CK == "arr" && r.Intn(2) == 0 {
				body = append(body, target+".push("+lit(st.Val)+")")
			} else {
				body = append(body, sel(target, st.Slot)+" = "+lit(st.Val))
			}
		case "pop":
			body = append(body, target+".pop()")
		case "replace":
			if st.CK == "arr" {
				body = append(body, "$ = ["+lit(st.Val)+"]")
			} else {
				// a string key of an object literal is taken as written (escapes are not processed there): only keys without a backslash
				if k, _ := c17StrLit(in.key(st.Slot[1:])); r.Intn(2) == 0 || strings.Contains(k, `\`) {
					body = append(body, "$ = {}", sel("$", st.Slot)+" = "+lit(st.Val))
				} else {
					body = append(body, "$ = {"+k+": "+lit(st.Val)+"}")
				}
			}
		default:
			infra("live-dollar: unknown step %q", st.Op)
		}
	}
	flush()
	var sb strings.Builder
	if usesFn {
		sb.WriteString("function pr() { print }\n")
	}
	sb.WriteString(strings.Join(rules, "\n"))
	sb.WriteString("\n")
	var d bytes.Buffer
	// the element stands in an array document, or (an object) is the document itself
	whole := v.Init.Kind == 'o' && r.Intn(2) == 0
	if !whole {
		d.WriteString("[")
	}
	in.writeDoc(&d, v.Init, r)
	if !whole {
		d.WriteString("]")
	}
	return []byte(sb.String()), d.Bytes()
}

type c17JudgeFn func(fam string, j *Job, r Result, in *c17Inst, toks []string, js []c17Val, key string, nontrivial bool)

func c17LiveFamily(c *Ctx, pool *Pool, judge c17JudgeFn) {
	maxSteps := 3
	if c.Thorough() {
		maxSteps = 4
	}
	n := 0
	mk := func(raw []byte) (*c17LiveVec, *c17Inst, []byte, []byte) {
		var v c17LiveVec
		VecDecode(raw, &v)
		in := c17NewInst(c.Seed, raw)
		prog, doc := c17LiveProgram(in, &v, rand.New(rand.NewSource(c17Seed(c.Seed, raw, "live"))))
		return &v, in, prog, doc
	}
	st := pool.NewStream(func(j *Job, r Result) {
		v, in, _, _ := mk([]byte(j.Tag))
		// re-readable: the last line is the final $
		lines := 0
		for _, t := range v.Out {
			if t == "\n" {
				lines++
			}
		}
		js := make([]c17Val, lines)
		js[lines-1] = v.JS
		judge("live-dollar", j, r, in, v.Out, js, "live-dollar:"+j.Tag, true)
		n++
		if n%700 == 1 {
			c.Sample(map[string]any{"family": "live-dollar", "program": string(j.Prog), "input": string(j.Files[0].Data), "expected_tokens": v.Out, "stdout": c17Clip(r.Stdout)})
		}
	})
	c.TLC(TLCOpt{Module: "MC_RenderLive", Workers: 8, Heap: "6g",
		Cfg: cfgText("INIT Init", "NEXT Next", "CONSTANTS", fmt.Sprintf("MaxSteps = %d", maxSteps), `RootKinds = {"arr", "obj"}`, `InnerKinds = {"none", "arr", "obj"}`,
			"INVARIANT Laws", "INVARIANT Vec", "PROPERTY MutObservable", "PROPERTY PrintPure", "CHECK_DEADLOCK FALSE"),
		OnVec: func(raw []byte) {
			if c17Decided(c) {
				return
			}
			_, _, prog, doc := mk(raw)
			st.Submit(Job{Kind: "c17run", Prog: prog, Files: []FileIn{{Name: "in.json", Data: doc}}, Tag: string(raw)})
		}})
	st.Wait()
	c.Set("live_dollar_vectors", n)
	c.Set("live_dollar_max_steps", maxSteps)
}
