package main

import (
	"bytes"
	"encoding/json"
	"fmt"
	"io"
	"math/rand"
	"strings"
	"sync"
	"unicode/utf8"
)

// ---------------------------------------------------------------------------
// C04 (vii): every code point class of JqJsonText, in every spelling JSON allows,
// at every byte offset against a read boundary of the input (spec/MC_JsonChunk.tla):
// the refills of the JSON reader's buffer when the whole text is available, and
// short reads of the input itself.

type c04ChunkVec struct {
	C     string `json:"c"`
	F     string `json:"f"`
	Cut   int    `json:"cut"`
	SpLen int    `json:"splen"`
	W     int    `json:"w"`
	Pos   string `json:"pos"`
	Mode  string `json:"mode"`
	K     int    `json:"k"`
	B     int    `json:"b"`
}

// c04Spell: the bytes of spelling f of the code point.
func c04Spell(ru rune, f string) []byte {
	switch f {
	case "raw":
		return []byte(string(ru))
	case "e2":
		if s, ok := map[rune]string{'"': `\"`, '\\': `\\`, '/': `\/`, 8: `\b`, 12: `\f`, 10: `\n`, 13: `\r`, 9: `\t`}[ru]; ok {
			return []byte(s)
		}
	case "eu":
		if ru <= 0xffff {
			return []byte(fmt.Sprintf(`\u%04x`, ru))
		}
	case "sp":
		if ru > 0xffff {
			r2 := ru - 0x10000
			return []byte(fmt.Sprintf(`\u%04x\u%04X`, 0xd800+(r2>>10), 0xdc00+(r2&0x3ff)))
		}
	}
	infra("MC_JsonChunk: code point U+%04X has no spelling %q", ru, f)
	return nil
}

type c04OffsetReader struct {
	r    io.Reader
	off  int
	offs []int
}

func (o *c04OffsetReader) Read(p []byte) (int, error) {
	o.offs = append(o.offs, o.off)
	n, err := o.r.Read(p)
	o.off += n
	return n, err
}

// c04DecoderBoundaries: the offsets at which the real JSON reader starts its 2nd, 3rd, ... read of one long document.
func c04DecoderBoundaries(n int) []int {
	text := []byte(`["` + strings.Repeat("a", 1<<uint(n+10)) + `"]`)
	or := &c04OffsetReader{r: bytes.NewReader(text)}
	var v any
	if err := json.NewDecoder(or).Decode(&v); err != nil {
		infra("c04DecoderBoundaries: %v", err)
	}
	if len(or.offs) < n+1 {
		infra("c04DecoderBoundaries: only %d reads", len(or.offs))
	}
	return or.offs[1 : n+1]
}

func c04ChunkFamily(c *Ctx, pool *Pool, settle func(fam, key, verdict, why string, rep func() map[string]any, nontrivial bool), report func(name string, rep map[string]any),
	addBin func(prog, doc []byte, sels []string, exp c17Val, in *c17Inst, tag, fam string)) {
	c.Assume("read boundaries (vii): the boundaries of the reader's buffer are those of encoding/json's Decoder for ONE document per input (first refills; the model's offsets are cross-checked against the real decoder at start-up); several documents in one stream shift them and are covered only through the short-read modes, which put a boundary at any offset independent of the reader")
	nRefill := 3
	if c.Thorough() {
		nRefill = 6
	}
	real := c04DecoderBoundaries(nRefill)
	type runCtx struct {
		v    c04ChunkVec
		ru   rune
		want any
	}
	var mu sync.Mutex
	ctxOf := map[int]*runCtx{}
	var nRuns int64
	perMode := map[string]int{}
	st := pool.NewStream(func(j *Job, r Result) {
		mu.Lock()
		rc := ctxOf[j.N]
		delete(ctxOf, j.N)
		mu.Unlock()
		mu.Lock()
		defer mu.Unlock()
		v := &rc.v
		fam := "chunk-" + v.Mode
		got := r.JS
		if !j.WantJS {
			got = r.Stdout
		}
		rep := func() map[string]any {
			return map[string]any{"code_point": fmt.Sprintf("U+%04X", rc.ru), "class": v.C, "spelling": v.F, "boundary_offset_inside_spelling": v.Cut, "position": v.Pos, "mode": v.Mode,
				"boundary_at_byte": j.Args, "reads": j.Files[0].Chunks, "program": string(j.Prog), "input_length": len(j.Files[0].Data), "input": c17Clip(j.Files[0].Data), "input_tail": c04Tail(j.Files[0].Data),
				"got_class": r.Class, "got": c17Clip(got), "got_tail": c04Tail(got), "root_json_err": r.JSErr, "err": r.ErrMsg, "detail": r.Detail}
		}
		if r.Class != "ok" || strings.HasPrefix(r.JSErr, "panic") || r.JSErr != "" {
			report(fam, map[string]any{"case": rep(), "why": "a well-formed document must be read and written, wherever the reads of the input end"})
			return
		}
		verdict, why := c04VerdictStrict(c, rc.want, bytes.TrimSuffix(got, []byte("\n")))
		if verdict == "violation" {
			why += ": the value written differs from the input as read when a read boundary falls at this byte of the string"
		}
		settle(fam, fmt.Sprintf("%s:%s:%s:%d:%s:%d:%d:U+%04X:%v", fam, v.C, v.F, v.Cut, v.Pos, v.K, j.N&1, rc.ru, j.WantJS), verdict, why, rep, true)
		nRuns++
		perMode[v.Mode]++
		if nRuns%1500 == 1 {
			c.Sample(map[string]any{"family": fam, "code_point": fmt.Sprintf("U+%04X", rc.ru), "spelling": v.F, "cut": v.Cut, "position": v.Pos, "boundary_at_byte": j.Args, "input_length": len(j.Files[0].Data), "got_tail": c04Tail(got)})
		}
	})
	nsub, nvec := 0, 0
	ident := []string{"{}", "{ x = $ }", "", "BEGINFILE { keep = $ }"}
	c.TLC(TLCOpt{Module: "MC_JsonChunk", Workers: 4, Heap: "2g",
		Cfg: cfgText("INIT Init", "NEXT Next", "CONSTANTS", fmt.Sprintf("NRefill = %d", nRefill), "MinRead = 512", "INVARIANT Laws", "INVARIANT Vec", "CHECK_DEADLOCK FALSE"),
		OnVec: func(raw []byte) {
			var v c04ChunkVec
			VecDecode(raw, &v)
			nvec++
			if c17Decided(c) {
				return
			}
			if v.Mode == "refill" && real[v.K-1] != v.B {
				infra("MC_JsonChunk: refill %d starts at byte %d in the model, at %d in encoding/json", v.K, v.B, real[v.K-1])
			}
			r := rand.New(rand.NewSource(c17Seed(c.Seed, raw, "chunk")))
			// members: the raw spelling inside an array element goes through EVERY listed member of the class
			var members []rune
			{
				all := v.F == "raw" && (v.Pos == "val" || c.Thorough())
				var cand []rune
				for _, ru := range c04Members[v.C] {
					if v.F != "raw" || utf8.RuneLen(ru) == v.W {
						cand = append(cand, ru)
					}
				}
				if all {
					members = append(members, cand...)
				}
				for n := 0; n < 2; n++ { // seeded: any code point of the class (of that width), else a listed one
					ru := c04RandMember(v.C, r)
					if v.F == "raw" && utf8.RuneLen(ru) != v.W {
						if len(cand) == 0 {
							continue
						}
						ru = cand[r.Intn(len(cand))]
					}
					members = append(members, ru)
				}
			}
			if len(members) == 0 {
				infra("MC_JsonChunk: no member of class %s is %d bytes wide", v.C, v.W)
			}
			for _, ru := range members {
				if c04ClassOf(ru) != v.C {
					infra("U+%04X instantiates class %s but is of class %s", ru, v.C, c04ClassOf(ru))
				}
				sp := c04Spell(ru, v.F)
				if len(sp) != v.SpLen {
					infra("MC_JsonChunk: spelling %q of U+%04X has %d bytes, the model says %d", v.F, ru, len(sp), v.SpLen)
				}
				var pre, post string
				switch v.Pos {
				case "val":
					pre, post = `["`, `x"]`
				case "key":
					pre, post = `{"`, `k":1}`
				default:
					pre, post = `{"k":[{"k":"`, `x"}]}`
				}
				b := v.B
				if v.Mode != "refill" { // the harness cuts the input: anywhere
					b = len(pre) + v.Cut + r.Intn(40)
				}
				padLen := b - v.Cut - len(pre)
				if padLen < 0 {
					infra("MC_JsonChunk: boundary %d is too early", b)
				}
				pad := strings.Repeat("a", padLen)
				text := []byte(pre + pad + string(sp) + post)
				str := pad + string(ru)
				var want any
				switch v.Pos {
				case "val":
					want = []any{str + "x"}
				case "key":
					want = map[string]any{str + "k": float64(1)}
				default:
					want = map[string]any{"k": []any{map[string]any{"k": str + "x"}}}
				}
				if val, err := c17ParseJSONText(text); err != nil || !c17DeepEq(val, want) { // self-check of the rendering
					infra("MC_JsonChunk: the harness wrote a document that does not read back: %s (%v)", c17Clip(text), err)
				}
				fi := FileIn{Name: "in.json", Data: text}
				switch v.Mode {
				case "two":
					fi.Chunks = []int{b}
				case "drip":
					fi.Chunks = []int{b - v.Cut}
					for n := 0; n <= v.SpLen; n++ {
						fi.Chunks = append(fi.Chunks, 1)
					}
				}
				nsub++
				j := Job{Kind: "run", Files: []FileIn{fi}, N: nsub, Args: []string{fmt.Sprint(b)}, Tag: string(raw)}
				if nsub%2 == 0 {
					j.Prog = []byte("BEGINFILE { print json($) }")
				} else {
					j.Prog, j.WantJS = []byte(ident[r.Intn(len(ident))]), true
				}
				mu.Lock()
				ctxOf[nsub] = &runCtx{v: v, ru: ru, want: want}
				mu.Unlock()
				st.Submit(j)
				if v.Mode == "refill" && v.Pos != "deep" && c17Seed(c.Seed, raw, fmt.Sprintf("binchunk%d", ru))%23 == 0 { // the binary reads files and stdin whole
					in := c17NewInst(c.Seed, nil)
					var exp c17Val
					if v.Pos == "val" {
						in.atoms["s1"] = c17Scalar{K: 's', S: str + "x"}
						exp = c17Val{Kind: 'a', S: []c17Val{{Leaf: "s1"}}}
					} else {
						in.atoms["n3"] = c17Scalar{K: 'n', N: 1}
						in.keys["1"] = str + "k"
						exp = c17Val{Kind: 'o', S: []c17Val{{Leaf: "n3"}}, K: []string{"1"}}
					}
					addBin([]byte(ident[r.Intn(len(ident))]), text, nil, exp, in, fmt.Sprintf("%s:U+%04X", raw, ru), "bin-chunk")
				}
			}
		}})
	st.Wait()
	c.Set("chunk_vectors", nvec)
	c.Set("chunk_runs", nRuns)
	c.Set("chunk_runs_per_mode", perMode)
	c.Set("chunk_refill_boundaries", real)
	c.Set("rule_part4", "MC_JsonChunk: every code point class of JqJsonText x every spelling JSON allows for it x every byte offset of a read boundary inside / at the ends of the spelling x {array element, object key, two levels down} x {refill k of the reader's buffer (offsets 512, 1536, 3584, ... from the model's transition system, cross-checked against encoding/json), one short read, one byte per read}; the raw spelling goes through every listed member of its class; json($) and -o (library, a sample through the binary with file / stdin input) must give the string of the input")
	c.Set("bounds_part4", map[string]any{"NRefill": nRefill, "MinRead": 512})
}

func c04Tail(b []byte) string {
	if len(b) > 60 {
		b = b[len(b)-60:]
	}
	return fmt.Sprintf("%q", b)
}
