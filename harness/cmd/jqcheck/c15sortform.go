package main

import (
	"fmt"
	"math"
	"math/rand"
	"sort"
	"strconv"
	"strings"
	"sync"
)

// ---------------------------------------------------------------------------
// C15 family "sortform": vectors of MC_SortForm (sort by string form over numbers of every
// magnitude, byte strings, null, true; one operation; sort again).

type c15sfVal struct {
	K    string   `json:"k"` // num str bool null self none
	N    int      `json:"n"`
	E    int      `json:"e"`
	Text []string `json:"text"`
	S    []string `json:"s"`
	B    bool     `json:"b"`
}

type c15sfVec struct {
	X     int        `json:"x"`
	Items []c15sfVal `json:"items"`
	S1    []c15sfVal `json:"s1"`
	Op    struct {
		O string    `json:"o"`
		V *c15sfVal `json:"v"`
	} `json:"op"`
	Res    c15sfVal   `json:"res"`
	Items2 []c15sfVal `json:"items2"`
	S2     []c15sfVal `json:"s2"`
	Chk    []string   `json:"chk"`
}

// src: the value as jqawk / JSON source text, which is also how print shows it inside an array.
// A number is written with the spec's NumText; that this text denotes n * 2^e and is strconv's
// shortest plain-decimal form of that double is a leaf fact checked here.
func (v *c15sfVal) src() string {
	switch v.K {
	case "num":
		t := strings.Join(v.Text, "")
		f := math.Ldexp(float64(v.N), v.E)
		if g, err := strconv.ParseFloat(t, 64); err != nil || g != f || strconv.FormatFloat(f, 'f', -1, 64) != t {
			infra("C15 sortform: the spec's text %q of %d * 2^%d is not the plain decimal form of that double", t, v.N, v.E)
		}
		return t
	case "str":
		s := strings.Join(v.S, "")
		for _, ch := range s {
			if ch < ' ' || ch > '~' || ch == '"' || ch == '\\' {
				infra("C15 sortform: string %q needs escapes", s)
			}
		}
		return "\"" + s + "\""
	case "bool":
		return strconv.FormatBool(v.B)
	case "null":
		return "null"
	}
	infra("C15 sortform: cannot render a value of kind %q", v.K)
	return ""
}

func c15sfArr(vs []c15sfVal) string {
	parts := []string{}
	for i := range vs {
		parts = append(parts, vs[i].src())
	}
	return "[" + strings.Join(parts, ", ") + "]"
}

// c15sfName: where array k of a batch lives in placement pl (variable, field of $, inside containers)
func c15sfName(pl, k int) string {
	switch pl {
	case 0:
		return "a" + strconv.Itoa(k)
	case 1:
		return "$.v" + strconv.Itoa(k)
	}
	return "o.p" + strconv.Itoa(k) + "[0]"
}

// c15sfProgram renders a batch of vectors for one placement, with the expected output lines
// (each prefixed by the vector's position in the batch).
func c15sfProgram(vs []*c15sfVec, pl int) (prog, input string, exp []string) {
	var sb strings.Builder
	fields := []string{}
	sb.WriteString("{\n")
	for k, v := range vs {
		n := c15sfName(pl, k)
		id := strconv.Itoa(k)
		switch pl {
		case 0:
			sb.WriteString(n + " = " + c15sfArr(v.Items) + "\n")
		case 1:
			fields = append(fields, "\"v"+id+"\": "+c15sfArr(v.Items))
		case 2:
			sb.WriteString("o.p" + id + " = [" + c15sfArr(v.Items) + ", 0]\n")
		}
		line := func(tag, expr, want string) {
			sb.WriteString("print " + id + ", \"" + tag + "\", " + expr + "\n")
			exp = append(exp, id+" "+tag+" "+want)
		}
		line("S", n+".sort()", c15sfArr(v.S1))
		line("A", n, c15sfArr(v.Items)) // the original is untouched
		switch v.Op.O {
		case "none":
			continue
		case "push":
			line("R", "["+n+".push("+v.Op.V.src()+")]", "["+c15sfArr(v.Items2)+"]")
		case "set0":
			sb.WriteString(n + "[0] = " + v.Op.V.src() + "\n")
		case "pop", "popfirst":
			line("R", "["+n+"."+v.Op.O+"()]", "["+v.Res.src()+"]")
		default:
			infra("C15 sortform: unknown operation %q", v.Op.O)
		}
		line("S", n+".sort()", c15sfArr(v.S2))
		line("A", n, c15sfArr(v.Items2))
		line("L", n+".length()", strconv.Itoa(len(v.Items2)))
	}
	sb.WriteString("}\n")
	input = "{}"
	if pl == 1 {
		input = "{" + strings.Join(fields, ", ") + "}"
	}
	prog = sb.String()
	if pl == 2 {
		prog = "BEGIN { o = {} }\n" + prog
	}
	return prog, input, exp
}

// c15sfPick: the numbers of MC_SortForm.Pool (1-based indices) enumerated in the quick tier: of every
// magnitude class one, chosen by the seed.  Classes: integers of >= 7 digits (4..8), fractions below
// 0.0001 (12, 13), other fractions and negatives (9..11, 14..16), small integers and zero (1, 2, 3, 17).
func c15sfPick(seed int64, thorough bool) []int {
	if thorough {
		all := []int{}
		for i := 1; i <= 17; i++ {
			all = append(all, i)
		}
		return all
	}
	r := rand.New(rand.NewSource(seed*7919 + 15))
	rest := []int{9, 10, 11, 14, 15, 16}
	pick := []int{4 + r.Intn(5), 12 + r.Intn(2), rest[r.Intn(len(rest))], []int{1, 2, 3, 17}[r.Intn(4)]}
	sort.Ints(pick)
	return pick
}

const c15sfBatch = 48

func c15SortForm(c *Ctx, pool *Pool, stats, tags map[string]int) {
	maxLen, opLen := 2, 2
	if c.Thorough() {
		maxLen = 3
	}
	pick := c15sfPick(c.Seed, c.Thorough())
	ps := []string{}
	for _, p := range pick {
		ps = append(ps, strconv.Itoa(p))
	}
	cfg := cfgText("INIT Init", "NEXT Next", "CONSTANTS", fmt.Sprintf("MaxLen = %d", maxLen), fmt.Sprintf("OpLen = %d", opLen),
		"Pick = {"+strings.Join(ps, ", ")+"}", "INVARIANT Laws", "INVARIANT Vec", "CHECK_DEADLOCK FALSE")
	var mu sync.Mutex
	batches := map[string][]*c15sfVec{}
	nb := 0
	st := pool.NewStream(func(j *Job, r Result) {
		mu.Lock()
		vs := batches[j.Tag]
		delete(batches, j.Tag)
		mu.Unlock()
		if r.Class == "timeout" || r.Class == "budget" { // an overloaded machine: inconclusive, never a violation
			mu.Lock()
			stats["inconclusive_worker_timeouts"]++
			mu.Unlock()
			return
		}
		if r.Class != "ok" || len(r.Hist) != 3 {
			c.Violation("worker", map[string]any{"result": r, "program": string(j.Hist[0].Prog)})
			return
		}
		for pl := 0; pl < 3; pl++ {
			rr := r.Hist[pl]
			if rr.Class == "budget" || rr.Class == "timeout" {
				continue
			}
			_, _, exp := c15sfProgram(vs, pl)
			got := c09Lines(rr.Stdout)
			bad := -1
			for i := range exp {
				if i >= len(got) || got[i] != exp[i] {
					bad = i
					break
				}
			}
			if bad < 0 && rr.Class == "ok" && len(got) == len(exp) {
				continue
			}
			// localise: the vector of the first differing line, alone
			k := 0
			g := "(no such line; run ended " + rr.Class + ": " + rr.ErrMsg + ")"
			e := "(end of output)"
			if bad >= 0 {
				k, _ = strconv.Atoi(strings.SplitN(exp[bad], " ", 2)[0])
				e = exp[bad]
				if bad < len(got) {
					g = got[bad]
				}
			} else if len(got) > len(exp) {
				g = got[len(exp)]
			}
			one, oneIn, oneExp := c15sfProgram(vs[k:k+1], pl)
			c.Violation("sort-form", map[string]any{"program": one, "input": oneIn, "expected_stdout": strings.Join(oneExp, "\n") + "\n",
				"first_difference": map[string]string{"expected": e, "got": g}, "class": rr.Class, "err": rr.ErrMsg,
				"rule": "sort orders a mixed array by the string form of its elements (what \"\" + v yields: a number in plain decimal), bytewise, stably; an all-number array numerically; the receiver is untouched"})
		}
		mu.Lock()
		for _, v := range vs {
			key := "sortform:" + c15sfArr(v.Items) + v.Op.O
			if v.Op.V != nil {
				key += v.Op.V.src()
			}
			c.Case(key, len(v.Items) >= 2)
			stats["sortform_arrays"]++
		}
		nb++
		if nb%97 == 1 {
			p, _, e := c15sfProgram(vs[:1], 2)
			c.Sample(map[string]any{"family": "sort by string form (MC_SortForm)", "program": p, "expected": e})
		}
		mu.Unlock()
	})
	cur := []*c15sfVec{}
	seq := 0
	flush := func() {
		if len(cur) == 0 {
			return
		}
		seq++
		tag := strconv.Itoa(seq)
		jobs := []Job{}
		for pl := 0; pl < 3; pl++ {
			prog, input, _ := c15sfProgram(cur, pl)
			jobs = append(jobs, Job{Kind: "run", Prog: []byte(prog), Files: []FileIn{{Name: "in.json", Data: []byte(input)}}})
		}
		mu.Lock()
		batches[tag] = cur
		mu.Unlock()
		cur = []*c15sfVec{}
		st.Submit(Job{Kind: "history", Hist: jobs, Tag: tag})
	}
	c.TLC(TLCOpt{Module: "MC_SortForm", Cfg: cfg, Workers: 12, Heap: "4g",
		OnVec: func(raw []byte) {
			v := &c15sfVec{}
			VecDecode(raw, v)
			if len(v.Items) == 0 || len(v.S1) != len(v.Items) || len(v.S2) != len(v.Items2) {
				infra("C15 sortform: malformed vector %.200s", raw)
			}
			for _, l := range v.Chk {
				tags["sf:"+l]++
			}
			cur = append(cur, v)
			if len(cur) >= c15sfBatch {
				flush()
			}
		}})
	flush()
	st.Wait()
	stats["sortform_programs"] = 3 * seq
}
