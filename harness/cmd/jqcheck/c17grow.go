package main

import (
	"bytes"
	"fmt"
	"math/rand"
	"strings"
)

// ---------------------------------------------------------------------------
// C17, family "grown-copy" (spec/MC_RenderGrow.tla): an array and the copy of
// it taken before it grew beyond its storage share their first cells but are
// two arrays; the old copy below the grown array is sharing without a cycle
// and is printed in full, a reference to the grown array from below itself is
// still cut.  Every base length x growth (pushes / assignment past the end) x
// holder of the old copy x filling of the new slots x root of the universe.
// The two arrays exist only through C09's open finding alias-length: a probe
// line (the lengths of the old copy and of the grown array) tells which world
// the implementation is in; when the finding is repaired the old copy IS the
// grown array and the vector's `ideal` tokens are owed.

type c17GrowVec struct {
	L      int      `json:"L"`
	G      int      `json:"g"`
	Gop    string   `json:"gop"`
	Holder string   `json:"holder"`
	Base   string   `json:"base"`
	Fills  []string `json:"fills"`
	Root   string   `json:"root"`
	H      []c17Val `json:"h"`
	Out    []string `json:"out"`
	Ideal  []string `json:"ideal"`
	JS     c17Val   `json:"js"`
}

func c17GrowProgram(in *c17Inst, v *c17GrowVec, r *rand.Rand) (prog, doc []byte) {
	in.prealloc(v.H...)
	atomExpr := func(leaf string) string {
		s := in.atom(leaf)
		switch s.K {
		case 't', 'f', 'z':
			if r.Intn(3) == 0 {
				return map[byte]string{'t': "true", 'f': "false", 'z': "null"}[s.K]
			}
		case 's':
			if lit, ok := c17StrLit(s.S); ok && r.Intn(3) == 0 {
				return lit
			}
		}
		return fmt.Sprintf("A[%d]", in.aIndex[leaf])
	}
	member := func(base, name string) string {
		k := in.key(name)
		if c17IsIdent(k) && c04SafeKey(k) && r.Intn(2) == 0 {
			return base + "." + k
		}
		return fmt.Sprintf("%s[K[%d]]", base, in.kIndex[name])
	}
	stmts := []string{"A = $.a", "K = $.k"}
	// the base array: capacity = length for a literal and for an array as read
	if v.Base == "input" {
		stmts = append(stmts, "a = $.b")
	} else {
		items := make([]string, v.L)
		for j := range items {
			items[j] = atomExpr(fmt.Sprintf("a2.%d", j+1))
		}
		stmts = append(stmts, "a = ["+strings.Join(items, ", ")+"]")
	}
	// the holder of the old copy
	old := ""
	switch v.Holder {
	case "input":
		old = "$.b"
	case "var":
		stmts = append(stmts, "b = a")
		old = "b"
	case "obj":
		if r.Intn(2) == 0 {
			stmts = append(stmts, "o = {held: a}")
		} else {
			stmts = append(stmts, "o = {}", "o.held = a")
		}
		old = "o.held"
	case "arr":
		if r.Intn(2) == 0 {
			stmts = append(stmts, "w = [0, a]")
		} else {
			stmts = append(stmts, "w = [0, 0]", "w[1] = a")
		}
		old = "w[1]"
	default:
		infra("grown-copy: unknown holder %q", v.Holder)
	}
	// growth
	newLeaf := func(j int) string { return fmt.Sprintf("a1.%d", v.L+j) }
	if v.Gop == "push" {
		for j := 1; j <= v.G; j++ {
			stmts = append(stmts, "a.push("+atomExpr(newLeaf(j))+")")
		}
	} else {
		stmts = append(stmts, fmt.Sprintf("a[%d] = %s", v.L+v.G-1, atomExpr(newLeaf(v.G))))
	}
	stmts = append(stmts, fmt.Sprintf(`print "L", %s.length(), a.length()`, old))
	// the new slots
	nw := 0
	for j, f := range v.Fills {
		target := fmt.Sprintf("a[%d]", v.L+j)
		what := old
		if strings.HasPrefix(f, "self") {
			what = "a"
		}
		switch f {
		case "atom":
		case "old", "self":
			stmts = append(stmts, target+" = "+what)
		case "oldobj", "selfobj", "oldarr":
			nw++
			wv := fmt.Sprintf("w%d", nw)
			if f == "oldarr" {
				stmts = append(stmts, wv+" = [0]", wv+"[0] = "+what)
			} else {
				stmts = append(stmts, wv+" = {}", member(wv, fmt.Sprintf("%d.1", 2+nw))+" = "+what)
			}
			stmts = append(stmts, target+" = "+wv)
		default:
			infra("grown-copy: unknown fill %q", f)
		}
	}
	rootExpr := "a"
	if v.Root == "beside" {
		stmts = append(stmts, "r = [0, 0]", "r[0] = a", "r[1] = "+old)
		rootExpr = "r"
	}
	if r.Intn(3) == 0 && v.Holder != "input" {
		stmts = append(stmts, "$ = "+rootExpr, "print")
	} else {
		stmts = append(stmts, "print "+rootExpr)
	}
	sep := "; "
	if r.Intn(3) == 0 {
		sep = "\n  "
	}
	var d bytes.Buffer
	d.WriteString(`{"a":[`)
	for i, leaf := range in.aOrder {
		if i > 0 {
			d.WriteByte(',')
		}
		c17WriteJSONScalar(&d, in.atoms[leaf], r)
	}
	d.WriteString(`],"k":[`)
	for i, name := range in.kOrder {
		if i > 0 {
			d.WriteByte(',')
		}
		c17WriteJSONString(&d, in.keys[name], r.Intn(3))
	}
	d.WriteString(`],"b":[`)
	for j := 1; j <= v.L; j++ {
		if j > 1 {
			d.WriteByte(',')
		}
		c17WriteJSONScalar(&d, in.atom(fmt.Sprintf("a2.%d", j)), r)
	}
	d.WriteString(`]}`)
	return []byte("{ " + strings.Join(stmts, sep) + " }"), d.Bytes()
}

func c17GrowFamily(c *Ctx, pool *Pool, judge c17JudgeFn) {
	c.Assume("grown-copy family (MC_RenderGrow): an array and its pre-growth copy are two arrays only through C09's open finding alias-length; each vector confirms by a length() probe which world the implementation is in (two arrays: the model's Dev tokens; one array: its Ideal tokens); anything else is not compared")
	maxL, maxG := 2, 2
	if c.Thorough() {
		maxL, maxG = 3, 3
	}
	var nDev, nIdeal, nOther int64
	n := 0
	mk := func(raw []byte) (*c17GrowVec, *c17Inst, []byte, []byte) {
		var v c17GrowVec
		VecDecode(raw, &v)
		in := c17NewInst(c.Seed, raw)
		prog, doc := c17GrowProgram(in, &v, rand.New(rand.NewSource(c17Seed(c.Seed, raw, "grow"))))
		return &v, in, prog, doc
	}
	st := pool.NewStream(func(j *Job, r Result) {
		v, in, _, _ := mk([]byte(j.Tag))
		toks := v.Out
		var js []c17Val
		if r.Class == "ok" {
			nl := bytes.IndexByte(r.Stdout, '\n')
			if nl < 0 {
				nl = len(r.Stdout) - 1
			}
			probe := string(r.Stdout[:nl+1])
			switch probe {
			case fmt.Sprintf("L %d %d\n", v.L, v.L+v.G):
				nDev++
				if !v.JS.isError() {
					js = []c17Val{v.JS}
				}
			case fmt.Sprintf("L %d %d\n", v.L+v.G, v.L+v.G):
				nIdeal++
				toks = v.Ideal
			default:
				nOther++
				return
			}
			r.Stdout = r.Stdout[nl+1:]
		}
		judge("grown-copy", j, r, in, toks, js, "grown-copy:"+j.Tag, true)
		n++
		if n%600 == 1 {
			c.Sample(map[string]any{"family": "grown-copy", "program": string(j.Prog), "input": string(j.Files[0].Data), "expected_tokens": toks, "stdout": c17Clip(r.Stdout)})
		}
	})
	c.TLC(TLCOpt{Module: "MC_RenderGrow", Workers: 8, Heap: "6g",
		Cfg: cfgText("INIT Init", "NEXT Next", "CONSTANTS", fmt.Sprintf("MaxL = %d", maxL), fmt.Sprintf("MaxGrow = %d", maxG),
			`Holders = {"var", "obj", "arr"}`, `Bases = {"lit", "input"}`, `GrowOps = {"push", "index"}`,
			`Fills = {"atom", "old", "oldobj", "oldarr", "self", "selfobj"}`, `Roots = {"grown", "beside"}`,
			"INVARIANT Laws", "INVARIANT Vec", "CHECK_DEADLOCK FALSE"),
		OnVec: func(raw []byte) {
			if c17Decided(c) {
				return
			}
			_, _, prog, doc := mk(raw)
			st.Submit(Job{Kind: "c17run", Prog: prog, Files: []FileIn{{Name: "in.json", Data: doc}}, Tag: string(raw)})
		}})
	st.Wait()
	c.Set("grown_copy", map[string]int64{"two_arrays_as_modelled": nDev, "one_array_alias_length_repaired": nIdeal, "probe_differs_not_compared": nOther, "MaxL": int64(maxL), "MaxGrow": int64(maxG)})
}
