package main

import (
	"bytes"
	"encoding/json"
	"fmt"
	"math"
	"math/rand"
	"os"
	"path/filepath"
	"runtime/debug"
	"sort"
	"strconv"
	"strings"
	"sync"
	"time"
	"unicode/utf8"
)

// ---------------------------------------------------------------------------
// C04, second part: (iii) leaves x positions x entry points (spec/JqJsonText.tla,
// spec/MC_JsonLeaf.tla) and (iv) chains of containers up to and across the
// reader's nesting limit against real cycles (spec/MC_RenderDeep.tla).

// ---- the code point classes of JqJsonText

var c04Classes = []string{"pl", "dq", "bs", "sl", "html", "c2", "cu", "del", "c1", "b2", "ls", "b3", "bnp", "rep", "as", "anp"}

// c04ClassOf: the membership function of the partition (total on Unicode scalar values).
func c04ClassOf(r rune) string {
	switch {
	case r == '"':
		return "dq"
	case r == '\\':
		return "bs"
	case r == '/':
		return "sl"
	case r == '<' || r == '>' || r == '&':
		return "html"
	case r == 8 || r == 9 || r == 10 || r == 12 || r == 13:
		return "c2"
	case r < 0x20:
		return "cu"
	case r == 0x7f:
		return "del"
	case r < 0x7f:
		return "pl"
	case r <= 0x9f:
		return "c1"
	case r == 0x2028 || r == 0x2029:
		return "ls"
	case r == 0xfffd:
		return "rep"
	case r > 0xffff:
		if strconv.IsPrint(r) {
			return "as"
		}
		return "anp"
	case !strconv.IsPrint(r):
		return "bnp"
	case r < 0x800:
		return "b2"
	}
	return "b3"
}

// c04AllowedGo: transcription of JqJsonText.Allowed; every vector of MC_JsonLeaf
// carries the model's sets and is compared with this table (c04CheckTable).
func c04AllowedGo(class string) []string {
	switch class {
	case "dq", "bs", "c2":
		return []string{"e2", "eu"}
	case "sl":
		return []string{"raw", "e2", "eu"}
	case "cu":
		return []string{"eu"}
	case "as", "anp":
		return []string{"raw", "sp"}
	}
	return []string{"raw", "eu"}
}

func c04FormAllowed(class, form string) bool {
	for _, f := range c04AllowedGo(class) {
		if f == form {
			return true
		}
	}
	return false
}

// fixed members per class (filtered by c04ClassOf at start-up); classes that are
// large get seeded random members in addition.
var c04Fixed = map[string][]rune{
	"pl":   []rune("uUxn0 a'tbfr9Zz~!#%()*+,-.:;=?@[]^_`{|}"),
	"dq":   {'"'},
	"bs":   {'\\'},
	"sl":   {'/'},
	"html": {'<', '>', '&'},
	"c2":   {8, 9, 10, 12, 13},
	"del":  {0x7f},
	"ls":   {0x2028, 0x2029},
	"rep":  {0xfffd},
	"b2":   {0xe9, 0xa1, 0xff, 0x100, 0x3b1, 0x416, 0x5d0, 0x7ff, 0xb5, 0xd7},
	"b3":   {0x800, 0x20ac, 0x65e5, 0x672c, 0xac00, 0xd7a3, 0x2027, 0x2010, 0xfffc, 0xff01, 0x0e01, 0x2603},
	"bnp":  {0xa0, 0xad, 0x200b, 0x200e, 0x2060, 0xfeff, 0xfff9, 0xe000, 0xf8ff, 0xfdd0, 0xfffe, 0xffff, 0x0378, 0x061c, 0x180e, 0x2000, 0x3000, 0x202e},
	"as":   {0x1f600, 0x10348, 0x1d11e, 0x20000, 0x10000, 0x1f1e9, 0x2a6d6, 0x1f9ff},
	"anp":  {0xe0001, 0xe0020, 0xe007f, 0xf0000, 0xffffd, 0x100000, 0x10fffd, 0x1fffe, 0x1ffff, 0x10fffe, 0x10ffff, 0xeffff, 0xe0000, 0x1d173},
}

var c04Members = map[string][]rune{}

func init() {
	for r := rune(0); r < 0x20; r++ {
		if c04ClassOf(r) == "cu" {
			c04Fixed["cu"] = append(c04Fixed["cu"], r)
		}
	}
	for r := rune(0x80); r <= 0x9f; r++ {
		c04Fixed["c1"] = append(c04Fixed["c1"], r)
	}
	for _, cl := range c04Classes {
		for _, r := range c04Fixed[cl] {
			if c04ClassOf(r) == cl && utf8.ValidRune(r) {
				c04Members[cl] = append(c04Members[cl], r)
			}
		}
	}
}

// c04RandMember: a seeded member of the class (fixed list, or for the large classes any code point of the class).
func c04RandMember(class string, r *rand.Rand) rune {
	m := c04Members[class]
	lo, hi := rune(0), rune(0)
	switch class {
	case "pl":
		lo, hi = 0x20, 0x7e
	case "b2":
		lo, hi = 0xa0, 0x7ff
	case "b3", "bnp":
		lo, hi = 0x800, 0xffff
	case "as", "anp":
		lo, hi = 0x10000, 0x10ffff
	}
	if hi != 0 && r.Intn(2) == 0 {
		for try := 0; try < 200; try++ {
			ru := lo + rune(r.Intn(int(hi-lo+1)))
			if utf8.ValidRune(ru) && c04ClassOf(ru) == class {
				return ru
			}
		}
	}
	return m[r.Intn(len(m))]
}

// ---- a strict JSON reader (RFC 8259) without a nesting limit that records how
// every string was spelled; validity of a spelling is decided by the table.

type c04Lit struct {
	Val   string
	Forms []string
	Runes []rune
}

type c04Reader struct {
	b      []byte
	i      int
	lits   []c04Lit
	depth  int
	maxDep int
}

func (p *c04Reader) errf(format string, a ...any) error {
	return fmt.Errorf("offset %d: %s", p.i, fmt.Sprintf(format, a...))
}

func (p *c04Reader) ws() {
	for p.i < len(p.b) {
		switch p.b[p.i] {
		case ' ', '\t', '\n', '\r':
			p.i++
		default:
			return
		}
	}
}

func c04Hex(b []byte) (rune, bool) {
	var v rune
	for _, c := range b {
		switch {
		case c >= '0' && c <= '9':
			v = v<<4 | rune(c-'0')
		case c >= 'a' && c <= 'f':
			v = v<<4 | rune(c-'a'+10)
		case c >= 'A' && c <= 'F':
			v = v<<4 | rune(c-'A'+10)
		default:
			return 0, false
		}
	}
	return v, true
}

func (p *c04Reader) str() (string, error) {
	if p.i >= len(p.b) || p.b[p.i] != '"' {
		return "", p.errf("string expected")
	}
	p.i++
	var lit c04Lit
	var sb strings.Builder
	add := func(form string, r rune) error {
		cl := c04ClassOf(r)
		if !c04FormAllowed(cl, form) {
			return p.errf("code point U+%04X (class %s) is spelled %q; JSON allows %v for it (JqJsonText.Allowed)", r, cl, form, c04AllowedGo(cl))
		}
		lit.Forms = append(lit.Forms, form)
		lit.Runes = append(lit.Runes, r)
		sb.WriteRune(r)
		return nil
	}
	for {
		if p.i >= len(p.b) {
			return "", p.errf("unterminated string")
		}
		c := p.b[p.i]
		switch {
		case c == '"':
			p.i++
			lit.Val = sb.String()
			p.lits = append(p.lits, lit)
			return lit.Val, nil
		case c == '\\':
			if p.i+1 >= len(p.b) {
				return "", p.errf("unterminated escape")
			}
			e := p.b[p.i+1]
			switch e {
			case '"', '\\', '/':
				p.i += 2
				if err := add("e2", rune(e)); err != nil {
					return "", err
				}
			case 'b', 'f', 'n', 'r', 't':
				p.i += 2
				if err := add("e2", map[byte]rune{'b': 8, 'f': 12, 'n': 10, 'r': 13, 't': 9}[e]); err != nil {
					return "", err
				}
			case 'u':
				if p.i+6 > len(p.b) {
					return "", p.errf("short \\u escape")
				}
				u, ok := c04Hex(p.b[p.i+2 : p.i+6])
				if !ok {
					return "", p.errf("bad \\u escape %q", p.b[p.i:p.i+6])
				}
				p.i += 6
				if u >= 0xd800 && u <= 0xdbff {
					if p.i+6 <= len(p.b) && p.b[p.i] == '\\' && p.b[p.i+1] == 'u' {
						if lo, ok := c04Hex(p.b[p.i+2 : p.i+6]); ok && lo >= 0xdc00 && lo <= 0xdfff {
							p.i += 6
							if err := add("sp", 0x10000+(u-0xd800)<<10+(lo-0xdc00)); err != nil {
								return "", err
							}
							continue
						}
					}
					return "", p.errf("lone surrogate \\u%04x denotes no code point", u)
				}
				if u >= 0xdc00 && u <= 0xdfff {
					return "", p.errf("lone surrogate \\u%04x denotes no code point", u)
				}
				if err := add("eu", u); err != nil {
					return "", err
				}
			case 'x':
				return "", p.errf("spelling \"ex\" (\\x..) is not JSON: %q", c17Clip(p.b[p.i:min(len(p.b), p.i+4)]))
			case 'U':
				return "", p.errf("spelling \"eU\" (\\U........) is not JSON: %q", c17Clip(p.b[p.i:min(len(p.b), p.i+10)]))
			default:
				return "", p.errf("spelling \"e1\" (backslash + %q) is not JSON", e)
			}
		default:
			r, n := utf8.DecodeRune(p.b[p.i:])
			if r == utf8.RuneError && n <= 1 {
				return "", p.errf("invalid UTF-8")
			}
			p.i += n
			if err := add("raw", r); err != nil {
				return "", err
			}
		}
	}
}

func (p *c04Reader) number() (float64, error) {
	s := p.i
	digits := func() int {
		n := 0
		for p.i < len(p.b) && p.b[p.i] >= '0' && p.b[p.i] <= '9' {
			p.i++
			n++
		}
		return n
	}
	if p.i < len(p.b) && p.b[p.i] == '-' {
		p.i++
	}
	if p.i < len(p.b) && p.b[p.i] == '0' {
		p.i++
	} else if digits() == 0 {
		return 0, p.errf("digit expected")
	}
	if p.i < len(p.b) && p.b[p.i] == '.' {
		p.i++
		if digits() == 0 {
			return 0, p.errf("digit expected after the decimal point")
		}
	}
	if p.i < len(p.b) && (p.b[p.i] == 'e' || p.b[p.i] == 'E') {
		p.i++
		if p.i < len(p.b) && (p.b[p.i] == '+' || p.b[p.i] == '-') {
			p.i++
		}
		if digits() == 0 {
			return 0, p.errf("digit expected in the exponent")
		}
	}
	f, err := strconv.ParseFloat(string(p.b[s:p.i]), 64)
	if err != nil {
		return 0, p.errf("number %q: %v", p.b[s:p.i], err)
	}
	return f, nil
}

func (p *c04Reader) value() (any, error) {
	p.ws()
	if p.i >= len(p.b) {
		return nil, p.errf("value expected")
	}
	switch c := p.b[p.i]; {
	case c == '[':
		p.i++
		p.depth++
		if p.depth > p.maxDep {
			p.maxDep = p.depth
		}
		out := []any{}
		p.ws()
		if p.i < len(p.b) && p.b[p.i] == ']' {
			p.i++
			p.depth--
			return out, nil
		}
		for {
			v, err := p.value()
			if err != nil {
				return nil, err
			}
			out = append(out, v)
			p.ws()
			if p.i < len(p.b) && p.b[p.i] == ',' {
				p.i++
				continue
			}
			if p.i < len(p.b) && p.b[p.i] == ']' {
				p.i++
				p.depth--
				return out, nil
			}
			return nil, p.errf("',' or ']' expected")
		}
	case c == '{':
		p.i++
		p.depth++
		if p.depth > p.maxDep {
			p.maxDep = p.depth
		}
		out := map[string]any{}
		p.ws()
		if p.i < len(p.b) && p.b[p.i] == '}' {
			p.i++
			p.depth--
			return out, nil
		}
		for {
			p.ws()
			k, err := p.str()
			if err != nil {
				return nil, err
			}
			if _, dup := out[k]; dup {
				return nil, p.errf("duplicate key %q", k)
			}
			p.ws()
			if p.i >= len(p.b) || p.b[p.i] != ':' {
				return nil, p.errf("':' expected")
			}
			p.i++
			v, err := p.value()
			if err != nil {
				return nil, err
			}
			out[k] = v
			p.ws()
			if p.i < len(p.b) && p.b[p.i] == ',' {
				p.i++
				continue
			}
			if p.i < len(p.b) && p.b[p.i] == '}' {
				p.i++
				p.depth--
				return out, nil
			}
			return nil, p.errf("',' or '}' expected")
		}
	case c == '"':
		return p.str()
	case c == '-' || c >= '0' && c <= '9':
		return p.number()
	}
	for _, w := range []struct {
		s string
		v any
	}{{"true", true}, {"false", false}, {"null", nil}} {
		if bytes.HasPrefix(p.b[p.i:], []byte(w.s)) {
			p.i += len(w.s)
			return w.v, nil
		}
	}
	return nil, p.errf("unexpected character %q", p.b[p.i])
}

// c04Parse: b must be exactly one JSON text; returns the value, the string
// literals as spelled and the deepest bracket nesting.
func c04Parse(b []byte) (any, []c04Lit, int, error) {
	p := &c04Reader{b: b}
	v, err := p.value()
	if err != nil {
		return nil, nil, 0, err
	}
	p.ws()
	if p.i != len(p.b) {
		return nil, nil, 0, p.errf("text after the JSON value")
	}
	return v, p.lits, p.maxDep, nil
}

// c04Compact writes a decoded value without whitespace (own writer: strings with the minimal escapes,
// numbers in the shortest form that reads back as the same double).
func c04Compact(sb *bytes.Buffer, v any) {
	switch x := v.(type) {
	case nil:
		sb.WriteString("null")
	case bool:
		if x {
			sb.WriteString("true")
		} else {
			sb.WriteString("false")
		}
	case float64:
		c17WriteJSONNumber(sb, x, 0)
	case string:
		c17WriteJSONString(sb, x, 0)
	case []any:
		sb.WriteByte('[')
		for i, it := range x {
			if i > 0 {
				sb.WriteByte(',')
			}
			c04Compact(sb, it)
		}
		sb.WriteByte(']')
	case map[string]any:
		keys := make([]string, 0, len(x))
		for k := range x {
			keys = append(keys, k)
		}
		sort.Strings(keys)
		sb.WriteByte('{')
		for i, k := range keys {
			if i > 0 {
				sb.WriteByte(',')
			}
			c17WriteJSONString(sb, k, 0)
			sb.WriteByte(':')
			c04Compact(sb, x[k])
		}
		sb.WriteByte('}')
	}
}

// c04NullEmpty: the tree the deviation empty-array-null predicts (JqRender.NullEmptyArrays).
func c04NullEmpty(v any) any {
	switch x := v.(type) {
	case []any:
		if len(x) == 0 {
			return nil
		}
		out := make([]any, len(x))
		for i := range x {
			out[i] = c04NullEmpty(x[i])
		}
		return out
	case map[string]any:
		out := map[string]any{}
		for k, it := range x {
			out[k] = c04NullEmpty(it)
		}
		return out
	}
	return v
}

// c04VerdictStrict: like c04Verdict for an expectation given as a Go value, with the strict
// reader (no nesting limit, spelling table); up to the nesting limit of encoding/json both
// readers must accept the text and agree on the value.
func c04VerdictStrict(c *Ctx, want any, got []byte) (verdict, why string) {
	val, _, dep, err := c04Parse(got)
	if err != nil {
		return "violation", "output is not valid JSON: " + err.Error()
	}
	if dep <= 10000 {
		v2, err2 := c17ParseJSONText(got)
		if err2 != nil {
			return "violation", "output is rejected by encoding/json: " + err2.Error()
		}
		if !c17DeepEq(val, v2) {
			infra("the strict reader and encoding/json read %s differently", c17Clip(got))
		}
	}
	if c17DeepEq(val, want) {
		return "ok", ""
	}
	if alt := c04NullEmpty(want); !c17DeepEq(alt, want) && c17DeepEq(val, alt) {
		if c.OpenDev(c04Dev) {
			return "known", ""
		}
		return "violation", "every empty array is written as null (deviation " + c04Dev + " is not listed as open)"
	}
	return "violation", "output parses to a different value"
}

// ---- job kind c04deep: a run whose JSON output (stdout and root JSON) can be hundreds of MB
// (10000 levels of indentation): the worker reads it with the strict reader and returns it
// without the whitespace; Out[0] / Out[1] carry the reader's complaint about stdout / root JSON.
func init() {
	jobKinds["c04deep"] = func(j *Job) Result {
		r := execRun(j)
		digest := func(b []byte) ([]byte, string) {
			if len(bytes.TrimSpace(b)) == 0 {
				return nil, ""
			}
			v, _, _, err := c04Parse(b)
			if err != nil {
				return []byte(c17Clip(b)), "invalid: " + err.Error()
			}
			var sb bytes.Buffer
			c04Compact(&sb, v)
			return sb.Bytes(), ""
		}
		r.Out = []string{"", ""}
		r.Stdout, r.Out[0] = digest(r.Stdout)
		r.JS, r.Out[1] = digest(r.JS)
		debug.FreeOSMemory()
		return r
	}
}

// ---------------------------------------------------------------------------
// (iii) leaves x positions x entry points

type c04LeafVec struct {
	Kind    string     `json:"kind"`
	Cs      []string   `json:"cs"`
	Pos     string     `json:"pos"`
	Via     string     `json:"via"`
	V       c17Val     `json:"v"`
	Exp     c17Val     `json:"exp"`
	Allowed [][]string `json:"allowed"`
}

var c04NumClasses = map[string][]float64{
	"zero":  {0},
	"nzero": {math.Copysign(0, -1)},
	"int":   {1, -1, 2, 42, 100, 1e6, -123456, 4294967296, 1e15},
	"frac":  {0.5, -0.5, 0.1, 0.2, 0.3, 1.0 / 3, 3.14159, 45.67, 123456.789, 1.0000000000000002, 0.30000000000000004, 0.000001},
	"big":   {1e21, 1e22, 1e23, -1e21, 1e100, 1e300, 123456789012345680000, 1e20, 1e17},
	"tiny":  {1e-7, 1.5e-7, 1e-20, 1e-300, -2.5e-5, 1e-6, 1e-5},
	"sub":   {5e-324, -5e-324, 1e-323, 2.225073858507201e-308, 2.2250738585072014e-308},
	"max":   {1.7976931348623157e308, -1.7976931348623157e308, 8.98846567431158e307},
	"p53":   {9007199254740991, 9007199254740992, 9007199254740994, -9007199254740992, 18014398509481984},
	"rnd":   nil, // a random finite bit pattern
}

func c04NumClassNames() []string {
	var out []string
	for k := range c04NumClasses {
		out = append(out, k)
	}
	sort.Strings(out)
	return out
}

// c04LeafInsts: the concrete leaves one vector is replayed with. A one-code-point string is
// replayed with EVERY fixed member of its class (every control character, ...), longer
// strings with seeded members.
func c04LeafInsts(v *c04LeafVec, r *rand.Rand, thorough bool) []c17Scalar {
	switch v.Kind {
	case "l":
		return []c17Scalar{{K: map[string]byte{"true": 't', "false": 'f', "null": 'z'}[v.Cs[0]]}}
	case "n":
		pool := c04NumClasses[v.Cs[0]]
		if pool == nil {
			var out []c17Scalar
			for len(out) < 3 {
				f := math.Float64frombits(r.Uint64())
				if !math.IsNaN(f) && !math.IsInf(f, 0) {
					out = append(out, c17Scalar{K: 'n', N: f})
				}
			}
			return out
		}
		n := 2
		if thorough || v.Pos == "arg" {
			n = len(pool)
		}
		var out []c17Scalar
		for _, i := range r.Perm(len(pool)) {
			if len(out) < n {
				out = append(out, c17Scalar{K: 'n', N: pool[i]})
			}
		}
		return out
	}
	if len(v.Cs) == 1 {
		var out []c17Scalar
		for _, ru := range c04Members[v.Cs[0]] {
			out = append(out, c17Scalar{K: 's', S: string(ru)})
		}
		for k := 0; k < 3; k++ {
			out = append(out, c17Scalar{K: 's', S: string(c04RandMember(v.Cs[0], r))})
		}
		if v.Pos != "arg" && !thorough && len(out) > 12 { // all members go through the leaf itself; inside containers a seeded dozen
			r.Shuffle(len(out), func(a, b int) { out[a], out[b] = out[b], out[a] })
			out = out[:12]
		}
		return out
	}
	n := 1
	if thorough && len(v.Cs) == 2 {
		n = 3
	}
	var out []c17Scalar
	for k := 0; k < n; k++ {
		var sb strings.Builder
		for _, cl := range v.Cs {
			sb.WriteRune(c04RandMember(cl, r))
		}
		out = append(out, c17Scalar{K: 's', S: sb.String()})
	}
	return out
}

// c04CheckTable: the model's Allowed sets (per code point of the vector) against the Go transcription.
func c04CheckTable(v *c04LeafVec) {
	if v.Kind != "s" {
		return
	}
	if len(v.Allowed) != len(v.Cs) {
		infra("MC_JsonLeaf vector: %d allowed sets for %d code points", len(v.Allowed), len(v.Cs))
	}
	for i, cl := range v.Cs {
		if strings.Join(v.Allowed[i], ",") != strings.Join(c04AllowedGo(cl), ",") {
			infra("JqJsonText.Allowed(%s) = %v, the harness table says %v", cl, v.Allowed[i], c04AllowedGo(cl))
		}
	}
}

// c04LeafJob renders one (vector, leaf) into a job; the instance maps the model's names
// (<<1>> leaf / key, <<2>> the key k, <<3>> the number under a string key) to concrete values.
func c04LeafJob(seed int64, v *c04LeafVec, leaf c17Scalar, r *rand.Rand) (Job, *c17Inst) {
	in := c17NewInst(seed, nil)
	lname := map[string]string{"s": "s1", "n": "n1", "l": "l1"}[v.Kind]
	in.atoms[lname] = leaf
	in.atoms["n3"] = c17Scalar{K: 'n', N: float64(r.Intn(1000))}
	in.keys["1"] = leaf.S
	in.keys["2"] = "k"
	var leafDoc, vDoc bytes.Buffer
	c17WriteJSONScalar(&leafDoc, leaf, r)
	in.writeDoc(&vDoc, v.V, r)
	varDoc := []byte(fmt.Sprintf(`{"a":[%s],"n":%s}`, leafDoc.Bytes(), strconv.FormatFloat(in.atoms["n3"].N, 'f', -1, 64)))
	L := "$.a[0]"
	pick := func(alts ...string) string { return alts[r.Intn(len(alts))] }
	var build string // statements after which c holds V
	switch v.Pos {
	case "arg":
		build = pick("c = "+L, "s = "+L+"; c = s")
	case "elem":
		build = pick("c = ["+L+"]", "c = [0]; c[0] = "+L, "c[0] = "+L)
	case "val":
		build = pick("c = {k: "+L+"}", "c = {}; c.k = "+L, "c['k'] = "+L)
	case "key":
		build = pick("c = {}; c["+L+"] = $.n", "s = "+L+"; c = {}; c[s] = $.n")
	default:
		build = pick("c = [{k: ["+L+"]}]", "x = ["+L+"]; y = {}; y.k = x; c = [y]")
	}
	path := map[string]string{"elem": "$[0]", "val": "$.k", "deep": "$[0].k[0]"}[v.Pos]
	ident := []string{"{}", "{ x = $ }", "", "BEGINFILE { keep = $ }", "{ x = $; y = x }\nEND { z = x }"}
	j := Job{Kind: "run"}
	switch v.Via {
	case "json-var":
		if v.Pos == "arg" && r.Intn(2) == 0 {
			j.Prog = []byte("{ print json(" + L + ") }")
		} else {
			j.Prog = []byte("{ " + build + "; print json(c) }")
		}
		j.Files = []FileIn{{Name: "in.json", Data: varDoc}}
	case "json-doc":
		j.Prog = []byte("BEGINFILE { print json($) }")
		j.Files = []FileIn{{Name: "in.json", Data: vDoc.Bytes()}}
	case "json-path":
		j.Prog = []byte(pick("BEGINFILE { print json("+path+") }", "BEGINFILE { p = "+path+"; print json(p) }"))
		j.Files = []FileIn{{Name: "in.json", Data: vDoc.Bytes()}}
	case "root-var":
		j.Prog = []byte("{ " + build + "; $ = c }")
		j.Files = []FileIn{{Name: "in.json", Data: varDoc}}
		j.WantJS = true
	case "root-doc":
		j.Prog = []byte(pick(ident...))
		j.Files = []FileIn{{Name: "in.json", Data: vDoc.Bytes()}}
		j.WantJS = true
	case "root-sel":
		j.Prog = []byte(pick(ident...))
		j.Files = []FileIn{{Name: "in.json", Data: vDoc.Bytes()}}
		j.Sels = []string{path}
		j.WantJS = true
	default:
		infra("MC_JsonLeaf: unknown via %q", v.Via)
	}
	return j, in
}

// ---------------------------------------------------------------------------
// (iv) chains

type c04DeepVec struct {
	Mode   string            `json:"mode"`
	D      int               `json:"d"`
	Off    int               `json:"off"`
	Pat    []string          `json:"pat"`
	Bottom string            `json:"bottom"`
	Sib    string            `json:"sib"`
	Back   int               `json:"back"`
	Class  string            `json:"class"`
	Doc    c17Val            `json:"doc"`
	H      []c17Val          `json:"h"`
	Exp    c17Val            `json:"exp"`
	Dev    map[string]c17Val `json:"dev"`
}

// c04RealLimit: the nesting limit of the reader the implementation uses (encoding/json).
const c04RealLimit = 10000

// c04Chain: a vector of MC_RenderDeep stretched to depth D (same pattern aligned at the innermost level,
// same bottom / sibling layout / place where a cycle closes).
type c04Chain struct {
	D      int
	Pat    []string
	Bottom string
	Sib    string
	Mode   string
	Back   int
	Leaf   c17Scalar
	Sibs   []c17Scalar // level i holds Sibs[i % len]; programs use Sibs[0] at every level
}

func (ch *c04Chain) kindAt(i int) string { return ch.Pat[(ch.D-i)%len(ch.Pat)] }
func (ch *c04Chain) sibAt(i int, uniform bool) c17Scalar {
	if uniform {
		return ch.Sibs[0]
	}
	return ch.Sibs[i%len(ch.Sibs)]
}

// goValue: the tree JqRender.ToJsonV gives for the (acyclic) chain.
func (ch *c04Chain) goValue(uniform bool) any {
	var cur any
	for i := ch.D; i >= 1; i-- {
		var slots []any // in order; objects use the keys k (chain) and s (sibling)
		var names []string
		if i == ch.D {
			if ch.Bottom == "atom" {
				slots, names = []any{c17ScalarGo(ch.Leaf)}, []string{"k"}
			}
		} else {
			slots, names = []any{cur}, []string{"k"}
		}
		if len(slots) > 0 && ch.Sib != "no" {
			sv := c17ScalarGo(ch.sibAt(i, uniform))
			if ch.Sib == "before" {
				slots, names = append([]any{sv}, slots...), append([]string{"s"}, names...)
			} else {
				slots, names = append(slots, sv), append(names, "s")
			}
		}
		if ch.kindAt(i) == "arr" {
			if slots == nil {
				slots = []any{}
			}
			cur = slots
		} else {
			m := map[string]any{}
			for j := range slots {
				m[names[j]] = slots[j]
			}
			cur = m
		}
	}
	return cur
}

// docText: the chain as a JSON document.
func (ch *c04Chain) docText(r *rand.Rand) []byte {
	var open, clos bytes.Buffer
	var tail []string
	for i := 1; i <= ch.D; i++ {
		arr := ch.kindAt(i) == "arr"
		inner := i == ch.D
		var sv bytes.Buffer
		c17WriteJSONScalar(&sv, ch.sibAt(i, false), r)
		sibTxt := sv.String()
		if !arr {
			sibTxt = `"s":` + sibTxt
		}
		hasSlots := !inner || ch.Bottom == "atom"
		if arr {
			open.WriteByte('[')
		} else {
			open.WriteByte('{')
		}
		if hasSlots && ch.Sib == "before" {
			open.WriteString(sibTxt + ",")
		}
		if hasSlots && !arr {
			open.WriteString(`"k":`)
		}
		if inner && ch.Bottom == "atom" {
			c17WriteJSONScalar(&open, ch.Leaf, r)
		}
		t := ""
		if hasSlots && ch.Sib == "after" {
			t = "," + sibTxt
		}
		if arr {
			t += "]"
		} else {
			t += "}"
		}
		tail = append(tail, t)
	}
	for i := len(tail) - 1; i >= 0; i-- {
		clos.WriteString(tail[i])
	}
	return append(open.Bytes(), clos.Bytes()...)
}

// program: builds the chain (or the cycle) from the innermost level outwards with loops over whole
// periods of the pattern; every array literal has its final size. The input document supplies
// the leaf ($.a[0]) and the sibling ($.a[1]).
func (ch *c04Chain) program(tail string) (prog, doc []byte) {
	wrap := func(kind, inner string) string { // the container of that kind holding inner (and the sibling)
		if kind == "arr" {
			switch ch.Sib {
			case "before":
				return "[S, " + inner + "]"
			case "after":
				return "[" + inner + ", S]"
			}
			return "[" + inner + "]"
		}
		switch ch.Sib {
		case "before":
			return "{s: S, k: " + inner + "}"
		case "after":
			return "{k: " + inner + ", s: S}"
		}
		return "{k: " + inner + "}"
	}
	st := []string{"L = $.a[0]", "S = $.a[1]"}
	ik := ch.kindAt(ch.D)
	switch {
	case ch.Mode == "cycle":
		st = append(st, "a = "+wrap(ik, "0"))
	case ch.Bottom == "atom":
		st = append(st, "a = "+wrap(ik, "L"))
	case ik == "arr":
		st = append(st, "a = []")
	default:
		st = append(st, "a = {}")
	}
	st = append(st, "inner = a")
	// wraps j = 1..D-1 create level D-j of kind Pat[j % p]
	emit := func(lo, hi int) {
		p := len(ch.Pat)
		if n := (hi - lo + 1) / p; n >= 2 {
			var body []string
			for j := lo; j < lo+p; j++ {
				body = append(body, "a = "+wrap(ch.Pat[j%p], "a"))
			}
			st = append(st, fmt.Sprintf("for (i = 0; i < %d; i++) { %s }", n, strings.Join(body, "; ")))
			lo += n * p
		}
		for j := lo; j <= hi; j++ {
			st = append(st, "a = "+wrap(ch.Pat[j%p], "a"))
		}
	}
	if ch.Mode == "cycle" {
		mark := ch.D - ch.Back // after this many wraps a is the container the cycle closes on
		emit(1, mark)
		st = append(st, "t = a")
		emit(mark+1, ch.D-1)
		slot := "inner.k = t"
		if ik == "arr" {
			slot = "inner[0] = t"
			if ch.Sib == "before" {
				slot = "inner[1] = t"
			}
		}
		st = append(st, slot)
	} else {
		emit(1, ch.D-1)
	}
	st = append(st, tail)
	var d bytes.Buffer
	d.WriteString(`{"a":[`)
	c17WriteJSONScalar(&d, ch.Leaf, nil)
	d.WriteByte(',')
	c17WriteJSONScalar(&d, ch.Sibs[0], nil)
	d.WriteString(`]}`)
	return []byte("{ " + strings.Join(st, "\n  ") + " }"), d.Bytes()
}

// c04Shape: the value with scalars and key names abstracted (cross-check of goValue against the model's tree).
func c04Shape(v any) string {
	switch x := v.(type) {
	case []any:
		parts := make([]string, len(x))
		for i := range x {
			parts[i] = c04Shape(x[i])
		}
		return "[" + strings.Join(parts, ",") + "]"
	case map[string]any:
		var parts []string
		for _, it := range x {
			parts = append(parts, c04Shape(it))
		}
		sort.Strings(parts)
		return "{" + strings.Join(parts, ",") + "}"
	}
	return "_"
}

// c04Part2 runs families (iii) and (iv); settle is the caller's verdict sink (serialised by the caller's lock).
func c04Part2(c *Ctx, pool *Pool, settle func(fam, key, verdict, why string, rep func() map[string]any, nontrivial bool), report func(name string, rep map[string]any), addBin func(prog, doc []byte, sels []string, exp c17Val, in *c17Inst, tag, fam string)) (wait func()) {
	t0 := time.Now()
	lap := func(what string) {
		if os.Getenv("C04_TIMING") != "" {
			fmt.Fprintf(os.Stderr, "c04 timing: %-28s %6.1fs\n", what, time.Since(t0).Seconds())
		}
	}
	var mu sync.Mutex // serialises settle / report / counters across the streams of this part
	var nErrExp, nOpen, nLeaf, nDeepModel, nDeepMid, nDeepLimit int64
	lsettle := func(fam, key, verdict, why string, rep func() map[string]any, nontrivial bool) {
		settle(fam, key, verdict, why, rep, nontrivial)
	}

	// ---------------- (iv) chains: TLC first, the runs at the implementation's limit go on in the background
	type limitCase struct {
		v   c04DeepVec
		obs string // json | root | bin
		raw string
	}
	var deepVecs []c04DeepVec
	var deepRaw []string
	limM, maxPeriod := 4, 2
	if c.Thorough() {
		limM, maxPeriod = 5, 3
	}
	scalars := func(raw []byte) (c17Scalar, []c17Scalar) {
		in := c17NewInst(c.Seed, append([]byte("deep"), raw...))
		return in.scalarOfClass('a'), []c17Scalar{in.scalarOfClass('a'), in.scalarOfClass('a'), in.scalarOfClass('a')}
	}
	stretch := func(v *c04DeepVec, D int, raw []byte) *c04Chain {
		leaf, sibs := scalars(raw)
		ch := &c04Chain{D: D, Pat: v.Pat, Bottom: v.Bottom, Sib: v.Sib, Mode: v.Mode, Leaf: leaf, Sibs: sibs}
		if v.Mode == "cycle" { // the place where the cycle closes keeps its relative position: the root, the innermost level, or in between
			switch {
			case v.Back == 1:
				ch.Back = 1
			case v.Back == v.D:
				ch.Back = D
			default:
				ch.Back = 1 + (v.Back-1)*(D-1)/(v.D-1)
			}
		}
		return ch
	}
	// verdict for one stretched run
	deepDone := func(fam string, ch *c04Chain, class string, obs string, j *Job, r Result, uniform bool) {
		mu.Lock()
		defer mu.Unlock()
		rep := func() map[string]any {
			return map[string]any{"depth": ch.D, "pattern": ch.Pat, "bottom": ch.Bottom, "sibling": ch.Sib, "mode": ch.Mode, "cycle_closes_on_level": ch.Back, "observed_through": obs,
				"program": c17Clip(j.Prog), "input": c17Clip(j.Files[0].Data), "got_class": r.Class, "stdout_compact": c17Clip(r.Stdout), "root_json_compact": c17Clip(r.JS),
				"root_json_err": r.JSErr, "err": r.ErrMsg, "reader": r.Out, "detail": c17Clip([]byte(r.Detail)), "expected_class": class}
		}
		if r.Class == "crash" || r.Class == "timeout" || r.Class == "panic" {
			report(fam, map[string]any{"case": rep(), "why": "conversion must end with a value or an error"})
			return
		}
		if r.Class == "budget" {
			return
		}
		var got []byte
		var isErr bool
		complaint := ""
		switch obs {
		case "json":
			got, isErr = r.Stdout, r.Class != "ok"
			if len(r.Out) > 0 {
				complaint = r.Out[0]
			}
		default:
			got, isErr = r.JS, r.Class != "ok" || r.JSErr != ""
			if strings.HasPrefix(r.JSErr, "panic") {
				report(fam, map[string]any{"case": rep(), "why": "GetRootJson panicked"})
				return
			}
			if len(r.Out) > 1 {
				complaint = r.Out[1]
			}
		}
		key := fmt.Sprintf("%s:%s:%d:%v:%s:%s:%s:%d", fam, obs, ch.D, ch.Pat, ch.Bottom, ch.Sib, ch.Mode, ch.Back)
		if complaint != "" {
			report(fam, map[string]any{"case": rep(), "why": "output is not valid JSON (" + complaint + ")"})
			return
		}
		switch class {
		case "error":
			nErrExp++
			if !isErr {
				report(fam, map[string]any{"case": rep(), "why": "the value contains itself: an error is required, got output"})
				return
			}
			if obs == "json" && r.Class != "runtime" {
				report(fam, map[string]any{"case": rep(), "why": "json() of a value that contains itself must be a runtime error"})
				return
			}
			c.Case(key, true)
		case "open": // nests deeper than any readable document: an error or the value, never anything else
			nOpen++
			if isErr {
				c.Case(key, true)
				return
			}
			verdict, why := c04VerdictStrict(c, ch.goValue(uniform), got)
			lsettle(fam, key, verdict, why, rep, true)
		default:
			if isErr {
				report(fam, map[string]any{"case": rep(), "why": fmt.Sprintf("a value of %d nested containers that does not contain itself must be written (a document of that depth is read), got an error", ch.D)})
				return
			}
			verdict, why := c04VerdictStrict(c, ch.goValue(uniform), got)
			lsettle(fam, key, verdict, why, rep, true)
		}
	}
	stretchedJob := func(ch *c04Chain, obs string, raw []byte) (Job, bool) {
		r := rand.New(rand.NewSource(c17Seed(c.Seed, raw, fmt.Sprintf("job%d%s", ch.D, obs))))
		j := Job{Kind: "c04deep", Budget: 20_000_000}
		uniform := false
		if ch.Mode == "doc" {
			j.Files = []FileIn{{Name: "in.json", Data: ch.docText(r)}}
			if obs == "json" {
				j.Prog = []byte("BEGINFILE { print json($) }")
			} else {
				j.Prog = []byte([]string{"{}", "", "BEGINFILE { keep = $ }"}[r.Intn(3)])
				j.WantJS = true
			}
		} else {
			uniform = true
			tail := "print json(a)"
			if obs != "json" {
				tail = "$ = a"
				j.WantJS = true
			}
			prog, doc := ch.program(tail)
			j.Prog, j.Files = prog, []FileIn{{Name: "in.json", Data: doc}}
		}
		return j, uniform
	}

	modelStream := pool.NewStream(func(j *Job, r Result) {
		mu.Lock()
		defer mu.Unlock()
		var v c04DeepVec
		VecDecode([]byte(j.Tag), &v)
		in := c17NewInst(c.Seed, []byte(j.Tag))
		in.prealloc(v.Doc)
		in.prealloc(v.H...)
		rep := func() map[string]any {
			return map[string]any{"program": string(j.Prog), "input": string(j.Files[0].Data), "vector": json.RawMessage(j.Tag), "got_class": r.Class, "got": c17Clip(r.Stdout),
				"got_root_json": c17Clip(r.JS), "root_json_err": r.JSErr, "err": r.ErrMsg, "detail": r.Detail}
		}
		fam := "chain-model-scale"
		if r.Class == "crash" || r.Class == "timeout" || r.Class == "panic" {
			report(fam, map[string]any{"case": rep(), "why": "conversion must end with a value or an error"})
			return
		}
		if v.Exp.isError() {
			nErrExp++
		}
		var verdict, why string
		if j.N == 0 {
			if r.Class != "ok" && r.Class != "runtime" {
				report(fam, map[string]any{"case": rep(), "why": "unexpected outcome class"})
				return
			}
			verdict, why = c04Verdict(c, in, v.Exp, v.Dev, r.Stdout, r.Class == "runtime")
		} else {
			if r.Class != "ok" || strings.HasPrefix(r.JSErr, "panic") {
				report(fam, map[string]any{"case": rep(), "why": "the program itself must succeed and GetRootJson must not panic"})
				return
			}
			verdict, why = c04Verdict(c, in, v.Exp, v.Dev, r.JS, r.JSErr != "")
		}
		nDeepModel++
		lsettle(fam, fmt.Sprintf("%s:%d:%s", fam, j.N, j.Tag), verdict, why, rep, v.D > 1)
	})
	nv := 0
	c.TLC(TLCOpt{Module: "MC_RenderDeep", Workers: 4, Heap: "2g",
		Cfg: cfgText("INIT Init", "NEXT Next", "CONSTANTS", fmt.Sprintf("Limit = %d", limM), fmt.Sprintf("MaxPeriod = %d", maxPeriod), "INVARIANT Laws", "INVARIANT Vec", "CHECK_DEADLOCK FALSE"),
		OnVec: func(raw []byte) {
			var v c04DeepVec
			VecDecode(raw, &v)
			nv++
			deepVecs = append(deepVecs, v)
			deepRaw = append(deepRaw, string(raw))
			// the Go stretching at the model's own depth must be the model's tree
			in := c17NewInst(c.Seed, raw)
			in.prealloc(v.Doc)
			if got, want := c04Shape(stretch(&v, v.D, raw).goValue(false)), c04Shape(in.goValue(v.Doc)); got != want {
				infra("MC_RenderDeep: the harness builds %s for a vector whose tree is %s (%s)", got, want, raw)
			}
			// (a) at the model's depth, through the heap / document machinery of families (i) and (ii)
			r := rand.New(rand.NewSource(c17Seed(c.Seed, raw, "deepmodel")))
			if v.Mode == "doc" {
				var doc bytes.Buffer
				in.writeDoc(&doc, v.Doc, r)
				files := []FileIn{{Name: "in.json", Data: doc.Bytes()}}
				modelStream.Submit(Job{Kind: "run", Prog: []byte("BEGINFILE { print json($) }"), Files: files, Tag: string(raw), N: 0})
				modelStream.Submit(Job{Kind: "run", Prog: []byte([]string{"{}", "{ x = $ }", ""}[r.Intn(3)]), Files: files, WantJS: true, Tag: string(raw), N: 1})
			} else {
				in.prealloc(v.H...)
				b := c17Build(in, v.H, rand.New(rand.NewSource(c17Seed(c.Seed, raw, "json"))), func(func(c17Val) string) []string { return []string{"print json(c1)"} })
				modelStream.Submit(Job{Kind: "run", Prog: b.Prog, Files: []FileIn{{Name: "in.json", Data: b.Doc}}, Tag: string(raw), N: 0})
				b2 := c17Build(in, v.H, rand.New(rand.NewSource(c17Seed(c.Seed, raw, "root"))), func(func(c17Val) string) []string { return []string{"$ = c1"} })
				modelStream.Submit(Job{Kind: "run", Prog: b2.Prog, Files: []FileIn{{Name: "in.json", Data: b2.Doc}}, Tag: string(raw), N: 1, WantJS: true})
			}
		}})
	lap("RenderDeep TLC")
	{ // TLC's workers print the vectors in any order: everything seeded below goes by the sorted order
		idx := make([]int, len(deepRaw))
		for i := range idx {
			idx[i] = i
		}
		sort.Slice(idx, func(a, b int) bool { return deepRaw[idx[a]] < deepRaw[idx[b]] })
		vs, rs := make([]c04DeepVec, len(idx)), make([]string, len(idx))
		for k, i := range idx {
			vs[k], rs[k] = deepVecs[i], deepRaw[i]
		}
		deepVecs, deepRaw = vs, rs
	}
	modelStream.Wait()
	lap("model-scale chains")

	// (b) stretched to a seeded depth in the hundreds and (c) to the implementation's limit + off
	var bg sync.WaitGroup
	runStretched := func(fam string, v *c04DeepVec, raw string, D int, obs string, class string) {
		ch := stretch(v, D, []byte(raw))
		j, uniform := stretchedJob(ch, obs, []byte(raw))
		r := pool.Do(&j)
		if r.Class == "crash" || r.Class == "timeout" { // reproduce before calling it non-termination
			r = pool.Do(&j)
		}
		deepDone(fam, ch, class, obs, &j, r, uniform)
	}
	classAt := func(v *c04DeepVec, D int) string { // JqRender / MC_RenderDeep.Class with Limit := the implementation's
		if v.Mode == "cycle" {
			return "error"
		}
		if D <= c04RealLimit {
			return "same"
		}
		return "open"
	}
	{
		sem := make(chan struct{}, 8)
		for i := range deepVecs {
			v, raw := &deepVecs[i], deepRaw[i]
			r := rand.New(rand.NewSource(c17Seed(c.Seed, []byte(raw), "mid")))
			D := v.D + 20 + r.Intn(500)
			if c.Thorough() && r.Intn(8) == 0 {
				D = 1000 + r.Intn(2500)
			}
			obs := []string{"json", "root"}[r.Intn(2)]
			bg.Add(1)
			sem <- struct{}{}
			go func() {
				defer bg.Done()
				defer func() { <-sem }()
				runStretched("chain-stretched", v, raw, D, obs, classAt(v, D))
				mu.Lock()
				nDeepMid++
				mu.Unlock()
			}()
		}
	}
	// (c): every (mode, bottom, off in -1..+1) cell through json() and -o; pattern, sibling layout and the
	// closing level of a cycle by seed. The quick tier takes the cells at the limit itself in full and
	// one observation for the others.
	var limitCases []limitCase
	{
		cells := map[string][]int{}
		var order []string
		for i := range deepVecs {
			v := &deepVecs[i]
			if v.Off < -1 || v.Off > 1 {
				continue
			}
			k := fmt.Sprintf("%s/%s/%+d", v.Mode, v.Bottom, v.Off)
			if v.Mode == "cycle" {
				pos := "mid"
				if v.Back == 1 {
					pos = "root"
				} else if v.Back == v.D {
					pos = "self"
				}
				k += "/" + pos
			}
			if _, ok := cells[k]; !ok {
				order = append(order, k)
			}
			cells[k] = append(cells[k], i)
		}
		sort.Strings(order)
		for _, k := range order {
			idx := cells[k]
			r := rand.New(rand.NewSource(c17Seed(c.Seed, []byte(k), "limitcell")))
			v := deepVecs[idx[0]]
			var obss []string
			switch {
			case c.Thorough():
				obss = []string{"json", "root", "bin"}
				if v.Mode == "cycle" {
					obss = []string{"json", "root"}
				}
			case v.Mode != "cycle" && v.Off == 0:
				obss = []string{"json", "root"}
				if v.Bottom == "atom" {
					obss = append(obss, "bin")
				}
			case v.Mode == "cycle" && v.Off != 0, v.Off == -1 && v.Bottom == "none":
				continue
			default:
				obss = []string{[]string{"json", "root"}[r.Intn(2)]}
			}
			for _, obs := range obss {
				i := idx[r.Intn(len(idx))]
				limitCases = append(limitCases, limitCase{v: deepVecs[i], obs: obs, raw: deepRaw[i]})
			}
		}
	}
	{
		sem := make(chan struct{}, 4) // a run at the limit writes ~200 MB of indentation
		dir := c.TempDir("c04deep")
		for i := range limitCases {
			lc := limitCases[i]
			D := c04RealLimit + lc.v.Off
			bg.Add(1)
			go func(i int) {
				defer bg.Done()
				sem <- struct{}{}
				defer func() { <-sem }()
				t1 := time.Now()
				defer func() {
					mu.Lock()
					nDeepLimit++
					mu.Unlock()
					lap(fmt.Sprintf("limit %s %s %s %+d took %.1fs", lc.v.Mode, lc.v.Bottom, lc.obs, lc.v.Off, time.Since(t1).Seconds()))
				}()
				if lc.obs != "bin" {
					runStretched("chain-at-limit", &lc.v, lc.raw, D, lc.obs, lc.v.Class)
					return
				}
				// the binary: -o FILE (the text is read back from the file)
				ch := stretch(&lc.v, D, []byte(lc.raw))
				j, uniform := stretchedJob(ch, "root", []byte(lc.raw))
				inPath := filepath.Join(dir, fmt.Sprintf("in%d.json", i))
				outPath := filepath.Join(dir, fmt.Sprintf("out%d.json", i))
				os.WriteFile(inPath, j.Files[0].Data, 0o644)
				args := []string{"-o", outPath, string(j.Prog), inPath}
				br := c.RunBin(args, nil, dir, 120*time.Second)
				got, _ := os.ReadFile(outPath)
				os.Remove(inPath)
				os.Remove(outPath)
				mu.Lock()
				defer mu.Unlock()
				fam := "chain-at-limit-bin"
				rep := func() map[string]any {
					return map[string]any{"depth": ch.D, "pattern": ch.Pat, "bottom": ch.Bottom, "sibling": ch.Sib, "mode": ch.Mode, "args": []string{"-o", "OUT", c17Clip(j.Prog), "IN"},
						"input": c17Clip(j.Files[0].Data), "exit": br.Exit, "stderr": c17Clip(br.Stderr), "got": c17Clip(got), "expected_class": lc.v.Class}
				}
				if br.TimedOut || br.Signaled || hasCrashMarks(br.Stderr) || (br.Exit != 0 && br.Exit != 1) {
					report(fam, map[string]any{"case": rep(), "why": "the binary crashed or did not terminate"})
					return
				}
				key := fmt.Sprintf("%s:%d:%v:%s:%s:%s", fam, ch.D, ch.Pat, ch.Bottom, ch.Sib, ch.Mode)
				isErr := br.Exit != 0
				if isErr && len(bytes.TrimSpace(got)) != 0 {
					report(fam, map[string]any{"case": rep(), "why": "an error was reported but output was written as well"})
					return
				}
				switch {
				case lc.v.Class == "open" && isErr:
					nOpen++
					c.Case(key, true)
				case isErr:
					report(fam, map[string]any{"case": rep(), "why": fmt.Sprintf("a document / value of %d nested containers must be written by -o, got an error", ch.D)})
				default:
					verdict, why := c04VerdictStrict(c, ch.goValue(uniform), got)
					lsettle(fam, key, verdict, why, rep, true)
				}
				got = nil
				debug.FreeOSMemory()
			}(i)
		}
	}

	lap("chains scheduled")
	// ---------------- (iii) leaves
	maxLen := 2
	if c.Thorough() {
		maxLen = 3
	}
	type leafCtx struct {
		v    c04LeafVec
		in   *c17Inst
		leaf c17Scalar
	}
	var lmu sync.Mutex
	leafOf := map[int]leafCtx{}
	nsub := 0
	leafStream := pool.NewStream(func(j *Job, r Result) {
		lmu.Lock()
		lc := leafOf[j.N]
		delete(leafOf, j.N)
		lmu.Unlock()
		mu.Lock()
		defer mu.Unlock()
		v := &lc.v
		fam := "leaf-" + v.Via
		var leafTxt bytes.Buffer
		c17WriteJSONScalar(&leafTxt, lc.leaf, nil)
		got := r.JS
		if strings.HasPrefix(v.Via, "json") {
			got = r.Stdout
		}
		rep := func() map[string]any {
			return map[string]any{"leaf_as_json": leafTxt.String(), "code_point_classes": v.Cs, "position": v.Pos, "via": v.Via, "program": string(j.Prog), "selectors": j.Sels,
				"input": string(j.Files[0].Data), "got_class": r.Class, "got": c17Clip(got), "root_json_err": r.JSErr, "err": r.ErrMsg, "detail": r.Detail, "allowed_spellings": v.Allowed}
		}
		if r.Class != "ok" || strings.HasPrefix(r.JSErr, "panic") || r.JSErr != "" {
			report(fam, map[string]any{"case": rep(), "why": "a JSON scalar (alone or inside a container) must be written; the program or the conversion failed"})
			return
		}
		if strings.HasPrefix(v.Via, "json") { // print adds exactly one newline to the text json() returned
			if !bytes.HasSuffix(got, []byte("\n")) {
				report(fam, map[string]any{"case": rep(), "why": "print must end the line"})
				return
			}
			got = got[:len(got)-1]
		}
		want := lc.in.goValue(v.Exp)
		verdict, why := c04VerdictStrict(c, want, got)
		nLeaf++
		lsettle(fam, fmt.Sprintf("%s:%s:%v:%s", fam, v.Pos, v.Cs, leafTxt.String()), verdict, why, rep, v.Kind != "l")
		if nLeaf%4000 == 1 {
			c.Sample(map[string]any{"family": fam, "position": v.Pos, "classes": v.Cs, "leaf_as_json": leafTxt.String(), "program": string(j.Prog), "input": string(j.Files[0].Data), "got": c17Clip(got)})
		}
	})
	nlv := 0
	c.TLC(TLCOpt{Module: "MC_JsonLeaf", Workers: 8, Heap: "4g",
		Cfg: cfgText("INIT Init", "NEXT Next", "CONSTANTS", fmt.Sprintf("MaxLen = %d", maxLen), "NumClasses = {\""+strings.Join(c04NumClassNames(), "\", \"")+"\"}",
			"INVARIANT Laws", "INVARIANT Vec", "CHECK_DEADLOCK FALSE"),
		OnVec: func(raw []byte) {
			var v c04LeafVec
			VecDecode(raw, &v)
			nlv++
			c04CheckTable(&v)
			r := rand.New(rand.NewSource(c17Seed(c.Seed, raw, "leaf")))
			for _, leaf := range c04LeafInsts(&v, r, c.Thorough()) {
				if leaf.K == 's' {
					for i, ru := range []rune(leaf.S) { // the instantiation must be of the classes the model chose
						if c04ClassOf(ru) != v.Cs[i] {
							infra("U+%04X instantiates class %s but is of class %s", ru, v.Cs[i], c04ClassOf(ru))
						}
					}
				}
				j, in := c04LeafJob(c.Seed, &v, leaf, r)
				nsub++
				j.N = nsub
				lmu.Lock()
				leafOf[nsub] = leafCtx{v: v, in: in, leaf: leaf}
				lmu.Unlock()
				if (v.Via == "root-doc" || v.Via == "root-sel") && c17Seed(c.Seed, raw, "bin"+string(j.Files[0].Data))%151 == 0 {
					addBin(j.Prog, j.Files[0].Data, j.Sels, v.Exp, in, string(raw), "bin-leaf")
				}
				leafStream.Submit(j)
			}
		}})
	lap("JsonLeaf TLC")
	leafStream.Wait()
	lap("leaf runs")

	return func() {
		lap("part2 wait starts")
		bg.Wait()
		lap("background chains done")
		c.Set("leaf_vectors", nlv)
		c.Set("leaf_runs", nLeaf)
		c.Set("chain_vectors", nv)
		c.Set("chain_runs_model_scale", nDeepModel)
		c.Set("chain_runs_stretched", nDeepMid)
		c.Set("chain_runs_at_reader_limit", nDeepLimit)
		c.Set("chain_cases_beyond_reader_limit_left_open", nOpen)
		c.Set("chain_cases_expecting_an_error", nErrExp)
		c.Set("bounds_part2", map[string]any{"MaxLen": maxLen, "CharClasses": len(c04Classes), "NumClasses": c04NumClassNames(), "Limit(model)": limM, "MaxPeriod": maxPeriod, "Limit(implementation)": c04RealLimit})
	}
}
