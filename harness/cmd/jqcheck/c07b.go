package main

import (
	"encoding/json"
	"fmt"
	"math/rand"
	"os"
	"regexp"
	"strconv"
	"strings"
)

// Binding B of C07 (and C08's frame discipline): large generated programs in
// JqEval's AST are run on the real code with a random recorded oracle; the
// stdout lines and the frame depth of every line are turned back into the
// model's observation entries and validated by TLC with Trace_Eval.tla.

type treeGen struct {
	r     *rand.Rand
	nodes int
	max   int
}

func (g *treeGen) stmt(d int, inLoop, inFn bool) Node {
	g.nodes++
	leaf := func() Node {
		opts := []string{"print", "print", "print", "print", "next"}
		if inLoop {
			opts = append(opts, "break", "continue", "break", "continue")
		}
		if inFn {
			opts = append(opts, "return", "return")
		}
		if g.r.Intn(40) == 0 {
			opts = append(opts, "exit")
		}
		k := opts[g.r.Intn(len(opts))]
		if k == "return" {
			return Node{"k": "return", "e": map[string]any{"k": "none"}}
		}
		return Node{"k": k}
	}
	if d <= 0 || g.nodes >= g.max {
		return leaf()
	}
	switch g.r.Intn(12) {
	case 0, 1:
		return leaf()
	case 2:
		return Node{"k": "if", "c": "o", "th": map[string]any(g.stmt(d-1, inLoop, inFn)), "el": map[string]any{"k": "none"}}
	case 3:
		return Node{"k": "if", "c": "o", "th": map[string]any(g.stmt(d-1, inLoop, inFn)), "el": map[string]any(g.stmt(d-1, inLoop, inFn))}
	case 4, 5, 6:
		n := 2 + g.r.Intn(4)
		b := make([]any, n)
		for i := range b {
			b[i] = map[string]any(g.stmt(d-1, inLoop, inFn))
		}
		return Node{"k": "block", "b": b}
	case 7:
		return Node{"k": "while", "c": "o", "b": map[string]any(g.stmt(d-1, true, inFn))}
	case 8:
		return Node{"k": "for", "c": "o", "init": "ok", "post": "ok", "b": map[string]any(g.stmt(d-1, true, inFn))}
	case 9:
		kind := []string{"arr", "str"}[g.r.Intn(2)]
		return Node{"k": "forin", "kind": kind, "n": float64(g.r.Intn(3)), "two": g.r.Intn(2) == 0, "b": map[string]any(g.stmt(d-1, true, inFn))}
	case 10:
		return Node{"k": "callstmt", "f": float64(0), "args": []any{}, "fb": map[string]any(g.stmt(d-1, false, true))}
	default:
		return Node{"k": "matchstmt", "subj": map[string]any{"k": "num", "v": float64(1)}, "bind": "z", "b": map[string]any(g.stmt(d-1, inLoop, inFn))}
	}
}

var reRuleLine = regexp.MustCompile(`^rule (\w+) (\d+) (\d+)$`)

func pathOf(s string) []int {
	parts := strings.Split(s, "_")
	out := make([]int, len(parts))
	for i, p := range parts {
		n, err := strconv.Atoi(p)
		if err != nil {
			return nil
		}
		out[i] = n
	}
	return out
}

// linesToEntries reconstructs the model's observation entries from real stdout.
func linesToEntries(stdout []byte, lineDep []int, forins map[string]Node) ([]any, string) {
	text := strings.TrimSuffix(string(stdout), "\n")
	if len(stdout) == 0 {
		return []any{}, ""
	}
	lines := strings.Split(text, "\n")
	if len(lineDep) != len(lines) {
		return nil, fmt.Sprintf("%d lines but %d depth records", len(lines), len(lineDep))
	}
	out := make([]any, 0, len(lines))
	for i, l := range lines {
		dep := lineDep[i]
		f := strings.Fields(l)
		if len(f) < 2 {
			return nil, fmt.Sprintf("line %d: unrecognised %q", i+1, l)
		}
		var entry []any
		switch f[0] {
		case "rule":
			m := reRuleLine.FindStringSubmatch(l)
			if m == nil {
				return nil, fmt.Sprintf("line %d: malformed rule line %q", i+1, l)
			}
			ri, _ := strconv.Atoi(m[2])
			el, _ := strconv.Atoi(m[3])
			entry = []any{"rule", m[1], ri, el}
		case "s", "i", "p", "c":
			p := pathOf(f[1])
			if p == nil || len(f) != 2 {
				return nil, fmt.Sprintf("line %d: malformed %q", i+1, l)
			}
			if f[0] == "c" {
				dep-- // written inside c()
			}
			entry = []any{f[0], p}
		case "it":
			p := pathOf(f[1])
			fi := forins[f[1]]
			if p == nil || fi == nil {
				return nil, fmt.Sprintf("line %d: unknown loop %q", i+1, l)
			}
			want := 3
			if nbool(fi, "two") {
				want = 4
			}
			if len(f) != want {
				return nil, fmt.Sprintf("line %d: malformed iteration line %q", i+1, l)
			}
			idx := -1
			switch nstr(fi, "kind") {
			case "arr":
				if len(f[2]) == 2 && f[2][0] == 'e' {
					idx = int(f[2][1] - '0')
				}
			case "str":
				idx = strings.Index("xy", f[2])
			}
			if idx < 0 || idx >= nint(fi, "n") || (nbool(fi, "two") && f[3] != strconv.Itoa(idx)) {
				return nil, fmt.Sprintf("line %d: iteration line %q does not name an element of the iterated value", i+1, l)
			}
			entry = []any{"it", p, idx}
		default:
			return nil, fmt.Sprintf("line %d: unrecognised %q", i+1, l)
		}
		out = append(out, []any{entry, dep})
	}
	return out, ""
}

var reTi = regexp.MustCompile(`/\\ ti = (\d+)`)

func checkC07Traces(c *Ctx) {
	pool := c.Pool()
	n, maxNodes := 60, 120
	if c.Thorough() {
		n, maxNodes = 400, 250
	}
	rng := rand.New(rand.NewSource(c.Seed*2654435761 + 17))
	type tcase struct {
		prog  Node
		conds []bool
		text  evalProgram
	}
	cases := make([]tcase, n)
	jobs := make([]Job, n)
	for i := range cases {
		g := &treeGen{r: rng, max: maxNodes}
		body := g.stmt(7, false, false)
		conds := make([]bool, 300)
		for k := range conds {
			conds[k] = rng.Float64() < 0.55
		}
		prog := Node{"fns": []any{}, "n": float64(2), "rules": []any{
			map[string]any{"kind": "B", "body": map[string]any{"k": "print"}},
			map[string]any{"kind": "P", "body": map[string]any(body)},
			map[string]any{"kind": "P", "body": map[string]any{"k": "print"}},
			map[string]any{"kind": "E", "body": map[string]any{"k": "print"}}}}
		p := newEvalRenderer().renderEvalProgram(prog, conds)
		cases[i] = tcase{prog, conds, p}
		jobs[i] = Job{Kind: "run", Prog: []byte(p.Text), Files: []FileIn{{Name: "in.json", Data: []byte(p.Input)}}, Depths: true, Budget: 400000}
	}
	var sb strings.Builder
	var idxOf []int
	events := 0
	pool.Map(jobs, func(i int, r Result) {
		if r.Class == "budget" || r.Class == "timeout" {
			c.Count("inconclusive", 1)
			return
		}
		if r.Class != "ok" && r.Class != "runtime" {
			c.Violation("trace-escape", map[string]any{"program": cases[i].text.Text, "got_class": r.Class, "got_err": r.ErrMsg, "detail": r.Detail})
			return
		}
		entries, why := linesToEntries(r.Stdout, r.LineDep, collectProgForIns(cases[i].prog))
		if why != "" {
			c.Violation("trace-unreadable", map[string]any{"program": cases[i].text.Text, "why": why, "got_stdout": firstN(string(r.Stdout), 3000)})
			return
		}
		if len(entries) > 1500 {
			return // keep TLC's path short; long runs are covered by their prefix-shaped siblings
		}
		pj := cloneNode(cases[i].prog)
		// the oracle as recorded: only the outcomes that were consumed matter, keep them all
		orc := make([]any, len(cases[i].conds))
		for k, b := range cases[i].conds {
			orc[k] = b
		}
		pj["orc"] = orc
		if os.Getenv("VERIF_SELFTEST_CORRUPT") == "C07" && len(idxOf) == 3 && len(entries) > 4 {
			entries = append(entries[:3], entries[4:]...) // self-test: drop one recorded event; the trace must be rejected
		}
		rec := map[string]any{"prog": pj, "out": entries, "outcome": r.Class}
		b, _ := json.Marshal(rec)
		sb.Write(b)
		sb.WriteByte('\n')
		idxOf = append(idxOf, i)
		events += len(entries)
	})
	if len(idxOf) == 0 {
		return
	}
	res := c.TLC(TLCOpt{Module: "Trace_Eval", AllowErr: true, Heap: "12g",
		Cfg: cfgText("INIT TInit", "NEXT TNext", "CONSTANTS", "CallLimit = 5000", "Fuel = 0", "NextOutsidePattern = {\"ends-rule\"}",
			"INVARIANTS FrameBalance BaseAtRuleStart NoEscape SigConsumed OutPrefix FinalMatch"),
		Grep:  regexp.MustCompile(`^/\\ ti = \d+|is violated|Deadlock reached`),
		Files: map[string]string{"evaltraces.ndjson": sb.String()}})
	if !res.OK {
		all := strings.Join(res.Grepped, "\n")
		m := reTi.FindStringSubmatch(all)
		if m == nil || !(strings.Contains(all, "is violated") || strings.Contains(all, "Deadlock")) {
			infra("Trace_Eval failed:\n%s\n%s", firstN(all, 2000), firstN(strings.Join(res.Errors, "\n"), 3000))
		}
		ti, _ := strconv.Atoi(m[1])
		i := idxOf[ti-1]
		which := "?"
		for _, l := range res.Grepped {
			if strings.Contains(l, "nvariant") || strings.Contains(l, "Deadlock") {
				which = l
				break
			}
		}
		r2 := pool.Do(&jobs[i])
		c.Violation("trace-rejected", map[string]any{"program": cases[i].text.Text, "conds": cases[i].conds[:40], "tlc": which, "got_class": r2.Class, "got_stdout": firstN(string(r2.Stdout), 4000),
			"why": "the recorded execution is not a behaviour of the JqEval machine under the recorded condition outcomes"})
		return
	}
	c.Count("traces_validated_against_impl", int64(len(idxOf)))
	c.Count("trace_events_validated", int64(events))
	for _, i := range idxOf {
		c.Case("trace:"+cases[i].text.Text, true)
	}
	c.Sample(map[string]any{"family": "recorded execution of a generated program (validated by Trace_Eval)", "program": firstN(cases[idxOf[0]].text.Text, 2500)})
}
