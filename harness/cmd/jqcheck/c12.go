package main

import (
	"bytes"
	"fmt"
	"math/rand"
	"os"
	"path/filepath"
	"strconv"
	"strings"
)

// symsToBytes maps the spec's byte symbols to bytes: one-character strings
// are themselves, two-character strings are hex names of bytes >= 0x80.
func symsToBytes(syms []string) []byte {
	out := make([]byte, 0, len(syms))
	for _, s := range syms {
		if len(s) == 1 {
			out = append(out, s[0])
			continue
		}
		if len(s) == 2 {
			if n, err := strconv.ParseUint(s, 16, 8); err == nil {
				out = append(out, byte(n))
				continue
			}
		}
		infra("unknown byte symbol %q", s)
	}
	return out
}

func splitLines(b []byte) [][]byte { return bytes.Split(b, []byte{'\n'}) }

func init() { register("C12", checkC12) }

// C12: reported error positions are consistent with, and point into, the program text.
//
//	(1) function level: MC_Text enumerates every text <= MaxLen over a 6-byte
//	    alphabet with every offset; Lexer.GetLineAndCol must return the model's
//	    (line, col, source line) triple.
//	(2) end to end: MC_TextProg programs (filler lines + a fault line with a
//	    marked span + filler lines) must fail with the expected kind at the
//	    model's line, with its source line, and a column inside the span.
func checkC12(c *Ctx) {
	c.Assume("offsets that point at a newline byte or at end of text: only consistency (quoted line is line N) is required, the statement does not fix line/column there")
	c.Assume("faults spanning several lines and faults at end of input are outside the positioned family (consistency half only)")
	c.Assume("alphabet of the function-level model: x, LF, CR, #, 0xC3, 0xA9; wider texts only through the end-to-end family and the C01 driver's errors")
	pool := c.Pool()

	// ---- (1) function level
	maxLen := 5
	if c.Thorough() {
		maxLen = 7
	}
	type textVec struct {
		T []string `json:"t"`
		R []struct {
			Line int      `json:"line"`
			Col  int      `json:"col"`
			Src  []string `json:"src"`
		} `json:"r"`
	}
	st := pool.NewStream(func(j *Job, r Result) {
		var v textVec
		VecDecode([]byte(j.Tag), &v)
		text := j.Prog
		if r.Class != "ok" || len(r.LC) != len(v.R) {
			c.Violation("linecol-crash", map[string]any{"text": v.T, "result": r})
			return
		}
		lines := splitLines(text)
		nontrivial := false
		for p, exp := range v.R {
			got := r.LC[p]
			// consistency, required everywhere
			if got.Line < 1 || got.Line > len(lines) || !bytes.Equal(got.Src, lines[got.Line-1]) {
				c.Violation("linecol-consistency", map[string]any{"text": v.T, "text_bytes": text, "offset": p,
					"got_line": got.Line, "got_src": got.Src, "why": "quoted source line is not line N of the text"})
				return
			}
			if p >= len(text) || text[p] == '\n' {
				continue
			}
			nontrivial = nontrivial || exp.Line > 1
			if got.Line != exp.Line || got.Col != exp.Col || !bytes.Equal(got.Src, symsToBytes(exp.Src)) {
				c.Violation("linecol", map[string]any{"text": v.T, "text_bytes": text, "offset": p,
					"expected": exp, "got_line": got.Line, "got_col": got.Col, "got_src": got.Src})
				return
			}
		}
		c.Case("t:"+string(text), nontrivial)
		if len(v.T) == maxLen {
			c.Sample(map[string]any{"family": "GetLineAndCol", "text": v.T, "expected_per_offset": v.R})
		}
	})
	c.TLC(TLCOpt{Module: "MC_Text",
		Cfg: cfgText("INIT Init", "NEXT Next", fmt.Sprintf("CONSTANT MaxLen = %d", maxLen),
			"INVARIANT Laws", "INVARIANT Vec", "CHECK_DEADLOCK FALSE"),
		OnVec: func(raw []byte) {
			var v textVec
			VecDecode(raw, &v)
			text := symsToBytes(v.T)
			pos := make([]int, len(text)+1)
			for i := range pos {
				pos[i] = i
			}
			st.Submit(Job{Kind: "linecol", Prog: text, Pos: pos, Tag: string(raw)})
		}})
	st.Wait()

	// ---- (2) end to end
	maxPre, maxPost, leanFrom := 2, 1, 28
	if c.Thorough() {
		maxPre, maxPost, leanFrom = 3, 2, 28
	}
	type progVec struct {
		Text  []string `json:"text"`
		Class string   `json:"class"`
		Exact bool     `json:"exact"`
		Line  int      `json:"line"`
		Src   []string `json:"src"`
		ColLo int      `json:"collo"`
		ColHi int      `json:"colhi"`
		Fault int      `json:"fault"`
	}
	nprog := 0
	var binVecs []progVec
	st2 := pool.NewStream(func(j *Job, r Result) {
		var v progVec
		VecDecode([]byte(j.Tag), &v)
		rep := map[string]any{"program": string(j.Prog), "program_bytes": j.Prog, "expected": v,
			"got_class": r.Class, "got_line": r.Line, "got_col": r.Col, "got_src": string(r.SrcLine), "got_msg": r.ErrMsg, "detail": r.Detail}
		if r.Class != v.Class {
			c.Violation("position-class", rep)
			return
		}
		okCol := r.Col >= v.ColLo && r.Col < v.ColHi
		if v.Exact {
			okCol = r.Col == v.ColLo
		}
		if r.Line != v.Line || !bytes.Equal(r.SrcLine, symsToBytes(v.Src)) || !okCol {
			c.Violation("position", rep)
			return
		}
		c.Case("p:"+string(j.Prog), true)
		nprog++
		if nprog%40 == 0 && len(binVecs) < 600 {
			binVecs = append(binVecs, v)
		}
		if nprog%4000 == 1 {
			c.Sample(map[string]any{"family": "positioned program", "program": string(j.Prog), "expected_line": v.Line,
				"expected_col_range": []int{v.ColLo, v.ColHi}, "class": v.Class})
		}
	})
	c.TLC(TLCOpt{Module: "MC_TextProg",
		Cfg: cfgText("INIT Init", "NEXT Next", "CONSTANTS", fmt.Sprintf("MaxPre = %d", maxPre), fmt.Sprintf("MaxPost = %d", maxPost), fmt.Sprintf("LeanFrom = %d", leanFrom),
			"INVARIANT Laws", "INVARIANT Vec", "CHECK_DEADLOCK FALSE"),
		OnVec: func(raw []byte) {
			var v progVec
			VecDecode(raw, &v)
			st2.Submit(Job{Kind: "run", Prog: symsToBytes(v.Text), Files: []FileIn{{Name: "in.json", Data: []byte("[3]")}}, Tag: string(raw)})
		}})
	st2.Wait()

	// the binary shows the same line text and number (and the caret under the reported column)
	dir := c.TempDir("c12bin")
	os.WriteFile(filepath.Join(dir, "in.json"), []byte("[1]"), 0o644)
	parallelDo(len(binVecs), 16, func(i int) {
		v := binVecs[i]
		prog := symsToBytes(v.Text)
		pf := filepath.Join(dir, fmt.Sprintf("p%d.jqawk", i))
		os.WriteFile(pf, prog, 0o644)
		br := c.RunBin([]string{"-f", pf, "in.json"}, nil, dir, 0)
		lines := strings.Split(string(br.Stderr), "\n")
		src := string(symsToBytes(v.Src))
		why := ""
		switch {
		case br.Exit == 0 || hasCrashMarks(br.Stderr):
			why = "no clean failure"
		case len(lines) < 3:
			why = "diagnostic has fewer than three lines"
		case lines[0] != "  "+src:
			why = "first diagnostic line is not the source line"
		case !strings.HasSuffix(lines[1], "^") || len(lines[1])-3 < v.ColLo || len(lines[1])-3 >= v.ColHi:
			why = "the caret is not under the offending construct"
		case !strings.HasPrefix(lines[2], fmt.Sprintf("%s error on line %d:", v.Class, v.Line)):
			why = "third diagnostic line does not name the error kind and line"
		}
		if why != "" {
			c.Violation("position-binary", map[string]any{"program": string(prog), "expected": v, "stderr": string(br.Stderr), "exit": br.Exit, "why": why})
			return
		}
		c.Case("pbin:"+string(prog), true)
	})

	checkC12IllegalEverywhere(c)

	// ---- (3) consistency on every error of arbitrary generated programs (binding B):
	// the quoted line is line N of the program text (JqText.Lines, transcribed: split on LF).
	nr := 8000
	if c.Thorough() {
		nr = 150000
	}
	rng := rand.New(rand.NewSource(c.Seed*31 + 5))
	rcases := make([]randomCase, nr)
	rjobs := make([]Job, nr)
	for i := range rcases {
		rcases[i] = genRandomCase(rng, i)
		rcases[i].Sels = nil // only errors positioned in the program text
		rjobs[i] = rcases[i].job(false)
	}
	nerr := 0
	pool.Map(rjobs, func(i int, r Result) {
		if r.Class != "syntax" && r.Class != "runtime" {
			return
		}
		lines := splitLines([]byte(rcases[i].Prog))
		if r.Line < 1 || r.Line > len(lines) || !bytes.Equal(r.SrcLine, lines[r.Line-1]) {
			c.Violation("error-line-consistency", map[string]any{"program": rcases[i].Prog, "program_bytes": []byte(rcases[i].Prog), "inputs": rcases[i].Files,
				"got_class": r.Class, "got_line": r.Line, "got_col": r.Col, "got_src": string(r.SrcLine), "got_msg": r.ErrMsg,
				"why": "the quoted source line is not line N of the program text"})
			return
		}
		nerr++
		c.Case("rerr:"+rcases[i].Prog, r.Line > 1)
		if nerr%4000 == 1 {
			c.Sample(map[string]any{"family": "error consistency", "program": rcases[i].Prog, "class": r.Class, "line": r.Line, "col": r.Col, "src": string(r.SrcLine)})
		}
	})
	c.Set("random_errors_checked", nerr)

	c.Set("exhaustive", true)
	c.Set("rule", "TLC enumerates (1) every text up to MaxLen bytes over {x,LF,CR,#,C3,A9} with every offset and (2) every program "+
		"pre-fillers x fault x post-fillers x final-newline; a case is non-trivial when it has more than one line (1) / always (2); distinct by text")
	c.Set("checker_cmd", "tlc MC_Text / MC_TextProg; replay through Lexer.GetLineAndCol and lang.EvalProgram")
	c.Set("bounds", map[string]int{"MaxLen": maxLen, "MaxPre": maxPre, "MaxPost": maxPost})
}

// An illegal character at every token boundary of multi-line host programs: the error is a syntax error
// reported exactly on that character, whatever token precedes it (a comma, a keyword, a ";", an opening
// bracket ...).  Line and column of the spliced byte follow JqText (LineOf / ColOf: lines end at LF, the
// column is the byte offset within the line), transcribed here as byte counting.
var c12Hosts = []string{
	"function f ( a , b ) {\n return a + b\n}\nBEGIN {\n x = [ 1 , 2 ]\n print f ( 1 , 2 ) , x [ 0 ]\n}",
	"BEGIN {\n o = { k : 1 , j : [ 2 ] } ; n = 0\n for ( k , v in o ) {\n  n ++\n  if ( n > 1 ) {\n   break\n  } else {\n   continue\n  }\n }\n}",
	"{\n r = match ( $ ) { 1 , 2 => \"low\" , [ p , q ] => p , _ => {\n  next\n } }\n print r ; print $index\n}\nEND {\n exit\n}",
	"BEGIN {\n for ( i = 0 ; i < 2 ; i ++ ) {\n  while ( ! done ) {\n   done = i >= 0 && true || false\n  }\n }\n printf ( \"%s-%v\\n\" , \"a\" , - 1 )\n}",
	"$ . a > 0 {\n s = $ . a . b [ 0 ] . length ( )\n t = s is number\n u = \"x\" ~ /x+/\n}",
}

func checkC12IllegalEverywhere(c *Ctx) {
	pool := c.Pool()
	var jobs []Job
	type exp struct{ line, col int }
	var want []exp
	for _, host := range c12Hosts {
		// token boundaries = the blanks and newlines of the host text (tokens are written apart)
		for i := 0; i <= len(host); i++ {
			if i < len(host) && host[i] != ' ' && host[i] != '\n' {
				continue
			}
			if !c.Thorough() && (i+len(host))%2 != int(c.Seed)%2 {
				continue
			}
			for _, ill := range []string{"@", "&", "?"} {
				var text string
				var off int
				switch {
				case i == len(host):
					text, off = host+" "+ill, i+1
				case host[i] == '\n':
					text, off = host[:i]+" "+ill+host[i:], i+1 // at the end of the line
				default:
					text, off = host[:i]+" "+ill+host[i:], i+1
				}
				line, col := 1, 0
				for j := 0; j < off; j++ {
					if text[j] == '\n' {
						line++
						col = 0
					} else {
						col++
					}
				}
				jobs = append(jobs, Job{Kind: "run", Prog: []byte(text), Files: []FileIn{{Name: "in.json", Data: []byte("[1]")}}, Budget: 100000})
				want = append(want, exp{line, col})
				if ill != "@" && c.Quick {
					break
				}
			}
		}
	}
	pool.Map(jobs, func(i int, r Result) {
		lines := splitLines(jobs[i].Prog)
		if r.Class != "syntax" || r.Line != want[i].line || r.Col != want[i].col || r.Line < 1 || r.Line > len(lines) || !bytes.Equal(r.SrcLine, lines[r.Line-1]) {
			c.Violation("illegal-char-position", map[string]any{"program": string(jobs[i].Prog), "expected_line": want[i].line, "expected_col": want[i].col, "got_class": r.Class, "got_line": r.Line, "got_col": r.Col,
				"got_src": string(r.SrcLine), "got_msg": r.ErrMsg, "why": "an illegal character is reported as a syntax error exactly on it, whatever token precedes it"})
			return
		}
		c.Case("illegal:"+string(jobs[i].Prog), true)
	})
}
