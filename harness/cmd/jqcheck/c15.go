package main

import (
	"encoding/json"
	"fmt"
	"math/rand"
	"os"
	"strconv"
	"strings"
	"sync"
	"time"
)

func init() { register("C15", checkC15) }

// ---------------------------------------------------------------------------
// Statements of MC_List / Trace_List (JqHeap part 2b).

type c15Val struct {
	T string `json:"t"`
	N int    `json:"n,omitempty"`
	S string `json:"s,omitempty"`
	B bool   `json:"b,omitempty"`
}

type c15Expr struct {
	E    string    `json:"e"` // lit call callat get miss
	V    *c15Val   `json:"v,omitempty"`
	M    string    `json:"m,omitempty"`
	A    string    `json:"a,omitempty"`
	Args []c15Expr `json:"args"`
	I    int       `json:"i"`
}

type c15Stmt struct {
	Op string   `json:"op"` // expr set inc
	X  *c15Expr `json:"x,omitempty"`
	A  string   `json:"a,omitempty"`
	I  int      `json:"i"`
	V  *c15Val  `json:"v,omitempty"`
}

// MarshalJSON keeps exactly the fields the spec's records have.
func (e c15Expr) MarshalJSON() ([]byte, error) {
	switch e.E {
	case "lit":
		return json.Marshal(map[string]any{"e": "lit", "v": e.V.tla()})
	case "get":
		return json.Marshal(map[string]any{"e": "get", "a": e.A, "i": e.I})
	case "miss":
		return json.Marshal(map[string]any{"e": "miss"})
	}
	args := e.Args
	if args == nil {
		args = []c15Expr{}
	}
	if e.E == "callat" {
		return json.Marshal(map[string]any{"e": "callat", "m": e.M, "a": e.A, "i": e.I, "args": args})
	}
	return json.Marshal(map[string]any{"e": "call", "m": e.M, "a": e.A, "args": args})
}

func (s c15Stmt) MarshalJSON() ([]byte, error) {
	if s.Op == "set" {
		return json.Marshal(map[string]any{"op": "set", "a": s.A, "i": s.I, "v": s.V.tla()})
	}
	if s.Op == "inc" {
		return json.Marshal(map[string]any{"op": "inc", "a": s.A, "i": s.I})
	}
	return json.Marshal(map[string]any{"op": "expr", "x": s.X})
}

func (v *c15Val) tla() map[string]any {
	switch v.T {
	case "num":
		return map[string]any{"t": "num", "n": v.N}
	case "str":
		return map[string]any{"t": "str", "s": v.S}
	case "bool":
		return map[string]any{"t": "bool", "b": v.B}
	}
	return map[string]any{"t": "null"}
}

// c15CompactSrc renders a compact tree of the spec (MC_List.Compact) as jqawk / JSON source.
func c15CompactSrc(v any) string {
	switch x := v.(type) {
	case float64:
		return strconv.FormatFloat(x, 'f', -1, 64)
	case bool:
		return strconv.FormatBool(x)
	case string:
		if x == "~null" {
			return "null"
		}
		if strings.HasPrefix(x, "~") {
			infra("C15: cannot render %q as an initial value", x)
		}
		return strconv.Quote(x)
	case []any:
		parts := []string{}
		for _, e := range x {
			parts = append(parts, c15CompactSrc(e))
		}
		return "[" + strings.Join(parts, ", ") + "]"
	}
	infra("C15: cannot render %v as an initial value", v)
	return ""
}

func (v *c15Val) src() string {
	switch v.T {
	case "num":
		return strconv.Itoa(v.N)
	case "str":
		return strconv.Quote(v.S)
	case "bool":
		return strconv.FormatBool(v.B)
	}
	return "null"
}

// the three places an array can live: a variable, a field of $, inside another container
var c15Names = [3][3]string{{"a", "b", "c"}, {"$.a", "$.b", "$.c"}, {"o.p", "q[0]", "w.z.y"}}

func c15Name(pl int, a string) string { return c15Names[pl][int(a[0]-'a')] }

// an object {k: 1} lives next to the arrays; m.nope reads a member it does not have
var c15ObjNames = [3]string{"m", "$.m", "u.m"}

const c15ObjText = "{\"k\": 1}"

func (e *c15Expr) src(pl int) string {
	switch e.E {
	case "lit":
		return e.V.src()
	case "get":
		return c15Name(pl, e.A) + "[" + strconv.Itoa(e.I) + "]"
	case "miss":
		return c15ObjNames[pl] + ".nope"
	}
	args := []string{}
	for i := range e.Args {
		args = append(args, e.Args[i].src(pl))
	}
	if e.E == "callat" {
		return c15Name(pl, e.A) + "[" + strconv.Itoa(e.I) + "]." + e.M + "(" + strings.Join(args, ", ") + ")"
	}
	return c15Name(pl, e.A) + "." + e.M + "(" + strings.Join(args, ", ") + ")"
}

func c15ArrSrc(vals []c15Val) string {
	parts := []string{}
	for i := range vals {
		parts = append(parts, vals[i].src())
	}
	return "[" + strings.Join(parts, ", ") + "]"
}

// c15Program renders a history for placement pl; after every statement the
// result, the arrays and their lengths are printed.
// c15ContentsEvery: a recorded long history (full == false) prints the arrays after every so many statements and at the end.
const c15ContentsEvery = 16

func c15ContentsAfter(i, n int, full bool) bool {
	return full || i == n-1 || (i+1)%c15ContentsEvery == 0
}

func c15InitSrc(init [3][]c15Val) [3]string {
	return [3]string{c15ArrSrc(init[0]), c15ArrSrc(init[1]), c15ArrSrc(init[2])}
}

func c15Program(init [3]string, ops []c15Stmt, pl, narr int, full bool) (prog string, input string) {
	var sb strings.Builder
	sb.WriteString("{\n")
	input = "{}"
	switch pl {
	case 0:
		for k := 0; k < 3; k++ {
			sb.WriteString(c15Names[0][k] + " = " + init[k] + "\n")
		}
		sb.WriteString("m = {k: 1}\n")
	case 1:
		input = "{\"a\": " + init[0] + ", \"b\": " + init[1] + ", \"c\": " + init[2] + ", \"m\": {\"k\": 1}, \"n\": 5}"
	case 2:
		sb.WriteString("o = {p: " + init[0] + "}\nq = [" + init[1] + ", 0]\nw = {z: {y: " + init[2] + "}}\nu = {m: {k: 1}}\n")
	}
	tags := []string{"A", "B", "C"}
	for i := range ops {
		op := &ops[i]
		if op.Op == "set" {
			sb.WriteString(c15Name(pl, op.A) + "[" + strconv.Itoa(op.I) + "] = " + op.V.src() + "\n")
		} else if op.Op == "inc" {
			sb.WriteString("print \"R\", [++" + c15Name(pl, op.A) + "[" + strconv.Itoa(op.I) + "]]\n")
		} else {
			// wrapped in an array literal: a string result is then printed quoted ("10" vs 10)
			sb.WriteString("print \"R\", [" + op.X.src(pl) + "]\n")
		}
		contents := func() {
			for k := 0; k < narr; k++ {
				sb.WriteString("print \"" + tags[k] + "\", " + c15Names[pl][k] + "\n")
			}
			sb.WriteString("print \"M\", " + c15ObjNames[pl] + "\n")
		}
		if full {
			contents()
		}
		ls := []string{}
		for k := 0; k < narr; k++ {
			ls = append(ls, c15Names[pl][k]+".length()")
		}
		sb.WriteString("print \"L\", " + strings.Join(ls, ", ") + "\n")
		if !full && c15ContentsAfter(i, len(ops), false) {
			contents()
		}
	}
	sb.WriteString("}\n")
	return sb.String(), input
}

// ---------------------------------------------------------------------------
// Binding A: vectors of MC_List.

type c15Exp struct {
	St   string `json:"st"`
	Res  any    `json:"res"`
	Arrs []any  `json:"arrs"`
	Lens []int  `json:"lens"`
}
type c15Step struct {
	Exp c15Exp   `json:"exp"`
	Dev []c15Exp `json:"dev"`
}
type c15Vec struct {
	Init  []any     `json:"init"` // the initial arrays (compact trees)
	Chk   []string  `json:"chk"`
	Ops   []c15Stmt `json:"ops"`
	Steps []c15Step `json:"steps"`
}

// c15Match: is the output the one prescribed (dev: with the deviation's alternative where there is one)?
func c15Match(v *c15Vec, dev bool, class string, lines []string, narr int, wild *bool) (bool, string) {
	li := 0
	next := func(tag string) (string, bool) {
		if li >= len(lines) || !strings.HasPrefix(lines[li], tag+" ") {
			if li < len(lines) {
				return lines[li], false
			}
			return "", false
		}
		li++
		return lines[li-1][len(tag)+1:], true
	}
	tags := []string{"A", "B", "C"}
	for i := range v.Steps {
		e := v.Steps[i].Exp
		if dev && len(v.Steps[i].Dev) > 0 {
			e = v.Steps[i].Dev[0]
		}
		switch e.St {
		case "wild":
			if wild != nil {
				*wild = true
			}
			return true, ""
		case "dead":
			return false, fmt.Sprintf("step %d: this semantics ended with an error before", i+1)
		case "error":
			if class != "runtime" || li != len(lines) {
				return false, fmt.Sprintf("step %d: expected a runtime error here, run ended %s after %d of %d lines", i+1, class, li, len(lines))
			}
			return true, ""
		}
		if v.Ops[i].Op != "set" {
			got, ok := next("R")
			if !ok {
				return false, fmt.Sprintf("step %d: no result line (run ended %s; next line %q)", i+1, class, got)
			}
			exp := &c09T{K: "arr", A: []*c09T{c09FromCompact(e.Res)}}
			if g := c09ParsePrint(got); !c09Equal(exp, g, false) {
				return false, fmt.Sprintf("step %d: result: expected %s, got %s", i+1, exp, g)
			}
		}
		for k := 0; k < narr; k++ {
			got, ok := next(tags[k])
			if !ok {
				return false, fmt.Sprintf("step %d: no line for array %d (run ended %s)", i+1, k, class)
			}
			exp := c09FromCompact(e.Arrs[k])
			if g := c09ParsePrint(got); !c09Equal(exp, g, false) {
				return false, fmt.Sprintf("step %d: contents of %s: expected %s, got %s", i+1, c15Names[0][k], exp, g)
			}
		}
		if got, ok := next("M"); !ok || got != c15ObjText {
			return false, fmt.Sprintf("step %d: the object the missing member was read from: expected %s, got %q", i+1, c15ObjText, got)
		}
		got, ok := next("L")
		if !ok {
			return false, fmt.Sprintf("step %d: no length line (run ended %s)", i+1, class)
		}
		ls := []string{}
		for k := 0; k < narr; k++ {
			ls = append(ls, strconv.Itoa(e.Lens[k]))
		}
		if got != strings.Join(ls, " ") {
			return false, fmt.Sprintf("step %d: lengths: expected %s, got %s", i+1, strings.Join(ls, " "), got)
		}
	}
	if class != "ok" {
		return false, "run ended " + class + " but no error is expected"
	}
	if li != len(lines) {
		return false, fmt.Sprintf("extra output %q", lines[li])
	}
	return true, ""
}

const c15SharedText = "a method call nested in the argument of a call of the same method on another array makes the outer call act on the inner call's array"

func c15RunMC(c *Ctx, pool *Pool, name, cfg string, files map[string]string, narr int, stats, tags map[string]int) {
	var mu sync.Mutex
	vecs := map[string]*c15Vec{}
	seq := 0
	st := pool.NewStream(func(j *Job, r Result) {
		mu.Lock()
		v := vecs[j.Tag]
		delete(vecs, j.Tag)
		mu.Unlock()
		if r.Class == "timeout" || r.Class == "budget" { // an overloaded machine: inconclusive, never a violation
			stats["inconclusive_worker_timeouts"]++
			return
		}
		if r.Class != "ok" || len(r.Hist) != 3 {
			c.Violation("worker", map[string]any{"result": r, "ops": v.Ops})
			return
		}
		for pl := 0; pl < 3; pl++ {
			rr := r.Hist[pl]
			if rr.Class == "budget" || rr.Class == "timeout" {
				continue
			}
			lines := c09Lines(rr.Stdout)
			okI, why := c15Match(v, false, rr.Class, lines, narr, nil)
			if okI {
				continue
			}
			rep := map[string]any{"program": string(j.Hist[pl].Prog), "input": string(j.Hist[pl].Files[0].Data), "difference_from_intended": why,
				"class": rr.Class, "stdout": string(rr.Stdout), "err": rr.ErrMsg, "detail": rr.Detail}
			wild := false
			if okD, _ := c15Match(v, true, rr.Class, lines, narr, &wild); okD && c.OpenDev("shared-receiver") {
				stats["runs_explained_by_shared-receiver"]++
				if wild {
					stats["of_these_with_unconstrained_outcome"]++
				}
				c.Known("shared-receiver", c15SharedText+" (e.g. `"+c15OneLine(string(j.Hist[pl].Prog))+"`: "+why+")")
				continue
			}
			c.Violation("list-history", rep)
		}
		c.Case(name+":"+string(j.Hist[0].Prog), len(v.Ops) >= 2)
		stats["histories"]++
		if v.Steps[len(v.Steps)-1].Exp.St == "error" {
			stats["ending_in_expected_error"]++
		}
		if stats["histories"]%4001 == 1 {
			c.Sample(map[string]any{"family": "history (" + name + ")", "program": string(j.Hist[2].Prog), "expected_last_step": v.Steps[len(v.Steps)-1].Exp})
		}
	})
	c.TLC(TLCOpt{Module: "MC_List", Cfg: cfg, Files: files, Workers: 12, Heap: "6g",
		OnVec: func(raw []byte) {
			v := &c15Vec{}
			VecDecode(raw, v)
			if len(v.Ops) != len(v.Steps) || len(v.Ops) == 0 {
				infra("C15: malformed vector %.200s", raw)
			}
			seq++
			tag := strconv.Itoa(seq)
			for _, l := range v.Chk {
				tags["law:"+l]++
			}
			if last := v.Steps[len(v.Steps)-1]; len(last.Dev) > 0 {
				tags["dev:"+last.Dev[0].St]++
			}
			mu.Lock()
			vecs[tag] = v
			mu.Unlock()
			init := [3]string{"[]", "[]", "[]"}
			if len(v.Init) != narr {
				infra("C15: vector without its initial arrays: %.200s", raw)
			}
			for k := range v.Init {
				init[k] = c15CompactSrc(v.Init[k])
			}
			jobs := []Job{}
			for pl := 0; pl < 3; pl++ {
				prog, input := c15Program(init, v.Ops, pl, narr, true)
				jobs = append(jobs, Job{Kind: "run", Prog: []byte(prog), Files: []FileIn{{Name: "in.json", Data: []byte(input)}}})
			}
			st.Submit(Job{Kind: "history", Hist: jobs, Tag: tag})
		}})
	st.Wait()
}

// c15LongHistories writes seeded histories on LONG arrays (up to 45 elements, many elements that tie
// under sort's order or are equal under ==) as given.json for MC_List Mode = "given": the ideal list
// of the spec computes every expectation.  Strings stay within the alphabet of JqHeap.StrRank.
func c15LongHistories(seed int64, n int) string {
	r := rand.New(rand.NewSource(seed*32452843 + 5))
	mixed := []c15Val{{T: "bool", B: true}, {T: "bool", B: false}, {T: "null"}, {T: "str", S: "1"}, {T: "num", N: 1}, {T: "str", S: "10"}, {T: "num", N: 10},
		{T: "str", S: "a"}, {T: "str", S: "b"}, {T: "str", S: "ab"}, {T: "num", N: 2}, {T: "str", S: "2"}, {T: "num", N: -1}, {T: "str", S: "-1"}, {T: "str", S: "s"}, {T: "num", N: 0}}
	val := func(kind int) c15Val {
		switch kind {
		case 0: // numbers only (numeric order; ties are identical)
			return c15Val{T: "num", N: r.Intn(25) - 5}
		case 1: // few distinct sort keys, many distinguishable elements per key
			return mixed[r.Intn(7)]
		}
		return mixed[r.Intn(len(mixed))]
	}
	hs := []any{}
	for h := 0; h < n; h++ {
		kind := r.Intn(4)
		la := r.Intn(46)
		if r.Intn(3) > 0 && la < 13 {
			la += 13
		}
		init := [3][]any{{}, {}, {}}
		for i := 0; i < la; i++ {
			v := val(kind)
			init[0] = append(init[0], v.tla())
		}
		for i := r.Intn(4); i > 0; i-- {
			v := val(2)
			init[1] = append(init[1], v.tla())
		}
		lit := func() c15Expr { v := val(kind); return c15Lit(&v) }
		ops := []c15Stmt{}
		for k := 2 + r.Intn(3); k > 0; k-- {
			var st c15Stmt
			switch w := r.Intn(20); {
			case w < 7:
				st = c15Stmt{Op: "expr", X: ptr(c15Call("sort", 0))}
			case w < 9:
				st = c15Stmt{Op: "expr", X: ptr(c15Call("contains", 0, lit()))}
			case w < 11:
				st = c15Stmt{Op: "expr", X: ptr(c15Call([]string{"pop", "popfirst", "length"}[r.Intn(3)], 0))}
			case w < 13:
				st = c15Stmt{Op: "expr", X: ptr(c15Call("push", 0, lit()))}
			case w < 15:
				st = c15Stmt{Op: "expr", X: &c15Expr{E: "get", A: "a", I: r.Intn(2*la+3) - la - 1}}
			case w < 17:
				v := val(kind)
				st = c15Stmt{Op: "set", A: "a", I: r.Intn(2*la+6) - la - 1, V: &v}
			case w < 18:
				st = c15Stmt{Op: "expr", X: ptr(c15Call("push", 1, c15Call("sort", 0)))} // the sorted copy inside another array
			case w < 19:
				st = c15Stmt{Op: "expr", X: ptr(c15Call("push", 0, c15Call([]string{"pop", "popfirst", "length"}[r.Intn(3)], 0)))}
			default:
				st = c15Stmt{Op: "expr", X: ptr(c15Call("length", 0))}
				if kind == 0 { // ++ converts by num(): the spec's conversion table holds only a few strings
					st = c15Stmt{Op: "inc", A: "a", I: r.Intn(la+1) - r.Intn(2)*la}
				}
			}
			ops = append(ops, st)
		}
		hs = append(hs, map[string]any{"init": init, "ops": ops})
	}
	b, err := json.Marshal(hs)
	if err != nil {
		infra("C15: %v", err)
	}
	return string(b)
}

func c15OneLine(prog string) string {
	keep := []string{}
	for _, l := range strings.Split(prog, "\n") {
		if strings.HasPrefix(l, "print \"A\"") || strings.HasPrefix(l, "print \"B\"") || strings.HasPrefix(l, "print \"C\"") || strings.HasPrefix(l, "print \"L\"") || l == "{" || l == "}" || l == "" {
			continue
		}
		keep = append(keep, l)
	}
	return strings.Join(keep, "; ")
}

func c15Cfg(mode string, maxOps int) string {
	return cfgText("INIT Init", "NEXT Next", "CONSTANTS", "Mode = \""+mode+"\"", fmt.Sprintf("MaxOps = %d", maxOps),
		"INVARIANT Laws", "INVARIANT Vec", "CHECK_DEADLOCK FALSE")
}

// ---------------------------------------------------------------------------
// Binding B: long seeded histories, run as one program each, validated by Trace_List.

type c15Hist struct {
	init  [3][]c15Val
	ops   []c15Stmt
	pl    int
	narr  int
	prog  string
	input string
	// events of this history in the trace: [first, last)
	first, last int
}

type c15Gen struct {
	next  *c15Stmt // queued follow-up statement
	r     *rand.Rand
	lens  [3]int
	cont  [3]bool // may hold a container
	n     int
	drain int // arrays longer than this are drained
}

func (g *c15Gen) val() *c15Val {
	switch g.r.Intn(10) {
	case 0:
		return &c15Val{T: "null"}
	case 1:
		return &c15Val{T: "bool", B: true}
	case 2, 3:
		return &c15Val{T: "str", S: []string{"b", "a", "s", "ab", "10"}[g.r.Intn(5)]}
	}
	return &c15Val{T: "num", N: g.r.Intn(13)}
}

func (g *c15Gen) arr() int { return g.r.Intn(g.n) }

func (g *c15Gen) idx(k int) int {
	n := g.lens[k]
	if n == 0 {
		return 0
	}
	if g.r.Intn(2) == 0 {
		return -(1 + g.r.Intn(n))
	}
	return g.r.Intn(n)
}

func c15Lit(v *c15Val) c15Expr { return c15Expr{E: "lit", V: v} }
func c15Call(m string, k int, args ...c15Expr) c15Expr {
	return c15Expr{E: "call", M: m, A: string(rune('a' + k)), Args: args}
}

// stmt generates one statement and updates the generator's idea of the
// lengths (a heuristic to keep arrays short and indices in range; not an oracle).
func (g *c15Gen) stmt() c15Stmt {
	if g.next != nil {
		st := *g.next
		g.next = nil
		return st
	}
	x := g.arr()
	y := g.arr()
	name := func(k int) string { return string(rune('a' + k)) }
	pop := func(k int) {
		if g.lens[k] > 0 {
			g.lens[k]--
		}
	}
	w := g.r.Intn(1000)
	if g.lens[x] > g.drain && w < 700 {
		w = 300 + g.r.Intn(250) // drain
	}
	switch {
	case w < 270:
		g.lens[x]++
		return c15Stmt{Op: "expr", X: ptr(c15Call("push", x, c15Lit(g.val())))}
	case w < 300:
		// push the null of a read past the end (of any array) or of a missing member; often followed
		// by a write to exactly that element, which must change that element and nothing else
		arg := c15Expr{E: "miss"}
		if w < 288 {
			arg = c15Expr{E: "get", A: name(y), I: g.lens[y] + g.r.Intn(4)}
		}
		g.lens[x]++
		switch g.r.Intn(4) {
		case 0:
			g.next = &c15Stmt{Op: "set", A: name(x), I: -1, V: g.val()}
		case 1:
			g.next = &c15Stmt{Op: "inc", A: name(x), I: g.lens[x] - 1}
		case 2:
			g.next = &c15Stmt{Op: "inc", A: name(x), I: -1}
		}
		return c15Stmt{Op: "expr", X: ptr(c15Call("push", x, arg))}
	case w < 450:
		pop(x)
		return c15Stmt{Op: "expr", X: ptr(c15Call("popfirst", x))}
	case w < 550:
		pop(x)
		return c15Stmt{Op: "expr", X: ptr(c15Call("pop", x))}
	case w < 600:
		return c15Stmt{Op: "expr", X: ptr(c15Call("length", x))}
	case w < 680:
		if g.cont[x] {
			return c15Stmt{Op: "expr", X: ptr(c15Call("length", x))}
		}
		return c15Stmt{Op: "expr", X: ptr(c15Call("contains", x, c15Lit(g.val())))}
	case w < 720:
		if g.cont[x] {
			return c15Stmt{Op: "expr", X: ptr(c15Call("length", x))}
		}
		return c15Stmt{Op: "expr", X: ptr(c15Call("sort", x))}
	case w < 790:
		if g.lens[x] == 0 {
			return c15Stmt{Op: "expr", X: ptr(c15Call("length", x))}
		}
		i := g.idx(x)
		if g.r.Intn(400) == 0 {
			i = -(g.lens[x] + 1 + g.r.Intn(2)) // before the start: the run must end with an error
		}
		return c15Stmt{Op: "expr", X: &c15Expr{E: "get", A: name(x), I: i}}
	case w < 805:
		if g.lens[x] == 0 || g.cont[x] {
			return c15Stmt{Op: "expr", X: ptr(c15Call("length", x))}
		}
		return c15Stmt{Op: "inc", A: name(x), I: g.idx(x)}
	case w < 860:
		i := g.idx(x)
		if g.lens[x] == 0 || g.r.Intn(4) == 0 {
			old := g.lens[x]
			i = old + g.r.Intn(4) // append, or pad one, two or three
			g.lens[x] = i + 1
			if i > old && g.r.Intn(3) > 0 {
				// then change one of the padding nulls: that one alone must change
				j := old + g.r.Intn(i-old)
				if g.r.Intn(2) == 0 {
					j -= g.lens[x] // the same position, counted from the end
				}
				if g.r.Intn(3) == 0 && !g.cont[x] {
					g.next = &c15Stmt{Op: "inc", A: name(x), I: j}
				} else {
					g.next = &c15Stmt{Op: "set", A: name(x), I: j, V: g.val()}
				}
			}
		}
		return c15Stmt{Op: "set", A: name(x), I: i, V: g.val()}
	case w < 900: // queue transfer
		pop(y)
		g.lens[x]++
		g.cont[x] = g.cont[x] || g.cont[y]
		return c15Stmt{Op: "expr", X: ptr(c15Call("push", x, c15Call("popfirst", y)))}
	case w < 920:
		pop(y)
		g.lens[x]++
		g.cont[x] = g.cont[x] || g.cont[y]
		return c15Stmt{Op: "expr", X: ptr(c15Call("push", x, c15Call("pop", y)))}
	case w < 940:
		g.lens[x]++
		return c15Stmt{Op: "expr", X: ptr(c15Call("push", x, c15Call("length", y)))}
	case w < 960:
		if g.cont[x] {
			return c15Stmt{Op: "expr", X: ptr(c15Call("length", x))}
		}
		return c15Stmt{Op: "expr", X: ptr(c15Call("contains", x, c15Call("length", y)))}
	case w < 980:
		if g.cont[x] || g.cont[y] {
			return c15Stmt{Op: "expr", X: ptr(c15Call("length", x))}
		}
		return c15Stmt{Op: "expr", X: ptr(c15Call("contains", x, c15Call("contains", y, c15Lit(g.val()))))}
	case w < 990:
		if g.lens[y] == 0 {
			return c15Stmt{Op: "expr", X: ptr(c15Call("length", x))}
		}
		g.lens[x]++
		g.cont[x] = g.cont[x] || g.cont[y]
		return c15Stmt{Op: "expr", X: ptr(c15Call("push", x, c15Expr{E: "get", A: name(y), I: g.idx(y)}))}
	case w < 996:
		if g.cont[y] {
			return c15Stmt{Op: "expr", X: ptr(c15Call("length", x))}
		}
		g.lens[x]++
		g.cont[x] = true
		return c15Stmt{Op: "expr", X: ptr(c15Call("push", x, c15Call("sort", y)))}
	default:
		if x == y {
			return c15Stmt{Op: "expr", X: ptr(c15Call("length", x))}
		}
		g.lens[x]++
		g.lens[y]++
		g.cont[x] = true
		return c15Stmt{Op: "expr", X: ptr(c15Call("push", x, c15Call("push", y, c15Lit(g.val()))))}
	}
}

func ptr[T any](v T) *T { return &v }

// typed tree for the trace (the Values of JqHeap as JSON)
func c15TreeJSON(t *c09T) map[string]any {
	switch t.K {
	case "num":
		return map[string]any{"t": "num", "n": int(t.N)}
	case "str":
		return map[string]any{"t": "str", "s": t.S}
	case "bool":
		return map[string]any{"t": "bool", "b": t.B}
	case "null":
		return map[string]any{"t": "null"}
	case "arr":
		items := []any{}
		for _, e := range t.A {
			items = append(items, c15TreeJSON(e))
		}
		return map[string]any{"t": "arr", "items": items}
	}
	return map[string]any{"t": "other", "s": t.S}
}

// c15Events turns the output of one history's program into trace events.
func c15Events(h *c15Hist, narr int, r Result) ([]string, error) {
	evs := []string{}
	add := func(m map[string]any) {
		b, _ := json.Marshal(m)
		evs = append(evs, string(b))
	}
	arrs := []any{}
	for k := 0; k < 3; k++ {
		items := []any{}
		for i := range h.init[k] {
			items = append(items, h.init[k][i].tla())
		}
		arrs = append(arrs, items)
	}
	add(map[string]any{"ev": "reset", "arrs": arrs})
	lines := c09Lines(r.Stdout)
	li := 0
	recorded := 0 // statements recorded so far
	for i := range h.ops {
		op := &h.ops[i]
		res := map[string]any{"t": "null"}
		if op.Op != "set" {
			if li >= len(lines) {
				break
			}
			if !strings.HasPrefix(lines[li], "R ") {
				return nil, fmt.Errorf("statement %d: expected a result line, got %q", i+1, lines[li])
			}
			t := c09ParsePrint(lines[li][2:])
			if t.K != "arr" || len(t.A) != 1 {
				return nil, fmt.Errorf("statement %d: result line is not a one-element array: %q", i+1, lines[li])
			}
			res = c15TreeJSON(t.A[0])
			li++
		}
		if li >= len(lines) {
			if op.Op != "set" {
				return nil, fmt.Errorf("statement %d: result line without length line", i+1)
			}
			break
		}
		if !strings.HasPrefix(lines[li], "L ") {
			return nil, fmt.Errorf("statement %d: expected a length line, got %q", i+1, lines[li])
		}
		lens := []int{0, 0, 0}
		fs := strings.Fields(lines[li][2:])
		if len(fs) != narr {
			return nil, fmt.Errorf("statement %d: bad length line %q", i+1, lines[li])
		}
		for k := range fs {
			n, err := strconv.Atoi(fs[k])
			if err != nil {
				return nil, fmt.Errorf("statement %d: bad length line %q", i+1, lines[li])
			}
			lens[k] = n
		}
		for k := narr; k < 3; k++ {
			lens[k] = len(h.init[k])
		}
		li++
		add(map[string]any{"ev": "op", "st": op, "err": false, "res": res, "lens": lens})
		recorded++
		if c15ContentsAfter(i, len(h.ops), false) {
			// the contents now
			if li >= len(lines) {
				break // the run ended between the two print statements: impossible unless printing failed
			}
			fin := []any{}
			tags := []string{"A ", "B ", "C "}
			for k := 0; k < 3; k++ {
				if k < narr {
					if li >= len(lines) || !strings.HasPrefix(lines[li], tags[k]) {
						return nil, fmt.Errorf("statement %d: contents missing", i+1)
					}
					fin = append(fin, c15TreeJSON(c09ParsePrint(lines[li][2:])))
					li++
				} else {
					items := []any{}
					for j := range h.init[k] {
						items = append(items, h.init[k][j].tla())
					}
					fin = append(fin, map[string]any{"t": "arr", "items": items})
				}
			}
			add(map[string]any{"ev": "final", "arrs": fin})
			if li >= len(lines) || lines[li] != "M "+c15ObjText {
				return nil, fmt.Errorf("statement %d: the object whose missing member was read is not %s", i+1, c15ObjText)
			}
			li++
		}
		if i == len(h.ops)-1 {
			if li != len(lines) {
				return nil, fmt.Errorf("extra output %q", lines[li])
			}
			if r.Class != "ok" {
				return nil, fmt.Errorf("all output present but the run ended %s", r.Class)
			}
			return evs, nil
		}
	}
	// the output ended early: the next statement must be a runtime error
	if r.Class != "runtime" {
		return nil, fmt.Errorf("output ends after %d lines but the run ended %s", li, r.Class)
	}
	add(map[string]any{"ev": "op", "st": &h.ops[recorded], "err": true})
	return evs, nil
}

func c15Validate(c *Ctx, trace []string, devs []string) (matched, total int) {
	dq := []string{}
	for _, d := range devs {
		dq = append(dq, strconv.Quote(d))
	}
	matched, total = -1, -1
	c.TLC(TLCOpt{Module: "Trace_List",
		Cfg:   cfgText("INIT Init", "NEXT Next", "CONSTANT Deviations = {"+strings.Join(dq, ", ")+"}", "POSTCONDITION Report", "CHECK_DEADLOCK FALSE"),
		Files: map[string]string{"trace.ndjson": strings.Join(trace, "\n") + "\n"}, Workers: 4, Heap: "6g",
		OnVec: func(raw []byte) {
			var m struct{ Matched, Total int }
			VecDecode(raw, &m)
			matched, total = m.Matched, m.Total
		}})
	if matched < 0 || total != len(trace) {
		infra("Trace_List did not report (matched %d, total %d, lines %d)", matched, total, len(trace))
	}
	return matched, total
}

func c15Traces(c *Ctx, pool *Pool) {
	nh, lo, hi := 40, 200, 500
	if c.Thorough() {
		nh, lo, hi = 200, 200, 2000
	}
	r := rand.New(rand.NewSource(c.Seed*15485863 + 15))
	hists := make([]*c15Hist, nh)
	jobs := make([]Job, nh)
	narrs := make([]int, nh)
	for i := range hists {
		g := &c15Gen{r: r, n: 1 + r.Intn(3), drain: []int{10, 10, 30}[r.Intn(3)]}
		h := &c15Hist{pl: r.Intn(3), narr: g.n}
		for k := 0; k < 3; k++ {
			h.init[k] = []c15Val{}
			if k < g.n {
				for j := r.Intn(4); j > 0; j-- {
					h.init[k] = append(h.init[k], *g.val())
				}
			}
			g.lens[k] = len(h.init[k])
		}
		n := lo + r.Intn(hi-lo+1)
		for j := 0; j < n; j++ {
			h.ops = append(h.ops, g.stmt())
		}
		h.prog, h.input = c15Program(c15InitSrc(h.init), h.ops, h.pl, g.n, false)
		hists[i], narrs[i] = h, g.n
		jobs[i] = Job{Kind: "run", Prog: []byte(h.prog), Files: []FileIn{{Name: "in.json", Data: []byte(h.input)}}, Budget: 50_000_000}
	}
	trace := []string{}
	results := make([]Result, nh)
	pool.Map(jobs, func(i int, r Result) { results[i] = r })
	nops := 0
	for i, h := range hists {
		r := results[i]
		if r.Class == "budget" || r.Class == "timeout" {
			continue
		}
		evs, err := c15Events(h, narrs[i], r)
		if err != nil {
			c.Violation("list-trace-record", map[string]any{"program": h.prog, "input": h.input, "why": err.Error(), "class": r.Class, "err": r.ErrMsg, "stdout_tail": c15Tail(r.Stdout)})
			continue
		}
		h.first = len(trace)
		trace = append(trace, evs...)
		h.last = len(trace)
		for _, e := range evs {
			if strings.Contains(e, `"ev":"op"`) {
				nops++
			}
		}
	}
	if len(trace) == 0 {
		return
	}
	find := func(line int) *c15Hist {
		for _, h := range hists {
			if line >= h.first && line < h.last {
				return h
			}
		}
		return nil
	}
	// strict first; then with the open deviations
	m, total := c15Validate(c, trace, nil)
	strictRejected := -1
	if m < total {
		strictRejected = m
		devs := []string{}
		if c.OpenDev("shared-receiver") {
			devs = append(devs, "shared-receiver")
		}
		if len(devs) > 0 {
			m, total = c15Validate(c, trace, devs)
		}
	}
	if m < total {
		// localise: the history that contains the first unexplained line, alone, against the real code again
		h := find(m)
		var ev map[string]any
		json.Unmarshal([]byte(trace[m]), &ev)
		rep := map[string]any{"program": h.prog, "input": h.input, "unexplained_event": ev, "event_index_in_history": m - h.first,
			"why": "no action of the list model (JqHeap.Exec) from the model state reached by the preceding events explains this recorded event"}
		rr := pool.Do(&Job{Kind: "run", Prog: []byte(h.prog), Files: []FileIn{{Name: "in.json", Data: []byte(h.input)}}, Budget: 50_000_000})
		evs, err := c15Events(h, h.narr, rr)
		if err != nil {
			infra("C15: re-running a rejected history gave an unusable record: %v", err)
		}
		devs := []string{}
		if c.OpenDev("shared-receiver") {
			devs = append(devs, "shared-receiver")
		}
		if m2, t2 := c15Validate(c, evs, devs); m2 == t2 {
			infra("C15: a history rejected in the batch is accepted when re-run alone (line %d)", m)
		}
		c.Violation("list-trace", rep)
	} else if strictRejected >= 0 {
		h := find(strictRejected)
		var ev map[string]any
		json.Unmarshal([]byte(trace[strictRejected]), &ev)
		b, _ := json.Marshal(ev["st"])
		c.Known("shared-receiver", c15SharedText+" (trace validation: the recorded event "+string(b)+" -> "+fmt.Sprint(ev["res"])+" of a "+
			strconv.Itoa(len(h.ops))+"-statement history is explained only by the deviation)")
	}
	for _, h := range hists {
		if h.last > h.first {
			c.Case("trace:"+h.prog, true)
		}
	}
	c.Set("trace_validation", map[string]any{"histories": nh, "recorded_events": len(trace), "statements": nops, "accepted_strictly": strictRejected < 0})
	c.Sample(map[string]any{"family": "recorded long history (Trace_List)", "program_head": hists[0].prog[:min(len(hists[0].prog), 600)],
		"statements": len(hists[0].ops), "first_events": trace[hists[0].first:min(hists[0].first+4, hists[0].last)]})
}

func c15Tail(b []byte) string {
	if len(b) > 600 {
		return string(b[len(b)-600:])
	}
	return string(b)
}

// ---------------------------------------------------------------------------

func checkC15(c *Ctx) {
	c.Assume("operations are applied through the name that holds the array; what a stored COPY of an array shows after the array's length changed is C09's alias question (alias-length) and is not compared")
	c.Assume("sort of an array that holds containers (string form of a container), an array pushed into itself, ++ of an element that is a container and ++ of an index past the end (creation: C09) are not fixed by the statement and are not generated; an index read past the end and a read of a missing object member are null and change nothing, also as arguments of push")
	c.Assume("element values of the histories: small integers, short strings, null, true; numeric strings only \"10\"; argument-count errors are not exercised. sortform: numbers are the 17 exact dyadic values of MC_SortForm.Pool (3 ... 2^70, 2^-1 ... 2^-20, negatives, 0; no negative zero, no non-finite numbers), strings printable ASCII without quotes / backslashes")
	c.Assume("arrays live in variables (a, b, c), in fields of the input document ($.a, $.b, $.c) and inside other containers (o.p, q[0], w.z.y); every history runs in all three placements")
	c.Assume("a receiver is a name or an element a[i] of a named array; receivers that are call results (a.pop().push(1)) work on a copy of the slice header (C09's alias question) and are not generated; a method of a missing or scalar element is C16's")
	pool := c.Pool()
	pool.Timeout = 120 * time.Second
	stats := map[string]int{}
	depth, breadth := 3, 2
	if c.Thorough() {
		depth = 4
	}
	tags := map[string]int{}        // written only by the vector reader
	only := os.Getenv("C15_FAMILY") // development: one family only
	fam := func(name string, f func()) {
		if only == "" || only == name {
			t0 := time.Now()
			f()
			if only != "" || os.Getenv("C15_TIMING") != "" {
				fmt.Fprintf(os.Stderr, "C15 family %s: %.1fs\n", name, time.Since(t0).Seconds())
			}
		}
	}
	fam("depth", func() { c15RunMC(c, pool, "depth", c15Cfg("depth", depth), nil, 2, stats, tags) })
	fam("breadth", func() { c15RunMC(c, pool, "breadth", c15Cfg("breadth", breadth), nil, 2, stats, tags) })
	// arrays that hold arrays: a[i].m(args) where evaluating the arguments changes a
	nestedDepth, nestedBig, nlong := 2, 1, 250
	if c.Thorough() {
		nestedDepth, nestedBig, nlong = 3, 2, 4000
	}
	fam("nestedbig", func() { c15RunMC(c, pool, "nestedbig", c15Cfg("nestedbig", nestedBig), nil, 2, stats, tags) })
	fam("nested", func() { c15RunMC(c, pool, "nested", c15Cfg("nested", nestedDepth), nil, 2, stats, tags) })
	// long arrays
	fam("long", func() {
		c15RunMC(c, pool, "long", c15Cfg("given", 0), map[string]string{"given.json": c15LongHistories(c.Seed, nlong)}, 3, stats, tags)
	})
	// sort by string form over numbers of every magnitude (MC_SortForm)
	fam("sortform", func() { c15SortForm(c, pool, stats, tags) })
	fam("traces", func() { c15Traces(c, pool) })
	for _, t := range []string{"law:push", "law:pop", "law:popfirst", "law:length", "law:poppush", "law:fifo", "law:sort", "law:sortstable", "law:sortnumeric",
		"law:contains", "law:containserr", "law:get", "law:neg", "law:set", "law:nested", "law:pushabsent", "law:inc", "law:recv", "law:recvmoved", "dev:ok", "dev:wild", "dev:error",
		"sf:mixed", "sf:allnum", "sf:tie", "sf:strbelow", "sf:numstr", "sf:moved", "sf:flip"} {
		if tags[t] == 0 && only == "" {
			infra("C15: vacuity guard: nothing exercised %q (model or alphabet changed?)", t)
		}
	}
	c.Set("exhaustive", true)
	c.Set("rule", "MC_List emits every history of <= depth_ops statements over the alphabet Small and of <= breadth_ops over Big (push/pop/popfirst/length/sort/contains/"+
		"a[i]/a[i]=v/++a[i] on two arrays with calls nested in arguments to depth 3; index writes in range, appending, one and several places past the end, negative) "+
		"with result, contents and lengths after every statement; nested / nestedbig: the same on arrays that hold arrays (a = [[1], [2, 5]], b = [[3], 5, [5, 2]]) with a[i].m(args) "+
		"whose arguments pop / popfirst / read a itself (<= nested_ops over SmallN, <= nestedbig_ops over BigN); long: seeded histories of 2-4 statements on arrays of up to 45 elements "+
		"with many elements that tie under sort's order (MC_List Mode given, expectations from the spec's stable sort); each is run with the arrays in "+
		"variables, in $ and inside other containers; non-trivial = at least two statements; distinct by program. sortform: MC_SortForm emits, for each picked number x of its pool (quick: four chosen by the seed, one of every magnitude class; thorough: all 17), every array of <= sortform_len elements over {x, another number, the prefixes of x's string form, the form itself, the form + \" \", the form + \"0\", \"\", \"x\", \"1e\", null, true} with its stably sorted copy under JqValue.StrOf / StrCmp / NumCmp, then one of push / pop / popfirst / a[0] = number and the sorted copy again; run in the three placements, output compared line by line. Trace_List validates seeded random histories of 200-2000 statements (queue idiom) recorded from the real code, contents compared after every 16th statement")
	c.Set("checker_cmd", "tlc MC_List (Mode depth / breadth / nested / nestedbig / given), tlc MC_SortForm, tlc Trace_List; replay and recording through lang.EvalProgram")
	c.Set("bounds", map[string]int{"depth_ops": depth, "breadth_ops": breadth, "nested_ops": nestedDepth, "nestedbig_ops": nestedBig, "long_histories": nlong, "sortform_len": map[bool]int{false: 2, true: 3}[c.Thorough()]})
	c.Set("histories", stats)
	c.Set("exercised", tags)
}
