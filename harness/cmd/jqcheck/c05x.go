package main

import (
	"encoding/json"
	"fmt"
	"sort"
	"strings"
	"sync"
)

// C05, families "made" and "fnval" of MC_Ops.
//
// made:  COMPUTED operands.  A maker is an expression tree of the model whose value is a number produced
//        by an operator: the only way a number-tagged NaN or infinity exists (+"nan", inf - inf, 0 * inf,
//        overflow near 2^1023), and finite numbers by coercion.  Every maker x every operator x either
//        side x partners of every kind, maker x maker, the unary operators, ++ / --, `is`.  The made
//        operand reaches the operator inline, through a variable, computed from document fields, as an
//        argument, as an array element, behind marker functions.
//        The comparisons the statement leaves open (NaN in row 7 of DESIGN.md 3.4) are not compared cell
//        by cell, but 3.4 derives all six operators from ONE three-way result c of the two numeric
//        readings: the observed booleans of a class (num(L), num(R)) - whichever operator, spelling
//        (number or the string "nan") and rendering - must be explained by a single c.
// fnval: every runtime representation of a function operand (user function, the built-ins, every method
//        of every receiver kind left un-called) in every operator x either side x partners of every kind.

type c05xVec struct {
	Fam    string          `json:"fam"`
	Ctx    string          `json:"ctx"`
	Op     string          `json:"op"`
	Side   int             `json:"side"`
	Li     int             `json:"li"`
	Ri     int             `json:"ri"`
	Mk     *c05Tree        `json:"mk"`
	Mk2    *c05Tree        `json:"mk2"`
	L      *c05Val         `json:"l"`
	R      *c05Val         `json:"r"`
	Res    c05Res          `json:"res"`
	EvalR  bool            `json:"evalr"`
	Cls    json.RawMessage `json:"cls"`
	Prefix bool            `json:"prefix"`
	Stored *c05Val         `json:"stored"`
	Name   string          `json:"name"`
}

type c05xCase struct {
	c05Case
	Check string `json:"check"`         // the name of the sub-check (first replay name)
	Cls   string `json:"cls,omitempty"` // class of an open comparison
	Op    string `json:"op,omitempty"`
}

type c05xObs struct {
	Op   string `json:"op"`
	Got  bool   `json:"got"`
	Prog string `json:"program"`
	Doc  string `json:"document,omitempty"`
}

type c05x struct {
	c      *Ctx
	st     *Stream
	mu     sync.Mutex
	seen   map[string]bool
	counts map[string]int
	obs    map[string][]c05xObs
	no     int // cells seen (onVec)
	done   int // replays finished
	inconc int
}

func newC05x(c *Ctx, pool *Pool) *c05x {
	x := &c05x{c: c, seen: map[string]bool{}, counts: map[string]int{}, obs: map[string][]c05xObs{}}
	x.st = pool.NewStream(func(j *Job, r Result) {
		var cs c05xCase
		if err := json.Unmarshal([]byte(j.Tag), &cs); err != nil {
			infra("C05: tag: %v", err)
		}
		if r.Class == "timeout" || r.Class == "budget" {
			x.inconc++
			return
		}
		out := string(r.Stdout)
		ok := false
		switch {
		case cs.Err:
			ok = r.Class == "runtime" && out == cs.WantE
		case cs.AnyV: // the markers, then exactly one printed line
			rest := strings.TrimPrefix(out, cs.WantE)
			ok = r.Class == "ok" && strings.HasPrefix(out, cs.WantE) && strings.Count(rest, "\n") == 1 && strings.HasSuffix(rest, "\n")
			if ok && cs.Cls != "" {
				line := strings.TrimSuffix(rest, "\n")
				if line != "true" && line != "false" {
					ok = false
				} else {
					x.mu.Lock()
					x.obs[cs.Cls] = append(x.obs[cs.Cls], c05xObs{Op: cs.Op, Got: line == "true", Prog: cs.Prog, Doc: cs.Doc})
					x.mu.Unlock()
				}
			}
		default:
			ok = r.Class == "ok" && out == cs.Want
		}
		if !ok {
			name := cs.Check
			if r.Class != "ok" && r.Class != "runtime" {
				name = "operator-crash"
			}
			c.Violation(name, map[string]any{"case": cs.Desc, "program": cs.Prog, "document": cs.Doc, "expected_error": cs.Err, "expected_any_value": cs.AnyV,
				"expected_stdout": cs.Want, "expected_stdout_before_error": cs.WantE, "got_class": r.Class, "got_stdout": out, "got_msg": r.ErrMsg, "detail": r.Detail})
			return
		}
		c.Case(cs.Key, true)
		x.mu.Lock()
		x.done++
		n := x.done
		x.mu.Unlock()
		if n%7919 == 5 {
			c.Sample(map[string]any{"case": cs.Desc, "program": cs.Prog, "document": cs.Doc, "expected_stdout": cs.Want, "expected_runtime_error": cs.Err})
		}
	})
	return x
}

func (x *c05x) submit(check, desc, prog, doc, marks string, exp c05Out, cls, op string) {
	key := prog + "\x00" + doc
	if x.seen[key] {
		return
	}
	x.seen[key] = true
	cs := c05xCase{c05Case: c05MkCase(desc, prog, doc, marks, exp), Check: check, Cls: cls, Op: op}
	b, _ := json.Marshal(&cs)
	j := Job{Kind: "run", Prog: []byte(prog), Tag: string(b)}
	if doc != "" {
		j.Files = []FileIn{{Name: "in.json", Data: []byte(doc)}}
	}
	x.counts[check+" programs"]++
	x.st.Submit(j)
}

// ---------------------------------------------------------------------------
// rendering of one operand: the text used inside the expression, statements that run first, members of
// the input document, declarations

type c05xRef struct {
	ref    string
	pre    string
	fields []string
	decl   string
}

// c05xMade renders a maker tree for the side ("a" / "b").  how: inline | var | doc | docvar | elem
func c05xMade(t *c05Tree, side, how string) c05xRef {
	leafMode := "lit"
	if how == "doc" || how == "docvar" {
		leafMode = "doc"
	}
	var out c05xRef
	text := c05TreeText(t, func(l *c05Tree) string {
		ref, pre, f := c05Operand(*l.G, fmt.Sprint(side, l.ID), leafMode)
		out.pre += pre
		if f != "" {
			out.fields = append(out.fields, f)
		}
		return ref
	})
	if t.T != "leaf" {
		text = "(" + text + ")"
	}
	switch how {
	case "inline", "doc":
		out.ref = text
	case "var", "docvar":
		out.pre += side + " = " + text + "; "
		out.ref = side
	case "elem":
		out.pre += "x" + side + " = [10, " + text + "]; "
		out.ref = "x" + side + "[1]"
	default:
		infra("C05: made rendering %q", how)
	}
	return out
}

var c05xReceivers = map[string][2]string{ // receiver kind -> literal, JSON
	"arr": {"[1, 2]", "[1, 2]"}, "obj": {"{k: 1}", `{"k": 1}`}, "str": {`"abc"`, `"abc"`}, "num": {"1.5", "1.5"}}

// c05xFn renders a function operand.  how: lit | var | doc | idx
func c05xFn(rep, side, how string) c05xRef {
	if rep == "user" {
		return c05xRef{ref: "f", decl: c05FnDecl}
	}
	recv, meth, isMethod := strings.Cut(rep, ".")
	if !isMethod { // a built-in
		if how == "lit" || how == "idx" {
			return c05xRef{ref: "(" + rep + ")"}
		}
		return c05xRef{ref: rep}
	}
	rc, ok := c05xReceivers[recv]
	if !ok {
		infra("C05: function representation %q", rep)
	}
	name := "r" + side
	switch how {
	case "lit":
		lit := rc[0]
		if recv == "num" || recv == "obj" {
			lit = "(" + lit + ")"
		}
		return c05xRef{ref: lit + "." + meth}
	case "var":
		return c05xRef{ref: name + "." + meth, pre: name + " = " + rc[0] + "; "}
	case "doc":
		return c05xRef{ref: "$." + name + "." + meth, fields: []string{`"` + name + `": ` + rc[1]}}
	case "idx":
		return c05xRef{ref: "$." + name + `["` + meth + `"]`, fields: []string{`"` + name + `": ` + rc[1]}}
	}
	infra("C05: function rendering %q", how)
	return c05xRef{}
}

// c05xPlain renders an ordinary operand (a partner) through c05Operand.
func c05xPlain(v c05GV, side, mode string) c05xRef {
	ref, pre, f := c05Operand(v, side, mode)
	out := c05xRef{ref: ref, pre: pre, decl: c05UsesFn(v)}
	if f != "" {
		out.fields = []string{f}
	}
	return out
}

// c05xProg assembles `print <expr>` (plus statements after it) into a program; marked operands are put
// behind functions that print their tag when evaluated.
func c05xProg(refs []c05xRef, tags []string, expr func(refs []string) string, after func(refs []string) string) (prog, doc string) {
	decl, pre := "", ""
	var fields []string
	names := make([]string, len(refs))
	seenDecl := map[string]bool{}
	for i, r := range refs {
		if r.decl != "" && !seenDecl[r.decl] {
			seenDecl[r.decl] = true
			decl += r.decl
		}
		pre += r.pre
		fields = append(fields, r.fields...)
		names[i] = r.ref
	}
	if len(fields) > 0 { // document fields are read inside the rule: markers cannot carry them
		for i := range tags {
			tags[i] = ""
		}
	}
	for i, tg := range tags {
		if tg != "" {
			decl += fmt.Sprintf("function m%s() { print \"%s\"; return %s } ", strings.ToLower(tg), tg, names[i])
			names[i] = "m" + strings.ToLower(tg) + "()"
		}
	}
	body := pre + "print " + expr(names)
	if after != nil {
		body += "; " + after(names)
	}
	if len(fields) > 0 {
		return decl + "{ " + body + " }", "{" + strings.Join(fields, ", ") + "}"
	}
	return decl + "BEGIN { " + body + " }", ""
}

var c05xMadeModes = []string{"inline", "var", "doc", "docvar", "param", "elem", "mark"}
var c05xFnModes = []string{"lit", "var", "doc", "idx", "mark"}

func (x *c05x) onVec(raw []byte) {
	var v c05xVec
	VecDecode(raw, &v)
	x.counts["cells "+v.Fam]++
	exp := c05FromModel(v.Res)
	if exp.Open {
		x.counts["cells not fixed by the statement"]++
		return
	}
	var l, r c05GV
	if v.L != nil {
		l = c05Concrete(v.L)
	}
	if v.R != nil {
		r = c05Concrete(v.R)
	}
	// the Go port of the tables agrees with the specification on this cell
	switch v.Ctx {
	case "bin", "pair":
		if port := c05Bin(v.Op, l, r); !c05SameOut(port, exp) || c05EvalsRight(v.Op, l) != v.EvalR {
			infra("C05: the Go port of the operator table disagrees with the specification at %s (%s) %s %s: port %+v, spec %+v", v.Fam, c05Lit(l, "a"), v.Op, c05Lit(r, "b"), port, exp)
		}
	case "un":
		if port := c05Un(v.Op, l); !c05SameOut(port, exp) {
			infra("C05: the Go port disagrees with the specification at %s %s %s", v.Fam, v.Op, c05Lit(l, "a"))
		}
	case "is":
		if port := c05Is(l, v.Name); !c05SameOut(port, exp) {
			infra("C05: the Go port disagrees with the specification at %s is %s", c05Lit(l, "a"), v.Name)
		}
	}
	x.no++
	cell := x.no
	cls := ""
	if len(v.Cls) > 0 && string(v.Cls) != "[]" && string(v.Cls) != "null" {
		cls = string(v.Cls)
	}
	switch v.Fam {
	case "made":
		x.made(&v, l, r, exp, cls, cell)
	case "fnval":
		x.fnval(&v, l, r, exp, cell)
	default:
		infra("C05: family %q", v.Fam)
	}
}

func (x *c05x) pick(modes []string, cell int) []string {
	if x.c.Thorough() {
		return modes
	}
	return []string{modes[cell%len(modes)]}
}

func (x *c05x) made(v *c05xVec, l, r c05GV, exp c05Out, cls string, cell int) {
	const check = "made-operand-result"
	c05Concretize(v.Mk)
	if v.Mk2 != nil {
		c05Concretize(v.Mk2)
	}
	mkDesc := c05TreeDesc(v.Mk)
	for _, mode := range x.pick(c05xMadeModes, cell) {
		how := mode
		switch mode {
		case "param", "mark":
			how = "inline"
		}
		pmode := map[string]string{"inline": "lit", "var": "var", "doc": "doc", "docvar": "lit", "param": "lit", "elem": "var", "mark": "var"}[mode]
		switch v.Ctx {
		case "bin", "pair":
			var refs []c05xRef
			var desc string
			partnerOK := true // may the partner be passed as an argument / returned?
			if v.Ctx == "pair" {
				refs = []c05xRef{c05xMade(v.Mk, "a", how), c05xMade(v.Mk2, "b", how)}
				desc = fmt.Sprintf("computed operands: %s %s %s (%s)", mkDesc, v.Op, c05TreeDesc(v.Mk2), mode)
			} else {
				p, side := r, "b"
				if v.Side == 2 {
					p, side = l, "a"
				}
				partnerOK = p.Kind != "fn" && p.Kind != "unset"
				m := c05xMade(v.Mk, map[string]string{"a": "b", "b": "a"}[side], how)
				pr := c05xPlain(p, side, pmode)
				if v.Side == 1 {
					refs = []c05xRef{m, pr}
					desc = fmt.Sprintf("computed operand: %s %s %s (%s)", mkDesc, v.Op, c05Lit(p, "b"), mode)
				} else {
					refs = []c05xRef{pr, m}
					desc = fmt.Sprintf("computed operand: %s %s %s (%s)", c05Lit(p, "a"), v.Op, mkDesc, mode)
				}
			}
			tags := []string{"", ""}
			marks := ""
			expr := func(n []string) string { return n[0] + " " + v.Op + " " + n[1] }
			switch {
			case mode == "mark":
				tags = []string{"L", "R"}
				marks = "L\n"
				if v.EvalR {
					marks += "R\n"
				}
			case mode == "param" && partnerOK:
				refs = append(refs, c05xRef{decl: "function m(x, y) { return x " + v.Op + " y } "})
				tags = append(tags, "")
				expr = func(n []string) string { return "m(" + n[0] + ", " + n[1] + ")" }
			}
			prog, doc := c05xProg(refs, tags, expr, nil)
			if doc != "" {
				marks = ""
			}
			x.submit(check, desc, prog, doc, marks, exp, cls, v.Op)
		case "un":
			prog, doc := c05xProg([]c05xRef{c05xMade(v.Mk, "a", how)}, []string{""}, func(n []string) string { return v.Op + " " + n[0] }, nil)
			x.submit(check, fmt.Sprintf("computed operand: %s %s (%s)", v.Op, mkDesc, mode), prog, doc, "", exp, "", v.Op)
		case "is":
			prog, doc := c05xProg([]c05xRef{c05xMade(v.Mk, "a", how)}, []string{""}, func(n []string) string { return n[0] + " is " + v.Name }, nil)
			x.submit(check, fmt.Sprintf("computed operand: %s is %s (%s)", mkDesc, v.Name, mode), prog, doc, "", exp, "", v.Op)
		case "inc": // needs a place: a variable or an array element
			switch how {
			case "inline":
				how = "var"
			case "doc":
				how = "docvar"
			}
			stored := c05N(c05Nearest(v.Stored))
			pv, ps := c05IncDec(v.Op, v.Prefix, l)
			if !c05SameOut(pv, exp) || !c05SameOut(ps, stored) {
				infra("C05: the Go port disagrees with the specification at %s on %s", v.Op, mkDesc)
			}
			prog, doc := c05xProg([]c05xRef{c05xMade(v.Mk, "a", how)}, []string{""}, func(n []string) string {
				if v.Prefix {
					return v.Op + n[0]
				}
				return n[0] + v.Op
			}, func(n []string) string { return "print " + n[0] })
			key := prog + "\x00" + doc
			if x.seen[key] {
				continue
			}
			x.seen[key] = true
			xc := c05xCase{c05Case: c05Case{Desc: fmt.Sprintf("computed operand: %s on %s (prefix=%v, %s): value, then the stored value", v.Op, mkDesc, v.Prefix, mode),
				Prog: prog, Doc: doc, Key: key, NT: true, Want: c05Text(exp.V) + "\n" + c05Text(stored.V) + "\n"}, Check: check}
			b, _ := json.Marshal(&xc)
			j := Job{Kind: "run", Prog: []byte(prog), Tag: string(b)}
			if doc != "" {
				j.Files = []FileIn{{Name: "in.json", Data: []byte(doc)}}
			}
			x.counts[check+" programs"]++
			x.st.Submit(j)
		default:
			infra("C05: made context %q", v.Ctx)
		}
	}
}

func (x *c05x) fnval(v *c05xVec, l, r c05GV, exp c05Out, cell int) {
	const check = "fn-operand-result"
	for _, mode := range x.pick(c05xFnModes, cell) {
		how := mode
		if mode == "mark" {
			how = []string{"lit", "var"}[cell%2]
		}
		pmode := map[string]string{"lit": "lit", "var": "var", "doc": "doc", "idx": "lit", "mark": "var"}[mode]
		switch v.Ctx {
		case "bin", "pair":
			var refs []c05xRef
			tags := []string{"", ""}
			marks := ""
			var desc string
			if v.Ctx == "pair" {
				refs = []c05xRef{c05xFn(v.L.Rep, "a", how), c05xFn(v.R.Rep, "b", how)}
				desc = fmt.Sprintf("function operands: <%s> %s <%s> (%s)", v.L.Rep, v.Op, v.R.Rep, mode)
			} else if v.Side == 1 {
				refs = []c05xRef{c05xFn(v.L.Rep, "a", how), c05xPlain(r, "b", pmode)}
				desc = fmt.Sprintf("function operand: <%s> %s %s (%s)", v.L.Rep, v.Op, c05Lit(r, "b"), mode)
				if mode == "mark" { // the partner behind a marker: is it evaluated at all?
					tags[1] = "R"
					if v.EvalR {
						marks = "R\n"
					}
				}
			} else {
				refs = []c05xRef{c05xPlain(l, "a", pmode), c05xFn(v.R.Rep, "b", how)}
				desc = fmt.Sprintf("function operand: %s %s <%s> (%s)", c05Lit(l, "a"), v.Op, v.R.Rep, mode)
				if mode == "mark" {
					tags[0], marks = "L", "L\n"
				}
			}
			prog, doc := c05xProg(refs, tags, func(n []string) string { return n[0] + " " + v.Op + " " + n[1] }, nil)
			if doc != "" {
				marks = ""
			}
			x.submit(check, desc, prog, doc, marks, exp, "", v.Op)
		case "un":
			prog, doc := c05xProg([]c05xRef{c05xFn(v.L.Rep, "a", how)}, []string{""}, func(n []string) string { return v.Op + " " + n[0] }, nil)
			x.submit(check, fmt.Sprintf("function operand: %s <%s> (%s)", v.Op, v.L.Rep, mode), prog, doc, "", exp, "", v.Op)
			// the same below a second `!` and as both operands of && / ||
			if v.Op == "!" {
				prog, doc = c05xProg([]c05xRef{c05xFn(v.L.Rep, "a", how)}, []string{""}, func(n []string) string { return "! ! " + n[0] }, nil)
				x.submit(check, fmt.Sprintf("function operand: ! ! <%s> (%s)", v.L.Rep, mode), prog, doc, "", c05B(true), "", v.Op)
			}
		default:
			infra("C05: fnval context %q", v.Ctx)
		}
	}
}

// c05xCmpOf: the boolean an operator derives from the three-way result c (DESIGN.md 3.4).
func c05xCmpOf(op string, c int) bool {
	switch op {
	case "<":
		return c < 0
	case "<=":
		return c <= 0
	case ">":
		return c > 0
	case ">=":
		return c >= 0
	case "==":
		return c == 0
	}
	return c != 0
}

// finish waits for the replays and checks the classes of open comparisons: all observed booleans of one
// class (num(L), num(R)) must derive from one three-way result.
func (x *c05x) finish() {
	x.st.Wait()
	classes := make([]string, 0, len(x.obs))
	for k := range x.obs {
		classes = append(classes, k)
	}
	sort.Strings(classes)
	nobs := 0
	for _, k := range classes {
		obs := x.obs[k]
		nobs += len(obs)
		explained := false
		for _, cval := range []int{-1, 0, 1} {
			all := true
			for _, o := range obs {
				all = all && c05xCmpOf(o.Op, cval) == o.Got
			}
			explained = explained || all
		}
		if explained {
			continue
		}
		// a small witness: one observation per (operator, answer)
		sort.Slice(obs, func(a, b int) bool {
			if len(obs[a].Prog) != len(obs[b].Prog) {
				return len(obs[a].Prog) < len(obs[b].Prog)
			}
			return obs[a].Prog < obs[b].Prog
		})
		var wit []c05xObs
		have := map[string]bool{}
		for _, o := range obs {
			kk := fmt.Sprint(o.Op, o.Got)
			if !have[kk] {
				have[kk] = true
				wit = append(wit, o)
			}
		}
		x.c.Violation("nan-compare-class", map[string]any{"class (num(L), num(R))": json.RawMessage(k),
			"what":         "the six comparison operators derive from one three-way result c of the numeric readings (DESIGN.md 3.4); no c in {-1, 0, 1} explains these observed answers",
			"observations": wit})
	}
	x.c.Set("open_comparison_classes", len(classes))
	x.c.Set("open_comparison_observations", nobs)
	x.c.Set("cells_computed_and_function_operands", x.counts)
	if len(classes) == 0 && x.counts["cells made"] > 0 {
		infra("C05: no open comparison was observed")
	}
}
