package main

import (
	"bytes"
	"fmt"
	"math/rand"
	"strings"
)

// ---------------------------------------------------------------------------
// C04 / C17, family "views" (spec/MC_RenderView.tla): array values that share
// their storage but differ in length / start.  Shared by c04.go and c17.go.

type c17ViewVec struct {
	H   []c17Val `json:"h"`
	BK  string   `json:"bk"`
	Exp c17Val   `json:"exp"`
	Out []string `json:"out"`
}

type c17ViewBuilt struct {
	Prog   []byte
	Doc    []byte
	Probes []int // the lengths the probe line must show when the implementation has the values of the model
}

// c17ViewDistinct makes the atoms of the storage pairwise different (MC_RenderView relies on it: two windows
// of equal length are written alike only when they are the same window).
func c17ViewDistinct(in *c17Inst, heap []c17Val) {
	seen := map[string]bool{}
	for _, sv := range heap[1].S {
		if !sv.isAtom() {
			continue
		}
		for tries := 0; ; tries++ {
			s := in.atom(sv.Leaf)
			key := fmt.Sprintf("%c|%s|%v", s.K, s.S, s.N)
			if s.K == 'n' && s.N == 0 {
				key = "n||0" // 0 and -0 are equal as JSON numbers
			}
			if !seen[key] {
				seen[key] = true
				break
			}
			if tries > 50 {
				infra("views: cannot draw distinct atoms")
			}
			in.atoms[sv.Leaf] = in.scalarOfClass(sv.Leaf[0])
		}
	}
}

// c17BuildViews renders the program for one heap of MC_RenderView.  Container 2 (the storage) is
// created at its final length; every view is produced by the history that makes such a value: a
// reference copy of the storage array, then len-changing calls (pop at the end, popfirst at the
// start, in a seeded interleaving) through a variable that is then stored, or in place after the
// copy was stored.  The slots of the storage are filled partly before and partly after the views
// exist (through the storage's own name: element writes are shared).  The line before the tail is
// the probe `print "L", <every view>.length(), c2.length()`.
func c17BuildViews(in *c17Inst, heap []c17Val, r *rand.Rand, tail []string) c17ViewBuilt {
	atomExpr := func(v c17Val) string {
		s := in.atom(v.Leaf)
		switch s.K {
		case 't', 'f', 'z':
			if r.Intn(3) == 0 {
				return map[byte]string{'t': "true", 'f': "false", 'z': "null"}[s.K]
			}
		case 's':
			if lit, ok := c17StrLit(s.S); ok && r.Intn(3) == 0 {
				return lit
			}
		}
		return fmt.Sprintf("A[%d]", in.aIndex[v.Leaf])
	}
	keyExpr := func(ci int, name string) string {
		k := in.key(name)
		if c04SafeKey(k) && r.Intn(2) == 0 {
			return fmt.Sprintf("c%d.%s", ci, k)
		}
		if lit, ok := c17StrLit(k); ok && r.Intn(3) == 0 {
			return fmt.Sprintf("c%d[%s]", ci, lit)
		}
		return fmt.Sprintf("c%d[K[%d]]", ci, in.kIndex[name])
	}
	slotExpr := func(ci int, c c17Val, j int) string {
		if c.Kind == 'a' {
			return fmt.Sprintf("c%d[%d]", ci, j)
		}
		return keyExpr(ci, c.K[j])
	}
	referenced := map[int]bool{1: true}
	for _, c := range heap {
		for _, sv := range c.S {
			if sv.isRef() {
				referenced[sv.refID()] = true
			}
			if sv.isView() {
				id, _, _ := sv.view()
				referenced[id] = true
			}
		}
	}
	var create, early, late, views, store, probes []string
	var want []int
	nt := 0
	base := heap[1]
	L := len(base.S)
	for i, c := range heap {
		ci := i + 1
		if !referenced[ci] {
			continue
		}
		k := len(c.S)
		if c.Kind == 'a' {
			switch {
			case k == 0:
				create = append(create, fmt.Sprintf("c%d = []", ci))
			case r.Intn(2) == 0 || ci == 2: // the storage is one literal: its capacity is its length
				create = append(create, fmt.Sprintf("c%d = [%s]", ci, strings.TrimSuffix(strings.Repeat("0, ", k), ", ")))
			default:
				create = append(create, fmt.Sprintf("c%d = []", ci), fmt.Sprintf("c%d[%d] = 0", ci, k-1))
			}
		} else {
			create = append(create, fmt.Sprintf("c%d = {}", ci))
		}
		for j, sv := range c.S {
			target := slotExpr(ci, c, j)
			switch {
			case sv.isView():
				_, off, n := sv.view()
				// the calls that turn a copy of the storage's header into this window
				ops := make([]string, 0, L)
				for x := 0; x < off; x++ {
					ops = append(ops, "popfirst")
				}
				for x := 0; x < L-off-n; x++ {
					ops = append(ops, "pop")
				}
				r.Shuffle(len(ops), func(a, b int) { ops[a], ops[b] = ops[b], ops[a] })
				if r.Intn(3) == 0 { // in place, after the copy was stored
					store = append(store, target+" = c2")
					for _, op := range ops {
						store = append(store, target+"."+op+"()")
					}
				} else {
					nt++
					t := fmt.Sprintf("t%d", nt)
					views = append(views, t+" = c2")
					for _, op := range ops {
						views = append(views, t+"."+op+"()")
					}
					store = append(store, target+" = "+t)
				}
				probes = append(probes, target+".length()")
				want = append(want, n)
			case sv.isRef():
				store = append(store, fmt.Sprintf("%s = c%d", target, sv.refID()))
			default:
				st := fmt.Sprintf("%s = %s", target, atomExpr(sv))
				if ci == 2 && r.Intn(2) == 0 {
					late = append(late, st)
				} else {
					early = append(early, st)
				}
			}
		}
	}
	probes = append(probes, "c2.length()")
	want = append(want, L)
	r.Shuffle(len(early), func(a, b int) { early[a], early[b] = early[b], early[a] })
	stmts := []string{"A = $.a", "K = $.k"}
	stmts = append(stmts, create...)
	stmts = append(stmts, early...)
	stmts = append(stmts, views...)
	stmts = append(stmts, store...)
	stmts = append(stmts, late...)
	stmts = append(stmts, `print "L", `+strings.Join(probes, ", "))
	stmts = append(stmts, tail...)
	sep := "; "
	if r.Intn(3) == 0 {
		sep = "\n  "
	}
	prog := "{ " + strings.Join(stmts, sep) + " }"
	var doc bytes.Buffer
	doc.WriteString(`{"a":[`)
	for i, leaf := range in.aOrder {
		if i > 0 {
			doc.WriteByte(',')
		}
		c17WriteJSONScalar(&doc, in.atoms[leaf], r)
	}
	doc.WriteString(`],"k":[`)
	for i, name := range in.kOrder {
		if i > 0 {
			doc.WriteByte(',')
		}
		c17WriteJSONString(&doc, in.keys[name], r.Intn(3))
	}
	doc.WriteString(`]}`)
	return c17ViewBuilt{Prog: []byte(prog), Doc: doc.Bytes(), Probes: want}
}

// c17ViewProbe splits the probe line off stdout; realised says whether the lengths are the model's.
func c17ViewProbe(stdout []byte, want []int) (rest []byte, realised bool) {
	nl := bytes.IndexByte(stdout, '\n')
	if nl < 0 {
		return stdout, false
	}
	var sb strings.Builder
	sb.WriteString("L")
	for _, n := range want {
		fmt.Fprintf(&sb, " %d", n)
	}
	return stdout[nl+1:], string(stdout[:nl]) == sb.String()
}

func c17ViewCfg(thorough bool) (cfg string, bounds map[string]any) {
	slots := 2
	if thorough {
		slots = 3
	}
	return cfgText("INIT Init", "NEXT Next", "CONSTANTS", "MaxL = 3", fmt.Sprintf("MaxSlots = %d", slots), `Classes = {"a"}`, `Wrappers = {"arr", "obj"}`,
			`BaseKinds = {"atoms", "leaf"}`, "INVARIANT Laws", "INVARIANT Vec", "CHECK_DEADLOCK FALSE"),
		map[string]any{"MaxL": 3, "MaxSlots": slots}
}
