package main

import (
	"fmt"
	"sort"
	"strings"
	"time"
)

// ---------------------------------------------------------------------------
// C06, "to any depth": spec/MC_ParseDeep.tla gives, per shape (a run of one or two
// alternating operators of one level, an assignment chain, a stack of prefix operators,
// nested index brackets / call arguments, a run of call suffixes, redundant parentheses),
// the bare and the fully parenthesised text and the printed tree in closed form
//
//	text(n) = L(n) ... L(1) core R(1) ... R(n)      (pieces by parity of the index)
//
// and TLC ties the closed forms to the grammar for every n <= NMax.  Here they are
// written for a ladder of depths n (small, around powers of ten and of two, one drawn from
// the seed per shape; thorough: up to beyond the evaluator's nesting limit).  The family
// is derived from what the code under test accepts: wherever the bare form is accepted
// (tree: parsed; value: evaluated), the fully parenthesised form must be accepted too and
// give the same tree / print the same.  Where the bare form itself is refused (a limit of
// the implementation), nothing is judged.

type c06DeepVec struct {
	Kind  string      `json:"kind"`
	Ops   []string    `json:"ops"`
	NMax  int         `json:"nmax"`
	Core  []string    `json:"core"`
	BL    [2][]string `json:"bl"`
	BR    [2][]string `json:"br"`
	FL    [2][]string `json:"fl"`
	FR    [2][]string `json:"fr"`
	SCore string      `json:"score"`
	SL    [2]string   `json:"sl"`
	SR    [2]string   `json:"sr"`
	N0    int         `json:"n0"`
	Bare0 []string    `json:"bare0"`
	Full0 []string    `json:"full0"`
	Sx0   string      `json:"sx0"`
}

func (v *c06DeepVec) name() string { return v.Kind + " " + strings.TrimSpace(strings.Join(v.Ops, " ")) }

// L(n) ... L(1) core R(1) ... R(n)   (MC_ParseDeep.Asm, unrolled)
func c06DeepToks(l [2][]string, core []string, r [2][]string, n int) []string {
	out := make([]string, 0, len(core)+n*(len(l[0])+len(r[0])+1))
	for i := n; i >= 1; i-- {
		out = append(out, l[i%2]...)
	}
	out = append(out, core...)
	for i := 1; i <= n; i++ {
		out = append(out, r[i%2]...)
	}
	return out
}

func c06DeepStr(l [2]string, core string, r [2]string, n int) string {
	var sb strings.Builder
	for i := n; i >= 1; i-- {
		sb.WriteString(l[i%2])
	}
	sb.WriteString(core)
	for i := 1; i <= n; i++ {
		sb.WriteString(r[i%2])
	}
	return sb.String()
}

func c06DeepProgram(expr string) []byte {
	return []byte("function f(x) { return x + 1 }\nfunction gg() { return gg }\nBEGIN {\na = 3\nr = [1, 0]\nprint " + expr + "\nprint a\n}\n")
}

func c06DeepLadder(c *Ctx, shape int) []int {
	ns := []int{1, 2, 5, 50, 400, 998, 999, 1000, 1001, 1002, 1500, 2500}
	// one depth per shape from the seed
	h := (uint64(c.Seed)*2654435761 + uint64(shape)*40503 + 12345) % 1000003
	ns = append(ns, 3000+int(h%27000))
	if c.Thorough() {
		ns = append(ns, 4095, 4096, 4097, 9999, 10000, 10001, 32768, 65535, 65536, 65537, 100000, 140000, 30000+int(h%100000), 149000, 151000)
	}
	sort.Ints(ns)
	return ns
}

func c06Deep(c *Ctx, pool *Pool) {
	nmax := 8
	if c.Thorough() {
		nmax = 12
	}
	treeMax := 2500
	if c.Thorough() {
		treeMax = 10001
	}
	var vecs []c06DeepVec
	cfg := cfgText("INIT Init", "NEXT Next", "CONSTANTS", fmt.Sprintf("NMax = %d", nmax), "INVARIANT Laws", "INVARIANT Vec", "CHECK_DEADLOCK FALSE")
	c.TLC(TLCOpt{Module: "MC_ParseDeep", Cfg: cfg, Workers: 4, Heap: "2g", Timeout: 10 * time.Minute,
		OnVec: func(raw []byte) {
			var v c06DeepVec
			VecDecode(raw, &v)
			vecs = append(vecs, v)
		}})
	if len(vecs) == 0 {
		infra("C06: MC_ParseDeep sent no shapes")
	}
	sort.Slice(vecs, func(i, j int) bool { return vecs[i].name() < vecs[j].name() })

	type deepCase struct {
		v          *c06DeepVec
		n          int
		bare, full string
		sx         string
	}
	var cases []deepCase
	var jobs []Job
	for i := range vecs {
		v := &vecs[i]
		// the assembly below against one instance assembled by the model
		if strings.Join(c06DeepToks(v.BL, v.Core, v.BR, v.N0), " ") != strings.Join(v.Bare0, " ") ||
			strings.Join(c06DeepToks(v.FL, v.Core, v.FR, v.N0), " ") != strings.Join(v.Full0, " ") ||
			c06DeepStr(v.SL, v.SCore, v.SR, v.N0) != v.Sx0 {
			infra("C06: closed form of shape %s assembled differently from the model", v.name())
		}
		for _, n := range c06DeepLadder(c, i) {
			dc := deepCase{v: v, n: n,
				bare: c06Layout(c06DeepToks(v.BL, v.Core, v.BR, n)),
				full: c06Layout(c06DeepToks(v.FL, v.Core, v.FR, n)),
				sx:   c06DeepStr(v.SL, v.SCore, v.SR, n)}
			cases = append(cases, dc)
			sxb, sxf := Job{Kind: "sexpr", Prog: []byte(dc.bare)}, Job{Kind: "sexpr", Prog: []byte(dc.full)}
			if n > treeMax {
				// the hook prints a tree in time quadratic in its depth: trees up to treeMax, values at every depth
				sxb, sxf = Job{Kind: "sexpr", Prog: []byte(")")}, Job{Kind: "sexpr", Prog: []byte(")")}
			}
			jobs = append(jobs, sxb, sxf,
				Job{Kind: "run", Prog: c06DeepProgram(dc.bare)}, Job{Kind: "run", Prog: c06DeepProgram(dc.full)})
		}
	}
	res := make([]Result, len(jobs))
	pool.Map(jobs, func(i int, r Result) { res[i] = r })

	clip := func(s string) string {
		if len(s) > 300 {
			return s[:140] + " ... " + s[len(s)-140:]
		}
		return s
	}
	var firstInconclusive string
	var nInconclusive, nCrashed, nTree, nValue, nBareRefusedTree, nBareRefusedValue, maxTree, maxValue int
	byKind := map[string]int{}
	failed := map[string]bool{}
	for k, dc := range cases {
		sb, sf, rb, rf := res[4*k], res[4*k+1], res[4*k+2], res[4*k+3]
		name := dc.v.name()
		inconclusive := false
		for _, r := range []Result{sb, sf, rb, rf} {
			if r.Class == "timeout" || r.Class == "budget" {
				inconclusive = true
			}
		}
		if inconclusive {
			// never a verdict; reported as an infrastructure failure below unless the run has verdicts of its own
			if nInconclusive == 0 {
				firstInconclusive = fmt.Sprintf("shape %s at depth %d", name, dc.n)
			}
			nInconclusive++
			continue
		}
		rep := func(extra map[string]any) map[string]any {
			m := map[string]any{"family": "depth", "shape": dc.v.Kind, "operators": dc.v.Ops, "depth": dc.n,
				"text": clip(dc.bare), "full": clip(dc.full),
				"pieces": map[string]any{"core": dc.v.Core, "bare_left": dc.v.BL, "bare_right": dc.v.BR, "full_left": dc.v.FL, "full_right": dc.v.FR}}
			for k, v := range extra {
				m[k] = v
			}
			return m
		}
		if failed[name] {
			continue // one report per shape: the smallest depth
		}
		if sb.Class == "crash" || sf.Class == "crash" || rb.Class == "crash" || rf.Class == "crash" {
			// the worker process died (stack or memory ceiling of the harness): says nothing about the grammar
			nCrashed++
			continue
		}
		// ---- trees
		if sb.Class == "ok" {
			nTree++
			if dc.n > maxTree {
				maxTree = dc.n
			}
			if sb.Sexpr != dc.sx {
				failed[name] = true
				c.Violation("deep-tree-text", rep(map[string]any{"got_tree": clip(sb.Sexpr), "want_tree": clip(dc.sx),
					"why": "the parser's tree for the bare text is not the tree of the grammar at this depth"}))
				continue
			}
			if sf.Class != "ok" || sf.Sexpr != dc.sx {
				failed[name] = true
				c.Violation("deep-tree-full", rep(map[string]any{"got_class": sf.Class, "got_msg": sf.ErrMsg, "got_tree": clip(sf.Sexpr), "want_tree": clip(dc.sx),
					"why": "the bare text is accepted and means the tree of the grammar; its fully parenthesised form at the same depth is refused or means another tree"}))
				continue
			}
		} else if dc.n <= treeMax {
			nBareRefusedTree++
		}
		// ---- values
		if rb.Class == "ok" {
			nValue++
			if dc.n > maxValue {
				maxValue = dc.n
			}
			if ob, of := c06Observe(rb), c06Observe(rf); ob != of {
				failed[name] = true
				c.Violation("deep-value", rep(map[string]any{"got_text": c06Obs{ob.Class, clip(ob.Stdout)}, "got_full": c06Obs{of.Class, clip(of.Stdout)}, "got_full_msg": rf.ErrMsg,
					"why": "the expression evaluates; its fully parenthesised form at the same depth does not evaluate identically"}))
				continue
			}
		} else {
			nBareRefusedValue++
		}
		byKind[dc.v.Kind]++
		c.Case(fmt.Sprintf("depth:%s:%d", name, dc.n), sb.Class == "ok" && rb.Class == "ok" && dc.n > 1)
	}
	if nInconclusive > 0 {
		c.mu.Lock()
		nv := len(c.violations)
		c.mu.Unlock()
		if nv == 0 {
			infra("C06: %d inconclusive runs (timeout) in the depth family, first: %s", nInconclusive, firstInconclusive)
		}
	}
	c.Set("depth_inconclusive_runs", nInconclusive)
	c.Set("depth_shapes", len(vecs))
	c.Set("depth_cases_by_shape_kind", byKind)
	c.Set("depth_trees_compared", nTree)
	c.Set("depth_values_compared", nValue)
	c.Set("depth_bare_form_refused_not_judged", map[string]int{"tree": nBareRefusedTree, "value": nBareRefusedValue})
	c.Set("depth_trees_compared_up_to", treeMax)
	c.Set("depth_worker_died_not_judged", nCrashed)
	c.Set("depth_max_compared", map[string]int{"tree": maxTree, "value": maxValue})
	c.Set("depth_closed_forms_checked_by_tlc_up_to", nmax)
	c.Assume("depth: the closed forms of MC_ParseDeep are tied to the grammar by TLC for n <= NMax and extended by their recurrence; beyond that the expected tree is the assembled closed form; depths are a ladder, not every n; where the implementation refuses the bare form itself (evaluation nesting limit) nothing is judged")
}
