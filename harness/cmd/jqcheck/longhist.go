package main

import (
	"fmt"
	"strings"
)

// Long histories (C07 / C08 / C20): a run that executes hundreds of thousands of control-flow signals --
// next from rules and from inside functions, continue / break / return through nested blocks, conditionals,
// match arms and for-in loops -- behaves exactly like a short one: nothing accumulates (frames, nesting
// counters, buffers).  JqEval states this as FrameBalance / BaseAtRuleStart (every statement starts at the
// base depth of its activation); here it is exercised at lengths no bounded model reaches.  The expected
// output of each program is a closed form in n.
type longHist struct {
	name  string
	prog  string
	rules bool // the history is driven by the input array (n elements 0..n-1)
	want  func(n int) string
}

var longHists = []longHist{
	{"next-in-function", "function skip(x) {\n  if (x % 2 == 0) {\n    next\n  }\n  return x\n}\n{\n  s = s + skip($)\n  c++\n}\nEND {\n  print \"odd\", c\n}\n", true,
		func(n int) string { return fmt.Sprintf("odd %d\n", n/2) }},
	{"next-in-nested-blocks", "{\n  if ($ % 2 == 0) {\n    {\n      for (q in [1]) {\n        next\n      }\n    }\n  }\n  c++\n}\nEND {\n  print \"odd\", c\n}\n", true,
		func(n int) string { return fmt.Sprintf("odd %d\n", n/2) }},
	{"next-through-match-arms", "{\n  v = match ($ % 2) { 0 => match ($) { z => {\n    next\n  } }, _ => 1 }\n  c = c + v\n}\nEND {\n  print \"odd\", c\n}\n", true,
		func(n int) string { return fmt.Sprintf("odd %d\n", n/2) }},
	{"next-in-expression-operand", "function skip(x) {\n  if (x % 2 == 0) {\n    next\n  }\n  return 1\n}\n{\n  c = c + (0 + (skip($) * 1))\n}\nEND {\n  print \"odd\", c\n}\n", true,
		func(n int) string { return fmt.Sprintf("odd %d\n", n/2) }},
	{"continue-through-blocks", "BEGIN {\n  for (i = 0; i < @N@; i++) {\n    {\n      if (i % 2 == 0) {\n        {\n          continue\n        }\n      }\n    }\n    c++\n  }\n  print \"odd\", c\n}\n", false,
		func(n int) string { return fmt.Sprintf("odd %d\n", n/2) }},
	{"break-through-blocks", "BEGIN {\n  for (i = 0; i < @N@; i++) {\n    while (1) {\n      {\n        if (1) {\n          break\n        }\n      }\n    }\n    c++\n  }\n  print \"all\", c\n}\n", false,
		func(n int) string { return fmt.Sprintf("all %d\n", n) }},
	{"return-through-blocks", "function r(x) {\n  if (x >= 0) {\n    {\n      for (q in [1, 2]) {\n        return x\n      }\n    }\n  }\n}\nBEGIN {\n  for (i = 0; i < @N@; i++) {\n    c = c + (r(1) + 0)\n  }\n  print \"all\", c\n}\n", false,
		func(n int) string { return fmt.Sprintf("all %d\n", n) }},
	{"return-through-match-arms", "function m(x) {\n  match (x) { z => {\n    t = match (z) { y => {\n      return 1\n    } }\n  } }\n}\nBEGIN {\n  for (i = 0; i < @N@; i++) {\n    c = c + m(i)\n  }\n  print \"all\", c\n}\n", false,
		func(n int) string { return fmt.Sprintf("all %d\n", n) }},
	{"continue-break-in-match-arms", "BEGIN {\n  for (i = 0; i < @N@; i++) {\n    v = match (i % 2) { 0 => {\n      continue\n    }, _ => 1 }\n    for (q in [1, 2, 3]) {\n      w = match (q) { 2 => {\n        break\n      }, _ => q }\n    }\n    c = c + v\n  }\n  print \"odd\", c\n}\n", false,
		func(n int) string { return fmt.Sprintf("odd %d\n", n/2) }},
	{"completed-calls-and-matches", "function w(x) {\n  return x\n}\nBEGIN {\n  for (i = 0; i < @N@; i++) {\n    c = c + w(match (1) { z => z })\n  }\n  print \"all\", c\n}\n", false,
		func(n int) string { return fmt.Sprintf("all %d\n", n) }},
}

// checkLongHistories runs every program at two lengths; after the history a recursion of depth 1000 must
// still work (it shares the limits with whatever the history may have left behind).
func checkLongHistories(c *Ctx, lengths []int) {
	pool := NewPool(8, 0)
	pool.Timeout = 300e9
	defer pool.Close()
	var jobs []Job
	var want []string
	var meta []string
	tail := "function deep(k) {\n  if (k > 0) {\n    return deep(k - 1)\n  }\n  return \"bottom\"\n}\nEND {\n  print deep(1000)\n}\n"
	for _, h := range longHists {
		for _, n := range lengths {
			prog := strings.ReplaceAll(h.prog, "@N@", fmt.Sprint(n)) + tail
			var files []FileIn
			if h.rules {
				var sb strings.Builder
				sb.WriteString("[")
				for i := 0; i < n; i++ {
					if i > 0 {
						sb.WriteString(",")
					}
					fmt.Fprint(&sb, i)
				}
				sb.WriteString("]")
				files = []FileIn{{Name: "in.json", Data: []byte(sb.String())}}
			} else {
				files = []FileIn{{Name: "in.json", Data: []byte("[]")}}
			}
			jobs = append(jobs, Job{Kind: "run", Prog: []byte(prog), Files: files, Budget: 200_000_000})
			want = append(want, h.want(n)+"bottom\n")
			meta = append(meta, fmt.Sprintf("%s n=%d", h.name, n))
		}
	}
	pool.Map(jobs, func(i int, r Result) {
		if r.Class == "budget" || r.Class == "timeout" {
			c.Count("inconclusive", 1)
			return
		}
		if r.Class != "ok" || string(r.Stdout) != want[i] {
			c.Violation("long-history", map[string]any{"case": meta[i], "program": string(jobs[i].Prog), "expected_stdout": want[i], "got_class": r.Class, "got_err": r.ErrMsg,
				"got_stdout": firstN(string(r.Stdout), 300), "detail": firstN(r.Detail, 800),
				"why": "the number of signals, calls and matches executed so far must not change later behaviour: a long run behaves like a short one"})
			return
		}
		c.Case("longhist:"+meta[i], true)
	})
}
