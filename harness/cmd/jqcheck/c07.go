package main

import (
	"bytes"
	"fmt"
	"math/rand"
	"strconv"
	"strings"
)

func init() { register("C07", checkC07) }

type evalVec struct {
	Tree    Node   `json:"tree"`
	N       int    `json:"n"`
	Conds   []bool `json:"conds"`
	Out     []any  `json:"out"`
	Outcome string `json:"outcome"`
}

func evalCfg(maxNodes int, fiv string, fuel int, extra ...string) string {
	lines := []string{"INIT Init", "NEXT Next", "CONSTANTS",
		fmt.Sprintf("MaxNodes = %d", maxNodes), fmt.Sprintf("ForInVariants = \"%s\"", fiv),
		"CallLimit = 50", fmt.Sprintf("Fuel = %d", fuel), "NextOutsidePattern = {\"ends-rule\"}",
		"INVARIANTS TypeOK FrameBalance BaseAtRuleStart DepthBounded NoEscape OutcomeLegal SigConsumed Vec",
		"PROPERTIES StopFreezesOutput DoneIsFinal RefinesFrames"}
	return cfgText(append(lines, extra...)...)
}

// C07: control flow executes statements in exactly the documented order.
//
// Binding A: MC_EvalCtl (JqEval machine) enumerates every statement tree up to
// MaxNodes nodes x every sequence of condition outcomes; TLC checks the
// machine's invariants in every state; each terminated behaviour is rendered
// to a program whose conditions are c("<path>") calls reading the behaviour's
// outcome sequence from data, and whose statements print their path; stdout
// must equal the model's label trace.  Every tree is rendered twice: with
// braces everywhere and with the fewest braces the grammar allows (the
// dangling-else rule is then the parser's business).
func checkC07(c *Ctx) {
	c.Assume("the order in which an object's keys are visited is not fixed by the statement: required are every key exactly once, the same order at every activation of the same loop and on repeated runs")
	c.Assume("statements are single-label prints, conditions are oracle calls c(path) returning data-driven booleans; expression semantics are C05's")
	c.Assume("loop fuel: at most Fuel TRUE condition outcomes per behaviour (then conditions are false)")
	pool := c.Pool()
	maxNodes, fiv, fuel := 4, "few", 2
	if c.Thorough() {
		maxNodes, fiv, fuel = 5, "lean", 3
	}
	rng := rand.New(rand.NewSource(c.Seed))
	_ = rng
	nsample := 0
	objOrderFail := 0
	st := pool.NewStream(func(j *Job, r Result) {
		var v evalVec
		VecDecode([]byte(j.Tag), &v)
		prog := Node{"fns": []any{}, "n": float64(v.N), "rules": []any{
			map[string]any{"kind": "P", "body": map[string]any(v.Tree)},
			map[string]any{"kind": "P", "body": map[string]any{"k": "print"}},
			map[string]any{"kind": "E", "body": map[string]any{"k": "print"}}}}
		exp := expectedLines(v.Out, collectProgForIns(prog))
		rep := func(why string, res Result) map[string]any {
			return map[string]any{"program": string(j.Hist[0].Prog), "input": string(j.Hist[0].Files[0].Data), "tree": v.Tree, "conds": v.Conds,
				"expected_out": v.Out, "expected_outcome": v.Outcome, "got_class": res.Class, "got_stdout": string(res.Stdout), "got_err": res.ErrMsg, "why": why, "detail": res.Detail}
		}
		if r.Class != "ok" || len(r.Hist) < 2 {
			c.Violation("ctl-harness", map[string]any{"result": r})
			return
		}
		hasObj := false
		for _, e := range exp {
			hasObj = hasObj || (e.ObjIt && e.ObjLen > 1)
		}
		for k, res := range r.Hist {
			if res.Class == "budget" || res.Class == "timeout" {
				c.Count("inconclusive", 1)
				return
			}
			wantClass := v.Outcome
			if res.Class != wantClass {
				c.Violation("ctl-outcome", rep(fmt.Sprintf("rendering %d: outcome class differs", k), res))
				return
			}
			if why := compareEvalOutput(res.Stdout, exp); why != "" {
				if strings.Contains(why, "different order") && c.OpenDev("object-order-random") {
					objOrderFail++
					c.Known("object-order-random", "for-in over an object with 2 keys visits them in Go's random map order (witness: for (k, v in {k0: 'v0', k1: 'v1'}) run twice)")
					continue
				}
				c.Violation("ctl-order", rep(fmt.Sprintf("rendering %d: %s", k, why), res))
				return
			}
		}
		// determinism of object iteration across repeated runs (same rendering twice: Hist[0] and Hist[2])
		if hasObj && len(r.Hist) >= 3 && !bytes.Equal(r.Hist[0].Stdout, r.Hist[2].Stdout) {
			if c.OpenDev("object-order-random") {
				c.Known("object-order-random", "for-in over an object with 2 keys visits them in Go's random map order (witness: for (k, v in {k0: 'v0', k1: 'v1'}) run twice)")
			} else {
				c.Violation("ctl-obj-determinism", rep("two runs of the same program iterate an object in different orders", r.Hist[2]))
				return
			}
		}
		c.Case(j.Tag, len(v.Conds) > 0 || len(v.Out) > 4)
		nsample++
		if nsample%20000 == 7 {
			c.Sample(map[string]any{"program": string(j.Hist[0].Prog), "conds": v.Conds, "expected_stdout_lines": len(exp), "outcome": v.Outcome})
		}
	})
	onVec := func(raw []byte) {
		var v evalVec
		VecDecode(raw, &v)
		prog := Node{"fns": []any{}, "n": float64(v.N), "rules": []any{
			map[string]any{"kind": "P", "body": map[string]any(v.Tree)},
			map[string]any{"kind": "P", "body": map[string]any{"k": "print"}},
			map[string]any{"kind": "E", "body": map[string]any{"k": "print"}}}}
		r1 := newEvalRenderer()
		p1 := r1.renderEvalProgram(prog, v.Conds)
		r2 := newEvalRenderer()
		r2.braceMin = true
		p2 := r2.renderEvalProgram(prog, v.Conds)
		mk := func(p evalProgram) Job {
			return Job{Kind: "run", Prog: []byte(p.Text), Files: []FileIn{{Name: "in.json", Data: []byte(p.Input)}}, Budget: 200000}
		}
		st.Submit(Job{Kind: "history", Hist: []Job{mk(p1), mk(p2), mk(p1)}, Tag: string(raw)})
	}
	res := c.TLC(TLCOpt{Module: "MC_EvalCtl", Cfg: evalCfg(maxNodes, fiv, fuel), Heap: "12g", OnVec: onVec})
	if c.Thorough() {
		// the deeper trees run with the lean set of for-in variants; every variant runs with the quick bounds
		c.TLC(TLCOpt{Module: "MC_EvalCtl", Cfg: evalCfg(4, "few", 2), Heap: "12g", OnVec: onVec})
	}
	st.Wait()
	checkC07Traces(c)
	checkC07LongLoops(c)
	checkC07TreeWalk(c)
	checkC07DanglingElse(c)
	if c.Thorough() {
		checkLongHistories(c, []int{1000, 400000})
	} else {
		checkLongHistories(c, []int{320000})
	}
	ncore := 150
	if c.Thorough() {
		ncore = 2500
	}
	checkCore(c, ncore, 7)
	c.Set("exhaustive", true)
	c.Set("bounds", map[string]any{"MaxNodes": maxNodes, "ForInVariants": fiv, "Fuel": fuel, "tlc_depth": res.Depth})
	c.Set("rule", "every statement tree with <= MaxNodes nodes (if/if-else/block/while/for/for-in over array,object,string/call + print,break,continue,return,next,exit leaves where the parser accepts them) x every condition-outcome sequence with <= Fuel TRUE outcomes; each terminated behaviour replayed in two renderings (all braces / minimal braces) and compared line by line; non-trivial = at least one condition evaluated or more than the three rule headers printed")
	c.Set("checker_cmd", "tlc MC_EvalCtl (JqEval machine; invariants TypeOK FrameBalance BaseAtRuleStart DepthBounded NoEscape OutcomeLegal SigConsumed; action properties StopFreezesOutput DoneIsFinal); replay via lang.EvalProgram")
}

// Long loops driven by data: a loop runs exactly as many times as its condition is true, also tens of
// thousands of times (the machine's LoopTest / ForPost cycle has no counter of its own).
func checkC07LongLoops(c *Ctx) {
	pool := c.Pool()
	var jobs []Job
	var want []string
	for _, n := range []int{9999, 10001, 10002, 10003, 25000, 70000} {
		for _, form := range []string{
			"BEGIN { k = 0 }\n{ for (i = 0; i < $.n; i++) { k++ }\n  print \"done\", k }\nEND { print \"end\" }\n",
			"{ k = $.n\n  while (k > 0) { k-- }\n  print \"done\", $.n - k }\nEND { print \"end\" }\n",
			"function run(m) { t = 0\n  for (i = 0; i < m; i++) { if (i % 2) { continue }\n    t++ }\n  return t * 2 - m % 2 }\n{ for (z in [1]) { print \"done\", run($.n) } }\nEND { print \"end\" }\n",
			"{ k = 0\n  for (i = 0; i < 300; i++) { for (j = 0; j < 100; j++) { k++ } }\n  w = 0\n  while (w < $.n) { w++ }\n  print \"done\", w + k - 30000 }\nEND { print \"end\" }\n"} {
			jobs = append(jobs, Job{Kind: "run", Prog: []byte(form), Files: []FileIn{{Name: "in.json", Data: []byte(fmt.Sprintf("[{\"n\": %d}]", n))}}, Budget: 5_000_000})
			want = append(want, fmt.Sprintf("done %d\nend\n", n))
		}
	}
	pool.Map(jobs, func(i int, r Result) {
		if r.Class == "budget" || r.Class == "timeout" {
			c.Count("inconclusive", 1)
			return
		}
		if r.Class != "ok" || string(r.Stdout) != want[i] {
			c.Violation("long-loop", map[string]any{"program": string(jobs[i].Prog), "input": string(jobs[i].Files[0].Data), "expected_stdout": want[i],
				"got_class": r.Class, "got_err": r.ErrMsg, "got_stdout": firstN(string(r.Stdout), 300), "why": "a loop must run as many times as its condition holds, however many that is"})
			return
		}
		c.Case("longloop:"+string(jobs[i].Prog)+string(jobs[i].Files[0].Data), true)
	})
}

// Recursive walks over nested documents: the same for-in statement is re-entered by recursion while outer
// activations are still iterating.  Every object member and array element is visited exactly once, array
// elements and string characters in order, each subtree completely before the next sibling; the order of
// object keys is only required to be deterministic (two runs agree).  The output is matched against the
// document by a recursive-descent matcher (no order of keys is assumed).
type walkNode struct {
	kind string // obj arr str num bool null
	keys []string
	kids []*walkNode
	s    string
	n    int
	b    bool
}

func genWalkTree(r *rand.Rand, depth int) *walkNode {
	k := r.Intn(10)
	if depth <= 0 && k < 6 {
		k = 6 + r.Intn(4)
	}
	switch {
	case k < 4:
		pool := []string{"a", "b", "c", "p", "q", "r", "x", "10", "9", "k2", "Zz"}
		r.Shuffle(len(pool), func(i, j int) { pool[i], pool[j] = pool[j], pool[i] })
		n := 1 + r.Intn(5)
		nd := &walkNode{kind: "obj"}
		for i := 0; i < n; i++ {
			nd.keys = append(nd.keys, pool[i])
			nd.kids = append(nd.kids, genWalkTree(r, depth-1))
		}
		return nd
	case k < 6:
		nd := &walkNode{kind: "arr"}
		for i := r.Intn(4); i > 0; i-- {
			nd.kids = append(nd.kids, genWalkTree(r, depth-1))
		}
		return nd
	case k == 6:
		// (also multi-byte characters and U+FFFD, which a decoder also produces for an unpaired surrogate escape)
		return &walkNode{kind: "str", s: []string{"", "a", "xy", "q r", "h\u00e9", "\ufffdz", "a\ufffd", "\u65e5\u672c", "x\U0001F600y"}[r.Intn(9)]}
	case k == 7:
		return &walkNode{kind: "bool", b: r.Intn(2) == 0}
	case k == 8:
		return &walkNode{kind: "null"}
	}
	return &walkNode{kind: "num", n: r.Intn(50)}
}

func (w *walkNode) json() string {
	switch w.kind {
	case "obj":
		parts := []string{}
		for i, k := range w.keys {
			parts = append(parts, strconv.Quote(k)+":"+w.kids[i].json())
		}
		return "{" + strings.Join(parts, ",") + "}"
	case "arr":
		parts := []string{}
		for _, k := range w.kids {
			parts = append(parts, k.json())
		}
		return "[" + strings.Join(parts, ",") + "]"
	case "str":
		return strconv.Quote(w.s)
	case "bool":
		return strconv.FormatBool(w.b)
	case "null":
		return "null"
	}
	return strconv.Itoa(w.n)
}

// matchWalk consumes the lines the walk of w at depth d must print; returns the rest or an explanation.
func matchWalk(w *walkNode, d int, lines []string) ([]string, string) {
	switch w.kind {
	case "obj":
		left := map[string]*walkNode{}
		for i, k := range w.keys {
			left[k] = w.kids[i]
		}
		for len(left) > 0 {
			if len(lines) == 0 {
				return nil, fmt.Sprintf("output ends while %d member(s) of an object at depth %d are unvisited", len(left), d)
			}
			f := strings.SplitN(lines[0], " ", 3)
			if len(f) != 3 || f[0] != "k" || f[1] != strconv.Itoa(d) {
				return nil, fmt.Sprintf("expected a member line of depth %d, got %q", d, lines[0])
			}
			kid, ok := left[f[2]]
			if !ok {
				return nil, fmt.Sprintf("line %q: not an unvisited key of the object being iterated at depth %d", lines[0], d)
			}
			delete(left, f[2])
			var why string
			lines, why = matchWalk(kid, d+1, lines[1:])
			if why != "" {
				return nil, why
			}
		}
		return lines, ""
	case "arr":
		for i, kid := range w.kids {
			want := fmt.Sprintf("i %d %d", d, i)
			if len(lines) == 0 || lines[0] != want {
				return nil, fmt.Sprintf("expected %q, got %q", want, firstLineOr(lines))
			}
			var why string
			lines, why = matchWalk(kid, d+1, lines[1:])
			if why != "" {
				return nil, why
			}
		}
		return lines, ""
	case "str":
		for i, ch := range w.s { // characters with their byte offsets
			want := fmt.Sprintf("c %d %s %d", d, string(ch), i)
			if len(lines) == 0 || lines[0] != want {
				return nil, fmt.Sprintf("expected %q, got %q", want, firstLineOr(lines))
			}
			lines = lines[1:]
		}
		return lines, ""
	}
	want := fmt.Sprintf("leaf %d %s", d, w.json())
	if len(lines) == 0 || lines[0] != want {
		return nil, fmt.Sprintf("expected %q, got %q", want, firstLineOr(lines))
	}
	return lines[1:], ""
}

func firstLineOr(l []string) string {
	if len(l) == 0 {
		return "<end of output>"
	}
	return l[0]
}

var c07WalkPrograms = []string{
	"function walk(t, d) {\n  if (t is object) {\n    for (k, v in t) {\n      print \"k\", d, k\n      walk(v, d + 1)\n    }\n    return\n  }\n  if (t is array) {\n    for (v, i in t) {\n      print \"i\", d, i\n      walk(v, d + 1)\n    }\n    return\n  }\n  if (t is string) {\n    for (ch, off in t) {\n      print \"c\", d, ch, off\n    }\n    return\n  }\n  print \"leaf\", d, t\n}\n{\n  walk($, 0)\n}\n",
	// keys only, the member looked up afterwards (loop variables are not read after the recursive call: an inner
	// activation finds and re-uses the variables of the outer one)
	"function walk(t, d) {\n  if (t is object) {\n    for (k in t) {\n      print \"k\", d, k\n      walk(t[k], d + 1)\n    }\n  } else if (t is array) {\n    for (v, i in t) {\n      print \"i\", d, i\n      walk(t[i], d + 1)\n    }\n  } else if (t is string) {\n    for (ch, off in t) {\n      print \"c\", d, ch, off\n    }\n  } else {\n    print \"leaf\", d, t\n  }\n}\n{\n  walk($, 0)\n}\n",
	// mutual recursion through a match arm
	"function walk(t, d) {\n  return match (t is object) { true => members(t, d), _ => other(t, d) }\n}\nfunction members(t, d) {\n  for (k, v in t) {\n    print \"k\", d, k\n    walk(v, d + 1)\n  }\n}\nfunction other(t, d) {\n  if (t is array) {\n    for (v, i in t) {\n      print \"i\", d, i\n      walk(v, d + 1)\n    }\n    return\n  }\n  if (t is string) {\n    for (ch, off in t) {\n      print \"c\", d, ch, off\n    }\n    return\n  }\n  print \"leaf\", d, t\n}\n{\n  walk($, 0)\n}\n",
}

func checkC07TreeWalk(c *Ctx) {
	pool := c.Pool()
	rng := rand.New(rand.NewSource(c.Seed*7919 + 17))
	ntrees := 60
	if c.Thorough() {
		ntrees = 1500
	}
	var jobs []Job
	var trees []*walkNode
	for i := 0; i < ntrees; i++ {
		t := genWalkTree(rng, 4)
		if i == 0 {
			// the smallest document on which a key buffer shared between activations of one for-in shows
			t = &walkNode{kind: "obj", keys: []string{"a", "b", "c"}, kids: []*walkNode{
				{kind: "obj", keys: []string{"x"}, kids: []*walkNode{{kind: "num", n: 1}}},
				{kind: "obj", keys: []string{"p", "q", "r"}, kids: []*walkNode{{kind: "num", n: 1}, {kind: "num", n: 2}, {kind: "num", n: 3}}},
				{kind: "num", n: 5}}}
		}
		for _, p := range c07WalkPrograms {
			jobs = append(jobs, Job{Kind: "run", Prog: []byte(p), Files: []FileIn{{Name: "in.json", Data: []byte("[" + t.json() + "]")}}, Budget: 2_000_000})
			trees = append(trees, t)
		}
	}
	first := make([]string, len(jobs))
	for round := 0; round < 2; round++ {
		pool.Map(jobs, func(i int, r Result) {
			if r.Class == "budget" || r.Class == "timeout" {
				c.Count("inconclusive", 1)
				return
			}
			rep := func(why string) map[string]any {
				return map[string]any{"program": string(jobs[i].Prog), "input": string(jobs[i].Files[0].Data), "got_class": r.Class, "got_err": r.ErrMsg, "got_stdout": firstN(string(r.Stdout), 1500), "why": why, "detail": firstN(r.Detail, 800)}
			}
			if r.Class != "ok" {
				c.Violation("tree-walk-"+r.Class, rep("a recursive walk over a document must complete"))
				return
			}
			if round == 1 {
				if first[i] != "" && first[i] != string(r.Stdout) {
					c.Violation("tree-walk-order", rep("two runs of the same walk over the same document visit object keys in different orders"))
				}
				return
			}
			first[i] = string(r.Stdout)
			lines := []string{}
			if len(r.Stdout) > 0 {
				lines = strings.Split(strings.TrimSuffix(string(r.Stdout), "\n"), "\n")
			}
			rest, why := matchWalk(trees[i], 0, lines)
			if why == "" && len(rest) > 0 {
				why = fmt.Sprintf("%d line(s) after the complete walk, first %q", len(rest), rest[0])
			}
			if why != "" {
				c.Violation("tree-walk", rep(why))
				return
			}
			c.Case("walk:"+string(jobs[i].Files[0].Data)+string(jobs[i].Prog[:40]), len(lines) > 3)
		})
	}
}

// Dangling else in every layout: nests of brace-less ifs with one else, the inner body ended by a newline, by
// ";" or by nothing before "else".  A layout may be refused (syntax error); if it is accepted, the else
// belongs to the nearest if that has none.  Conditions come from the input, so every branch is taken.
func checkC07DanglingElse(c *Ctx) {
	pool := c.Pool()
	bodies := []string{`r = "then"`, `n++`, `print "then"`, `x = [1]`, `continue`, `break`, `next`, `return 1`, `{ r = "then" }`, `r = match (1) { _ => "then" }`}
	seps := []string{"\n", "; ", ";\n", " "}
	type one struct {
		prog  string
		depth int
		kind  string
	}
	var progs []one
	for depth := 2; depth <= 3; depth++ {
		for _, b := range bodies {
			for _, sep := range seps {
				conds := ""
				for d := 0; d < depth; d++ {
					conds += fmt.Sprintf("if ($.c[%d]) ", d)
				}
				stmt := conds + b + sep + "else r = \"else\""
				var prog string
				switch b {
				case "continue", "break":
					prog = "{\n  r = \"none\"\n  for (q in [1]) {\n    " + stmt + "\n    r = r + \"+after\"\n  }\n  print r\n}\n"
				case "next":
					prog = "{\n  r = \"none\"\n  print \"start\"\n  " + stmt + "\n  print r\n}\n"
				case "return 1":
					prog = "function f(v) {\n  r = \"none\"\n  " + strings.ReplaceAll(stmt, "$.c", "v") + "\n  return r\n}\n{\n  print f($.c)\n}\n"
				default:
					prog = "{\n  r = \"none\"\n  n = 0\n  " + stmt + "\n  print r, n\n}\n"
				}
				progs = append(progs, one{prog, depth, b})
			}
		}
	}
	// every assignment of truth values to the conditions
	var jobs []Job
	var idx []int
	inputs := map[int]string{}
	for depth := 2; depth <= 3; depth++ {
		var docs []string
		for m := 0; m < 1<<depth; m++ {
			vals := []string{}
			for d := 0; d < depth; d++ {
				vals = append(vals, fmt.Sprint((m>>d)&1))
			}
			docs = append(docs, "{\"c\":["+strings.Join(vals, ",")+"]}")
		}
		inputs[depth] = "[" + strings.Join(docs, ",") + "]"
	}
	for i, p := range progs {
		jobs = append(jobs, Job{Kind: "run", Prog: []byte(p.prog), Files: []FileIn{{Name: "in.json", Data: []byte(inputs[p.depth])}}, Budget: 100000})
		idx = append(idx, i)
	}
	refused := 0
	pool.Map(jobs, func(j int, r Result) {
		p := progs[idx[j]]
		if r.Class == "syntax" {
			refused++
			c.Case("delse-refused:"+p.prog, false)
			return
		}
		if r.Class == "budget" || r.Class == "timeout" {
			c.Count("inconclusive", 1)
			return
		}
		// the reading the statement prescribes: the else belongs to the innermost if
		var want strings.Builder
		for m := 0; m < 1<<p.depth; m++ {
			outer := true
			for d := 0; d < p.depth-1; d++ {
				outer = outer && (m>>d)&1 == 1
			}
			inner := (m>>(p.depth-1))&1 == 1
			res, n, extra := "none", 0, ""
			taken := outer && inner
			if outer && !inner {
				res = "else"
			}
			switch p.kind {
			case `r = "then"`, `{ r = "then" }`, `r = match (1) { _ => "then" }`:
				if taken {
					res = "then"
				}
				want.WriteString(fmt.Sprintf("%s %d\n", res, n))
			case "n++":
				if taken {
					n = 1
				}
				want.WriteString(fmt.Sprintf("%s %d\n", res, n))
			case `print "then"`:
				if taken {
					want.WriteString("then\n")
				}
				want.WriteString(fmt.Sprintf("%s %d\n", res, n))
			case `x = [1]`:
				want.WriteString(fmt.Sprintf("%s %d\n", res, n))
			case "continue", "break":
				if !taken {
					extra = "+after"
				}
				want.WriteString(res + extra + "\n")
			case "next":
				want.WriteString("start\n")
				if !taken {
					want.WriteString(res + "\n")
				}
			case "return 1":
				if taken {
					want.WriteString("1\n")
				} else {
					want.WriteString(res + "\n")
				}
			}
		}
		if r.Class != "ok" || string(r.Stdout) != want.String() {
			c.Violation("dangling-else", map[string]any{"program": p.prog, "input": inputs[p.depth], "expected_stdout": want.String(), "got_class": r.Class, "got_err": r.ErrMsg, "got_stdout": string(r.Stdout),
				"why": "an else binds to the nearest if that has none, in every layout the parser accepts"})
			return
		}
		c.Case("delse:"+p.prog, true)
	})
	c.Set("dangling_else_layouts_refused_as_syntax_errors", refused)
}
