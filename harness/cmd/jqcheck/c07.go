package main

import (
	"bytes"
	"fmt"
	"math/rand"
	"strings"
)

func init() { register("C07", checkC07) }

type evalVec struct {
	Tree    Node   `json:"tree"`
	N       int    `json:"n"`
	Conds   []bool `json:"conds"`
	Out     []any  `json:"out"`
	Outcome string `json:"outcome"`
}

func evalCfg(maxNodes int, fiv string, fuel int, extra ...string) string {
	lines := []string{"INIT Init", "NEXT Next", "CONSTANTS",
		fmt.Sprintf("MaxNodes = %d", maxNodes), fmt.Sprintf("ForInVariants = \"%s\"", fiv),
		"CallLimit = 50", fmt.Sprintf("Fuel = %d", fuel), "NextOutsidePattern = {\"ends-rule\"}",
		"INVARIANTS TypeOK FrameBalance BaseAtRuleStart DepthBounded NoEscape OutcomeLegal SigConsumed Vec",
		"PROPERTIES StopFreezesOutput DoneIsFinal RefinesFrames"}
	return cfgText(append(lines, extra...)...)
}

// C07: control flow executes statements in exactly the documented order.
//
// Binding A: MC_EvalCtl (JqEval machine) enumerates every statement tree up to
// MaxNodes nodes x every sequence of condition outcomes; TLC checks the
// machine's invariants in every state; each terminated behaviour is rendered
// to a program whose conditions are c("<path>") calls reading the behaviour's
// outcome sequence from data, and whose statements print their path; stdout
// must equal the model's label trace.  Every tree is rendered twice: with
// braces everywhere and with the fewest braces the grammar allows (the
// dangling-else rule is then the parser's business).
func checkC07(c *Ctx) {
	c.Assume("the order in which an object's keys are visited is not fixed by the statement: required are every key exactly once, the same order at every activation of the same loop and on repeated runs")
	c.Assume("statements are single-label prints, conditions are oracle calls c(path) returning data-driven booleans; expression semantics are C05's")
	c.Assume("loop fuel: at most Fuel TRUE condition outcomes per behaviour (then conditions are false)")
	pool := c.Pool()
	maxNodes, fiv, fuel := 4, "few", 2
	if c.Thorough() {
		maxNodes, fiv, fuel = 5, "few", 3
	}
	rng := rand.New(rand.NewSource(c.Seed))
	_ = rng
	nsample := 0
	objOrderFail := 0
	st := pool.NewStream(func(j *Job, r Result) {
		var v evalVec
		VecDecode([]byte(j.Tag), &v)
		prog := Node{"fns": []any{}, "n": float64(v.N), "rules": []any{
			map[string]any{"kind": "P", "body": map[string]any(v.Tree)},
			map[string]any{"kind": "P", "body": map[string]any{"k": "print"}},
			map[string]any{"kind": "E", "body": map[string]any{"k": "print"}}}}
		exp := expectedLines(v.Out, collectProgForIns(prog))
		rep := func(why string, res Result) map[string]any {
			return map[string]any{"program": string(j.Hist[0].Prog), "input": string(j.Hist[0].Files[0].Data), "tree": v.Tree, "conds": v.Conds,
				"expected_out": v.Out, "expected_outcome": v.Outcome, "got_class": res.Class, "got_stdout": string(res.Stdout), "got_err": res.ErrMsg, "why": why, "detail": res.Detail}
		}
		if r.Class != "ok" || len(r.Hist) < 2 {
			c.Violation("ctl-harness", map[string]any{"result": r})
			return
		}
		hasObj := false
		for _, e := range exp {
			hasObj = hasObj || (e.ObjIt && e.ObjLen > 1)
		}
		for k, res := range r.Hist {
			if res.Class == "budget" || res.Class == "timeout" {
				c.Count("inconclusive", 1)
				return
			}
			wantClass := v.Outcome
			if res.Class != wantClass {
				c.Violation("ctl-outcome", rep(fmt.Sprintf("rendering %d: outcome class differs", k), res))
				return
			}
			if why := compareEvalOutput(res.Stdout, exp); why != "" {
				if strings.Contains(why, "different order") && c.OpenDev("object-order-random") {
					objOrderFail++
					c.Known("object-order-random", "for-in over an object with 2 keys visits them in Go's random map order (witness: for (k, v in {k0: 'v0', k1: 'v1'}) run twice)")
					continue
				}
				c.Violation("ctl-order", rep(fmt.Sprintf("rendering %d: %s", k, why), res))
				return
			}
		}
		// determinism of object iteration across repeated runs (same rendering twice: Hist[0] and Hist[2])
		if hasObj && len(r.Hist) >= 3 && !bytes.Equal(r.Hist[0].Stdout, r.Hist[2].Stdout) {
			if c.OpenDev("object-order-random") {
				c.Known("object-order-random", "for-in over an object with 2 keys visits them in Go's random map order (witness: for (k, v in {k0: 'v0', k1: 'v1'}) run twice)")
			} else {
				c.Violation("ctl-obj-determinism", rep("two runs of the same program iterate an object in different orders", r.Hist[2]))
				return
			}
		}
		c.Case(j.Tag, len(v.Conds) > 0 || len(v.Out) > 4)
		nsample++
		if nsample%20000 == 7 {
			c.Sample(map[string]any{"program": string(j.Hist[0].Prog), "conds": v.Conds, "expected_stdout_lines": len(exp), "outcome": v.Outcome})
		}
	})
	res := c.TLC(TLCOpt{Module: "MC_EvalCtl", Cfg: evalCfg(maxNodes, fiv, fuel), Heap: "12g",
		OnVec: func(raw []byte) {
			var v evalVec
			VecDecode(raw, &v)
			prog := Node{"fns": []any{}, "n": float64(v.N), "rules": []any{
				map[string]any{"kind": "P", "body": map[string]any(v.Tree)},
				map[string]any{"kind": "P", "body": map[string]any{"k": "print"}},
				map[string]any{"kind": "E", "body": map[string]any{"k": "print"}}}}
			r1 := newEvalRenderer()
			p1 := r1.renderEvalProgram(prog, v.Conds)
			r2 := newEvalRenderer()
			r2.braceMin = true
			p2 := r2.renderEvalProgram(prog, v.Conds)
			mk := func(p evalProgram) Job {
				return Job{Kind: "run", Prog: []byte(p.Text), Files: []FileIn{{Name: "in.json", Data: []byte(p.Input)}}, Budget: 200000}
			}
			st.Submit(Job{Kind: "history", Hist: []Job{mk(p1), mk(p2), mk(p1)}, Tag: string(raw)})
		}})
	st.Wait()
	checkC07Traces(c)
	checkC07LongLoops(c)
	if c.Thorough() {
		checkLongHistories(c, []int{1000, 400000})
	} else {
		checkLongHistories(c, []int{320000})
	}
	ncore := 150
	if c.Thorough() {
		ncore = 2500
	}
	checkCore(c, ncore, 7)
	c.Set("exhaustive", true)
	c.Set("bounds", map[string]any{"MaxNodes": maxNodes, "ForInVariants": fiv, "Fuel": fuel, "tlc_depth": res.Depth})
	c.Set("rule", "every statement tree with <= MaxNodes nodes (if/if-else/block/while/for/for-in over array,object,string/call + print,break,continue,return,next,exit leaves where the parser accepts them) x every condition-outcome sequence with <= Fuel TRUE outcomes; each terminated behaviour replayed in two renderings (all braces / minimal braces) and compared line by line; non-trivial = at least one condition evaluated or more than the three rule headers printed")
	c.Set("checker_cmd", "tlc MC_EvalCtl (JqEval machine; invariants TypeOK FrameBalance BaseAtRuleStart DepthBounded NoEscape OutcomeLegal SigConsumed; action properties StopFreezesOutput DoneIsFinal); replay via lang.EvalProgram")
}

// Long loops driven by data: a loop runs exactly as many times as its condition is true, also tens of
// thousands of times (the machine's LoopTest / ForPost cycle has no counter of its own).
func checkC07LongLoops(c *Ctx) {
	pool := c.Pool()
	var jobs []Job
	var want []string
	for _, n := range []int{9999, 10001, 10002, 10003, 25000, 70000} {
		for _, form := range []string{
			"BEGIN { k = 0 }\n{ for (i = 0; i < $.n; i++) { k++ }\n  print \"done\", k }\nEND { print \"end\" }\n",
			"{ k = $.n\n  while (k > 0) { k-- }\n  print \"done\", $.n - k }\nEND { print \"end\" }\n",
			"function run(m) { t = 0\n  for (i = 0; i < m; i++) { if (i % 2) { continue }\n    t++ }\n  return t * 2 - m % 2 }\n{ for (z in [1]) { print \"done\", run($.n) } }\nEND { print \"end\" }\n",
			"{ k = 0\n  for (i = 0; i < 300; i++) { for (j = 0; j < 100; j++) { k++ } }\n  w = 0\n  while (w < $.n) { w++ }\n  print \"done\", w + k - 30000 }\nEND { print \"end\" }\n"} {
			jobs = append(jobs, Job{Kind: "run", Prog: []byte(form), Files: []FileIn{{Name: "in.json", Data: []byte(fmt.Sprintf("[{\"n\": %d}]", n))}}, Budget: 5_000_000})
			want = append(want, fmt.Sprintf("done %d\nend\n", n))
		}
	}
	pool.Map(jobs, func(i int, r Result) {
		if r.Class == "budget" || r.Class == "timeout" {
			c.Count("inconclusive", 1)
			return
		}
		if r.Class != "ok" || string(r.Stdout) != want[i] {
			c.Violation("long-loop", map[string]any{"program": string(jobs[i].Prog), "input": string(jobs[i].Files[0].Data), "expected_stdout": want[i],
				"got_class": r.Class, "got_err": r.ErrMsg, "got_stdout": firstN(string(r.Stdout), 300), "why": "a loop must run as many times as its condition holds, however many that is"})
			return
		}
		c.Case("longloop:"+string(jobs[i].Prog)+string(jobs[i].Files[0].Data), true)
	})
}
