package main

import (
	"bytes"
	"encoding/json"
	"fmt"
	"math/rand"
	"sort"
	"strings"
	"sync"
)

// ---------------------------------------------------------------------------
// C04 (vi): programs that read the document without modifying it
// (spec/JqRead.tla, spec/MC_RenderRead.tla).  TLC walks every access chain over
// every document of the bound and checks the frame condition of a lookup
// against an assignment through the same chain; every (document, chain) is
// rendered here in a seeded reading context (assignment, print, condition,
// pattern, comparison, function parameter, alias, json(), for-in, method) and
// the document the implementation holds afterwards (-o / GetRootJson) must be
// the model's doc; json(<chain>) must be the value the model gives the chain.

type c04ReadStep struct {
	S   string `json:"s"`
	N   int    `json:"n"`
	Key string `json:"key"`
}

type c04ReadVec struct {
	Doc     c17Val            `json:"doc"`
	Steps   []c04ReadStep     `json:"steps"`
	Cls     string            `json:"cls"`
	Through string            `json:"through"`
	Val     c17Val            `json:"val"`
	Exp     c17Val            `json:"exp"`
	Dev     map[string]c17Val `json:"dev"`
}

func (v *c04ReadVec) stepsKey() string {
	var sb strings.Builder
	for _, s := range v.Steps {
		fmt.Fprintf(&sb, "%s%d/", s.S, s.N)
	}
	return sb.String()
}

// c04RenderSteps: the chain as jqawk source after a base expression.
func c04RenderSteps(in *c17Inst, steps []c04ReadStep, r *rand.Rand) string {
	var sb strings.Builder
	for _, s := range steps {
		if s.S == "idx" {
			fmt.Fprintf(&sb, "[%d]", s.N)
			continue
		}
		k := in.key(s.Key)
		switch r.Intn(3) {
		case 0:
			sb.WriteString("['" + k + "']")
		case 1:
			sb.WriteString(`["` + k + `"]`)
		default:
			sb.WriteString("." + k)
		}
	}
	return sb.String()
}

type c04ReadProg struct {
	prog    []byte
	reads   []*c04ReadVec // the reads of the program, in order
	probes  []int         // indices into reads whose value is printed by the final block, in order
	ctxs    []string
	mayFail bool
}

const c04ReadMark = "@@J"

// c04BuildReadProg renders a group of reads of one document into one program.
func c04BuildReadProg(in *c17Inst, doc c17Val, reads []*c04ReadVec, r *rand.Rand, quiet bool) c04ReadProg {
	out := c04ReadProg{reads: reads}
	var funcs, begin, rule, patterns, end []string
	for i, v := range reads {
		full := "$" + c04RenderSteps(in, v.Steps, r)
		if v.Cls == "error" { // the lookup is refused: the program may stop here; nothing was modified up to then
			out.mayFail = true
			begin = append(begin, fmt.Sprintf("v%d = %s", i, full))
			out.ctxs = append(out.ctxs, "refused")
			continue
		}
		// the site: a per-file block ($ is the document) or the main rule ($ is the document, or each element of a root array)
		site, expr, base, last := "file", full, "$"+c04RenderSteps(in, v.Steps[:len(v.Steps)-1], r), c04RenderSteps(in, v.Steps[len(v.Steps)-1:], r)
		ruleOK := doc.Kind == 'o'
		if doc.Kind == 'a' && len(v.Steps) >= 2 && v.Steps[0].S == "idx" && v.Steps[0].N >= 0 && v.Steps[0].N < len(doc.S) {
			ruleOK = true
			for _, s := range v.Steps[1:] {
				if s.S == "idx" && s.N < 0 { // on another element the index may walk off the front
					ruleOK = false
				}
			}
		}
		if ruleOK && r.Intn(2) == 0 {
			site = "rule"
			if doc.Kind == 'a' {
				expr = "$" + c04RenderSteps(in, v.Steps[1:], r)
				base = "$" + c04RenderSteps(in, v.Steps[1:len(v.Steps)-1], r)
			}
		}
		ctxs := []string{"assign", "print", "cond", "cmp", "not", "concat", "json", "param", "inside", "alias", "is"}
		// contexts that need a kind of value (an order comparison refuses containers, for-in and length() need one) are
		// used where the model knows the kind: not in the main rule over a root array, which applies the chain to every element
		typed := !(site == "rule" && doc.Kind == 'a')
		if site == "rule" {
			ctxs = append(ctxs, "pattern-truth", "pattern-eq", "pattern-truth")
			if typed && v.Val.Kind == 0 {
				ctxs = append(ctxs, "pattern-rel", "pattern-rel")
			}
		}
		if typed && v.Cls == "node" && v.Val.Kind != 0 {
			ctxs = append(ctxs, "forin", "length", "forin")
		}
		ctx := ctxs[r.Intn(len(ctxs))]
		if quiet && ctx == "print" {
			ctx = "assign"
		}
		var st string
		switch ctx {
		case "assign":
			st = fmt.Sprintf("v%d = %s", i, expr)
		case "print":
			st = "print " + expr
		case "cond":
			st = fmt.Sprintf("if (%s) { t%d = 1 } else { t%d = 2 }", expr, i, i)
		case "cmp":
			st = fmt.Sprintf("c%d = %s == null", i, expr)
		case "not":
			st = fmt.Sprintf("n%d = !%s", i, expr)
		case "concat":
			st = fmt.Sprintf("s%d = '' + %s", i, expr)
		case "json":
			st = fmt.Sprintf("j%d = json(%s)", i, expr)
		case "is":
			st = fmt.Sprintf("i%d = %s is null", i, expr)
		case "param":
			funcs = append(funcs, fmt.Sprintf("function id%d(p) { return p }", i))
			st = fmt.Sprintf("r%d = id%d(%s)", i, i, expr)
		case "inside": // the last step is taken on a parameter inside a function
			funcs = append(funcs, fmt.Sprintf("function in%d(p) { return p%s }", i, last))
			st = fmt.Sprintf("r%d = in%d(%s)", i, i, base)
		case "alias": // ... or on a variable that was assigned the value before
			st = fmt.Sprintf("a%d = %s\n  b%d = a%d%s", i, base, i, i, last)
		case "forin":
			st = fmt.Sprintf("for (e%d in %s) { z%d = e%d }", i, expr, i, i)
		case "length":
			st = fmt.Sprintf("l%d = %s.length()", i, expr)
		case "pattern-rel":
			patterns = append(patterns, fmt.Sprintf("%s > 2 { p%d++ }", expr, i))
		case "pattern-truth":
			patterns = append(patterns, fmt.Sprintf("%s { p%d++ }", expr, i))
		case "pattern-eq":
			patterns = append(patterns, fmt.Sprintf("%s == null { p%d++ }", expr, i))
		}
		out.ctxs = append(out.ctxs, site+":"+ctx)
		if st != "" {
			switch {
			case site == "rule":
				rule = append(rule, st)
			case r.Intn(2) == 0:
				begin = append(begin, st)
			default:
				end = append(end, st)
			}
		}
		if v.Val.Leaf != "open" {
			out.probes = append(out.probes, i)
		}
	}
	var sb strings.Builder
	for _, f := range funcs {
		sb.WriteString(f + "\n")
	}
	if len(begin) > 0 {
		sb.WriteString("BEGINFILE {\n  " + strings.Join(begin, "\n  ") + "\n}\n")
	}
	for _, p := range patterns {
		sb.WriteString(p + "\n")
	}
	if len(rule) > 0 {
		sb.WriteString("{\n  " + strings.Join(rule, "\n  ") + "\n}\n")
	}
	if !quiet {
		end = append(end, "print '"+c04ReadMark+"'")
		for _, i := range out.probes {
			end = append(end, "print json($"+c04RenderSteps(in, reads[i].Steps, r)+")", "print '"+c04ReadMark+"'")
		}
	}
	if len(end) == 0 {
		end = append(end, "done = 1")
	}
	sb.WriteString("ENDFILE {\n  " + strings.Join(end, "\n  ") + "\n}\n")
	out.prog = []byte(sb.String())
	return out
}

// c04ReadFamily runs family (vi).
func c04ReadFamily(c *Ctx, pool *Pool, settle func(fam, key, verdict, why string, rep func() map[string]any, nontrivial bool), report func(name string, rep map[string]any),
	addBin func(prog, doc []byte, sels []string, exp c17Val, in *c17Inst, tag, fam string)) {
	c.Assume("'a program that does not modify it' (vi): programs made of member lookups (.key, ['key'], [i], chains of <= 3 (thorough 4) steps incl. missing keys, indices past the end / from the end, members of null / scalars / speculative nulls) used in reading contexts (assignment to a program variable, print, if, !, ==, is, string concatenation, json(), patterns, function parameters, aliases, for-in, length()); programs that call other builtins or methods on the document are not generated. A lookup the implementation refuses (an index that walks off the front of an array) may end the program; the value of a character lookup in a string is not compared")
	maxSteps, offDoc, wide := 3, 2, "FALSE"
	perProg := 8
	if c.Thorough() {
		maxSteps, offDoc, wide, perProg = 4, 2, "TRUE", 6
	}
	byDoc := map[string][]*c04ReadVec{}
	nvec := 0
	c.TLC(TLCOpt{Module: "MC_RenderRead", Workers: 8, Heap: "4g",
		Cfg: cfgText("INIT Init", "NEXT Next", "CONSTANTS", "W1 = 2", "W2 = 1", "W3 = 1", fmt.Sprintf("MaxSteps = %d", maxSteps), fmt.Sprintf("OffDoc = %d", offDoc), "WideSecond = "+wide,
			"INVARIANT Laws", "INVARIANT Vec", "CHECK_DEADLOCK FALSE"),
		OnVec: func(raw []byte) {
			v := &c04ReadVec{}
			VecDecode(raw, v)
			k, _ := json.Marshal(v.Doc)
			byDoc[string(k)] = append(byDoc[string(k)], v)
			nvec++
		}})
	docs := make([]string, 0, len(byDoc))
	for k := range byDoc {
		docs = append(docs, k)
	}
	sort.Strings(docs)

	type runCtx struct {
		in  *c17Inst
		doc c17Val
		p   c04ReadProg
	}
	var mu sync.Mutex
	ctxOf := map[int]*runCtx{}
	var nRuns, nReads, nProbes, nRefused, nRefusedStopped int64
	ctxCount := map[string]int{}
	throughCount := map[string]int{}
	st := pool.NewStream(func(j *Job, r Result) {
		mu.Lock()
		rc := ctxOf[j.N]
		delete(ctxOf, j.N)
		mu.Unlock()
		mu.Lock()
		defer mu.Unlock()
		fam := "read-only-program"
		rep := func() map[string]any {
			var chains []string
			for i, v := range rc.p.reads {
				chains = append(chains, fmt.Sprintf("%s (%s, leaves the document through: %s) in context %s", v.stepsKey(), v.Cls, v.Through, rc.p.ctxs[i]))
			}
			return map[string]any{"program": string(j.Prog), "input": string(j.Files[0].Data), "chains": chains, "got_class": r.Class, "stdout": c17Clip(r.Stdout),
				"got_root_json": c17Clip(r.JS), "root_json_err": r.JSErr, "err": r.ErrMsg, "detail": r.Detail}
		}
		if r.Class == "runtime" && rc.p.mayFail {
			nRefusedStopped++
			c.Case("read-refused:"+j.Tag+string(j.Prog), false)
			return
		}
		if r.Class != "ok" || strings.HasPrefix(r.JSErr, "panic") {
			report(fam, map[string]any{"case": rep(), "why": "a program that only looks members up must succeed"})
			return
		}
		verdict, why := c04Verdict(c, rc.in, rc.p.reads[0].Exp, rc.p.reads[0].Dev, r.JS, r.JSErr != "")
		if verdict == "violation" {
			why += ": the program only reads (member lookups in reading contexts); the document written afterwards must be the one that was read"
		}
		settle(fam, fmt.Sprintf("%s:%d:%s", fam, j.N, j.Tag), verdict, why, rep, true)
		nRuns++
		nReads += int64(len(rc.p.reads))
		for i, v := range rc.p.reads {
			ctxCount[rc.p.ctxs[i][strings.Index(rc.p.ctxs[i], ":")+1:]]++
			throughCount[v.Through]++
		}
		if rc.p.mayFail {
			return
		}
		// the values of the chains: the text after the first mark, one json() per probe
		// the LAST len(probes)+1 marks delimit them: what the reading contexts printed comes before
		parts := bytes.Split(r.Stdout, []byte(c04ReadMark+"\n"))
		if len(parts) < len(rc.p.probes)+2 {
			report("read-value", map[string]any{"case": rep(), "why": "the output of the final block is incomplete"})
			return
		}
		parts = parts[len(parts)-1-len(rc.p.probes):]
		for k, i := range rc.p.probes {
			v := rc.p.reads[i]
			got := bytes.TrimSuffix(parts[k], []byte("\n"))
			verdict, why := c04VerdictStrict(c, rc.in.goValue(v.Val), got)
			nProbes++
			settle("read-value", fmt.Sprintf("read-value:%s:%s", j.Tag, v.stepsKey()), verdict, why+": json(<chain>) must be the member of the document the chain denotes (null for a member that does not exist)", rep, true)
		}
		if nRuns%700 == 1 {
			c.Sample(map[string]any{"family": fam, "program": string(j.Prog), "input": string(j.Files[0].Data), "root_json": c17Clip(r.JS), "stdout": c17Clip(r.Stdout)})
		}
	})
	nsub := 0
	for _, dk := range docs {
		if c17Decided(c) {
			break
		}
		reads := byDoc[dk]
		sort.Slice(reads, func(a, b int) bool { return reads[a].stepsKey() < reads[b].stepsKey() })
		r := rand.New(rand.NewSource(c17Seed(c.Seed, []byte(dk), "read")))
		r.Shuffle(len(reads), func(a, b int) { reads[a], reads[b] = reads[b], reads[a] })
		doc := reads[0].Doc
		in := c17NewInst(c.Seed, []byte(dk))
		in.safe = true
		in.prealloc(doc)
		in.key("0")
		var text bytes.Buffer
		in.writeDoc(&text, doc, r)
		// refused lookups get a program of their own; the others go in groups
		var groups [][]*c04ReadVec
		var cur []*c04ReadVec
		for _, v := range reads {
			if v.Cls == "error" {
				groups = append(groups, []*c04ReadVec{v})
				nRefused++
				continue
			}
			cur = append(cur, v)
			if len(cur) == perProg {
				groups, cur = append(groups, cur), nil
			}
		}
		if len(cur) > 0 {
			groups = append(groups, cur)
		}
		for gi, g := range groups {
			p := c04BuildReadProg(in, doc, g, r, false)
			nsub++
			mu.Lock()
			ctxOf[nsub] = &runCtx{in: in, doc: doc, p: p}
			mu.Unlock()
			st.Submit(Job{Kind: "run", Prog: p.prog, Files: []FileIn{{Name: "in.json", Data: text.Bytes()}}, WantJS: true, Tag: dk, N: nsub})
			if !p.mayFail && c17Seed(c.Seed, []byte(dk), fmt.Sprintf("binread%d", gi))%41 == 0 {
				// the binary writes print output and -o - to the same stream: the same reads without print
				q := c04BuildReadProg(in, doc, g, rand.New(rand.NewSource(c17Seed(c.Seed, []byte(dk), fmt.Sprintf("binreadprog%d", gi)))), true)
				addBin(q.prog, text.Bytes(), nil, g[0].Exp, in, dk+fmt.Sprint(gi), "bin-read")
			}
		}
	}
	st.Wait()
	c.Set("read_vectors", nvec)
	c.Set("read_documents", len(docs))
	c.Set("read_programs", nRuns)
	c.Set("read_chains_replayed", nReads)
	c.Set("read_chain_values_compared", nProbes)
	c.Set("read_refused_lookups", map[string]int64{"vectors": nRefused, "stopped_the_program": nRefusedStopped})
	c.Set("read_contexts", ctxCount)
	c.Set("read_chains_leave_document_through", throughCount)
	c.Set("rule_part3", "MC_RenderRead: every document of depth <= 3 over {null, string, number, word} (root of <= 2 slots, inner containers of <= 1) x every access chain of <= MaxSteps lookups (every key incl. a missing one, every index incl. one past the end, -1 and one off the front, going on through the nulls it meets); TLC checks in every state that lookups leave the document as read while an assignment through the same chain changes it; each chain is rendered in a seeded reading context and the document held afterwards (GetRootJson, a sample through the binary's -o) must be the model's, json(<chain>) the model's value of the chain")
	c.Set("bounds_part3", map[string]any{"W": []int{2, 1, 1}, "MaxSteps": maxSteps, "OffDoc": offDoc, "WideSecond": wide, "reads_per_program": perProg})
}
