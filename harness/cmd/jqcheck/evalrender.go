package main

import (
	"encoding/json"
	"fmt"
	"strconv"
	"strings"
)

// Rendering of JqEval programs (spec/JqEval.tla) to jqawk text, and of the
// model's observation entries to expected stdout lines.  This is the only
// place that knows how a JqEval statement is written in jqawk.

type Node = map[string]any

func nstr(n Node, k string) string {
	s, _ := n[k].(string)
	return s
}
func nint(n Node, k string) int {
	f, _ := n[k].(float64)
	return int(f)
}
func nnode(n Node, k string) Node {
	m, _ := n[k].(map[string]any)
	return m
}
func nlist(n Node, k string) []Node {
	l, _ := n[k].([]any)
	out := make([]Node, 0, len(l))
	for _, x := range l {
		m, _ := x.(map[string]any)
		out = append(out, m)
	}
	return out
}
func nbool(n Node, k string) bool {
	b, _ := n[k].(bool)
	return b
}

func pathStr(p []int) string {
	parts := make([]string, len(p))
	for i, x := range p {
		parts[i] = strconv.Itoa(x)
	}
	return strings.Join(parts, "_")
}

func anyPath(v any) []int {
	l, _ := v.([]any)
	out := make([]int, 0, len(l))
	for _, x := range l {
		f, _ := x.(float64)
		out = append(out, int(f))
	}
	return out
}

type evalRenderer struct {
	fns       []string // inline function definitions
	braceMin  bool     // omit braces where the grammar allows (dangling-else test)
	faultExpr string   // expression used for a faulting slot
	faultStmt string   // statement used for a "fault" statement
	literal   bool     // for-in data written as literals (root selectors have no globals)
}

func newEvalRenderer() *evalRenderer {
	return &evalRenderer{faultExpr: "(1 / 0)", faultStmt: "fx = 1 / 0"}
}

func (r *evalRenderer) atom(a Node) string {
	switch nstr(a, "k") {
	case "num":
		v := nint(a, "v")
		if v < 0 {
			return fmt.Sprintf("(0 - %d)", -v)
		}
		return strconv.Itoa(v)
	case "null":
		return "null"
	case "var":
		return nstr(a, "n")
	case "faultx":
		return r.faultExpr
	case "membnull":
		return "gobj.k"
	}
	return "null"
}

func (r *evalRenderer) args(l []Node) string {
	parts := make([]string, len(l))
	for i, a := range l {
		parts[i] = r.atom(a)
	}
	return strings.Join(parts, ", ")
}

// callExpr renders a call expression; an inline body (f = 0) becomes a function named after the path.
func (r *evalRenderer) callExpr(e Node, p []int) string {
	if nint(e, "f") == 0 {
		name := "f_" + pathStr(p)
		r.fns = append(r.fns, "function "+name+"() {\n"+r.stmt(nnode(e, "fb"), append(append([]int{}, p...), 1), 1)+"\n}")
		return name + "()"
	}
	return fmt.Sprintf("fn%d(%s)", nint(e, "f"), r.args(nlist(e, "args")))
}

func endsWithOpenIf(s Node) bool {
	switch nstr(s, "k") {
	case "if":
		el := nnode(s, "el")
		if el == nil || nstr(el, "k") == "none" {
			return true
		}
		return endsWithOpenIf(el)
	case "while", "for":
		return endsWithOpenIf(nnode(s, "b"))
	}
	return false
}

func ind(n int) string { return strings.Repeat("  ", n) }

// body renders a statement used as the body of if/while/for: braces unless braceMin.
func (r *evalRenderer) body(s Node, p []int, depth int, forceBrace bool) string {
	if nstr(s, "k") == "block" {
		return " " + strings.TrimLeft(r.stmt(s, p, depth), " ")
	}
	if r.braceMin && !forceBrace {
		return "\n" + r.stmt(s, p, depth+1)
	}
	return " {\n" + r.stmt(s, p, depth+1) + "\n" + ind(depth) + "}"
}

func (r *evalRenderer) cond(c string, p []int) string {
	if c == "fault" {
		return r.faultExpr
	}
	if c == "true" {
		return "true"
	}
	return fmt.Sprintf("c(\"%s\")", pathStr(p))
}

var forInData = map[string]string{"arr": "a", "obj": "o", "str": "s", "ustr": "u", "nobj": "m", "fstr": "f"}

// keys and values of the objects that for-in loops iterate over
var forInObjKeys = map[string]map[string]string{
	"o0": {}, "o1": {"k0": "v0"}, "o2": {"k0": "v0", "k1": "v1"},
	// numeric-looking and other keys mixed: any "natural" ordering of such keys must still be one total, repeatable order
	"m4": {"9": "v9", "10": "v10", "1a": "v1a", "nan": "vnan"},
}

// characters and byte offsets of the strings that for-in loops iterate over
var forInChars = map[string][]string{"s0": {}, "s1": {"x"}, "s2": {"x", "y"}, "u0": {}, "u1": {"é"}, "u2": {"é", "y"},
	// U+FFFD is an ordinary character of a string (a decoder also produces it for an unpaired surrogate escape)
	"f2": {"\ufffd", "y"}}
var forInOffsets = map[string][]int{"s0": {}, "s1": {0}, "s2": {0, 1}, "u0": {}, "u1": {0}, "u2": {0, 2}, "f2": {0, 3}}

func (r *evalRenderer) stmt(s Node, p []int, depth int) string {
	in := ind(depth)
	ps := pathStr(p)
	switch nstr(s, "k") {
	case "print":
		return in + fmt.Sprintf("print \"s %s\"", ps)
	case "show":
		n := nstr(s, "n")
		return in + fmt.Sprintf("if (%s is unknown) {\n%s  print \"v %s unset\"\n%s} else {\n%s  print \"v %s\", %s\n%s}", n, in, n, in, in, n, n, in)
	case "showg":
		return in + "print \"g\", gobj"
	case "break", "continue", "next", "exit":
		return in + nstr(s, "k")
	case "return":
		e := nnode(s, "e")
		if e == nil || nstr(e, "k") == "none" {
			return in + "return"
		}
		return in + "return " + r.atom(e)
	case "fault":
		return in + r.faultStmt
	case "block":
		var sb strings.Builder
		sb.WriteString(in + "{\n")
		for i, x := range nlist(s, "b") {
			sb.WriteString(r.stmt(x, append(append([]int{}, p...), i+1), depth+1))
			sb.WriteString("\n")
		}
		sb.WriteString(in + "}")
		return sb.String()
	case "if":
		th := nnode(s, "th")
		el := nnode(s, "el")
		hasElse := el != nil && nstr(el, "k") != "none"
		out := in + "if (" + r.cond(nstr(s, "c"), p) + ")" + r.body(th, append(append([]int{}, p...), 1), depth, hasElse && endsWithOpenIf(th))
		if hasElse {
			if strings.HasSuffix(out, "}") {
				out += " else"
			} else {
				out += "\n" + in + "else"
			}
			out += r.body(el, append(append([]int{}, p...), 2), depth, false)
		}
		return out
	case "while":
		return in + "while (" + r.cond(nstr(s, "c"), p) + ")" + r.body(nnode(s, "b"), append(append([]int{}, p...), 1), depth, false)
	case "for":
		init := fmt.Sprintf("printf(\"i %s\\n\")", ps)
		if nstr(s, "init") == "fault" {
			init = r.faultExpr
		}
		post := fmt.Sprintf("printf(\"p %s\\n\")", ps)
		if nstr(s, "post") == "fault" {
			post = r.faultExpr
		}
		return in + "for (" + init + "; " + r.cond(nstr(s, "c"), p) + "; " + post + ")" + r.body(nnode(s, "b"), append(append([]int{}, p...), 1), depth, false)
	case "forin":
		n := nint(s, "n")
		kind := nstr(s, "kind")
		var iter string
		if n < 0 {
			iter = "5" // not iterable
		} else {
			iter = fmt.Sprintf("$$.%s%d", forInData[kind], n)
		}
		iter = strings.Replace(iter, "$$", "dat", 1)
		if r.literal && n >= 0 {
			iter = map[string]string{"a0": "[]", "a1": `["e0"]`, "a2": `["e0", "e1"]`, "o0": "{}", "o1": `{k0: "v0"}`, "o2": `{k0: "v0", k1: "v1"}`,
				"s0": `""`, "s1": `"x"`, "s2": `"xy"`, "u0": `""`, "u1": `"é"`, "u2": `"éy"`,
				"m4": `{"9": "v9", "10": "v10", "1a": "v1a", nan: "vnan"}`}[fmt.Sprintf("%s%d", forInData[kind], n)]
		}
		v1, v2 := "x"+ps, "y"+ps
		head := v1
		pr := fmt.Sprintf("print \"it %s\", %s", ps, v1)
		if nbool(s, "two") {
			head = v1 + ", " + v2
			pr += ", " + v2
		}
		return in + "for (" + head + " in " + iter + ") {\n" + in + "  " + pr + "\n" +
			r.stmt(nnode(s, "b"), append(append([]int{}, p...), 1), depth+1) + "\n" + in + "}"
	case "callstmt":
		f := nint(s, "f")
		if f == 0 {
			name := "f_" + ps
			r.fns = append(r.fns, "function "+name+"() {\n"+r.stmt(nnode(s, "fb"), append(append([]int{}, p...), 1), 1)+"\n}")
			return in + name + "()"
		}
		return in + fmt.Sprintf("fn%d(%s)", f, r.args(nlist(s, "args")))
	case "set":
		e := nnode(s, "e")
		switch nstr(e, "k") {
		case "call":
			return in + nstr(s, "n") + " = " + r.callExpr(e, p)
		case "match":
			body := nnode(e, "body")
			bs := ""
			if nstr(body, "k") == "call" {
				bs = r.callExpr(body, p)
			} else {
				bs = r.atom(body)
			}
			return in + fmt.Sprintf("%s = match (%s) { %s => %s }", nstr(s, "n"), r.atom(nnode(e, "subj")), nstr(e, "bind"), bs)
		}
		return in + nstr(s, "n") + " = " + r.atom(e)
	case "matchstmt":
		if hdr := nstr(s, "hdr"); hdr != "" {
			m := fmt.Sprintf("match (%s) { %s => {\n%s\n%s} }", r.atom(nnode(s, "subj")), nstr(s, "bind"),
				r.stmt(nnode(s, "b"), append(append([]int{}, p...), 1), depth+1), in)
			switch hdr {
			case "whilecond":
				return in + "while (" + m + ") {\n" + in + "}"
			case "forinit":
				return in + "for (" + m + "; false; 0) {\n" + in + "}"
			case "forcond":
				return in + "for (0; " + m + "; 0) {\n" + in + "}"
			}
		}
		return in + fmt.Sprintf("match (%s) { %s => {\n%s\n%s} }", r.atom(nnode(s, "subj")), nstr(s, "bind"),
			r.stmt(nnode(s, "b"), append(append([]int{}, p...), 1), depth+1), in)
	}
	return in + "print \"?unknown statement kind " + nstr(s, "k") + "\""
}

// forInDoc is the data every for-in iterates over (a global set in BEGIN... it
// comes from the input document so that iteration is driven by data).
const forInDoc = `{"a0":[],"a1":["e0"],"a2":["e0","e1"],"o0":{},"o1":{"k0":"v0"},"o2":{"k0":"v0","k1":"v1"},"s0":"","s1":"x","s2":"xy"}`

type evalProgram struct {
	Text  string
	Input string
	Sels  []string
}

// renderEvalProgram renders prog = {fns, rules, n} with the oracle outcomes.
func (r *evalRenderer) renderEvalProgram(prog Node, conds []bool) evalProgram {
	var sb strings.Builder
	orc := make([]string, len(conds))
	for i, b := range conds {
		orc[i] = strconv.FormatBool(b)
	}
	var rules strings.Builder
	sels := []string{}
	for i, rl := range nlist(prog, "rules") {
		kind := nstr(rl, "kind")
		ri := i + 1
		if kind == "SEL" {
			// a root selector: the body runs inside a match block; the selector then yields $ itself
			rs := newEvalRenderer()
			rs.literal = true
			rs.faultExpr, rs.faultStmt = r.faultExpr, r.faultStmt
			body := rs.stmt(nnode(rl, "body"), []int{ri}, 1)
			sels = append(sels, fmt.Sprintf("[match (1) { z0 => {\n  print \"rule\", \"SEL\", %d, 0\n%s\n} }, $][1]", ri, body))
			continue
		}
		head := map[string]string{"B": "BEGIN", "BF": "BEGINFILE", "P": "", "EF": "ENDFILE", "E": "END"}[kind]
		el := "0"
		if kind == "P" {
			el = "$index + 1"
		}
		if pat := nnode(rl, "pat"); pat != nil {
			switch nstr(pat, "k") {
			case "const":
				head = strconv.FormatBool(nbool(pat, "v"))
			case "call":
				head = fmt.Sprintf("fn%d()", nint(pat, "f"))
			}
		}
		rules.WriteString(head + " {\n")
		rules.WriteString(fmt.Sprintf("  print \"rule\", \"%s\", %d, %s\n", kind, ri, el))
		rules.WriteString(r.stmt(nnode(rl, "body"), []int{ri}, 1))
		rules.WriteString("\n}\n")
	}
	var fns strings.Builder
	for i, f := range nlist(prog, "fns") {
		params := []string{}
		for _, x := range f["params"].([]any) {
			params = append(params, x.(string))
		}
		fns.WriteString(fmt.Sprintf("function fn%d(%s) {\n%s\n}\n", i+1, strings.Join(params, ", "), r.stmt(nnode(f, "body"), []int{100 + i + 1}, 1)))
	}
	sb.WriteString("function c(id) {\n  print \"c\", id\n  ci = ci + 1\n  return orc[ci - 1]\n}\n")
	for _, f := range r.fns {
		sb.WriteString(f + "\n")
	}
	sb.WriteString(fns.String())
	sb.WriteString("BEGIN {\n  orc = [" + strings.Join(orc, ", ") + "]\n  ci = 0\n  gobj = {}\n  dat = " + forInDocLiteral() + "\n}\n")
	sb.WriteString(rules.String())
	n := nint(prog, "n")
	elems := make([]string, n)
	for i := range elems {
		elems[i] = strconv.Itoa(i)
	}
	return evalProgram{Text: sb.String(), Input: "[" + strings.Join(elems, ",") + "]", Sels: sels}
}

// the for-in data as a jqawk object literal (single-quoted strings are fine)
func forInDocLiteral() string {
	return `{a0: [], a1: ["e0"], a2: ["e0", "e1"], o0: {}, o1: {k0: "v0"}, o2: {k0: "v0", k1: "v1"}, s0: "", s1: "x", s2: "xy", u0: "", u1: "é", u2: "éy", f2: "�y", m4: {"9": "v9", "10": "v10", "1a": "v1a", nan: "vnan"}}`
}

type expLine struct {
	Depth  int    // frame depth at which the real code writes this line
	Text   string // exact expected line, or prefix for object iteration lines
	ObjIt  bool   // object for-in line: key order is only required to be deterministic
	Path   string
	Idx    int
	Two    bool
	ObjLen int
	Keys   map[string]string // object iteration: the object's keys and values
}

// expectedLines turns the model's observation entries into stdout lines.
// forins maps a loop path to its statement (kind, n, two).
func expectedLines(out []any, forins map[string]Node) []expLine {
	lines := make([]expLine, 0, len(out))
	for _, e0 := range out {
		pair, _ := e0.([]any)
		if len(pair) != 2 {
			infra("observation entry is not <<entry, depth>>: %v", e0)
		}
		l, _ := pair[0].([]any)
		if len(l) == 0 {
			continue
		}
		dep := jnum(pair[1])
		tag, _ := l[0].(string)
		if tag == "c" {
			dep++ // written inside the helper function c()
		}
		before := len(lines)
		switch tag {
		case "rule":
			lines = append(lines, expLine{Text: fmt.Sprintf("rule %v %v %v", l[1], jnum(l[2]), jnum(l[3]))})
		case "g":
			lines = append(lines, expLine{Text: "g {}"})
		case "s", "i", "p", "c":
			lines = append(lines, expLine{Text: tag + " " + pathStr(anyPath(l[1]))})
		case "v":
			val, _ := l[2].(map[string]any)
			vs := "null"
			switch nstr(val, "k") {
			case "num":
				vs = strconv.Itoa(nint(val, "v"))
			case "unset":
				vs = "unset"
			}
			lines = append(lines, expLine{Text: fmt.Sprintf("v %v %s", l[1], vs)})
		case "it":
			ps := pathStr(anyPath(l[1]))
			idx := jnum(l[2])
			f := forins[ps]
			two := nbool(f, "two")
			switch nstr(f, "kind") {
			case "arr":
				t := fmt.Sprintf("it %s e%d", ps, idx)
				if two {
					t += fmt.Sprintf(" %d", idx)
				}
				lines = append(lines, expLine{Text: t})
			case "str", "ustr", "fstr":
				name := fmt.Sprintf("%s%d", forInData[nstr(f, "kind")], nint(f, "n"))
				t := fmt.Sprintf("it %s %s", ps, forInChars[name][idx])
				if two {
					t += fmt.Sprintf(" %d", forInOffsets[name][idx])
				}
				lines = append(lines, expLine{Text: t})
			case "obj", "nobj":
				name := fmt.Sprintf("%s%d", forInData[nstr(f, "kind")], nint(f, "n"))
				lines = append(lines, expLine{Text: "it " + ps + " ", ObjIt: true, Path: ps, Idx: idx, Two: two, ObjLen: nint(f, "n"), Keys: forInObjKeys[name]})
			}
		}
		for k := before; k < len(lines); k++ {
			lines[k].Depth = dep
		}
	}
	return lines
}

// compareDepths checks the recorded frame depth of every stdout line.
func compareDepths(lineDep []int, exp []expLine) string {
	for i := range exp {
		if i >= len(lineDep) {
			break
		}
		if lineDep[i] != exp[i].Depth {
			return fmt.Sprintf("line %d (%q): written at frame depth %d, expected %d", i+1, exp[i].Text, lineDep[i], exp[i].Depth)
		}
	}
	return ""
}

func jnum(v any) int {
	f, _ := v.(float64)
	return int(f)
}

// collectForIns walks a statement and records every for-in by path.
func collectForIns(s Node, p []int, into map[string]Node) {
	if s == nil {
		return
	}
	switch nstr(s, "k") {
	case "forin":
		into[pathStr(p)] = s
		collectForIns(nnode(s, "b"), append(append([]int{}, p...), 1), into)
	case "if":
		collectForIns(nnode(s, "th"), append(append([]int{}, p...), 1), into)
		collectForIns(nnode(s, "el"), append(append([]int{}, p...), 2), into)
	case "while", "for", "matchstmt":
		collectForIns(nnode(s, "b"), append(append([]int{}, p...), 1), into)
	case "block":
		for i, x := range nlist(s, "b") {
			collectForIns(x, append(append([]int{}, p...), i+1), into)
		}
	case "callstmt":
		if nint(s, "f") == 0 {
			collectForIns(nnode(s, "fb"), append(append([]int{}, p...), 1), into)
		}
	case "set":
		e := nnode(s, "e")
		if nstr(e, "k") == "match" {
			e = nnode(e, "body")
		}
		if nstr(e, "k") == "call" && nint(e, "f") == 0 {
			collectForIns(nnode(e, "fb"), append(append([]int{}, p...), 1), into)
		}
	}
}

func collectProgForIns(prog Node) map[string]Node {
	m := map[string]Node{}
	for i, rl := range nlist(prog, "rules") {
		collectForIns(nnode(rl, "body"), []int{i + 1}, m)
	}
	for i, f := range nlist(prog, "fns") {
		collectForIns(nnode(f, "body"), []int{100 + i + 1}, m)
	}
	return m
}

// compareEvalOutput compares stdout with the expected lines. Object for-in
// lines: keys distinct per loop, the same order at every activation of the
// same loop, value = the key's value.
func compareEvalOutput(stdout []byte, exp []expLine) string {
	got := strings.Split(strings.TrimSuffix(string(stdout), "\n"), "\n")
	if len(stdout) == 0 {
		got = []string{}
	}
	order := map[string][]string{}
	for i := 0; i < len(exp) || i < len(got); i++ {
		if i >= len(got) {
			return fmt.Sprintf("output ends after %d lines, expected line %d: %q", len(got), i+1, exp[i].Text)
		}
		if i >= len(exp) {
			return fmt.Sprintf("unexpected extra output line %d: %q", i+1, got[i])
		}
		e := exp[i]
		if !e.ObjIt {
			if got[i] != e.Text {
				return fmt.Sprintf("line %d: expected %q, got %q", i+1, e.Text, got[i])
			}
			continue
		}
		if !strings.HasPrefix(got[i], e.Text) {
			return fmt.Sprintf("line %d: expected prefix %q, got %q", i+1, e.Text, got[i])
		}
		rest := strings.Fields(got[i][len(e.Text):])
		want := 1
		if e.Two {
			want = 2
		}
		if len(rest) != want {
			return fmt.Sprintf("line %d: malformed object iteration line %q", i+1, got[i])
		}
		key := rest[0]
		val, isKey := e.Keys[key]
		if !isKey {
			return fmt.Sprintf("line %d: key %q is not a key of the object", i+1, key)
		}
		if e.Two && rest[1] != val {
			return fmt.Sprintf("line %d: value %q does not belong to key %q", i+1, rest[1], key)
		}
		ord := order[e.Path]
		if e.Idx < len(ord) {
			if ord[e.Idx] != key {
				return fmt.Sprintf("line %d: object keys visited in a different order than before (%q vs %q)", i+1, key, ord[e.Idx])
			}
		} else {
			for _, k := range ord {
				if k == key {
					return fmt.Sprintf("line %d: key %q visited twice", i+1, key)
				}
			}
			order[e.Path] = append(ord, key)
		}
	}
	return ""
}

func decodeNode(raw []byte) Node {
	var n Node
	if err := json.Unmarshal(raw, &n); err != nil {
		infra("bad vector: %v", err)
	}
	return n
}
