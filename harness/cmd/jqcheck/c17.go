package main

import (
	"bytes"
	"encoding/json"
	"fmt"
	"hash/fnv"
	"math"
	"math/rand"
	"os"
	"regexp"
	"runtime/debug"
	"strconv"
	"strings"
	"time"
	"unicode/utf8"
)

// ---------------------------------------------------------------------------
// Shared by C17 and C04: the rendering universe of spec/JqRender.tla,
// MC_Render.tla and MC_RenderDoc.tla (values, seeded instantiation of the
// opaque atoms, programs that build a heap by assignments only).

// c17Val is a value in the compact vector encoding (JqRender.EncVal):
// leaf "s1.2" (class letter + name), "#2" (ref), "null", "error";
// {"a": items} array; {"o": items, "k": key names} object.
type c17Val struct {
	Leaf string
	Kind byte // 0 leaf, 'a' array, 'o' object
	S    []c17Val
	K    []string
}

func (v *c17Val) UnmarshalJSON(b []byte) error {
	b = bytes.TrimSpace(b)
	if len(b) > 0 && b[0] == '"' {
		return json.Unmarshal(b, &v.Leaf)
	}
	var o struct {
		A *[]c17Val `json:"a"`
		O *[]c17Val `json:"o"`
		K []string  `json:"k"`
	}
	if err := json.Unmarshal(b, &o); err != nil {
		return err
	}
	switch {
	case o.A != nil:
		v.Kind, v.S = 'a', *o.A
	case o.O != nil:
		v.Kind, v.S, v.K = 'o', *o.O, o.K
	default:
		return fmt.Errorf("bad value %s", b)
	}
	return nil
}

func (v c17Val) MarshalJSON() ([]byte, error) {
	switch v.Kind {
	case 'a':
		return json.Marshal(map[string]any{"a": append([]c17Val{}, v.S...)})
	case 'o':
		return json.Marshal(map[string]any{"o": append([]c17Val{}, v.S...), "k": append([]string{}, v.K...)})
	}
	return json.Marshal(v.Leaf)
}

func (v c17Val) isRef() bool   { return v.Kind == 0 && strings.HasPrefix(v.Leaf, "#") }
func (v c17Val) isError() bool { return v.Kind == 0 && v.Leaf == "error" }
func (v c17Val) isNull() bool  { return v.Kind == 0 && v.Leaf == "null" }
func (v c17Val) isView() bool  { return v.Kind == 0 && strings.HasPrefix(v.Leaf, "~") }
func (v c17Val) isAtom() bool {
	return v.Kind == 0 && !v.isRef() && !v.isError() && !v.isNull() && !v.isView()
}

// view: "~2.1.2" = the array value that shares the storage of container 2 and shows len 2 elements from offset 1
func (v c17Val) view() (id, off, n int) {
	if _, err := fmt.Sscanf(v.Leaf, "~%d.%d.%d", &id, &off, &n); err != nil {
		infra("bad view %q", v.Leaf)
	}
	return
}
func (v c17Val) refID() int {
	n, err := strconv.Atoi(v.Leaf[1:])
	if err != nil {
		infra("bad ref %q", v.Leaf)
	}
	return n
}

// c17Scalar is the concrete value an atom stands for in one replay.
type c17Scalar struct {
	K byte // 's' string, 'n' finite number, 't' true, 'f' false, 'z' null, 'x' non-finite number
	S string
	N float64
}

var c17StringPool = []string{
	"", "a", "hello", "hello world", " lead", "trail ", "x y  z",
	`say "hi"`, `"`, `""`, `a\b`, `\`, `\\n`, `C:\dir\"q"`,
	"line1\nline2", "tab\there", "cr\rlf", "\x01", "bell\x07", "\x1f", "del\x7f", "nul\x00in",
	"\u2028", "a\u2028b\u2029c", "\u00e9", "na\u00efve caf\u00e9", "\u65e5\u672c\u8a9e", "\U0001F600", "x\U0001F600y\U00010348", "\ufffd", "\u00a0",
	"null", "true", "false", "123", "-0", "1e5", "[1, 2]", `{"k": 1}`, "<circular reference>", ", ", `": "`, "[", "]", "{", "}",
	"</script>", "&amp;<>", "'single'", "%s %d", "$", "#",
	// content that LOOKS like an escape sequence (a literal backslash followed by ...): a writer that
	// post-processes the JSON text instead of tokens confuses these with real escapes
	`\u003c`, `\u003e`, `\u0026`, `\u0000`, `\u2028`, `\u003C`, `\n`, `\t`, `\r`, `\"`, `\\`, `\\\`, `\/`, `\b`,
	"<", ">", "&", "a<b && c>d", `write \u003c for <`, `x\\u0026y`, `\u003e\u003c&\u0026`, `&\u0026amp;`, `\\u003c\u003e`, `"\u003c"`, `\\n\n`,
}

// fragments for random strings: escape look-alikes and the characters encoding/json escapes
var c17Lookalikes = []string{`\u003c`, `\u003e`, `\u0026`, `\u0000`, `\n`, `\t`, `\"`, `\\`, `\`, "<", ">", "&", `u003c`, `\u`}

var c17DoublePool = []float64{
	0, math.Copysign(0, -1), 1, -1, 2, 10, 100, 0.5, -0.5, 0.1, 0.2, 0.3, 1.0 / 3, 3.14159, -2.5e-5, 45.67,
	1e6, 1e15, 1e16, 1e17, 1e20, 1e21, 1e22, 1e23, -1e21, 1e100, 1e300,
	1e-5, 1e-6, 1e-7, 1.5e-7, 1e-20, 1e-300,
	9007199254740991, 9007199254740992, 9007199254740994, -9007199254740992, 18014398509481984, 123456789012345680000,
	5e-324, -5e-324, 1e-323, 2.2250738585072014e-308, 2.225073858507201e-308,
	1.7976931348623157e308, -1.7976931348623157e308, 8.98846567431158e307,
	4294967295, 4294967296, 2147483648, 0.000001, 123456.789, 1.0000000000000002, 0.30000000000000004,
}

func c17RandString(r *rand.Rand) string {
	if r.Intn(3) > 0 {
		return c17StringPool[r.Intn(len(c17StringPool))]
	}
	n := r.Intn(9)
	var sb strings.Builder
	for i := 0; i < n; i++ {
		switch r.Intn(9) {
		case 8:
			sb.WriteString(c17Lookalikes[r.Intn(len(c17Lookalikes))])
		case 0:
			sb.WriteRune(rune(r.Intn(0x20))) // control
		case 1:
			sb.WriteByte(`"\/'`[r.Intn(4)])
		case 2:
			sb.WriteRune(rune(0xa0 + r.Intn(0x700))) // 2-byte
		case 3:
			ru := rune(0x800 + r.Intn(0xf000))
			if ru >= 0xd800 && ru <= 0xdfff {
				ru = 0x2028
			}
			sb.WriteRune(ru)
		case 4:
			sb.WriteRune(rune(0x10000 + r.Intn(0xfffff))) // astral
		default:
			sb.WriteByte(byte(0x20 + r.Intn(0x5f)))
		}
	}
	return sb.String()
}

func c17RandDouble(r *rand.Rand) float64 {
	switch r.Intn(4) {
	case 0:
		for {
			f := math.Float64frombits(r.Uint64())
			if !math.IsNaN(f) && !math.IsInf(f, 0) {
				return f
			}
		}
	case 1:
		// integers around powers of two and ten, fractions with few digits
		switch r.Intn(3) {
		case 0:
			return math.Ldexp(1, r.Intn(70)) + float64(r.Intn(5)-2)
		case 1:
			return float64(r.Intn(2000000)-1000000) / math.Pow(10, float64(r.Intn(7)))
		default:
			return math.Pow(10, float64(r.Intn(45)-22)) * float64(1+r.Intn(9))
		}
	}
	return c17DoublePool[r.Intn(len(c17DoublePool))]
}

var c17SafeKeys = []string{"k", "k1", "k2", "name", "zeta", "Alpha_2", "x", "id", "v"}
var c17NastyKeys = []string{"", " ", "a b", `q"t`, `b\s`, "\u00fcn\u00ef", "\U0001F600", "0", "-1", "nl\nkey", "tab\t", ": ", ", ", `": "`, "{", "null", "a.b", "$", "\u2028", "\x01",
	`\u003c`, `\u003ekey`, `\u0026`, `k\\u003c`, `\n`, `\"`, `\\`, "<", ">", "a&b", "<&>"}

// c17Inst: the seeded instantiation of the atoms and keys of one vector.
type c17Inst struct {
	r      *rand.Rand
	atoms  map[string]c17Scalar
	keys   map[string]string
	used   map[string]bool
	aOrder []string // atoms in order of first use: index in $.a
	aIndex map[string]int
	kOrder []string
	kIndex map[string]int
	safe   bool // only identifier-like keys (selector programs)
}

func c17Seed(seed int64, raw []byte, salt string) int64 {
	h := fnv.New64a()
	fmt.Fprintf(h, "%d|%s|", seed, salt)
	h.Write(raw)
	return int64(h.Sum64() & 0x7fffffffffffffff)
}

func c17NewInst(seed int64, raw []byte) *c17Inst {
	return &c17Inst{r: rand.New(rand.NewSource(c17Seed(seed, raw, "inst"))), atoms: map[string]c17Scalar{}, keys: map[string]string{},
		used: map[string]bool{}, aIndex: map[string]int{}, kIndex: map[string]int{}}
}

func (in *c17Inst) scalarOfClass(c byte) c17Scalar {
	r := in.r
	switch c {
	case 's':
		return c17Scalar{K: 's', S: c17RandString(r)}
	case 'n':
		return c17Scalar{K: 'n', N: c17RandDouble(r)}
	case 'l':
		return c17Scalar{K: "tfz"[r.Intn(3)]}
	case 'x':
		return c17Scalar{K: 'x', N: []float64{math.Inf(1), math.Inf(-1), math.NaN()}[r.Intn(3)]}
	case 'a':
		switch r.Intn(7) {
		case 0, 1, 2:
			return in.scalarOfClass('s')
		case 3, 4:
			return in.scalarOfClass('n')
		}
		return in.scalarOfClass('l')
	}
	infra("unknown atom class %q", c)
	return c17Scalar{}
}

func (in *c17Inst) atom(leaf string) c17Scalar {
	if s, ok := in.atoms[leaf]; ok {
		return s
	}
	s := in.scalarOfClass(leaf[0])
	in.atoms[leaf] = s
	in.aIndex[leaf] = len(in.aOrder)
	in.aOrder = append(in.aOrder, leaf)
	return s
}

func (in *c17Inst) key(name string) string {
	if k, ok := in.keys[name]; ok {
		return k
	}
	var k string
	if in.safe || in.r.Intn(2) == 0 {
		k = c17SafeKeys[in.r.Intn(len(c17SafeKeys))]
	} else {
		k = c17NastyKeys[in.r.Intn(len(c17NastyKeys))]
	}
	for n := 2; in.used[k]; n++ { // keys are distinct within a vector
		k = fmt.Sprintf("%s%d", strings.TrimRight(k, "0123456789"), n)
	}
	in.used[k] = true
	in.keys[name] = k
	in.kIndex[name] = len(in.kOrder)
	in.kOrder = append(in.kOrder, name)
	return k
}

// goValue: the Go value (as encoding/json would produce it) of a JSON tree of the model.
func (in *c17Inst) goValue(v c17Val) any {
	switch v.Kind {
	case 'a':
		out := make([]any, 0, len(v.S))
		for _, it := range v.S {
			out = append(out, in.goValue(it))
		}
		return out
	case 'o':
		out := map[string]any{}
		for j, it := range v.S {
			out[in.key(v.K[j])] = in.goValue(it)
		}
		return out
	}
	if v.isNull() {
		return nil
	}
	if !v.isAtom() {
		infra("goValue of %q", v.Leaf)
	}
	return c17ScalarGo(in.atom(v.Leaf))
}

func c17ScalarGo(s c17Scalar) any {
	switch s.K {
	case 's':
		return s.S
	case 'n', 'x':
		return s.N
	case 't':
		return true
	case 'f':
		return false
	}
	return nil
}

// c17DeepEq: equality of two decoded JSON values (numbers by ==).
func c17DeepEq(a, b any) bool {
	switch x := a.(type) {
	case nil:
		return b == nil
	case bool:
		y, ok := b.(bool)
		return ok && x == y
	case string:
		y, ok := b.(string)
		return ok && x == y
	case float64:
		y, ok := b.(float64)
		return ok && x == y
	case []any:
		y, ok := b.([]any)
		if !ok || len(x) != len(y) {
			return false
		}
		for i := range x {
			if !c17DeepEq(x[i], y[i]) {
				return false
			}
		}
		return true
	case map[string]any:
		y, ok := b.(map[string]any)
		if !ok || len(x) != len(y) {
			return false
		}
		for k, xv := range x {
			yv, ok := y[k]
			if !ok || !c17DeepEq(xv, yv) {
				return false
			}
		}
		return true
	}
	return false
}

// c17ParseJSONText: text must be exactly one JSON value (plus whitespace).
func c17ParseJSONText(b []byte) (any, error) {
	dec := json.NewDecoder(bytes.NewReader(b))
	var v any
	if err := dec.Decode(&v); err != nil {
		return nil, err
	}
	var extra any
	if err := dec.Decode(&extra); err == nil {
		return nil, fmt.Errorf("more than one JSON value")
	} else if err.Error() != "EOF" {
		return nil, fmt.Errorf("trailing garbage: %v", err)
	}
	return v, nil
}

// ---- JSON text written by the harness (input documents)

func c17WriteJSONString(sb *bytes.Buffer, s string, style int) {
	sb.WriteByte('"')
	for _, ru := range s {
		switch {
		case ru == '"' || ru == '\\':
			sb.WriteByte('\\')
			sb.WriteRune(ru)
		case ru == '\n' && style == 2:
			sb.WriteString(`\n`)
		case ru == '\t' && style == 2:
			sb.WriteString(`\t`)
		case ru == '\r' && style == 2:
			sb.WriteString(`\r`)
		case ru == '/' && style == 2:
			sb.WriteString(`\/`)
		case ru < 0x20:
			fmt.Fprintf(sb, `\u%04x`, ru)
		case ru >= 0x80 && style == 1:
			if ru >= 0x10000 {
				r2 := ru - 0x10000
				fmt.Fprintf(sb, `\u%04x\u%04X`, 0xd800+(r2>>10), 0xdc00+(r2&0x3ff))
			} else {
				fmt.Fprintf(sb, `\u%04X`, ru)
			}
		default:
			sb.WriteRune(ru)
		}
	}
	sb.WriteByte('"')
}

func c17WriteJSONNumber(sb *bytes.Buffer, f float64, style int) {
	if f == 0 && math.Signbit(f) {
		sb.WriteString("-0")
		return
	}
	switch style {
	case 1:
		sb.WriteString(strings.Replace(strconv.FormatFloat(f, 'e', -1, 64), "e", "E", 1))
	case 2:
		if math.Abs(f) < 1e15 && math.Abs(f) >= 1e-4 {
			sb.WriteString(strconv.FormatFloat(f, 'f', -1, 64))
			return
		}
		fallthrough
	default:
		sb.WriteString(strconv.FormatFloat(f, 'g', -1, 64))
	}
}

func c17WriteJSONScalar(sb *bytes.Buffer, s c17Scalar, r *rand.Rand) {
	style := 0
	if r != nil {
		style = r.Intn(3)
	}
	switch s.K {
	case 's':
		c17WriteJSONString(sb, s.S, style)
	case 'n':
		c17WriteJSONNumber(sb, s.N, style)
	case 't':
		sb.WriteString("true")
	case 'f':
		sb.WriteString("false")
	case 'z':
		sb.WriteString("null")
	default:
		infra("scalar kind %q has no JSON text", s.K)
	}
}

// c17WriteJSONDoc writes an instantiated JSON tree (no refs) as JSON text with seeded layout.
func (in *c17Inst) writeDoc(sb *bytes.Buffer, v c17Val, r *rand.Rand) {
	sp := func() {
		if r != nil && r.Intn(4) == 0 {
			sb.WriteString([]string{" ", "\n", "\t ", "  "}[r.Intn(4)])
		}
	}
	switch v.Kind {
	case 'a':
		sb.WriteByte('[')
		for j, it := range v.S {
			if j > 0 {
				sb.WriteByte(',')
			}
			sp()
			in.writeDoc(sb, it, r)
			sp()
		}
		sb.WriteByte(']')
	case 'o':
		sb.WriteByte('{')
		for j, it := range v.S {
			if j > 0 {
				sb.WriteByte(',')
			}
			sp()
			style := 0
			if r != nil {
				style = r.Intn(3)
			}
			c17WriteJSONString(sb, in.key(v.K[j]), style)
			sp()
			sb.WriteByte(':')
			sp()
			in.writeDoc(sb, it, r)
			sp()
		}
		sb.WriteByte('}')
	default:
		if v.isNull() {
			sb.WriteString("null")
			return
		}
		c17WriteJSONScalar(sb, in.atom(v.Leaf), r)
	}
}

// ---- programs that build a heap by assignments only

var c17PlainNum = regexp.MustCompile(`^[0-9]{1,12}(\.[0-9]{1,12})?$`)

// c17StrLit: a jqawk string literal for s, if one exists (no escape for the
// quote character; escapes only \n \t \\).
func c17StrLit(s string) (string, bool) {
	q := byte('\'')
	if strings.IndexByte(s, '\'') >= 0 {
		q = '"'
		if strings.IndexByte(s, '"') >= 0 {
			return "", false
		}
	}
	if !utf8.ValidString(s) || strings.IndexByte(s, 0) >= 0 {
		return "", false
	}
	var sb strings.Builder
	sb.WriteByte(q)
	for i := 0; i < len(s); i++ {
		switch s[i] {
		case '\\':
			sb.WriteString(`\\`)
		case '\n':
			sb.WriteString(`\n`)
		case '\t':
			sb.WriteString(`\t`)
		default:
			sb.WriteByte(s[i])
		}
	}
	sb.WriteByte(q)
	return sb.String(), true
}

type c17Built struct {
	Prog []byte
	Doc  []byte
	HasX bool
}

// c17Build renders the program for one heap: it reads the atoms from the input
// document ($.a, keys $.k; strings with quotes or control characters cannot be
// written as literals), allocates every container at its final size BEFORE any
// reference to it is stored (arrays are shared by slice header in the
// implementation; growing one after it was stored elsewhere is C09's finding
// alias-length, not this property), fills the slots in a seeded order and ends
// with tail(expr), where expr maps a model value (ref or atom) to an expression.
func c17Build(in *c17Inst, heap []c17Val, r *rand.Rand, tail func(expr func(v c17Val) string) []string) c17Built {
	hasX := false
	expr := func(v c17Val) string {
		if v.isRef() {
			return fmt.Sprintf("c%d", v.refID())
		}
		if v.isNull() {
			return "null"
		}
		s := in.atom(v.Leaf)
		switch s.K {
		case 'x':
			hasX = true
			switch {
			case math.IsNaN(s.N):
				return "XQ"
			case s.N > 0:
				return "XI"
			}
			return "XN"
		case 't', 'f', 'z':
			if r.Intn(3) == 0 {
				return map[byte]string{'t': "true", 'f': "false", 'z': "null"}[s.K]
			}
		case 'n':
			if t := strconv.FormatFloat(s.N, 'f', -1, 64); r.Intn(3) == 0 && c17PlainNum.MatchString(t) {
				return t
			}
		case 's':
			if lit, ok := c17StrLit(s.S); ok && r.Intn(3) == 0 {
				return lit
			}
		}
		return fmt.Sprintf("A[%d]", in.aIndex[v.Leaf])
	}
	keyExpr := func(ci int, name string) string {
		k := in.key(name)
		for _, sk := range c17SafeKeys {
			if (k == sk || strings.HasPrefix(k, sk) && c17IsIdent(k)) && r.Intn(2) == 0 {
				return fmt.Sprintf("c%d.%s", ci, k)
			}
		}
		if lit, ok := c17StrLit(k); ok && r.Intn(3) == 0 {
			return fmt.Sprintf("c%d[%s]", ci, lit)
		}
		return fmt.Sprintf("c%d[K[%d]]", ci, in.kIndex[name])
	}
	var create, fill []string
	for i, c := range heap {
		ci := i + 1
		k := len(c.S)
		if c.Kind == 'a' {
			switch st := r.Intn(3); {
			case k == 0:
				create = append(create, fmt.Sprintf("c%d = []", ci))
			case st == 0:
				create = append(create, fmt.Sprintf("c%d = [%s]", ci, strings.TrimSuffix(strings.Repeat("0, ", k), ", ")))
			case st == 1:
				create = append(create, fmt.Sprintf("c%d[%d] = 0", ci, k-1))
			default:
				create = append(create, fmt.Sprintf("c%d = []", ci), fmt.Sprintf("c%d[%d] = 0", ci, k-1))
			}
			for j, sv := range c.S {
				fill = append(fill, fmt.Sprintf("c%d[%d] = %s", ci, j, expr(sv)))
			}
		} else {
			if k > 0 && r.Intn(3) == 0 {
				create = append(create, keyExpr(ci, c.K[0])+" = 0")
			} else {
				create = append(create, fmt.Sprintf("c%d = {}", ci))
			}
			for j, sv := range c.S {
				fill = append(fill, keyExpr(ci, c.K[j])+" = "+expr(sv))
			}
		}
	}
	r.Shuffle(len(fill), func(a, b int) { fill[a], fill[b] = fill[b], fill[a] })
	end := tail(expr)
	stmts := []string{"A = $.a", "K = $.k"}
	if hasX {
		stmts = append(stmts, "XI = $.big * 10", "XN = 0 - XI", "XQ = XI - XI", "print XI, XN, XQ")
	}
	stmts = append(stmts, create...)
	stmts = append(stmts, fill...)
	stmts = append(stmts, end...)
	sep := "; "
	if r.Intn(3) == 0 {
		sep = "\n  "
	}
	prog := "{ " + strings.Join(stmts, sep) + " }"
	if r.Intn(4) == 0 {
		prog += "\n"
	}

	var doc bytes.Buffer
	doc.WriteString(`{"a":[`)
	for i, leaf := range in.aOrder {
		if i > 0 {
			doc.WriteByte(',')
		}
		if s := in.atoms[leaf]; s.K == 'x' {
			doc.WriteString("null")
		} else {
			c17WriteJSONScalar(&doc, s, r)
		}
	}
	doc.WriteString(`],"k":[`)
	for i, name := range in.kOrder {
		if i > 0 {
			doc.WriteByte(',')
		}
		c17WriteJSONString(&doc, in.keys[name], r.Intn(3))
	}
	doc.WriteString(`],"big":1e308}`)
	return c17Built{Prog: []byte(prog), Doc: doc.Bytes(), HasX: hasX}
}

func c17IsIdent(s string) bool {
	for i := 0; i < len(s); i++ {
		c := s[i]
		if !(c == '_' || c >= 'a' && c <= 'z' || c >= 'A' && c <= 'Z' || i > 0 && c >= '0' && c <= '9') {
			return false
		}
	}
	return len(s) > 0
}

// c17Prealloc makes sure every atom and key reachable in the heap / values has
// its instance (and its index in $.a / $.k) before the program text is rendered.
func (in *c17Inst) prealloc(vals ...c17Val) {
	for _, v := range vals {
		switch v.Kind {
		case 'a':
			in.prealloc(v.S...)
		case 'o':
			for j := range v.S {
				in.key(v.K[j])
			}
			in.prealloc(v.S...)
		default:
			if v.isAtom() {
				in.atom(v.Leaf)
			}
		}
	}
}

// ---------------------------------------------------------------------------
// The expected output: tokens (JqRender.EncToks) parsed into a tree and matched
// against the real bytes; object members in any order.

type c17Node struct {
	kind  byte // 'L' leaf token, 'A' array, 'O' object
	tok   string
	items []*c17Node
	keys  []string // key tokens of an object
}

func c17ParseToks(toks []string, i int) (*c17Node, int) {
	if i >= len(toks) {
		infra("token stream ends early")
	}
	switch toks[i] {
	case "[":
		n := &c17Node{kind: 'A'}
		i++
		if toks[i] == "]" {
			return n, i + 1
		}
		for {
			var it *c17Node
			it, i = c17ParseToks(toks, i)
			n.items = append(n.items, it)
			if toks[i] == "]" {
				return n, i + 1
			}
			if toks[i] != ", " {
				infra("token stream: expected , or ] at %d in %v", i, toks)
			}
			i++
		}
	case "{":
		n := &c17Node{kind: 'O'}
		i++
		if toks[i] == "}" {
			return n, i + 1
		}
		for {
			if !strings.HasPrefix(toks[i], "@key:") || toks[i+1] != ": " {
				infra("token stream: expected key at %d in %v", i, toks)
			}
			n.keys = append(n.keys, toks[i])
			var it *c17Node
			it, i = c17ParseToks(toks, i+2)
			n.items = append(n.items, it)
			if toks[i] == "}" {
				return n, i + 1
			}
			if toks[i] != ", " {
				infra("token stream: expected , or } at %d in %v", i, toks)
			}
			i++
		}
	}
	return &c17Node{kind: 'L', tok: toks[i]}, i + 1
}

var c17NumRe = regexp.MustCompile(`^-?[0-9]+(\.[0-9]+)?$`)

type c17Matcher struct {
	in   *c17Inst
	data []byte
	why  string // first reason for a failed match (diagnosis only)
	nums int    // numbers whose contract was checked
}

func (m *c17Matcher) fail(pos int, format string, a ...any) (int, bool) {
	if m.why == "" {
		m.why = fmt.Sprintf("at byte %d: ", pos) + fmt.Sprintf(format, a...)
	}
	return 0, false
}

func (m *c17Matcher) lit(pos int, s string) (int, bool) {
	if bytes.HasPrefix(m.data[pos:], []byte(s)) {
		return pos + len(s), true
	}
	end := pos + len(s) + 10
	if end > len(m.data) {
		end = len(m.data)
	}
	return m.fail(pos, "expected %q, found %q", s, m.data[pos:end])
}

// number: NumText is opaque in the model; the contract is checked here.
func (m *c17Matcher) number(pos int, want float64) (int, bool) {
	end := pos
	for end < len(m.data) && !strings.ContainsRune(",]} \n", rune(m.data[end])) {
		end++
	}
	txt := string(m.data[pos:end])
	if !c17NumRe.MatchString(txt) {
		return m.fail(pos, "number %v rendered as %q: not plain positional decimal", want, txt)
	}
	got, err := strconv.ParseFloat(txt, 64)
	if err != nil || math.Float64bits(got) != math.Float64bits(want) {
		return m.fail(pos, "number %v (bits %x) rendered as %q which reads back as %v", want, math.Float64bits(want), txt, got)
	}
	m.nums++
	return end, true
}

func (m *c17Matcher) scalar(pos int, s c17Scalar, quoted bool) (int, bool) {
	switch s.K {
	case 's':
		if quoted {
			return m.lit(pos, `"`+s.S+`"`)
		}
		return m.lit(pos, s.S)
	case 'n':
		return m.number(pos, s.N)
	case 't':
		return m.lit(pos, "true")
	case 'f':
		return m.lit(pos, "false")
	case 'z':
		return m.lit(pos, "null")
	}
	infra("scalar kind %q cannot be matched", s.K)
	return 0, false
}

func (m *c17Matcher) node(n *c17Node, pos int) (int, bool) {
	switch n.kind {
	case 'A':
		p, ok := m.lit(pos, "[")
		for j, it := range n.items {
			if ok && j > 0 {
				p, ok = m.lit(p, ", ")
			}
			if ok {
				p, ok = m.node(it, p)
			}
		}
		if ok {
			p, ok = m.lit(p, "]")
		}
		return p, ok
	case 'O':
		p, ok := m.lit(pos, "{")
		if !ok {
			return p, ok
		}
		used := make([]bool, len(n.items))
		p, ok = m.members(n, used, len(n.items), p)
		if ok {
			p, ok = m.lit(p, "}")
		}
		return p, ok
	}
	tok := n.tok
	if !strings.HasPrefix(tok, "@") {
		return m.lit(pos, tok)
	}
	colon := strings.IndexByte(tok, ':')
	kind, name := tok[1:colon], tok[colon+1:]
	leafOf := func(c string) c17Scalar { return m.in.atom(c + name) }
	switch kind {
	case "raw":
		return m.scalar(pos, leafOf("s"), false)
	case "quo":
		return m.scalar(pos, leafOf("s"), true)
	case "num":
		return m.scalar(pos, leafOf("n"), false)
	case "word":
		return m.scalar(pos, leafOf("l"), false)
	case "atop":
		return m.scalar(pos, leafOf("a"), false)
	case "anest":
		return m.scalar(pos, leafOf("a"), true)
	}
	infra("token %q cannot be matched", tok)
	return 0, false
}

// members: the object's members in some order (the statement leaves it open).
func (m *c17Matcher) members(n *c17Node, used []bool, left int, pos int) (int, bool) {
	if left == 0 {
		return pos, true
	}
	for j := range n.items {
		if used[j] {
			continue
		}
		name := n.keys[j][len("@key:"):]
		head := `"` + m.in.key(name) + `": `
		if !bytes.HasPrefix(m.data[pos:], []byte(head)) {
			continue
		}
		p, ok := m.node(n.items[j], pos+len(head))
		if ok && left > 1 {
			p, ok = m.lit(p, ", ")
		}
		if ok {
			used[j] = true
			if p2, ok2 := m.members(n, used, left-1, p); ok2 {
				return p2, true
			}
			used[j] = false
		}
	}
	return m.fail(pos, "no remaining member of the object matches here")
}

// c17MatchOutput matches stdout against the token stream of one or more print
// statements; returns the byte spans of the top-level values.
func c17MatchOutput(in *c17Inst, toks []string, data []byte) (spans [][2]int, nums int, why string) {
	m := &c17Matcher{in: in, data: data}
	pos, i := 0, 0
	for i < len(toks) {
		var n *c17Node
		switch toks[i] {
		case " ", "\n":
			p, ok := m.lit(pos, toks[i])
			if !ok {
				return nil, m.nums, m.why
			}
			pos = p
			i++
			continue
		}
		n, i = c17ParseToks(toks, i)
		p, ok := m.node(n, pos)
		if !ok {
			if m.why == "" {
				m.why = "no match"
			}
			return nil, m.nums, m.why
		}
		spans = append(spans, [2]int{pos, p})
		pos = p
	}
	if pos != len(data) {
		end := pos + 40
		if end > len(data) {
			end = len(data)
		}
		return nil, m.nums, fmt.Sprintf("at byte %d: %d unexpected trailing bytes %q", pos, len(data)-pos, data[pos:end])
	}
	return spans, m.nums, ""
}

// c17EscapeFree: every string and key the JSON tree uses can stand in JSON text as it is.
func (in *c17Inst) escapeFree(v c17Val) bool {
	plain := func(s string) bool {
		if !utf8.ValidString(s) {
			return false
		}
		for i := 0; i < len(s); i++ {
			if s[i] < 0x20 || s[i] == '"' || s[i] == '\\' {
				return false
			}
		}
		return true
	}
	switch v.Kind {
	case 'a', 'o':
		for j, it := range v.S {
			if v.Kind == 'o' && !plain(in.key(v.K[j])) {
				return false
			}
			if !in.escapeFree(it) {
				return false
			}
		}
		return true
	}
	if v.isAtom() {
		if s := in.atom(v.Leaf); s.K == 's' {
			return plain(s.S)
		}
	}
	return true
}

// ---------------------------------------------------------------------------
// Go transcription of JqRender.PrettyR / PrettyC / PrintStmt.  It is the oracle
// ONLY for the large-heap family (heaps beyond TLC's universe); on every vector
// of the small universe it is compared token by token with TLC's output, so it
// cannot silently drift from the specification.

type c17Model struct {
	heap  []c17Val
	out   []string
	limit int
	over  bool
}

func c17NameOf(leaf string) string { return leaf[1:] }

func (m *c17Model) emit(t string) {
	if len(m.out) >= m.limit {
		m.over = true
		return
	}
	m.out = append(m.out, t)
}

func (m *c17Model) pretty(v c17Val, path []bool, top bool) {
	if m.over {
		return
	}
	switch {
	case v.isRef():
		id := v.refID()
		if path[id] {
			m.emit("<circular reference>")
			return
		}
		path[id] = true
		m.container(m.heap[id-1], path)
		path[id] = false
	case v.Kind != 0:
		m.container(v, path)
	case v.isNull():
		m.emit("null")
	default:
		kind := map[byte]string{'s': "quo", 'n': "num", 'l': "word", 'a': "anest", 'x': "any"}[v.Leaf[0]]
		if top && v.Leaf[0] == 's' {
			kind = "raw"
		}
		if top && v.Leaf[0] == 'a' {
			kind = "atop"
		}
		m.emit("@" + kind + ":" + c17NameOf(v.Leaf))
	}
}

func (m *c17Model) container(c c17Val, path []bool) {
	open, cl := "[", "]"
	if c.Kind == 'o' {
		open, cl = "{", "}"
	}
	m.emit(open)
	for j, sv := range c.S {
		if j > 0 {
			m.emit(", ")
		}
		if c.Kind == 'o' {
			m.emit("@key:" + c.K[j])
			m.emit(": ")
		}
		m.pretty(sv, path, false)
	}
	m.emit(cl)
}

// c17ModelPrint: tokens of `print args` ($ = dollar when there are none); ok=false when over the limit.
func c17ModelPrint(heap []c17Val, args []c17Val, dollar c17Val, limit int) ([]string, bool) {
	m := &c17Model{heap: heap, limit: limit}
	path := make([]bool, len(heap)+1)
	if len(args) == 0 {
		m.pretty(dollar, path, true)
	}
	for i, a := range args {
		if i > 0 {
			m.emit(" ")
		}
		m.pretty(a, path, true)
	}
	m.emit("\n")
	return m.out, !m.over
}

func c17SameToks(a, b []string) bool {
	if len(a) != len(b) {
		return false
	}
	for i := range a {
		if a[i] != b[i] {
			return false
		}
	}
	return true
}

// ---------------------------------------------------------------------------
// Trace_Render: heaps beyond the exhaustive universe, evaluated by TLC.

func c17TLAName(name string) string {
	if name == "" {
		return "<<>>"
	}
	return "<<" + strings.ReplaceAll(name, ".", ", ") + ">>"
}

func c17TLAVal(v c17Val) string {
	switch {
	case v.isRef():
		return fmt.Sprintf("Ref(%d)", v.refID())
	case v.Kind == 0:
		return fmt.Sprintf("Atom(%q, %s)", v.Leaf[:1], c17TLAName(v.Leaf[1:]))
	}
	items := make([]string, len(v.S))
	for j, it := range v.S {
		items[j] = c17TLAVal(it)
	}
	if v.Kind == 'a' {
		return "Arr(<<" + strings.Join(items, ", ") + ">>)"
	}
	keys := make([]string, len(v.K))
	for j, k := range v.K {
		keys[j] = c17TLAName(k)
	}
	return "Obj(<<" + strings.Join(items, ", ") + ">>, <<" + strings.Join(keys, ", ") + ">>)"
}

type c17TraceVec struct {
	I   int               `json:"i"`
	Out []string          `json:"out"`
	JS  c17Val            `json:"js"`
	Dev map[string]c17Val `json:"dev"`
}

// c17TraceRender has TLC evaluate JqRender on the given heaps (module
// Trace_Render over a generated Trace_RenderData) and returns, per heap, the
// expected tokens of `print c1` and the JSON tree of c1.
func c17TraceRender(c *Ctx, heaps [][]c17Val) []c17TraceVec {
	var sb strings.Builder
	sb.WriteString("------------------------- MODULE Trace_RenderData -------------------------\nEXTENDS JqRender\nHeaps == <<\n")
	for i, h := range heaps {
		cs := make([]string, len(h))
		for k, cv := range h {
			cs[k] = c17TLAVal(cv)
		}
		if i > 0 {
			sb.WriteString(",\n")
		}
		sb.WriteString("  <<" + strings.Join(cs, ", ") + ">>")
	}
	sb.WriteString("\n>>\n=============================================================================\n")
	out := make([]c17TraceVec, len(heaps))
	got := 0
	c.TLC(TLCOpt{Module: "Trace_Render", Workers: 8, Heap: "6g", Files: map[string]string{"Trace_RenderData.tla": sb.String()},
		Cfg: cfgText("INIT Init", "NEXT Next", "INVARIANT Laws", "INVARIANT Vec", "CHECK_DEADLOCK FALSE"),
		OnVec: func(raw []byte) {
			var v c17TraceVec
			VecDecode(raw, &v)
			if v.I < 1 || v.I > len(heaps) {
				infra("Trace_Render: bad index in %s", raw)
			}
			if out[v.I-1].I == 0 {
				got++
			}
			out[v.I-1] = v
		}})
	if got != len(heaps) {
		infra("Trace_Render: %d of %d heaps evaluated", got, len(heaps))
	}
	return out
}

// c17MediumHeaps: seeded heaps of 4..maxN containers whose rendering stays below limit tokens.
func c17MediumHeaps(r *rand.Rand, count, maxN int) [][]c17Val {
	var heaps [][]c17Val
	for len(heaps) < count {
		h, toks := c17GenHeap(r, 4+r.Intn(maxN-3))
		if len(toks) <= 2500 {
			heaps = append(heaps, h)
		}
	}
	return heaps
}

// ---------------------------------------------------------------------------

func init() {
	register("C17", checkC17)
	// "c17run": the run kind with the goroutine stack bounded to 64 MiB (the Go default is 1 GiB).  The values
	// of the heap families have at most a few hundred containers; a rendering that recurses without end then
	// dies within milliseconds instead of first eating a gigabyte per worker (16 workers in parallel).
	jobKinds["c17run"] = func(j *Job) Result {
		defer debug.SetMaxStack(debug.SetMaxStack(64 << 20)) // restored afterwards: other job kinds of the same worker keep the default
		return execRun(j)
	}
}

// c17Decided: 20 violations are on record, the verdict of this run is settled; the families stop
// submitting work (a change that makes every second vector crash a worker would otherwise keep the
// run busy until TLC's timeout turns it into an infrastructure failure).
func c17Decided(c *Ctx) bool {
	c.mu.Lock()
	defer c.mu.Unlock()
	return len(c.violations) >= 20
}

// c17NonTerm decides what a dead / hung / panicking worker means: the first two occurrences are
// reproduced in isolation (the machine may be loaded), after that the class is established and
// every further one is taken as it is.  Returns the result to judge and whether it is a violation.
type c17NonTerm struct{ confirmed int }

func (n *c17NonTerm) settle(pool *Pool, j *Job, r Result) (Result, bool) {
	if r.Class != "crash" && r.Class != "timeout" && r.Class != "panic" {
		return r, false
	}
	if n.confirmed >= 2 {
		return r, true
	}
	r2 := pool.Do(j)
	if r2.Class == r.Class {
		n.confirmed++
		return r2, true
	}
	return r2, r2.Class == "crash" || r2.Class == "timeout" || r2.Class == "panic"
}

type c17Vec struct {
	H    []c17Val `json:"h"`
	Args []c17Val `json:"args"`
	Out  []string `json:"out"`
	JS   []c17Val `json:"js"`
	RB   bool     `json:"rb"` // MC_Render.RepeatedBack: an ancestor is referred to twice from below itself
}

type c17DocVec struct {
	Doc  c17Val   `json:"doc"`
	Out  []string `json:"out"`
	Rule []string `json:"rule"`
	Subs []struct {
		Exp c17Val            `json:"exp"`
		Dev map[string]c17Val `json:"dev"`
	} `json:"subs"`
}

func c17Clip(b []byte) string {
	if len(b) > 600 {
		return string(b[:600]) + fmt.Sprintf("...(%d bytes)", len(b))
	}
	return string(b)
}

// C17: print renders every value in one well-defined, terminating, re-readable format.
func checkC17(c *Ctx) {
	c.Assume("order of the members inside a printed object is not compared (any permutation is accepted; determinism is C10)")
	c.Assume("rendering of functions, regexes, unset variables and non-finite numbers by print is left open (the statement fixes strings, finite numbers, true/false/null, arrays, objects)")
	c.Assume("number sub-claim (plain positional decimal, no exponent, reads back as the identical double) is decided by seeded instantiation only: every number atom is drawn from a pool of special doubles (integers beyond 2^53, 1e21, 1e-7, 5e-324, max double, -0) and random bit patterns and checked by regexp + ParseFloat bit equality on the real output; the model treats NumText as opaque")
	c.Assume("string contents are opaque atoms instantiated per seed (quotes, backslashes, control characters, U+2028, multi-byte, astral); 're-readable as JSON' is compared only when every string of the value needs no escaping, as the statement says")
	c.Assume("heaps are built with every array allocated at its final size before a reference to it is stored; arrays that grow after being aliased are C09's finding alias-length and are not printed here")
	c.Assume("large-heap family (up to ~200 containers): the oracle is a Go transcription of JqRender.Pretty, cross-checked token by token against TLC on every vector of the exhaustive universe")
	pool := c.Pool()
	var nNum, nReread, nCirc, nCross, nRepeatBack int64
	phases := map[string]float64{}
	t0 := time.Now()
	phase := func(name string) {
		phases[name] = math.Round(time.Since(t0).Seconds()*10) / 10
		t0 = time.Now()
	}

	// development only: VERIF_C17_ONLY=live,grow runs just the named families
	only := os.Getenv("VERIF_C17_ONLY")
	want := func(name string) bool { return only == "" || strings.Contains(","+only+",", ","+name+",") }
	nonTerm := &c17NonTerm{}
	// verdict for one executed print job
	judge := func(fam string, j *Job, r Result, in *c17Inst, toks []string, js []c17Val, key string, nontrivial bool) {
		rep := func(why string) map[string]any {
			return map[string]any{"family": fam, "program": string(j.Prog), "input": string(j.Files[0].Data), "vector": json.RawMessage(j.Tag),
				"expected_tokens": toks, "got_class": r.Class, "got_stdout": c17Clip(r.Stdout), "got_err": r.ErrMsg, "why": why, "detail": r.Detail}
		}
		// rendering must terminate: a dead or hung worker is reproduced in isolation before it is reported
		var bad bool
		if r, bad = nonTerm.settle(pool, j, r); bad {
			c.Violation("print-does-not-terminate", rep("worker "+r.Class+" while printing: rendering must terminate (reproduced in isolation)"))
			return
		}
		if r.Class != "ok" {
			c.Violation("print-error", rep("printing must succeed"))
			return
		}
		spans, nums, why := c17MatchOutput(in, toks, r.Stdout)
		nNum += int64(nums)
		if why != "" {
			c.Violation("print-format", rep(why))
			return
		}
		// re-readable: the rendering of an acyclic container whose strings need no escaping is JSON equal to the value
		for i, sp := range spans {
			if i >= len(js) || js[i].Kind == 0 || !in.escapeFree(js[i]) {
				continue
			}
			got, err := c17ParseJSONText(r.Stdout[sp[0]:sp[1]])
			if err != nil || !c17DeepEq(got, in.goValue(js[i])) {
				c.Violation("print-not-rereadable", rep(fmt.Sprintf("argument %d: rendering %q does not parse to the value (err=%v)", i, c17Clip(r.Stdout[sp[0]:sp[1]]), err)))
				return
			}
			nReread++
		}
		for _, t := range toks {
			if t == "<circular reference>" {
				nCirc++
				break
			}
		}
		c.Case(key, nontrivial)
	}

	// ---- (A1) every heap of the universe, printed from its root; (A2) argument lists
	runHeaps := func(fam string, cfg string, sampleEvery int) {
		n := 0
		st := pool.NewStream(func(j *Job, r Result) {
			var v c17Vec
			VecDecode([]byte(j.Tag), &v)
			in := c17NewInst(c.Seed, []byte(j.Tag))
			in.prealloc(v.H...)
			in.prealloc(v.Args...)
			nontrivial := len(v.H) > 1 || len(v.Args) != 1
			if v.RB {
				nRepeatBack++
			}
			judge(fam, j, r, in, v.Out, v.JS, fam+":"+j.Tag, nontrivial)
			n++
			if n%sampleEvery == 1 {
				c.Sample(map[string]any{"family": fam, "program": string(j.Prog), "input": string(j.Files[0].Data), "expected_tokens": v.Out, "stdout": c17Clip(r.Stdout)})
			}
		})
		c.TLC(TLCOpt{Module: "MC_Render", Cfg: cfg, Workers: 12, Heap: "6g",
			OnVec: func(raw []byte) {
				var v c17Vec
				VecDecode(raw, &v)
				// the Go transcription of the model must agree with TLC (it is the oracle of the large-heap family)
				dollar := c17Val{Leaf: "#1"}
				if mt, ok := c17ModelPrint(v.H, v.Args, dollar, 1<<20); !ok || !c17SameToks(mt, v.Out) {
					infra("Go transcription of JqRender.Pretty disagrees with TLC on %s: %v", raw, mt)
				}
				nCross++
				if c17Decided(c) {
					return
				}
				in := c17NewInst(c.Seed, raw)
				in.prealloc(v.H...)
				in.prealloc(v.Args...)
				r := rand.New(rand.NewSource(c17Seed(c.Seed, raw, "prog")))
				b := c17Build(in, v.H, r, func(expr func(c17Val) string) []string {
					if len(v.Args) == 0 {
						return []string{"$ = c1", "print"}
					}
					parts := make([]string, len(v.Args))
					for i, a := range v.Args {
						parts[i] = expr(a)
					}
					return []string{"print " + strings.Join(parts, ", ")}
				})
				st.Submit(Job{Kind: "c17run", Prog: b.Prog, Files: []FileIn{{Name: "in.json", Data: b.Doc}}, Tag: string(raw)})
			}})
		st.Wait()
	}
	maxC, maxS := 3, 2
	if want("heaps") {
		runHeaps("heap", cfgText("INIT Init", "NEXT Next", "CONSTANTS", fmt.Sprintf("MaxC = %d", maxC), fmt.Sprintf("MaxS = %d", maxS),
			`Classes = {"s", "n", "l"}`, `ArgMode = "root"`, "MaxArgs = 1", "INVARIANT Laws", "INVARIANT VecPrint", "CHECK_DEADLOCK FALSE"), 9000)
		if c.Thorough() {
			// every cycle / sharing shape of 4 containers: slots hold references only (188,000 heaps up to renaming)
			runHeaps("shapes4", cfgText("INIT Init", "NEXT Next", "CONSTANTS", "MaxC = 4", "MaxS = 2",
				`Classes = {}`, `ArgMode = "root"`, "MaxArgs = 1", "INVARIANT Laws", "INVARIANT VecPrint", "CHECK_DEADLOCK FALSE"), 40000)
		}
	}
	phase("heaps")
	lS := 1
	if c.Thorough() {
		lS = 2
	}
	if want("args") {
		runHeaps("args", cfgText("INIT Init", "NEXT Next", "CONSTANTS", "MaxC = 2", fmt.Sprintf("MaxS = %d", lS),
			`Classes = {"s", "n", "l"}`, `ArgMode = "lists"`, "MaxArgs = 3", "INVARIANT Laws", "INVARIANT VecPrint", "CHECK_DEADLOCK FALSE"), 1500)
	}
	phase("arglists")
	// ---- (A2b) the print statement as a unit: arguments with effects, errors, control signals (MC_PrintStmt)
	if want("stmt") {
		c17PrintStmtFamily(c, pool, nonTerm)
	}
	phase("print-stmt")
	// ---- (A2d) a bare print / a rule without a body prints the CURRENT $ (MC_RenderLive)
	if want("live") {
		c17LiveFamily(c, pool, judge)
	}
	phase("live-dollar")
	// ---- (A2c) arrays that share storage but differ in length / start (MC_RenderView)
	if !c17Decided(c) && want("views") {
		c.Assume("views (arrays that share storage but differ in length, MC_RenderView) exist only through C09's open finding alias-length; each vector first confirms by length() probes that the implementation realised the windows of the model, vectors whose probes differ are not compared")
		var nReal, nUnreal int64
		cfg, _ := c17ViewCfg(c.Thorough())
		nvw := 0
		stv := pool.NewStream(func(j *Job, r Result) {
			var v c17ViewVec
			VecDecode([]byte(j.Tag), &v)
			in := c17NewInst(c.Seed, []byte(j.Tag))
			in.prealloc(v.H...)
			c17ViewDistinct(in, v.H)
			b := c17BuildViews(in, v.H, rand.New(rand.NewSource(c17Seed(c.Seed, []byte(j.Tag), "view-print"))), nil)
			if r.Class == "ok" {
				rest, realised := c17ViewProbe(r.Stdout, b.Probes)
				if !realised {
					nUnreal++
					return
				}
				r.Stdout = rest
			}
			nReal++
			judge("view-print", j, r, in, v.Out, []c17Val{v.Exp}, "view-print:"+j.Tag, true)
			nvw++
			if nvw%4000 == 1 {
				c.Sample(map[string]any{"family": "view-print", "program": string(j.Prog), "input": string(j.Files[0].Data), "expected_tokens": v.Out, "stdout": c17Clip(r.Stdout)})
			}
		})
		c.TLC(TLCOpt{Module: "MC_RenderView", Workers: 8, Heap: "6g", Cfg: cfg,
			OnVec: func(raw []byte) {
				if c17Decided(c) {
					return
				}
				var v c17ViewVec
				VecDecode(raw, &v)
				in := c17NewInst(c.Seed, raw)
				in.prealloc(v.H...)
				c17ViewDistinct(in, v.H)
				b := c17BuildViews(in, v.H, rand.New(rand.NewSource(c17Seed(c.Seed, raw, "view-print"))), []string{"print c1"})
				stv.Submit(Job{Kind: "c17run", Prog: b.Prog, Files: []FileIn{{Name: "in.json", Data: b.Doc}}, Tag: string(raw)})
			}})
		stv.Wait()
		c.Set("view_vectors_realised", nReal)
		c.Set("view_vectors_not_realised", nUnreal)
	}
	phase("views")
	// ---- (A2e) an array and its pre-growth copy: shared cells, two arrays (MC_RenderGrow)
	if !c17Decided(c) && want("grow") {
		c17GrowFamily(c, pool, judge)
	}
	phase("grown-copy")
	// ---- (A3) documents as read: bare print in BEGINFILE, and a rule without a body
	w3 := 1
	if c.Thorough() {
		w3 = 2
	}
	nd := 0
	if want("docs") {
		std := pool.NewStream(func(j *Job, r Result) {
			var v c17DocVec
			VecDecode([]byte(j.Tag), &v)
			in := c17NewInst(c.Seed, []byte(j.Tag))
			in.prealloc(v.Doc)
			toks, fam := v.Out, "doc-bare-print"
			js := []c17Val{v.Subs[0].Exp}
			if j.N == 1 {
				toks, fam = v.Rule, "doc-bodyless-rule"
				if v.Doc.Kind == 'a' {
					js = nil
					for _, sb := range v.Subs[1:] {
						js = append(js, sb.Exp)
					}
				}
			}
			judge(fam, j, r, in, toks, js, fam+":"+j.Tag, v.Doc.Kind != 0)
			nd++
			if nd%5000 == 1 {
				c.Sample(map[string]any{"family": fam, "program": string(j.Prog), "input": string(j.Files[0].Data), "stdout": c17Clip(r.Stdout)})
			}
		})
		c.TLC(TLCOpt{Module: "MC_RenderDoc", Workers: 8, Heap: "6g",
			Cfg: cfgText("INIT Init", "NEXT Next", "CONSTANTS", "W1 = 2", "W2 = 2", fmt.Sprintf("W3 = %d", w3), "INVARIANT Laws", "INVARIANT Vec", "CHECK_DEADLOCK FALSE"),
			OnVec: func(raw []byte) {
				var v c17DocVec
				VecDecode(raw, &v)
				if c17Decided(c) {
					return
				}
				in := c17NewInst(c.Seed, raw)
				in.prealloc(v.Doc)
				r := rand.New(rand.NewSource(c17Seed(c.Seed, raw, "doc")))
				var doc bytes.Buffer
				in.writeDoc(&doc, v.Doc, r)
				bare := []string{"BEGINFILE { print }", "BEGINFILE { print; }", "BEGINFILE {\n print\n}"}[r.Intn(3)]
				rule := []string{"true", "1", "!false", "1 # rule without a body\n"}[r.Intn(4)]
				std.Submit(Job{Kind: "run", Prog: []byte(bare), Files: []FileIn{{Name: "in.json", Data: doc.Bytes()}}, Tag: string(raw), N: 0})
				std.Submit(Job{Kind: "run", Prog: []byte(rule), Files: []FileIn{{Name: "in.json", Data: doc.Bytes()}}, Tag: string(raw), N: 1})
			}})
		std.Wait()
	}

	phase("documents")
	// ---- (A4) the number contract on the whole special pool, top level and nested
	if want("numbers") {
		var jobs []Job
		var vals [][]float64
		r := rand.New(rand.NewSource(c17Seed(c.Seed, nil, "numbers")))
		all := append([]float64{}, c17DoublePool...)
		extra := 400
		if c.Thorough() {
			extra = 20000
		}
		for i := 0; i < extra; i++ {
			all = append(all, c17RandDouble(r))
		}
		for i := 0; i < len(all); i += 8 {
			end := i + 8
			if end > len(all) {
				end = len(all)
			}
			var doc bytes.Buffer
			doc.WriteByte('[')
			for k, f := range all[i:end] {
				if k > 0 {
					doc.WriteByte(',')
				}
				c17WriteJSONNumber(&doc, f, r.Intn(3))
			}
			doc.WriteByte(']')
			// each element on its own at top level, then the whole array (nested rendering)
			jobs = append(jobs, Job{Kind: "run", Prog: []byte("{ print $ }\nENDFILE { print $ }"), Files: []FileIn{{Name: "n.json", Data: doc.Bytes()}}})
			vals = append(vals, all[i:end])
		}
		pool.Map(jobs, func(i int, r Result) {
			in := c17NewInst(c.Seed, nil)
			var toks []string
			for k, f := range vals[i] {
				leaf := fmt.Sprintf("n%d", k)
				in.atoms[leaf] = c17Scalar{K: 'n', N: f}
				toks = append(toks, "@num:"+leaf[1:], "\n")
			}
			toks = append(toks, "[")
			for k := range vals[i] {
				if k > 0 {
					toks = append(toks, ", ")
				}
				toks = append(toks, fmt.Sprintf("@num:%d", k))
			}
			toks = append(toks, "]", "\n")
			if r.Class != "ok" {
				c.Violation("number-print-error", map[string]any{"input": string(jobs[i].Files[0].Data), "class": r.Class, "err": r.ErrMsg})
				return
			}
			_, nums, why := c17MatchOutput(in, toks, r.Stdout)
			nNum += int64(nums)
			if why != "" {
				c.Violation("number-format", map[string]any{"program": string(jobs[i].Prog), "input": string(jobs[i].Files[0].Data), "values": fmt.Sprint(vals[i]), "stdout": c17Clip(r.Stdout), "why": why})
				return
			}
			c.Case(fmt.Sprint("num:", vals[i]), true)
		})
	}

	phase("numbers")
	// ---- (A5) heaps of 4..40 containers, oracle = TLC (Trace_Render)
	if !c17Decided(c) && want("medium") {
		nMed := 150
		if c.Thorough() {
			nMed = 800
		}
		heaps := c17MediumHeaps(rand.New(rand.NewSource(c17Seed(c.Seed, nil, "medium"))), nMed, 40)
		exp := c17TraceRender(c, heaps)
		var jobs []Job
		var ins []*c17Inst
		for i, h := range heaps {
			if mt, ok := c17ModelPrint(h, []c17Val{{Leaf: "#1"}}, c17Val{Leaf: "#1"}, 1<<20); !ok || !c17SameToks(mt, exp[i].Out) {
				infra("Go transcription of JqRender.Pretty disagrees with TLC on medium heap %d", i)
			}
			nCross++
			raw, _ := json.Marshal(h)
			in := c17NewInst(c.Seed, raw)
			in.prealloc(h...)
			b := c17Build(in, h, rand.New(rand.NewSource(c17Seed(c.Seed, raw, "prog"))), func(expr func(c17Val) string) []string {
				return []string{"print c1"}
			})
			jobs = append(jobs, Job{Kind: "c17run", Prog: b.Prog, Files: []FileIn{{Name: "in.json", Data: b.Doc}}, Tag: string(raw)})
			ins = append(ins, in)
		}
		pool.Map(jobs, func(i int, r Result) {
			judge("medium-heap", &jobs[i], r, ins[i], exp[i].Out, []c17Val{exp[i].JS}, "medium:"+jobs[i].Tag, true)
		})
	}

	phase("medium")
	// ---- (B) termination at scale: random heaps of up to ~200 containers with back edges
	if !c17Decided(c) && want("large") {
		nLarge := 150
		if c.Thorough() {
			nLarge = 1500
		}
		r := rand.New(rand.NewSource(c17Seed(c.Seed, nil, "large")))
		type lg struct {
			heap []c17Val
			toks []string
			in   *c17Inst
		}
		var jobs []Job
		var metas []lg
		for i := 0; i < nLarge; i++ {
			size := 2 + r.Intn(40)
			if i%3 == 0 {
				size = 60 + r.Intn(141)
			}
			heap, toks := c17GenHeap(r, size)
			raw, _ := json.Marshal(heap)
			in := c17NewInst(c.Seed, raw)
			in.prealloc(heap...)
			b := c17Build(in, heap, rand.New(rand.NewSource(c17Seed(c.Seed, raw, "prog"))), func(expr func(c17Val) string) []string {
				return []string{"print c1"}
			})
			jobs = append(jobs, Job{Kind: "c17run", Prog: b.Prog, Files: []FileIn{{Name: "in.json", Data: b.Doc}}, Tag: string(raw)})
			metas = append(metas, lg{heap, toks, in})
		}
		var maxC, maxOut, withCirc int
		pool.Map(jobs, func(i int, r Result) {
			m := metas[i]
			before := nCirc
			judge("large-heap", &jobs[i], r, m.in, m.toks, nil, "large:"+jobs[i].Tag, true)
			if nCirc > before {
				withCirc++
			}
			if len(m.heap) > maxC {
				maxC = len(m.heap)
			}
			if len(r.Stdout) > maxOut {
				maxOut = len(r.Stdout)
			}
		})
		c.Set("large_heaps", map[string]int{"count": nLarge, "max_containers": maxC, "max_output_bytes": maxOut, "with_circular_reference": withCirc})
	}

	phase("large")
	c.Set("phase_wall_s", phases)
	c.Set("exhaustive", true)
	c.Set("numbers_contract_checked", nNum)
	c.Set("containers_reread_as_json", nReread)
	c.Set("outputs_with_circular_reference", nCirc)
	c.Set("outputs_with_two_back_references_to_one_ancestor", nRepeatBack)
	c.Set("go_model_cross_checked_vectors", nCross)
	c.Set("rule", "TLC enumerates every heap of <= 3 containers x <= 2 slots x {string, number, literal, reference} up to renaming (57,354), every print argument list of 0..3 values over 2-container heaps, and every JSON document tree of depth <= 3; "+
		"each is built by an assignment-only program on the real interpreter and stdout is matched against the model's token sequence (object members in any order); a case is non-trivial when it has more than one container or is not a single-argument print; distinct by vector")
	c.Set("checker_cmd", "tlc MC_Render (Laws, VecPrint) / MC_RenderDoc (Laws, Vec); replay through lang.EvalProgram in worker processes")
	c.Set("bounds", map[string]int{"MaxC": maxC, "MaxS": maxS, "ArgListsMaxS": lS, "MaxArgs": 3, "DocWidth3": w3})
}

// c17GenHeap: a random heap of n containers, all reachable from container 1,
// with a few sharing edges and back edges; returns it with the model's tokens
// for `print c1` (Go transcription of the model, see c17Model).
func c17GenHeap(r *rand.Rand, n int) ([]c17Val, []string) {
	for attempt := 0; ; attempt++ {
		type cont struct {
			kind  byte
			slots []string // "" = atom placeholder, "#k" = ref
		}
		cs := make([]cont, n)
		for i := range cs {
			cs[i].kind = "ao"[r.Intn(2)]
		}
		ins := func(i int, s string) {
			p := r.Intn(len(cs[i].slots) + 1)
			cs[i].slots = append(cs[i].slots, "")
			copy(cs[i].slots[p+1:], cs[i].slots[p:])
			cs[i].slots[p] = s
		}
		for i := 1; i < n; i++ { // spanning tree: parent among the recent ones (deep) or any earlier one (wide)
			lo := 0
			if r.Intn(3) > 0 && i > 6 {
				lo = i - 6
			}
			ins(lo+r.Intn(i-lo), fmt.Sprintf("#%d", i+1))
		}
		for i := range cs {
			for k := r.Intn(3); k > 0; k-- {
				ins(i, "")
			}
		}
		back := r.Intn(8)
		share := r.Intn(4)
		if attempt > 3 {
			share = 0
		}
		for k := 0; k < back; k++ { // edge to an earlier container or to itself: mostly a cycle
			i := r.Intn(n)
			t := 1 + r.Intn(i+1)
			ins(i, fmt.Sprintf("#%d", t))
			// a second reference to the same ancestor: from the same container, or from one created after
			// the target (often inside its rendering): the ancestor is met again after it was met once
			switch r.Intn(4) {
			case 0:
				ins(i, fmt.Sprintf("#%d", t))
			case 1:
				ins(t-1+r.Intn(n-t+1), fmt.Sprintf("#%d", t))
			}
		}
		for k := 0; k < share && n > 1; k++ { // edge to a later container: sharing (or a cycle through a back edge)
			i := r.Intn(n - 1)
			ins(i, fmt.Sprintf("#%d", i+2+r.Intn(n-i-1)))
		}
		heap := make([]c17Val, n)
		for i, ct := range cs {
			v := c17Val{Kind: ct.kind}
			v.S = make([]c17Val, len(ct.slots)) // non-nil even when empty
			for j, s := range ct.slots {
				if s == "" {
					s = fmt.Sprintf("%c%d.%d", "snl"[r.Intn(3)], i+1, j+1)
				}
				v.S[j] = c17Val{Leaf: s}
				if ct.kind == 'o' {
					v.K = append(v.K, fmt.Sprintf("%d.%d", i+1, j+1))
				}
			}
			heap[i] = v
		}
		toks, ok := c17ModelPrint(heap, []c17Val{{Leaf: "#1"}}, c17Val{Leaf: "#1"}, 150000)
		if ok {
			return heap, toks
		}
	}
}
