package main

import (
	"bytes"
	"encoding/json"
	"fmt"
	"math/rand"
	"os"
	"path/filepath"
	"strings"
	"time"
)

// C03, family (E): whole runs (spec/JqStreamRun.tla, spec/MC_StreamRun.tla).
//
// TLC runs every configuration of the bounded universe - program shape (which
// kinds of rule exist, with or without a global counter) x root selectors
// (paths, counting selectors, several) x one or two inputs (values of known
// structure, each input with one of 12 endings) - through JqStreamRun's
// transition system and emits, per finished run, the configuration and the
// expected activations (rule kind, input, counter, text of $), the outcome and
// the input the error names.  Each vector is rendered to a jqawk program,
// -r selectors and scheduled readers and executed through lang.EvalProgram
// under three chunkings; stdout, the outcome and the file named by the error
// are compared.  A sample is repeated on the compiled binary with real files.

type c03RunFile struct {
	Text    []string `json:"text"`
	Fault   c03Fault `json:"fault"`
	Ending  string   `json:"ending"`
	K       int      `json:"k"`
	Outcome string   `json:"outcome"`
}

type c03RunTok struct {
	R string   `json:"r"`
	F int      `json:"f"`
	C int      `json:"c"`
	T []string `json:"t"`
}

type c03RunVec struct {
	Slice   int          `json:"slice"`
	Shape   []string     `json:"shape"`
	Ctr     bool         `json:"ctr"`
	Sels    []string     `json:"sels"`
	Files   []c03RunFile `json:"files"`
	Toks    []c03RunTok  `json:"toks"`
	Body    int          `json:"body"`
	Outcome string       `json:"outcome"`
	Errfile int          `json:"errfile"`
}

// c03BinCase is handed back by the worker for the vectors chosen to be repeated on the binary.
type c03BinCase struct {
	Prog    string   `json:"prog"`
	Sels    []string `json:"sels"`
	Names   []string `json:"names"`
	Datas   [][]byte `json:"datas"` // what is readable of each input
	Want    []byte   `json:"want"`
	WantE   []byte   `json:"want_e"`
	Outcome string   `json:"outcome"`
	Errfile int      `json:"errfile"`
	Desc    string   `json:"desc"`
}

func init() {
	jobKinds["c03runvec"] = c03ExecRunVec
}

func c03RunFileName(f int) string { return fmt.Sprintf("f%d.json", f) }

// c03RunProgram: one rule per kind of the shape; variant chooses the order of
// the rules in the text (rules of different kinds do not interact).
func c03RunProgram(shape []string, ctr bool, variant int) string {
	has := map[string]bool{}
	for _, k := range shape {
		has[k] = true
	}
	cnt := ""
	if ctr {
		cnt = ", c++"
	}
	rules := map[string]string{
		"B":  "BEGIN { print 'B'" + cnt + " }",
		"BF": "BEGINFILE { print 'bf', $file" + cnt + ", json($) }",
		"P":  "{ print 'p', $file" + cnt + ", json($) }",
		"EF": "ENDFILE { print 'ef', $file" + cnt + ", json($) }",
		"E":  "END { print 'E'" + cnt + " }",
	}
	order := []string{"B", "BF", "P", "EF", "E"}
	if variant%2 == 1 {
		order = []string{"E", "EF", "P", "BF", "B"}
	}
	var parts []string
	// things that never run: a function definition, a pattern rule whose pattern is false
	// (3 of 8 variants; the bare program in the others)
	switch (variant / 8) % 8 {
	case 0:
		parts = append(parts, "function idle(x) { return x }")
	case 1, 2:
		parts = append(parts, "$file == 'no such input' { print 'never' }")
	}
	for _, k := range order {
		if has[k] {
			parts = append(parts, rules[k])
		}
	}
	return strings.Join(parts, "\n")
}

// c03RunSelector: the text of a selector kind; the s-th selector of a run uses
// scratch variables of its own (whether selectors of one value share variables is left open).
func c03RunSelector(kind string, s, variant int) string {
	v := fmt.Sprintf("i%d", s)
	switch kind {
	case "id":
		return "$"
	case "i0":
		return "$[0]"
	case "i1":
		return "$[1]"
	case "ctr":
		switch (variant/2 + s) % 4 {
		case 0:
			return "$[" + v + "++]"
		case 1:
			return "$[++" + v + " - 1]"
		case 2:
			return "$[(" + v + " += 1) - 1]"
		default:
			return "$[(" + v + " = " + v + " + 1) - 1]"
		}
	case "ctr0":
		if (variant/2+s)%2 == 0 {
			return "$[0][" + v + "++]"
		}
		return "$[0][(" + v + " += 1) - 1]"
	}
	return "?"
}

var c03RenderCache = map[string][]byte{}

// c03Render: what json($) prints for the value text t, taken from the real code
// on that value alone (rendering is C17's).
func c03Render(t []byte) ([]byte, string) {
	if o, ok := c03RenderCache[string(t)]; ok {
		return o, ""
	}
	r := execRun(&Job{Kind: "run", Prog: []byte("ENDFILE { print json($) }"), Files: []FileIn{{Name: "one.json", Data: t}}})
	if r.Class != "ok" {
		return nil, r.Class + ": " + r.ErrMsg
	}
	if len(r.Stdout) == 0 || r.Stdout[len(r.Stdout)-1] != '\n' {
		return nil, fmt.Sprintf("the value %q as the only value of an input: ENDFILE { print json($) } printed %q", t, r.Stdout)
	}
	c03RenderCache[string(t)] = r.Stdout
	return r.Stdout, ""
}

func c03RunLine(tok c03RunTok) ([]byte, string) {
	var sb bytes.Buffer
	switch tok.R {
	case "B", "E":
		sb.WriteString(tok.R)
		if tok.C >= 0 {
			fmt.Fprintf(&sb, " %d", tok.C)
		}
		sb.WriteByte('\n')
		return sb.Bytes(), ""
	}
	sb.WriteString(map[string]string{"BF": "bf", "P": "p", "EF": "ef"}[tok.R])
	sb.WriteByte(' ')
	sb.WriteString(c03RunFileName(tok.F))
	if tok.C >= 0 {
		fmt.Fprintf(&sb, " %d", tok.C)
	}
	sb.WriteByte(' ')
	r, bad := c03Render(c03Bytes(tok.T))
	if bad != "" {
		return nil, bad
	}
	sb.Write(r)
	return sb.Bytes(), ""
}

func c03ExecRunVec(j *Job) (res Result) {
	res.Class = "ok"
	var probs []c03Problem
	add := func(kind, name string, d map[string]any) {
		if len(probs) < 3 || kind == "bin" {
			probs = append(probs, c03Problem{kind, name, d})
		}
	}
	defer func() {
		for _, p := range probs {
			b, _ := json.Marshal(p)
			res.Out = append(res.Out, string(b))
		}
	}()
	var v c03RunVec
	if err := json.Unmarshal([]byte(j.Tag), &v); err != nil {
		add("model", "bad-run-vector", map[string]any{"err": err.Error()})
		return
	}
	variant := j.N
	prog := c03RunProgram(v.Shape, v.Ctr, variant)
	sels := make([]string, len(v.Sels))
	for s, k := range v.Sels {
		sels[s] = c03RunSelector(k, s+1, variant)
	}
	names := make([]string, len(v.Files))
	datas := make([][]byte, len(v.Files))
	for f := range v.Files {
		names[f] = c03RunFileName(f + 1)
		datas[f] = c03Bytes(v.Files[f].Text)
	}
	desc := func() map[string]any {
		fs := []map[string]any{}
		for f := range v.Files {
			fs = append(fs, map[string]any{"name": names[f], "text": string(datas[f]), "text_bytes": datas[f], "fault": v.Files[f].Fault,
				"ending": v.Files[f].Ending, "complete_values": v.Files[f].K, "ends": v.Files[f].Outcome})
		}
		return map[string]any{"program": prog, "selectors": sels, "inputs": fs, "slice": v.Slice,
			"expected_outcome": v.Outcome, "expected_error_names": v.Errfile}
	}
	// expected stdout
	var want []byte
	for i, tok := range v.Toks {
		l, bad := c03RunLine(tok)
		if bad != "" {
			d := desc()
			d["why"] = bad
			add("violation", "single-value", d)
			return
		}
		want = append(want, l...)
		_ = i
	}
	// whether END rules run after an input error is open: both are accepted
	wantE := want
	if v.Outcome == "json" {
		for _, k := range v.Shape {
			if k == "E" {
				c := -1
				if v.Ctr {
					c = len(v.Toks)
				}
				l, _ := c03RunLine(c03RunTok{R: "E", C: c})
				wantE = append(append([]byte{}, want...), l...)
			}
		}
	}
	rng := rand.New(rand.NewSource(int64(variant)*7919 + 3))
	for ci := 0; ci < 3; ci++ {
		files := make([]FileIn, len(v.Files))
		var chunkRep [][]int
		for f := range v.Files {
			fi := FileIn{Name: names[f], Data: datas[f]}
			flt := v.Files[f].Fault
			lim := len(datas[f])
			if flt.Kind == "eof" || flt.Kind == "ioerr" {
				fi.Fault, fi.FaultAt = flt.Kind, flt.At
				lim = flt.At
			}
			switch ci {
			case 1:
				fi.Chunks = make([]int, lim)
				for i := range fi.Chunks {
					fi.Chunks[i] = 1
				}
			case 2:
				for sum := 0; sum < lim; {
					n := 1 + rng.Intn(9)
					fi.Chunks = append(fi.Chunks, n)
					sum += n
				}
			}
			chunkRep = append(chunkRep, fi.Chunks)
			files[f] = fi
		}
		r := execRun(&Job{Kind: "run", Prog: []byte(prog), Sels: sels, Files: files})
		res.Depth++
		name, why := "", ""
		switch {
		case r.Class == "budget" || r.Class == "timeout":
			add("inconclusive", "budget", nil)
			continue
		case r.Class != v.Outcome:
			name, why = "run-outcome", fmt.Sprintf("the run ended with %s (%s), expected %s", r.Class, r.ErrMsg, v.Outcome)
			if v.Outcome == "json" && r.Class == "ok" {
				why = fmt.Sprintf("input %s does not end well (%s) but the run ended with status ok", names[v.Errfile-1], v.Files[v.Errfile-1].Ending)
			}
		case r.Class == "json" && r.FileName != names[v.Errfile-1]:
			name, why = "run-json-error-file", fmt.Sprintf("the error names %q, expected %q", r.FileName, names[v.Errfile-1])
		case !bytes.Equal(r.Stdout, want) && !bytes.Equal(r.Stdout, wantE):
			name, why = "run-output", "stdout is not the output of the complete values processed one after another"
		}
		if name != "" {
			d := desc()
			d["why"], d["chunks"], d["got_class"], d["got_msg"], d["got_file"] = why, chunkRep, r.Class, r.ErrMsg, r.FileName
			d["got_stdout"], d["expected_stdout"] = string(r.Stdout), string(want)
			add("violation", name, d)
		}
	}
	if len(j.Args) > 0 && j.Args[0] == "bin" {
		bc := c03BinCase{Prog: prog, Sels: sels, Names: names, Want: want, WantE: wantE, Outcome: v.Outcome, Errfile: v.Errfile}
		for f := range v.Files {
			d := datas[f]
			if v.Files[f].Fault.Kind == "eof" {
				d = d[:v.Files[f].Fault.At]
			}
			bc.Datas = append(bc.Datas, d)
		}
		b, _ := json.Marshal(bc)
		add("bin", string(b), nil)
	}
	return
}

// c03Runs: family (E).  handle deals with the problems found by the workers.
func c03Runs(c *Ctx, handle func([]string) bool) {
	c.Assume("whether END rules run after a JSON input error is open (both accepted); which input a selector's or a rule's run-time error would name is not part of this property")
	c.Assume("whether the root selectors of ONE value share scratch variables is open: the selectors of a run use distinct variable names")
	c.Assume("runs (family E): values are null, 7, \"s\", true, [], an object, and arrays of depth <= 3; selectors are $, $[0], $[1], counting selectors in four spellings and their pairs; programs have one rule per kind present; `exit` is not used")
	pool := c.Pool()
	mod2, mod3, maxV, binPer := 12, 40, 3, 3
	if c.Thorough() {
		mod2, mod3, maxV, binPer = 1, 2, 3, 12
	}
	salt := int((c.Seed%1000+1000)%1000)*11 + 5
	t0 := time.Now()
	var bins []c03BinCase
	binSeen := map[string]int{}
	nvec := 0
	st := pool.NewStream(func(j *Job, r Result) {
		var v c03RunVec
		VecDecode([]byte(j.Tag), &v)
		switch r.Class {
		case "ok":
		case "timeout":
			c.Count("inconclusive", 1)
			return
		default:
			c.Violation("run-crash", map[string]any{"vector": j.Tag, "class": r.Class, "detail": r.Detail})
			return
		}
		var rest []string
		for _, o := range r.Out {
			var p c03Problem
			if json.Unmarshal([]byte(o), &p) == nil && p.Kind == "bin" {
				var bc c03BinCase
				if err := json.Unmarshal([]byte(p.Name), &bc); err != nil {
					infra("bad bin case: %v", err)
				}
				bc.Desc = fmt.Sprintf("slice %d, shape %v, selectors %v", v.Slice, v.Shape, v.Sels)
				bins = append(bins, bc)
				continue
			}
			rest = append(rest, o)
		}
		handle(rest)
		c.Count("run_family_runs", int64(r.Depth))
		c.Count(fmt.Sprintf("run_family_slice%d", v.Slice), 1)
		nvals := 0
		for _, f := range v.Files {
			nvals += f.K
		}
		c.Case("run:"+hashKey(j.Tag), v.Outcome == "json" || nvals >= 2 || len(v.Sels) > 0)
		nvec++
		if nvec%2503 == 7 {
			c.Sample(map[string]any{"family": "run", "slice": v.Slice, "shape": v.Shape, "counter": v.Ctr, "selectors": v.Sels,
				"inputs": len(v.Files), "expected_outcome": v.Outcome, "expected_error_names_input": v.Errfile, "expected_activations": len(v.Toks)})
		}
	})
	seq := 0
	res := c.TLC(TLCOpt{Module: "MC_StreamRun", Workers: 8, Heap: "6g",
		Cfg: cfgText("INIT Init", "NEXT Next", "CONSTANTS",
			fmt.Sprintf("Mod2 = %d", mod2), fmt.Sprintf("Mod3 = %d", mod3), fmt.Sprintf("Salt = %d", salt), fmt.Sprintf("MaxV = %d", maxV),
			"INVARIANT InvRunTypeOK", "INVARIANT InvOneAfterAnother", "INVARIANT InvPrefixOut", "INVARIANT InvFinal",
			"INVARIANT InvRunFaultReported", "INVARIANT InvShapeFree", "INVARIANT InvFileLaw", "INVARIANT InvSelLaw",
			"INVARIANT Terminates", "INVARIANT Vec", "CHECK_DEADLOCK FALSE"),
		OnVec: func(raw []byte) {
			seq++
			var v c03RunVec
			VecDecode(raw, &v)
			// the variant (rule order, spelling of the counting selectors) derives from the seed and the vector
			h := hashKey(string(raw))
			variant := int((c.Seed%97+97)%97) + int(h[0])*5 + int(h[1])*64
			job := Job{Kind: "c03runvec", Tag: string(raw), N: variant}
			// a few vectors per (slice, outcome, faulty input, BEGIN-only or not) are repeated on the binary: only faults a file can show
			onDisk := true
			for _, f := range v.Files {
				onDisk = onDisk && f.Fault.Kind != "ioerr"
			}
			beginOnly := true
			for _, k := range v.Shape {
				beginOnly = beginOnly && k == "B"
			}
			key := fmt.Sprintf("%d|%s|%d|%v|%d", v.Slice, v.Outcome, v.Errfile, beginOnly, len(v.Sels))
			if onDisk && binSeen[key] < binPer && (int(h[2])+int((c.Seed%5+5)%5))%5 == 0 {
				binSeen[key]++
				job.Args = []string{"bin"}
			}
			st.Submit(job)
		}})
	st.Wait()
	c.Set("run_family_vectors", res.Vectors)
	c.Set("run_family_states", res.Distinct)

	// the sample on the compiled binary, inputs as files
	dir := c.TempDir("c03runbin")
	for i, bc := range bins {
		d := filepath.Join(dir, fmt.Sprintf("r%d", i))
		os.MkdirAll(d, 0o755)
		var args []string
		for _, s := range bc.Sels {
			args = append(args, "-r", s)
		}
		args = append(args, bc.Prog)
		for f, n := range bc.Names {
			if err := os.WriteFile(filepath.Join(d, n), bc.Datas[f], 0o644); err != nil {
				infra("write: %v", err)
			}
			args = append(args, n)
		}
		r := c.RunBin(args, nil, d, 60*time.Second)
		ins := map[string]string{}
		for f, n := range bc.Names {
			ins[n] = string(bc.Datas[f])
		}
		rep := map[string]any{"args": args, "inputs": ins, "what": bc.Desc, "exit": r.Exit, "stdout": string(r.Stdout), "stderr": string(r.Stderr),
			"expected_stdout": string(bc.Want), "expected_outcome": bc.Outcome}
		switch {
		case r.TimedOut:
			c.Count("inconclusive", 1)
			continue
		case r.Signaled || hasCrashMarks(r.Stderr):
			rep["why"] = "crash"
		case !bytes.Equal(r.Stdout, bc.Want) && !bytes.Equal(r.Stdout, bc.WantE):
			rep["why"] = "stdout is not the output of the complete values processed one after another"
		case bc.Outcome == "ok" && r.Exit != 0:
			rep["why"] = "well-formed inputs, but the exit status is not 0"
		case bc.Outcome == "json" && r.Exit == 0:
			rep["why"] = "input " + bc.Names[bc.Errfile-1] + " does not end well but the exit status is 0"
		case bc.Outcome == "json" && !strings.Contains(string(r.Stderr), bc.Names[bc.Errfile-1]):
			rep["why"] = "the error message does not name " + bc.Names[bc.Errfile-1]
		}
		if rep["why"] != nil {
			c.Violation("run-binary", rep)
			continue
		}
		c.Count("run_family_binary_runs", 1)
		c.Case(fmt.Sprintf("runbin:%v", args)+fmt.Sprint(ins), true)
	}
	c.Set("run_family_bounds", map[string]any{"Mod2": mod2, "Mod3": mod3, "MaxV": maxV, "Salt": salt, "binary_sample_per_class": binPer})
	c.Set("wall_E_s", time.Since(t0).Seconds())
}
