package main

import (
	"fmt"
	"hash/fnv"
	"math/rand"
	"sort"
	"strings"
	"time"
)

// ---------------------------------------------------------------------------
// C19, match inside a program (spec/JqMatchEnv.tla, MC_MatchEnv.tla): every case
// list x body scheme of the model against every subject SOURCE (an expression
// evaluated in the program's environment: literals of every kind, variables, a
// name never set, present and missing elements / members reached by number and
// by name, call results, function names, method values, the same through the
// binding of an enclosing match, $ over JSON values of every kind); the bodies
// are code (they create variables, read unset names, loop, update a variable of
// the program, call the bound function, hold another match).
//
// One program per (case list, scheme) holds one match per calm source (one
// admitted outcome), in a seeded order; a source with several admitted outcomes
// (a container meeting a non-null literal) or a predicted deviation runs alone.

type c19eObs struct {
	Cls   string     `json:"cls"`
	Sel   int        `json:"sel"`
	Gc    int        `json:"gc"`
	Lines [][]string `json:"lines"`
}

type c19eRun struct {
	Idx    int       `json:"idx"`
	Mode   string    `json:"mode"`
	Subj   []string  `json:"subj"`
	Wrap   bool      `json:"wrap"`
	Dollar []string  `json:"dollar"`
	Kind   string    `json:"kind"`
	Args   []string  `json:"args"`
	Exp    []c19eObs `json:"exp"`
	Dev    []c19eObs `json:"dev"`
}

type c19eVec struct {
	Scheme  string     `json:"scheme"`
	Cases   [][]string `json:"cases"`
	Globals [][]string `json:"globals"`
	Doc     []string   `json:"doc"`
	Runs    []c19eRun  `json:"runs"`
}

const c19eDev = "match-unset-as-zero"

const c19ePrelude = "function m(k) { print \"m\", k; return k }\n" +
	"function Fu(a) { print 'fu', a; return 'ru' }\n" +
	"function Idf(a) { return a }\n"

// source text of a token sequence; tag: what the scratch names of this match end in
func c19eSrc(in *c19Inst, toks []string, tag string, args []string) string {
	var sb strings.Builder
	for _, t := range toks {
		switch {
		case t == ",":
			sb.WriteString(", ")
		case t == ":":
			sb.WriteString(": ")
		case t == "=>":
			sb.WriteString(" => ")
		case t == "%ARGS":
			sb.WriteString(c19eSrc(in, args, tag, nil))
		case len(t) == 2 && t[0] == '%':
			sb.WriteString(t[1:] + tag)
		case strings.HasPrefix(t, "@"):
			sb.WriteString(in.names[t])
		default:
			sb.WriteString(t)
		}
	}
	return sb.String()
}

// printed form of a line of output tokens (also the JSON text of an input value)
func c19eText(toks []string) string {
	var sb strings.Builder
	for _, t := range toks {
		switch t {
		case ",":
			sb.WriteString(", ")
		case ":":
			sb.WriteString(": ")
		default:
			sb.WriteString(t)
		}
	}
	return sb.String()
}

func c19eMatchSrc(in *c19Inst, v *c19eVec, r *c19eRun, tag string) string {
	var cs strings.Builder
	for k, c := range v.Cases {
		if k > 0 {
			cs.WriteString(", ")
		}
		cs.WriteString(c19eSrc(in, c, tag, r.Args))
	}
	subj := c19eSrc(in, r.Subj, tag, nil)
	if r.Wrap {
		return "match (" + subj + ") { W" + tag + " => match (W" + tag + ") { " + cs.String() + " } }"
	}
	return "match (" + subj + ") { " + cs.String() + " }"
}

// the program holding the matches of runs (all of one mode) and its input
func c19eProgram(in *c19Inst, v *c19eVec, runs []*c19eRun) (string, string) {
	var sb strings.Builder
	sb.WriteString(c19ePrelude)
	sb.WriteString("BEGIN { ")
	for i, g := range v.Globals {
		if i > 0 {
			sb.WriteString("; ")
		}
		sb.WriteString(c19eSrc(in, g, "", nil))
	}
	sb.WriteString(" }\n{\n")
	if runs[0].Mode == "each" {
		// one rule, run once per element of the input array
		sb.WriteString("Gc = 0\nprint 'S', " + c19eMatchSrc(in, v, runs[0], "e") + "\nprint 'A', Gc\n}\n")
		var vals []string
		for _, r := range runs {
			vals = append(vals, c19eText(r.Dollar))
		}
		return sb.String(), "[" + strings.Join(vals, ", ") + "]\n"
	}
	for _, r := range runs {
		tag := fmt.Sprint(r.Idx)
		sb.WriteString("Gc = 0\nprint 'S" + tag + "', " + c19eMatchSrc(in, v, r, tag) + "\nprint 'A" + tag + "', Gc\n")
	}
	sb.WriteString("}\n")
	return sb.String(), "[" + c19eText(v.Doc) + "]\n"
}

// what observation o of run r prints (ok class)
func c19eOut(r *c19eRun, o *c19eObs) string {
	tag := ""
	if r.Mode != "each" {
		tag = fmt.Sprint(r.Idx)
	}
	var sb strings.Builder
	for i, l := range o.Lines {
		if i == len(o.Lines)-1 {
			sb.WriteString("S" + tag + " ")
		}
		sb.WriteString(c19eText(l))
		sb.WriteByte('\n')
	}
	fmt.Fprintf(&sb, "A%s %d\n", tag, o.Gc)
	return sb.String()
}

// one admitted outcome, not an error, no deviation predicted: the match can share a program with others
func c19eCalm(r *c19eRun) bool {
	return len(r.Exp) == 1 && len(r.Dev) == 0 && r.Exp[0].Cls == "ok"
}

func c19Env(c *Ctx, pool *Pool) {
	c.Assume("match inside a program (MC_MatchEnv): `function == non-null literal` is fixed nowhere, so a function subject meets only null literals, identifiers and array patterns; the printed form of a function and of an unset value is not used; functions cannot be stored in arrays, so nested patterns never see one")
	c.Assume("MC_MatchEnv: whether a variable created by a body, or the bound names, are visible after the match is C08's claim: scratch names are unique per match and not read afterwards; the program's variable Gc, updated by a body, IS read after the match")
	c.Assume("MC_MatchEnv: the facts about the environment the expectations rest on are the trivially stated ones (an element at or past the length / an absent key is null; Idf returns its argument; Fu prints its argument and returns 'ru'; num('12') is 12, json(7) is \"7\", printf('pq\\n') prints pq and yields null; length of a 4-byte string / 3-element array; !unset is true; for-in over an array visits its elements in order)")

	devOpen := c.OpenDev(c19eDev)
	var nProg, nBatchRuns, nSingles, nErrOK, nKnown, nSkip, nSelected int
	perScheme := map[string]int{}
	perKind := map[string]int{}
	knownWitness := ""
	nSample := 0

	type meta struct {
		in    *c19Inst
		v     *c19eVec
		runs  []*c19eRun
		prog  string
		input string
	}
	metas := map[int]*meta{}
	nextID := 0
	var st *Stream
	single := func(m *meta, r *c19eRun) (string, string) { return c19eProgram(m.in, m.v, []*c19eRun{r}) }
	st = pool.NewStream(func(j *Job, res Result) {
		m := metas[j.N]
		delete(metas, j.N)
		if res.Class == "budget" || res.Class == "timeout" {
			nSkip++
			return
		}
		rep := func(why string, r *c19eRun) map[string]any {
			d := map[string]any{"program": m.prog, "input": m.input, "scheme": m.v.Scheme, "got_class": res.Class, "got_stdout": string(res.Stdout),
				"got_msg": res.ErrMsg, "detail": res.Detail, "why": why,
				"note": "per match: the lines its body prints, then `S<i> <value of the match>`, then `A<i> <Gc>` (Gc is set to 0 before each match; the update body increments it); the expectation is JqMatchEnv.MatchEnv on the value the subject expression denotes"}
			if r != nil {
				p, in := single(m, r)
				d["subject"] = c19eSrc(m.in, r.Subj, "", nil)
				d["subject_kind"] = r.Kind
				d["through_enclosing_binding"] = r.Wrap
				d["expected_any_of"] = r.Exp
				d["deviation_predicts"] = r.Dev
				d["program_with_only_this_subject"] = p
				d["its_input"] = in
			}
			return d
		}
		if res.Class == "crash" || res.Class == "panic" {
			var r *c19eRun
			if len(m.runs) == 1 {
				r = m.runs[0]
			}
			c.Violation("match-env-crash", rep("the run died", r))
			return
		}
		out := string(res.Stdout)
		if len(m.runs) == 1 && !c19eCalm(m.runs[0]) {
			r := m.runs[0]
			fits := func(o *c19eObs) bool {
				if o.Cls == "runtime" {
					return res.Class == "runtime" && len(out) == 0
				}
				return res.Class == "ok" && out == c19eOut(r, o)
			}
			for i := range r.Exp {
				if fits(&r.Exp[i]) {
					nSingles++
					if res.Class == "runtime" {
						nErrOK++
					}
					perKind[r.Kind]++
					c.Case(m.prog, r.Exp[i].Sel > 0)
					return
				}
			}
			for i := range r.Dev {
				if fits(&r.Dev[i]) {
					if !devOpen {
						c.Violation("match-env", rep("the outcome is the one deviation "+c19eDev+" predicts (an unset subject compared as the number 0), which is not an open finding", r))
						return
					}
					nKnown++
					if knownWitness == "" || len(m.prog) < len(knownWitness) {
						knownWitness = m.prog
					}
					c.Known(c19eDev, "a subject that is an unset variable is compared with a literal pattern as if it were the number 0, although `unset == literal` is false (e.g. BEGIN { print nosuch == 0, match (nosuch) { 0 => 'zero', x => 'other' } } prints false zero)")
					return
				}
			}
			c.Violation("match-env", rep("none of the admitted outcomes", r))
			return
		}
		// calm runs: the outputs one after the other
		pos := 0
		for _, r := range m.runs {
			w := c19eOut(r, &r.Exp[0])
			if res.Class != "ok" && pos == len(out) {
				c.Violation("match-env", rep(fmt.Sprintf("the run ended with a %s error at the match of subject %d, expected output %q", res.Class, r.Idx, w), r))
				return
			}
			if !strings.HasPrefix(out[pos:], w) {
				got := out[pos:]
				if k := strings.Count(w, "\n"); k > 0 {
					parts := strings.SplitAfterN(got, "\n", k+1)
					if len(parts) > k {
						parts = parts[:k]
					}
					got = strings.Join(parts, "")
				}
				c.Violation("match-env", rep(fmt.Sprintf("subject %d: expected output %q, got %q (class %s)", r.Idx, w, got, res.Class), r))
				return
			}
			pos += len(w)
		}
		if res.Class != "ok" || pos != len(out) {
			c.Violation("match-env", rep("output continues after the last match, or the run failed after it", nil))
			return
		}
		nProg++
		nBatchRuns += len(m.runs)
		perScheme[m.v.Scheme]++
		sel := 0
		for _, r := range m.runs {
			perKind[r.Kind]++
			if r.Exp[0].Sel > 0 {
				sel++
			}
		}
		nSelected += sel
		c.Case(m.prog, sel > 0)
		if nSample < 2 && m.runs[0].Mode == "doc" && (m.v.Scheme == "newblk" || m.v.Scheme == "call") && len(m.runs) <= 24 {
			nSample++
			c.Sample(map[string]any{"program": m.prog, "input": m.input, "stdout": out})
		}
	})

	submit := func(in *c19Inst, v *c19eVec, runs []*c19eRun) {
		prog, input := c19eProgram(in, v, runs)
		st.mu.Lock()
		id := nextID
		nextID++
		metas[id] = &meta{in, v, runs, prog, input}
		st.mu.Unlock()
		st.Submit(Job{Kind: "run", Prog: []byte(prog), Files: []FileIn{{Name: "in.json", Data: []byte(input)}}, N: id})
	}

	onVec := func(raw []byte) {
		v := &c19eVec{}
		VecDecode(raw, v)
		var kb strings.Builder
		kb.WriteString("env|")
		for _, cs := range v.Cases {
			kb.WriteString(strings.Join(cs, " "))
			kb.WriteByte('|')
		}
		in := c19NewInst(c.Seed, kb.String())
		sort.Slice(v.Runs, func(i, j int) bool { return v.Runs[i].Idx < v.Runs[j].Idx })
		batch := map[string][]*c19eRun{}
		for i := range v.Runs {
			r := &v.Runs[i]
			if len(r.Exp) == 0 {
				infra("C19: run without an expectation")
			}
			if !c19eCalm(r) {
				submit(in, v, []*c19eRun{r})
				continue
			}
			batch[r.Mode] = append(batch[r.Mode], r)
		}
		h := fnv.New64a()
		fmt.Fprintf(h, "%d|%s", c.Seed, kb.String())
		rng := rand.New(rand.NewSource(int64(h.Sum64())))
		for _, mode := range []string{"doc", "each"} {
			b := batch[mode]
			if len(b) == 0 {
				continue
			}
			rng.Shuffle(len(b), func(i, j int) { b[i], b[j] = b[j], b[i] })
			submit(in, v, b)
		}
	}

	t0 := time.Now()
	big, workers := "FALSE", 4
	if c.Thorough() {
		big, workers = "TRUE", 8
	}
	c.TLC(TLCOpt{Module: "MC_MatchEnv",
		Cfg:   cfgText("INIT Init", "NEXT Next", "CONSTANTS", "Big = "+big, "INVARIANT Laws", "INVARIANT Vec", "CHECK_DEADLOCK FALSE"),
		OnVec: onVec, Workers: workers, Heap: "4g"})
	tTLC := time.Since(t0)
	st.Wait()
	c.Set("env_wall_tlc_then_total", fmt.Sprintf("%.1fs %.1fs", tTLC.Seconds(), time.Since(t0).Seconds()))
	c.Set("env_rule", "TLC (MC_MatchEnv) enumerates case lists (a literal from {0 1 2 3 4 7 'a' 'zz' true false null} then a catch-all; the literal alone; literal, null, catch-all (thorough: every ordered pair of literals); two literal alternatives one of them null; "+
		"11 lists with array patterns / an identifier before, after or instead of literals) x 9 body schemes (constant, bound name, new variable in an expression, new variable in a block, read of a never-set name, for-in with a new loop variable, update of a program variable, "+
		"nested match selected through a literal, call of the bound function) against 72 subject sources (literals, variables, unset name, elements 0..4 of a 3-element array in a variable and in $, object members present / missing by number and by name, "+
		"results of a call, user function / builtins / method values, 14 of them again through an enclosing match's binding, $ over 12 JSON values); expectation: JqMatchEnv.MatchEnv on the value the source denotes; "+
		"one program per (case list, scheme) and mode holding all calm sources in a seeded order, one run per source where several outcomes are admitted")
	c.Set("env_programs", nProg)
	c.Set("env_matches_in_batches", nBatchRuns)
	c.Set("env_matches_selecting_a_case", nSelected)
	c.Set("env_single_runs", nSingles)
	c.Set("env_runtime_error_admitted", nErrOK)
	c.Set("env_explained_only_by_known_deviation", nKnown)
	c.Set("env_programs_per_scheme", perScheme)
	c.Set("env_matches_per_subject_kind", perKind)
	c.Set("env_inconclusive", nSkip)
	if knownWitness != "" {
		c.Set("env_witness_of_known_deviation", knownWitness)
	}
}
