package main

import (
	"bytes"
	"encoding/json"
	"fmt"
	"math"
	"math/big"
	"math/rand"
	"reflect"
	"strconv"
	"strings"
	"sync"
)

func init() { register("C16", checkC16) }

// Vectors of MC_Methods (values reuse the C05 encoding of JqValue records).
type c16Pair struct {
	Key []string `json:"key"`
	Val *c05Val  `json:"val"`
}

type c16Vec struct {
	Fam string `json:"fam"`
	// split / str / numb
	S      []string   `json:"s"`
	Sep    []string   `json:"sep"`
	Pieces [][]string `json:"pieces"`
	Unique bool       `json:"unique"`
	Len    int        `json:"len"`
	Upper  []string   `json:"upper"`
	Lower  []string   `json:"lower"`
	// num
	X     *c05Val `json:"x"`
	Floor *c05Val `json:"floor"`
	Ceil  *c05Val `json:"ceil"`
	Round *c05Val `json:"round"`
	// pluck / proto
	Obj       []c16Pair  `json:"obj"`
	Keys      [][]string `json:"keys"`
	OLen      int        `json:"olen"`
	ProtoKeys [][]string `json:"protokeys"`
	// numb: Res is a value; pluck / proto: Res is a list of pairs
	Res json.RawMessage `json:"res"`
	// call
	M          string    `json:"m"`
	Builtin    bool      `json:"builtin"`
	Recv       *c05Val   `json:"recv"`
	Args       []*c05Val `json:"args"`
	Documented bool      `json:"documented"`
}

// c16Case is one program with the observation the contract fixes.
type c16Case struct {
	Fam  string `json:"fam"`
	Desc string `json:"desc"`
	Prog string `json:"prog"`
	Doc  string `json:"doc,omitempty"`
	// split
	S      []byte   `json:"s,omitempty"`
	Sep    []byte   `json:"sep,omitempty"`
	Pieces [][]byte `json:"pieces,omitempty"` // the model's answer (compared when the decomposition is unique)
	Unique bool     `json:"unique,omitempty"`
	// str
	Upper    []byte         `json:"upper,omitempty"`
	Lower    []byte         `json:"lower,omitempty"`
	NoCase   bool           `json:"nocase,omitempty"` // non-ASCII text: only length and "receiver unchanged" are compared
	Nums     []float64      `json:"nums,omitempty"`   // num: floor, ceil, round, x
	ObjWant  map[string]any `json:"obj_want,omitempty"`
	ResWant  map[string]any `json:"res_want,omitempty"`
	DevWant  map[string]any `json:"dev_want,omitempty"` // what pluck-proto-key predicts instead
	NoLen    bool           `json:"nolen,omitempty"`
	NumbNull bool           `json:"numb_null,omitempty"`
	NumbVal  float64        `json:"numb_val,omitempty"`
	Seeded   bool           `json:"seeded,omitempty"`
}

// c16Reader reads the length-prefixed lines the split / str programs print.
type c16Reader struct {
	b   []byte
	bad bool
}

func (r *c16Reader) line() string {
	i := bytes.IndexByte(r.b, '\n')
	if i < 0 {
		r.bad = true
		return ""
	}
	s := string(r.b[:i])
	r.b = r.b[i+1:]
	return s
}

func (r *c16Reader) int() int {
	n, err := strconv.Atoi(r.line())
	if err != nil || n < 0 {
		r.bad = true
		return 0
	}
	return n
}

// sized reads "<n>\n<n bytes>\n".
func (r *c16Reader) sized() []byte {
	n := r.int()
	if r.bad || len(r.b) < n+1 || r.b[n] != '\n' {
		r.bad = true
		return nil
	}
	s := append([]byte{}, r.b[:n]...)
	r.b = r.b[n+1:]
	return s
}

func c16Quote(s []byte) string {
	if !c05SafeStr(s) {
		infra("C16: string %q cannot be written as a literal", s)
	}
	return `"` + string(s) + `"`
}

func c16JSON(v any) string {
	var sb strings.Builder
	enc := json.NewEncoder(&sb)
	enc.SetEscapeHTML(false)
	if err := enc.Encode(v); err != nil {
		infra("C16: json: %v", err)
	}
	return strings.TrimSuffix(sb.String(), "\n")
}

const c16SplitBody = "print p.length(); for (x in p) { print x.length(); print x }"
const c16StrBody = "u = s.upper(); l = s.lower(); print s.length(); print u.length(); print u; print l.length(); print l; print s.length(); print s"

// c16Occurrences: start offsets of sep in s.
func c16Occurrences(s, sep []byte) []int {
	var out []int
	for i := 0; i+len(sep) <= len(s); i++ {
		if bytes.Equal(s[i:i+len(sep)], sep) {
			out = append(out, i)
		}
	}
	return out
}

// c16LeftmostSplit: reference split for a non-empty separator.
func c16LeftmostSplit(s, sep []byte) [][]byte {
	var out [][]byte
	from := 0
	for i := 0; i+len(sep) <= len(s); {
		if bytes.Equal(s[i:i+len(sep)], sep) {
			out = append(out, s[from:i])
			i += len(sep)
			from = i
		} else {
			i++
		}
	}
	return append(out, s[from:])
}

func c16NoOverlap(occ []int, m int) bool {
	for i := 1; i < len(occ); i++ {
		if occ[i-1]+m > occ[i] {
			return false
		}
	}
	return true
}

func c16Upper(s []byte) []byte {
	out := append([]byte{}, s...)
	for i, b := range out {
		if b >= 'a' && b <= 'z' {
			out[i] = b - 32
		}
	}
	return out
}

func c16Lower(s []byte) []byte {
	out := append([]byte{}, s...)
	for i, b := range out {
		if b >= 'A' && b <= 'Z' {
			out[i] = b + 32
		}
	}
	return out
}

// c16Mask replaces every maximal run of non-ASCII bytes by one 0xFF: case
// mapping of non-ASCII letters is not compared, that of the ASCII ones is.
func c16Mask(s []byte) []byte {
	var out []byte
	for i := 0; i < len(s); i++ {
		if s[i] < 0x80 {
			out = append(out, s[i])
		} else if len(out) == 0 || out[len(out)-1] != 0xff {
			out = append(out, 0xff)
		}
	}
	return out
}

func c16MapEq(a, b map[string]any) bool {
	if len(a) == 0 && len(b) == 0 {
		return true
	}
	return reflect.DeepEqual(a, b)
}

// non-ASCII characters whose case mappings stay non-ASCII (so that c16Mask applies)
var c16Tame = []string{"é", "Ω", "世", "界", "\U0001F600"}

func c16IsTame(s string) bool {
	for _, t := range c16Tame {
		s = strings.ReplaceAll(s, t, "")
	}
	return c16IsASCII([]byte(s))
}

func c16IsASCII(s []byte) bool {
	for _, b := range s {
		if b >= 0x80 {
			return false
		}
	}
	return true
}

// floor / ceil / round (half away from zero) of a double, with math/big.
func c16Floor(x float64) float64 {
	r := new(big.Rat).SetFloat64(x)
	q := new(big.Int).Div(r.Num(), r.Denom()) // Euclidean division: floor for a positive denominator
	f, _ := new(big.Float).SetInt(q).Float64()
	return f
}
func c16Ceil(x float64) float64 { return -c16Floor(-x) }
func c16Round(x float64) float64 {
	r := new(big.Rat).SetFloat64(math.Abs(x))
	r.Add(r, big.NewRat(1, 2))
	q := new(big.Int).Div(r.Num(), r.Denom())
	f, _ := new(big.Float).SetInt(q).Float64()
	if x < 0 {
		return -f
	}
	return f
}

// c16ParseObj parses what `print` shows for an object whose strings need no
// escaping; a native function prints as <nativefunction>.
func c16ParseObj(line string) (map[string]any, bool) {
	line = strings.ReplaceAll(line, "<nativefunction>", `"<nativefunction>"`)
	var m map[string]any
	dec := json.NewDecoder(strings.NewReader(line))
	if err := dec.Decode(&m); err != nil || dec.More() {
		return nil, false
	}
	return m, true
}

func c16ValAny(v c05GV) any {
	switch v.Kind {
	case "num":
		return v.F
	case "str":
		return string(v.S)
	case "bool":
		return v.B
	case "null":
		return nil
	case "arr":
		if v.Len == 0 {
			return []any{}
		}
		return []any{1.0}
	case "obj":
		if v.Len == 0 {
			return map[string]any{}
		}
		return map[string]any{"a": 1.0}
	}
	infra("C16: kind %q inside an object", v.Kind)
	return nil
}

func c16Pairs(ps []c16Pair) (lit string, m map[string]any) {
	m = map[string]any{}
	parts := []string{}
	for _, p := range ps {
		k := string(symsToBytes(p.Key))
		v := c05Concrete(p.Val)
		m[k] = c16ValAny(v)
		parts = append(parts, k+": "+c05Lit(v, "x"))
	}
	return "{" + strings.Join(parts, ", ") + "}", m
}

func c16KeyArgs(keys []string) string {
	q := make([]string, len(keys))
	for i, k := range keys {
		q[i] = c16Quote([]byte(k))
	}
	return strings.Join(q, ", ")
}

// C16: string, number and object methods, num() and json().
func checkC16(c *Ctx) {
	c.Assume("split with an empty separator: the statement fixes only that the pieces concatenate to the receiver; that the pieces are the characters (the model's answer) is recorded, not required")
	c.Assume("split where occurrences of the separator overlap (\"aaa\".split(\"aa\")): any decomposition with separator-free pieces that joins to the receiver is accepted")
	c.Assume("case mapping of non-ASCII letters is outside the model (upper/lower are compared on ASCII text and on the model's alphabet a, B, comma, blank, U+00E9 where U+00E9 must stay unchanged only in the model's domain)")
	c.Assume("the sign of a zero result of floor/ceil/round/num is not compared (-0 equals 0)")
	c.Assume("num() of a number, and every call outside the documented contract (other receiver kind, missing / extra / wrong-kind arguments): only 'a value or a runtime error, never a crash' is required")
	c.Assume("json(): only absence of crashes (its output belongs to C04)")
	c.Assume("object keys that name a prototype method (length, pluck) are a separate vector class; length() of an object that has its own key `length` is not exercised")
	c.Assume("objects are compared structurally (printed form parsed), never by key order (C10); printed strings are escape-free by construction")
	c.Assume("numeric strings: decimal grammar only; magnitudes within 1e-300..1e300")
	pool := c.Pool()

	maxLen := 4
	if c.Thorough() {
		maxLen = 6
	}
	var cmu sync.Mutex
	counts := map[string]int{}
	count := func(k string) {
		cmu.Lock()
		counts[k]++
		cmu.Unlock()
	}
	knownEx := map[string]string{}
	nsample := 0
	inconclusive := 0
	st := pool.NewStream(func(j *Job, r Result) {
		var cs c16Case
		if err := json.Unmarshal([]byte(j.Tag), &cs); err != nil {
			infra("C16: tag: %v", err)
		}
		if r.Class == "timeout" || r.Class == "budget" {
			inconclusive++
			return
		}
		rep := map[string]any{"case": cs, "got_class": r.Class, "got_stdout": string(r.Stdout), "got_msg": r.ErrMsg, "detail": r.Detail}
		fail := func(name, why string) {
			rep["why"] = why
			c.Violation(name, rep)
		}
		if r.Class != "ok" && r.Class != "runtime" {
			fail("method-crash", "the run ended with "+r.Class)
			return
		}
		if cs.Fam == "call" {
			count("calls outside the contract: " + r.Class)
			c.Case(cs.Prog, true)
			return
		}
		if r.Class != "ok" {
			fail("method-error", "a documented call ended with a runtime error")
			return
		}
		rd := &c16Reader{b: r.Stdout}
		switch cs.Fam {
		case "split":
			n := rd.int()
			if rd.bad || n > len(r.Stdout) {
				fail("split-output", "unreadable output")
				return
			}
			pieces := make([][]byte, 0, n)
			for i := 0; i < n; i++ {
				pieces = append(pieces, rd.sized())
			}
			if rd.bad || len(rd.b) != 0 {
				fail("split-output", "unreadable output (piece lengths do not match the printed bytes)")
				return
			}
			if !bytes.Equal(bytes.Join(pieces, cs.Sep), cs.S) {
				fail("split-join", "the pieces joined by the separator are not the receiver")
				return
			}
			if len(cs.Sep) > 0 {
				for _, p := range pieces {
					if bytes.Contains(p, cs.Sep) {
						fail("split-piece", "a piece contains the separator")
						return
					}
				}
			}
			same := len(pieces) == len(cs.Pieces)
			for i := 0; same && i < len(pieces); i++ {
				same = bytes.Equal(pieces[i], cs.Pieces[i])
			}
			if cs.Unique && !same {
				infra("C16: split(%q, %q): the real result %q satisfies the laws but differs from the model's unique answer %q", cs.S, cs.Sep, pieces, cs.Pieces)
			}
			if len(cs.Sep) == 0 && !cs.Seeded {
				if same {
					count("empty separator: pieces are the characters")
				} else {
					count("empty separator: pieces are NOT the characters (allowed)")
				}
			}
		case "str":
			n0 := rd.int()
			up := rd.sized()
			lo := rd.sized()
			s2 := rd.sized()
			if rd.bad || len(rd.b) != 0 {
				fail("str-output", "unreadable output")
				return
			}
			if n0 != len(cs.S) {
				fail("str-length", fmt.Sprintf("length() = %d, the receiver has %d bytes", n0, len(cs.S)))
				return
			}
			if !bytes.Equal(s2, cs.S) {
				fail("str-receiver", "the receiver changed")
				return
			}
			if !cs.NoCase && (!bytes.Equal(c16Mask(up), c16Mask(cs.Upper)) || !bytes.Equal(c16Mask(lo), c16Mask(cs.Lower))) {
				fail("str-case", fmt.Sprintf("upper %q lower %q", up, lo))
				return
			}
		case "num":
			for i, want := range cs.Nums {
				got, err := strconv.ParseFloat(rd.line(), 64)
				if rd.bad || err != nil {
					fail("num-output", "unreadable output")
					return
				}
				if got != want {
					fail("num-round", fmt.Sprintf("%s: got %v, expected %v", []string{"floor", "ceil", "round", "receiver afterwards"}[i], got, want))
					return
				}
			}
			if len(rd.b) != 0 {
				fail("num-output", "extra output")
				return
			}
		case "numb":
			val, isNum, isNull := rd.line(), rd.line(), rd.line()
			if rd.bad || len(rd.b) != 0 {
				fail("numb-output", "unreadable output")
				return
			}
			if cs.NumbNull {
				if val != "null" || isNum != "false" || isNull != "true" {
					fail("num-builtin", "expected null for a non-numeric string")
					return
				}
			} else {
				got, err := strconv.ParseFloat(val, 64)
				if err != nil || isNum != "true" || isNull != "false" || got != cs.NumbVal {
					fail("num-builtin", fmt.Sprintf("expected the number %v", cs.NumbVal))
					return
				}
			}
		case "pluck", "proto":
			p1, ok1 := c16ParseObj(rd.line())
			o1, ok2 := c16ParseObj(rd.line())
			okAll := ok1 && ok2
			plen := -1
			var o2 map[string]any
			if !cs.NoLen {
				plen = rd.int()
				var ok3 bool
				o2, ok3 = c16ParseObj(rd.line())
				okAll = okAll && ok3
			}
			if rd.bad || !okAll || len(rd.b) != 0 {
				fail("pluck-output", "unreadable output")
				return
			}
			if !c16MapEq(o1, cs.ObjWant) || (!cs.NoLen && !c16MapEq(o2, cs.ObjWant)) {
				fail("pluck-receiver", "the receiver changed (by pluck, or by writing to the result)")
				return
			}
			if !c16MapEq(p1, cs.ResWant) {
				if len(cs.DevWant) > 0 && c16MapEq(p1, cs.DevWant) && c.OpenDev("pluck-proto-key") {
					what := fmt.Sprintf("e.g. `%s`: expected %s, got %s", cs.Prog, c16JSON(cs.ResWant), c16JSON(p1))
					if cur, ok := knownEx["pluck-proto-key"]; !ok || len(what) < len(cur) || (len(what) == len(cur) && what < cur) {
						knownEx["pluck-proto-key"] = what
					}
				} else {
					fail("pluck-result", fmt.Sprintf("pluck returned %s, expected %s", c16JSON(p1), c16JSON(cs.ResWant)))
					return
				}
			}
			if !cs.NoLen && plen != len(cs.ResWant) {
				fail("pluck-length", fmt.Sprintf("length() of the result is %d, expected %d", plen, len(cs.ResWant)))
				return
			}
		default:
			infra("C16: family %q", cs.Fam)
		}
		count("cases " + cs.Fam)
		c.Case(cs.Prog+"\x00"+cs.Doc, true)
		nsample++
		if nsample%4999 == 1 {
			c.Sample(map[string]any{"family": cs.Fam, "case": cs.Desc, "program": cs.Prog, "document": cs.Doc})
		}
	})
	submit := func(cs c16Case) {
		b, _ := json.Marshal(&cs)
		j := Job{Kind: "run", Prog: []byte(cs.Prog), Tag: string(b)}
		if cs.Doc != "" {
			j.Files = []FileIn{{Name: "in.json", Data: []byte(cs.Doc)}}
		}
		st.Submit(j)
	}

	// ---- (1) the model's cases
	onVec := func(raw []byte) {
		var v c16Vec
		VecDecode(raw, &v)
		switch v.Fam {
		case "split":
			s, sep := symsToBytes(v.S), symsToBytes(v.Sep)
			cs := c16Case{Fam: "split", S: s, Sep: sep, Unique: v.Unique,
				Desc: fmt.Sprintf("%q.split(%q)", s, sep),
				Prog: "BEGIN { s = " + c16Quote(s) + "; p = s.split(" + c16Quote(sep) + "); " + c16SplitBody + " }"}
			for _, p := range v.Pieces {
				cs.Pieces = append(cs.Pieces, symsToBytes(p))
			}
			// harness-side sanity of the model's answer (independent reference)
			if len(sep) > 0 && v.Unique != c16NoOverlap(c16Occurrences(s, sep), len(sep)) && c16NoOverlap(c16Occurrences(s, sep), len(sep)) {
				infra("C16: model says split(%q, %q) is ambiguous, the harness finds no overlapping occurrences", s, sep)
			}
			submit(cs)
		case "str":
			s := symsToBytes(v.S)
			if v.Len != len(s) {
				infra("C16: model length %d of %q", v.Len, s)
			}
			submit(c16Case{Fam: "str", S: s, Upper: symsToBytes(v.Upper), Lower: symsToBytes(v.Lower),
				Desc: fmt.Sprintf("%q: length, upper, lower", s),
				Prog: "BEGIN { s = " + c16Quote(s) + "; " + c16StrBody + " }"})
		case "num":
			x := c05Concrete(v.X)
			want := []float64{c05Nearest(v.Floor), c05Nearest(v.Ceil), c05Nearest(v.Round), x.F}
			if want[0] != c16Floor(x.F) || want[1] != c16Ceil(x.F) || want[2] != c16Round(x.F) {
				infra("C16: the harness's math/big rounding disagrees with the specification on %v", x.F)
			}
			body := "print x.floor(); print x.ceil(); print x.round(); print x"
			submit(c16Case{Fam: "num", Nums: want, Desc: fmt.Sprintf("floor/ceil/round of %v (variable)", x.F),
				Prog: "BEGIN { x = " + c05Lit(x, "x") + "; " + body + " }"})
			submit(c16Case{Fam: "num", Nums: want, Desc: fmt.Sprintf("floor/ceil/round of %v (document field)", x.F),
				Prog: "{ " + strings.ReplaceAll(body, "x", "$.x") + " }", Doc: `{"x": ` + c05Fmt(x.F) + `}`})
		case "pluck", "proto":
			var res []c16Pair
			if err := json.Unmarshal(v.Res, &res); err != nil {
				infra("C16: pluck result: %v", err)
			}
			olit, owant := c16Pairs(v.Obj)
			_, rwant := c16Pairs(res)
			keys := make([]string, len(v.Keys))
			for i, k := range v.Keys {
				keys[i] = string(symsToBytes(k))
			}
			cs := c16Case{Fam: v.Fam, ObjWant: owant, ResWant: rwant,
				Desc: fmt.Sprintf("%s.pluck(%s)", olit, c16KeyArgs(keys))}
			if v.Fam == "proto" {
				cs.NoLen = true
				cs.DevWant = map[string]any{}
				for k, val := range rwant {
					cs.DevWant[k] = val
				}
				for _, pk := range v.ProtoKeys {
					if _, ok := cs.DevWant[string(symsToBytes(pk))]; ok {
						cs.DevWant[string(symsToBytes(pk))] = "<nativefunction>"
					}
				}
				cs.Prog = "BEGIN { o = " + olit + "; p = o.pluck(" + c16KeyArgs(keys) + "); print p; print o }"
				submit(cs)
				return
			}
			tail := "print p; print OBJ; print p.length(); p.a = 99; p.zz = 1; print OBJ"
			cs.Prog = "BEGIN { o = " + olit + "; p = o.pluck(" + c16KeyArgs(keys) + "); " + strings.ReplaceAll(tail, "OBJ", "o") + " }"
			submit(cs)
			cs2 := cs
			cs2.Desc += " (document field)"
			cs2.Prog = "{ p = $.o.pluck(" + c16KeyArgs(keys) + "); " + strings.ReplaceAll(tail, "OBJ", "$.o") + " }"
			cs2.Doc = `{"o": ` + c16JSON(owant) + `}`
			submit(cs2)
		case "numb":
			var rv c05Val
			if err := json.Unmarshal(v.Res, &rv); err != nil {
				infra("C16: num() result: %v", err)
			}
			s := symsToBytes(v.S)
			cs := c16Case{Fam: "numb", Desc: fmt.Sprintf("num(%q)", s),
				Prog: "BEGIN { x = num(" + c16Quote(s) + "); print x; print x is number; print x is null }"}
			pf, pok := c05ParseNum(s)
			if rv.K == "null" {
				cs.NumbNull = true
			} else {
				cs.NumbVal = c05Nearest(&rv)
			}
			if pok == cs.NumbNull || (pok && pf != cs.NumbVal) {
				infra("C16: the harness's numeric-string parser disagrees with the specification on %q", s)
			}
			submit(cs)
		case "call":
			if v.Documented {
				count("calls inside the contract (covered by the other families)")
				return
			}
			recv := c05Concrete(v.Recv)
			args := make([]string, len(v.Args))
			uses := []c05GV{recv}
			for i, a := range v.Args {
				av := c05Concrete(a)
				uses = append(uses, av)
				args[i] = c05Lit(av, fmt.Sprint("arg", i))
			}
			call := v.M + "(" + strings.Join(args, ", ") + ")"
			prog := ""
			if v.Builtin {
				prog = c05UsesFn(uses...) + "BEGIN { print " + call + " }"
			} else {
				ref, pre, _ := c05Operand(recv, "r", "var")
				prog = c05UsesFn(uses...) + "BEGIN { " + pre + "print " + ref + "." + call + " }"
			}
			submit(c16Case{Fam: "call", Desc: "outside the contract: " + call + " on " + c05Lit(recv, "r"), Prog: prog})
		default:
			infra("C16: unknown vector family %q", v.Fam)
		}
	}
	res := c.TLC(TLCOpt{Module: "MC_Methods",
		Cfg:     cfgText("INIT Init", "NEXT Next", fmt.Sprintf("CONSTANT MaxLen = %d", maxLen), "INVARIANT Laws", "INVARIANT Vec", "CHECK_DEADLOCK FALSE"),
		Workers: 8, Heap: "6g", OnVec: onVec})
	if res.Vectors == 0 {
		infra("C16: TLC emitted no vectors")
	}

	// ---- (2) seeded instantiation: the LAWS on real outputs for arbitrary
	// UTF-8 strings and separators, random doubles, random numeric strings and
	// random objects (all values travel through the input document)
	n := 8000
	if c.Thorough() {
		n = 200000
	}
	rng := rand.New(rand.NewSource(c.Seed))
	for i := 0; i < n; i++ {
		switch rng.Intn(6) {
		case 0, 1: // split
			alpha := c16RandAlphabet(rng)
			sep := c16RandText(rng, alpha, 0, 3)
			var sb strings.Builder
			for k, parts := 0, rng.Intn(6); k <= parts; k++ {
				sb.WriteString(c16RandText(rng, alpha, 0, 4))
				if k < parts || rng.Intn(3) == 0 {
					sb.WriteString(sep)
				}
			}
			s := sb.String()
			cs := c16Case{Fam: "split", S: []byte(s), Sep: []byte(sep), Seeded: true, Desc: fmt.Sprintf("seeded: %q.split(%q)", s, sep),
				Prog: "{ p = $.s.split($.sep); " + c16SplitBody + " }", Doc: c16JSON(map[string]string{"s": s, "sep": sep})}
			if len(sep) > 0 && c16NoOverlap(c16Occurrences(cs.S, cs.Sep), len(sep)) {
				cs.Unique = true
				cs.Pieces = c16LeftmostSplit(cs.S, cs.Sep)
			}
			submit(cs)
		case 2: // length / upper / lower
			var s string
			noCase := false
			if rng.Intn(3) == 0 {
				s = c16RandText(rng, c16RandAlphabet(rng), 0, 12)
				noCase = !c16IsTame(s)
			} else {
				b := make([]byte, rng.Intn(16))
				for k := range b {
					b[k] = byte(0x20 + rng.Intn(0x5f))
				}
				s = string(b)
			}
			submit(c16Case{Fam: "str", S: []byte(s), Upper: c16Upper([]byte(s)), Lower: c16Lower([]byte(s)), NoCase: noCase, Seeded: true,
				Desc: fmt.Sprintf("seeded: %q: length, upper, lower", s),
				Prog: "{ s = $.s; " + c16StrBody + " }", Doc: c16JSON(map[string]string{"s": s})})
		case 3: // floor / ceil / round
			x := c16RandDouble(rng)
			submit(c16Case{Fam: "num", Nums: []float64{c16Floor(x), c16Ceil(x), c16Round(x), x}, Seeded: true,
				Desc: fmt.Sprintf("seeded: floor/ceil/round of %v", x),
				Prog: "{ print $.x.floor(); print $.x.ceil(); print $.x.round(); print $.x }", Doc: `{"x": ` + c05Fmt(x) + `}`})
		case 4: // num()
			var s string
			if rng.Intn(3) == 0 {
				s = c05RandNonNumericStr(rng)
			} else {
				s = c05RandNumericStr(rng)
				if rng.Intn(3) == 0 { // wider exponents
					s = strings.Split(strings.Split(s, "e")[0], "E")[0] + fmt.Sprintf("e%d", rng.Intn(560)-280)
				}
			}
			cs := c16Case{Fam: "numb", Seeded: true, Desc: fmt.Sprintf("seeded: num(%q)", s),
				Prog: "{ x = num($.s); print x; print x is number; print x is null }", Doc: c16JSON(map[string]string{"s": s})}
			if f, ok := c05ParseNum([]byte(s)); ok {
				if f != 0 && (math.Abs(f) < 1e-300 || math.Abs(f) > 1e300) {
					continue
				}
				cs.NumbVal = f
			} else {
				cs.NumbNull = true
			}
			submit(cs)
		case 5: // pluck
			keyPool := []string{"a", "b", "k1", "name", "id", "x_y", "Z", "é"}
			obj := map[string]any{}
			for _, k := range keyPool {
				if rng.Intn(2) == 0 {
					obj[k] = c16RandScalar(rng)
				}
			}
			keys := make([]string, rng.Intn(6))
			want := map[string]any{}
			for k := range keys {
				keys[k] = keyPool[rng.Intn(len(keyPool))]
				if rng.Intn(5) == 0 {
					keys[k] = []string{"nope", "A", "k2", ""}[rng.Intn(4)]
				}
				want[keys[k]] = obj[keys[k]]
			}
			submit(c16Case{Fam: "pluck", ObjWant: obj, ResWant: want, Seeded: true,
				Desc: fmt.Sprintf("seeded: %s.pluck(%s)", c16JSON(obj), c16KeyArgs(keys)),
				Prog: "{ p = $.o.pluck(" + c16KeyArgs(keys) + "); print p; print $.o; print p.length(); p.a = 99; p.zz = 1; print $.o }",
				Doc:  c16JSON(map[string]any{"o": obj})})
		}
	}
	st.Wait()
	for d, what := range knownEx {
		c.Known(d, what)
	}

	c.Set("exhaustive", true)
	c.Set("rule", fmt.Sprintf("TLC enumerates every string of <= %d symbols over {a, B, comma, U+00E9, blank} (length/upper/lower) x every separator of <= 2 symbols and the empty one (split), "+
		"every k/4 with |k| <= 22 and +-2^53 (floor/ceil/round, as variable and as document field), every key set over {a,b,c} x every key list of length <= 3 (pluck, literal and document), "+
		"key lists naming prototype methods, num() on 25 strings, and every method/builtin x 13 receivers x 14 argument lists outside the contract (no crash); "+
		"plus seeded random cases checked against the laws; every case counts as non-trivial; distinct by program + document", maxLen))
	c.Set("checker_cmd", "tlc MC_Methods (INVARIANT Laws, Vec); replay through lang.EvalProgram in worker subprocesses")
	c.Set("cases", counts)
	c.Set("bounds", map[string]int{"MaxLen": maxLen, "seeded": n})
	c.Set("inconclusive_timeouts", inconclusive)
}

func c16RandAlphabet(rng *rand.Rand) []string {
	pool := []string{"a", "b", "A", "z", "0", ",", " ", ";", "-", "|", "\t", "\n", "\"", "\\", "/", "é", "ß", "Ω", "世", "界", "\U0001F600", "́", "İ"}
	n := 2 + rng.Intn(4)
	out := make([]string, n)
	for i := range out {
		out[i] = pool[rng.Intn(len(pool))]
	}
	return out
}

func c16RandText(rng *rand.Rand, alpha []string, min, max int) string {
	n := min + rng.Intn(max-min+1)
	var sb strings.Builder
	for i := 0; i < n; i++ {
		sb.WriteString(alpha[rng.Intn(len(alpha))])
	}
	return sb.String()
}

func c16RandDouble(rng *rand.Rand) float64 {
	sign := 1.0
	if rng.Intn(2) == 0 {
		sign = -1
	}
	switch rng.Intn(8) {
	case 0: // k.5 for small and large k
		return sign * (float64(rng.Int63n(1<<uint(1+rng.Intn(51)))) + 0.5)
	case 1: // k.25, k.75
		return sign * (float64(rng.Int63n(1<<uint(1+rng.Intn(50)))) + []float64{0.25, 0.75}[rng.Intn(2)])
	case 2: // integers
		return sign * float64(rng.Int63n(1<<uint(1+rng.Intn(62))))
	case 3: // just below / above a half
		k := float64(rng.Intn(1000))
		return sign * []float64{math.Nextafter(k+0.5, 0), math.Nextafter(k+0.5, 1e9), math.Nextafter(0.5, 0), math.Nextafter(k+1, 0)}[rng.Intn(4)]
	case 4: // huge
		return sign * math.Float64frombits(uint64(1023+52+rng.Intn(900))<<52|uint64(rng.Int63())&(1<<52-1))
	case 5: // tiny
		return sign * math.Float64frombits(uint64(1023-1-rng.Intn(900))<<52|uint64(rng.Int63())&(1<<52-1))
	case 6:
		return c05signedZero(sign < 0)
	}
	return sign * math.Float64frombits(uint64(1023-8+rng.Intn(70))<<52|uint64(rng.Int63())&(1<<52-1))
}

func c16RandScalar(rng *rand.Rand) any {
	switch rng.Intn(6) {
	case 0:
		return nil
	case 1:
		return rng.Intn(2) == 0
	case 2:
		return float64(rng.Intn(2000)-1000) / 8
	case 3:
		return []string{"", "s", "two words", "é", "0", "null", "[1]"}[rng.Intn(7)]
	case 4:
		return []any{float64(rng.Intn(9)), "x"}
	}
	return float64(rng.Intn(1 << 30))
}
