package main

import (
	"bytes"
	"encoding/json"
	"fmt"
	"math"
	"math/big"
	"math/rand"
	"reflect"
	"sort"
	"strconv"
	"strings"
	"sync"
	"unicode"
	"unicode/utf8"
)

func init() { register("C16", checkC16) }

// Vectors of MC_Methods (values reuse the C05 encoding of JqValue records).
type c16Pair struct {
	Key []string `json:"key"`
	Val *c05Val  `json:"val"`
}

type c16Vec struct {
	Fam string `json:"fam"`
	// split / str / numb
	S      []string   `json:"s"`
	Sep    []string   `json:"sep"`
	Pieces [][]string `json:"pieces"`
	Unique bool       `json:"unique"`
	Len    int        `json:"len"`
	Upper  []string   `json:"upper"`
	Lower  []string   `json:"lower"`
	// num
	X     *c05Val `json:"x"`
	Floor *c05Val `json:"floor"`
	Ceil  *c05Val `json:"ceil"`
	Round *c05Val `json:"round"`
	// pluck / proto
	Obj       []c16Pair  `json:"obj"`
	Keys      [][]string `json:"keys"`
	OLen      int        `json:"olen"`
	ProtoKeys [][]string `json:"protokeys"`
	// numb: Res is a value; pluck / proto: Res is a list of pairs
	Res json.RawMessage `json:"res"`
	// call
	M          string    `json:"m"`
	Builtin    bool      `json:"builtin"`
	Recv       *c05Val   `json:"recv"`
	Args       []*c05Val `json:"args"`
	Documented bool      `json:"documented"`
	// casetab
	Table    [][][]string `json:"table"`
	Caseless [][]string   `json:"caseless"`
	// pluckw
	Target  string    `json:"target"`
	WKey    []string  `json:"wkey"`
	W       string    `json:"w"`
	RecvObj []c16Pair `json:"recvobj"`
	CopyObj []c16Pair `json:"copyobj"`
	// pluckj: an arrangement of o, p = o.pluck(keys), o.d, p.d and what json() of it must parse to
	Shape *c16Tree `json:"shape"`
	Want  *c16Tree `json:"want"`
	// pluckk: Args are the key arguments (strings and numbers), Keys the keys they name, Idx what o[arg] reads
	Idx []*c05Val `json:"idx"`
}

// c16Tree: an arrangement (leaf o|p|od|pd, arr, obj) or its unfolding (pairs, val, arr, obj) (MC_Methods.Unfold).
type c16Tree struct {
	T     string     `json:"t"`
	X     string     `json:"x,omitempty"`
	Keys  []string   `json:"keys,omitempty"`
	Items []*c16Tree `json:"items,omitempty"`
	Pairs []c16Pair  `json:"pairs,omitempty"`
	Val   *c05Val    `json:"val,omitempty"`
}

// c16TreeText writes an arrangement as an expression; leaf gives the text of a leaf.
func c16TreeText(t *c16Tree, leaf map[string]string) string {
	parts := make([]string, len(t.Items))
	for i, it := range t.Items {
		parts[i] = c16TreeText(it, leaf)
		if t.T == "obj" {
			parts[i] = t.Keys[i] + ": " + parts[i]
		}
	}
	switch t.T {
	case "leaf":
		return leaf[t.X]
	case "arr":
		return "[" + strings.Join(parts, ", ") + "]"
	case "obj":
		return "{" + strings.Join(parts, ", ") + "}"
	}
	infra("C16: arrangement node %q", t.T)
	return ""
}

// c16TreeWant: the value the JSON text must parse to (encoding/json's generic form).
func c16TreeWant(t *c16Tree) any {
	switch t.T {
	case "pairs":
		_, m := c16Pairs(t.Pairs)
		return m
	case "val":
		return c16ValAny(c05Concrete(t.Val))
	case "arr":
		out := make([]any, len(t.Items))
		for i, it := range t.Items {
			out[i] = c16TreeWant(it)
		}
		return out
	case "obj":
		out := map[string]any{}
		for i, it := range t.Items {
			out[t.Keys[i]] = c16TreeWant(it)
		}
		return out
	}
	infra("C16: unfolded node %q", t.T)
	return nil
}

// c16Case is one program with the observation the contract fixes.
type c16Case struct {
	Fam  string `json:"fam"`
	Desc string `json:"desc"`
	Prog string `json:"prog"`
	Doc  string `json:"doc,omitempty"`
	// split
	S      []byte   `json:"s,omitempty"`
	Sep    []byte   `json:"sep,omitempty"`
	Pieces [][]byte `json:"pieces,omitempty"` // the model's answer (compared when the decomposition is unique)
	Unique bool     `json:"unique,omitempty"`
	// str
	Upper    []byte         `json:"upper,omitempty"`
	Lower    []byte         `json:"lower,omitempty"`
	NoCase   bool           `json:"nocase,omitempty"` // non-ASCII text: only length and "receiver unchanged" are compared
	Exact    bool           `json:"exact,omitempty"`  // every character is ASCII or in the model's case table: upper/lower are compared byte for byte
	Chars    []string       `json:"chars,omitempty"`  // strhom: the characters of S
	CopyWant map[string]any `json:"copy_want,omitempty"`
	Nums     []float64      `json:"nums,omitempty"` // num: floor, ceil, round, x
	ObjWant  map[string]any `json:"obj_want,omitempty"`
	ResWant  map[string]any `json:"res_want,omitempty"`
	DevWant  map[string]any `json:"dev_want,omitempty"` // what pluck-proto-key predicts instead
	NoLen    bool           `json:"nolen,omitempty"`
	NumbNull bool           `json:"numb_null,omitempty"`
	NumbVal  float64        `json:"numb_val,omitempty"`
	JSONWant any            `json:"json_want,omitempty"` // pluckj: what the text json() returns must parse to
	Seeded   bool           `json:"seeded,omitempty"`
	IdxWant  []any          `json:"idx_want,omitempty"` // pluckk: what [o[k1], o[k2], ...] must print
	HasIdx   bool           `json:"has_idx,omitempty"`
	// splith (MC_SplitHist): the program prints one JSON text per line
	Sub       string `json:"sub,omitempty"`
	JSONLines []any  `json:"json_lines,omitempty"`
}

// c16Reader reads the length-prefixed lines the split / str programs print.
type c16Reader struct {
	b   []byte
	bad bool
}

func (r *c16Reader) line() string {
	i := bytes.IndexByte(r.b, '\n')
	if i < 0 {
		r.bad = true
		return ""
	}
	s := string(r.b[:i])
	r.b = r.b[i+1:]
	return s
}

func (r *c16Reader) int() int {
	n, err := strconv.Atoi(r.line())
	if err != nil || n < 0 {
		r.bad = true
		return 0
	}
	return n
}

// sized reads "<n>\n<n bytes>\n".
func (r *c16Reader) sized() []byte {
	n := r.int()
	if r.bad || len(r.b) < n+1 || r.b[n] != '\n' {
		r.bad = true
		return nil
	}
	s := append([]byte{}, r.b[:n]...)
	r.b = r.b[n+1:]
	return s
}

func c16Quote(s []byte) string {
	if !c05SafeStr(s) {
		infra("C16: string %q cannot be written as a literal", s)
	}
	return `"` + string(s) + `"`
}

func c16JSON(v any) string {
	var sb strings.Builder
	enc := json.NewEncoder(&sb)
	enc.SetEscapeHTML(false)
	if err := enc.Encode(v); err != nil {
		infra("C16: json: %v", err)
	}
	return strings.TrimSuffix(sb.String(), "\n")
}

const c16SplitBody = "print p.length(); for (x in p) { print x.length(); print x }"
const c16StrBody = "u = s.upper(); l = s.lower(); print s.length(); print u.length(); print u; print l.length(); print l; print s.length(); print s"

// c16Occurrences: start offsets of sep in s.
func c16Occurrences(s, sep []byte) []int {
	var out []int
	for i := 0; i+len(sep) <= len(s); i++ {
		if bytes.Equal(s[i:i+len(sep)], sep) {
			out = append(out, i)
		}
	}
	return out
}

// c16LeftmostSplit: reference split for a non-empty separator.
func c16LeftmostSplit(s, sep []byte) [][]byte {
	var out [][]byte
	from := 0
	for i := 0; i+len(sep) <= len(s); {
		if bytes.Equal(s[i:i+len(sep)], sep) {
			out = append(out, s[from:i])
			i += len(sep)
			from = i
		} else {
			i++
		}
	}
	return append(out, s[from:])
}

func c16NoOverlap(occ []int, m int) bool {
	for i := 1; i < len(occ); i++ {
		if occ[i-1]+m > occ[i] {
			return false
		}
	}
	return true
}

func c16Upper(s []byte) []byte {
	out := append([]byte{}, s...)
	for i, b := range out {
		if b >= 'a' && b <= 'z' {
			out[i] = b - 32
		}
	}
	return out
}

func c16Lower(s []byte) []byte {
	out := append([]byte{}, s...)
	for i, b := range out {
		if b >= 'A' && b <= 'Z' {
			out[i] = b + 32
		}
	}
	return out
}

// c16Mask replaces every maximal run of non-ASCII bytes by one 0xFF: case
// mapping of non-ASCII letters is not compared, that of the ASCII ones is.
func c16Mask(s []byte) []byte {
	var out []byte
	for i := 0; i < len(s); i++ {
		if s[i] < 0x80 {
			out = append(out, s[i])
		} else if len(out) == 0 || out[len(out)-1] != 0xff {
			out = append(out, 0xff)
		}
	}
	return out
}

func c16MapEq(a, b map[string]any) bool {
	if len(a) == 0 && len(b) == 0 {
		return true
	}
	return reflect.DeepEqual(a, b)
}

// non-ASCII characters whose case mappings stay non-ASCII (so that c16Mask applies)
var c16Tame = []string{"é", "Ω", "世", "界", "\U0001F600"}

func c16IsTame(s string) bool {
	for _, t := range c16Tame {
		s = strings.ReplaceAll(s, t, "")
	}
	return c16IsASCII([]byte(s))
}

func c16IsASCII(s []byte) bool {
	for _, b := range s {
		if b >= 0x80 {
			return false
		}
	}
	return true
}

// floor / ceil / round (half away from zero) of a double, with math/big.
func c16Floor(x float64) float64 {
	r := new(big.Rat).SetFloat64(x)
	q := new(big.Int).Div(r.Num(), r.Denom()) // Euclidean division: floor for a positive denominator
	f, _ := new(big.Float).SetInt(q).Float64()
	return f
}
func c16Ceil(x float64) float64 { return -c16Floor(-x) }
func c16Round(x float64) float64 {
	r := new(big.Rat).SetFloat64(math.Abs(x))
	r.Add(r, big.NewRat(1, 2))
	q := new(big.Int).Div(r.Num(), r.Denom())
	f, _ := new(big.Float).SetInt(q).Float64()
	if x < 0 {
		return -f
	}
	return f
}

// c16ParseObj parses what `print` shows for an object whose strings need no
// escaping; a native function prints as <nativefunction>.
func c16ParseObj(line string) (map[string]any, bool) {
	line = strings.ReplaceAll(line, "<nativefunction>", `"<nativefunction>"`)
	var m map[string]any
	dec := json.NewDecoder(strings.NewReader(line))
	if err := dec.Decode(&m); err != nil || dec.More() {
		return nil, false
	}
	return m, true
}

func c16ValAny(v c05GV) any {
	switch v.Kind {
	case "num":
		return v.F
	case "str":
		return string(v.S)
	case "bool":
		return v.B
	case "null":
		return nil
	case "arr":
		if v.Len == 0 {
			return []any{}
		}
		return []any{1.0}
	case "obj":
		if v.Len == 0 {
			return map[string]any{}
		}
		return map[string]any{"a": 1.0}
	}
	infra("C16: kind %q inside an object", v.Kind)
	return nil
}

func c16Pairs(ps []c16Pair) (lit string, m map[string]any) {
	m = map[string]any{}
	parts := []string{}
	for _, p := range ps {
		k := string(symsToBytes(p.Key))
		v := c05Concrete(p.Val)
		m[k] = c16ValAny(v)
		parts = append(parts, k+": "+c05Lit(v, "x"))
	}
	return "{" + strings.Join(parts, ", ") + "}", m
}

// c16PairsQ: as c16Pairs, for keys that are not identifiers (written as string literals).
func c16PairsQ(ps []c16Pair) (lit string, m map[string]any) {
	m = map[string]any{}
	parts := []string{}
	for _, p := range ps {
		k := symsToBytes(p.Key)
		v := c05Concrete(p.Val)
		m[string(k)] = c16ValAny(v)
		parts = append(parts, c16Quote(k)+": "+c05Lit(v, "x"))
	}
	return "{" + strings.Join(parts, ", ") + "}", m
}

func c16KeyArgs(keys []string) string {
	q := make([]string, len(keys))
	for i, k := range keys {
		q[i] = c16Quote([]byte(k))
	}
	return strings.Join(q, ", ")
}

// C16: string, number and object methods, num() and json().
func checkC16(c *Ctx) {
	c.Assume("split with an empty separator: the statement fixes only that the pieces concatenate to the receiver; that the pieces are the characters (the model's answer) is recorded, not required")
	c.Assume("split where occurrences of the separator overlap (\"aaa\".split(\"aa\")): any decomposition with separator-free pieces that joins to the receiver is accepted")
	c.Assume("case mapping: ASCII letters and the 18 non-ASCII characters of the model's table (simple case mappings of the Unicode Character Database: lower/upper pairs of 2, 3 and 4 bytes, a titlecase digraph, roman numerals, circled letters, U+0345) plus two caseless ones are compared byte for byte; for any other text only the law 'upper/lower of a text = upper/lower of its characters, one by one' is checked (case mapping is taken to be context-free; Greek sigma is kept out of generated text); ASCII letters inside any text are compared as before")
	c.Assume("a write to a NESTED value reached through the plucked copy is not compared (pluck is a shallow copy)")
	c.Assume("the sign of a zero result of floor/ceil/round/num is not compared (-0 equals 0)")
	c.Assume("num() of a number, and every call outside the documented contract (other receiver kind, missing / extra / wrong-kind arguments): only 'a value or a runtime error, never a crash' is required")
	c.Assume("json(): its output belongs to C04; here absence of crashes, and json() of every arrangement of a pluck result, its receiver and their shared members (one container reachable along several paths is not a cycle) must parse to the arrangement written out")
	c.Assume("num() of the non-finite spellings inf / infinity / nan is not compared (the statement speaks of the nearest double)")
	c.Assume("object keys that name a prototype method (length, pluck) are a separate vector class; length() of an object that has its own key `length` is not exercised")
	c.Assume("objects are compared structurally (printed form parsed), never by key order (C10); printed strings are escape-free by construction")
	c.Assume("numeric strings: decimal grammar only (Go's hex, inf/nan and underscore spellings are outside the model); magnitudes within 1e-300..1e300")
	pool := c.Pool()

	maxLen, caseLen, keyLen := 4, 3, 2
	histOps, histVars, nestLen := 3, 3, 5
	if c.Thorough() {
		maxLen, caseLen, keyLen = 6, 4, 3
		histOps, histVars, nestLen = 4, 3, 7
	}
	caseTab := map[string][2]string{} // the model's case table: character -> upper, lower (caseless characters map to themselves)
	var cmu sync.Mutex
	counts := map[string]int{}
	count := func(k string) {
		cmu.Lock()
		counts[k]++
		cmu.Unlock()
	}
	knownEx := map[string]string{}
	nsample := 0
	inconclusive := 0
	st := pool.NewStream(func(j *Job, r Result) {
		var cs c16Case
		if err := json.Unmarshal([]byte(j.Tag), &cs); err != nil {
			infra("C16: tag: %v", err)
		}
		if r.Class == "timeout" || r.Class == "budget" {
			inconclusive++
			return
		}
		rep := map[string]any{"case": cs, "got_class": r.Class, "got_stdout": string(r.Stdout), "got_msg": r.ErrMsg, "detail": r.Detail}
		fail := func(name, why string) {
			rep["why"] = why
			c.Violation(name, rep)
		}
		if r.Class != "ok" && r.Class != "runtime" {
			fail("method-crash", "the run ended with "+r.Class)
			return
		}
		if cs.Fam == "call" {
			count("calls outside the contract: " + r.Class)
			c.Case(cs.Prog, true)
			return
		}
		if r.Class != "ok" {
			fail("method-error", "a documented call ended with a runtime error")
			return
		}
		rd := &c16Reader{b: r.Stdout}
		switch cs.Fam {
		case "split":
			n := rd.int()
			if rd.bad || n > len(r.Stdout) {
				fail("split-output", "unreadable output")
				return
			}
			pieces := make([][]byte, 0, n)
			for i := 0; i < n; i++ {
				pieces = append(pieces, rd.sized())
			}
			if rd.bad || len(rd.b) != 0 {
				fail("split-output", "unreadable output (piece lengths do not match the printed bytes)")
				return
			}
			if !bytes.Equal(bytes.Join(pieces, cs.Sep), cs.S) {
				fail("split-join", "the pieces joined by the separator are not the receiver")
				return
			}
			if len(cs.Sep) > 0 {
				for _, p := range pieces {
					if bytes.Contains(p, cs.Sep) {
						fail("split-piece", "a piece contains the separator")
						return
					}
				}
			}
			same := len(pieces) == len(cs.Pieces)
			for i := 0; same && i < len(pieces); i++ {
				same = bytes.Equal(pieces[i], cs.Pieces[i])
			}
			if cs.Unique && !same {
				infra("C16: split(%q, %q): the real result %q satisfies the laws but differs from the model's unique answer %q", cs.S, cs.Sep, pieces, cs.Pieces)
			}
			if len(cs.Sep) == 0 && !cs.Seeded {
				if same {
					count("empty separator: pieces are the characters")
				} else {
					count("empty separator: pieces are NOT the characters (allowed)")
				}
			}
		case "str":
			n0 := rd.int()
			up := rd.sized()
			lo := rd.sized()
			s2 := rd.sized()
			if rd.bad || len(rd.b) != 0 {
				fail("str-output", "unreadable output")
				return
			}
			if n0 != len(cs.S) {
				fail("str-length", fmt.Sprintf("length() = %d, the receiver has %d bytes", n0, len(cs.S)))
				return
			}
			if !bytes.Equal(s2, cs.S) {
				fail("str-receiver", "the receiver changed")
				return
			}
			if cs.Exact && (!bytes.Equal(up, cs.Upper) || !bytes.Equal(lo, cs.Lower)) {
				fail("str-case", fmt.Sprintf("upper %q lower %q, expected %q and %q", up, lo, cs.Upper, cs.Lower))
				return
			}
			if !cs.NoCase && (!bytes.Equal(c16Mask(up), c16Mask(cs.Upper)) || !bytes.Equal(c16Mask(lo), c16Mask(cs.Lower))) {
				fail("str-case", fmt.Sprintf("upper %q lower %q", up, lo))
				return
			}
		case "strhom":
			n0 := rd.int()
			up := rd.sized()
			lo := rd.sized()
			s2 := rd.sized()
			var cu, cl []byte
			for range cs.Chars {
				cu = append(cu, rd.sized()...)
				cl = append(cl, rd.sized()...)
			}
			if rd.bad || len(rd.b) != 0 {
				fail("str-output", "unreadable output")
				return
			}
			if n0 != len(cs.S) || !bytes.Equal(s2, cs.S) {
				fail("str-length", "length() is not the number of bytes, or the receiver changed")
				return
			}
			if !bytes.Equal(up, cu) || !bytes.Equal(lo, cl) {
				fail("str-case-by-character", fmt.Sprintf("upper() of the text is %q, its characters mapped one by one give %q; lower(): %q and %q", up, cu, lo, cl))
				return
			}
		case "pluckw":
			p1, ok1 := c16ParseObj(rd.line())
			o1, ok2 := c16ParseObj(rd.line())
			if rd.bad || !ok1 || !ok2 || len(rd.b) != 0 {
				fail("pluck-output", "unreadable output")
				return
			}
			if !c16MapEq(o1, cs.ObjWant) {
				fail("pluck-receiver", fmt.Sprintf("after the write the receiver is %s, expected %s", c16JSON(o1), c16JSON(cs.ObjWant)))
				return
			}
			if !c16MapEq(p1, cs.CopyWant) {
				fail("pluck-copy", fmt.Sprintf("after the write the plucked object is %s, expected %s", c16JSON(p1), c16JSON(cs.CopyWant)))
				return
			}
		case "num":
			for i, want := range cs.Nums {
				got, err := strconv.ParseFloat(rd.line(), 64)
				if rd.bad || err != nil {
					fail("num-output", "unreadable output")
					return
				}
				if got != want {
					fail("num-round", fmt.Sprintf("%s: got %v, expected %v", []string{"floor", "ceil", "round", "receiver afterwards"}[i], got, want))
					return
				}
			}
			if len(rd.b) != 0 {
				fail("num-output", "extra output")
				return
			}
		case "numb":
			val, isNum, isNull := rd.line(), rd.line(), rd.line()
			if rd.bad || len(rd.b) != 0 {
				fail("numb-output", "unreadable output")
				return
			}
			if cs.NumbNull {
				if val != "null" || isNum != "false" || isNull != "true" {
					fail("num-builtin", "expected null for a non-numeric string")
					return
				}
			} else {
				got, err := strconv.ParseFloat(val, 64)
				if err != nil || isNum != "true" || isNull != "false" || got != cs.NumbVal {
					fail("num-builtin", fmt.Sprintf("expected the number %v", cs.NumbVal))
					return
				}
			}
		case "pluckj":
			var got any
			dec := json.NewDecoder(bytes.NewReader(r.Stdout))
			if err := dec.Decode(&got); err != nil || dec.More() {
				fail("pluck-json", "json() of a value built from a pluck result and its receiver did not print one JSON text")
				return
			}
			if !reflect.DeepEqual(got, cs.JSONWant) {
				fail("pluck-json", fmt.Sprintf("json() gave %s, expected %s", c16JSON(got), c16JSON(cs.JSONWant)))
				return
			}
		case "splith":
			var got []any
			dec := json.NewDecoder(bytes.NewReader(r.Stdout))
			for dec.More() {
				var line any
				if err := dec.Decode(&line); err != nil {
					fail(cs.Sub, "unreadable output")
					return
				}
				got = append(got, line)
			}
			if len(got) != len(cs.JSONLines) {
				fail(cs.Sub, fmt.Sprintf("%d lines printed, expected %d", len(got), len(cs.JSONLines)))
				return
			}
			for i := range got {
				if !reflect.DeepEqual(got[i], cs.JSONLines[i]) {
					fail(cs.Sub, fmt.Sprintf("line %d is %s; every result of split must still be what its call returned: expected %s", i+1, c16JSON(got[i]), c16JSON(cs.JSONLines[i])))
					return
				}
			}
		case "pluck", "proto":
			p1, ok1 := c16ParseObj(rd.line())
			o1, ok2 := c16ParseObj(rd.line())
			okAll := ok1 && ok2
			if cs.HasIdx {
				var idx []any
				if err := json.Unmarshal([]byte(rd.line()), &idx); err != nil {
					fail("pluck-output", "unreadable output (members read by index)")
					return
				}
				if len(idx) != len(cs.IdxWant) || (len(idx) > 0 && !reflect.DeepEqual(idx, cs.IdxWant)) {
					fail("object-index", fmt.Sprintf("the members read with the same keys are %s, expected %s", c16JSON(idx), c16JSON(cs.IdxWant)))
					return
				}
			}
			plen := -1
			var o2 map[string]any
			if !cs.NoLen {
				plen = rd.int()
				var ok3 bool
				o2, ok3 = c16ParseObj(rd.line())
				okAll = okAll && ok3
			}
			if rd.bad || !okAll || len(rd.b) != 0 {
				fail("pluck-output", "unreadable output")
				return
			}
			if !c16MapEq(o1, cs.ObjWant) || (!cs.NoLen && !c16MapEq(o2, cs.ObjWant)) {
				fail("pluck-receiver", "the receiver changed (by pluck, or by writing to the result)")
				return
			}
			if !c16MapEq(p1, cs.ResWant) {
				if len(cs.DevWant) > 0 && c16MapEq(p1, cs.DevWant) && c.OpenDev("pluck-proto-key") {
					what := fmt.Sprintf("e.g. `%s`: expected %s, got %s", cs.Prog, c16JSON(cs.ResWant), c16JSON(p1))
					if cur, ok := knownEx["pluck-proto-key"]; !ok || len(what) < len(cur) || (len(what) == len(cur) && what < cur) {
						knownEx["pluck-proto-key"] = what
					}
				} else {
					fail("pluck-result", fmt.Sprintf("pluck returned %s, expected %s", c16JSON(p1), c16JSON(cs.ResWant)))
					return
				}
			}
			if !cs.NoLen && plen != len(cs.ResWant) {
				fail("pluck-length", fmt.Sprintf("length() of the result is %d, expected %d", plen, len(cs.ResWant)))
				return
			}
		default:
			infra("C16: family %q", cs.Fam)
		}
		if cs.Fam == "splith" {
			count("cases " + cs.Sub)
		} else if cs.HasIdx {
			count("cases pluck with string and number keys")
		} else {
			count("cases " + cs.Fam)
		}
		c.Case(cs.Prog+"\x00"+cs.Doc, true)
		nsample++
		if nsample%4999 == 1 {
			c.Sample(map[string]any{"family": cs.Fam, "case": cs.Desc, "program": cs.Prog, "document": cs.Doc})
		}
	})
	submit := func(cs c16Case) {
		b, _ := json.Marshal(&cs)
		j := Job{Kind: "run", Prog: []byte(cs.Prog), Tag: string(b)}
		if cs.Doc != "" {
			j.Files = []FileIn{{Name: "in.json", Data: []byte(cs.Doc)}}
		}
		st.Submit(j)
	}

	// ---- (1) the model's cases
	onVec := func(raw []byte) {
		var v c16Vec
		VecDecode(raw, &v)
		switch v.Fam {
		case "split":
			s, sep := symsToBytes(v.S), symsToBytes(v.Sep)
			cs := c16Case{Fam: "split", S: s, Sep: sep, Unique: v.Unique,
				Desc: fmt.Sprintf("%q.split(%q)", s, sep),
				Prog: "BEGIN { s = " + c16Quote(s) + "; p = s.split(" + c16Quote(sep) + "); " + c16SplitBody + " }"}
			for _, p := range v.Pieces {
				cs.Pieces = append(cs.Pieces, symsToBytes(p))
			}
			// harness-side sanity of the model's answer (independent reference)
			if len(sep) > 0 && v.Unique != c16NoOverlap(c16Occurrences(s, sep), len(sep)) && c16NoOverlap(c16Occurrences(s, sep), len(sep)) {
				infra("C16: model says split(%q, %q) is ambiguous, the harness finds no overlapping occurrences", s, sep)
			}
			submit(cs)
		case "str":
			s := symsToBytes(v.S)
			if v.Len != len(s) {
				infra("C16: model length %d of %q", v.Len, s)
			}
			cs := c16Case{Fam: "str", S: s, Upper: symsToBytes(v.Upper), Lower: symsToBytes(v.Lower), Exact: true,
				Desc: fmt.Sprintf("%q: length, upper, lower", s),
				Prog: "BEGIN { s = " + c16Quote(s) + "; " + c16StrBody + " }"}
			submit(cs)
			cs.Desc += " (document field)"
			cs.Prog, cs.Doc = "{ s = $.s; "+c16StrBody+" }", c16JSON(map[string]string{"s": string(s)})
			submit(cs)
		case "casetab":
			for _, row := range v.Table {
				if len(row) != 3 {
					infra("C16: case table row %v", row)
				}
				c, u, l := string(symsToBytes(row[0])), string(symsToBytes(row[1])), string(symsToBytes(row[2]))
				r, n := utf8.DecodeRuneInString(c)
				// leaf facts of the specification against Go's Unicode tables (a disagreement is a mistake in the table)
				if n != len(c) || r == utf8.RuneError || string(unicode.ToUpper(r)) != u || string(unicode.ToLower(r)) != l {
					infra("C16: case table row % X -> % X, % X disagrees with the Unicode tables of the harness", c, u, l)
				}
				caseTab[c] = [2]string{u, l}
			}
			for _, cl := range v.Caseless {
				c := string(symsToBytes(cl))
				r, _ := utf8.DecodeRuneInString(c)
				if unicode.ToUpper(r) != r || unicode.ToLower(r) != r {
					infra("C16: % X is not caseless", c)
				}
				caseTab[c] = [2]string{c, c}
			}
		case "pluckw":
			olit, owant := c16Pairs(v.Obj)
			_, rwant := c16Pairs(v.RecvObj)
			_, cwant := c16Pairs(v.CopyObj)
			keys := make([]string, len(v.Keys))
			for i, k := range v.Keys {
				keys[i] = string(symsToBytes(k))
			}
			wkey := string(symsToBytes(v.WKey))
			// harness-side sanity: the object that is not written is what it was
			if (v.Target == "copy" && !c16MapEq(rwant, owant)) || len(cwant) > len(keys)+1 {
				infra("C16: pluckw vector %s", raw)
			}
			for _, docMode := range []bool{false, true} {
				recv, pre, doc := "o", "o = "+olit+"; ", ""
				if docMode {
					recv, pre, doc = "$.o", "", `{"o": `+c16JSON(owant)+`}`
				}
				obj := "p"
				if v.Target == "recv" {
					obj = recv
				}
				stmt := c16WriteStmt(obj+"."+wkey, v.W)
				body := pre + "p = " + recv + ".pluck(" + c16KeyArgs(keys) + "); " + stmt + "; print p; print " + recv
				cs := c16Case{Fam: "pluckw", ObjWant: rwant, CopyWant: cwant,
					Desc: fmt.Sprintf("%s.pluck(%s), then `%s` (p the result, %s the receiver)", olit, c16KeyArgs(keys), stmt, recv)}
				if docMode {
					cs.Prog, cs.Doc = "{ "+body+" }", doc
				} else {
					cs.Prog = "BEGIN { " + body + " }"
				}
				submit(cs)
			}
		case "numbig":
			var rv c05Val
			if err := json.Unmarshal(v.Res, &rv); err != nil {
				infra("C16: num() result: %v", err)
			}
			s := symsToBytes(v.S)
			cs := c16Case{Fam: "numb", Desc: fmt.Sprintf("num(%q)", s),
				Prog: "BEGIN { x = num(" + c16Quote(s) + "); print x; print x is number; print x is null }"}
			pf, pok := c05ParseNum(s)
			if rv.K == "null" {
				cs.NumbNull = true
			} else if rv.K == "dec" {
				cs.NumbVal = c05Nearest(&rv)
			} else {
				infra("C16: num() result of kind %q", rv.K)
			}
			if pok == cs.NumbNull || (pok && pf != cs.NumbVal) {
				infra("C16: the harness's numeric-string parser disagrees with the specification on %q: %v %v, spec %v", s, pf, pok, cs.NumbVal)
			}
			submit(cs)
			cs.Desc += " (document field)"
			cs.Prog, cs.Doc = "{ x = num($.s); print x; print x is number; print x is null }", c16JSON(map[string]string{"s": string(s)})
			submit(cs)
		case "num":
			x := c05Concrete(v.X)
			want := []float64{c05Nearest(v.Floor), c05Nearest(v.Ceil), c05Nearest(v.Round), x.F}
			if want[0] != c16Floor(x.F) || want[1] != c16Ceil(x.F) || want[2] != c16Round(x.F) {
				infra("C16: the harness's math/big rounding disagrees with the specification on %v", x.F)
			}
			body := "print x.floor(); print x.ceil(); print x.round(); print x"
			submit(c16Case{Fam: "num", Nums: want, Desc: fmt.Sprintf("floor/ceil/round of %v (variable)", x.F),
				Prog: "BEGIN { x = " + c05Lit(x, "x") + "; " + body + " }"})
			submit(c16Case{Fam: "num", Nums: want, Desc: fmt.Sprintf("floor/ceil/round of %v (document field)", x.F),
				Prog: "{ " + strings.ReplaceAll(body, "x", "$.x") + " }", Doc: `{"x": ` + c05Fmt(x.F) + `}`})
		case "pluckj":
			olit, owant := c16Pairs(v.Obj)
			keys := make([]string, len(v.Keys))
			for i, k := range v.Keys {
				keys[i] = string(symsToBytes(k))
			}
			// (through encoding/json and back: the generic form the comparison sees, whatever the tag went through)
			var want any
			if err := json.Unmarshal([]byte(c16JSON(c16TreeWant(v.Want))), &want); err != nil {
				infra("C16: pluckj expectation: %v", err)
			}
			cs := c16Case{Fam: "pluckj", JSONWant: want}
			arr := c16TreeText(v.Shape, map[string]string{"o": "o", "p": "p", "od": "o.d", "pd": "p.d"})
			cs.Desc = fmt.Sprintf("o = %s; p = o.pluck(%s); json(%s)", olit, c16KeyArgs(keys), arr)
			cs.Prog = "BEGIN { o = " + olit + "; p = o.pluck(" + c16KeyArgs(keys) + "); print json(" + arr + ") }"
			submit(cs)
			cs2 := cs
			cs2.Desc += " (document field)"
			cs2.Prog = "{ p = $.o.pluck(" + c16KeyArgs(keys) + "); print json(" +
				c16TreeText(v.Shape, map[string]string{"o": "$.o", "p": "p", "od": "$.o.d", "pd": "p.d"}) + ") }"
			cs2.Doc = `{"o": ` + c16JSON(owant) + `}`
			submit(cs2)
		case "pluckk":
			var res []c16Pair
			if err := json.Unmarshal(v.Res, &res); err != nil {
				infra("C16: pluck result: %v", err)
			}
			olit, owant := c16PairsQ(v.Obj)
			_, rwant := c16PairsQ(res)
			if len(v.Args) != len(v.Keys) || len(v.Args) != len(v.Idx) {
				infra("C16: pluckk vector %s", raw)
			}
			idxWant := make([]any, len(v.Idx))
			lits := make([]string, len(v.Args))
			docArgs := make([]any, len(v.Args))
			refs := [3][]string{}
			pre := ""
			for i, a := range v.Args {
				av := c05Concrete(a)
				idxWant[i] = c16ValAny(c05Concrete(v.Idx[i]))
				lits[i] = c05Lit(av, "k")
				docArgs[i] = c16ValAny(av)
				// harness-side sanity: the key the model derives for a number is the text Go prints for it
				if key := string(symsToBytes(v.Keys[i])); (av.Kind == "num" && key != c05Fmt(av.F)) || (av.Kind == "str" && key != string(av.S)) {
					infra("C16: the model names the key %q for the argument %s", key, lits[i])
				}
				pre += fmt.Sprintf("k%d = %s; ", i, lits[i])
				refs[0] = append(refs[0], lits[i])
				refs[1] = append(refs[1], fmt.Sprintf("k%d", i))
				refs[2] = append(refs[2], fmt.Sprintf("$.k[%d]", i))
			}
			body := func(obj string, args []string) string {
				idx := make([]string, len(args))
				for i, a := range args {
					idx[i] = obj + "[" + a + "]"
				}
				return "p = " + obj + ".pluck(" + strings.Join(args, ", ") + "); print p; print " + obj + "; print [" + strings.Join(idx, ", ") + "]; print p.length(); p.a = 99; p.zz = 1; print " + obj
			}
			cs := c16Case{Fam: "pluck", ObjWant: owant, ResWant: rwant, IdxWant: idxWant, HasIdx: true}
			cs.Desc = fmt.Sprintf("%s.pluck(%s) (literal keys)", olit, strings.Join(lits, ", "))
			cs.Prog = "BEGIN { o = " + olit + "; " + body("o", refs[0]) + " }"
			submit(cs)
			cs.Desc = fmt.Sprintf("%s.pluck(%s) (keys in variables)", olit, strings.Join(lits, ", "))
			cs.Prog = "BEGIN { o = " + olit + "; " + pre + body("o", refs[1]) + " }"
			submit(cs)
			cs.Desc = fmt.Sprintf("%s.pluck(%s) (object and keys of the document)", olit, strings.Join(lits, ", "))
			cs.Prog, cs.Doc = "{ "+body("$.o", refs[2])+" }", c16JSON(map[string]any{"o": owant, "k": docArgs})
			submit(cs)
		case "pluck", "proto":
			var res []c16Pair
			if err := json.Unmarshal(v.Res, &res); err != nil {
				infra("C16: pluck result: %v", err)
			}
			olit, owant := c16Pairs(v.Obj)
			_, rwant := c16Pairs(res)
			keys := make([]string, len(v.Keys))
			for i, k := range v.Keys {
				keys[i] = string(symsToBytes(k))
			}
			cs := c16Case{Fam: v.Fam, ObjWant: owant, ResWant: rwant,
				Desc: fmt.Sprintf("%s.pluck(%s)", olit, c16KeyArgs(keys))}
			if v.Fam == "proto" {
				cs.NoLen = true
				cs.DevWant = map[string]any{}
				for k, val := range rwant {
					cs.DevWant[k] = val
				}
				for _, pk := range v.ProtoKeys {
					if _, ok := cs.DevWant[string(symsToBytes(pk))]; ok {
						cs.DevWant[string(symsToBytes(pk))] = "<nativefunction>"
					}
				}
				cs.Prog = "BEGIN { o = " + olit + "; p = o.pluck(" + c16KeyArgs(keys) + "); print p; print o }"
				submit(cs)
				return
			}
			tail := "print p; print OBJ; print p.length(); p.a = 99; p.zz = 1; print OBJ"
			cs.Prog = "BEGIN { o = " + olit + "; p = o.pluck(" + c16KeyArgs(keys) + "); " + strings.ReplaceAll(tail, "OBJ", "o") + " }"
			submit(cs)
			cs2 := cs
			cs2.Desc += " (document field)"
			cs2.Prog = "{ p = $.o.pluck(" + c16KeyArgs(keys) + "); " + strings.ReplaceAll(tail, "OBJ", "$.o") + " }"
			cs2.Doc = `{"o": ` + c16JSON(owant) + `}`
			submit(cs2)
		case "numb":
			var rv c05Val
			if err := json.Unmarshal(v.Res, &rv); err != nil {
				infra("C16: num() result: %v", err)
			}
			s := symsToBytes(v.S)
			cs := c16Case{Fam: "numb", Desc: fmt.Sprintf("num(%q)", s),
				Prog: "BEGIN { x = num(" + c16Quote(s) + "); print x; print x is number; print x is null }"}
			pf, pok := c05ParseNum(s)
			if rv.K == "null" {
				cs.NumbNull = true
			} else {
				cs.NumbVal = c05Nearest(&rv)
			}
			if pok == cs.NumbNull || (pok && pf != cs.NumbVal) {
				infra("C16: the harness's numeric-string parser disagrees with the specification on %q", s)
			}
			submit(cs)
		case "call":
			if v.Documented {
				count("calls inside the contract (covered by the other families)")
				return
			}
			recv := c05Concrete(v.Recv)
			args := make([]string, len(v.Args))
			uses := []c05GV{recv}
			for i, a := range v.Args {
				av := c05Concrete(a)
				uses = append(uses, av)
				args[i] = c05Lit(av, fmt.Sprint("arg", i))
			}
			call := v.M + "(" + strings.Join(args, ", ") + ")"
			prog := ""
			if v.Builtin {
				prog = c05UsesFn(uses...) + "BEGIN { print " + call + " }"
			} else {
				ref, pre, _ := c05Operand(recv, "r", "var")
				prog = c05UsesFn(uses...) + "BEGIN { " + pre + "print " + ref + "." + call + " }"
			}
			submit(c16Case{Fam: "call", Desc: "outside the contract: " + call + " on " + c05Lit(recv, "r"), Prog: prog})
		default:
			infra("C16: unknown vector family %q", v.Fam)
		}
	}
	res := c.TLC(TLCOpt{Module: "MC_Methods",
		Cfg:     cfgText("INIT Init", "NEXT Next", fmt.Sprintf("CONSTANTS MaxLen = %d CaseLen = %d KeyLen = %d", maxLen, caseLen, keyLen), "INVARIANT Laws", "INVARIANT Vec", "CHECK_DEADLOCK FALSE"),
		Workers: 8, Heap: "6g", OnVec: onVec})
	if res.Vectors == 0 {
		infra("C16: TLC emitted no vectors")
	}

	// ---- (1b) histories of split calls whose results stay alive (MC_SplitHist: a transition system)
	hres := c.TLC(TLCOpt{Module: "MC_SplitHist",
		Cfg: cfgText("INIT Init", "NEXT Next", fmt.Sprintf("CONSTANTS MaxOps = %d NVars = %d NestLen = %d", histOps, histVars, nestLen),
			"INVARIANT Laws", "INVARIANT Vec", "PROPERTY Frame", "CHECK_DEADLOCK FALSE"),
		Workers: 8, Heap: "6g", OnVec: func(raw []byte) {
			for _, cs := range c16HistCases(raw) {
				submit(cs)
			}
		}})
	if hres.Vectors == 0 {
		infra("C16: TLC emitted no vectors for MC_SplitHist")
	}

	// ---- (2) seeded instantiation: the LAWS on real outputs for arbitrary
	// UTF-8 strings and separators, random doubles, random numeric strings and
	// random objects (all values travel through the input document)
	n := 8000
	if c.Thorough() {
		n = 200000
	}
	rng := rand.New(rand.NewSource(c.Seed))
	if len(caseTab) < 10 {
		infra("C16: the model's case table did not arrive")
	}
	var tabChars []string
	for ch := range caseTab {
		tabChars = append(tabChars, ch)
	}
	sort.Strings(tabChars)
	for i := 0; i < n; i++ {
		switch rng.Intn(12) {
		case 11: // several results of split alive at once: each is still what its call returned after all the calls
			alpha := c16RandAlphabet(rng)
			ncalls := 2 + rng.Intn(4)
			var docCalls []map[string]string
			var want []any
			var names, stmts []string
			for k := 0; k < ncalls; k++ {
				sep := c16RandText(rng, alpha, 1, 2)
				var sb strings.Builder
				for q, parts := 0, rng.Intn(6); q <= parts; q++ {
					sb.WriteString(c16RandText(rng, alpha, 0, 3))
					if q < parts {
						sb.WriteString(sep)
					}
				}
				s := sb.String()
				if !c16NoOverlap(c16Occurrences([]byte(s), []byte(sep)), len(sep)) {
					s = strings.ReplaceAll(s, sep, "") // (keeps the decomposition unique)
					if strings.Contains(s, sep) || !c16NoOverlap(c16Occurrences([]byte(s), []byte(sep)), len(sep)) {
						s = ""
					}
				}
				var pieces []any
				for _, pc := range c16LeftmostSplit([]byte(s), []byte(sep)) {
					pieces = append(pieces, string(pc))
				}
				want = append(want, pieces)
				docCalls = append(docCalls, map[string]string{"s": s, "sep": sep})
				names = append(names, fmt.Sprintf("r%d", k))
				stmts = append(stmts, fmt.Sprintf("r%d = $.c[%d].s.split($.c[%d].sep)", k, k, k))
			}
			submit(c16Case{Fam: "splith", Sub: "split-history", Seeded: true, JSONLines: []any{want},
				Desc: fmt.Sprintf("seeded: %d results of split held in variables, all printed after the last call: %s", ncalls, c16JSON(docCalls)),
				Prog: "{ " + strings.Join(stmts, "; ") + "; print json([" + strings.Join(names, ", ") + "]) }", Doc: c16JSON(map[string]any{"c": docCalls})})
		case 6: // text over ASCII and the characters of the model's case table: upper/lower byte for byte
			var sb strings.Builder
			for k, m := 0, rng.Intn(10); k < m; k++ {
				if rng.Intn(3) == 0 {
					sb.WriteByte("abzAQZ09 _-"[rng.Intn(11)])
				} else {
					sb.WriteString(tabChars[rng.Intn(len(tabChars))])
				}
			}
			str := sb.String()
			up, ok1 := c16MapCase(str, caseTab, 0)
			lo, ok2 := c16MapCase(str, caseTab, 1)
			if !ok1 || !ok2 {
				infra("C16: %q is not over the case table", str)
			}
			submit(c16Case{Fam: "str", S: []byte(str), Upper: up, Lower: lo, Exact: true, Seeded: true,
				Desc: fmt.Sprintf("seeded: %q: length, upper, lower (model's case table)", str),
				Prog: "{ s = $.s; " + c16StrBody + " }", Doc: c16JSON(map[string]string{"s": str})})
		case 7, 8: // any text: upper/lower of the text are the characters' upper/lower, one by one
			var chars []string
			for k, m := 0, 1+rng.Intn(7); k < m; k++ {
				chars = append(chars, c16RandChar(rng))
			}
			str := strings.Join(chars, "")
			submit(c16Case{Fam: "strhom", S: []byte(str), Chars: chars, Seeded: true,
				Desc: fmt.Sprintf("seeded: %q: upper/lower of the text against upper/lower of each of its characters", str),
				Prog: "{ s = $.s; " + c16StrBody + "; for (c in $.cs) { u = c.upper(); l = c.lower(); print u.length(); print u; print l.length(); print l } }",
				Doc:  c16JSON(map[string]any{"s": str, "cs": chars})})
		case 9: // num() on digit strings of every length, around the powers of two and ten
			str := c16RandBigNumeric(rng)
			cs := c16Case{Fam: "numb", Seeded: true, Desc: fmt.Sprintf("seeded: num(%q)", str),
				Prog: "{ x = num($.s); print x; print x is number; print x is null }", Doc: c16JSON(map[string]string{"s": str})}
			f, ok := c05ParseNum([]byte(str))
			if !ok || math.IsNaN(f) || math.IsInf(f, 0) {
				infra("C16: %q is not a numeric string of the model", str)
			}
			cs.NumbVal = f
			submit(cs)
		case 10: // pluck, then one write through the copy or through the receiver
			keyPool := []string{"a", "b", "k1", "n", "id"}
			obj := map[string]any{}
			for _, k := range keyPool {
				if rng.Intn(3) > 0 {
					obj[k] = c16RandScalar(rng)
				}
			}
			keys := make([]string, 1+rng.Intn(3))
			copyWant := map[string]any{}
			for k := range keys {
				keys[k] = keyPool[rng.Intn(len(keyPool))]
				copyWant[keys[k]] = obj[keys[k]]
			}
			recvWant := map[string]any{}
			for k, v := range obj {
				recvWant[k] = v
			}
			wkey := keyPool[rng.Intn(len(keyPool))]
			w := []string{"set", "add", "sub", "postinc", "preinc", "postdec", "predec"}[rng.Intn(7)]
			target, tmap := "p", copyWant
			if rng.Intn(2) == 0 {
				target, tmap = "$.o", recvWant
			}
			nv, ok := c16Written(w, tmap[wkey])
			if !ok {
				continue
			}
			tmap[wkey] = nv
			stmt := c16WriteStmt(target+"."+wkey, w)
			submit(c16Case{Fam: "pluckw", ObjWant: recvWant, CopyWant: copyWant, Seeded: true,
				Desc: fmt.Sprintf("seeded: %s.pluck(%s), then `%s`", c16JSON(obj), c16KeyArgs(keys), stmt),
				Prog: "{ p = $.o.pluck(" + c16KeyArgs(keys) + "); " + stmt + "; print p; print $.o }",
				Doc:  c16JSON(map[string]any{"o": obj})})
		case 0, 1: // split
			alpha := c16RandAlphabet(rng)
			sep := c16RandText(rng, alpha, 0, 3)
			var sb strings.Builder
			for k, parts := 0, rng.Intn(6); k <= parts; k++ {
				sb.WriteString(c16RandText(rng, alpha, 0, 4))
				if k < parts || rng.Intn(3) == 0 {
					sb.WriteString(sep)
				}
			}
			s := sb.String()
			cs := c16Case{Fam: "split", S: []byte(s), Sep: []byte(sep), Seeded: true, Desc: fmt.Sprintf("seeded: %q.split(%q)", s, sep),
				Prog: "{ p = $.s.split($.sep); " + c16SplitBody + " }", Doc: c16JSON(map[string]string{"s": s, "sep": sep})}
			if len(sep) > 0 && c16NoOverlap(c16Occurrences(cs.S, cs.Sep), len(sep)) {
				cs.Unique = true
				cs.Pieces = c16LeftmostSplit(cs.S, cs.Sep)
			}
			submit(cs)
		case 2: // length / upper / lower
			var s string
			noCase := false
			if rng.Intn(3) == 0 {
				s = c16RandText(rng, c16RandAlphabet(rng), 0, 12)
				noCase = !c16IsTame(s)
			} else {
				b := make([]byte, rng.Intn(16))
				for k := range b {
					b[k] = byte(0x20 + rng.Intn(0x5f))
				}
				s = string(b)
			}
			submit(c16Case{Fam: "str", S: []byte(s), Upper: c16Upper([]byte(s)), Lower: c16Lower([]byte(s)), NoCase: noCase, Seeded: true,
				Desc: fmt.Sprintf("seeded: %q: length, upper, lower", s),
				Prog: "{ s = $.s; " + c16StrBody + " }", Doc: c16JSON(map[string]string{"s": s})})
		case 3: // floor / ceil / round
			x := c16RandDouble(rng)
			submit(c16Case{Fam: "num", Nums: []float64{c16Floor(x), c16Ceil(x), c16Round(x), x}, Seeded: true,
				Desc: fmt.Sprintf("seeded: floor/ceil/round of %v", x),
				Prog: "{ print $.x.floor(); print $.x.ceil(); print $.x.round(); print $.x }", Doc: `{"x": ` + c05Fmt(x) + `}`})
		case 4: // num()
			var s string
			if rng.Intn(3) == 0 {
				s = c05RandNonNumericStr(rng)
			} else {
				s = c05RandNumericStr(rng)
				if rng.Intn(3) == 0 { // wider exponents
					s = strings.Split(strings.Split(s, "e")[0], "E")[0] + fmt.Sprintf("e%d", rng.Intn(560)-280)
				}
			}
			cs := c16Case{Fam: "numb", Seeded: true, Desc: fmt.Sprintf("seeded: num(%q)", s),
				Prog: "{ x = num($.s); print x; print x is number; print x is null }", Doc: c16JSON(map[string]string{"s": s})}
			if f, ok := c05ParseNum([]byte(s)); ok {
				if c05NonFinite(f) || (f != 0 && (math.Abs(f) < 1e-300 || math.Abs(f) > 1e300)) {
					continue
				}
				cs.NumbVal = f
			} else {
				cs.NumbNull = true
			}
			submit(cs)
		case 5: // pluck
			keyPool := []string{"a", "b", "k1", "name", "id", "x_y", "Z", "é", "0", "1", "2", "10", "-1", c05Fmt(float64(rng.Intn(64)-32) / 8), c05Fmt(float64(rng.Intn(1 << 20)))}
			obj := map[string]any{}
			for _, k := range keyPool {
				if rng.Intn(2) == 0 {
					obj[k] = c16RandScalar(rng)
				}
			}
			keys := make([]string, rng.Intn(6))
			want := map[string]any{}
			args := []any{} // the key arguments: a key that is the text of a number is passed as that number half of the time
			refs := make([]string, len(keys))
			for k := range keys {
				keys[k] = keyPool[rng.Intn(len(keyPool))]
				if rng.Intn(5) == 0 {
					keys[k] = []string{"nope", "A", "k2", "", "3", "0.5"}[rng.Intn(6)]
				}
				want[keys[k]] = obj[keys[k]]
				args = append(args, keys[k])
				if f, err := strconv.ParseFloat(keys[k], 64); err == nil && c05Fmt(f) == keys[k] && !(f == 0 && math.Signbit(f)) && rng.Intn(2) == 0 {
					args[k] = f
				}
				refs[k] = fmt.Sprintf("$.k[%d]", k)
			}
			submit(c16Case{Fam: "pluck", ObjWant: obj, ResWant: want, Seeded: true,
				Desc: fmt.Sprintf("seeded: %s.pluck(%s) (keys of the document: strings and numbers)", c16JSON(obj), strings.Trim(c16JSON(args), "[]")),
				Prog: "{ p = $.o.pluck(" + strings.Join(refs, ", ") + "); print p; print $.o; print p.length(); p.a = 99; p.zz = 1; print $.o }",
				Doc:  c16JSON(map[string]any{"o": obj, "k": args})})
		}
	}
	st.Wait()
	for d, what := range knownEx {
		c.Known(d, what)
	}

	c.Set("exhaustive", true)
	c.Set("rule", fmt.Sprintf("TLC enumerates every string of <= %d symbols over {a, B, comma, U+00E9, blank} x every separator of <= 2 symbols and the empty one (split), "+
		"every string of <= %d characters over {a, B, 1, U+00E9, U+01C5, U+2177, U+24B6, U+0345, U+03C9, U+4E16, U+10428} (length/upper/lower byte for byte, literal and document), "+
		"every k/4 with |k| <= 22 and +-2^53 (floor/ceil/round, as variable and as document field), every key set over {a,b,c} x every key list of length <= 3 (pluck, literal and document), "+
		"every key set x key list of length <= 2 x written object (copy / receiver) x written key x write (= += -= ++ -- prefix and postfix), both objects observed afterwards, "+
		"key lists naming prototype methods, json() of 9 arrangements of the receiver, the pluck result and their shared array / object member for every key set over {a,b,c,d} x key list of length <= 2 (the JSON text must parse to the arrangement written out), num() on 25 strings and on 60 digit strings of 1..23 digits (2^k and 10^k, each -1 / +0 / +1) x 45 numeric and 9 non-numeric decorations (signs, leading zeros, fractions, exponents), "+
		"and every method/builtin x 13 receivers x 14 argument lists outside the contract (no crash); "+
		"plus seeded random cases checked against the laws (incl. text over the case table, upper/lower character by character on arbitrary Unicode, num() on digit strings up to 30 places, pluck + one write); every case counts as non-trivial; distinct by program + document", maxLen, caseLen))
	c.Set("checker_cmd", "tlc MC_Methods (INVARIANT Laws, Vec); replay through lang.EvalProgram in worker subprocesses")
	c.Set("cases", counts)
	c.Set("bounds", map[string]int{"MaxLen": maxLen, "CaseLen": caseLen, "seeded": n})
	c.Set("inconclusive_timeouts", inconclusive)
}

func c16RandAlphabet(rng *rand.Rand) []string {
	pool := []string{"a", "b", "A", "z", "0", ",", " ", ";", "-", "|", "\t", "\n", "\"", "\\", "/", "é", "ß", "Ω", "世", "界", "\U0001F600", "́", "İ"}
	n := 2 + rng.Intn(4)
	out := make([]string, n)
	for i := range out {
		out[i] = pool[rng.Intn(len(pool))]
	}
	return out
}

func c16RandText(rng *rand.Rand, alpha []string, min, max int) string {
	n := min + rng.Intn(max-min+1)
	var sb strings.Builder
	for i := 0; i < n; i++ {
		sb.WriteString(alpha[rng.Intn(len(alpha))])
	}
	return sb.String()
}

func c16RandDouble(rng *rand.Rand) float64 {
	sign := 1.0
	if rng.Intn(2) == 0 {
		sign = -1
	}
	switch rng.Intn(8) {
	case 0: // k.5 for small and large k
		return sign * (float64(rng.Int63n(1<<uint(1+rng.Intn(51)))) + 0.5)
	case 1: // k.25, k.75
		return sign * (float64(rng.Int63n(1<<uint(1+rng.Intn(50)))) + []float64{0.25, 0.75}[rng.Intn(2)])
	case 2: // integers
		return sign * float64(rng.Int63n(1<<uint(1+rng.Intn(62))))
	case 3: // just below / above a half
		k := float64(rng.Intn(1000))
		return sign * []float64{math.Nextafter(k+0.5, 0), math.Nextafter(k+0.5, 1e9), math.Nextafter(0.5, 0), math.Nextafter(k+1, 0)}[rng.Intn(4)]
	case 4: // huge
		return sign * math.Float64frombits(uint64(1023+52+rng.Intn(900))<<52|uint64(rng.Int63())&(1<<52-1))
	case 5: // tiny
		return sign * math.Float64frombits(uint64(1023-1-rng.Intn(900))<<52|uint64(rng.Int63())&(1<<52-1))
	case 6:
		return c05signedZero(sign < 0)
	}
	return sign * math.Float64frombits(uint64(1023-8+rng.Intn(70))<<52|uint64(rng.Int63())&(1<<52-1))
}

func c16RandScalar(rng *rand.Rand) any {
	switch rng.Intn(6) {
	case 0:
		return nil
	case 1:
		return rng.Intn(2) == 0
	case 2:
		return float64(rng.Intn(2000)-1000) / 8
	case 3:
		return []string{"", "s", "two words", "é", "0", "null", "[1]"}[rng.Intn(7)]
	case 4:
		return []any{float64(rng.Intn(9)), "x"}
	}
	return float64(rng.Intn(1 << 30))
}

// c16WriteStmt: the statement of one write kind of JqValue.MemberWrites.
func c16WriteStmt(ref, w string) string {
	switch w {
	case "set":
		return ref + " = 99"
	case "add":
		return ref + " += 1"
	case "sub":
		return ref + " -= 1"
	case "postinc":
		return ref + "++"
	case "preinc":
		return "++" + ref
	case "postdec":
		return ref + "--"
	case "predec":
		return "--" + ref
	}
	infra("C16: write kind %q", w)
	return ""
}

// c16Written: port of JqValue.WrittenVal on parsed JSON values (nil: null or no member).
func c16Written(w string, old any) (any, bool) {
	var g c05GV
	switch o := old.(type) {
	case nil:
		g = c05GV{Kind: "null"}
	case bool:
		g = c05GV{Kind: "bool", B: o}
	case float64:
		g = c05GV{Kind: "num", F: o}
	case string:
		g = c05GV{Kind: "str", S: []byte(o)}
	case []any:
		g = c05GV{Kind: "arr", Len: len(o)}
	default:
		return nil, false
	}
	var out c05Out
	switch w {
	case "set":
		return 99.0, true
	case "add":
		out = c05Bin("+", g, c05GV{Kind: "num", F: 1})
	case "sub":
		out = c05Bin("-", g, c05GV{Kind: "num", F: 1})
	case "postinc", "preinc":
		_, out = c05IncDec("++", true, g)
	default:
		_, out = c05IncDec("--", true, g)
	}
	if out.Err || out.Open {
		return nil, false
	}
	if out.V.Kind == "str" {
		if !c05SafeStr(out.V.S) {
			return nil, false
		}
		return string(out.V.S), true
	}
	return out.V.F, true
}

// c16MapCase maps a text character by character with the model's case table
// (col 0: upper, 1: lower); ok=false when a non-ASCII character is not listed.
func c16MapCase(s string, tab map[string][2]string, col int) ([]byte, bool) {
	var out []byte
	ok := true
	for _, r := range s {
		ch := string(r)
		switch {
		case r < 0x80 && col == 0:
			out = append(out, c16Upper([]byte(ch))...)
		case r < 0x80:
			out = append(out, c16Lower([]byte(ch))...)
		default:
			m, listed := tab[ch]
			if !listed {
				ok = false
				out = append(out, ch...)
			} else {
				out = append(out, m[col]...)
			}
		}
	}
	return out, ok
}

// blocks with cased letters of every kind (and some without case); Greek sigma, whose lower
// case form depends on its position in a word under the full Unicode rules, is left out
var c16Blocks = [][2]rune{{0x20, 0x7e}, {0xa1, 0xff}, {0x100, 0x24f}, {0x250, 0x2af}, {0x345, 0x345}, {0x370, 0x3ff}, {0x400, 0x52f}, {0x531, 0x587},
	{0x10a0, 0x10ff}, {0x13a0, 0x13ff}, {0x1c80, 0x1cbf}, {0x1e00, 0x1eff}, {0x1f00, 0x1fff}, {0x2150, 0x218f}, {0x2460, 0x24ff}, {0x2c00, 0x2cff},
	{0xa640, 0xa69f}, {0xa720, 0xa7ff}, {0xab70, 0xabbf}, {0xff21, 0xff5a}, {0x10400, 0x1044f}, {0x104b0, 0x104ff}, {0x10c80, 0x10cff}, {0x118a0, 0x118df},
	{0x16e40, 0x16e7f}, {0x1e900, 0x1e943}, {0x4e00, 0x4e40}, {0x1f600, 0x1f640}}

func c16RandChar(rng *rand.Rand) string {
	for {
		b := c16Blocks[rng.Intn(len(c16Blocks))]
		if rng.Intn(4) == 0 {
			b = c16Blocks[0]
		}
		r := b[0] + rune(rng.Intn(int(b[1]-b[0])+1))
		if r == 0x3a3 || r == 0x3c3 || r == 0x3c2 || !utf8.ValidRune(r) {
			continue
		}
		return string(r)
	}
}

// c16RandBigNumeric: a numeric string whose digits run up to 30 places: around 2^k and 10^k, or random.
func c16RandBigNumeric(rng *rand.Rand) string {
	var m *big.Int
	switch rng.Intn(3) {
	case 0:
		m = new(big.Int).Lsh(big.NewInt(1), uint(rng.Intn(100)))
	case 1:
		m = new(big.Int).Exp(big.NewInt(10), big.NewInt(int64(rng.Intn(30))), nil)
	default:
		m, _ = new(big.Int).SetString("1"+c05RandDigits(rng, 0, 29), 10)
		if rng.Intn(2) == 0 {
			m.Sub(m, new(big.Int).Exp(big.NewInt(10), big.NewInt(int64(len(m.String())-1)), nil)) // a leading digit other than 1
			m.Add(m, new(big.Int).Mul(big.NewInt(int64(1+rng.Intn(9))), new(big.Int).Exp(big.NewInt(10), big.NewInt(int64(len(m.String())-1)), nil)))
		}
	}
	m.Add(m, big.NewInt(int64(rng.Intn(5)-2)))
	if m.Sign() < 0 {
		m.Neg(m)
	}
	str := []string{"", "", "", "-", "+", "0", "-00"}[rng.Intn(7)] + m.String()
	return str + []string{"", "", "", ".", ".0", "e0", "e1", "E-1", ".5", "e+2", ".50e1", "e-20"}[rng.Intn(12)]
}
