package main

import (
	"fmt"
	"math/rand"
	"os"
	"path/filepath"
	"sort"
	"strings"
)

func init() { register("C01", checkC01) }

type placeVec struct {
	Ctx     string   `json:"ctx"`
	Ws      []string `json:"ws"`
	Leaf    string   `json:"leaf"`
	Prog    Node     `json:"prog"`
	Out     []any    `json:"out"`
	Outcome string   `json:"outcome"`
}

type placeGroup struct {
	first placeVec
	alts  []placeVec
}

// C01: every run ends in success or one of the three reported error kinds.
//
//	A: MC_EvalPlace enumerates every placement of next/exit/return/break/
//	   continue/fault (context x wrapper nest x leaf); TLC checks NoEscape,
//	   SigConsumed, FrameBalance in every state; each placement is run through
//	   the library (outcome class and output must be one the model allows) and
//	   through the binary (exit status, stderr, no crash marks).
//	B: seeded random programs (grammatical, near-grammatical, arbitrary bytes)
//	   x random selectors and inputs through the library and the binary: the
//	   outcome must be nil / SyntaxError / RuntimeError / JsonError (c01gen.go).
func checkC01(c *Ctx) {
	c.Assume("what `next` does outside a pattern rule (ends the rule / runtime error) and what next/exit do in a root selector (end the run / runtime error) is open: any of these is accepted, an escape is not")
	c.Assume("a run stopped by the verification step budget or the wall-clock timeout is inconclusive, never a violation")
	c.Assume("-dbg-ast / -dbg-lex flags and program texts nesting hundreds of thousands of operators are out of scope (statement)")
	pool := c.Pool()
	maxDepth := 2
	if c.Thorough() {
		maxDepth = 3
	}
	groups := map[string]*placeGroup{}
	var order []string
	c.TLC(TLCOpt{Module: "MC_EvalPlace", Heap: "12g",
		Cfg: cfgText("INIT MCInit", "NEXT MCNext", "CONSTANTS", fmt.Sprintf("MaxDepth = %d", maxDepth), "CallLimit = 50", "Fuel = 0",
			"NextOutsidePattern = {\"ends-rule\", \"runtime-error\"}",
			"INVARIANTS FrameBalance BaseAtRuleStart DepthBounded NoEscape OutcomeLegalP SigConsumed Vec",
			"PROPERTIES StopFreezesOutput DoneIsFinal RefinesFrames"),
		OnVec: func(raw []byte) {
			var v placeVec
			VecDecode(raw, &v)
			key := v.Ctx + "|" + strings.Join(v.Ws, ",") + "|" + v.Leaf
			g, ok := groups[key]
			if !ok {
				g = &placeGroup{first: v}
				groups[key] = g
				order = append(order, key)
			}
			g.alts = append(g.alts, v)
		}})
	sort.Strings(order)
	rng := rand.New(rand.NewSource(c.Seed))
	var jobs []Job
	var keys []string
	for _, k := range order {
		g := groups[k]
		p := newEvalRenderer().renderEvalProgram(g.first.Prog, nil)
		jobs = append(jobs, Job{Kind: "run", Prog: []byte(p.Text), Sels: p.Sels, Files: []FileIn{{Name: "in.json", Data: []byte(p.Input)}}, Depths: true, Budget: 300000})
		keys = append(keys, k)
	}
	type binCase struct {
		key  string
		prog evalProgram
		alts []placeVec
	}
	var binCases []binCase
	nsample := 0
	pool.Map(jobs, func(i int, r Result) {
		g := groups[keys[i]]
		rep := func(why string) map[string]any {
			alts := []map[string]any{}
			for _, a := range g.alts {
				alts = append(alts, map[string]any{"outcome": a.Outcome, "lines": expTexts(expectedLines(a.Out, collectProgForIns(a.Prog)))})
			}
			return map[string]any{"placement": keys[i], "program": string(jobs[i].Prog), "selectors": jobs[i].Sels, "input": string(jobs[i].Files[0].Data),
				"allowed": alts, "got_class": r.Class, "got_err_type": r.ErrType, "got_err": r.ErrMsg, "got_stdout": string(r.Stdout), "why": why, "detail": r.Detail}
		}
		switch r.Class {
		case "budget", "timeout":
			c.Count("inconclusive", 1)
			return
		case "panic", "crash", "other":
			c.Violation("place-escape", rep("the run ended in "+r.Class+" ("+r.ErrType+" "+r.ErrMsg+"): not success and not one of the three error kinds"))
			return
		}
		matched := false
		whyNot := ""
		for _, a := range g.alts {
			if a.Outcome != r.Class {
				whyNot = "outcome class " + r.Class + " is not allowed here"
				continue
			}
			if a.Outcome == "syntax" {
				if len(r.Stdout) != 0 {
					whyNot = "output before a syntax error"
					continue
				}
				matched = true
				break
			}
			exp := expectedLines(a.Out, collectProgForIns(a.Prog))
			if w := compareEvalOutput(r.Stdout, exp); w != "" {
				whyNot = w
				continue
			}
			// a selector body is rendered inside a match block of its own evaluator: depths there are not comparable
			if w := compareDepths(r.LineDep, exp); w != "" && a.Ctx != "SEL" {
				whyNot = w
				continue
			}
			matched = true
			break
		}
		if !matched {
			c.Violation("place-behaviour", rep(whyNot))
			return
		}
		c.Case("place:"+keys[i], true)
		nsample++
		if nsample%700 == 3 {
			c.Sample(map[string]any{"placement": keys[i], "program": string(jobs[i].Prog), "selectors": jobs[i].Sels, "class": r.Class})
		}
		if c.Thorough() || rng.Intn(5) == 0 {
			binCases = append(binCases, binCase{keys[i], evalProgram{Text: string(jobs[i].Prog), Input: string(jobs[i].Files[0].Data), Sels: jobs[i].Sels}, g.alts})
		}
	})

	// the binary on a sample of placements
	dir := c.TempDir("bin")
	os.WriteFile(filepath.Join(dir, "in.json"), []byte("[0,1]"), 0o644)
	parallelDo(len(binCases), 16, func(i int) {
		bc := binCases[i]
		args := []string{}
		for _, s := range bc.prog.Sels {
			args = append(args, "-r", s)
		}
		args = append(args, bc.prog.Text, "in.json")
		br := c.RunBin(args, nil, dir, 0)
		if why := binaryVerdict(br); why != "" {
			c.Violation("place-binary", map[string]any{"placement": bc.key, "args": args, "exit": br.Exit, "stderr": string(br.Stderr), "stdout": string(br.Stdout), "why": why})
			return
		}
		okAllowed, errAllowed := false, false
		for _, a := range bc.alts {
			if a.Outcome == "ok" {
				okAllowed = true
			} else {
				errAllowed = true
			}
		}
		if (br.Exit == 0 && !okAllowed) || (br.Exit != 0 && !errAllowed) {
			c.Violation("place-binary", map[string]any{"placement": bc.key, "args": args, "exit": br.Exit, "stderr": string(br.Stderr), "why": "exit status does not match any allowed outcome"})
			return
		}
		c.Case("bin:"+bc.key, true)
	})

	checkC01Random(c)
	checkC01Sweep(c)
	checkC01Awkward(c)
	checkC01DeepNesting(c)
	checkC01Positions(c)
	checkC01LimitParity(c)
	checkC01StrayAfterLoop(c)
	checkC01LimitLandsOn(c)
	checkC01AssignPaths(c)
	checkC01ReceiverReassigned(c)
	checkC01LexTerminates(c)
	checkC01Edges(c)
	checkC01SignalsInExpressions(c)
	checkC01AliasesAfterShrink(c)
	checkC01ManyDistinct(c)
	checkC01ValuesByOrigin(c)

	c.Set("exhaustive", true)
	c.Set("bounds", map[string]any{"MaxDepth": maxDepth})
	c.Set("rule", "A: every placement context(7) x wrapper nest (<= MaxDepth of 8 wrappers) x leaf(6) that is expressible and terminates, all behaviours (TLC BFS), each run through the library and a sample through the binary; B: seeded random programs/selectors/inputs (see random_* counts); every placement performs a signal or fault (non-trivial); random cases are non-trivial when the program parses or the input is non-empty")
	c.Set("checker_cmd", "tlc MC_EvalPlace (JqEval machine: NoEscape SigConsumed FrameBalance BaseAtRuleStart DepthBounded OutcomeLegalP; StopFreezesOutput DoneIsFinal); replay via lang.EvalProgram and the jqawk binary")
}

// binaryVerdict applies C01's requirements on a process run.
func binaryVerdict(br BinResult) string {
	switch {
	case br.TimedOut:
		return ""
	case br.Signaled:
		return "the process was killed by a signal"
	case hasCrashMarks(br.Stderr):
		return "stderr carries a Go panic / stack trace"
	case br.Exit != 0 && br.Exit != 1 && br.Exit != 2:
		return fmt.Sprintf("unexpected exit status %d", br.Exit)
	case br.Exit != 0 && len(strings.TrimSpace(string(br.Stderr))) == 0:
		return "non-zero exit status without a diagnostic on stderr"
	}
	return ""
}

func parallelDo(n, par int, fn func(i int)) {
	sem := make(chan struct{}, par)
	done := make(chan struct{}, n)
	for i := 0; i < n; i++ {
		sem <- struct{}{}
		go func(i int) {
			defer func() { <-sem; done <- struct{}{} }()
			fn(i)
		}(i)
	}
	for i := 0; i < n; i++ {
		<-done
	}
}
