package main

import (
	"bytes"
	"encoding/json"
	"fmt"
	"hash/fnv"
	"math/rand"
	"os"
	"sort"
	"strings"
	"sync"
	"time"
)

func init() { register("C19", checkC19) }

// One case list of the model against the ten subjects (MC_Match.Vec).
type c19Obs struct {
	Cls   string     `json:"cls"`
	Lines [][]string `json:"lines"`
	Blk   bool       `json:"blk"`
	Sel   int        `json:"sel"`
}

type c19Run struct {
	Subj  []string `json:"subj"`
	Exp   []c19Obs `json:"exp"`
	Dev   []c19Obs `json:"dev"`
	Eager bool     `json:"eager"` // a matcher that compares every position of an array pattern would do something not admitted here
}

type c19Vec struct {
	Tier   int        `json:"tier"`
	Cases  [][]string `json:"cases"`
	Blocks []bool     `json:"blocks"`
	Runs   []c19Run   `json:"runs"`
}

const c19Dev = "match-array-alt-stops"

// c19Inst: seeded instantiation of the opaque atoms of the model.
type c19Inst struct {
	num   map[string]string // "#2", "#5" -> number text (canonical: prints as written)
	str   string            // "$a"
	names map[string]string // "@x" ... -> identifier
}

var c19Keywords = map[string]bool{"BEGIN": true, "END": true, "BEGINFILE": true, "ENDFILE": true, "print": true, "function": true,
	"return": true, "if": true, "else": true, "for": true, "while": true, "in": true, "match": true, "true": true, "false": true,
	"break": true, "continue": true, "next": true, "exit": true, "null": true, "is": true, "printf": true, "json": true, "num": true, "m": true}

func c19NewInst(seed int64, key string) *c19Inst {
	h := fnv.New64a()
	fmt.Fprintf(h, "%d|%s", seed, key)
	rng := rand.New(rand.NewSource(int64(h.Sum64())))
	in := &c19Inst{num: map[string]string{"#1": "1"}, names: map[string]string{}}
	nums := []string{"2", "3", "5", "7", "10", "12", "42", "99", "100", "1000", "2.5", "0.5", "7.25", "3.125", "65536", "123456789"}
	a := rng.Intn(len(nums))
	b := rng.Intn(len(nums) - 1)
	if b >= a {
		b++
	}
	in.num["#2"], in.num["#5"] = nums[a], nums[b]
	first := "abcdeghjklmopqrstuvwxyzABCXYZ"
	rest := []string{"a", "b", "k", "z", "0", "9", " ", "_", "-", "é", "ü"}
	var sb strings.Builder
	sb.WriteByte(first[rng.Intn(len(first))])
	for n := rng.Intn(3); n > 0; n-- {
		sb.WriteString(rest[rng.Intn(len(rest))])
	}
	in.str = sb.String()
	used := map[string]bool{}
	for _, tok := range []string{"@x", "@y", "@u"} {
		for {
			var nb strings.Builder
			start := "abcdefghijklmnopqrstuvwxyz_QZ"
			cont := "abcxyz0189_"
			nb.WriteByte(start[rng.Intn(len(start))])
			for n := rng.Intn(4); n > 0; n-- {
				nb.WriteByte(cont[rng.Intn(len(cont))])
			}
			name := nb.String()
			if c19Keywords[name] || used[name] {
				continue
			}
			used[name] = true
			in.names[tok] = name
			break
		}
	}
	return in
}

// source text of a token sequence
func (in *c19Inst) src(toks []string) string {
	var sb strings.Builder
	for _, t := range toks {
		switch {
		case t == ",":
			sb.WriteString(", ")
		case t == "=>":
			sb.WriteString(" => ")
		case t == "{":
			sb.WriteString("{ ")
		case t == "}":
			sb.WriteString(" }")
		case strings.HasPrefix(t, "#"):
			sb.WriteString(in.num[t])
		case t == "$a":
			sb.WriteString("'" + in.str + "'")
		case strings.HasPrefix(t, "$"):
			sb.WriteString("'" + t[1:] + "'")
		case strings.HasPrefix(t, "@"):
			sb.WriteString(in.names[t])
		case t == "%o":
			sb.WriteString("{z: 1}")
		default:
			sb.WriteString(t)
		}
	}
	return sb.String()
}

// printed form of a line of output tokens ("m" value...  or a value)
func (in *c19Inst) outLine(toks []string) string {
	var sb strings.Builder
	for i, t := range toks {
		switch {
		case t == "m" && i == 0:
			sb.WriteString("m ")
		case t == ",":
			sb.WriteString(", ")
		case strings.HasPrefix(t, "#"):
			sb.WriteString(in.num[t])
		case t == "$a":
			sb.WriteString(in.str)
		case strings.HasPrefix(t, "$"):
			sb.WriteString(t[1:])
		case t == "%o":
			sb.WriteString(`{"z": 1}`)
		default:
			sb.WriteString(t)
		}
	}
	return sb.String()
}

func (in *c19Inst) program(v *c19Vec, subj []string) string {
	var sb strings.Builder
	sb.WriteString("function m(k) { print \"m\", k; return k }\nBEGIN {\n")
	fmt.Fprintf(&sb, "%s = 'gx'; %s = 'gy'; %s = 'gu'\n", in.names["@x"], in.names["@y"], in.names["@u"])
	sb.WriteString("print match (" + in.src(subj) + ") { ")
	for k, cs := range v.Cases {
		if k > 0 {
			sb.WriteString(", ")
		}
		sb.WriteString(in.src(cs))
	}
	sb.WriteString(" }\n")
	fmt.Fprintf(&sb, "print 'after', %s, %s, %s\n}\n", in.names["@x"], in.names["@y"], in.names["@u"])
	return sb.String()
}

const c19After = "after gx gy gu\n"

// does the real result r equal observation o?
func (in *c19Inst) matches(o *c19Obs, r *Result) bool {
	if o.Cls == "runtime" {
		return r.Class == "runtime" && len(r.Stdout) == 0
	}
	if r.Class != "ok" {
		return false
	}
	var sb strings.Builder
	for _, l := range o.Lines {
		sb.WriteString(in.outLine(l))
		sb.WriteByte('\n')
	}
	out := string(r.Stdout)
	if o.Blk || o.Sel == 0 {
		// the match has finished and (today) popped its frame: the globals are visible again
		return out == sb.String()+c19After
	}
	// expression body: whether the bound names are still visible afterwards is C08's (F8); only the line's presence
	if !strings.HasPrefix(out, sb.String()) {
		return false
	}
	tail := out[sb.Len():]
	return strings.HasPrefix(tail, "after ") && strings.HasSuffix(tail, "\n") && strings.Count(tail, "\n") == 1
}

// C19: match selects the first matching case, binds pattern names, yields its value.
func checkC19(c *Ctx) {
	c.Assume("a literal pattern against an array or object subject (or element) is `container == literal`, a runtime error for `==`: 'no match' and 'runtime error' are both accepted, the error only where no position of the enclosing array pattern before it (reading short: left to right) or anywhere (reading decided) has already failed to match; an error raised by a position AFTER one that does not match is not admitted (the pattern is a non-match, a later case must be reached); null literals never err")
	c.Assume("patterns other than literals (number, string, null, true), identifiers and array patterns are outside the model; an identifier bound twice in one pattern is outside the model")
	c.Assume("a body reads only names that some alternative of its case or of an earlier case binds; where the alternative that matched does not bind the name it must denote the program's preset global (a name bound only by a pattern that did not match is not visible); names no pattern binds are not read")
	c.Assume("literal matching is the language's own `==`: the table of scalar comparisons the model relies on (DESIGN.md 3.4) is first confirmed on the real code; runs that depend on a deviating pair are skipped (C05 owns `==`)")
	c.Assume("after an expression body the visibility of the bound names is C08's claim (F8): only checked after block bodies and when no case matches; frame balance (Push/Pop events, final depth) likewise only there")
	c.Assume("numbers 2 and 5, the string, and the identifier names of the model are instantiated per seed (non-negative numbers that print as written, non-numeric strings, ASCII identifiers that are no keywords)")
	c.Assume("error messages are not compared; a runtime error must leave stdout empty (no body ran)")
	pool := c.Pool()

	c.specDir()
	// ---- a case block left by break / continue / next / return / exit: its bindings end with it (MC_MatchExit)
	exitDone := make(chan any, 1)
	go func() {
		defer func() { exitDone <- recover() }()
		c19Exit(c, pool)
	}()
	defer func() {
		if p := <-exitDone; p != nil {
			panic(p)
		}
	}()

	if os.Getenv("VERIF_C19_ONLY") == "exit" { // development aid: only the MC_MatchExit family
		return
	}

	// ---- literal patterns as written (MC_MatchLit), alongside the case-list families below
	litDone := make(chan any, 1)
	go func() {
		defer func() { litDone <- recover() }()
		c19Literals(c, pool)
	}()
	defer func() {
		if p := <-litDone; p != nil {
			panic(p)
		}
	}()
	// ---- match inside a program: subject sources of every kind x bodies that are code (MC_MatchEnv)
	envDone := make(chan any, 1)
	go func() {
		defer func() { envDone <- recover() }()
		c19Env(c, pool)
	}()
	defer func() {
		if p := <-envDone; p != nil {
			panic(p)
		}
	}()

	// ---- premise: `==` on the scalars of the model, on the real code
	type pair struct{ v, lit string }
	badEq := map[pair]bool{}
	{
		in := c19NewInst(c.Seed, "premise")
		toks := []string{"#1", "#2", "#5", "$a", "null", "true"}
		want := func(a, b string) bool { return a == b || (a == "true" && b == "#1") || (a == "#1" && b == "true") }
		var jobs []Job
		var ps []pair
		for _, a := range toks {
			for _, b := range toks {
				jobs = append(jobs, Job{Kind: "run", Prog: []byte("BEGIN { print (" + in.src([]string{a}) + " == " + in.src([]string{b}) + ") }")})
				ps = append(ps, pair{a, b})
			}
		}
		pool.Map(jobs, func(i int, r Result) {
			exp := "false\n"
			if want(ps[i].v, ps[i].lit) {
				exp = "true\n"
			}
			if r.Class != "ok" || string(r.Stdout) != exp {
				badEq[ps[i]] = true
			}
		})
		if len(badEq) > 0 {
			c.Set("premise_eq_deviations", fmt.Sprint(badEq))
		}
	}
	scalars := func(toks []string) []string {
		var out []string
		for _, t := range toks {
			if strings.HasPrefix(t, "#") || t == "$a" || t == "null" || t == "true" {
				out = append(out, t)
			}
		}
		return out
	}
	dependsOnBad := func(v *c19Vec, subj []string) bool {
		if len(badEq) == 0 {
			return false
		}
		for _, a := range scalars(subj) {
			for _, cs := range v.Cases {
				for _, b := range scalars(cs) {
					if badEq[pair{a, b}] {
						return true
					}
				}
			}
		}
		return false
	}

	var nOK, nNull, nErrOK, nKnown, nSkip, nBal, nMultiAlt, nEager int
	perTier := map[int]int{}
	nSample := 0
	devOpen := c.OpenDev(c19Dev)
	knownWitness := ""

	type meta struct {
		v    *c19Vec
		in   *c19Inst
		s    int
		prog string
	}
	metas := map[int]*meta{}
	nextID := 0
	st := pool.NewStream(func(j *Job, r Result) {
		m := metas[j.N]
		delete(metas, j.N)
		run := &m.v.Runs[m.s]
		rep := func(why string) map[string]any {
			return map[string]any{"program": m.prog, "expected_any_of": run.Exp, "deviation_predicts": run.Dev, "got_class": r.Class,
				"got_stdout": string(r.Stdout), "got_msg": r.ErrMsg, "detail": r.Detail, "why": why, "depth": r.Depth,
				"note": "tokens #n: numbers, $a: the string, $k<i>/$c<i>: marker/constant of case i; lines are stdout lines before the 'after' line"}
		}
		switch r.Class {
		case "budget", "timeout":
			nSkip++
			return
		case "crash", "panic":
			c.Violation("match-crash", rep("the run died"))
			return
		}
		multi := false
		for _, cs := range m.v.Cases {
			depth, commas := 0, 0
			for _, t := range cs {
				switch t {
				case "[":
					depth++
				case "]":
					depth--
				case ",":
					if depth == 0 {
						commas++
					}
				case "=>":
					depth = 99
				}
			}
			multi = multi || commas > 0
		}
		var hit *c19Obs
		for i := range run.Exp {
			if m.in.matches(&run.Exp[i], &r) {
				hit = &run.Exp[i]
				break
			}
		}
		known := false
		if hit == nil {
			for i := range run.Dev {
				if m.in.matches(&run.Dev[i], &r) {
					hit = &run.Dev[i]
					known = true
					break
				}
			}
			if hit == nil {
				c.Violation("match-outcome", rep("neither an admitted outcome nor the one the known deviation predicts"))
				return
			}
			if !devOpen {
				c.Violation("match-outcome", rep("the outcome is the one deviation "+c19Dev+" predicts (a failing array pattern ends its case), which is not an open finding"))
				return
			}
		}
		// frame discipline where C19 may look at it: after a block body and when nothing matched
		if hit.Cls == "ok" && (hit.Blk || hit.Sel == 0) {
			push, pop, mpush := 0, 0, 0
			for _, e := range r.Events {
				switch e.E {
				case "Push":
					if e.A == 0 {
						continue // the root frame of the run
					}
					push++
					if e.S == "<match>" {
						mpush++
					}
				case "Pop":
					pop++
				}
			}
			if push != pop || r.Depth != 0 {
				c.Violation("match-frame-balance", rep(fmt.Sprintf("pushes=%d pops=%d final depth=%d after a block body / no match", push, pop, r.Depth)))
				return
			}
			if hit.Sel == 0 && mpush != 0 {
				c.Violation("match-frame-balance", rep("a <match> frame was pushed although no case matched"))
				return
			}
			nBal++
		}
		if known {
			nKnown++
			if knownWitness == "" || len(m.prog) < len(knownWitness) || len(m.prog) == len(knownWitness) && m.prog < knownWitness {
				knownWitness = m.prog
			}
			c.Known(c19Dev, "a failing array pattern ends its case: later alternatives of the same case are never tried (e.g. match ([2,5]) { [1,x], [2,x] => x } yields null)")
		} else {
			switch {
			case hit.Cls == "runtime":
				nErrOK++
			case hit.Sel == 0:
				nNull++
			default:
				nOK++
			}
		}
		if multi {
			nMultiAlt++
		}
		if run.Eager {
			nEager++
		}
		perTier[m.v.Tier]++
		c.Case(m.prog, hit.Sel > 0)
		if !known && hit.Sel > 1 && multi && nSample < 4 && (nOK%9973 == 5 || nSample == 0) {
			nSample++
			c.Sample(map[string]any{"program": m.prog, "stdout": string(r.Stdout), "selected_case": hit.Sel})
		}
	})

	onVec := func(raw []byte) {
		v := &c19Vec{}
		VecDecode(raw, v)
		var kb strings.Builder
		for _, cs := range v.Cases {
			kb.WriteString(strings.Join(cs, " "))
			kb.WriteByte('|')
		}
		in := c19NewInst(c.Seed, kb.String())
		for s := range v.Runs {
			if dependsOnBad(v, v.Runs[s].Subj) {
				nSkip++
				continue
			}
			prog := in.program(v, v.Runs[s].Subj)
			st.mu.Lock()
			id := nextID
			nextID++
			metas[id] = &meta{v, in, s, prog}
			st.mu.Unlock()
			st.Submit(Job{Kind: "run", Prog: []byte(prog), Events: true, N: id})
		}
	}

	big := "FALSE"
	if c.Thorough() {
		big = "TRUE"
	}
	c.TLC(TLCOpt{Module: "MC_Match",
		Cfg: cfgText("INIT Init", "NEXT Next", "CONSTANTS", "Big = "+big, "Tiers = {1, 2, 3, 4}",
			"INVARIANT Laws", "INVARIANT Vec", "CHECK_DEADLOCK FALSE"),
		OnVec: onVec, Workers: 12, Heap: "6g"})
	st.Wait()

	c.Set("exhaustive", true)
	c.Set("rule", "TLC enumerates case lists (tier 1: one case, <= 2 ordered alternatives from 42 patterns (literals 1, 2, 'a', null, true; identifier; array patterns of length 0..2, nested to depth 2, identifiers at every position), every body kind; "+
		"tier 2: two cases over a pool of 7 (thorough 12) patterns with <= 2 alternatives plus the bind-then-fail lists [x,2] and [x,2],[2,y], 6 body schemes; tier 3: three cases over 13 (thorough 25) alternative lists, 6 body schemes) x the 10 subjects (tier 1: plus [2,[1]] and [2,{z:1}], a container after a scalar); "+
		"tier 4 (position by position): 42 array patterns of length 2 and 3 with a literal / identifier / array pattern (depth 2) at every position, alone or followed by a catch-all alternative (thorough: by every other pattern of the pool), with and without a later catch-all case, 4 body schemes, x 14 subjects with a scalar / array / object at every position (depth 3); "+
		"bodies also read names bound only by an alternative or an earlier case that does not match (tier 1: every name of the case; scheme G in tiers 2, 3), expected: the preset global; "+
		"one real run per (case list, subject); non-trivial = some case is selected; distinct by program text")
	c.Set("checker_cmd", "tlc MC_Match; replay `print match (subject) { cases }` through lang.EvalProgram in worker subprocesses, with Push/Pop events")
	c.Set("runs_per_tier", perTier)
	c.Set("runs_case_selected_as_specified", nOK)
	c.Set("runs_no_case_null", nNull)
	c.Set("runs_runtime_error_admitted", nErrOK)
	c.Set("runs_explained_only_by_known_deviation", nKnown)
	c.Set("runs_with_several_alternatives", nMultiAlt)
	c.Set("runs_where_comparing_every_position_is_not_admitted", nEager)
	c.Set("runs_frame_balance_checked", nBal)
	c.Set("inconclusive_or_skipped", nSkip)
	if knownWitness != "" {
		c.Set("shortest_witness_of_known_deviation", knownWitness)
	}
}

// ---------------------------------------------------------------------------
// Literal patterns as written in the source (spec/JqMatchLit.tla, MC_MatchLit.tla):
// every literal spelling at every position of a case list against every subject.
// Subjects are JSON input values (one input array per run, the program's rule
// runs once per element), so they do not pass through the literal syntax.

type c19lObs struct {
	Cls   string     `json:"cls"`
	Sel   int        `json:"sel"`
	Lines [][]string `json:"lines"`
}

type c19lArr struct {
	K string    `json:"k"`
	S []string  `json:"s"`
	T []string  `json:"t"`
	A []c19lArr `json:"a"`
}

type c19lGroup struct {
	Exp   []c19lObs  `json:"exp"`
	Subjs [][]string `json:"subjs"`
	Arrs  []c19lArr  `json:"arrs"`
}

type c19lVec struct {
	Kind   string      `json:"kind"`
	Lit    []string    `json:"lit"`
	Eq     [][]string  `json:"eq"`
	Ne     [][]string  `json:"ne"`
	Shape  string      `json:"shape"`
	Src    []string    `json:"src"`
	Lits   [][]string  `json:"lits"`
	Groups []c19lGroup `json:"groups"`
}

// JSON text of a scalar subject: kind letter, then bytes / spelling
func c19lScalarJSON(enc []string) string {
	if len(enc) == 0 {
		infra("C19: empty subject encoding")
	}
	body := symsToBytes(enc[1:])
	switch enc[0] {
	case "s":
		var bb bytes.Buffer
		e := json.NewEncoder(&bb)
		e.SetEscapeHTML(false)
		if err := e.Encode(string(body)); err != nil {
			infra("C19: %v", err)
		}
		return strings.TrimSuffix(bb.String(), "\n")
	case "n", "w":
		return string(body)
	}
	infra("C19: unknown subject kind %q", enc[0])
	return ""
}

func c19lArrJSON(d *c19lArr) string {
	switch d.K {
	case "str":
		return c19lScalarJSON(append([]string{"s"}, d.S...))
	case "num":
		return c19lScalarJSON(append([]string{"n"}, d.T...))
	case "word":
		return c19lScalarJSON(append([]string{"w"}, d.T...))
	case "arr":
		parts := make([]string, len(d.A))
		for i := range d.A {
			parts[i] = c19lArrJSON(&d.A[i])
		}
		return "[" + strings.Join(parts, ",") + "]"
	}
	infra("C19: unknown subject kind %q", d.K)
	return ""
}

func c19lLines(o *c19lObs) string {
	var sb strings.Builder
	for _, l := range o.Lines {
		sb.Write(symsToBytes(l))
		sb.WriteByte('\n')
	}
	return sb.String()
}

const c19lPrelude = "function m(k) { print \"m\", k; return k }\n"

func c19Literals(c *Ctx, pool *Pool) {
	c.Assume("literal patterns as written: string literals (either quote, escapes \\n \\t \\\\ only; a literal whose evaluation is itself an error is C13's), number literals digit+ ('.' digit+)?, true, false, null; regex literals and every other expression used as a pattern are outside the model")
	c.Assume("the subjects of the literal family are JSON input values (the rule runs once per element of the input array); `$ == literal` is first confirmed on the real code for every (subject, literal) pair the match runs rely on, and a run that depends on a deviating pair is skipped (C05 owns `==`)")

	type subj struct {
		key  string // JSON text
		want string // expected stdout contribution
	}
	var mu sync.Mutex
	// premise: per literal source text, the subjects (JSON text) on which `==` deviates on the real code; "*" = the run failed
	premise := map[string]map[string]bool{}
	var nEqRuns, nEqPairs, nEqBad int
	shuffle := func(key string, n int, swap func(i, j int)) {
		h := fnv.New64a()
		fmt.Fprintf(h, "%d|lit|%s", c.Seed, key)
		rand.New(rand.NewSource(int64(h.Sum64()))).Shuffle(n, swap)
	}
	input := func(ss []subj) []byte {
		var sb strings.Builder
		sb.WriteByte('[')
		for i := range ss {
			if i > 0 {
				sb.WriteString(", ")
			}
			sb.WriteString(ss[i].key)
		}
		sb.WriteString("]\n")
		return []byte(sb.String())
	}

	type eqMeta struct {
		lit string
		ss  []subj
	}
	eqMetas := map[int]*eqMeta{}
	eqStream := pool.NewStream(func(j *Job, r Result) {
		mu.Lock()
		m := eqMetas[j.N]
		delete(eqMetas, j.N)
		bad := map[string]bool{}
		premise[m.lit] = bad
		mu.Unlock()
		nEqRuns++
		nEqPairs += len(m.ss)
		lines := strings.Split(string(r.Stdout), "\n")
		if r.Class != "ok" || len(lines) != len(m.ss)+1 {
			bad["*"] = true
			nEqBad += len(m.ss)
			return
		}
		for i := range m.ss {
			if lines[i]+"\n" != m.ss[i].want {
				bad[m.ss[i].key] = true
				nEqBad++
			}
		}
	})

	var nProg, nBatchSubj, nSingles, nLitHit, nErrOK, nSkip int
	perShape := map[string]int{}
	nSample := 0
	type mMeta struct {
		v      *c19lVec
		prog   string
		ss     []subj    // batch
		single *subj     // or one subject with several admitted outcomes
		exp    []c19lObs // for single
		hits   int
	}
	mMetas := map[int]*mMeta{}
	mStream := pool.NewStream(func(j *Job, r Result) {
		mu.Lock()
		m := mMetas[j.N]
		delete(mMetas, j.N)
		mu.Unlock()
		if r.Class == "budget" || r.Class == "timeout" {
			nSkip++
			return
		}
		rep := func(why, subject string, want any) map[string]any {
			return map[string]any{"program": m.prog, "input": string(j.Files[0].Data), "subject": subject, "input_with_only_this_subject": "[" + subject + "]", "expected": want,
				"got_class": r.Class, "got_stdout": string(r.Stdout), "got_msg": r.ErrMsg, "why": why,
				"note": "a literal pattern matches when `$ == literal` (the literal's VALUE: escapes processed, number read in base ten); the rule runs once per element of the input array, one output line (after the m-lines of a marker body) per element"}
		}
		if r.Class == "crash" || r.Class == "panic" {
			c.Violation("match-literal-crash", rep("the run died", "", nil))
			return
		}
		if m.single != nil {
			ok := false
			for i := range m.exp {
				o := &m.exp[i]
				if o.Cls == "runtime" {
					ok = ok || (r.Class == "runtime" && len(r.Stdout) == 0)
				} else {
					ok = ok || (r.Class == "ok" && string(r.Stdout) == c19lLines(o))
				}
			}
			if !ok {
				c.Violation("match-literal", rep("none of the admitted outcomes", m.single.key, m.exp))
				return
			}
			nSingles++
			if r.Class == "runtime" {
				nErrOK++
			}
			return
		}
		var want strings.Builder
		for i := range m.ss {
			want.WriteString(m.ss[i].want)
		}
		out := string(r.Stdout)
		if r.Class != "ok" || out != want.String() {
			// the first element whose lines differ
			pos := 0
			for i := range m.ss {
				w := m.ss[i].want
				if !strings.HasPrefix(out[pos:], w) {
					got := out[pos:]
					if k := strings.Count(w, "\n"); k > 0 {
						parts := strings.SplitAfterN(got, "\n", k+1)
						if len(parts) > k {
							parts = parts[:k]
						}
						got = strings.Join(parts, "")
					}
					c.Violation("match-literal", rep(fmt.Sprintf("element %d of the input: expected output %q, got %q (class %s)", i, w, got, r.Class), m.ss[i].key, w))
					return
				}
				pos += len(w)
			}
			c.Violation("match-literal", rep("output continues after the last element, or the run failed after it", "", want.String()))
			return
		}
		nProg++
		nBatchSubj += len(m.ss)
		nLitHit += m.hits
		perShape[m.v.Shape]++
		c.Case(m.prog, m.hits > 0)
		if m.hits > 0 && nSample < 2 && strings.Contains(m.prog, "\\") {
			nSample++
			c.Sample(map[string]any{"program": m.prog, "input": string(j.Files[0].Data), "stdout": out})
		}
	})

	nextID := 0
	var premiseOnce sync.Once
	onVec := func(raw []byte) {
		v := &c19lVec{}
		VecDecode(raw, v)
		if v.Kind == "eq" {
			lit := string(symsToBytes(v.Lit))
			var ss []subj
			for _, e := range v.Eq {
				ss = append(ss, subj{c19lScalarJSON(e), "true\n"})
			}
			for _, e := range v.Ne {
				ss = append(ss, subj{c19lScalarJSON(e), "false\n"})
			}
			sort.Slice(ss, func(i, j int) bool { return ss[i].key < ss[j].key })
			shuffle(lit, len(ss), func(i, j int) { ss[i], ss[j] = ss[j], ss[i] })
			mu.Lock()
			id := nextID
			nextID++
			eqMetas[id] = &eqMeta{lit, ss}
			mu.Unlock()
			eqStream.Submit(Job{Kind: "run", Prog: []byte("{ print $ == " + lit + " }"), Files: []FileIn{{Name: "in.json", Data: input(ss)}}, N: id})
			return
		}
		// every "eq" vector belongs to an initial state: they have all been emitted before the first "match" vector
		premiseOnce.Do(eqStream.Wait)
		src := string(symsToBytes(v.Src))
		prog := c19lPrelude + "{ print " + src + " }"
		var bads []map[string]bool
		for _, l := range v.Lits {
			mu.Lock()
			b, ok := premise[string(symsToBytes(l))]
			mu.Unlock()
			if !ok {
				infra("C19: no `==` premise for the literal %s", symsToBytes(l))
			}
			bads = append(bads, b)
		}
		depends := func(key string) bool {
			for _, b := range bads {
				if b["*"] || b[key] {
					return true
				}
			}
			return false
		}
		submit := func(m *mMeta, in []byte) {
			mu.Lock()
			id := nextID
			nextID++
			mMetas[id] = m
			mu.Unlock()
			mStream.Submit(Job{Kind: "run", Prog: []byte(prog), Files: []FileIn{{Name: "in.json", Data: in}}, N: id})
		}
		var batch []subj
		hits := 0
		nCases := strings.Count(src, " => ")
		for gi := range v.Groups {
			g := &v.Groups[gi]
			calm := len(g.Exp) == 1 && g.Exp[0].Cls == "ok"
			var keys []string
			for _, e := range g.Subjs {
				keys = append(keys, c19lScalarJSON(e))
			}
			for i := range g.Arrs {
				keys = append(keys, c19lArrJSON(&g.Arrs[i]))
			}
			for _, k := range keys {
				if depends(k) {
					nSkip++
					continue
				}
				if calm {
					batch = append(batch, subj{k, c19lLines(&g.Exp[0])})
					if sel := g.Exp[0].Sel; sel > 0 && (v.Shape == "only" || sel < nCases) {
						hits++ // selected through a literal (the last case of every shape but "only" is the catch-all)
					}
					continue
				}
				s := subj{key: k}
				submit(&mMeta{v: v, prog: prog, single: &s, exp: g.Exp}, input([]subj{s}))
			}
		}
		sort.Slice(batch, func(i, j int) bool { return batch[i].key < batch[j].key })
		shuffle(src, len(batch), func(i, j int) { batch[i], batch[j] = batch[j], batch[i] })
		submit(&mMeta{v: v, prog: prog, ss: batch, hits: hits}, input(batch))
	}

	t0 := time.Now()
	maxLit, maxSubj, big, workers := "3", "2", "FALSE", 6
	if c.Thorough() {
		maxLit, big, workers = "4", "TRUE", 12
	}
	c.TLC(TLCOpt{Module: "MC_MatchLit",
		Cfg: cfgText("INIT Init", "NEXT Next", "CONSTANTS", "MaxLit = "+maxLit, "MaxSubj = "+maxSubj, "Big = "+big,
			"INVARIANT Laws", "INVARIANT Vec", "CHECK_DEADLOCK FALSE"),
		OnVec: onVec, Workers: workers, Heap: "4g"})
	premiseOnce.Do(eqStream.Wait)
	tTLC := time.Since(t0)
	mStream.Wait()
	c.Set("literal_wall_tlc_then_total", fmt.Sprintf("%.1fs %.1fs", tTLC.Seconds(), time.Since(t0).Seconds()))

	c.Set("literal_rule", "TLC (MC_MatchLit) enumerates literal spellings (string bodies up to "+maxLit+" bytes over a \\ n t with valid escapes plus numeric / blank / upper-case strings, in both quotes; number spellings with leading and trailing zeros; true false null) x 8 case-list shapes "+
		"(alone, only case, before / after a partner literal in the same case, in a later case, first / second element of an array pattern next to a binding, nested twice) x 2 (thorough 4) partner literals, against every subject "+
		"(all strings up to "+maxSubj+" bytes over a \\ n t newline tab, every string literal body and its value, numeric strings, numbers, true false null, 3 (thorough 5) arrays); expectation: JqMatchLit (value the literal denotes, `==` of DESIGN.md 3.4); "+
		"one real run per case list over all calm subjects as one JSON input array, one run per (case list, subject) where a runtime error is admitted")
	c.Set("literal_eq_premise_runs", nEqRuns)
	c.Set("literal_eq_premise_pairs", nEqPairs)
	c.Set("literal_eq_premise_deviations", nEqBad)
	if nEqBad > 0 {
		var devs []string
		for lit, bad := range premise {
			for k := range bad {
				devs = append(devs, k+" == "+lit)
			}
		}
		sort.Strings(devs)
		if len(devs) > 60 {
			devs = devs[:60]
		}
		c.Set("literal_eq_premise_deviating_pairs", devs)
	}
	c.Set("literal_programs", nProg)
	c.Set("literal_programs_per_shape", perShape)
	c.Set("literal_subject_evaluations", nBatchSubj+nSingles)
	c.Set("literal_selected_through_a_literal", nLitHit)
	c.Set("literal_single_runs", nSingles)
	c.Set("literal_runtime_error_admitted", nErrOK)
	c.Set("literal_skipped", nSkip)
}
