package main

import (
	"bufio"
	"bytes"
	"context"
	"encoding/json"
	"errors"
	"fmt"
	"io"
	"os"
	"os/exec"
	"path/filepath"
	"runtime"
	"strings"
	"sync"
	"syscall"
	"time"

	lang "github.com/alligator/jqawk/src"
)

// ---------------------------------------------------------------------------
// Jobs executed against the real implementation, in worker subprocesses (the
// interpreter has process-global state and can die of a stack overflow, so
// parallelism and isolation are by process, never by goroutine).

type FileIn struct {
	Name   string `json:"name"`
	Data   []byte `json:"data"`
	Chunks []int  `json:"chunks,omitempty"` // sizes of successive reads; remainder in one read; nil = whole
	Fault  string `json:"fault,omitempty"`  // "" | "ioerr": after the data (or at FaultAt) the reader returns an error instead of EOF
	// FaultAt: number of bytes delivered before the fault (-1 or omitted with Fault=="" means none).
	FaultAt int `json:"fault_at,omitempty"`
}

type Job struct {
	Kind    string   `json:"kind"` // run | lex | linecol | sexpr | psexpr | history
	Prog    []byte   `json:"prog,omitempty"`
	Files   []FileIn `json:"files,omitempty"`
	Sels    []string `json:"sels,omitempty"`
	WantJS  bool     `json:"want_js,omitempty"`
	Events  bool     `json:"events,omitempty"`
	Depths  bool     `json:"depths,omitempty"` // record the frame depth at which each stdout line starts
	IO      bool     `json:"io,omitempty"`
	Budget  int64    `json:"budget,omitempty"`
	Fuzzing bool     `json:"fuzzing,omitempty"`
	Pos     []int    `json:"pos,omitempty"`  // linecol: offsets
	Hist    []Job    `json:"hist,omitempty"` // history: runs executed in order in one process
	Tag     string   `json:"tag,omitempty"`
	Args    []string `json:"args,omitempty"` // free-form, for custom job kinds
	N       int      `json:"n,omitempty"`    // free-form, for custom job kinds
}

type Ev struct {
	E string `json:"e"`
	A int    `json:"a"`
	B int    `json:"b"`
	S string `json:"s,omitempty"`
}

type LineCol struct {
	Src  []byte `json:"src"`
	Line int    `json:"line"`
	Col  int    `json:"col"`
}

type Tok struct {
	Tag  string `json:"tag"`
	Pos  int    `json:"pos"`
	Len  int    `json:"len"`
	Text []byte `json:"text,omitempty"`
}

type Result struct {
	Class    string    `json:"class"` // ok syntax runtime json other panic budget | crash timeout (set by the pool)
	Stdout   []byte    `json:"stdout,omitempty"`
	ErrType  string    `json:"err_type,omitempty"`
	ErrMsg   string    `json:"err_msg,omitempty"`
	Line     int       `json:"line,omitempty"`
	Col      int       `json:"col,omitempty"`
	SrcLine  []byte    `json:"src_line,omitempty"`
	FileName string    `json:"file_name,omitempty"`
	JS       []byte    `json:"js,omitempty"`
	JSErr    string    `json:"js_err,omitempty"` // "" ok; "error: ..." ; "panic: ..."
	HasEv    bool      `json:"has_ev,omitempty"`
	Events   []Ev      `json:"events,omitempty"`
	Depth    int       `json:"depth"` // frame depth at the end of the run (0 = base)
	LineDep  []int     `json:"line_dep,omitempty"`
	Parses   bool      `json:"parses,omitempty"` // (Events) the program text parses on its own
	LC       []LineCol `json:"lc,omitempty"`
	Toks     []Tok     `json:"toks,omitempty"`
	LexErr   bool      `json:"lex_err,omitempty"`
	Sexpr    string    `json:"sexpr,omitempty"`
	Hist     []Result  `json:"hist,omitempty"`
	Detail   string    `json:"detail,omitempty"`
	Out      []string  `json:"out,omitempty"` // free-form, for custom job kinds
}

// scheduled reader: hands out exactly the scheduled chunks.
type schedReader struct {
	data   []byte
	chunks []int
	pos    int
	ci     int
	fault  string
	at     int
	log    *[]Ev
	out    *bytes.Buffer
	idx    int
}

var errInjected = errors.New("injected I/O error")

func (r *schedReader) Read(p []byte) (int, error) {
	if r.log != nil {
		*r.log = append(*r.log, Ev{"ReadCall", r.pos, r.out.Len(), ""})
	}
	limit := len(r.data)
	if r.fault != "" && r.at >= 0 && r.at < limit {
		limit = r.at
	}
	if r.pos >= limit {
		if r.fault == "ioerr" {
			if r.log != nil {
				*r.log = append(*r.log, Ev{"ReadRet", 0, r.pos, "ioerr"})
			}
			return 0, errInjected
		}
		if r.log != nil {
			*r.log = append(*r.log, Ev{"ReadRet", 0, r.pos, "eof"})
		}
		return 0, io.EOF
	}
	n := limit - r.pos
	if r.ci < len(r.chunks) {
		if r.chunks[r.ci] < n {
			n = r.chunks[r.ci]
		}
		r.ci++
	}
	if n > len(p) {
		n = len(p)
	}
	if n <= 0 {
		n = 1
	}
	copy(p, r.data[r.pos:r.pos+n])
	r.pos += n
	if r.log != nil {
		*r.log = append(*r.log, Ev{"ReadRet", n, r.pos, ""})
	}
	return n, nil
}

func classify(err error, res *Result) {
	switch te := err.(type) {
	case nil:
		res.Class = "ok"
	case lang.SyntaxError:
		res.Class = "syntax"
		res.Line, res.Col, res.SrcLine = te.Line, te.Col, []byte(te.SrcLine)
	case lang.RuntimeError:
		res.Class = "runtime"
		res.Line, res.Col, res.SrcLine = te.Line, te.Col, []byte(te.SrcLine)
	case lang.JsonError:
		res.Class = "json"
		res.FileName = te.FileName
	default:
		res.Class = "other"
	}
	if err != nil {
		res.ErrType = fmt.Sprintf("%T", err)
		res.ErrMsg = err.Error()
	}
}

// depthWriter records, for every stdout line, the frame depth at its first byte.
type depthWriter struct {
	buf     *bytes.Buffer
	depth   *int
	lineDep []int
	atStart bool
	events  *[]Ev // when set, a Write event is logged at the start of every line
}

func (w *depthWriter) Write(p []byte) (int, error) {
	for _, b := range p {
		if w.atStart {
			w.lineDep = append(w.lineDep, *w.depth)
			if w.events != nil {
				*w.events = append(*w.events, Ev{"Write", *w.depth, 0, ""})
			}
			w.atStart = false
		}
		if b == '\n' {
			w.atStart = true
		}
	}
	return w.buf.Write(p)
}

func execRun(j *Job) (res Result) {
	var out bytes.Buffer
	var events []Ev
	curDepth := 0
	dw := &depthWriter{buf: &out, depth: &curDepth, atStart: true}
	files := make([]lang.InputFile, 0, len(j.Files))
	for i, f := range j.Files {
		at := f.FaultAt
		if f.Fault == "" {
			at = -1
		}
		rd := &schedReader{data: f.Data, chunks: f.Chunks, fault: f.Fault, at: at, out: &out, idx: i}
		if f.Fault == "eof" {
			rd.fault = "eof"
		}
		if j.IO {
			rd.log = &events
		}
		files = append(files, lang.InputFile{Name: f.Name, Reader: rd})
	}
	if j.Events || j.Depths {
		lang.VerifSetSink(func(e lang.VerifEvent) {
			if e.Ev == "Push" || e.Ev == "Pop" {
				curDepth = e.A
			}
			if j.Events {
				events = append(events, Ev{e.Ev, e.A, e.B, e.S})
			}
		})
	} else {
		lang.VerifSetSink(nil)
	}
	budget := j.Budget
	if budget == 0 {
		budget = 2_000_000
	}
	lang.VerifSetBudget(budget)
	var ev *lang.Evaluator
	var err error
	func() {
		defer func() {
			if r := recover(); r != nil {
				if _, ok := r.(lang.VerifBudgetExceeded); ok {
					res.Class = "budget"
					return
				}
				res.Class = "panic"
				buf := make([]byte, 4096)
				n := runtime.Stack(buf, false)
				res.Detail = fmt.Sprintf("%v\n%s", r, buf[:n])
			}
		}()
		var w io.Writer = &out
		if j.Depths || j.Events {
			w = dw
		}
		if j.Events {
			dw.events = &events
		}
		ev, err = lang.EvalProgram(string(j.Prog), files, j.Sels, w, j.Fuzzing)
		classify(err, &res)
	}()
	lang.VerifSetSink(nil)
	lang.VerifSetBudget(-1)
	res.Stdout = append([]byte{}, out.Bytes()...)
	if j.Depths {
		res.LineDep = dw.lineDep
	}
	if j.Events || j.IO {
		res.Events = events
		res.HasEv = true
	}
	if j.Events {
		func() {
			defer func() { recover() }()
			lx := lang.NewLexer(string(j.Prog))
			ps := lang.NewParser(&lx)
			_, perr := ps.Parse()
			res.Parses = perr == nil
		}()
	}
	if ev != nil && (res.Class == "ok" || res.Class == "runtime" || res.Class == "json" || res.Class == "other") {
		func() {
			defer func() {
				if r := recover(); r != nil {
					res.Depth = -1
				}
			}()
			res.Depth = ev.VerifDepth()
		}()
	}
	if j.WantJS && ev != nil && res.Class == "ok" {
		func() {
			defer func() {
				if r := recover(); r != nil {
					res.JSErr = fmt.Sprintf("panic: %v", r)
				}
			}()
			s, jerr := ev.GetRootJson()
			if jerr != nil {
				res.JSErr = "error: " + jerr.Error()
			} else {
				res.JS = []byte(s)
			}
		}()
	}
	return res
}

func tokenText(lx *lang.Lexer, t lang.Token) []byte {
	return []byte(lx.GetString(&t))
}

// execLex drives the lexer the way the parser does for a flat token stream:
// Next() until EOF; a '/' in prefix position (start, or after an operator /
// opening bracket / comma) is re-scanned with Regex().
func execLex(j *Job) (res Result) {
	defer func() {
		if r := recover(); r != nil {
			res.Class = "panic"
			res.Detail = fmt.Sprint(r)
		}
	}()
	lx := lang.NewLexer(string(j.Prog))
	res.Class = "ok"
	for {
		t, err := lx.Next()
		if err != nil {
			res.LexErr = true
			classify(err, &res)
			return res
		}
		res.Toks = append(res.Toks, Tok{Tag: t.Tag.String(), Pos: t.Pos, Len: t.Len, Text: tokenText(&lx, t)})
		if t.Tag == lang.EOF {
			return res
		}
		if len(res.Toks) > 100000 {
			res.Class = "other"
			return res
		}
	}
}

func execLineCol(j *Job) (res Result) {
	defer func() {
		if r := recover(); r != nil {
			res.Class = "panic"
			res.Detail = fmt.Sprint(r)
		}
	}()
	lx := lang.NewLexer(string(j.Prog))
	res.Class = "ok"
	for _, p := range j.Pos {
		s, l, c := lx.GetLineAndCol(p)
		res.LC = append(res.LC, LineCol{[]byte(s), l, c})
	}
	return res
}

func execSexpr(j *Job, prog bool) (res Result) {
	defer func() {
		if r := recover(); r != nil {
			res.Class = "panic"
			res.Detail = fmt.Sprint(r)
		}
	}()
	var s string
	var err error
	if prog {
		s, err = lang.VerifProgSexpr(string(j.Prog))
	} else {
		s, err = lang.VerifExprSexpr(string(j.Prog))
	}
	classify(err, &res)
	res.Sexpr = s
	return res
}

func execJob(j *Job) Result {
	switch j.Kind {
	case "run", "":
		return execRun(j)
	case "lex":
		return execLex(j)
	case "linecol":
		return execLineCol(j)
	case "sexpr":
		return execSexpr(j, false)
	case "psexpr":
		return execSexpr(j, true)
	case "history":
		var res Result
		res.Class = "ok"
		for i := range j.Hist {
			res.Hist = append(res.Hist, execJob(&j.Hist[i]))
		}
		return res
	}
	if f, ok := jobKinds[j.Kind]; ok {
		return f(j)
	}
	return Result{Class: "other", Detail: "unknown job kind " + j.Kind}
}

// jobKinds lets a property file add its own job kinds (executed in the worker
// subprocess): register in an init() with jobKinds["name"] = func.
var jobKinds = map[string]func(j *Job) Result{}

func workerMain() {
	rd := bufio.NewReaderSize(os.Stdin, 1<<20)
	wr := bufio.NewWriterSize(os.Stdout, 1<<20)
	for {
		line, err := rd.ReadBytes('\n')
		if len(line) > 1 {
			var j Job
			if jerr := json.Unmarshal(line, &j); jerr != nil {
				fmt.Fprintln(os.Stderr, "worker: bad job:", jerr)
				os.Exit(3)
			}
			r := execJob(&j)
			b, _ := json.Marshal(&r)
			wr.Write(b)
			wr.WriteByte('\n')
			wr.Flush()
		}
		if err != nil {
			return
		}
	}
}

// ---------------------------------------------------------------------------
// Pool of worker subprocesses.

type worker struct {
	cmd    *exec.Cmd
	in     io.WriteCloser
	out    *bufio.Reader
	stderr *bytes.Buffer
}

type Pool struct {
	free    chan *worker
	n       int
	memKB   int64
	Timeout time.Duration
}

func startWorker(memKB int64) *worker {
	self, err := os.Executable()
	if err != nil {
		infra("os.Executable: %v", err)
	}
	var cmd *exec.Cmd
	if memKB > 0 {
		cmd = exec.Command("/bin/sh", "-c", fmt.Sprintf("ulimit -v %d; exec %q worker", memKB, self))
	} else {
		cmd = exec.Command(self, "worker")
	}
	in, _ := cmd.StdinPipe()
	out, _ := cmd.StdoutPipe()
	w := &worker{cmd: cmd, in: in, out: bufio.NewReaderSize(out, 1<<20), stderr: &bytes.Buffer{}}
	cmd.Stderr = w.stderr
	if err := cmd.Start(); err != nil {
		infra("start worker: %v", err)
	}
	return w
}

func (w *worker) kill() {
	w.in.Close()
	if w.cmd.Process != nil {
		w.cmd.Process.Kill()
	}
	w.cmd.Wait()
}

func NewPool(n int, memKB int64) *Pool {
	p := &Pool{free: make(chan *worker, n), n: n, memKB: memKB, Timeout: 60 * time.Second}
	for i := 0; i < n; i++ {
		p.free <- startWorker(memKB)
	}
	return p
}

func (c *Ctx) Pool() *Pool {
	c.mu.Lock()
	defer c.mu.Unlock()
	if c.pool == nil {
		c.pool = NewPool(16, 0)
	}
	return c.pool
}

func (p *Pool) Close() {
	for i := 0; i < p.n; i++ {
		select {
		case w := <-p.free:
			w.kill()
		case <-time.After(5 * time.Second):
			return
		}
	}
}

// Do executes one job in some worker. A worker that dies or hangs is replaced;
// the job is then classified "crash" or "timeout".
func (p *Pool) Do(j *Job) Result {
	w := <-p.free
	b, _ := json.Marshal(j)
	b = append(b, '\n')
	type rr struct {
		line []byte
		err  error
	}
	ch := make(chan rr, 1)
	go func() {
		if _, err := w.in.Write(b); err != nil {
			ch <- rr{nil, err}
			return
		}
		line, err := w.out.ReadBytes('\n')
		ch <- rr{line, err}
	}()
	var res Result
	select {
	case r := <-ch:
		if r.err != nil || len(r.line) == 0 {
			w.in.Close()
			werr := w.cmd.Wait()
			res.Class = "crash"
			st := w.stderr.String()
			if len(st) > 3000 {
				st = st[:3000]
			}
			res.Detail = fmt.Sprintf("worker died: %v\n%s", werr, st)
			if ee, ok := werr.(*exec.ExitError); ok {
				if ws, ok := ee.Sys().(syscall.WaitStatus); ok && ws.Signaled() {
					res.ErrType = "signal:" + ws.Signal().String()
				}
			}
			p.free <- startWorker(p.memKB)
			return res
		}
		if err := json.Unmarshal(r.line, &res); err != nil {
			infra("bad worker result: %v", err)
		}
		p.free <- w
		return res
	case <-time.After(p.Timeout):
		w.kill()
		res.Class = "timeout"
		p.free <- startWorker(p.memKB)
		return res
	}
}

// Map runs all jobs in parallel and calls fn(i, result) serially.
func (p *Pool) Map(jobs []Job, fn func(i int, r Result)) {
	type ir struct {
		i int
		r Result
	}
	out := make(chan ir, 64)
	var wg sync.WaitGroup
	sem := make(chan struct{}, p.n)
	go func() {
		for i := range jobs {
			sem <- struct{}{}
			wg.Add(1)
			go func(i int) {
				defer wg.Done()
				r := p.Do(&jobs[i])
				<-sem
				out <- ir{i, r}
			}(i)
		}
		wg.Wait()
		close(out)
	}()
	for x := range out {
		fn(x.i, x.r)
	}
}

// Stream is a Map for producers that generate jobs on the fly (TLC vectors).
type Stream struct {
	p    *Pool
	wg   sync.WaitGroup
	sem  chan struct{}
	mu   sync.Mutex
	done func(j *Job, r Result)
}

func (p *Pool) NewStream(done func(j *Job, r Result)) *Stream {
	return &Stream{p: p, sem: make(chan struct{}, p.n*2), done: done}
}

func (s *Stream) Submit(j Job) {
	s.sem <- struct{}{}
	s.wg.Add(1)
	go func() {
		defer s.wg.Done()
		r := s.p.Do(&j)
		<-s.sem
		s.mu.Lock()
		defer s.mu.Unlock()
		s.done(&j, r)
	}()
}

func (s *Stream) Wait() { s.wg.Wait() }

// ---------------------------------------------------------------------------
// The compiled binary.

type BinResult struct {
	Stdout   []byte
	Stderr   []byte
	Exit     int
	Signaled bool
	TimedOut bool
}

func (c *Ctx) Bin() string {
	if c.binPath == "" {
		infra("JQAWK_BIN not set (the check script builds the binary)")
	}
	return c.binPath
}

func (c *Ctx) RunBin(args []string, stdin []byte, dir string, timeout time.Duration) BinResult {
	if timeout == 0 {
		timeout = 30 * time.Second
	}
	ctx, cancel := context.WithTimeout(context.Background(), timeout)
	defer cancel()
	cmd := exec.CommandContext(ctx, c.Bin(), args...)
	cmd.Dir = dir
	if stdin != nil {
		cmd.Stdin = bytes.NewReader(stdin)
	} else {
		// an explicit empty pipe: stdin is never a tty here
		cmd.Stdin = bytes.NewReader(nil)
	}
	var so, se bytes.Buffer
	cmd.Stdout = &so
	cmd.Stderr = &se
	err := cmd.Run()
	r := BinResult{Stdout: so.Bytes(), Stderr: se.Bytes()}
	if ctx.Err() != nil {
		r.TimedOut = true
		return r
	}
	if err != nil {
		if ee, ok := err.(*exec.ExitError); ok {
			r.Exit = ee.ExitCode()
			if ws, ok := ee.Sys().(syscall.WaitStatus); ok && ws.Signaled() {
				r.Signaled = true
			}
		} else {
			infra("run binary: %v", err)
		}
	}
	return r
}

func (c *Ctx) TempDir(name string) string {
	d := filepath.Join(c.Out, name)
	os.MkdirAll(d, 0o755)
	return d
}

func hasCrashMarks(stderr []byte) bool {
	s := string(stderr)
	return strings.Contains(s, "panic:") || strings.Contains(s, "goroutine ") || strings.Contains(s, "fatal error:")
}
