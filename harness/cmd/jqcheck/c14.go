package main

import (
	"bytes"
	"encoding/json"
	"fmt"
	"math/rand"
	"os"
	"path/filepath"
	"sort"
	"strconv"
	"strings"
	"sync"
	"time"
	"unicode/utf8"
)

func init() { register("C14", checkC14) }

// C14: the command line is a faithful wrapper.
//
// MC_Cli (TLC) enumerates the full product of command-line shapes of JqCli
// (among them: two file arguments that are the same path) x
// the possible library results and emits for each what the binary must show.
// A shape the wrapper refuses by itself (unusable input, -o with several
// inputs) is crossed with every point at which the program may `exit`
// (never / BEGIN / first / second input; JqCli StopOf, OpensAll, LawStop):
// the refusal may not depend on whether the program would have read the
// input.  -o FILE is crossed with what FILE is: a path of its own or the
// input file itself (same string, ./ spelling, symbolic link, hard link;
// JqCli AliasOf, ReadsOriginal, LawInPlace): the evaluator must have read the
// document before FILE is written.
// Every shape is materialised with a pool of (program, selectors, inputs)
// triples in a temp dir and run on the compiled binary; the library result is
// obtained from lang.EvalProgram + GetRootJson in a worker on the same
// program, selectors and bytes and selects the row of the model's table.
// On top: differential pairs between binary runs (-f / inline, stdin / file,
// -r E / BEGINFILE { $ = E }, file and selector order).
//
// MC_CliBytes (TLC) adds the texts the command line carries: every byte
// sequence up to a bound over the bytes a front end might treat specially x
// every channel (program text in a string / regex literal / between tokens /
// in a comment, at its very beginning / end, the whole program, selector, file name, input bytes
// inside a string / between values / at the very beginning / end, document
// strings and keys, the raw last write of the program at the end of the run /
// before exit / before an error) x the command-line shapes of that channel.
// A text is a sequence of units: a byte, or a whole byte-order mark.  Each is
// rendered to a triple and goes through the same comparisons: the wrapper
// must be a pipe.  For text runs the model also emits stdout as ONE byte
// stream (JqCli.StreamOf): the text, "<lib>", "<json>" in the order of the
// writes; the binary's stdout is compared with that stream.

type c14Cfg struct {
	ProgVia string `json:"progVia"`
	NFiles  int    `json:"nfiles"`
	Same    bool   `json:"same"` // both file arguments are the same path
	NSel    int    `json:"nsel"`
	Out     string `json:"out"`
	BadProg bool   `json:"badProg"`
	BadAt   int    `json:"badAt"`
	BadKind string `json:"badKind"`
	Stop    string `json:"stop,omitempty"`   // MC_Cli: where the program exits ("pool": whatever the pool program does)
	Alias   string `json:"alias,omitempty"`  // MC_Cli: the -o path is the input file ("none": a path of its own)
	Pre     string `json:"pre,omitempty"`    // MC_Cli: what a -o path of its own holds beforehand ("absent" | "stale")
	OFault  string `json:"ofault,omitempty"` // MC_Cli: the -o path cannot be created ("nodir" | "isdir") / written ("full")
}

func (k c14Cfg) inPlace() bool { return k.Alias != "" && k.Alias != "none" }
func (k c14Cfg) stops() bool   { return k.Stop != "" && k.Stop != "pool" }

func (k c14Cfg) faulty() bool { return k.BadProg || k.BadAt > 0 }

func (k c14Cfg) outFault() bool { return k.OFault != "" && k.OFault != "none" }

type c14Vec struct {
	Cfg c14Cfg `json:"cfg"`
	Lib struct {
		Outcome string `json:"outcome"`
		JSON    string `json:"json"`
	} `json:"lib"`
	Evaluated bool     `json:"evaluated"`
	Status0   bool     `json:"status0"`
	Diag      bool     `json:"diag"`
	Stdout    []string `json:"stdout"`
	Outfile   string   `json:"outfile"`
	OutStale  string   `json:"outfileStale"` // MC_CliBytes: the same when the -o path held an earlier result
	Stream    []string `json:"stream"`       // MC_CliBytes: stdout as bytes, "<lib>", "<json>"
}

type c14Prog struct {
	Src       string
	UsesFile  bool // prints $file
	Stateless bool // output for (A, B) is output for A followed by output for B
	ReadsBF   bool // inspects $ in a BEGINFILE / ENDFILE rule
}

type c14Input struct {
	Name   string
	Docs   [2]string
	Names  [2]string // file names of the two documents ("" = in<i>.json)
	Sels   [2]string
	Single bool // every file holds exactly one JSON value
	BadSel bool // the first selector is not a valid expression: the library refuses it
}

type c14Triple struct {
	P c14Prog
	I c14Input
}

var c14Progs = []c14Prog{
	{Src: `{ print $.x }`, Stateless: true},
	{Src: `{ n++ } END { print n }`},
	{Src: `BEGIN { print "start" } $.x > 1 { print "big", $.x } END { print "end" }`},
	{Src: `{ $.x = 5 }`, Stateless: true},
	{Src: `{ print $file, $.x }`, UsesFile: true, Stateless: true},
	{Src: `{ print $.x; if ($.x == 2) print 1 / 0 }`},
	{Src: `{ print `},
	{Src: `{ print $.x; exit }`},
	{Src: `BEGIN { exit }`},
	{Src: `END { printf("%s|%s\n", "done", $) }`},
	{Src: `BEGINFILE { print "bf", $file } ENDFILE { print "ef" }`, UsesFile: true, Stateless: true},
	{Src: ``, Stateless: true},
	{Src: `{ $.me = $ }`, Stateless: true},
	// a root without a JSON form, after the program printed something
	{Src: `{ print "seen", $.x; $.pat = /x/ }`, Stateless: true},
	{Src: `BEGINFILE { $.k = $ }`, Stateless: true, ReadsBF: true},
	{Src: "function f(v) { return v * 2 }\n{ print f($.x) }", Stateless: true},
	{Src: `BEGINFILE { print "root", $ } ENDFILE { print "was", $ }`, Stateless: true, ReadsBF: true},
	{Src: "# totals\n{ t += $.x }\nEND { print \"total\", t }\n"},
	{Src: `$.x { print $index, $.x } !$.x`, Stateless: true},
	// output that does not end in a newline
	{Src: `{ printf("%s;", $.x) }`, Stateless: true},
	{Src: "{ s += $.x; print $.x }\nEND { printf(\"sum=%s\", s) }"},
}

// c14LongProg writes more than a buffer between the program and the descriptor holds: > 8 KiB per element in the
// quick tier (twice bufio's default size), > 64 KiB (a pipe's capacity) in the thorough tier
func c14LongProg(thorough bool) c14Prog {
	n := 800
	if thorough {
		n = 6000
	}
	return c14Prog{Src: `{ for (i = 0; i < ` + strconv.Itoa(n) + `; i++) print "line", i, $.x }`, Stateless: true}
}

// c14StopProgs are the programs of a shape that fixes where the run ends with `exit` (JqCli StopOf): per stop,
// one program per kind of rule that holds the exit.  rounds = BEGINFILE activations per input file (the
// inputs used with them hold one JSON value per file): the second file is being processed from round rounds+1 on.
func c14StopProgs(stop string, rounds int) []c14Prog {
	r := strconv.Itoa(rounds)
	switch stop {
	case "never":
		return []c14Prog{{Src: `{ print $.x }`}, {Src: `BEGIN { print "b" } END { print "e" }`}}
	case "begin":
		return []c14Prog{{Src: `BEGIN { exit }`}, {Src: `BEGIN { print "b"; exit } { print $.x } END { print "e" }`}}
	case "in1":
		return []c14Prog{{Src: `BEGINFILE { print "bf"; exit }`}, {Src: `{ print $.x; exit }`},
			{Src: `{ print $.x } ENDFILE { print "ef"; exit } END { print "e" }`}}
	case "in2":
		return []c14Prog{{Src: `BEGINFILE { nr++; if (nr > ` + r + `) { print "bf2"; exit } } { print $.x }`},
			{Src: `BEGINFILE { nr++ } { print $.x; if (nr > ` + r + `) exit } END { print "e" }`},
			{Src: `BEGINFILE { nr++ } { print $.x } ENDFILE { if (nr > ` + r + `) { print "ef2"; exit } }`}}
	}
	infra("C14: unknown stop %q", stop)
	return nil
}

var c14Inputs = []c14Input{
	{Name: "objects", Single: true, Sels: [2]string{"$.a", "$.b"},
		Docs: [2]string{`{"a":[{"x":1},{"x":2}],"b":[{"x":3}]}`, "{\"a\":[{\"x\":4}],\n \"b\":[]}\n"}},
	{Name: "jsonl", Sels: [2]string{"$.a", "$.b"},
		Docs: [2]string{"{\"a\":[{\"x\":1}],\"b\":{\"x\":2}}\n{\"a\":[],\"b\":[{\"x\":5},{\"x\":6}]}\n", `{"a":7,"b":null} {"a":"s","b":[{"x":8}]}`}},
	{Name: "empty", Sels: [2]string{"$.a", "$.b"}, Docs: [2]string{"", " \n"}},
	{Name: "malformed", Sels: [2]string{"$.a", "$.b"},
		Docs: [2]string{`{"a":[{"x":1}],"b":[]} {"a":[1,`, `{"a":[{"x":9}],"b":[]}`}},
	{Name: "arrays", Single: true, Sels: [2]string{"$[0]", "$"},
		Docs: [2]string{`[{"x":1},{"x":2},{"x":3}]`, `[{"x":4}]`}},
	{Name: "scalars", Sels: [2]string{"$", "$.x"}, Docs: [2]string{"5 \"str\" null", `{"x":0}`}},
	// selectors are arbitrary expressions: commas inside them belong to the expression
	{Name: "comma-array", Single: true, Sels: [2]string{"[$.b, $.a]", `$.pluck("a", "b")`},
		Docs: [2]string{`{"a":[{"x":1},{"x":2}],"b":[{"x":3}]}`, `{"a":[{"x":4}],"b":[{"x":5},{"x":6}]}`}},
	{Name: "comma-object", Sels: [2]string{"{ first: $.a, rest: $.b }", "[$.a[0], $.b]"},
		Docs: [2]string{"{\"a\":[{\"x\":1},{\"x\":2}],\"b\":[{\"x\":3}]}\n{\"a\":[{\"x\":7}],\"b\":8}\n", `{"a":[{"x":4}],"b":[]}`}},
	{Name: "comma-invalid", Single: true, BadSel: true, Sels: [2]string{"$.a, $.b", "$.a"},
		Docs: [2]string{`{"a":[{"x":1},{"x":2}],"b":[{"x":3}]}`, `{"a":[{"x":4}],"b":[]}`}},
}

type c14Run struct {
	Key    string // identifies (cfg, triple, variant)
	Cfg    c14Cfg
	T      *c14Triple
	Prog   string             // program text actually used
	Sels   []string           // selectors actually used
	Order  []int              // which docs, in which order (indices into T.I.Docs)
	Dir    bool               // unreadable realised as a directory
	Stale  bool               // the -o FILE exists before the run, with content longer than any document written here
	Rows   map[string]*c14Vec // the model's rows for this run when they do not come from MC_Cli's table
	Chan   string             // MC_CliBytes: the channel that holds the text
	Text   []byte             // MC_CliBytes: the text
	Args   []string
	Res    BinResult
	OutDoc []byte // content of the -o FILE, nil if absent
	OutDir bool   // the -o path is a directory after the run
	Skip   string // not conclusive: why
}

func c14Key(k c14Cfg) string { b, _ := json.Marshal(k); return string(b) }

// c14FileName is the name of the i-th document of an input set on disk and for the library.
func c14FileName(in *c14Input, i int) string {
	if in.Names[i] != "" {
		return in.Names[i]
	}
	return fmt.Sprintf("in%d.json", i)
}

// c14Bytes decodes a text of the specification (JqUtil bytes: one character, or a two-digit hex name).
func c14Bytes(syms []string) []byte {
	var out []byte
	for _, s := range syms {
		if len(s) == 2 {
			n, err := strconv.ParseUint(s, 16, 8)
			if err != nil {
				infra("C14: bad byte name %q", s)
			}
			out = append(out, byte(n))
		} else if len(s) == 1 {
			out = append(out, s[0])
		} else {
			infra("C14: bad byte %q", s)
		}
	}
	return out
}

// c14TextTriple renders (channel, text) to a program, input documents, a selector and file names.
// The oracle is the library on exactly these, so the text may well make the program or the input
// malformed: then the binary has to fail the way the library does.
func c14TextTriple(ch string, text []byte) *c14Triple {
	t := string(text)
	doc := func(v any) string {
		b, err := json.Marshal(v)
		if err != nil {
			infra("C14: marshal: %v", err)
		}
		return string(b)
	}
	plain := [2]string{`[{"x": "a b"}, {"x": "c"}]`, `{"x": "second"}`}
	tr := &c14Triple{I: c14Input{Name: "text:" + ch, Docs: plain, Sels: [2]string{"$", "$"}}}
	switch ch {
	case "prog-str":
		tr.P = c14Prog{Src: `{ s = "` + t + `"; print s.length(), s, $.x; $.s = s }`}
	case "prog-re":
		tr.I.Docs[0] = doc([]any{map[string]any{"x": "a" + t + "b"}, map[string]any{"x": "ab"}, map[string]any{"x": "a\nb"}})
		tr.P = c14Prog{Src: `$.x ~ /a` + t + `b/ { print "match", $.x; $.m = true }`}
	case "prog-ws":
		tr.P = c14Prog{Src: `{ print $.x }` + t + `END { print "end" }`}
	case "prog-cmt":
		tr.P = c14Prog{Src: `{ print $.x } # ` + t + "\nEND { print \"end\" }"}
	case "input-str":
		tr.I.Docs[0] = `{"x": "` + t + `"}` + "\n" + `{"x": "after"}`
		tr.P = c14Prog{Src: `{ print $.x; $.seen = $.x }`}
	case "input-ws":
		tr.I.Docs[0] = `{"x": 1}` + t + `{"x": 2}`
		tr.P = c14Prog{Src: `{ print $.x; $.seen = true }`}
	case "doc-val":
		tr.I.Docs[0] = doc([]any{map[string]any{"x": t}, map[string]any{"x": "u" + t + t}})
		tr.P = c14Prog{Src: `{ print $.x; $.y = $.x + "!" }`}
	case "doc-key":
		tr.I.Docs[0] = doc(map[string]any{"k" + t: map[string]any{t + "z": 1}})
		tr.P = c14Prog{Src: `{ print $; $.seen = true }`}
	case "sel":
		tr.I.Docs[0] = doc(map[string]any{t: []any{map[string]any{"x": 1}, map[string]any{"x": 2}}, "other": []any{}})
		tr.I.Sels[0] = `$["` + t + `"]`
		tr.P = c14Prog{Src: `{ print $.x; $.seen = true }`}
	case "prog-all":
		// the text IS the program: the empty program, a blank, a lone newline, a lone string ...
		tr.P = c14Prog{Src: t}
	case "prog-head":
		tr.P = c14Prog{Src: t + `{ print $.x }`}
	case "prog-tail":
		tr.P = c14Prog{Src: `{ print $.x } END { print "end" }` + t}
	case "input-head":
		tr.I.Docs[0] = t + `{"x": 1} {"x": 2}`
		tr.I.Docs[1] = t + `{"x": 3}`
		tr.P = c14Prog{Src: `{ print $.x; $.seen = true }`}
	case "input-tail":
		tr.I.Docs[0] = `{"x": 1} {"x": 2}` + t
		tr.P = c14Prog{Src: `{ print $.x; $.seen = true }`}
	case "out-end":
		// a complete line, then the text as the last bytes the program writes
		tr.I.Docs[0] = doc([]any{map[string]any{"x": "line\n"}, map[string]any{"x": t}})
		tr.P = c14Prog{Src: `{ printf("%s", $.x); $.y = 1 }`}
	case "out-exit":
		tr.I.Docs[0] = doc([]any{map[string]any{"x": "line\n"}, map[string]any{"x": t, "last": true}, map[string]any{"x": "never"}})
		tr.P = c14Prog{Src: `{ printf("%s", $.x); $.y = 1; if ($.last) exit }`}
	case "out-err":
		tr.I.Docs[0] = doc([]any{map[string]any{"x": "line\n"}, map[string]any{"x": t, "last": true}, map[string]any{"x": "never"}})
		tr.P = c14Prog{Src: `{ printf("%s", $.x); if ($.last) print 1 / 0 }`}
	case "fname":
		tr.I.Names[0] = "in" + t + ".json"
		tr.P = c14Prog{Src: `{ print $file, $.x }`, UsesFile: true}
	default:
		infra("C14: unknown channel %q", ch)
	}
	return tr
}

var c14RawOut = map[string]bool{"out-end": true, "out-exit": true, "out-err": true}

// what an -o FILE may hold before the run: longer than any document written by the pool
var c14StaleDoc = bytes.Repeat([]byte("{\"stale\": [0, 1, 2, 3, 4, 5, 6, 7, 8, 9]}\n"), 100)

// c14Exec materialises one run in its own directory and runs the binary.
func c14Exec(c *Ctx, base string, n int, r *c14Run) {
	dir := filepath.Join(base, fmt.Sprintf("r%d", n))
	os.MkdirAll(dir, 0o755)
	defer func() {
		os.Chmod(filepath.Join(dir, "locked.json"), 0o644)
		os.RemoveAll(dir)
	}()
	k := r.Cfg
	args := []string{}
	outName := "out.json"
	if k.ProgVia == "file" {
		if k.BadProg {
			args = append(args, "-f", "nope.jqawk")
		} else {
			os.WriteFile(filepath.Join(dir, "prog.jqawk"), []byte(r.Prog), 0o644)
			args = append(args, "-f", "prog.jqawk")
		}
	}
	for _, s := range r.Sels {
		args = append(args, "-r", s)
	}
	switch k.Out {
	case "dash":
		args = append(args, "-o", "-")
	case "path":
		in0 := ""
		if len(r.Order) > 0 {
			in0 = c14FileName(&r.T.I, r.Order[0])
		}
		switch k.Alias {
		case "input":
			outName = in0
		case "spelled":
			outName = "./" + in0 // another spelling of the same path
		}
		switch k.OFault {
		case "nodir": // cannot be created: its directory does not exist
			outName = filepath.Join("nodir", "out.json")
		case "isdir": // cannot be created: it is a directory
			outName = "outdir"
			os.MkdirAll(filepath.Join(dir, outName), 0o755)
		case "full": // can be created (opened), cannot be written
			outName = "/dev/full"
			if st, err := os.Stat(outName); err != nil || st.Mode()&os.ModeCharDevice == 0 {
				r.Skip = "no /dev/full here"
			}
		}
		args = append(args, "-o", outName)
		if r.Stale && !k.inPlace() && !k.outFault() {
			os.WriteFile(filepath.Join(dir, "out.json"), c14StaleDoc, 0o644)
		}
	}
	if k.ProgVia == "inline" {
		if strings.HasPrefix(r.Prog, "-") {
			args = append(args, "--") // the way to give an argument that begins with `-`
		}
		args = append(args, r.Prog)
	}
	var stdin []byte
	if k.NFiles == 0 {
		stdin = []byte(r.T.I.Docs[r.Order[0]])
	}
	for i := 0; i < k.NFiles; i++ {
		if k.Same && i > 0 {
			args = append(args, args[len(args)-1]) // the same path once more
			continue
		}
		name := c14FileName(&r.T.I, r.Order[i])
		if k.BadAt == i+1 {
			switch {
			case k.BadKind == "missing":
				name = "missing.json"
			case r.Dir:
				name = "unreadable.d"
				os.MkdirAll(filepath.Join(dir, name), 0o755)
			default:
				name = "locked.json"
				os.WriteFile(filepath.Join(dir, name), []byte(r.T.I.Docs[r.Order[i]]), 0o644)
				os.Chmod(filepath.Join(dir, name), 0)
				if f, err := os.Open(filepath.Join(dir, name)); err == nil {
					f.Close()
					r.Skip = "mode 000 file is readable (running as root)"
				}
			}
		} else {
			os.WriteFile(filepath.Join(dir, name), []byte(r.T.I.Docs[r.Order[i]]), 0o644)
		}
		args = append(args, name)
	}
	if k.Out == "path" && k.NFiles >= 1 {
		// in place: out.json is a link to the input file
		var err error
		switch k.Alias {
		case "symlink":
			err = os.Symlink(c14FileName(&r.T.I, r.Order[0]), filepath.Join(dir, "out.json"))
		case "hardlink":
			err = os.Link(filepath.Join(dir, c14FileName(&r.T.I, r.Order[0])), filepath.Join(dir, "out.json"))
		}
		if err != nil {
			r.Skip = "cannot link: " + err.Error()
		}
	}
	r.Args = args
	r.Res = c.RunBin(args, stdin, dir, 30*time.Second)
	outPath := outName
	if !filepath.IsAbs(outPath) {
		outPath = filepath.Join(dir, outName)
	}
	if st, err := os.Stat(outPath); err == nil && st.IsDir() {
		r.OutDir = true
	} else if err == nil && st.Mode().IsRegular() {
		if b, err := os.ReadFile(outPath); err == nil {
			r.OutDoc = append([]byte{}, b...)
		}
	}
}

// c14LibJob is the library run that corresponds to a binary run.
// With failAt > 0 that input is a reader whose first read fails (the library-level picture of
// a file that opens but cannot be read); the reads are logged.
func c14LibJob(r *c14Run, failAt int) Job {
	j := Job{Kind: "run", Prog: []byte(r.Prog), Sels: r.Sels, WantJS: true, Budget: 5_000_000}
	if r.Cfg.NFiles == 0 {
		j.Files = []FileIn{{Name: "<stdin>", Data: []byte(r.T.I.Docs[r.Order[0]])}}
	}
	for i := 0; i < r.Cfg.NFiles; i++ {
		data := []byte(r.T.I.Docs[r.Order[i]])
		name := c14FileName(&r.T.I, r.Order[i])
		if failAt == i+1 || (failAt > 0 && r.Cfg.Same) {
			j.IO = true
			j.Files = append(j.Files, FileIn{Name: "unreadable.d", Fault: "ioerr"})
			continue
		}
		j.Files = append(j.Files, FileIn{Name: name, Data: data})
	}
	return j
}

func c14Rep(r *c14Run) map[string]any {
	m := map[string]any{"config": r.Cfg, "args": r.Args, "program": r.Prog, "selectors": r.Sels,
		"input_set": r.T.I.Name, "inputs": r.T.I.Docs, "input_order": r.Order,
		"exit": r.Res.Exit, "stdout": string(r.Res.Stdout), "stderr": string(r.Res.Stderr), "signaled": r.Res.Signaled}
	if r.OutDoc != nil {
		m["out_file"] = string(r.OutDoc)
	}
	if r.Chan != "" {
		m["text_channel"] = r.Chan
		m["text_bytes"] = fmt.Sprintf("%q", r.Text)
	}
	if r.OutDir {
		m["out_file"] = "(a directory)"
	}
	if r.Stale {
		m["out_file_before_run"] = fmt.Sprintf("%d bytes of other content", len(c14StaleDoc))
	}
	return m
}

func checkC14(c *Ctx) {
	c.Assume("the exact exit code of a failure is not compared (the statement says non-zero); error messages are not compared, only stderr non-empty when the status is non-zero")
	c.Assume("stdout is not compared when the run fails before or instead of evaluating (missing / unreadable file, -o with several inputs): the statement only fixes status and diagnostic there")
	c.Assume("-o FILE after a failed run (failing program, a root without a JSON form, several inputs, unusable input or program file, FILE cannot be created): -o - prints no document then, so FILE must be as it was found (JqCli TouchedLate, FailureWritesNothing): not created, an earlier result (longer content) neither truncated nor rewritten, the input file (in place) intact; every -o FILE shape is run with FILE absent and with FILE holding an earlier result; -o FILE naming the input file (same string, ./ spelling, symbolic link, hard link) must behave as a FILE of its own: same stdout, the document in FILE")
	c.Assume("a -o FILE that cannot be created is a path in a directory that does not exist and a path that is a directory; one that is created but cannot be written is /dev/full (inconclusive where there is none); a directory without write permission is not used (no obstacle when running as root); what a regular file holds after a write that failed half way is not modelled; a failing write of -o - (stdout itself full or closed) is not exercised: the program's own output goes the same way and the library does not report it either")
	c.Assume("a program that exits before it would have read an unusable input: a missing / mode-000 file must still be refused (every input is opened before the program runs: JqCli OpensAll); stdout of such a refused run is not compared")
	c.Assume("stdin vs named file only for programs that do not print $file; -r E vs BEGINFILE { $ = E } only for one selector and programs that do not inspect $ in BEGINFILE/ENDFILE")
	c.Assume("file / selector order: output blocks are compared for programs whose output for (A, B) is the output for A followed by that for B (no BEGIN/END, no state carried over), on runs that succeed; selector order on inputs with one value per file")
	c.Assume("an unreadable input is a mode-000 file (inconclusive when running as root makes it readable) and a directory given as input file; the directory opens and fails on the first read, so it counts only if the run gets as far as reading it (oracle: the library with a reader failing at that position; an exit before that ends the run successfully)")
	c.Assume("texts: a text placed in the program, a selector, a file name or the input may make it malformed; then the binary must fail as the library does on the same text (error messages are not compared); NUL and / are not among the bytes (not expressible in an argument / a file name); selectors and file names that are not valid UTF-8 are skipped (the harness hands them to the library worker as JSON strings)")
	c.Assume("an inline program whose text begins with `-` is given after `--` (the command-line convention for such an argument)")
	c.Assume("raw output texts reach the program through a JSON string of the input: a text that is not valid UTF-8 is altered there, and then only the library's bytes are the oracle, not the model's literal bytes")
	c.Assume("-dbg-ast, -dbg-lex, -profile, -version are not exercised; stdin is always a pipe")
	pool := c.Pool()
	rng := rand.New(rand.NewSource(c.Seed*104729 + 5))

	// ---- the model's table
	table := map[string]map[string]*c14Vec{}
	c.TLC(TLCOpt{Module: "MC_Cli", Workers: 4, Heap: "2g",
		Cfg: cfgText("SPECIFICATION Spec", "INVARIANT CliTypeOK", "INVARIANT StatusIffOk", "INVARIANT DiagIffFail", "INVARIANT StdoutShape", "INVARIANT ByteOrder",
			"INVARIANT CallOrder", "INVARIANT OpenOrder", "INVARIANT OpensAll", "INVARIANT ReadsOriginal", "INVARIANT TouchedLate", "INVARIANT FailureWritesNothing", "INVARIANT OutFaultReported",
			"INVARIANT AgreesWithResult", "INVARIANT Laws", "INVARIANT Complete", "INVARIANT Vec"),
		OnVec: func(raw []byte) {
			v := &c14Vec{}
			VecDecode(raw, v)
			k := c14Key(v.Cfg)
			if table[k] == nil {
				table[k] = map[string]*c14Vec{}
			}
			table[k][v.Lib.Outcome+"/"+v.Lib.JSON] = v
		}})
	if len(table) != 1128 {
		infra("C14: expected 1128 command lines from MC_Cli (324 shapes; the wrapper's refusals x the stops of the program; -o naming the input; -o FILE holding an earlier result; -o FILE that cannot be created / written), got %d", len(table))
	}

	// ---- the pool of triples
	var triples []*c14Triple
	progs := append(append([]c14Prog{}, c14Progs...), c14LongProg(c.Thorough()))
	for pi := range progs {
		for ii := range c14Inputs {
			triples = append(triples, &c14Triple{P: progs[pi], I: c14Inputs[ii]})
		}
	}
	rng.Shuffle(len(triples), func(i, j int) { triples[i], triples[j] = triples[j], triples[i] })
	// every program and every input set at least once, first
	{
		seenP, seenI := map[string]bool{}, map[string]bool{}
		var first, rest []*c14Triple
		for _, t := range triples {
			if !seenP[t.P.Src] || !seenI[t.I.Name] {
				seenP[t.P.Src], seenI[t.I.Name] = true, true
				first = append(first, t)
			} else {
				rest = append(rest, t)
			}
		}
		triples = append(first, rest...)
	}
	nTriples, nFaultTriples := 40, 3
	if c.Thorough() {
		nTriples, nFaultTriples = len(triples), 12
	}
	if nTriples > len(triples) {
		nTriples = len(triples)
	}
	sel := triples[:nTriples]
	bounds := map[string]any{"command_line_shapes": 324, "command_lines": "1128: the 324 shapes; every -o FILE of its own also with an earlier result in it; -o FILE that cannot be created (no such directory, a directory) or written (/dev/full) x -f / inline x stdin / file x 0-2 selectors; each refusal of the wrapper (unusable input, -o with several inputs) x every stop of the program (never, BEGIN, first input, second input) x 2-3 programs holding the exit in a BEGINFILE / pattern / ENDFILE rule x 2 input sets; -o naming the one input file (same string, other spelling, symbolic link, hard link)",
		"triples": nTriples, "triples_for_fault_shapes": nFaultTriples, "triples_for_the_r_beginfile_shapes": len(triples),
		"programs": len(progs), "input_sets": len(c14Inputs)}
	// the programs that leave a root without a JSON form (it contains itself, it holds a regex) x every input set: run in
	// every shape that has a JSON step (-o - prints no document then, and -o FILE must stay as it was found)
	var jsonless []*c14Triple
	for _, t := range triples {
		if strings.Contains(t.P.Src, "$.me = $") || strings.Contains(t.P.Src, "$.pat = /x/") {
			jsonless = append(jsonless, t)
		}
	}
	withJsonless := func(ts []*c14Triple) []*c14Triple {
		out := append([]*c14Triple{}, ts...)
		for _, t := range jsonless {
			have := false
			for _, o := range ts {
				have = have || o == t
			}
			if !have {
				out = append(out, t)
			}
		}
		return out
	}
	selJSON := withJsonless(sel)
	nOutFault := 12
	if c.Thorough() {
		nOutFault = len(sel)
	}
	selOutFault := withJsonless(sel[:nOutFault])
	bounds["triples_for_shapes_with_a_json_step"] = len(selJSON)
	bounds["triples_for_o_file_fault_shapes"] = len(selOutFault)
	c.Set("bounds", bounds)

	// ---- plan the binary runs
	var keys []string
	for k := range table {
		keys = append(keys, k)
	}
	sort.Strings(keys)
	var runs []*c14Run
	add := func(r *c14Run) *c14Run { runs = append(runs, r); return r }
	selsOf := func(t *c14Triple, n int) []string { return append([]string{}, t.I.Sels[:n]...) }
	// the triples a shape is run with: a seeded selection for the product of shapes (a few for the fault shapes); EVERY
	// triple for the shapes of the -r E / BEGINFILE { $ = E } pair, whose verdict depends on program x input
	// (a selector that yields null, an array, a scalar; a program that counts rounds, repairs the root, ...)
	var stopInputs []c14Input
	for _, in := range c14Inputs {
		if in.Name == "objects" || in.Name == "arrays" {
			stopInputs = append(stopInputs, in)
		}
	}
	stopMemo := map[string][]*c14Triple{}
	stopTriples := func(stop string, nsel int) []*c14Triple {
		rounds := nsel
		if rounds == 0 {
			rounds = 1
		}
		key := fmt.Sprintf("%s/%d", stop, rounds)
		if stopMemo[key] == nil {
			for _, p := range c14StopProgs(stop, rounds) {
				for _, in := range stopInputs {
					stopMemo[key] = append(stopMemo[key], &c14Triple{P: p, I: in})
				}
			}
		}
		return stopMemo[key]
	}
	triplesOf := func(cfg c14Cfg) []*c14Triple {
		switch {
		case cfg.stops():
			return stopTriples(cfg.Stop, cfg.NSel)
		case cfg.faulty():
			return sel[:nFaultTriples]
		case cfg.ProgVia == "inline" && cfg.NFiles == 1 && cfg.NSel == 1 && cfg.Out != "path":
			return triples
		case cfg.outFault():
			return selOutFault
		case cfg.Out != "none":
			return selJSON
		}
		return sel
	}
	for _, k := range keys {
		var cfg c14Cfg
		json.Unmarshal([]byte(k), &cfg)
		for ti, t := range triplesOf(cfg) {
			base := fmt.Sprintf("%s|%d", k, ti)
			order := []int{0, 1}
			if cfg.Same {
				order = []int{0, 0}
			}
			add(&c14Run{Key: base, Cfg: cfg, T: t, Prog: t.P.Src, Sels: selsOf(t, cfg.NSel), Order: order})
			if cfg.BadAt > 0 && cfg.BadKind == "unreadable" {
				add(&c14Run{Key: base + "|dir", Cfg: cfg, T: t, Prog: t.P.Src, Sels: selsOf(t, cfg.NSel), Order: order, Dir: true})
			}
			if cfg.faulty() {
				continue
			}
			// -r E  vs  BEGINFILE { $ = E } prepended
			if cfg.NSel == 1 && !t.P.ReadsBF && !t.I.BadSel {
				c2 := cfg
				c2.NSel = 0
				add(&c14Run{Key: base + "|bf", Cfg: c2, T: t, Prog: "BEGINFILE { $ = " + t.I.Sels[0] + " }\n" + t.P.Src, Order: order})
			}
			// file order
			if cfg.NFiles == 2 && cfg.Out == "none" && cfg.ProgVia == "inline" && t.P.Stateless {
				c1 := cfg
				c1.NFiles, c1.Same = 1, false
				if cfg.Same {
					// the path named twice: its output block, twice
					add(&c14Run{Key: base + "|f0", Cfg: c1, T: t, Prog: t.P.Src, Sels: selsOf(t, cfg.NSel), Order: []int{0}})
					continue
				}
				add(&c14Run{Key: base + "|f0", Cfg: c1, T: t, Prog: t.P.Src, Sels: selsOf(t, cfg.NSel), Order: []int{0}})
				add(&c14Run{Key: base + "|f1", Cfg: c1, T: t, Prog: t.P.Src, Sels: selsOf(t, cfg.NSel), Order: []int{1}})
				add(&c14Run{Key: base + "|f10", Cfg: cfg, T: t, Prog: t.P.Src, Sels: selsOf(t, cfg.NSel), Order: []int{1, 0}})
			}
			// selector order
			if cfg.NSel == 2 && cfg.NFiles == 1 && cfg.Out == "none" && cfg.ProgVia == "inline" && t.P.Stateless && t.I.Single {
				c1 := cfg
				c1.NSel = 1
				add(&c14Run{Key: base + "|s0", Cfg: c1, T: t, Prog: t.P.Src, Sels: []string{t.I.Sels[0]}, Order: order})
				add(&c14Run{Key: base + "|s1", Cfg: c1, T: t, Prog: t.P.Src, Sels: []string{t.I.Sels[1]}, Order: order})
				add(&c14Run{Key: base + "|s10", Cfg: cfg, T: t, Prog: t.P.Src, Sels: []string{t.I.Sels[1], t.I.Sels[0]}, Order: order})
			}
		}
	}

	// ---- the texts: MC_CliBytes
	maxLen := 2
	if c.Thorough() {
		maxLen = 3
	}
	type c14TextKey struct{ ch, text string }
	textRows := map[string]map[string]*c14Vec{} // run key -> library result -> row
	textRuns := map[c14TextKey][]*c14Run{}
	var textOrder []c14TextKey
	nOpaque := 0
	c.TLC(TLCOpt{Module: "MC_CliBytes", Workers: 8, Heap: "4g",
		Cfg: cfgText("SPECIFICATION Spec", fmt.Sprintf("CONSTANT MaxLen = %d", maxLen), "INVARIANT CliTypeOK", "INVARIANT StatusIffOk", "INVARIANT DiagIffFail",
			"INVARIANT StdoutShape", "INVARIANT ByteOrder", "INVARIANT CallOrder", "INVARIANT OpenOrder", "INVARIANT OpensAll", "INVARIANT ReadsOriginal", "INVARIANT TouchedLate", "INVARIANT FailureWritesNothing", "INVARIANT Transparent", "INVARIANT AgreesWithResult",
			"INVARIANT Laws", "INVARIANT Complete", "INVARIANT Vec"),
		OnVec: func(raw []byte) {
			v := &struct {
				c14Vec
				Chan    string   `json:"chan"`
				Bytes   []string `json:"bytes"`
				LibText []string `json:"libtext"`
			}{}
			VecDecode(raw, v)
			text := c14Bytes(v.Bytes)
			if v.Evaluated && !bytes.Equal(c14Bytes(v.LibText), text) {
				nOpaque++ // the model itself says the library gets another text: cannot happen while Transparent holds
			}
			key := fmt.Sprintf("text|%s|%x|%s", v.Chan, text, c14Key(v.Cfg))
			if textRows[key] == nil {
				textRows[key] = map[string]*c14Vec{}
				tk := c14TextKey{v.Chan, string(text)}
				if textRuns[tk] == nil {
					textOrder = append(textOrder, tk)
				}
				order := []int{0, 1}
				if v.Cfg.Same {
					order = []int{0, 0}
				}
				textRuns[tk] = append(textRuns[tk], &c14Run{Key: key, Cfg: v.Cfg, Chan: v.Chan, Text: text, Order: order, Rows: textRows[key]})
			}
			row := v.c14Vec
			textRows[key][v.Lib.Outcome+"/"+v.Lib.JSON] = &row
		}})
	if nOpaque > 0 {
		infra("C14: MC_CliBytes emitted %d vectors in which the library is called with another text", nOpaque)
	}
	sort.Slice(textOrder, func(i, j int) bool {
		if textOrder[i].ch != textOrder[j].ch {
			return textOrder[i].ch < textOrder[j].ch
		}
		return textOrder[i].text < textOrder[j].text
	})
	bounds["texts"] = fmt.Sprintf("every sequence of <= %d units over 13 bytes (%% d CR LF TAB blank \" \\ C3 A9 , - <), on the channels that load bytes from a file or pipe also the byte-order marks EF BB BF / FE FF / FF FE as units, x 18 channels x the command-line shapes of the channel", maxLen)
	c.Set("bounds", bounds)
	nTextRuns := 0
	for _, tk := range textOrder {
		if (tk.ch == "sel" || tk.ch == "fname") && !utf8.ValidString(tk.text) {
			// selectors and file names reach the library worker as JSON strings, which cannot carry these bytes
			c.Count("texts_not_expressible_to_the_library_worker", 1)
			delete(textRuns, tk)
			continue
		}
		t := c14TextTriple(tk.ch, []byte(tk.text))
		rs := textRuns[tk]
		sort.Slice(rs, func(i, j int) bool { return rs[i].Key < rs[j].Key })
		for _, r := range rs {
			r.T, r.Prog, r.Sels = t, t.P.Src, selsOf(t, r.Cfg.NSel)
			add(r)
			nTextRuns++
		}
	}
	c.Count("text_runs", int64(nTextRuns))
	c.Count("texts", int64(len(textOrder)))

	// a -o FILE of its own is there beforehand, with longer content, where the model's command line says so
	// (MC_Cli: pre = "stale"); every other run of a text (MC_CliBytes: its vectors carry both expectations)
	nPath := 0
	for _, r := range runs {
		if r.Cfg.Out == "path" {
			if r.Rows == nil {
				r.Stale = r.Cfg.Pre == "stale"
			} else {
				r.Stale = nPath%2 == 0
				nPath++
			}
			if r.Stale {
				c.Count("o_file_preexisting_runs", 1)
			}
			if r.Cfg.outFault() {
				c.Count("o_file_fault_runs_"+r.Cfg.OFault, 1)
			}
		}
	}

	// ---- run the binary (16 at a time)
	base := c.TempDir("c14")
	var wg sync.WaitGroup
	sem := make(chan struct{}, 16)
	for i, r := range runs {
		wg.Add(1)
		sem <- struct{}{}
		go func(i int, r *c14Run) {
			defer wg.Done()
			defer func() { <-sem }()
			c14Exec(c, base, i, r)
		}(i, r)
	}
	wg.Wait()
	os.RemoveAll(base)
	byKey := map[string]*c14Run{}
	for _, r := range runs {
		byKey[r.Key] = r
	}

	// ---- the library on the same program, selectors and bytes (memoised)
	libMemo := map[string]*Result{}
	var libJobs []Job
	var libKeys []string
	libKeyOf := func(j *Job) string { b, _ := json.Marshal(j); return string(b) }
	want := func(j Job) {
		k := libKeyOf(&j)
		if _, ok := libMemo[k]; !ok {
			libMemo[k] = nil
			libJobs = append(libJobs, j)
			libKeys = append(libKeys, k)
		}
	}
	for _, r := range runs {
		if !r.Cfg.BadProg && (r.Cfg.BadAt == 0 || r.Dir) {
			at := 0
			if r.Dir {
				at = r.Cfg.BadAt
			}
			want(c14LibJob(r, at))
		}
	}
	pool.Map(libJobs, func(i int, res Result) {
		rr := res
		libMemo[libKeys[i]] = &rr
	})
	libOf := func(r *c14Run, at int) *Result { j := c14LibJob(r, at); return libMemo[libKeyOf(&j)] }
	libRow := func(l *Result) string {
		switch l.Class {
		case "ok":
			if l.JSErr == "" {
				return "ok/ok"
			}
			return "ok/err"
		case "syntax", "runtime", "json", "other":
			return "err/na"
		}
		return ""
	}

	// what the -o path must hold after the run, by the model's row (JqCli outfile): the document; or what it held
	// before: nothing, an earlier result, the input document (in place), a directory; "sink": a device, nothing to see
	outfileOK := func(r *c14Run, exp *c14Vec, lib *Result) bool {
		if r.Cfg.Out != "path" {
			return true
		}
		want := exp.Outfile
		if r.Rows != nil && r.Stale {
			want = exp.OutStale
		}
		if want != "json" {
			c.Count("o_file_compared_as_found_"+want, 1)
		}
		switch want {
		case "json":
			return lib != nil && r.OutDoc != nil && bytes.Equal(r.OutDoc, lib.JS)
		case "absent":
			return r.OutDoc == nil && !r.OutDir
		case "stale":
			return r.Stale && r.OutDoc != nil && bytes.Equal(r.OutDoc, c14StaleDoc)
		case "doc":
			return r.OutDoc != nil && bytes.Equal(r.OutDoc, []byte(r.T.I.Docs[r.Order[0]]))
		case "dir":
			return r.OutDir
		case "sink":
			return true
		}
		infra("C14: unknown outfile %q in the model's row for %s", want, r.Key)
		return false
	}

	// ---- compare every run with the model's row
	nSample := 0
	for _, r := range runs {
		rep := c14Rep(r)
		if r.Res.TimedOut {
			c.Count("inconclusive", 1)
			continue
		}
		if r.Skip != "" {
			c.Count("inconclusive_"+sanitize(r.Cfg.BadKind), 1)
			continue
		}
		if r.Res.Signaled || hasCrashMarks(r.Res.Stderr) {
			c.Violation("cli-crash", rep)
			continue
		}
		if r.Res.Exit != 0 && len(bytes.TrimSpace(r.Res.Stderr)) == 0 {
			c.Violation("cli-silent-failure", rep)
			continue
		}
		rows := table[c14Key(r.Cfg)]
		if r.Rows != nil {
			rows = r.Rows
		}
		var exp *c14Vec
		var lib *Result
		// A directory opens but cannot be read: the failure belongs to the evaluation and happens only
		// if the run gets as far as reading that input (an earlier exit ends the run successfully).
		// The oracle is the library with a reader that fails on its first read at that position.
		dirRun := r.Dir && !r.Cfg.BadProg
		if r.Cfg.faulty() && !dirRun {
			exp = rows["na/na"]
		} else {
			at := 0
			if dirRun {
				at = r.Cfg.BadAt
				k2 := r.Cfg
				k2.BadAt, k2.BadKind = 0, "none"
				rows = table[c14Key(k2)]
				if rows == nil {
					// the row does not depend on the stop (JqCli LawStop): the shape without a refusal has only the pool's
					k2.Stop = "pool"
					rows = table[c14Key(k2)]
				}
			}
			lib = libOf(r, at)
			row := libRow(lib)
			if row == "" {
				c.Count("inconclusive", 1) // the library itself crashed or ran out of budget: C01's business
				continue
			}
			exp = rows[row]
			c.Count("library_result_"+sanitize(row), 1)
			rep["library"] = map[string]any{"class": lib.Class, "stdout": string(lib.Stdout), "json": string(lib.JS), "json_err": lib.JSErr, "error": lib.ErrMsg}
			if dirRun {
				readFailed := false
				for _, e := range lib.Events {
					if e.E == "ReadRet" && e.S == "ioerr" {
						readFailed = true
					}
				}
				rep["unreadable_input_was_read"] = readFailed
				if readFailed {
					c.Count("unreadable_input_read", 1)
				} else {
					c.Count("unreadable_input_never_reached", 1)
				}
				if readFailed && row != "err/na" {
					// the library took the failed read for the end of the input: the statement wants non-zero + diagnostic
					if r.Res.Exit == 0 {
						if c.OpenDev("unreadable-dir-ignored") {
							c.Known("unreadable-dir-ignored", "an input file that opens but cannot be read (a directory) is treated as an empty file: exit status 0, no diagnostic (cause: C03 more-swallows-error)")
							c.Case(r.Key, true)
						} else {
							c.Violation("cli-status", rep)
						}
					} else {
						c.Case(r.Key, true)
					}
					continue
				}
			}
		}
		if exp == nil {
			infra("C14: no model row for %s", c14Key(r.Cfg))
		}
		rep["expected"] = exp
		if exp.Status0 != (r.Res.Exit == 0) {
			c.Violation("cli-status", rep)
			continue
		}
		if !exp.Status0 && !outfileOK(r, exp, lib) {
			// a failed run wrote to / created / truncated the -o path
			c.Violation("cli-outfile-after-failure", rep)
			continue
		}
		if !exp.Evaluated || (r.Cfg.Out != "none" && r.Cfg.NFiles > 1) {
			c.Case(r.Key, true)
			continue
		}
		var wantOut []byte
		for _, tok := range exp.Stdout {
			switch tok {
			case "lib":
				wantOut = append(wantOut, lib.Stdout...)
			case "json":
				wantOut = append(wantOut, lib.JS...)
			}
		}
		if r.Chan != "" {
			// the model's byte stream: literal bytes where the text is what the program writes
			var lit, stream []byte
			for _, tok := range exp.Stream {
				switch tok {
				case "<lib>":
					stream = append(stream, lib.Stdout...)
				case "<json>":
					stream = append(stream, lib.JS...)
				default:
					b := c14Bytes([]string{tok})
					lit, stream = append(lit, b...), append(stream, b...)
				}
			}
			if c14RawOut[r.Chan] {
				// the pool program writes one complete line before the text
				stream = append([]byte("line\n"), stream...)
				if bytes.Equal(append([]byte("line\n"), lit...), lib.Stdout) {
					c.Count("raw_output_texts_reproduced_by_the_library", 1)
				} else {
					// a text that is not valid UTF-8 does not survive the JSON input: the library's bytes decide
					c.Count("raw_output_texts_altered_by_the_json_input", 1)
					stream = wantOut
				}
			}
			if !bytes.Equal(stream, wantOut) {
				infra("C14: the model's byte stream and its token sequence disagree for %s", r.Key)
			}
		}
		if !bytes.Equal(wantOut, r.Res.Stdout) {
			c.Violation("cli-stdout", rep)
			continue
		}
		if exp.Status0 && !outfileOK(r, exp, lib) {
			c.Violation("cli-outfile", rep)
			continue
		}
		c.Case(r.Key, true)
		nSample++
		if nSample%1500 == 11 {
			c.Sample(map[string]any{"args": r.Args, "program": r.Prog, "inputs": r.T.I.Docs, "library_class": lib.Class, "exit": r.Res.Exit, "stdout": string(r.Res.Stdout)})
		}
	}

	// ---- differential pairs between binary runs
	conclusive := func(r *c14Run) bool { return r != nil && !r.Res.TimedOut && r.Skip == "" }
	same := func(name string, a, b *c14Run, withOut bool) {
		if !conclusive(a) || !conclusive(b) || a.T != b.T {
			return
		}
		ok := (a.Res.Exit == 0) == (b.Res.Exit == 0) && bytes.Equal(a.Res.Stdout, b.Res.Stdout)
		if ok && withOut && a.Res.Exit == 0 {
			ok = (a.OutDoc == nil) == (b.OutDoc == nil) && bytes.Equal(a.OutDoc, b.OutDoc)
		}
		c.Count("pairs_"+name, 1)
		if !ok {
			c.Violation("cli-pair-"+name, map[string]any{"pair": name, "a": c14Rep(a), "b": c14Rep(b)})
		}
	}
	concat := func(name string, ab, a, b *c14Run) {
		if !conclusive(ab) || !conclusive(a) || !conclusive(b) || a.Res.Exit != 0 || b.Res.Exit != 0 {
			return
		}
		c.Count("pairs_"+name, 1)
		if ab.Res.Exit != 0 || !bytes.Equal(ab.Res.Stdout, append(append([]byte{}, a.Res.Stdout...), b.Res.Stdout...)) {
			c.Violation("cli-order-"+name, map[string]any{"order": name, "both": c14Rep(ab), "first": c14Rep(a), "second": c14Rep(b)})
		}
	}
	for _, k := range keys {
		var cfg c14Cfg
		json.Unmarshal([]byte(k), &cfg)
		if cfg.faulty() {
			continue
		}
		for ti, t := range triplesOf(cfg) {
			r := byKey[fmt.Sprintf("%s|%d", k, ti)]
			base := r.Key
			// -f vs inline
			if cfg.ProgVia == "file" {
				c2 := cfg
				c2.ProgVia = "inline"
				same("f-inline", r, byKey[fmt.Sprintf("%s|%d", c14Key(c2), ti)], true)
			}
			// stdin vs one named file
			if cfg.NFiles == 0 && !t.P.UsesFile {
				c2 := cfg
				c2.NFiles = 1
				same("stdin-file", r, byKey[fmt.Sprintf("%s|%d", c14Key(c2), ti)], true)
			}
			// -o FILE holds what -o - appends
			if cfg.Out == "path" {
				c2 := cfg
				c2.Out, c2.Pre, c2.OFault = "dash", "absent", "none"
				if cfg.inPlace() {
					c2.Alias = "none"
					c.Count("pairs_o-in-place-dash", 1)
				}
				d := byKey[fmt.Sprintf("%s|%d", c14Key(c2), ti)]
				if d != nil && d.T != r.T {
					d = nil
				}
				if conclusive(r) && conclusive(d) && r.Res.Exit == 0 && d.Res.Exit == 0 {
					c.Count("pairs_o-path-dash", 1)
					if r.OutDoc == nil || !bytes.Equal(d.Res.Stdout, append(append([]byte{}, r.Res.Stdout...), r.OutDoc...)) {
						c.Violation("cli-pair-o-path-dash", map[string]any{"path": c14Rep(r), "dash": c14Rep(d)})
					}
				}
				// on the error path: -o - printed nothing after the program's output, and so did the -o FILE run
				if conclusive(r) && conclusive(d) && r.Res.Exit != 0 && d.Res.Exit != 0 && cfg.NFiles <= 1 {
					c.Count("pairs_o-path-dash-failed", 1)
					if !bytes.Equal(d.Res.Stdout, r.Res.Stdout) {
						c.Violation("cli-pair-o-path-dash-failed", map[string]any{"path": c14Rep(r), "dash": c14Rep(d)})
					}
				}
			}
			if bf := byKey[base+"|bf"]; bf != nil {
				same("r-beginfile", r, bf, true)
			}
			if f0 := byKey[base+"|f0"]; f0 != nil && cfg.Same {
				concat("files-00", r, f0, f0)
			} else if f0 != nil {
				f1, f10 := byKey[base+"|f1"], byKey[base+"|f10"]
				concat("files-01", r, f0, f1)
				concat("files-10", f10, f1, f0)
			}
			if s0 := byKey[base+"|s0"]; s0 != nil {
				s1, s10 := byKey[base+"|s1"], byKey[base+"|s10"]
				concat("selectors-01", r, s0, s1)
				concat("selectors-10", s10, s1, s0)
			}
		}
	}

	// the same text in the shapes of its channel: -f vs inline, stdin vs file, -o FILE vs -o -
	for _, tk := range textOrder {
		rs := textRuns[tk]
		find := func(k c14Cfg) *c14Run {
			for _, r := range rs {
				if r.Cfg == k {
					return r
				}
			}
			return nil
		}
		for _, r := range rs {
			if r.Cfg.ProgVia == "file" {
				k2 := r.Cfg
				k2.ProgVia = "inline"
				if o := find(k2); o != nil {
					same("text-f-inline", r, o, true)
				}
			}
			if r.Cfg.NFiles == 0 && !r.T.P.UsesFile {
				k2 := r.Cfg
				k2.NFiles = 1
				if o := find(k2); o != nil {
					same("text-stdin-file", r, o, true)
				}
			}
			if r.Cfg.Out == "path" {
				k2 := r.Cfg
				k2.Out = "dash"
				if d := find(k2); d != nil && conclusive(r) && conclusive(d) && r.Res.Exit == 0 && d.Res.Exit == 0 {
					c.Count("pairs_text-o-path-dash", 1)
					if r.OutDoc == nil || !bytes.Equal(d.Res.Stdout, append(append([]byte{}, r.Res.Stdout...), r.OutDoc...)) {
						c.Violation("cli-pair-text-o-path-dash", map[string]any{"path": c14Rep(r), "dash": c14Rep(d)})
					}
				}
			}
		}
	}

	c.Count("binary_runs", int64(len(runs)))
	c.Count("library_runs", int64(len(libJobs)))
	c.Set("exhaustive", true)
	c.Set("rule", "one case per (command-line shape, triple, variant) run on the binary and compared with the model's row for the library's result on the same program, selectors and bytes; all are non-trivial; distinct by (shape, triple, variant)")
	c.Set("checker_cmd", "tlc MC_Cli (816 command lines: 324 shapes, refusals x stops of the program, -o naming the input; x 3 library results) -> out/bin/jqawk vs lang.EvalProgram + GetRootJson")
}
