package main

import (
	"encoding/json"
	"fmt"
	"strings"
	"time"
)

// ---------------------------------------------------------------------------
// C19, a case block left by a control signal (spec/MC_MatchExit.tla on the JqCore
// machine): "the bindings are visible in that case's body" - and nowhere else,
// however the body is left.  TLC enumerates the programs (where the match sits x
// the loop around it x the site of the signal in the case block x the signal x the
// pattern x the statement holding the match x the round), runs each on the model
// machine, checks the laws in every state and emits (program, printed lines,
// outcome); here every program is rendered, run on the real code and compared line
// by line, with the frame events.

type c19xVec struct {
	Par     map[string]any  `json:"par"`
	Prog    json.RawMessage `json:"prog"`
	Out     []string        `json:"out"`
	Outcome string          `json:"outcome"`
	Steps   int             `json:"steps"`
}

func c19Exit(c *Ctx, pool *Pool) {
	c.Assume("MC_MatchExit: the programs stay inside the core JqCore defines (integers, strings, arrays by reference, frames, loops, calls, rules); what next / exit do in BEGIN and in a rule, and by-value binding, are JqCore's (C07 / C02 / C08 own them); the family only adds that the binding scope of a case ends with its body on every way out")
	c.Assume("MC_MatchExit: after `exit` nothing more is printed, so a scope left behind there is seen only in the frame events (pushes = pops, final depth 0), which are compared for every run of the family")

	type meta struct {
		v     *c19xVec
		prog  string
		input string
	}
	metas := map[int]*meta{}
	nextID := 0
	var nRuns, nExited, nModelExits, nSkip int
	perSig := map[string]int{}
	perSite := map[string]int{}
	perWhere := map[string]int{}
	nSample := 0
	var st *Stream
	st = pool.NewStream(func(j *Job, r Result) {
		m := metas[j.N]
		delete(metas, j.N)
		if r.Class == "budget" || r.Class == "timeout" {
			nSkip++
			return
		}
		want := strings.Join(m.v.Out, "\n")
		if len(m.v.Out) > 0 {
			want += "\n"
		}
		rep := func(why string) map[string]any {
			return map[string]any{"program": m.prog, "input": m.input, "family": m.v.Par, "expected_stdout": want, "expected_outcome": m.v.Outcome,
				"got_class": r.Class, "got_stdout": string(r.Stdout), "got_msg": r.ErrMsg, "detail": r.Detail, "final_depth": r.Depth, "why": why,
				"note": "lines starting with in / stay / inner / q are printed inside a case body and show what the pattern bound; lines starting with G (root) and F (inside the function F(p, tag)) are printed outside every case body and show the program's variables n tag e (presets gn gt ge; tag = arg inside F) and whether t2 - bound only by the nested match - is unknown; expectation: the JqCore machine run by TLC (MC_MatchExit)"}
		}
		// per the model: was the signal raised in a case body (fewer "stay" than "in" lines; the direct site always)?
		exited := true
		if site, _ := m.v.Par["site"].(string); site != "direct" {
			exited = strings.Count("\n"+want, "\nin ") != strings.Count("\n"+want, "\nstay ")
		}
		if exited {
			nModelExits++
		}
		if r.Class == "crash" || r.Class == "panic" {
			c.Violation("match-exit-crash", rep("the run died"))
			return
		}
		got := string(r.Stdout)
		if r.Class != m.v.Outcome || got != want {
			// name the first differing line
			gl := strings.Split(got, "\n")
			why := fmt.Sprintf("class %s, expected %s", r.Class, m.v.Outcome)
			for i, w := range m.v.Out {
				if i >= len(gl) || gl[i] != w {
					g := "<end of output>"
					if i < len(gl) {
						g = gl[i]
					}
					why = fmt.Sprintf("line %d: expected %q, got %q (class %s)", i+1, w, g, r.Class)
					break
				}
			}
			c.Violation("match-exit-scope", rep(why))
			return
		}
		push, pop := 0, 0
		for _, e := range r.Events {
			switch e.E {
			case "Push":
				if e.A != 0 {
					push++
				}
			case "Pop":
				pop++
			}
		}
		if push != pop || r.Depth != 0 {
			c.Violation("match-exit-frames", rep(fmt.Sprintf("pushes=%d pops=%d final depth=%d: a frame pushed for a case body (or a call) was not popped on the way out", push, pop, r.Depth)))
			return
		}
		nRuns++
		if exited {
			nExited++
		}
		perSig[fmt.Sprint(m.v.Par["sig"])]++
		perSite[fmt.Sprint(m.v.Par["site"])]++
		perWhere[fmt.Sprint(m.v.Par["where"])+"/"+fmt.Sprint(m.v.Par["loop"])]++
		c.Case("exit:"+m.prog, exited)
		if nSample < 2 && exited && m.v.Par["site"] == "nested" && m.v.Par["where"] == "fn" {
			nSample++
			c.Sample(map[string]any{"family": m.v.Par, "program": m.prog, "stdout": got})
		}
	})

	onVec := func(raw []byte) {
		v := &c19xVec{}
		VecDecode(raw, v)
		p := decodeNode(v.Prog)
		m := &meta{v: v, prog: coreProgramText(p), input: coreInput(p)}
		st.mu.Lock()
		id := nextID
		nextID++
		metas[id] = m
		st.mu.Unlock()
		st.Submit(Job{Kind: "run", Prog: []byte(m.prog), Files: []FileIn{{Name: "in.json", Data: []byte(m.input)}}, Events: true, Budget: 300000, N: id})
	}

	t0 := time.Now()
	big, workers := "FALSE", 6
	if c.Thorough() {
		big, workers = "TRUE", 12
	}
	slice := int(((c.Seed % 8) + 8) % 8)
	c.TLC(TLCOpt{Module: "MC_MatchExit",
		Cfg: cfgText("INIT Init", "NEXT Next", "CONSTANTS", "Big = "+big, fmt.Sprintf("Slice = %d", slice), "CoreCallLimit = 4096", "CoreFuel = 12000",
			"INVARIANT CoreTypeOK", "INVARIANT CoreDepthMirrorsCalls", "INVARIANT CoreEndsClean", "INVARIANT Laws", "INVARIANT Vec", "CHECK_DEADLOCK FALSE"),
		OnVec: onVec, Workers: workers, Heap: "4g"})
	tTLC := time.Since(t0)
	st.Wait()
	c.Set("exit_wall_tlc_then_total", fmt.Sprintf("%.1fs %.1fs", tTLC.Seconds(), time.Since(t0).Seconds()))
	c.Set("exit_rule", "TLC (MC_MatchExit, a transition system over the JqCore machine) enumerates programs: the match in BEGIN / in F called from BEGIN / in a rule / in F called from a rule x no loop, for-in, while, three-clause for around it "+
		"x the signal raised directly in the case block, under an if, in the case block of a nested match, in a loop inside the case block x break, continue, next, exit, return value, bare return "+
		"x patterns [n, tag] / e / an earlier failing case x the match as statement, assigned, print argument x the round (1..3) in which the signal is raised "+
		"(quick: one statement kind per program, rounds 1 and 2, one eighth of the family chosen by the seed - every slice holds every pair of dimension values; thorough: the full product); "+
		"laws in every state: as many binding frames as case bodies under evaluation, presets and parameters never overwritten, t2 set in binding frames only; final: every line printed inside a body shows the bound values, every line outside the program's variables; "+
		"one real run per program: stdout equal line by line, outcome, pushes = pops, final depth 0; non-trivial = the signal was raised in a case body")
	c.Set("exit_programs", nRuns)
	c.Set("exit_programs_leaving_a_case_body_by_signal", nExited)
	c.Set("exit_programs_per_signal", perSig)
	c.Set("exit_programs_per_site", perSite)
	c.Set("exit_programs_per_place", perWhere)
	c.Set("exit_inconclusive", nSkip)
	if nModelExits == 0 {
		infra("C19: MC_MatchExit: no program left a case body by a signal")
	}
}
