package main

import (
	"encoding/json"
	"fmt"
	"math/rand"
	"os"
	"path/filepath"
	"regexp"
	"strconv"
	"strings"
	"time"
)

// randomCase is one generated (program, selectors, inputs) stimulus.
type randomCase struct {
	Kind  string   // grammatical | mutated | bytes
	Prog  string   `json:"prog"`
	Sels  []string `json:"sels"`
	Files []string `json:"files"`
}

func genRandomCase(r *rand.Rand, i int) randomCase {
	g := &gen{r: r, strict: r.Intn(4) != 0}
	var rc randomCase
	switch {
	case i%10 < 6:
		rc.Kind = "grammatical"
		rc.Prog = g.program()
	case i%10 < 9:
		rc.Kind = "mutated"
		rc.Prog = g.mutate(g.program())
	default:
		rc.Kind = "bytes"
		max := 60
		if i%100 == 9 {
			max = 65536
		}
		rc.Prog = g.randomBytes(max)
	}
	if r.Intn(3) == 0 {
		n := 1 + r.Intn(2)
		for k := 0; k < n; k++ {
			rc.Sels = append(rc.Sels, g.selector())
		}
	}
	nf := 1
	if r.Intn(5) == 0 {
		nf = r.Intn(3)
	}
	for k := 0; k < nf; k++ {
		rc.Files = append(rc.Files, g.input())
	}
	return rc
}

func (rc randomCase) job(events bool) Job {
	j := Job{Kind: "run", Prog: []byte(rc.Prog), Sels: rc.Sels, Events: events, Fuzzing: true, Budget: 300000}
	for k, f := range rc.Files {
		j.Files = append(j.Files, FileIn{Name: fmt.Sprintf("f%d.json", k), Data: []byte(f)})
	}
	return j
}

// protoTrace renders the recorded events of one run as ndjson lines for Trace_Proto.
func protoTrace(r Result) []string {
	lines := make([]string, 0, len(r.Events)+2)
	add := func(e, s string, a, b int) {
		b1, _ := json.Marshal(map[string]any{"e": e, "s": s, "a": a, "b": b})
		lines = append(lines, string(b1))
	}
	add("Start", "", 0, 0)
	for _, ev := range r.Events {
		add(ev.E, ev.S, ev.A, ev.B)
	}
	parses := 0
	if r.Parses {
		parses = 1
	}
	add("Outcome", r.Class, r.Depth, parses)
	return lines
}

var reMatched = regexp.MustCompile(`"MATCHED", (\d+), (\d+)`)

// validateProtoTraces validates the concatenated traces with TLC (Trace_Proto).
// It returns the indices of the runs whose trace was rejected.
func validateProtoTraces(c *Ctx, traces [][]string) []int {
	var rejected []int
	alive := make([]int, len(traces))
	for i := range alive {
		alive[i] = i
	}
	for round := 0; round < 12 && len(alive) > 0; round++ {
		var sb strings.Builder
		starts := make([]int, 0, len(alive)) // line number (1-based) of each run's Start
		total := 0
		for _, idx := range alive {
			starts = append(starts, total+1)
			for _, l := range traces[idx] {
				sb.WriteString(l)
				sb.WriteByte('\n')
			}
			total += len(traces[idx])
		}
		res := c.TLC(TLCOpt{Module: "Trace_Proto", Workers: 1, AllowErr: true, Heap: "8g",
			Cfg:   cfgText("SPECIFICATION TSpec", "POSTCONDITION TraceAccepted", "CHECK_DEADLOCK FALSE"),
			Files: map[string]string{"trace.ndjson": sb.String()}})
		matched, length := -1, -1
		for _, l := range res.Output {
			if m := reMatched.FindStringSubmatch(l); m != nil {
				matched, _ = strconv.Atoi(m[1])
				length, _ = strconv.Atoi(m[2])
			}
		}
		if matched < 0 || length != total {
			infra("Trace_Proto: cannot read the acceptance line (matched=%d len=%d total=%d):\n%s", matched, length, total, strings.Join(res.Output, "\n"))
		}
		c.Count("trace_events_validated", int64(matched))
		if matched == total {
			return rejected
		}
		// the run that contains line matched+1 is rejected; drop it and validate the rest
		bad := 0
		for k := range starts {
			if starts[k] <= matched+1 {
				bad = k
			}
		}
		rejected = append(rejected, alive[bad])
		alive = append(alive[:bad], alive[bad+1:]...)
	}
	return rejected
}

// checkC01Random: binding B of C01 (also feeds C11/C12 consistency in their own checks).
func checkC01Random(c *Ctx) {
	pool := c.Pool()
	n := 6000
	nbin := 150
	if c.Thorough() {
		n = 120000
		nbin = 2000
	}
	rng := rand.New(rand.NewSource(c.Seed*7919 + 13))
	cases := make([]randomCase, n)
	jobs := make([]Job, n)
	// the first cases are the corpus of hand-written programs and of the repository's own test
	// programs (the executions the repository's tests already perform, now with every step of the
	// protocol checked); the rest is generated
	corpus := c13Corpus()
	for i := range cases {
		if i < len(corpus) {
			cases[i] = randomCase{Kind: "corpus " + corpus[i].Name, Prog: corpus[i].Prog, Files: corpus[i].Files}
		} else {
			cases[i] = genRandomCase(rng, i)
		}
		jobs[i] = cases[i].job(true)
	}
	traces := make([][]string, 0, n)
	traceCase := make([]int, 0, n)
	classes := map[string]int{}
	slow := make([]bool, n)
	errClass := make([]string, n)
	nsample := 0
	pool.Map(jobs, func(i int, r Result) {
		classes[r.Class]++
		errClass[i] = r.Class
		slow[i] = r.Class == "budget" || r.Class == "timeout" || strings.Contains(r.ErrMsg, "fuzz test loop limit")
		rep := func(why string) map[string]any {
			return map[string]any{"kind": cases[i].Kind, "program": cases[i].Prog, "program_bytes": []byte(cases[i].Prog), "selectors": cases[i].Sels, "inputs": cases[i].Files,
				"got_class": r.Class, "got_err_type": r.ErrType, "got_err": r.ErrMsg, "detail": r.Detail, "why": why}
		}
		switch r.Class {
		case "budget", "timeout":
			c.Count("inconclusive", 1)
			return
		case "crash":
			c.Violation("random-crash", rep("the interpreter process died: "+r.ErrType))
			return
		}
		// every other run is validated by TLC against JqProto (which has no action for a panic / a foreign error)
		if len(r.Events) < 3000 {
			traces = append(traces, protoTrace(r))
			traceCase = append(traceCase, i)
		} else if r.Class == "panic" || r.Class == "other" {
			c.Violation("random-escape", rep("outcome "+r.Class))
			return
		}
		c.Case("rnd:"+cases[i].Prog+"|"+strings.Join(cases[i].Sels, "|")+"|"+strings.Join(cases[i].Files, "|"), r.Class != "syntax" || len(cases[i].Prog) > 0)
		nsample++
		if nsample%2500 == 1 {
			c.Sample(map[string]any{"family": "random " + cases[i].Kind, "program": cases[i].Prog, "selectors": cases[i].Sels, "inputs": cases[i].Files, "class": r.Class})
		}
	})
	for _, batch := range batches(len(traces), 4000) {
		rej := validateProtoTraces(c, traces[batch[0]:batch[1]])
		for _, k := range rej {
			i := traceCase[batch[0]+k]
			// reproduce in isolation before reporting
			r2 := pool.Do(&jobs[i])
			t2 := protoTrace(r2)
			if len(validateProtoTraces(c, [][]string{t2})) == 0 {
				infra("a rejected trace did not reproduce (case %d)", i)
			}
			c.Violation("random-trace-rejected", map[string]any{"kind": cases[i].Kind, "program": cases[i].Prog, "program_bytes": []byte(cases[i].Prog),
				"selectors": cases[i].Sels, "inputs": cases[i].Files, "got_class": r2.Class, "got_err_type": r2.ErrType, "got_err": r2.ErrMsg, "detail": r2.Detail,
				"trace": t2, "why": "the recorded execution is not a behaviour of JqProto (frame/signal/rule protocol, legal outcome)"})
		}
		c.Count("traces_validated_against_impl", int64(batch[1]-batch[0]-len(rej)))
	}
	c.Set("random_outcome_classes", classes)

	// the binary on a sample
	dir := c.TempDir("rndbin")
	// prefer the runs that ended in an error (their diagnostics are what can go wrong), then the rest
	var binIdx []int
	for i := range cases {
		if !slow[i] && (errClass[i] == "syntax" || errClass[i] == "runtime" || errClass[i] == "json") && len(cases[i].Prog) < 4000 {
			binIdx = append(binIdx, i)
		}
	}
	if len(binIdx) > nbin*8 {
		binIdx = binIdx[:nbin*8]
	}
	for k := 0; k < nbin; k++ {
		binIdx = append(binIdx, (k*37)%n)
	}
	parallelDo(len(binIdx), 16, func(k int) {
		i := binIdx[k]
		if slow[i] {
			return
		}
		rc := cases[i]
		sub := filepath.Join(dir, strconv.Itoa(k))
		os.MkdirAll(sub, 0o755)
		args := []string{}
		for _, s := range rc.Sels {
			args = append(args, "-r", s)
		}
		os.WriteFile(filepath.Join(sub, "prog.jqawk"), []byte(rc.Prog), 0o644)
		args = append(args, "-f", "prog.jqawk")
		var stdin []byte
		if len(rc.Files) == 1 && k%2 == 0 {
			stdin = []byte(rc.Files[0])
		} else {
			for fi, f := range rc.Files {
				name := fmt.Sprintf("f%d.json", fi)
				os.WriteFile(filepath.Join(sub, name), []byte(f), 0o644)
				args = append(args, name)
			}
			if len(rc.Files) == 0 {
				stdin = []byte{}
			}
		}
		if k%5 == 0 {
			args = append([]string{"-o", "-"}, args...)
		}
		br := c.RunBin(args, stdin, sub, 10e9)
		if br.TimedOut {
			c.Count("inconclusive", 1)
			return
		}
		if why := binaryVerdict(br); why != "" {
			c.Violation("random-binary", map[string]any{"program": rc.Prog, "args": args, "inputs": rc.Files, "exit": br.Exit, "stderr": string(br.Stderr), "why": why})
			return
		}
		c.Case("rndbin:"+strconv.Itoa(i), true)
	})
}

func batches(n, size int) [][2]int {
	var out [][2]int
	for lo := 0; lo < n; lo += size {
		hi := lo + size
		if hi > n {
			hi = n
		}
		out = append(out, [2]int{lo, hi})
	}
	return out
}

// ---------------------------------------------------------------------------
// Crash sweep: every method and builtin x a pool of receivers of every kind and
// shape x a pool of argument lists.  The only claim is C01's: success or a
// runtime error, never a panic / crash / foreign error.  (What the methods
// compute is C15's and C16's business.)

var sweepReceivers = []string{
	`[]`, `[1]`, `["a"]`, `[1, "a"]`, `["a", 1]`, `[null, 1]`, `[1, null]`, `[[1], 2]`, `[2, [1]]`, `[{}, 1]`, `[true, 2]`, `["b", 1, "a"]`, `[1, 2, "x", 3]`,
	`[3, 1, 2]`, `[[2], [1]]`, `[{a: 1}, {a: 0}]`, `[/a/, 1]`, `[fnv, 1]`, `[null, null]`, `[1, unsetv]`,
	`{}`, `{a: 1}`, `{a: 1, b: [1]}`, `{length: 1}`, `""`, `"abc"`, `"a,b,,c"`, `"héé"`, `" "`, `0`, `1`, `(0 - 1)`, `2.5`, `(0 - 2.5)`, `100000000000000000000`,
	`true`, `false`, `null`, `unsetv`, `/a/`, `fnv`, `$`, `$[0]`, `$.a`, `[1][0]`, `{a: [2, "x", 1]}.a`,
}

var sweepMethods = []string{"length", "push", "pop", "popfirst", "contains", "sort", "split", "upper", "lower", "floor", "ceil", "round", "pluck", "nosuch"}

var sweepArgs = []string{``, `1`, `"a"`, `","`, `""`, `null`, `[1]`, `{}`, `1, 2`, `"a", "b", "c"`, `unsetv`, `fnv`, `/a/`, `[]`, `(0 - 1)`}

func checkC01Sweep(c *Ctx) {
	pool := c.Pool()
	var jobs []Job
	mk := func(stmt string) {
		prog := "function fnv(a) {\n  return a\n}\nBEGIN {\n  r = " + stmt + "\n  print r\n}\n{\n  r = " + stmt + "\n  print r\n}\n"
		jobs = append(jobs, Job{Kind: "run", Prog: []byte(prog), Files: []FileIn{{Name: "in.json", Data: []byte(`[[3,"b",1],{"a":["x",2]}]`)}}, Budget: 100000, Tag: stmt})
	}
	for _, rv := range sweepReceivers {
		for _, m := range sweepMethods {
			for _, a := range sweepArgs {
				mk("(" + rv + ")." + m + "(" + a + ")")
			}
		}
		for _, b := range []string{"json", "num", "printf"} {
			mk(b + "(" + rv + ")")
			mk(b + "(\"%s %v\", " + rv + ")")
		}
		for _, a := range sweepArgs {
			mk("(" + rv + ")(" + a + ")")
		}
		// the argument list re-assigns the receiver (it is bound before the arguments are evaluated)
		for _, m := range sweepMethods {
			for _, other := range []string{"5", `"s"`, "[1]", "{}", "null"} {
				mk("sv = " + rv + "\n  r = sv." + m + "(sv = " + other + ")")
				mk("sa = [" + rv + "]\n  r = sa[0]." + m + "(sa[0] = " + other + ")")
			}
		}
	}
	pool.Map(jobs, func(i int, r Result) {
		switch r.Class {
		case "ok", "runtime":
			c.Case("sweep:"+jobs[i].Tag, true)
		case "budget", "timeout":
			c.Count("inconclusive", 1)
		default:
			c.Violation("sweep-"+r.Class, map[string]any{"statement": jobs[i].Tag, "program": string(jobs[i].Prog), "got_class": r.Class, "got_err_type": r.ErrType,
				"got_err": r.ErrMsg, "detail": r.Detail, "why": "a method / builtin / call on this receiver and argument list must succeed or fail with a runtime error"})
		}
	})
	c.Sample(map[string]any{"family": "crash sweep", "statement": jobs[len(jobs)/3].Tag})
}

// Programs whose error sits at an awkward position (end of line, end of input,
// inside a multi-byte character, empty program text): through the binary.
var awkwardPrograms = []string{
	"{ print '\n}", "{ print \"\n}", "{ x = \"\nabc\\q\" }", "{ print '", "'", "\"", "{", "{ print 1 +", "{ print 1 +\n", "BEGIN {\n  x = 1 /\n", "\n\n@", "@\n", "{ print \xc3\xa9 }", "{ x\xc3\xa9 = 1 }",
	"{ print 'a\\", "{ print 'a\\'\n }", "BEGIN { print 1 / 0\n}", "BEGIN {\nprint $nope }", "BEGIN { x = [1]\nprint x[0 - 5]\n}", "", "\n", "#", "# only a comment\n", "BEGIN { print /abc\n}", "BEGIN { print /abc",
	"function", "function f", "function f(", "function f(a,", "BEGIN { f( }", "{ match (1) { 1 => } }", "{ for (", "{ for (x in", "{ if (1) print 1 else", "{ x = {a: } }", "{ x = [1, }",
}

func checkC01Awkward(c *Ctx) {
	dir := c.TempDir("awk")
	os.WriteFile(filepath.Join(dir, "in.json"), []byte(`[1,{"a":2}]`), 0o644)
	type one struct {
		args []string
	}
	var cases []one
	for i, p := range awkwardPrograms {
		cases = append(cases, one{[]string{p, "in.json"}})
		fn := filepath.Join(dir, fmt.Sprintf("p%d.jqawk", i))
		os.WriteFile(fn, []byte(p), 0o644)
		cases = append(cases, one{[]string{"-f", fn, "in.json"}})
		cases = append(cases, one{[]string{"-r", p, "{ print }", "in.json"}})
	}
	parallelDo(len(cases), 16, func(i int) {
		br := c.RunBin(cases[i].args, nil, dir, 0)
		if br.TimedOut {
			c.Count("inconclusive", 1)
			return
		}
		if why := binaryVerdict(br); why != "" {
			c.Violation("awkward-binary", map[string]any{"args": cases[i].args, "exit": br.Exit, "stderr": firstN(string(br.Stderr), 1500), "why": why})
			return
		}
		c.Case("awk:"+strings.Join(cases[i].args, " "), true)
	})
}

// Deep nesting times deep recursion: the call depth limit bounds the number of active calls, not the
// nesting inside each of them, and a program text of at most 64 KiB can nest tens of thousands of
// operators, literals, blocks or loops around a recursive call. Every such run must end with a
// reported error (or complete), never with a Go stack overflow.
type nestForm struct {
	name string
	mk   func(k int) string
	slow bool // left-deep chains are evaluated once per call: keep them small
}

var nestForms = []nestForm{
	{"not", func(k int) string {
		return "function f(n) { return " + strings.Repeat("!", k) + "f(n+1) }\nBEGIN { f(0) }"
	}, false},
	{"neg", func(k int) string {
		return "function f(n) { return " + strings.Repeat("- ", k) + "f(n+1) }\nBEGIN { f(0) }"
	}, false},
	{"paren", func(k int) string {
		return "function f(n) { return " + strings.Repeat("(", k) + "f(n+1)" + strings.Repeat(")", k) + " }\nBEGIN { f(0) }"
	}, false},
	{"binright", func(k int) string {
		return "function f(n) { return " + strings.Repeat("1+(", k) + "f(n+1)" + strings.Repeat(")", k) + " }\nBEGIN { f(0) }"
	}, false},
	{"binleft", func(k int) string {
		return "function f(n) { return f(n+1)" + strings.Repeat("+1", k) + " }\nBEGIN { f(0) }"
	}, false},
	{"array", func(k int) string {
		return "function f(n) { return " + strings.Repeat("[", k) + "f(n+1)" + strings.Repeat("]", k) + " }\nBEGIN { f(0) }"
	}, false},
	{"object", func(k int) string {
		return "function f(n) { return " + strings.Repeat("{a:", k) + "f(n+1)" + strings.Repeat("}", k) + " }\nBEGIN { f(0) }"
	}, false},
	{"index", func(k int) string {
		return "function f(n) { return " + strings.Repeat("a[", k) + "f(n+1)" + strings.Repeat("]", k) + " }\nBEGIN { a = [0]; f(0) }"
	}, false},
	{"callarg", func(k int) string {
		return "function g(x) { return x }\nfunction f(n) { return " + strings.Repeat("g(", k) + "f(n+1)" + strings.Repeat(")", k) + " }\nBEGIN { f(0) }"
	}, false},
	{"methodarg", func(k int) string {
		return "function f(n) { return " + strings.Repeat("a.push(", k) + "f(n+1)" + strings.Repeat(")", k) + " }\nBEGIN { a = []; f(0) }"
	}, false},
	{"assign", func(k int) string {
		return "function f(n) { return " + strings.Repeat("x=", k) + "f(n+1) }\nBEGIN { f(0) }"
	}, false},
	{"block", func(k int) string {
		return "function f(n) { " + strings.Repeat("{", k) + " f(n+1) " + strings.Repeat("}", k) + " }\nBEGIN { f(0) }"
	}, false},
	{"if", func(k int) string {
		return "function f(n) { " + strings.Repeat("if(1)", k) + " f(n+1) }\nBEGIN { f(0) }"
	}, false},
	{"ifelse", func(k int) string {
		return "function f(n) { " + strings.Repeat("if(0){}else ", k) + " f(n+1) }\nBEGIN { f(0) }"
	}, false},
	{"while", func(k int) string {
		return "function f(n) { " + strings.Repeat("while(1)", k) + " { f(n+1) } }\nBEGIN { f(0) }"
	}, false},
	{"forin", func(k int) string {
		return "function f(n) { " + strings.Repeat("for(x in o)", k) + " { f(n+1) } }\nBEGIN { o = [1]; f(0) }"
	}, false},
	{"for3", func(k int) string {
		return "function f(n) { " + strings.Repeat("for(z=0;1;1)", k) + " { f(n+1) } }\nBEGIN { f(0) }"
	}, false},
	{"match", func(k int) string {
		return "function f(n) { return " + strings.Repeat("match(1){_=>", k) + "f(n+1)" + strings.Repeat("}", k) + " }\nBEGIN { f(0) }"
	}, false},
	{"pattern", func(k int) string {
		return "function f(n) { return " + strings.Repeat("!", k) + "f(n+1) }\nf(0) { print }"
	}, false},
	{"selector", func(k int) string { return "" }, false}, // placeholder: built below from "not" as a -r selector
	{"member", func(k int) string {
		return "function f(n) { return o" + strings.Repeat(".a", k) + "[f(n+1)] }\nBEGIN { o = {}; f(0) }"
	}, true},
	{"and", func(k int) string {
		return "function f(n) { return " + strings.Repeat("1&&", k) + "f(n+1) }\nBEGIN { f(0) }"
	}, true},
	{"concat", func(k int) string {
		return "function f(n) { return " + strings.Repeat("1 ", k) + "f(n+1) }\nBEGIN { f(0) }"
	}, true},
}

func checkC01DeepNesting(c *Ctx) {
	dir := c.TempDir("deep")
	os.WriteFile(filepath.Join(dir, "in.json"), []byte(`[1]`), 0o644)
	type one struct {
		name string
		k    int
		args []string
	}
	var cases []one
	fit := func(mk func(int) string, limit int) int {
		lo, hi := 1, 70000
		for hi-lo > 1 {
			m := (lo + hi) / 2
			if len(mk(m)) <= limit {
				lo = m
			} else {
				hi = m
			}
		}
		return lo
	}
	for _, f := range nestForms {
		if f.name == "selector" {
			continue
		}
		ks := []int{fit(f.mk, 65536), fit(f.mk, 65536) / 9}
		if f.slow {
			ks = []int{600}
		}
		if c.Thorough() && !f.slow {
			ks = append(ks, fit(f.mk, 65536)/3, 300, 60)
		}
		for _, k := range ks {
			fn := filepath.Join(dir, fmt.Sprintf("%s-%d.jqawk", f.name, k))
			os.WriteFile(fn, []byte(f.mk(k)), 0o644)
			cases = append(cases, one{f.name, k, []string{"-f", fn, "in.json"}})
		}
	}
	// the same through a root selector (evaluated by its own evaluator)
	cases = append(cases, one{"selector", 20000, []string{"-r", strings.Repeat("!", 20000) + "$", "function f(n) { return " + strings.Repeat("!", 20000) + "f(n+1) }\n{ f(0) }", "in.json"}})
	parallelDo(len(cases), 8, func(i int) {
		br := c.RunBin(cases[i].args, nil, dir, 4*time.Minute)
		if br.TimedOut {
			c.Count("inconclusive", 1)
			return
		}
		if why := binaryVerdict(br); why != "" {
			c.Violation("deep-nesting", map[string]any{"form": cases[i].name, "nesting": cases[i].k, "args": cases[i].args[:1], "program_head": firstN(readFileOr(cases[i].args), 200),
				"exit": br.Exit, "stderr": firstN(string(br.Stderr), 600), "why": why + " (a program of at most 64 KiB: nesting " + fmt.Sprint(cases[i].k) + " inside a recursive function)"})
			return
		}
		c.Case(fmt.Sprintf("deep:%s:%d", cases[i].name, cases[i].k), br.Exit != 0)
	})
}

func readFileOr(args []string) string {
	if len(args) >= 2 && args[0] == "-f" {
		b, _ := os.ReadFile(args[1])
		return string(b)
	}
	if len(args) >= 3 {
		return args[2]
	}
	return ""
}

// ---------------------------------------------------------------------------
// Position sweep: every operator x operand kinds, evaluated as a statement, as a rule pattern and as a
// root selector (selectors are evaluated by an evaluator of their own).  Claim: ok or runtime error.

var posOperands = []string{`0.5`, `(0 - 0.3)`, `"0.3"`, `1e-9`, `9223372036854775807`, `(0 - 9223372036854775808)`, `1e300`, `num("nan")`, `num("inf")`, `1`, `0`, `(0 - 2.5)`, `"a"`, `"^a"`, `"("`, `""`, `"12"`, `true`, `null`, `[1, "a"]`, `[]`, `{a: 1}`, `/a+/`, `unsetv`, `$`, `$.kind`, `$[0]`, `$.items`, `fnv`}
var posBinOps = []string{"+", "-", "*", "/", "%", "<", "<=", ">", ">=", "==", "!=", "~", "!~", "&&", "||", "is", " "}
var posUnOps = []string{"!", "-", "+"}

func checkC01Positions(c *Ctx) {
	pool := c.Pool()
	var exprs []string
	for _, op := range posBinOps {
		for _, a := range posOperands {
			for _, b := range posOperands {
				if op == "is" {
					b = []string{"string", "number", "array", "object", "bool", "null", "regex", "unknown", "function", "nosuch"}[len(exprs)%10]
				}
				if op == "is" {
					exprs = append(exprs, "("+a+") is "+b)
					continue
				}
				exprs = append(exprs, "("+a+") "+op+" ("+b+")")
			}
		}
	}
	for _, op := range posUnOps {
		for _, a := range posOperands {
			exprs = append(exprs, op+" ("+a+")")
		}
	}
	for _, a := range posOperands {
		exprs = append(exprs, "match ("+a+") { 1 => \"one\", \"a\" => $.items, [x, y] => y, {a: q} => q, null => 0, _ => $ }",
			"match ("+a+" ~ \"^a\") { true => $.items, false => $.other }", "("+a+").length()", "("+a+")[0]", "("+a+").a", "("+a+")[(0 - 1)]", "json("+a+")", "num("+a+")")
	}
	input := []byte(`[{"kind":"ab","items":[1,2],"other":[3]},["x",{"kind":"b"}],"abc",7,null]`)
	var jobs []Job
	for i, e := range exprs {
		if !c.Thorough() && i%3 != int(c.Seed)%3 && !strings.Contains(e, "~") {
			continue
		}
		pre := "function fnv(a) {\n  return a\n}\n"
		jobs = append(jobs, Job{Kind: "run", Prog: []byte(pre + "{\n  r = " + e + "\n  print r\n}\n"), Files: []FileIn{{Name: "in.json", Data: input}}, Budget: 100000, Tag: "stmt: " + e})
		jobs = append(jobs, Job{Kind: "run", Prog: []byte(pre + e + " {\n  print \"hit\"\n}\nEND {\n  print \"end\"\n}\n"), Files: []FileIn{{Name: "in.json", Data: input}}, Budget: 100000, Tag: "pattern: " + e})
		jobs = append(jobs, Job{Kind: "run", Prog: []byte("{\n  print\n}\n"), Sels: []string{e}, Files: []FileIn{{Name: "in.json", Data: input}}, Budget: 100000, Tag: "selector: " + e})
		jobs = append(jobs, Job{Kind: "run", Prog: []byte("{\n  print\n}\n"), Sels: []string{"$", e}, Files: []FileIn{{Name: "in.json", Data: input}, {Name: "b.json", Data: []byte(`{"kind":"a"} [1]`)}}, Budget: 100000, Tag: "selector2: " + e})
	}
	pool.Map(jobs, func(i int, r Result) {
		switch r.Class {
		case "ok", "runtime", "syntax":
			c.Case("pos:"+jobs[i].Tag, r.Class != "syntax")
		case "budget", "timeout":
			c.Count("inconclusive", 1)
		default:
			c.Violation("position-"+r.Class, map[string]any{"where": jobs[i].Tag, "program": string(jobs[i].Prog), "selectors": jobs[i].Sels, "got_class": r.Class, "got_err_type": r.ErrType,
				"got_err": r.ErrMsg, "detail": r.Detail, "why": "an operator applied to these operands must succeed or fail with a runtime error, wherever it is evaluated"})
		}
	})
}

// Recursion refused at every kind of frame push: the limit can be reached at a function call or at a
// match expression, depending on how the recursion alternates between the two (parity).
func checkC01LimitParity(c *Ctx) {
	pool := c.Pool()
	bodies := []string{
		"return f(n + 1)",
		"return match (n) { x => f(n + 1) }",
		"match (n) { x => { return f(n + 1) } }",
		"return match (n) { x => match (x) { y => f(y + 1) } }",
		"return match (n) { x => { match (x) { y => { return f(y + 1) } } } }",
		"for (q in [1]) { return f(n + 1) }",
		"return match ([n]) { [x] => f(x + 1), _ => 0 }",
	}
	entries := []string{"f(0)", "match (0) { y => f(y) }", "match (0) { y => match (y) { z => f(z) } }", "match (0) { y => { f(y) } }", "match (0) { y => { match (y) { z => { f(z) } } } }",
		"match (0) { y => match (y) { z => match (z) { w => f(w) } } }"}
	var jobs []Job
	for _, b := range bodies {
		fn := "function f(n) {\n  " + b + "\n}\n"
		for _, en := range entries {
			for _, ctx := range []string{"BEGIN {\n  r = %s\n}\n", "{\n  r = %s\n}\nEND {\n  print \"end\"\n}\n", "%s {\n  print \"hit\"\n}\n", "END {\n  r = %s\n}\n", "BEGINFILE {\n  r = %s\n}\n"} {
				jobs = append(jobs, Job{Kind: "run", Prog: []byte(fn + fmt.Sprintf(ctx, en)), Files: []FileIn{{Name: "in.json", Data: []byte(`[1]`)}}, Budget: 3_000_000, Tag: b + " | " + en})
			}
		}
	}
	pool.Map(jobs, func(i int, r Result) {
		switch r.Class {
		case "runtime":
			c.Case("parity:"+string(jobs[i].Prog), true)
		case "budget", "timeout":
			c.Count("inconclusive", 1)
		default:
			c.Violation("limit-parity-"+r.Class, map[string]any{"program": string(jobs[i].Prog), "got_class": r.Class, "got_err_type": r.ErrType, "got_err": r.ErrMsg, "detail": r.Detail,
				"why": "unbounded recursion must end in the runtime error of the call depth limit, whichever frame push (call or match) reaches the limit"})
		}
	})
}

// Parser state: a loop seen earlier in the text must not make a later break/continue outside any loop
// acceptable (it would surface as a bare signal when executed).
func checkC01StrayAfterLoop(c *Ctx) {
	pool := c.Pool()
	loops := []string{"for (v in $) { n++ }", "for (k, v in $) { n++ }", "while (n < 1) { n++ }", "for (i = 0; i < 1; i++) { n++ }", "while (n < 1) { for (v in $) { n++ } }",
		"for (v in $) { while (0) { } }", "for (v in $) { for (w in $) { n++ } }", "if (1) { for (v in $) { n++ } }", "match (1) { _ => { for (v in $) { n++ } } }", "for (v in $) n++"}
	strays := []string{"break", "continue"}
	var jobs []Job
	for _, l := range loops {
		for _, s := range strays {
			for _, shape := range []string{
				"{\n  n = 0\n  %[1]s\n  %[2]s\n  print n\n}\n",
				"{\n  n = 0\n  %[1]s\n  if (n < 100) { %[2]s }\n  print n\n}\n",
				"{\n  n = 0\n  %[1]s\n}\n{\n  %[2]s\n}\n",
				"function g() {\n  %[1]s\n}\n{\n  n = 0\n  g()\n  %[2]s\n}\n",
				"function g() {\n  %[1]s\n}\nfunction h() {\n  %[2]s\n}\n{\n  n = 0\n  g()\n  h()\n}\n",
				"BEGIN {\n  n = 0\n  %[1]s\n}\nEND {\n  %[2]s\n}\n",
				"{\n  n = 0\n  %[1]s\n  r = match (1) { _ => { %[2]s } }\n}\n",
			} {
				jobs = append(jobs, Job{Kind: "run", Prog: []byte(fmt.Sprintf(shape, l, s)), Files: []FileIn{{Name: "in.json", Data: []byte(`[[1,2,3],[4]]`)}}, Budget: 100000, Tag: l + " ... " + s})
			}
		}
	}
	pool.Map(jobs, func(i int, r Result) {
		switch r.Class {
		case "syntax":
			c.Case("stray:"+string(jobs[i].Prog), true)
		case "budget", "timeout":
			c.Count("inconclusive", 1)
		case "ok", "runtime":
			// accepted although outside a loop: that is C11's business, not a surfacing signal
			c.Count("stray_accepted", 1)
		default:
			c.Violation("stray-"+r.Class, map[string]any{"program": string(jobs[i].Prog), "got_class": r.Class, "got_err_type": r.ErrType, "got_err": r.ErrMsg, "detail": r.Detail,
				"why": "a break/continue outside every loop must not surface as an error of its own"})
		}
	})
}

// The nesting limit reached exactly at each kind of statement / expression: the padding shifts the
// point at which the limit falls through the body of f, level by level.
func checkC01LimitLandsOn(c *Ctx) {
	pool := c.Pool()
	inner := []string{"return", "return 1", "break", "continue", "next", "exit", "print 1", "x = [1, {a: 2}]", "y++", "q.push(1)", "for (z = 0; 0; 0) { }"}
	var jobs []Job
	rec := strings.Repeat("!", 45)
	for _, in := range inner {
		body := "{ if (1) { while (1) { for (q in [[1]]) { match (1) { _ => {\n " + in + "\n return } } } return } } }"
		if in == "break" || in == "continue" {
			body = "{ if (1) { while (1) { for (q in [[1]]) { match (1) { _ => { " + in + " } } return } return } } }"
		}
		for pad := 0; pad <= 60; pad++ {
			if !c.Thorough() && in != "return" && pad%4 != int(c.Seed)%4 {
				continue
			}
			prog := "function f() " + body + "\nfunction g(n) { if (n == 0) { x = " + strings.Repeat("!", pad) + " f() } else { x = " + rec + " g(n - 1) } }\n{ g(2940); print 1 }\n"
			jobs = append(jobs, Job{Kind: "run", Prog: []byte(prog), Files: []FileIn{{Name: "in.json", Data: []byte("[1]")}}, Budget: 5_000_000, Tag: fmt.Sprintf("%s pad=%d", in, pad)})
		}
	}
	landed := 0
	pool.Map(jobs, func(i int, r Result) {
		switch r.Class {
		case "ok", "runtime":
			if r.Class == "runtime" {
				landed++
			}
			c.Case("lands:"+jobs[i].Tag, r.Class == "runtime")
		case "budget", "timeout":
			c.Count("inconclusive", 1)
		default:
			c.Violation("limit-lands-"+r.Class, map[string]any{"case": jobs[i].Tag, "program_head": firstN(string(jobs[i].Prog), 300), "got_class": r.Class, "got_err_type": r.ErrType, "got_err": r.ErrMsg, "detail": firstN(r.Detail, 1500),
				"why": "the nesting limit must be reported as a runtime error whichever statement or expression reaches it"})
		}
	})
	c.Set("limit_lands_on_refusals", landed)
}

// Assignment paths: every kind of key x targets over existing, missing and unset bases of several depths
// x every assigning operator.  Claim: ok or runtime error (what the assignment does is C09's business).
func checkC01AssignPaths(c *Ctx) {
	pool := c.Pool()
	keys := []string{`0`, `1`, `(0 - 1)`, `2.5`, `7`, `"a"`, `"length"`, `""`, `true`, `false`, `null`, `unsetk`, `$.nope`, `$.name`, `[1]`, `{}`, `/r/`, `fnv`, `$`}
	bases := []string{"o", "o.x", "o.x.y", "o.a", "o.a[0]", "u", "u.x", "u[0]", "arr", "arr[0]", "arr[5]", "arr[1].k", "$", "$.nope", "$.nope.deeper", "$.list", "$.list[0]", "str", "num", "nul", "o.length", "arr.push"}
	forms := []string{"B[K] = 1", "B[K] += 1", "B[K]++", "--B[K]", "B[K].z = 1", "B[K][K] = 1", "B[K] = B[K]", "r = B[K]", "B[K].push(1)", "for (q in B[K]) { }", "r = match (B[K]) { m => { m = 1 } }"}
	var jobs []Job
	n := 0
	for _, b := range bases {
		for _, k := range keys {
			for _, f := range forms {
				n++
				if !c.Thorough() && n%3 != int(c.Seed)%3 {
					continue
				}
				st := strings.ReplaceAll(strings.ReplaceAll(f, "B", b), "K", k)
				prog := "function fnv(a) {\n  return a\n}\n{\n  o = {a: [1, {b: 2}], s: \"t\"}\n  arr = [1, {k: 2}, [3]]\n  str = \"abc\"\n  num = 5\n  nul = null\n  " + st + "\n  print o, arr, u\n}\n"
				jobs = append(jobs, Job{Kind: "run", Prog: []byte(prog), Files: []FileIn{{Name: "in.json", Data: []byte(`[{"list":[1,[2]],"name":"n"},{"list":[]}]`)}}, Budget: 100000, Tag: st})
			}
		}
	}
	pool.Map(jobs, func(i int, r Result) {
		switch r.Class {
		case "ok", "runtime", "syntax":
			c.Case("path:"+jobs[i].Tag, r.Class != "syntax")
		case "budget", "timeout":
			c.Count("inconclusive", 1)
		default:
			c.Violation("assign-path-"+r.Class, map[string]any{"statement": jobs[i].Tag, "program": string(jobs[i].Prog), "got_class": r.Class, "got_err_type": r.ErrType, "got_err": r.ErrMsg, "detail": firstN(r.Detail, 1500),
				"why": "an assignment / read / method call through this path and key must succeed or fail with a runtime error"})
		}
	})
}

// The receiver of a method is re-assigned by ANY argument of the call, also one after valid leading arguments.
func checkC01ReceiverReassigned(c *Ctx) {
	pool := c.Pool()
	var jobs []Job
	recvs := []string{`"a,b"`, `[1, 2]`, `{a: 1}`, `2.5`, `"x"`}
	others := []string{"5", `"s"`, "[1]", "{}", "null", "true", "unsetq"}
	lead := map[string][]string{"split": {`","`}, "push": {"1"}, "contains": {"1"}, "pluck": {`"a"`}, "upper": {}, "lower": {}, "length": {}, "pop": {}, "popfirst": {}, "sort": {}, "floor": {}, "ceil": {}, "round": {}}
	for m, la := range lead {
		for _, rv := range recvs {
			for _, o := range others {
				for _, mut := range []string{"sv = " + o, "sv++", "sv--", "sv += " + o} {
					args := append(append([]string{}, la...), mut)
					st := "sv = " + rv + "\n  r = sv." + m + "(" + strings.Join(args, ", ") + ")"
					jobs = append(jobs, Job{Kind: "run", Prog: []byte("BEGIN {\n  " + st + "\n  print r, sv\n}\n{\n  " + strings.ReplaceAll(st, "sv", "$.v") + "\n  print r, $\n}\n"), Files: []FileIn{{Name: "in.json", Data: []byte(`[{"v":"p,q"},{"v":[3,1]}]`)}}, Budget: 100000, Tag: st})
					// through a name bound by a match pattern
					st2 := "sv = " + rv + "\n  r = match (sv) { n => n." + m + "(" + strings.ReplaceAll(strings.Join(args, ", "), "sv", "n") + ") }"
					jobs = append(jobs, Job{Kind: "run", Prog: []byte("BEGIN {\n  " + st2 + "\n  print r, sv\n}\n"), Budget: 100000, Tag: st2})
				}
			}
		}
	}
	pool.Map(jobs, func(i int, r Result) {
		switch r.Class {
		case "ok", "runtime", "syntax":
			c.Case("recv:"+jobs[i].Tag, r.Class != "syntax")
		case "budget", "timeout":
			c.Count("inconclusive", 1)
		default:
			c.Violation("receiver-reassigned-"+r.Class, map[string]any{"statement": jobs[i].Tag, "program": string(jobs[i].Prog), "got_class": r.Class, "got_err": r.ErrMsg, "detail": firstN(r.Detail, 1500),
				"why": "a method call whose arguments re-assign the receiver must succeed or fail with a runtime error"})
		}
	})
}

// Lexing terminates: every byte, and every two-byte sequence starting with a byte >= 0x80, at the start of
// a token, in the middle of an identifier, after a number, inside brackets -- in the program text and in
// a selector.  Lexing is linear in the text, so a lexer that has not finished a few dozen bytes after
// 60 seconds does not terminate: this is the one family where a timeout is a verdict.
func checkC01LexTerminates(c *Ctx) {
	pool := c.Pool()
	var jobs []Job
	add := func(seq []byte) {
		for _, ctx := range []string{"%s", "{ x = %s 1 }", "{ x = a%s }", "{ x = 1%s }", "{ x = [%s] }", "%s { print }", "{ print 1 } %s"} {
			text := strings.Replace(ctx, "%s", string(seq), 1)
			jobs = append(jobs, Job{Kind: "lex", Prog: []byte(text), Tag: fmt.Sprintf("%q", text)})
		}
		jobs = append(jobs, Job{Kind: "run", Prog: []byte("{ print }"), Sels: []string{"$ " + string(seq)}, Files: []FileIn{{Name: "in.json", Data: []byte("[1]")}}, Budget: 10000, Tag: fmt.Sprintf("selector %q", "$ "+string(seq))})
	}
	for b := 0; b < 256; b++ {
		add([]byte{byte(b)})
	}
	for b := 0x80; b < 256; b++ {
		for _, b2 := range []int{0x20, 0x41, 0x80, 0x9f, 0xa0, 0xa9, 0xbf, 0xc2, 0xff, 0x0a} {
			if !c.Thorough() && (b+b2)%2 != int(c.Seed)%2 {
				continue
			}
			add([]byte{byte(b), byte(b2)})
		}
	}
	pool.Map(jobs, func(i int, r Result) {
		switch r.Class {
		case "timeout":
			c.Violation("lex-hangs", map[string]any{"text": jobs[i].Tag, "text_bytes": jobs[i].Prog, "selectors": jobs[i].Sels,
				"why": "lexing / parsing a text of a few dozen bytes did not finish within the worker's time limit: the run never ends by itself"})
		case "panic", "crash", "other":
			c.Violation("lex-"+r.Class, map[string]any{"text": jobs[i].Tag, "text_bytes": jobs[i].Prog, "got_class": r.Class, "detail": firstN(r.Detail, 1500)})
		default:
			c.Case("lexterm:"+jobs[i].Tag, true)
		}
	})
}

// Indices and widths at the edges: every index from below -len to beyond the byte length on strings with
// multi-byte characters and on arrays, the extremes of the machine word and non-finite numbers as indices;
// printf directives x widths x arguments whose byte and character counts differ.
func checkC01Edges(c *Ctx) {
	pool := c.Pool()
	var jobs []Job
	add := func(st string) {
		jobs = append(jobs, Job{Kind: "run", Prog: []byte("{\n  " + st + "\n}\n"), Files: []FileIn{{Name: "in.json", Data: []byte(`[{"s":"日本é","a":[1,2,3],"big":-9223372036854775808,"e":"\ud800x"}]`)}}, Budget: 100000, Tag: st})
	}
	subjects := []string{`""`, `"a"`, `"é"`, `"日本"`, `"a日b"`, `"Łódź"`, `"�"`, `$.s`, `$.e`, `[1, 2, 3]`, `$.a`, `[]`, `{a: 1}`}
	var idx []string
	for i := -12; i <= 14; i++ {
		if i < 0 {
			idx = append(idx, fmt.Sprintf("(0 - %d)", -i))
		} else {
			idx = append(idx, fmt.Sprint(i))
		}
	}
	idx = append(idx, "9223372036854775807", "9223372036854775808", "(0 - 9223372036854775807)", "(0 - 9223372036854775808)", "$.big", "99999999999999999999", "(0 - 99999999999999999999)",
		"4294967296", "(0 - 4294967296)", "2147483648", "num(\"nan\")", "num(\"inf\")", "(0 - num(\"inf\"))", "num(\"1e300\")", "0.5", "(0 - 0.5)", "2.999999", "1e-320")
	for _, sj := range subjects {
		for _, i := range idx {
			add("x = " + sj + "\n  print x[" + i + "]")
			if !c.Thorough() && len(jobs)%3 != int(c.Seed)%3 {
				continue
			}
			add("x = " + sj + "\n  x[" + i + "] = 1\n  print x")
			add("x = " + sj + "\n  x[" + i + "]++\n  print x")
			add("x = " + sj + "\n  print x[x.length() - 1], x[" + i + "].length()")
			add("x = " + sj + "\n  r = match (x) { [p, q, r] => r, _ => x[" + i + "] }\n  print r")
		}
	}
	args := []string{`"日本"`, `"Łódź"`, `"é"`, `"a日"`, `""`, `"abc"`, `$.s`, `1.5`, `(0 - 0)`, `4611686018427387904`, `[1]`, `null`, `/re/`}
	for _, flag := range []string{"", "-", "0", "-0", "+", " "} {
		for _, w := range []string{"", "1", "2", "3", "4", "5", "6", "7", "9", "12"} {
			for _, conv := range []string{"s", "f", "v", "%", "d", "x"} {
				for ai, a := range args {
					if !c.Thorough() && (len(jobs)+ai)%2 != int(c.Seed)%2 {
						continue
					}
					add("printf(\"[%" + flag + w + conv + "]\\n\", " + a + ")")
				}
			}
		}
	}
	pool.Map(jobs, func(i int, r Result) {
		switch r.Class {
		case "ok", "runtime", "syntax":
			c.Case("edge:"+jobs[i].Tag, r.Class != "syntax")
		case "budget", "timeout":
			c.Count("inconclusive", 1)
		default:
			c.Violation("edge-"+r.Class, map[string]any{"statement": jobs[i].Tag, "program": string(jobs[i].Prog), "got_class": r.Class, "got_err": r.ErrMsg, "detail": firstN(r.Detail, 1500),
				"why": "indexing / printf at the edges of the index and width ranges must succeed or fail with a runtime error"})
		}
	})
}

// Signals raised inside expressions: a match arm that executes next / exit / break / continue / return while it
// is an operand, an argument, an element of a literal, a condition.  The signal does what it does anywhere
// else, so the run succeeds: any error here is a signal (or something else) surfacing as an error.
func checkC01SignalsInExpressions(c *Ctx) {
	pool := c.Pool()
	holders := []string{"print 1, M", "print M, 2", "x = [1, M, 3]", "x = {a: 1, b: M}", "x = idf(M)", "x = idf(1, M)", "x = 1 + M", "x = M * 2", "x = -M", "x = !M", "x = (M).a", "x = arr[M]",
		"arr.push(M)", "x = arr.contains(M)", "if (M) { print \"t\" }", "while (M) { break }", "for (i = M; i < 1; i++) { }", "for (k in [M]) { }", "printf(\"%v\\n\", M)", "x = json(M)",
		"x = M ~ \"a\"", "x = 1 < M", "x = M && 1", "x = 0 || M", "x = M is number", "x = match (M) { _ => 1 }", "x = match (1) { _ => M }", "arr[0] = M", "obj.k = M", "x += M", "x = num(M)"}
	var jobs []Job
	mk := func(sig, holder, ctx string) {
		m := "match (1) { _ => {\n    " + sig + "\n  } }"
		st := strings.ReplaceAll(holder, "M", m)
		prog := "function idf(a, b) {\n  return a\n}\n" + fmt.Sprintf(ctx, st)
		jobs = append(jobs, Job{Kind: "run", Prog: []byte(prog), Files: []FileIn{{Name: "in.json", Data: []byte("[1, 2]")}}, Budget: 100000, Tag: sig + " in " + holder})
	}
	pre := "  arr = [1]\n  obj = {}\n  x = 0\n"
	for _, h := range holders {
		mk("next", h, "{\n"+pre+"  %s\n  print \"after\"\n}\nEND {\n  print \"end\"\n}\n")
		mk("exit", h, "{\n"+pre+"  %s\n  print \"after\"\n}\nEND {\n  print \"end\"\n}\n")
		mk("exit", h, "BEGIN {\n"+pre+"  %s\n  print \"after\"\n}\n")
		mk("break", h, "{\n"+pre+"  for (q in [1, 2]) {\n  %s\n  print \"after\"\n  }\n  print \"out\"\n}\n")
		mk("continue", h, "{\n"+pre+"  for (q in [1, 2]) {\n  %s\n  print \"after\"\n  }\n  print \"out\"\n}\n")
		mk("continue", h, "{\n"+pre+"  n = 0\n  while (n < 2) {\n  n++\n  %s\n  print \"after\"\n  }\n  print \"out\"\n}\n")
		mk("return 5", h, "function g() {\n"+pre+"  %s\n  print \"after\"\n  return 6\n}\n{\n  print g()\n}\n")
		mk("return", h, "function g() {\n"+pre+"  %s\n  print \"after\"\n}\nBEGIN {\n  print g()\n}\n")
		mk("next", h, "function g() {\n"+pre+"  %s\n  print \"after\"\n}\n{\n  g()\n  print \"not\"\n}\n")
	}
	pool.Map(jobs, func(i int, r Result) {
		switch r.Class {
		case "ok":
			c.Case("sigexpr:"+jobs[i].Tag+string(jobs[i].Prog[:20]), true)
		case "syntax":
			c.Count("sigexpr_not_grammatical", 1)
		case "budget", "timeout":
			c.Count("inconclusive", 1)
		default:
			c.Violation("signal-in-expression-"+r.Class, map[string]any{"case": jobs[i].Tag, "program": string(jobs[i].Prog), "got_class": r.Class, "got_err_type": r.ErrType, "got_err": r.ErrMsg,
				"got_stdout": firstN(string(r.Stdout), 300), "detail": firstN(r.Detail, 800),
				"why": "a control-flow statement executed inside an expression still only transfers control: the run succeeds; an error here is the signal surfacing"})
		}
	})
}

// Arrays reachable through several references while one of them changes the length (pop, popfirst, push beyond
// the capacity, a far index write, sort): whatever the other references then show (the open finding
// alias-length), reading through them succeeds or is a runtime error.
func checkC01AliasesAfterShrink(c *Ctx) {
	pool := c.Pool()
	holds := []string{"b = a", "o = {k: a}\n  b = o.k", "keep(a)\n  b = gp", "b = [a][0]", "b = idf(a)", "m = match (a) { t => t }\n  b = m"}
	muts := []string{"a.pop()", "a.popfirst()", "a.pop()\n  a.pop()\n  a.pop()", "a.push(1)\n  a.push(2)\n  a.push(3)\n  a.push(4)\n  a.push(5)", "a[9] = 1", "a.pop()\n  a.push(7)", "a.popfirst()\n  a[5] = 2", "x = a.sort()"}
	reads := []string{"print b", "print b.length(), a.length()", "print json(b)", "for (v, i in b) {\n    print i, v\n  }", "print b.contains(3)", "print b[2], b[0 - 1]", "print match (b) { [x, y, z] => z, _ => \"other\" }",
		"print b.sort()", "b.push(9)\n  print a, b", "print b.pop(), b.popfirst()", "b[1] = 5\n  print a, b", "print b == b"}
	var jobs []Job
	for _, h := range holds {
		for _, m := range muts {
			for _, rd := range reads {
				for _, init := range []string{"a = [1, 2, 3]", "a = $.l"} {
					prog := "function keep(p) {\n  gp = p\n}\nfunction idf(p) {\n  return p\n}\n{\n  " + init + "\n  " + h + "\n  " + m + "\n  " + rd + "\n}\nEND {\n  print $\n}\n"
					jobs = append(jobs, Job{Kind: "run", Prog: []byte(prog), Files: []FileIn{{Name: "in.json", Data: []byte(`[{"l":[1,2,3]},{"l":[[1],{"a":2},3]}]`)}}, Budget: 100000, Tag: h + " ; " + m + " ; " + rd})
				}
			}
		}
	}
	// the iterated array shrinks or grows while a for-in over it runs
	for _, m := range muts {
		prog := "{\n  a = $.l\n  for (v, i in a) {\n    print i, v\n    " + m + "\n  }\n  print a\n}\n"
		jobs = append(jobs, Job{Kind: "run", Prog: []byte(prog), Files: []FileIn{{Name: "in.json", Data: []byte(`[{"l":[1,2,3]},{"l":[[1],{"a":2},3]}]`)}}, Budget: 100000, Tag: "for-in ; " + m})
	}
	pool.Map(jobs, func(i int, r Result) {
		switch r.Class {
		case "ok", "runtime", "syntax":
			c.Case("alias:"+jobs[i].Tag+string(jobs[i].Prog[60:80]), r.Class != "syntax")
		case "budget", "timeout":
			c.Count("inconclusive", 1)
		default:
			c.Violation("alias-shrink-"+r.Class, map[string]any{"case": jobs[i].Tag, "program": string(jobs[i].Prog), "got_class": r.Class, "got_err": r.ErrMsg, "detail": firstN(r.Detail, 1500),
				"why": "reading an array through another reference after its length changed must succeed or fail with a runtime error"})
		}
	})
}

// Many distinct things in one run: whatever table, cache or ring the implementation keeps per run must
// hold (or evict) hundreds of distinct regex sources, names, keys, functions, rules, literals, cases,
// arguments, selectors, values.  Claim: the run succeeds.
func checkC01ManyDistinct(c *Ctx) {
	pool := c.Pool()
	n := 300
	var jobs []Job
	add := func(tag, prog string, sels []string, input string) {
		jobs = append(jobs, Job{Kind: "run", Prog: []byte(prog), Sels: sels, Files: []FileIn{{Name: "in.json", Data: []byte(input)}}, Budget: 5_000_000, Tag: tag})
	}
	rep := func(f func(i int) string, sep string) string {
		parts := make([]string, n)
		for i := range parts {
			parts[i] = f(i)
		}
		return strings.Join(parts, sep)
	}
	nums := "[" + rep(func(i int) string { return fmt.Sprint(i) }, ",") + "]"
	add("regex sources built in a loop", "BEGIN {\n  for (i = 0; i < 300; i++) {\n    if (\"x\" + i ~ (\"^x\" + i + \"$\")) {\n      c++\n    }\n    if (\"y\" !~ (\"z\" + i)) {\n      d++\n    }\n  }\n  print c, d\n}\n", nil, "[]")
	add("regex sources from the input", "$.name ~ $.pat {\n  c++\n}\nEND {\n  print c\n}\n", nil, "["+rep(func(i int) string { return fmt.Sprintf(`{"name":"n%d","pat":"^n%d$"}`, i, i) }, ",")+"]")
	add("regex literals", "BEGIN {\n"+rep(func(i int) string { return fmt.Sprintf("  if (\"a%d\" ~ /a%d/) { c++ }", i, i) }, "\n")+"\n  print c\n}\n", nil, "[]")
	add("variables", "BEGIN {\n"+rep(func(i int) string { return fmt.Sprintf("  v%d = %d", i, i) }, "\n")+"\n  print v0 + v299\n}\n", nil, "[]")
	add("object keys", "BEGIN {\n  o = {}\n  for (i = 0; i < 300; i++) {\n    o[\"k\" + i] = i\n    o[i] = i\n  }\n  print o.length()\n  for (k, v in o) {\n    s = s + v\n  }\n  print s\n}\n", nil, "[]")
	add("functions", rep(func(i int) string { return fmt.Sprintf("function f%d(a) {\n  return a + %d\n}", i, i) }, "\n")+"\nBEGIN {\n  print "+rep(func(i int) string { return fmt.Sprintf("f%d(1)", i) }, " + ")+"\n}\n", nil, "[]")
	add("rules", rep(func(i int) string { return fmt.Sprintf("$ == %d {\n  c++\n}", i) }, "\n")+"\nEND {\n  print c\n}\n", nil, nums)
	add("begin and end rules", rep(func(i int) string { return fmt.Sprintf("BEGIN {\n  b++\n}\nEND {\n  e++\n}") }, "\n")+"\nEND {\n  print b, e\n}\n", nil, "[]")
	add("string literals", "BEGIN {\n  s = "+rep(func(i int) string { return fmt.Sprintf("\"s%d\"", i) }, " + ")+"\n  print s.length()\n}\n", nil, "[]")
	add("match cases", "{\n  r = match ($) { "+rep(func(i int) string { return fmt.Sprintf("%d => \"c%d\"", i, i) }, ", ")+" }\n  if (r == \"c\" + $) {\n    c++\n  }\n}\nEND {\n  print c\n}\n", nil, nums)
	add("match alternatives", "{\n  r = match ($) { "+rep(func(i int) string { return fmt.Sprint(i) }, ", ")+" => 1, _ => 0 }\n  c = c + r\n}\nEND {\n  print c\n}\n", nil, nums)
	add("array literal elements and arguments", "function f(a, b) {\n  return a + b\n}\nBEGIN {\n  x = ["+rep(func(i int) string { return fmt.Sprint(i) }, ", ")+"]\n  print x.length(), f("+rep(func(i int) string { return fmt.Sprint(i) }, ", ")+")\n}\n", nil, "[]")
	add("parameters", "function f("+rep(func(i int) string { return fmt.Sprintf("p%d", i) }, ", ")+") {\n  return p0 + p299\n}\nBEGIN {\n  print f("+rep(func(i int) string { return "1" }, ", ")+")\n}\n", nil, "[]")
	add("object literal members and pattern elements", "BEGIN {\n  o = {"+rep(func(i int) string { return fmt.Sprintf("k%d: %d", i, i) }, ", ")+"}\n  print o.length()\n  r = match (["+rep(func(i int) string { return "1" }, ", ")+"]) { ["+rep(func(i int) string { return fmt.Sprintf("q%d", i) }, ", ")+"] => q299, _ => 0 }\n  print r\n}\n", nil, "[]")
	sels := make([]string, 100)
	for i := range sels {
		sels[i] = fmt.Sprintf("$[%d]", i)
	}
	add("selectors", "{\n  c++\n}\nEND {\n  print c\n}\n", sels, nums)
	add("values in one input", "{\n  c++\n}\nEND {\n  print c\n}\n", nil, rep(func(i int) string { return fmt.Sprintf(`{"v":%d}`, i) }, "\n"))
	add("printf directives", "BEGIN {\n  printf(\""+rep(func(i int) string { return "%s" }, "")+"\\n\", "+rep(func(i int) string { return "\"a\"" }, ", ")+")\n}\n", nil, "[]")
	add("methods called", "BEGIN {\n  a = []\n  for (i = 0; i < 300; i++) {\n    a.push(\"s\" + i)\n    t = (\"S\" + i).lower().upper().length()\n    u = a.contains(\"s\" + i) + a.length() + a.sort().length()\n  }\n  print a.length()\n}\n", nil, "[]")
	pool.Map(jobs, func(i int, r Result) {
		switch r.Class {
		case "ok":
			c.Case("many:"+jobs[i].Tag, true)
		case "budget", "timeout":
			c.Count("inconclusive", 1)
		default:
			c.Violation("many-distinct-"+r.Class, map[string]any{"what": jobs[i].Tag, "program_head": firstN(string(jobs[i].Prog), 500), "got_class": r.Class, "got_err": r.ErrMsg, "got_stdout": firstN(string(r.Stdout), 200), "detail": firstN(r.Detail, 1200),
				"why": "a run that uses hundreds of distinct " + jobs[i].Tag + " must succeed"})
		}
	})
}

// Values by origin: every way a value comes into being (a for-in character / key / element / index, a
// pattern-bound name, a parameter, a call result, a member of $ or of a literal, an element of split / sort /
// pluck results, an operator result) x every method, member read and index read on it.
func checkC01ValuesByOrigin(c *Ctx) {
	pool := c.Pool()
	// %s: a statement using V
	origins := []string{
		"for (V in \"abc\") {\n    %s\n  }", "for (V in \"hé\") {\n    %s\n  }", "for (q, V in \"ab\") {\n    %s\n  }", "for (V in {k: 1, j: \"s\"}) {\n    %s\n  }", "for (q, V in {k: [1], j: \"s\"}) {\n    %s\n  }",
		"for (V in [1, \"s\", [2], {a: 1}, null, true]) {\n    %s\n  }", "for (q, V in [5, 6]) {\n    %s\n  }", "for (V in $) {\n    %s\n  }", "for (q, V in $.o) {\n    %s\n  }",
		"r0 = match ($.s) { V => {\n    %s\n  } }", "r0 = match ([1, \"s\"]) { [q, V] => {\n    %s\n  } }", "r0 = match ($.nope) { V => {\n    %s\n  } }",
		"V = idf($.s)\n  %s", "V = idf($.l)\n  %s", "V = idf()\n  %s", "V = $.s\n  %s", "V = $.l[1]\n  %s", "V = $.o.k\n  %s", "V = $.nope.deeper\n  %s", "V = \"a,b\".split(\",\")[0]\n  %s", "V = [3, 1].sort()\n  %s",
		"V = {k: \"v\"}.pluck(\"k\")\n  %s", "V = {k: \"v\"}.pluck(\"k\").k\n  %s", "V = (1 < 2)\n  %s", "V = (\"a\" + 1)\n  %s", "V = -1\n  %s", "V = \"x\".upper\n  %s", "V = [1].length\n  %s", "V = num\n  %s",
		"V = json([1])\n  %s", "V = num(\"12\")\n  %s", "V = $index\n  %s", "V = $file\n  %s", "V = [1].pop()\n  %s", "V = [].pop()\n  %s", "V = \"abc\"[1]\n  %s", "V = \"abc\"[7]\n  %s", "V = /re/\n  %s",
	}
	uses := []string{"r = V.upper()", "r = V.lower()", "r = V.length()", "r = V.split(\"\")", "r = V.split(\",\")", "r = V.push(1)", "r = V.pop()", "r = V.popfirst()", "r = V.sort()", "r = V.contains(1)", "r = V.pluck(\"k\")",
		"r = V.floor()", "r = V.ceil()", "r = V.round()", "r = V[\"lower\"]()", "r = V[0]", "r = V.k", "r = V[0 - 1]", "r = V()", "r = V(1)", "V.z = 1", "V[0] = 1", "V++", "r = json(V)", "r = num(V)", "printf(\"%s %v\\n\", V, V)",
		"r = V ~ \"a\"", "r = V + 1", "r = V is string", "for (w in V) { }"}
	var jobs []Job
	n := 0
	for _, o := range origins {
		for _, u := range uses {
			n++
			if !c.Thorough() && n%2 != int(c.Seed)%2 {
				continue
			}
			st := strings.ReplaceAll(fmt.Sprintf(o, u), "V", "vv")
			prog := "function idf(a) {\n  return a\n}\n{\n  " + st + "\n  print r\n}\n"
			jobs = append(jobs, Job{Kind: "run", Prog: []byte(prog), Files: []FileIn{{Name: "in.json", Data: []byte(`[{"s":"str","l":[1,"two"],"o":{"k":"v","n":2}}]`)}}, Budget: 100000, Tag: st})
		}
	}
	pool.Map(jobs, func(i int, r Result) {
		switch r.Class {
		case "ok", "runtime", "syntax":
			c.Case("origin:"+jobs[i].Tag, r.Class != "syntax")
		case "budget", "timeout":
			c.Count("inconclusive", 1)
		default:
			c.Violation("value-origin-"+r.Class, map[string]any{"statement": jobs[i].Tag, "program": string(jobs[i].Prog), "got_class": r.Class, "got_err": r.ErrMsg, "detail": firstN(r.Detail, 1500),
				"why": "a method call, member read or index on a value must succeed or fail with a runtime error, however the value came into being"})
		}
	})
}
