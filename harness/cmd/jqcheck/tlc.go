package main

import (
	"bufio"
	"context"
	"crypto/sha256"
	"encoding/hex"
	"encoding/json"
	"fmt"
	"io"
	"os"
	"os/exec"
	"path/filepath"
	"regexp"
	"strconv"
	"strings"
	"sync/atomic"
	"time"
)

func hashKey(s string) string {
	h := sha256.Sum256([]byte(s))
	return hex.EncodeToString(h[:8])
}

type TLCOpt struct {
	Module   string            // e.g. "MC_Text" (file spec/MC_Text.tla)
	Cfg      string            // full text of the .cfg to use
	Workers  int               // default 16
	Extra    []string          // e.g. -simulate num=100 -depth 20
	Timeout  time.Duration     // default 45 min
	Files    map[string]string // extra files to place next to the spec (e.g. trace.ndjson)
	OnVec    func(raw []byte)  // called for every emitted vector (serially)
	Heap     string            // e.g. "8g"
	DFS      bool              // depth-first state queue (trace validation)
	AllowErr bool              // do not treat a TLC error as an infrastructure failure
	Grep     *regexp.Regexp    // lines matching this are collected in TLCResult.Grepped (whole output)
}

type TLCResult struct {
	Generated int64
	Distinct  int64
	Depth     int
	Vectors   int64
	Grepped   []string // lines matching TLCOpt.Grep
	Errors    []string // "Error:" lines and what follows
	Output    []string // non-vector output (tail)
	OK        bool     // "Model checking completed. No error has been found." or simulation finished without error
	Wall      time.Duration
}

var reStates = regexp.MustCompile(`^(\d+) states generated, (\d+) distinct states found`)
var reDepth = regexp.MustCompile(`^The depth of the complete state graph search is (\d+)`)

var tlcSeq int64

// prepareSpec copies /verif/spec into the run's scratch directory (once).
func (c *Ctx) specDir() string {
	dst := filepath.Join(c.Out, "spec")
	if _, err := os.Stat(dst); err == nil {
		return dst
	}
	os.MkdirAll(dst, 0o755)
	src := filepath.Join(verifRoot, "spec")
	ents, err := os.ReadDir(src)
	if err != nil {
		infra("read spec dir: %v", err)
	}
	for _, e := range ents {
		if e.IsDir() || !(strings.HasSuffix(e.Name(), ".tla") || strings.HasSuffix(e.Name(), ".cfg")) {
			continue
		}
		b, err := os.ReadFile(filepath.Join(src, e.Name()))
		if err != nil {
			infra("read spec: %v", err)
		}
		os.WriteFile(filepath.Join(dst, e.Name()), b, 0o644)
	}
	return dst
}

// TLC runs the model checker. A TLC-level error (invariant violated on the
// model, parse error, timeout) is an infrastructure failure unless AllowErr.
func (c *Ctx) TLC(opt TLCOpt) *TLCResult {
	dir := c.specDir()
	n := atomic.AddInt64(&tlcSeq, 1)
	cfgName := fmt.Sprintf("%s_run%d.cfg", opt.Module, n)
	if err := os.WriteFile(filepath.Join(dir, cfgName), []byte(opt.Cfg), 0o644); err != nil {
		infra("write cfg: %v", err)
	}
	for name, content := range opt.Files {
		if err := os.WriteFile(filepath.Join(dir, name), []byte(content), 0o644); err != nil {
			infra("write %s: %v", name, err)
		}
	}
	workers := opt.Workers
	if workers == 0 {
		workers = 16
	}
	timeout := opt.Timeout
	if timeout == 0 {
		timeout = 45 * time.Minute
	}
	heap := opt.Heap
	if heap == "" {
		heap = "12g"
	}
	meta := filepath.Join(c.Out, fmt.Sprintf("md%d", n))
	jargs := []string{"-XX:+UseParallelGC", "-Xmx" + heap, "-Xss256m", "-Djava.io.tmpdir=" + dir}
	if opt.DFS {
		jargs = append(jargs, "-Dtlc2.tool.queue.IStateQueue=StateDeque")
	}
	jargs = append(jargs, "-cp", "/opt/veriftools/tla/tla2tools.jar:/opt/veriftools/tla/CommunityModules-deps.jar", "tlc2.TLC",
		"-metadir", meta, "-workers", strconv.Itoa(workers), "-config", cfgName)
	jargs = append(jargs, opt.Extra...)
	jargs = append(jargs, opt.Module+".tla")
	ctx, cancel := context.WithTimeout(context.Background(), timeout)
	defer cancel()
	cmd := exec.CommandContext(ctx, "java", jargs...)
	cmd.Dir = dir
	cmd.Env = append(os.Environ(), "JAVA_TOOL_OPTIONS=")
	stdout, err := cmd.StdoutPipe()
	if err != nil {
		infra("tlc pipe: %v", err)
	}
	cmd.Stderr = cmd.Stdout
	start := time.Now()
	if err := cmd.Start(); err != nil {
		infra("tlc start: %v", err)
	}
	res := &TLCResult{}
	rd := bufio.NewReaderSize(stdout, 1<<20)
	inErr := 0
	for {
		line, err := rd.ReadBytes('\n')
		if len(line) > 0 {
			l := strings.TrimRight(string(line), "\r\n")
			if strings.HasPrefix(l, `"VEC `) {
				s, uerr := tlaUnquote(l)
				if uerr != nil {
					infra("cannot unquote vector line: %v: %.200s", uerr, l)
				}
				res.Vectors++
				if opt.OnVec != nil {
					opt.OnVec([]byte(s[4:]))
				}
			} else {
				if opt.Grep != nil && len(res.Grepped) < 20000 && opt.Grep.MatchString(l) {
					res.Grepped = append(res.Grepped, l)
				}
				if m := reStates.FindStringSubmatch(l); m != nil {
					res.Generated, _ = strconv.ParseInt(m[1], 10, 64)
					res.Distinct, _ = strconv.ParseInt(m[2], 10, 64)
				}
				if m := reDepth.FindStringSubmatch(l); m != nil {
					res.Depth, _ = strconv.Atoi(m[1])
				}
				if strings.Contains(l, "No error has been found") {
					res.OK = true
				}
				if strings.HasPrefix(l, "Error:") || strings.Contains(l, "StackOverflowError") || strings.Contains(l, "OutOfMemoryError") {
					inErr = 40
				}
				if inErr > 0 {
					res.Errors = append(res.Errors, l)
					inErr--
				}
				res.Output = append(res.Output, l)
				if len(res.Output) > 600 { // keep the head and the tail
					res.Output = append(res.Output[:200], res.Output[201:]...)
				}
			}
		}
		if err != nil {
			if err != io.EOF {
				infra("tlc read: %v", err)
			}
			break
		}
	}
	werr := cmd.Wait()
	res.Wall = time.Since(start)
	os.RemoveAll(meta)
	if ctx.Err() != nil {
		infra("TLC timed out after %v on %s", timeout, opt.Module)
	}
	if len(res.Errors) > 0 {
		res.OK = false
	}
	if len(opt.Extra) > 0 && strings.HasPrefix(opt.Extra[0], "-simulate") && len(res.Errors) == 0 && werr == nil {
		res.OK = true
	}
	if !res.OK && !opt.AllowErr {
		tail := res.Errors
		if len(tail) == 0 {
			tail = res.Output
			if len(tail) > 30 {
				tail = tail[len(tail)-30:]
			}
		}
		infra("TLC failed on %s (exit %v):\n%s", opt.Module, werr, strings.Join(tail, "\n"))
	}
	c.Count("states", res.Distinct)
	c.Count("transitions", res.Generated)
	return res
}

// tlaUnquote undoes TLC's printing of a string value: "..." with \" \\ \n \t \r \f escapes.
func tlaUnquote(l string) (string, error) {
	if len(l) < 2 || l[0] != '"' || l[len(l)-1] != '"' {
		return "", fmt.Errorf("not a quoted string")
	}
	in := l[1 : len(l)-1]
	var sb strings.Builder
	sb.Grow(len(in))
	for i := 0; i < len(in); i++ {
		ch := in[i]
		if ch != '\\' {
			sb.WriteByte(ch)
			continue
		}
		i++
		if i >= len(in) {
			return "", fmt.Errorf("dangling backslash")
		}
		switch in[i] {
		case '"':
			sb.WriteByte('"')
		case '\\':
			sb.WriteByte('\\')
		case 'n':
			sb.WriteByte('\n')
		case 't':
			sb.WriteByte('\t')
		case 'r':
			sb.WriteByte('\r')
		case 'f':
			sb.WriteByte('\f')
		default:
			sb.WriteByte('\\')
			sb.WriteByte(in[i])
		}
	}
	return sb.String(), nil
}

// VecDecode decodes a vector into v, failing as infrastructure on error.
func VecDecode(raw []byte, v any) {
	dec := json.NewDecoder(strings.NewReader(string(raw)))
	if err := dec.Decode(v); err != nil {
		infra("bad vector JSON: %v: %.300s", err, raw)
	}
}

// cfgText builds a .cfg from parts.
func cfgText(lines ...string) string { return strings.Join(lines, "\n") + "\n" }
